import Tengo.Proofs.C10HeapInvRefs
import Tengo.Props.C10Heap
/-!
C10 over the heap model — separation is an invariant.

A REGION is a set of cells `A` that is closed under the pointers of the heap (`Region h A`: the store of a header in
`A` is in `A`, and every reference stored in its window / its Go map / its error payload points into `A`) and contains
every cell not allocated yet (`NewIn h A`). `step_region`: an operation all of whose operand handles hold values
inside `A` (`InV A`) keeps `A` a region, and every handle it pushes holds a value inside `A`. So whatever is done
with handles of one side stays on that side: the reachable set of the side grows by newly allocated cells only.
-/
namespace Tengo.Proofs.C10Heap
open Tengo.Model.Heap9 Tengo.Model.HeapCopy Tengo.Props.C09

/-- The value is a scalar or a reference to an object of the cell set. -/
def InV (A : Cell → Prop) (v : Val) : Prop := ∀ r, v = .ref r → A (.obj r)

theorem inV_scalar {A : Cell → Prop} {v : Val} (hv : ∀ r, v ≠ .ref r) : InV A v := fun r e => absurd e (hv r)

theorem inV_undef {A : Cell → Prop} : InV A .undef := inV_scalar (by intro r; simp)

/-- `A` is closed under the pointers of the heap. -/
structure Region (h : Heap) (A : Cell → Prop) : Prop where
  arr : ∀ (r : Nat) (m : Bool) (s off len cap : Nat), A (.obj r) → h.obj r = Obj.arr m s off len cap →
    A (.arr s) ∧ ∀ x ∈ h.content s off len, InV A x
  map : ∀ (r : Nat) (m : Bool) (s : Nat), A (.obj r) → h.obj r = Obj.map m s →
    A (.map s) ∧ ∀ x ∈ (h.mstore s).map Prod.snd, InV A x
  err : ∀ (r : Nat) (p : Val), A (.obj r) → h.obj r = Obj.err p → InV A p

/-- Every cell that is not allocated yet belongs to `A`. -/
def NewIn (h : Heap) (A : Cell → Prop) : Prop := ∀ c, IsNew h c → A c

/-- A region that owns all future allocations. -/
structure RI (h : Heap) (A : Cell → Prop) : Prop where
  reg : Region h A
  new : NewIn h A

/-- Everything reachable from a value inside a region is inside the region. -/
theorem region_reach {h : Heap} {A : Cell → Prop} (rg : Region h A) {v : Val} {c : Cell} (rc : Reach h v c) :
    InV A v → A c := by
  induction rc with
  | obj _ => intro iv; exact iv _ rfl
  | arrStore ho => intro iv; exact (rg.arr _ _ _ _ _ _ (iv _ rfl) ho).1
  | arrElem ho hx _ ih => intro iv; exact ih ((rg.arr _ _ _ _ _ _ (iv _ rfl) ho).2 _ hx)
  | mapStore ho => intro iv; exact (rg.map _ _ _ (iv _ rfl) ho).1
  | mapElem ho hx _ ih => intro iv; exact ih ((rg.map _ _ _ (iv _ rfl) ho).2 _ hx)
  | errPayload ho _ ih => intro iv; exact ih (rg.err _ _ (iv _ rfl) ho)

/-- What a reachable object reaches is reachable. -/
theorem reach_via_obj {h : Heap} {a : Val} {c0 : Cell} (ra : Reach h a c0) :
    ∀ {r : Nat} {c : Cell}, c0 = .obj r → Reach h (.ref r) c → Reach h a c := by
  induction ra with
  | obj _ => intro r c e rc; injection e with e; subst e; exact rc
  | arrStore _ => intro r c e; cases e
  | arrElem ho hx _ ih => intro r c e rc; exact .arrElem ho hx (ih e rc)
  | mapStore _ => intro r c e; cases e
  | mapElem ho hx _ ih => intro r c e rc; exact .mapElem ho hx (ih e rc)
  | errPayload ho _ ih => intro r c e rc; exact .errPayload ho (ih e rc)

/-- The cells reachable from the values of a set `V`, plus every cell not allocated yet. -/
def Side (h : Heap) (V : Val → Prop) : Cell → Prop := fun c => (∃ v, V v ∧ Reach h v c) ∨ IsNew h c

theorem obj_dead_of_le {h : Heap} {r : Nat} (hl : h.objs.length ≤ r) : h.obj r = .dead := by
  simp [Heap.obj, List.getD_eq_getElem?_getD, List.getElem?_eq_none hl]

/-- In a heap without dangling references, what a set of values reaches (plus the unallocated cells) is a region. -/
theorem ri_side {h : Heap} (w : Wf h) (V : Val → Prop) : RI h (Side h V) := by
  have hin : ∀ {x : Val}, OldVal h x → ∀ {a : Val}, V a → (∀ c, Reach h x c → Reach h a c) → InV (Side h V) x := by
    intro x ox a va sub q e
    subst e
    exact .inl ⟨a, va, sub _ (.obj (ox q rfl))⟩
  refine ⟨⟨?_, ?_, ?_⟩, fun c n => .inr n⟩
  · intro r m s off len cap ar ho
    rcases ar with ⟨a, va, ra⟩ | n
    · refine ⟨.inl ⟨a, va, reach_via_obj ra rfl (.arrStore ho)⟩, ?_⟩
      intro x hx
      exact hin (old_content w hx) va (fun c rc => reach_via_obj ra rfl (.arrElem ho hx rc))
    · rw [obj_dead_of_le n] at ho; cases ho
  · intro r m s ar ho
    rcases ar with ⟨a, va, ra⟩ | n
    · refine ⟨.inl ⟨a, va, reach_via_obj ra rfl (.mapStore ho)⟩, ?_⟩
      intro x hx
      exact hin (old_mstore w hx) va (fun c rc => reach_via_obj ra rfl (.mapElem ho hx rc))
    · rw [obj_dead_of_le n] at ho; cases ho
  · intro r p ar ho
    rcases ar with ⟨a, va, ra⟩ | n
    · exact hin (old_payload w ho) va (fun c rc => reach_via_obj ra rfl (.errPayload ho rc))
    · rw [obj_dead_of_le n] at ho; cases ho

theorem inV_side {h : Heap} {V : Val → Prop} {v : Val} (hv : V v) : InV (Side h V) v := by
  intro r e
  subst e
  by_cases hl : r < h.objs.length
  · exact .inl ⟨_, hv, .obj hl⟩
  · exact .inr (Nat.le_of_not_lt hl)

/-! ### Sizes -/

/-- Nothing is ever deallocated. -/
structure Sz (h h' : Heap) : Prop where
  o : h.objs.length ≤ h'.objs.length
  a : h.astores.length ≤ h'.astores.length
  m : h.mstores.length ≤ h'.mstores.length

theorem Sz.refl (h : Heap) : Sz h h := ⟨Nat.le_refl _, Nat.le_refl _, Nat.le_refl _⟩
theorem Sz.trans {a b c : Heap} (x : Sz a b) (y : Sz b c) : Sz a c :=
  ⟨Nat.le_trans x.o y.o, Nat.le_trans x.a y.a, Nat.le_trans x.m y.m⟩

theorem isNew_of_sz {h h' : Heap} (z : Sz h h') {c : Cell} (n : IsNew h' c) : IsNew h c := by
  cases c <;> simp only [IsNew] at n ⊢
  · exact Nat.le_trans z.o n
  · exact Nat.le_trans z.a n
  · exact Nat.le_trans z.m n

theorem newIn_of_sz {h h' : Heap} {A : Cell → Prop} (z : Sz h h') (n : NewIn h A) : NewIn h' A :=
  fun c nc => n c (isNew_of_sz z nc)

theorem sz_of_ext {h h' : Heap} (e : Ext h h') : Sz h h' := by
  refine ⟨ext_olen e, ?_, ?_⟩
  · apply Nat.le_of_not_lt
    intro hlt
    have h1 : h.astores[h'.astores.length]? = some h.astores[h'.astores.length] := List.getElem?_eq_getElem hlt
    have := lt_of_lookup (e.astores _ _ h1)
    omega
  · apply Nat.le_of_not_lt
    intro hlt
    have h1 : h.mstores[h'.mstores.length]? = some h.mstores[h'.mstores.length] := List.getElem?_eq_getElem hlt
    have := lt_of_lookup (e.mstores _ _ h1)
    omega

/-! ### Stores written in place -/

/-- Position by position the new store holds what the old one held, or one of `vs`. -/
def StoreSub (st st' : List Val) (vs : List Val) : Prop :=
  ∀ (j : Nat) (x : Val), st'[j]? = some x → st[j]? = some x ∨ x ∈ vs

theorem mem_window_sub {st st' vs : List Val} (ss : StoreSub st st' vs) {off len : Nat} {x : Val}
    (hx : x ∈ (st'.drop off).take len) : x ∈ (st.drop off).take len ∨ x ∈ vs := by
  obtain ⟨j, hj⟩ := List.getElem?_of_mem hx
  rw [List.getElem?_take] at hj
  split at hj
  · rename_i hlt
    rw [List.getElem?_drop] at hj
    rcases ss _ _ hj with e | e
    · left
      apply List.mem_of_getElem? (i := j)
      rw [List.getElem?_take, if_pos hlt, List.getElem?_drop]; exact e
    · exact .inr e
  · cases hj

theorem storeSub_set (st : List Val) (i : Nat) (v : Val) : StoreSub st (st.set i v) [v] := by
  intro j x e
  rcases getElem?_set_cases _ _ _ _ _ e with e | ⟨_, e, _⟩
  · exact .inl e
  · exact .inr (by simp [e])

theorem storeSub_writeList (st : List Val) (i : Nat) (vs : List Val) : StoreSub st (writeList st i vs) vs := by
  intro j x e
  unfold writeList at e
  rw [List.append_assoc] at e
  by_cases h1 : j < (st.take i).length
  · rw [List.getElem?_append_left h1, List.getElem?_take] at e
    split at e
    · exact .inl e
    · cases e
  · rw [List.getElem?_append_right (by omega)] at e
    by_cases h2 : j - (st.take i).length < vs.length
    · rw [List.getElem?_append_left h2] at e
      exact .inr (List.mem_of_getElem? e)
    · rw [List.getElem?_append_right (by omega), List.getElem?_drop] at e
      simp only [List.length_take] at e h1 h2
      have hlt := lt_of_lookup e
      left
      have : i + vs.length + (j - min i st.length - vs.length) = j := by omega
      rw [this] at e; exact e

/-! ### Primitives keep a region -/

theorem region_same {h h' : Heap} {A : Cell → Prop} (rg : Region h A) (eo : h'.objs = h.objs)
    (ea : h'.astores = h.astores) (em : h'.mstores = h.mstores) : Region h' A := by
  have e1 : ∀ r, h'.obj r = h.obj r := fun r => by unfold Heap.obj; rw [eo]
  have e2 : ∀ s off len, h'.content s off len = h.content s off len := fun s off len => by
    unfold Heap.content Heap.astore; rw [ea]
  have e3 : ∀ s, h'.mstore s = h.mstore s := fun s => by unfold Heap.mstore; rw [em]
  refine ⟨?_, ?_, ?_⟩
  · intro r m s off len cap ar ho; rw [e1] at ho; rw [e2]; exact rg.arr _ _ _ _ _ _ ar ho
  · intro r m s ar ho; rw [e1] at ho; rw [e3]; exact rg.map _ _ _ ar ho
  · intro r p ar ho; rw [e1] at ho; exact rg.err _ _ ar ho

theorem ri_same {h h' : Heap} {A : Cell → Prop} (ri : RI h A) (eo : h'.objs = h.objs)
    (ea : h'.astores = h.astores) (em : h'.mstores = h.mstores) : RI h' A :=
  ⟨region_same ri.reg eo ea em, newIn_of_sz (h := h) ⟨by rw [eo]; exact Nat.le_refl _, by rw [ea]; exact Nat.le_refl _,
    by rw [em]; exact Nat.le_refl _⟩ ri.new⟩

theorem ri_push {h : Heap} {A : Cell → Prop} (ri : RI h A) (v : Val) : RI (h.push v) A := ri_same ri rfl rfl rfl
theorem ri_pushAll {h : Heap} {A : Cell → Prop} (ri : RI h A) (vs : List Val) : RI (h.pushAll vs) A := ri_same ri rfl rfl rfl
theorem ri_pushNew {p : Heap × Ref} {A : Cell → Prop} (ri : RI p.1 A) : RI (pushNew p).1 A := ri_push ri _

theorem astore_setA_self {h : Heap} {s : Nat} (xs : List Val) (hl : s < h.astores.length) : (h.setA s xs).astore s = xs := by
  unfold Heap.setA Heap.astore
  simp only [List.getD_eq_getElem?_getD]
  rw [List.getElem?_set_self hl]; rfl

theorem setA_noop {h : Heap} {s : Nat} (xs : List Val) (hl : ¬ s < h.astores.length) : h.setA s xs = h := by
  unfold Heap.setA
  rw [List.set_eq_of_length_le (by omega)]

theorem ri_setA {h : Heap} {A : Cell → Prop} (ri : RI h A) (s : Nat) {xs vs : List Val}
    (ss : StoreSub (h.astore s) xs vs) (iv : ∀ x ∈ vs, InV A x) : RI (h.setA s xs) A := by
  by_cases hl : s < h.astores.length
  · refine ⟨⟨?_, ?_, ?_⟩, newIn_of_sz (h := h) ⟨Nat.le_refl _, by simp [Heap.setA], Nat.le_refl _⟩ ri.new⟩
    · intro r m s' off len cap ar ho
      have ho' : h.obj r = Obj.arr m s' off len cap := ho
      obtain ⟨a1, a2⟩ := ri.reg.arr _ _ _ _ _ _ ar ho'
      refine ⟨a1, ?_⟩
      intro x hx
      by_cases e : s' = s
      · subst e
        unfold Heap.content at hx
        rw [astore_setA_self _ hl] at hx
        rcases mem_window_sub ss hx with hx | hx
        · exact a2 x hx
        · exact iv x hx
      · unfold Heap.content at hx
        rw [astore_setA_ne _ e] at hx
        exact a2 x hx
    · intro r m s' ar ho; exact ri.reg.map _ _ _ ar ho
    · intro r p ar ho; exact ri.reg.err _ _ ar ho
  · rw [setA_noop _ hl]; exact ri

theorem mstore_setM_self {h : Heap} {s : Nat} (xs : List (String × Val)) (hl : s < h.mstores.length) :
    (h.setM s xs).mstore s = xs := by
  unfold Heap.setM Heap.mstore
  simp only [List.getD_eq_getElem?_getD]
  rw [List.getElem?_set_self hl]; rfl

theorem ri_setM {h : Heap} {A : Cell → Prop} (ri : RI h A) (s : Nat) {kvs : List (String × Val)}
    (iv : ∀ x ∈ kvs.map Prod.snd, x ∈ (h.mstore s).map Prod.snd ∨ InV A x) : RI (h.setM s kvs) A := by
  by_cases hl : s < h.mstores.length
  · refine ⟨⟨?_, ?_, ?_⟩, newIn_of_sz (h := h) ⟨Nat.le_refl _, Nat.le_refl _, by simp [Heap.setM]⟩ ri.new⟩
    · intro r m s' off len cap ar ho; exact ri.reg.arr _ _ _ _ _ _ ar ho
    · intro r m s' ar ho
      have ho' : h.obj r = Obj.map m s' := ho
      obtain ⟨a1, a2⟩ := ri.reg.map _ _ _ ar ho'
      refine ⟨a1, ?_⟩
      intro x hx
      by_cases e : s' = s
      · subst e
        rw [mstore_setM_self _ hl] at hx
        rcases iv x hx with hx | hx
        · exact a2 x hx
        · exact hx
      · rw [mstore_setM_ne _ e] at hx
        exact a2 x hx
    · intro r p ar ho; exact ri.reg.err _ _ ar ho
  · have : h.setM s kvs = h := by
      unfold Heap.setM
      rw [List.set_eq_of_length_le (by omega)]
    rw [this]; exact ri

/-- The object may be put into the region: what it points to is inside. -/
def ObjIn (h : Heap) (A : Cell → Prop) : Obj → Prop
  | .arr _ s off len _ => A (.arr s) ∧ ∀ x ∈ h.content s off len, InV A x
  | .map _ s => A (.map s) ∧ ∀ x ∈ (h.mstore s).map Prod.snd, InV A x
  | .err p => InV A p
  | .dead => True

theorem obj_alloc_lt {h : Heap} (o : Obj) {r : Nat} (hl : r < h.objs.length) : (h.allocObj o).1.obj r = h.obj r := by
  simp [Heap.allocObj, Heap.obj, List.getD_eq_getElem?_getD, List.getElem?_append_left hl]

theorem obj_alloc_self (h : Heap) (o : Obj) : (h.allocObj o).1.obj h.objs.length = o := by
  simp [Heap.allocObj, Heap.obj, List.getD_eq_getElem?_getD]

theorem obj_alloc_gt {h : Heap} (o : Obj) {r : Nat} (hl : h.objs.length < r) : (h.allocObj o).1.obj r = .dead := by
  apply obj_dead_of_le; simp [Heap.allocObj]; omega

theorem region_objIn {h h' : Heap} {A : Cell → Prop} (ea : h'.astores = h.astores) (em : h'.mstores = h.mstores)
    (rg : Region h A) (oi : ∀ r, A (.obj r) → h'.obj r = h.obj r ∨ ObjIn h A (h'.obj r)) : Region h' A := by
  have e2 : ∀ s off len, h'.content s off len = h.content s off len := fun s off len => by
    unfold Heap.content Heap.astore; rw [ea]
  have e3 : ∀ s, h'.mstore s = h.mstore s := fun s => by unfold Heap.mstore; rw [em]
  refine ⟨?_, ?_, ?_⟩
  · intro r m s off len cap ar ho
    rw [e2]
    rcases oi r ar with e | oin
    · rw [e] at ho; exact rg.arr _ _ _ _ _ _ ar ho
    · rw [ho] at oin; exact oin
  · intro r m s ar ho
    rw [e3]
    rcases oi r ar with e | oin
    · rw [e] at ho; exact rg.map _ _ _ ar ho
    · rw [ho] at oin; exact oin
  · intro r p ar ho
    rcases oi r ar with e | oin
    · rw [e] at ho; exact rg.err _ _ ar ho
    · rw [ho] at oin; exact oin

theorem ri_allocObj {h : Heap} {A : Cell → Prop} (ri : RI h A) {o : Obj} (oi : ObjIn h A o) : RI (h.allocObj o).1 A := by
  refine ⟨region_objIn (h := h) rfl rfl ri.reg ?_, newIn_of_sz (h := h) ⟨by simp [Heap.allocObj], Nat.le_refl _, Nat.le_refl _⟩ ri.new⟩
  intro r _
  rcases Nat.lt_trichotomy r h.objs.length with hl | hl | hl
  · exact .inl (obj_alloc_lt o hl)
  · subst hl; rw [obj_alloc_self]; exact .inr oi
  · rw [obj_alloc_gt o hl]; exact .inr trivial

theorem ri_setObj {h : Heap} {A : Cell → Prop} (ri : RI h A) (r : Nat) {o : Obj} (oi : ObjIn h A o) : RI (h.setObj r o) A := by
  refine ⟨region_objIn (h := h) rfl rfl ri.reg ?_, newIn_of_sz (h := h) ⟨by simp [Heap.setObj], Nat.le_refl _, Nat.le_refl _⟩ ri.new⟩
  intro q _
  by_cases e : q = r
  · subst e
    by_cases hl : q < h.objs.length
    · right
      have : (h.setObj q o).obj q = o := by
        simp [Heap.setObj, Heap.obj, List.getD_eq_getElem?_getD, List.getElem?_set_self hl]
      rw [this]; exact oi
    · left
      unfold Heap.setObj Heap.obj
      rw [List.set_eq_of_length_le (by omega)]
  · left
    unfold Heap.setObj Heap.obj
    simp only [List.getD_eq_getElem?_getD]
    rw [List.getElem?_set_ne (Ne.symm e)]

/-- A new backing array holding values of the region. -/
theorem ri_addStore {h : Heap} {A : Cell → Prop} (ri : RI h A) {st : List Val} (iv : ∀ x ∈ st, InV A x) :
    RI { h with astores := h.astores ++ [st] } A := by
  refine ⟨⟨?_, ?_, ?_⟩, newIn_of_sz (h := h) ⟨Nat.le_refl _, by simp, Nat.le_refl _⟩ ri.new⟩
  · intro r m s off len cap ar ho
    have ho' : h.obj r = Obj.arr m s off len cap := ho
    obtain ⟨a1, a2⟩ := ri.reg.arr _ _ _ _ _ _ ar ho'
    refine ⟨a1, ?_⟩
    intro x hx
    rcases Nat.lt_trichotomy s h.astores.length with hl | hl | hl
    · have : ({ h with astores := h.astores ++ [st] } : Heap).content s off len = h.content s off len := by
        simp [Heap.content, Heap.astore, List.getD_eq_getElem?_getD, List.getElem?_append_left hl]
      rw [this] at hx; exact a2 x hx
    · subst hl
      have : ({ h with astores := h.astores ++ [st] } : Heap).content h.astores.length off len = (st.drop off).take len := by
        simp [Heap.content, Heap.astore, List.getD_eq_getElem?_getD]
      rw [this] at hx
      exact iv x (List.mem_of_mem_drop (List.mem_of_mem_take hx))
    · have : ({ h with astores := h.astores ++ [st] } : Heap).content s off len = [] := by
        simp [Heap.content, Heap.astore, List.getD_eq_getElem?_getD]
        rw [List.getElem?_eq_none (by simp; omega)]; simp
      rw [this] at hx; cases hx
  · intro r m s ar ho; exact ri.reg.map _ _ _ ar ho
  · intro r p ar ho; exact ri.reg.err _ _ ar ho

theorem ri_addMStore {h : Heap} {A : Cell → Prop} (ri : RI h A) {kvs : List (String × Val)}
    (iv : ∀ x ∈ kvs.map Prod.snd, InV A x) : RI { h with mstores := h.mstores ++ [kvs] } A := by
  refine ⟨⟨?_, ?_, ?_⟩, newIn_of_sz (h := h) ⟨Nat.le_refl _, Nat.le_refl _, by simp⟩ ri.new⟩
  · intro r m s off len cap ar ho; exact ri.reg.arr _ _ _ _ _ _ ar ho
  · intro r m s ar ho
    have ho' : h.obj r = Obj.map m s := ho
    obtain ⟨a1, a2⟩ := ri.reg.map _ _ _ ar ho'
    refine ⟨a1, ?_⟩
    intro x hx
    rcases Nat.lt_trichotomy s h.mstores.length with hl | hl | hl
    · have : ({ h with mstores := h.mstores ++ [kvs] } : Heap).mstore s = h.mstore s := by
        simp [Heap.mstore, List.getD_eq_getElem?_getD, List.getElem?_append_left hl]
      rw [this] at hx; exact a2 x hx
    · subst hl
      have : ({ h with mstores := h.mstores ++ [kvs] } : Heap).mstore h.mstores.length = kvs := by
        simp [Heap.mstore, List.getD_eq_getElem?_getD]
      rw [this] at hx
      exact iv x hx
    · have : ({ h with mstores := h.mstores ++ [kvs] } : Heap).mstore s = [] := by
        simp [Heap.mstore, List.getD_eq_getElem?_getD]
        rw [List.getElem?_eq_none (by simp; omega)]; simp
      rw [this] at hx; simp at hx
  · intro r p ar ho; exact ri.reg.err _ _ ar ho

theorem content_added {h : Heap} (st : List Val) (off len : Nat) :
    ({ h with astores := h.astores ++ [st] } : Heap).content h.astores.length off len = (st.drop off).take len := by
  simp [Heap.content, Heap.astore, List.getD_eq_getElem?_getD]

theorem ri_newArr {h : Heap} {A : Cell → Prop} (ri : RI h A) (mu : Bool) {xs : List Val} (iv : ∀ x ∈ xs, InV A x) (cap : Nat) :
    RI (h.newArr mu xs cap).1 A := by
  have iv' : ∀ x ∈ xs ++ List.replicate (max cap xs.length - xs.length) Val.undef, InV A x := by
    intro x hx
    rcases List.mem_append.mp hx with hx | hx
    · exact iv x hx
    · rw [List.mem_replicate] at hx; rw [hx.2]; exact inV_undef
  have r1 := ri_addStore ri iv'
  have := ri_allocObj r1 (o := Obj.arr mu h.astores.length 0 xs.length (max cap xs.length)) (by
    refine ⟨ri.new _ (by simp [IsNew]), ?_⟩
    intro x hx
    rw [content_added] at hx
    exact iv' x (List.mem_of_mem_drop (List.mem_of_mem_take hx)))
  exact this

theorem ri_newMap {h : Heap} {A : Cell → Prop} (ri : RI h A) (mu : Bool) {kvs : List (String × Val)}
    (iv : ∀ x ∈ kvs.map Prod.snd, InV A x) : RI (h.newMap mu kvs).1 A := by
  have r1 := ri_addMStore ri iv
  have := ri_allocObj r1 (o := Obj.map mu h.mstores.length) (by
    refine ⟨ri.new _ (by simp [IsNew]), ?_⟩
    intro x hx
    have e : ({ h with mstores := h.mstores ++ [kvs] } : Heap).mstore h.mstores.length = kvs := by
      simp [Heap.mstore, List.getD_eq_getElem?_getD]
    rw [e] at hx
    exact iv x hx)
  exact this

theorem inV_new {h : Heap} {A : Cell → Prop} (n : NewIn h A) {r : Nat} (hl : h.objs.length ≤ r) : InV A (.ref r) := by
  intro q e; injection e with e; subst e; exact n _ hl

/-! ### Handles -/

/-- Every handle of `h'` is a handle of `h` at the same index, or holds a value of the region. -/
def RegsFrom (h h' : Heap) (A : Cell → Prop) : Prop :=
  ∀ (i : Nat) (v : Val), h'.regs[i]? = some v → h.regs[i]? = some v ∨ InV A v

theorem regsFrom_same {h h' : Heap} {A : Cell → Prop} (e : h'.regs = h.regs) : RegsFrom h h' A :=
  fun i v hv => .inl (by rw [← e]; exact hv)

theorem regsFrom_app {h h' : Heap} {A : Cell → Prop} {vs : List Val} (e : h'.regs = h.regs ++ vs)
    (iv : ∀ v ∈ vs, InV A v) : RegsFrom h h' A := by
  intro i v hv
  rw [e] at hv
  by_cases hl : i < h.regs.length
  · rw [List.getElem?_append_left hl] at hv; exact .inl hv
  · rw [List.getElem?_append_right (by omega)] at hv
    exact .inr (iv v (List.mem_of_getElem? hv))

theorem regsFrom_push {h h' : Heap} {A : Cell → Prop} {v : Val} (e : h'.regs = h.regs ++ [v]) (iv : InV A v) :
    RegsFrom h h' A :=
  regsFrom_app e (fun x hx => by rw [List.mem_singleton] at hx; rw [hx]; exact iv)

theorem regsFrom_consume {h h' : Heap} {A : Cell → Prop} {x : Nat} {v : Val} (e : h'.regs = h.regs.set x .undef ++ [v])
    (iv : InV A v) : RegsFrom h h' A := by
  intro i w hw
  rw [e] at hw
  by_cases hl : i < (h.regs.set x .undef).length
  · rw [List.getElem?_append_left hl] at hw
    rcases getElem?_set_cases _ _ _ _ _ hw with hw | ⟨_, hw, _⟩
    · exact .inl hw
    · rw [hw]; exact .inr inV_undef
  · rw [List.getElem?_append_right (by omega)] at hw
    have := List.mem_of_getElem? hw
    rw [List.mem_singleton] at this; rw [this]; exact .inr iv

/-- Region kept, handles inside. -/
structure Keep (h h' : Heap) (A : Cell → Prop) : Prop where
  ri : RI h' A
  regs : RegsFrom h h' A

theorem Keep.refl {h : Heap} {A : Cell → Prop} (ri : RI h A) : Keep h h A := ⟨ri, fun _ _ hv => .inl hv⟩

/-! ### Element reads and writes -/

theorem in_regsOf {h : Heap} {A : Cell → Prop} : ∀ (is : List Nat) (vs : List Val), regsOf h is = some vs →
    (∀ x ∈ is, ∀ v, h.regs[x]? = some v → InV A v) → ∀ v ∈ vs, InV A v
  | [], vs, e, _, v, hv => by simp [regsOf] at e; subst e; cases hv
  | i :: is, vs, e, hin, v, hv => by
    unfold regsOf at e
    split at e
    · rename_i v0 vs0 h0 h1
      injection e with e; subst e
      rcases List.mem_cons.mp hv with rfl | hv
      · exact hin i (List.mem_cons_self ..) _ h0
      · exact in_regsOf is vs0 h1 (fun x hx => hin x (List.mem_cons_of_mem _ hx)) v hv
    · cases e

theorem indexGet_in {h : Heap} {A : Cell → Prop} (rg : Region h A) {a i next : Val} (ia : InV A a)
    (e : indexGet h a i = .val next) : InV A next := by
  unfold indexGet at e
  split at e
  · injection e with e; subst e; exact inV_undef
  · cases e
  · cases e
  · split at e <;> cases e
  · rename_i r
    split at e
    · rename_i m s off len cap ho
      split at e
      · split at e
        · injection e with e; subst e; exact inV_undef
        · injection e with e
          rename_i n _
          cases hn : (h.content s off len)[n.toNat]? with
          | none => rw [hn] at e; simp at e; subst e; exact inV_undef
          | some y =>
            rw [hn] at e; simp at e; subst e
            exact (rg.arr _ _ _ _ _ _ (ia _ rfl) ho).2 _ (List.mem_of_getElem? hn)
      · cases e
      · cases e
    · rename_i m s ho
      split at e
      · injection e with e
        rename_i k _
        cases hn : mlookup k (h.mstore s) with
        | none => rw [hn] at e; simp at e; subst e; exact inV_undef
        | some y =>
          rw [hn] at e; simp at e; subst e
          exact (rg.map _ _ _ (ia _ rfl) ho).2 _ (mlookup_mem _ hn)
      · cases e
      · cases e
    · rename_i p ho
      split at e
      · split at e
        · injection e with e; subst e; exact rg.err _ _ (ia _ rfl) ho
        · cases e
      · cases e
      · cases e
    · cases e

theorem arrSet_ri {h : Heap} {A : Cell → Prop} (ri : RI h A) (s off len : Nat) (n : Int) {v : Val} (iv : InV A v) :
    RI (arrSet h s off len n v).1 A := by
  unfold arrSet
  split
  · exact ri
  · exact ri_setA ri _ (storeSub_set _ _ _) (fun x hx => by rw [List.mem_singleton] at hx; rw [hx]; exact iv)

theorem indexSet_ri {h : Heap} {A : Cell → Prop} (ri : RI h A) (dst idx : Val) {v : Val} (iv : InV A v) :
    RI (indexSet h dst idx v).1 A := by
  unfold indexSet
  repeat' split
  all_goals first
    | exact ri
    | exact arrSet_ri ri _ _ _ _ iv
    | (refine ri_setM ri _ ?_
       intro x hx
       rcases mem_minsert _ hx with hx | rfl
       · exact .inl hx
       · exact .inr iv)

theorem indexAssign_ri {h : Heap} {A : Cell → Prop} (ri : RI h A) (dst : Val) (sels : List Val) {src : Val}
    (iv : InV A src) : RI (indexAssign h dst sels src).1 A := by
  induction sels generalizing dst with
  | nil => exact ri
  | cons i rest ih =>
    cases rest with
    | nil => exact indexSet_ri ri _ _ iv
    | cons j rest' =>
      unfold indexAssign
      split
      · exact ih _
      · exact ri
      · exact ri

theorem indexSet_regs (h : Heap) (dst idx v : Val) : (indexSet h dst idx v).1.regs = h.regs := by
  unfold indexSet arrSet
  repeat' split
  all_goals rfl

theorem indexAssign_regs (h : Heap) (dst : Val) (sels : List Val) (src : Val) : (indexAssign h dst sels src).1.regs = h.regs := by
  induction sels generalizing dst with
  | nil => rfl
  | cons i rest ih =>
    cases rest with
    | nil => exact indexSet_regs _ _ _ _
    | cons j rest' =>
      unfold indexAssign
      split
      · exact ih _
      · rfl
      · rfl

/-! ### The operations -/

theorem keep_pushNew {h : Heap} {p : Heap × Ref} {A : Cell → Prop} (ri : RI p.1 A) (er : p.1.regs = h.regs)
    (hl : h.objs.length ≤ p.2) (n : NewIn h A) : Keep h (pushNew p).1 A :=
  ⟨ri_pushNew ri, regsFrom_push (v := .ref p.2) (by simp [pushNew, Heap.push, er]) (inV_new n hl)⟩

theorem keep_newArr {h : Heap} {A : Cell → Prop} (ri : RI h A) (mu : Bool) {xs : List Val} (iv : ∀ x ∈ xs, InV A x) (cap : Nat) :
    Keep h (pushNew (h.newArr mu xs cap)).1 A :=
  keep_pushNew (ri_newArr ri mu iv cap) rfl (Nat.le_refl _) ri.new

theorem keep_allocObj {h : Heap} {A : Cell → Prop} (ri : RI h A) {o : Obj} (oi : ObjIn h A o) :
    Keep h (pushNew (h.allocObj o)).1 A :=
  keep_pushNew (ri_allocObj ri oi) rfl (Nat.le_refl _) ri.new

theorem keep_push {h : Heap} {A : Cell → Prop} (ri : RI h A) {v : Val} (iv : InV A v) : Keep h (h.push v) A :=
  ⟨ri_push ri v, regsFrom_push rfl iv⟩

theorem in_content {h : Heap} {A : Cell → Prop} (rg : Region h A) {r s off len cap : Nat} {m : Bool}
    (ia : InV A (.ref r)) (ho : h.obj r = Obj.arr m s off len cap) : ∀ x ∈ h.content s off len, InV A x :=
  (rg.arr _ _ _ _ _ _ (ia _ rfl) ho).2

theorem in_mstore {h : Heap} {A : Cell → Prop} (rg : Region h A) {r s : Nat} {m : Bool}
    (ia : InV A (.ref r)) (ho : h.obj r = Obj.map m s) : ∀ x ∈ (h.mstore s).map Prod.snd, InV A x :=
  (rg.map _ _ _ (ia _ rfl) ho).2

/-- A header over the store of a header of the region, with a window whose elements are in the region. -/
theorem objIn_arr {h : Heap} {A : Cell → Prop} (rg : Region h A) {r s off len cap : Nat} {m : Bool}
    (ia : InV A (.ref r)) (ho : h.obj r = Obj.arr m s off len cap) (m' : Bool) {off' len' : Nat} (cap' : Nat)
    (iv : ∀ x ∈ h.content s off' len', InV A x) : ObjIn h A (Obj.arr m' s off' len' cap') :=
  ⟨(rg.arr _ _ _ _ _ _ (ia _ rfl) ho).1, iv⟩

/-- The window of an in-place `append` / `splice`: the old window up to the write position, then the new items. -/
theorem mem_window_writeList_ext {st vs : List Val} {off len : Nat} {x : Val}
    (hx : x ∈ ((writeList st (off + len) vs).drop off).take (len + vs.length)) :
    x ∈ (st.drop off).take len ∨ x ∈ vs := by
  obtain ⟨j, hj⟩ := List.getElem?_of_mem hx
  rw [List.getElem?_take] at hj
  split at hj
  · rename_i hlt
    rw [List.getElem?_drop] at hj
    unfold writeList at hj
    rw [List.append_assoc] at hj
    by_cases h1 : off + j < (st.take (off + len)).length
    · rw [List.getElem?_append_left h1, List.getElem?_take] at hj
      split at hj
      · left
        apply List.mem_of_getElem? (i := j)
        rw [List.getElem?_take, if_pos (by omega), List.getElem?_drop]; exact hj
      · cases hj
    · rw [List.getElem?_append_right (by omega)] at hj
      by_cases h2 : off + j - (st.take (off + len)).length < vs.length
      · rw [List.getElem?_append_left h2] at hj
        exact .inr (List.mem_of_getElem? hj)
      · rw [List.getElem?_append_right (by omega), List.getElem?_drop] at hj
        simp only [List.length_take] at hj h1 h2
        have := lt_of_lookup hj
        omega
  · cases hj

theorem mem_take_mono {l : List Val} {a b : Nat} {x : Val} (hab : a ≤ b) (hx : x ∈ l.take a) : x ∈ l.take b := by
  obtain ⟨j, hj⟩ := List.getElem?_of_mem hx
  rw [List.getElem?_take] at hj
  split at hj
  · apply List.mem_of_getElem? (i := j)
    rw [List.getElem?_take, if_pos (by omega)]; exact hj
  · cases hj

theorem mem_subwindow {st : List Val} {off len l u : Nat} {x : Val} (hu : u ≤ len)
    (hx : x ∈ (st.drop (off + l)).take (u - l)) : x ∈ (st.drop off).take len := by
  obtain ⟨j, hj⟩ := List.getElem?_of_mem hx
  rw [List.getElem?_take] at hj
  split at hj
  · rw [List.getElem?_drop] at hj
    apply List.mem_of_getElem? (i := l + j)
    rw [List.getElem?_take, if_pos (by omega), List.getElem?_drop]
    rw [← hj]; congr 1; omega
  · cases hj

theorem clampIdx_le' (i : Int) (n : Nat) : clampIdx i n ≤ n := by
  unfold clampIdx
  split
  · omega
  · split
    · omega
    · omega

theorem astore_nil_of_le {h : Heap} {s : Nat} (hl : ¬ s < h.astores.length) : h.astore s = [] := by
  simp [Heap.astore, List.getD_eq_getElem?_getD, List.getElem?_eq_none (Nat.le_of_not_lt hl)]

/-- The window `[off, off+len+|vs|)` after writing `vs` at `off+len` in place. -/
theorem content_inplace {h : Heap} {s off len : Nat} {vs : List Val} {y : Val}
    (hy : y ∈ (h.setA s (writeList (h.astore s) (off + len) vs)).content s off (len + vs.length)) :
    y ∈ h.content s off len ∨ y ∈ vs := by
  by_cases hl : s < h.astores.length
  · unfold Heap.content at hy
    rw [astore_setA_self _ hl] at hy
    exact mem_window_writeList_ext hy
  · rw [setA_noop _ hl] at hy
    unfold Heap.content at hy
    rw [astore_nil_of_le hl] at hy
    simp at hy

theorem stepAppend_keep {h : Heap} {A : Cell → Prop} (ri : RI h A) (x : Nat) (items : List Nat) (nc : Nat)
    (hin : ∀ y ∈ x :: items, ∀ v, h.regs[y]? = some v → InV A v) : Keep h (stepAppend h x items nc).1 A := by
  unfold stepAppend
  split
  · rename_i v vs hx hvs
    have ia : InV A v := hin x (List.mem_cons_self ..) _ hx
    have iv := in_regsOf _ _ hvs (fun y hy => hin y (List.mem_cons_of_mem _ hy))
    split
    · exact Keep.refl ri
    · split
      · rename_i r
        split
        · rename_i s off len cap ho
          have ic := in_content ri.reg ia ho
          split
          · -- in place
            have ss := storeSub_writeList (h.astore s) (off + len) vs
            have r1 : RI (h.setA s (writeList (h.astore s) (off + len) vs)) A := ri_setA ri s ss iv
            refine keep_pushNew (ri_allocObj r1 ?_) rfl (Nat.le_refl _) ri.new
            refine ⟨(ri.reg.arr _ _ _ _ _ _ (ia _ rfl) ho).1, ?_⟩
            intro y hy
            rcases content_inplace hy with hy | hy
            · exact ic y hy
            · exact iv y hy
          · exact keep_newArr ri _ (fun y hy => by
              rcases List.mem_append.mp hy with hy | hy
              · exact ic y hy
              · exact iv y hy) _
        · rename_i s off len cap ho
          exact keep_newArr ri _ (fun y hy => by
              rcases List.mem_append.mp hy with hy | hy
              · exact in_content ri.reg ia ho y hy
              · exact iv y hy) _
        · exact Keep.refl ri
        · exact Keep.refl ri
      · exact Keep.refl ri
  · exact Keep.refl ri

theorem stepSlice_keep {h : Heap} {A : Cell → Prop} (ri : RI h A) (x lo hi nc : Nat)
    (hin : ∀ v, h.regs[x]? = some v → InV A v) : Keep h (stepSlice h x lo hi nc).1 A := by
  unfold stepSlice
  split
  · rename_i v lov hiv hx _ _
    have ia : InV A v := hin _ hx
    split
    · exact Keep.refl ri
    · exact Keep.refl ri
    · split
      · rename_i lowIdx _ r
        split
        · rename_i mu s off len cap ho
          have ic := in_content ri.reg ia ho
          split
          · exact Keep.refl ri
          · exact Keep.refl ri
          · rename_i highIdx _
            split
            · exact Keep.refl ri
            · split
              · refine keep_allocObj ri (objIn_arr ri.reg ia ho _ _ ?_)
                intro y hy
                exact ic y (mem_subwindow (clampIdx_le' _ _) hy)
              · exact keep_newArr ri _ (fun y hy => ic y (List.mem_of_mem_drop (List.mem_of_mem_take hy))) _
        · exact Keep.refl ri
        · exact Keep.refl ri
      · exact Keep.refl ri
      · exact Keep.refl ri
      · exact Keep.refl ri
  · exact Keep.refl ri

theorem stepAdd_keep {h : Heap} {A : Cell → Prop} (ri : RI h A) (x y : Nat)
    (hin : ∀ z ∈ [x, y], ∀ v, h.regs[z]? = some v → InV A v) : Keep h (stepAdd h x y).1 A := by
  unfold stepAdd
  split
  · rename_i r w hx hy
    have ia : InV A (.ref r) := hin x (by simp) _ hx
    have ib : InV A w := hin y (by simp) _ hy
    repeat' split
    all_goals first
      | exact Keep.refl ri
      | exact keep_push ri ia
      | (refine keep_newArr ri _ ?_ _
         intro z hz
         rcases List.mem_append.mp hz with hz | hz
         · exact in_content ri.reg ia (by assumption) z hz
         · exact in_content ri.reg ib (by assumption) z hz)
  · exact Keep.refl ri

theorem stepDelete_keep {h : Heap} {A : Cell → Prop} (ri : RI h A) (x k : Nat) : Keep h (stepDelete h x k).1 A := by
  unfold stepDelete
  repeat' split
  all_goals first
    | exact Keep.refl ri
    | exact ⟨ri_setM ri _ (fun y hy => .inl (mem_merase _ hy)), regsFrom_same rfl⟩

theorem stepIter_keep {h : Heap} {A : Cell → Prop} (ri : RI h A) (x : Nat)
    (hin : ∀ v, h.regs[x]? = some v → InV A v) : Keep h (stepIter h x).1 A := by
  unfold stepIter
  split
  · rename_i r hx
    have ia : InV A (.ref r) := hin _ hx
    split
    · exact ⟨ri_pushAll ri _, regsFrom_app rfl (in_content ri.reg ia (by assumption))⟩
    · exact ⟨ri_pushAll ri _, regsFrom_app rfl (in_mstore ri.reg ia (by assumption))⟩
    · exact Keep.refl ri
  · exact Keep.refl ri
  · exact Keep.refl ri

theorem objIn_congr {h h0 : Heap} {A : Cell → Prop} (ea : h0.astores = h.astores) (em : h0.mstores = h.mstores)
    {o : Obj} (oi : ObjIn h A o) : ObjIn h0 A o := by
  have e2 : ∀ s off len, h0.content s off len = h.content s off len := fun s off len => by
    unfold Heap.content Heap.astore; rw [ea]
  have e3 : ∀ s, h0.mstore s = h.mstore s := fun s => by unfold Heap.mstore; rw [em]
  cases o with
  | arr m s off len cap => simp only [ObjIn] at oi ⊢; rw [e2]; exact oi
  | map m s => simp only [ObjIn] at oi ⊢; rw [e3]; exact oi
  | err p => exact oi
  | dead => trivial

theorem keep_consume {h : Heap} {A : Cell → Prop} (ri : RI h A) (r : Ref) (x : Nat) {o : Obj} (oi : ObjIn h A o) :
    Keep h (pushNew (({ h.setObj r Obj.dead with regs := h.regs.set x Val.undef } : Heap).allocObj o)).1 A := by
  have r0 : RI ({ h.setObj r Obj.dead with regs := h.regs.set x Val.undef } : Heap) A :=
    ri_same (ri_setObj ri r (o := .dead) trivial) rfl rfl rfl
  refine ⟨ri_pushNew (ri_allocObj r0 (objIn_congr rfl rfl oi)), ?_⟩
  refine regsFrom_consume (x := x) (v := .ref (h.objs.set r Obj.dead).length) rfl ?_
  exact inV_new ri.new (by simp)

theorem stepImmutable_keep {h : Heap} {A : Cell → Prop} (ri : RI h A) (cs : Bool) (x : Nat)
    (hin : ∀ v, h.regs[x]? = some v → InV A v) : Keep h (stepImmutable h cs x).1 A := by
  unfold stepImmutable
  split
  · rename_i r hx
    have ia : InV A (.ref r) := hin _ hx
    split
    · rename_i s off len cap ho
      have oi : ObjIn h A (Obj.arr false s off len cap) := objIn_arr ri.reg ia ho _ _ (in_content ri.reg ia ho)
      cases cs with
      | true => exact keep_consume ri r x oi
      | false => exact keep_allocObj ri oi
    · rename_i s ho
      have oi : ObjIn h A (Obj.map false s) := ri.reg.map _ _ _ (ia _ rfl) ho
      cases cs with
      | true => exact keep_consume ri r x oi
      | false => exact keep_allocObj ri oi
    · exact Keep.refl ri
    · exact keep_push ri ia
  · exact keep_push ri (hin _ (by assumption))
  · exact Keep.refl ri

theorem content_inplace' {h : Heap} {s off len st : Nat} {vs : List Val} {y : Val} (hs : st ≤ len)
    (hy : y ∈ (h.setA s (writeList (h.astore s) (off + st) vs)).content s off (st + vs.length)) :
    y ∈ h.content s off len ∨ y ∈ vs := by
  rcases content_inplace hy with hy | hy
  · exact .inl (mem_take_mono hs hy)
  · exact .inr hy

theorem spliceWrite_ri {h : Heap} {A : Cell → Prop} (ri : RI h A) {r s off len cap : Nat} (ia : InV A (.ref r))
    (ho : h.obj r = Obj.arr true s off len cap) {st : Nat} (hs : st ≤ len) {items : List Val}
    (iv : ∀ v ∈ items, InV A v) (nc : Nat) : RI (spliceWrite h r s off len cap st items nc) A := by
  have ic := in_content ri.reg ia ho
  unfold spliceWrite
  simp only
  split
  · have ss := storeSub_writeList (h.astore s) (off + st) items
    have r1 : RI (h.setA s (writeList (h.astore s) (off + st) items)) A := ri_setA ri s ss iv
    refine ri_setObj r1 r ?_
    refine ⟨(ri.reg.arr _ _ _ _ _ _ (ia _ rfl) ho).1, ?_⟩
    intro y hy
    rcases content_inplace' hs hy with hy | hy
    · exact ic y hy
    · exact iv y hy
  · have iv' : ∀ x ∈ (h.content s off len).take st ++ items ++
        List.replicate (max nc (st + items.length) - (st + items.length)) Val.undef, InV A x := by
      intro y hy
      rcases List.mem_append.mp hy with hy | hy
      · rcases List.mem_append.mp hy with hy | hy
        · exact ic y (List.mem_of_mem_take hy)
        · exact iv y hy
      · rw [List.mem_replicate] at hy; rw [hy.2]; exact inV_undef
    have r1 := ri_addStore ri iv'
    have := ri_setObj r1 r (o := Obj.arr true h.astores.length 0 (st + items.length) (max nc (st + items.length))) (by
      refine ⟨ri.new _ (by simp [IsNew]), ?_⟩
      intro y hy
      rw [content_added] at hy
      exact iv' y (List.mem_of_mem_drop (List.mem_of_mem_take hy)))
    exact this

theorem spliceWrite_regs (h : Heap) (r : Ref) (s off len cap st : Nat) (items : List Val) (nc : Nat) :
    (spliceWrite h r s off len cap st items nc).regs = h.regs := by
  unfold spliceWrite; simp only; split <;> rfl

theorem splice_core_keep {h : Heap} {A : Cell → Prop} (ri : RI h A) {r s off len cap : Nat} (ia : InV A (.ref r))
    (ho : h.obj r = Obj.arr true s off len cap) {st : Nat} (hs : st ≤ len) {items deleted : List Val}
    (iv : ∀ v ∈ items, InV A v) (ivd : ∀ v ∈ deleted, InV A v) (nc dc : Nat) :
    Keep h (pushNew ((spliceWrite h r s off len cap st items nc).newArr true deleted dc)).1 A :=
  keep_pushNew (ri_newArr (spliceWrite_ri ri ia ho hs iv nc) _ ivd _) (spliceWrite_regs _ _ _ _ _ _ _ _ _)
    (spliceWrite_olen _ _ _ _ _ _ _ _ _) ri.new

theorem stepSplice_keep {h : Heap} {A : Cell → Prop} (ri : RI h A) (x : Nat) (args : List Nat) (nc dc : Nat)
    (hin : ∀ y ∈ x :: args, ∀ v, h.regs[y]? = some v → InV A v) : Keep h (stepSplice h x args nc dc).1 A := by
  unfold stepSplice
  split
  · rename_i v avs hx havs
    have ia : InV A v := hin x (List.mem_cons_self ..) _ hx
    have iv := in_regsOf _ _ havs (fun y hy => hin y (List.mem_cons_of_mem _ hy))
    split
    · rename_i r
      split
      · rename_i s off len cap ho
        have ic := in_content ri.reg ia ho
        split
        · exact Keep.refl ri
        · rename_i start _
          split
          · exact Keep.refl ri
          · rename_i hst
            split
            · exact Keep.refl ri
            · split
              · exact Keep.refl ri
              · have hs : start.toNat ≤ len := by omega
                refine splice_core_keep ri ia ho hs ?_ ?_ _ _
                · intro y hy
                  rcases List.mem_append.mp hy with hy | hy
                  · exact iv y (List.mem_of_mem_drop hy)
                  · exact ic y (List.mem_of_mem_drop hy)
                · intro y hy
                  exact ic y (List.mem_of_mem_drop (List.mem_of_mem_take hy))
      · exact Keep.refl ri
      · exact Keep.refl ri
    · exact Keep.refl ri
  · exact Keep.refl ri

/-! ### `copy` and `freeze` -/

theorem ri_grow {h h' : Heap} {A : Cell → Prop} (g : Grow h h') (c : Closed h) (ri : RI h A) : RI h' A := by
  have nv : ∀ {x : Val}, NewVal h x → InV A x := fun n q e => ri.new _ (n q e)
  refine ⟨⟨?_, ?_, ?_⟩, newIn_of_sz (h := h) ⟨g.olen, g.alen, g.mlen⟩ ri.new⟩
  · intro r m s off len cap ar ho
    by_cases hl : r < h.objs.length
    · rw [ext_obj_old g.ext hl] at ho
      obtain ⟨st, hs⟩ := closed_arr c (obj_some ho (by simp))
      rw [content_ext_old g.ext hs]
      exact ri.reg.arr _ _ _ _ _ _ ar ho
    · have f := g.newObj _ _ (Nat.le_of_not_lt hl) (obj_some ho (by simp))
      refine ⟨ri.new _ f.2, ?_⟩
      intro x hx
      obtain ⟨st, hs, hm⟩ := mem_content hx
      exact nv (g.newA _ _ f.2 hs _ hm)
  · intro r m s ar ho
    by_cases hl : r < h.objs.length
    · rw [ext_obj_old g.ext hl] at ho
      obtain ⟨st, hs⟩ := closed_map c (obj_some ho (by simp))
      rw [ext_mstore_old g.ext hs]
      exact ri.reg.map _ _ _ ar ho
    · have f := g.newObj _ _ (Nat.le_of_not_lt hl) (obj_some ho (by simp))
      refine ⟨ri.new _ f.2, ?_⟩
      intro x hx
      obtain ⟨st, hs, hm⟩ := mem_mstore hx
      exact nv (g.newM _ _ f.2 hs _ hm)
  · intro r p ar ho
    by_cases hl : r < h.objs.length
    · rw [ext_obj_old g.ext hl] at ho
      exact ri.reg.err _ _ ar ho
    · exact nv (g.newObj _ _ (Nat.le_of_not_lt hl) (obj_some ho (by simp)))

theorem foldVals_invQ {σ : Type} {P : Heap → σ → Prop} {Q : Val → Prop} (f : Heap → σ → Val → Option (Heap × σ × Val))
    (hf : ∀ h st v h' st' v', f h st v = some (h', st', v') → P h st → Q v → P h' st' ∧ Q v') :
    ∀ (vs : List Val) (h : Heap) (st : σ) (h' : Heap) (st' : σ) (vs' : List Val),
      foldVals f h st vs = some (h', st', vs') → P h st → (∀ x ∈ vs, Q x) → P h' st' ∧ ∀ x ∈ vs', Q x := by
  intro vs
  induction vs with
  | nil =>
    intro h st h' st' vs' e p _
    simp [foldVals] at e
    obtain ⟨e1, e2, e3⟩ := e
    subst e1 e2 e3
    exact ⟨p, (fun x hx => by cases hx)⟩
  | cons v vs ihl =>
    intro h st h' st' vs' e p ov
    unfold foldVals at e
    split at e
    · cases e
    · rename_i h1 c1 v1 e1
      split at e
      · cases e
      · rename_i h2 c2 vs2 e2
        injection e with e; injection e with e3 e4; injection e4 with e4 e5
        subst e3 e4 e5
        obtain ⟨p1, o1⟩ := hf _ _ _ _ _ _ e1 p (ov v (List.mem_cons_self ..))
        obtain ⟨p2, o2⟩ := ihl _ _ _ _ _ e2 p1 (fun x hx => ov x (List.mem_cons_of_mem _ hx))
        refine ⟨p2, ?_⟩
        intro x hx
        rcases List.mem_cons.mp hx with rfl | hx
        · exact o1
        · exact o2 x hx

/-- The memo of `freeze` maps into the region. -/
def MemoIn (A : Cell → Prop) (memo : Memo) : Prop := ∀ a b, (a, b) ∈ memo → A (.obj b)

theorem MemoIn.cons {A : Cell → Prop} {memo : Memo} (m : MemoIn A memo) (a : Ref) {b : Ref} (hb : A (.obj b)) :
    MemoIn A ((a, b) :: memo) := by
  intro x y hxy
  rcases List.mem_cons.mp hxy with e | e
  · injection e with e1 e2; subst e2; exact hb
  · exact m x y e

theorem freezeN_ri {A : Cell → Prop} : ∀ (n : Nat) (h : Heap) (memo : Memo) (v : Val) (h' : Heap) (memo' : Memo) (v' : Val),
    freezeN n h memo v = some (h', memo', v') → (RI h A ∧ MemoIn A memo) → InV A v →
    (RI h' A ∧ MemoIn A memo') ∧ InV A v' := by
  intro n
  induction n with
  | zero => intro h memo v h' memo' v' e; simp [freezeN] at e
  | succ n ih =>
    intro h memo v h' memo' v' e wm iv
    obtain ⟨ri, mo⟩ := wm
    have zipIn : ∀ {ks : List String} {fs : List Val}, (∀ x ∈ fs, InV A x) →
        ∀ x ∈ (ks.zip fs).map Prod.snd, InV A x := by
      intro ks fs o1 x hx
      rw [List.mem_map] at hx
      obtain ⟨kv, hkv, rfl⟩ := hx
      exact o1 _ (List.of_mem_zip hkv).2
    unfold freezeN at e
    split at e
    · rename_i r
      split at e
      · -- mutable array
        rename_i s off len cap ho
        have ic := in_content ri.reg iv ho
        split at e
        · rename_i r' hf
          injection e with e; injection e with e1 e2; injection e2 with e2 e3; subst e1 e2 e3
          refine ⟨⟨ri, mo⟩, ?_⟩
          intro q eq; injection eq with eq; subst eq
          exact mo _ _ (memo_find_mem _ _ _ hf)
        · split at e
          · cases e
          · rename_i h1 memo1 fs ef
            injection e with e; injection e with e1 e2; injection e2 with e2 e3; subst e1 e2 e3
            obtain ⟨⟨r1, m1⟩, o1⟩ := foldVals_invQ (P := fun h m => RI h A ∧ MemoIn A m) (Q := InV A) _ ih
              _ _ _ _ _ _ ef ⟨ri, mo⟩ ic
            have hn : A (.obj (h1.newArr false fs fs.length).2) := r1.new _ (Nat.le_refl _)
            exact ⟨⟨ri_newArr r1 false o1 _, m1.cons r hn⟩, fun q eq => by injection eq with eq; subst eq; exact hn⟩
      · -- immutable array
        rename_i s off len cap ho
        have ic := in_content ri.reg iv ho
        split at e
        · cases e
        · rename_i h1 memo1 fs ef
          obtain ⟨⟨r1, m1⟩, o1⟩ := foldVals_invQ (P := fun h m => RI h A ∧ MemoIn A m) (Q := InV A) _ ih
            _ _ _ _ _ _ ef ⟨ri, mo⟩ ic
          split at e
          · injection e with e; injection e with e1 e2; injection e2 with e2 e3; subst e1 e2 e3
            exact ⟨⟨r1, m1⟩, iv⟩
          · injection e with e; injection e with e1 e2; injection e2 with e2 e3; subst e1 e2 e3
            have hn : A (.obj (h1.newArr false fs fs.length).2) := r1.new _ (Nat.le_refl _)
            exact ⟨⟨ri_newArr r1 false o1 _, m1⟩, fun q eq => by injection eq with eq; subst eq; exact hn⟩
      · -- mutable map
        rename_i s ho
        have ic := in_mstore ri.reg iv ho
        split at e
        · rename_i r' hf
          injection e with e; injection e with e1 e2; injection e2 with e2 e3; subst e1 e2 e3
          refine ⟨⟨ri, mo⟩, ?_⟩
          intro q eq; injection eq with eq; subst eq
          exact mo _ _ (memo_find_mem _ _ _ hf)
        · split at e
          · cases e
          · rename_i h1 memo1 fs ef
            injection e with e; injection e with e1 e2; injection e2 with e2 e3; subst e1 e2 e3
            obtain ⟨⟨r1, m1⟩, o1⟩ := foldVals_invQ (P := fun h m => RI h A ∧ MemoIn A m) (Q := InV A) _ ih
              _ _ _ _ _ _ ef ⟨ri, mo⟩ ic
            have hn : A (.obj (h1.newMap false (((h.mstore s).map Prod.fst).zip fs)).2) := r1.new _ (Nat.le_refl _)
            exact ⟨⟨ri_newMap r1 false (zipIn o1), m1.cons r hn⟩, fun q eq => by injection eq with eq; subst eq; exact hn⟩
      · -- immutable map
        rename_i s ho
        have ic := in_mstore ri.reg iv ho
        split at e
        · cases e
        · rename_i h1 memo1 fs ef
          obtain ⟨⟨r1, m1⟩, o1⟩ := foldVals_invQ (P := fun h m => RI h A ∧ MemoIn A m) (Q := InV A) _ ih
            _ _ _ _ _ _ ef ⟨ri, mo⟩ ic
          split at e
          · injection e with e; injection e with e1 e2; injection e2 with e2 e3; subst e1 e2 e3
            exact ⟨⟨r1, m1⟩, iv⟩
          · injection e with e; injection e with e1 e2; injection e2 with e2 e3; subst e1 e2 e3
            have hn : A (.obj (h1.newMap false (((h.mstore s).map Prod.fst).zip fs)).2) := r1.new _ (Nat.le_refl _)
            exact ⟨⟨ri_newMap r1 false (zipIn o1), m1⟩, fun q eq => by injection eq with eq; subst eq; exact hn⟩
      · injection e with e; injection e with e1 e2; injection e2 with e2 e3; subst e1 e2 e3
        exact ⟨⟨ri, mo⟩, iv⟩
      · cases e
    · injection e with e; injection e with e1 e2; injection e2 with e2 e3; subst e1 e2 e3
      exact ⟨⟨ri, mo⟩, iv⟩

theorem freezeN_regs : ∀ (n : Nat) (h : Heap) (memo : Memo) (v : Val) (h' : Heap) (memo' : Memo) (v' : Val),
    freezeN n h memo v = some (h', memo', v') → ∀ rs, h.regs = rs → h'.regs = rs := by
  intro n
  induction n with
  | zero => intro h memo v h' memo' v' e; simp [freezeN] at e
  | succ n ih =>
    intro h memo v h' memo' v' e rs hr
    unfold freezeN at e
    repeat' split at e
    all_goals first
      | (cases e; done)
      | (injection e with e; injection e with e1 e2; rw [← e1]; first
          | exact hr
          | exact foldVals_pres (P := fun h => h.regs = rs) _ (fun _ _ _ _ _ _ e p => ih _ _ _ _ _ _ e rs p) _ _ _ _ _ _ (by assumption) hr
          | (simp only [Heap.newArr, Heap.newMap]
             exact foldVals_pres (P := fun h => h.regs = rs) _ (fun _ _ _ _ _ _ e p => ih _ _ _ _ _ _ e rs p) _ _ _ _ _ _ (by assumption) hr))

/-! ### Every operation -/

/-- The handles an operation reads. -/
def operands : Op → List Nat
  | .lit _ => []
  | .mkArr elems _ => elems
  | .mkMap kvs => kvs.map Prod.snd
  | .mkErr x => [x]
  | .immutable _ x => [x]
  | .idxGet x i => [x, i]
  | .setSel x sels v => x :: v :: sels
  | .append x items _ => x :: items
  | .splice x args _ _ => x :: args
  | .delete x k => [x, k]
  | .slice x lo hi _ => [x, lo, hi]
  | .add x y => [x, y]
  | .copy x _ => [x]
  | .freeze x => [x]
  | .iter x => [x]
  | .eq x y => [x, y]

/-- An operation whose operand handles hold values of the region `A` keeps `A` a region, and every handle it pushes
(or overwrites) holds a value of `A`. -/
theorem step_keep {h : Heap} {A : Cell → Prop} (c : Closed h) (ri : RI h A) (op : Op)
    (hin : ∀ x ∈ operands op, ∀ v, h.regs[x]? = some v → InV A v) : Keep h (step h op).1 A := by
  cases op with
  | lit l => exact keep_push ri (inV_scalar (by intro r; cases l <;> simp [Lit.toVal]))
  | mkArr elems cap =>
    simp only [step]; split
    · rename_i vs hvs
      exact keep_newArr ri _ (in_regsOf _ _ hvs hin) _
    · exact Keep.refl ri
  | mkMap kvs =>
    simp only [step]; split
    · rename_i vs hvs
      refine keep_pushNew (ri_newMap ri _ ?_) rfl (Nat.le_refl _) ri.new
      intro x hx
      rcases mem_foldl_minsert _ _ hx with hx | hx
      · simp at hx
      · rw [List.mem_map] at hx
        obtain ⟨kv, hkv, rfl⟩ := hx
        exact in_regsOf _ _ hvs hin _ (List.of_mem_zip hkv).2
    · exact Keep.refl ri
  | mkErr x =>
    simp only [step]; split
    · rename_i v hv
      exact keep_allocObj ri (o := .err v) (hin x (by simp [operands]) _ hv)
    · exact Keep.refl ri
  | immutable cs x => exact stepImmutable_keep ri _ _ (hin x (by simp [operands]))
  | idxGet x i =>
    simp only [step]
    split
    · rename_i v iv hx hi
      split
      · rename_i e; exact keep_push ri (indexGet_in ri.reg (hin x (by simp [operands]) _ hx) e)
      · exact Keep.refl ri
      · exact Keep.refl ri
    · exact Keep.refl ri
  | setSel x sels v =>
    simp only [step]; split
    · rename_i d ss src hd hss hsrc
      exact ⟨indexAssign_ri ri _ _ (hin v (by simp [operands]) _ hsrc), regsFrom_same (indexAssign_regs _ _ _ _)⟩
    · exact Keep.refl ri
  | append x items nc => exact stepAppend_keep ri _ _ _ hin
  | splice x args nc dc => exact stepSplice_keep ri _ _ _ _ hin
  | delete x k => exact stepDelete_keep ri _ _
  | slice x lo hi nc => exact stepSlice_keep ri _ _ _ _ (hin x (by simp [operands]))
  | add x y => exact stepAdd_keep ri _ _ hin
  | copy x caps =>
    simp only [step]
    split
    · rename_i v hv
      split
      · rename_i h1 c1 w1 e
        obtain ⟨g, cr⟩ := copyN_grow h _ _ _ _ _ _ _ e (Grow.refl h)
        have hr := Tengo.Props.C10Heap.copyN_regs _ _ _ _ _ _ _ e _ rfl
        refine ⟨ri_push (ri_grow g c ri) _, regsFrom_push (v := w1) (by simp [Heap.push, hr]) ?_⟩
        intro q eq
        exact ri.new _ (cr.newVal q eq)
      · exact Keep.refl ri
    · exact Keep.refl ri
  | freeze x =>
    simp only [step]
    split
    · rename_i v hv
      split
      · rename_i h1 c1 w1 e
        obtain ⟨⟨r1, _⟩, i1⟩ := freezeN_ri _ _ _ _ _ _ _ e ⟨ri, fun _ _ hab => by cases hab⟩ (hin x (by simp [operands]) _ hv)
        have hr := freezeN_regs _ _ _ _ _ _ _ e _ rfl
        exact ⟨ri_push r1 _, regsFrom_push (v := w1) (by simp [Heap.push, hr]) i1⟩
      · exact Keep.refl ri
    · exact Keep.refl ri
  | iter x => exact stepIter_keep ri _ (hin x (by simp [operands]))
  | eq x y =>
    simp only [step]
    repeat' split
    all_goals exact Keep.refl ri

end Tengo.Proofs.C10Heap

import Tengo.Proofs.C16CompileFnFunc
/-!
C16 / `tail_pattern_sound`, layer 3f: tail position of STATEMENTS.

`TailS st n sp zop zargs`: the statement `st`, when it is the last statement of a function body, ends with
`CALL n sp; zop zargs` (`RETURN 1` or `POP`) at the very end of its code:

* `return e` / `e;` with the call in tail position of `e` (`TailE`);
* `if [init;] c { pre…; last }` (no else) with `last` such a statement — the `stmt-in-if` form (the optional init
  statement must pass);
* `if c { … } else st` with `st` such a statement (`else { … }`, `else if …`);
* `{ pre…; last }`.

`tailS_tailEnd`: the code of such a statement has the shape `TailEnd`, so `func_tail` applies.
-/
set_option linter.unusedVariables false
set_option linter.unusedSimpArgs false
namespace Tengo.Proofs.C16Fn
open Tengo.Model Tengo.Model.Opcodes Tengo.Model.Compiler Tengo.Model.Optimizer Tengo.Model.Verifier
open Tengo.Model.Spec (Expr Stmt)
open Tengo.Proofs.C03 Tengo.Proofs.C03Reloc Tengo.Proofs.C02Compile Tengo.Proofs.C16Compile

/-- the hypothesis about a last statement, as `func_tail` takes it -/
def LastOK (last : Stmt) (n sp zop : Nat) (zargs : List Nat) : Prop :=
  ∀ d' s1 s1' L1 F1, compileStmt (d' + 1) last s1 = .ok ((), s1') → Inv s1 L1 F1 →
    szS (d' + 1) last < 2 ^ 30 → s1.loops = [] → TailEnd s1 s1' L1 F1 n sp zop zargs

/-- `{ pre…; last }` as a `BlockStmt` -/
theorem block_tailEnd {n sp zop : Nat} {zargs : List Nat} (pre : List Stmt) (last : Stmt) (post : List Stmt)
    (hpost : post = [] ∨ zop = opReturn)
    (hpre : ∀ st ∈ pre, passes st = true) (hlast : LastOK last n sp zop zargs)
    (d : Nat) (s s' : CState) (L : List Instr) (F : List Nat)
    (h : compileBlock d (pre ++ last :: post) s = .ok ((), s')) (hinv : Inv s L F)
    (hsz : szBlock d (pre ++ last :: post) < 2 ^ 30) (hl : s.loops = []) :
    TailEnd s s' L F n sp zop zargs := by
  obtain ⟨st0, ss0, hss⟩ : ∃ st0 ss0, pre ++ last :: post = st0 :: ss0 := by
    cases pre with
    | nil => exact ⟨last, post, rfl⟩
    | cons a pre => exact ⟨a, pre ++ last :: post, rfl⟩
  cases d with
  | zero => rw [compileBlock] at h; exact (unsupported_ok h).elim
  | succ d0 =>
  have hcb : compileBlock (d0 + 1) (pre ++ last :: post) = (do fork true; compileStmts d0 (pre ++ last :: post); unfork) := by
    rw [hss, compileBlock]; simp
  have hszd : szBlock (d0 + 1) (pre ++ last :: post) = szSs d0 (pre ++ last :: post) := by rw [hss, szBlock]; simp
  rw [hcb] at h
  rw [hszd] at hsz
  obtain ⟨_, sa, ha, h'⟩ := bind_ok h
  obtain ⟨_, sb, hb, h''⟩ := bind_ok h'
  have ea : sa = forkS true s := by
    rw [fork_run] at ha; injection ha with ha; exact (Prod.mk.inj ha).2.symm
  have eb : s' = unforkS sb := by
    rw [unfork_run] at h''; injection h'' with h''; exact (Prod.mk.inj h'').2.symm
  subst ea; subst eb
  obtain ⟨d', sm, smid, Bp, F1, hlastc, hpostc, hinvm, hstm, hlm, htm, hbm, hszm, hszp⟩ :=
    stmts_pre pre d0 last post (forkS true s) sb L F hb hinv.fork hsz hpre hl
  have htail : TailEnd sm sb (L ++ Bp) F1 n sp zop zargs := by
    have ht0 := hlast d' sm smid (L ++ Bp) F1 hlastc hinvm hszm hlm
    rcases hpost with hp | hp
    · subst hp
      rw [compileStmts] at hpostc
      have e : sb = smid := (Prod.mk.inj (pure_ok hpostc)).2
      subst e; exact ht0
    · subst hp
      exact ht0.suffix hlm (fun L₁ F₁ hi => (all_spec (d' + 1)).ss post smid sb L₁ F₁ hpostc hi hszp)
  exact TailEnd.forked hinv (TailEnd.prepend hstm (hlm.trans hl.symm) htm hbm htail)

/-- the optional init statement of an `if` -/
theorem optS_thru {d : Nat} (ini : Option Stmt) (hini : ∀ st ∈ ini, passes st = true) {s s' : CState}
    {L : List Instr} {F : List Nat} (h : compOS d ini s = .ok ((), s')) (hinv : Inv s L F)
    (hsz : szOS d ini < 2 ^ 30) : SResT s s' L F (szOS d ini) := by
  cases ini with
  | some st => exact (thru_all d).1 st (hini st rfl) s s' L F h hinv hsz
  | none =>
    have e : s' = s := (Prod.mk.inj (pure_ok h)).2
    subst e
    exact SResT.nil hinv

theorem jmpf_ne_ret : opJumpFalsy ≠ opReturn := by decide

/-- `if c { pre…; last }` without `else` (the `stmt-in-if` form when `last` is a call statement) -/
theorem if_tailEnd {n sp zop : Nat} {zargs : List Nat} (ini : Option Stmt) (hini : ∀ st ∈ ini, passes st = true)
    (c : Expr) (pre : List Stmt) (last : Stmt) (post : List Stmt)
    (hpost : post = [] ∨ zop = opReturn)
    (hpre : ∀ st ∈ pre, passes st = true) (hlast : LastOK last n sp zop zargs)
    (d : Nat) (s s' : CState) (L : List Instr) (F : List Nat)
    (h : compileStmt (d + 1) (.ifs ini c (pre ++ last :: post) none) s = .ok ((), s')) (hinv : Inv s L F)
    (hsz : szS (d + 1) (.ifs ini c (pre ++ last :: post) none) < 2 ^ 30) (hl : s.loops = []) :
    TailEnd s s' L F n sp zop zargs := by
  have hjf : isJump opJumpFalsy = true := rfl
  rw [compile_ifs] at h
  rw [szS_ifs] at hsz
  have hszi : szOS d ini < 2 ^ 30 := by omega
  simp only [szOS] at hsz
  obtain ⟨_, s0, h0, hA⟩ := bind_ok h
  have e0 : s0 = forkS true s := by
    rw [fork_run] at h0; injection h0 with h0; exact (Prod.mk.inj h0).2.symm
  subst e0
  obtain ⟨_, s0', h0', hB⟩ := bind_ok hA
  obtain ⟨_, s1, h1, hC⟩ := bind_ok hB
  obtain ⟨jp, s2, h2, hD⟩ := bind_ok hC
  obtain ⟨_, s3, h3, hE⟩ := bind_ok hD
  obtain ⟨_, s4, h4, hF⟩ := bind_ok hE
  have e5 : s' = unforkS s4 := by
    rw [unfork_run] at hF; injection hF with hF; exact (Prod.mk.inj hF).2.symm
  subst e5
  clear h hA hB hC hD hE hF h0
  refine TailEnd.forked hinv ?_
  obtain ⟨Bi, Fi, bsi, csi, oi, ti⟩ := optS_thru ini hini h0' hinv.fork hszi
  obtain ⟨ebs, ecs⟩ := oi.nopend hl
  subst ebs; subst ecs
  have hli : s0'.loops = [] := by rw [oi.loops]; exact addPend_eq_nil hl
  refine TailEnd.prepend oi.step (hli.trans hl.symm) ti oi.blk ?_
  suffices core : ∀ (sf : CState) (L : List Instr) (F : List Nat), Inv sf L F → sf.loops = [] →
      compileExpr d c sf = .ok ((), s1) → TailEnd sf s4 L F n sp zop zargs from
    core s0' (L ++ Bi) Fi oi.inv hli h1
  intro sf L F hinv0 hlf h1
  -- condition
  obtain ⟨Bc, F₁, o1, hb1⟩ := (all_spec d).e c sf s1 L F h1 hinv0 (by omega)
  have e2 := emit_ok h2
  have ejp : jp = s1.insts.size := (Prod.mk.inj e2).1
  have es2 : s2 = emitS opJumpFalsy [0] s1 := (Prod.mk.inj e2).2
  subst es2
  have inv2 := o1.inv.emit (op := opJumpFalsy) (args := [0]) (jump_shape hjf) (opReq_jump hjf)
  have hsz1 : s1.insts.size = totalSize L + totalSize Bc := by rw [o1.inv.em.size, totalSize_append]
  have hjp : jp = totalSize L + totalSize Bc := by rw [ejp, hsz1]
  subst hjp
  have hL : totalSize (L ++ Bc) = totalSize L + totalSize Bc := totalSize_append _ _
  rw [hL] at inv2
  -- the block
  have hl2 : (emitS opJumpFalsy [0] s1).loops = [] := by
    show s1.loops = []
    rw [o1.loops]; exact hlf
  obtain ⟨P, N, x, z, R, F₂, hinv3, hst3, hlo3, htP, hnN, hsbl, hx⟩ :=
    block_tailEnd pre last post hpost hpre hlast d _ s3 _ F₁ h3 inv2 (by omega) hl2
  have hM : totalSize (L ++ Bc ++ [⟨totalSize L + totalSize Bc, opJumpFalsy, [0]⟩]) = totalSize L + totalSize Bc + 5 := by
    simp only [totalSize_append, totalSize_cons, totalSize_nil, jump_size hjf]
  rw [hM] at htP hsbl
  -- the patch
  unfold ifTail at h4
  obtain ⟨p, s3', h5, h6⟩ := bind_ok h4
  have e5 := curPos_ok h5
  have ep : p = s3.insts.size := (Prod.mk.inj e5).1
  have es3' : s3' = s3 := (Prod.mk.inj e5).2
  rw [es3', ep] at h6
  have e6 := changeOperand_ok h6
  have es4 : s4 = chgS (totalSize L + totalSize Bc) s3.insts.size s3 := (Prod.mk.inj e6).2
  subst es4
  have hinv3' : Inv s3 ((L ++ Bc) ++ ⟨totalSize L + totalSize Bc, opJumpFalsy, [0]⟩ :: (P ++ N ++ [x, z] ++ R)) F₂ := by
    have := hinv3; simpa using this
  have hinv4 := hinv3'.patch (t := s3.insts.size) hjf
  have hf := chgS_frame (totalSize L + totalSize Bc) s3.insts.size s3
  have hsz3 : s3.insts.size = totalSize L + totalSize Bc + 5 + totalSize (P ++ N ++ [x, z] ++ R) := by
    rw [hinv3.em.size]
    simp only [totalSize_append, totalSize_cons, totalSize_nil, jump_size hjf] <;> omega
  rw [hsz3] at hinv4 hf ⊢
  generalize hJ : (Instr.mk (totalSize L + totalSize Bc) opJumpFalsy
    [totalSize L + totalSize Bc + 5 + totalSize (P ++ N ++ [x, z] ++ R)]) = J at hinv4
  have hJs : J.size = 5 := by rw [← hJ]; rfl
  have hJo : J.op = opJumpFalsy := by rw [← hJ]
  refine ⟨Bc ++ J :: P, N, x, z, R, F₂, ?_, ?_, hf.2.2.2.trans (hlo3.trans o1.loops), ?_, hnN, ?_, hx⟩
  · have e : L ++ (Bc ++ J :: P ++ N ++ [x, z] ++ R) = L ++ Bc ++ J :: (P ++ N ++ [x, z] ++ R) := by simp
    rw [e]; exact hinv4
  · exact (o1.step.trans ((Step.of_eq (s := s1) (s' := emitS opJumpFalsy [0] s1) F₁ rfl rfl rfl).trans hst3)).trans
      (Step.of_eq F₂ hf.2.2.1 hf.2.1 hf.1)
  · -- the prefix lets the pass through: `Bc ++ [J]` has no RETURN, then `P`
    have hlay := hinv4.em.lay
    have hl1 : Layout (totalSize L) (Bc ++ [J]) := by
      have e : L ++ Bc ++ J :: (P ++ N ++ [x, z] ++ R) = L ++ (Bc ++ [J]) ++ (P ++ N ++ [x, z] ++ R) := by simp
      rw [e] at hlay
      have := (layout_split (layout_split hlay).1).2
      simpa using this
    have hn1 : NoRet (Bc ++ [J]) := by
      obtain ⟨H, _, hn, _⟩ := hb1 0
      refine (NoPR.noRet hn).append ?_
      intro i hi
      simp only [List.mem_singleton] at hi
      subst hi
      rw [hJo]; exact jmpf_ne_ret
    have ht1 := Thru.ofNoRet hl1 hn1
    have e1 : totalSize (Bc ++ [J]) = totalSize Bc + 5 := by
      simp only [totalSize_append, totalSize_cons, totalSize_nil, hJs]
    rw [e1, ← Nat.add_assoc] at ht1
    have := ht1.append htP
    have e2 : Bc ++ J :: P = Bc ++ [J] ++ P := by simp
    rw [e2]
    refine this.cast rfl ?_
    simp only [totalSize_append, totalSize_cons, totalSize_nil, hJs]
    omega
  · have hbd : SBlk (totalSize L + totalSize Bc + 5)
        (totalSize L + totalSize Bc + 5 + totalSize (P ++ N ++ [x, z] ++ R)) (P ++ N ++ [x, z] ++ R) [] [] := hsbl
    have := SBlk.if1 (hb1 0) hbd
    rw [hJ] at this
    have e : Bc ++ J :: P ++ N ++ [x, z] ++ R = Bc ++ J :: (P ++ N ++ [x, z] ++ R) := by simp
    rw [e]
    refine this.cast rfl ?_
    simp only [totalSize_append, totalSize_cons, totalSize_nil, hJs]
    omega

/-- `if c { … } else st` with the tail call at the end of `st` (`else { … }`, `else if …`) -/
theorem ifelse_tailEnd {n sp zop : Nat} {zargs : List Nat} (ini : Option Stmt)
    (hini : ∀ st ∈ ini, passes st = true) (c : Expr) (body : List Stmt) (st : Stmt)
    (hels : LastOK st n sp zop zargs)
    (d : Nat) (s s' : CState) (L : List Instr) (F : List Nat)
    (h : compileStmt (d + 1) (.ifs ini c body (some st)) s = .ok ((), s')) (hinv : Inv s L F)
    (hsz : szS (d + 1) (.ifs ini c body (some st)) < 2 ^ 30) (hl : s.loops = []) :
    TailEnd s s' L F n sp zop zargs := by
  have hjf : isJump opJumpFalsy = true := rfl
  have hjj : isJump opJump = true := rfl
  rw [compile_ifs] at h
  rw [szS_ifs] at hsz
  have hszi : szOS d ini < 2 ^ 30 := by omega
  simp only [szOS] at hsz
  obtain ⟨_, s0, h0, hA⟩ := bind_ok h
  have e0 : s0 = forkS true s := by
    rw [fork_run] at h0; injection h0 with h0; exact (Prod.mk.inj h0).2.symm
  subst e0
  obtain ⟨_, s0', h0', hB⟩ := bind_ok hA
  obtain ⟨_, s1, h1, hC⟩ := bind_ok hB
  obtain ⟨jp1, s2, h2, hD⟩ := bind_ok hC
  obtain ⟨_, s3, h3, hE⟩ := bind_ok hD
  obtain ⟨_, s7, hT, hF⟩ := bind_ok hE
  have e8 : s' = unforkS s7 := by
    rw [unfork_run] at hF; injection hF with hF; exact (Prod.mk.inj hF).2.symm
  subst e8
  clear h hA hB hC hD hE hF h0
  refine TailEnd.forked hinv ?_
  obtain ⟨Bi, Fi, bsi, csi, oi, ti⟩ := optS_thru ini hini h0' hinv.fork hszi
  obtain ⟨ebs, ecs⟩ := oi.nopend hl
  subst ebs; subst ecs
  have hli : s0'.loops = [] := by rw [oi.loops]; exact addPend_eq_nil hl
  refine TailEnd.prepend oi.step (hli.trans hl.symm) ti oi.blk ?_
  suffices core : ∀ (sf : CState) (L : List Instr) (F : List Nat), Inv sf L F → sf.loops = [] →
      compileExpr d c sf = .ok ((), s1) → TailEnd sf s7 L F n sp zop zargs from
    core s0' (L ++ Bi) Fi oi.inv hli h1
  intro sf L F hinv0 hlf h1
  unfold ifTail at hT
  obtain ⟨jp2, s4, h4, hD⟩ := bind_ok hT
  obtain ⟨p1, s4', h5, hE⟩ := bind_ok hD
  obtain ⟨_, s5, h6, hF⟩ := bind_ok hE
  obtain ⟨_, s6, h7, hG⟩ := bind_ok hF
  obtain ⟨p2, s6', h8, hH⟩ := bind_ok hG
  clear hT hD hE hF hG
  -- condition
  obtain ⟨Bc, F₁, o1, hb1⟩ := (all_spec d).e c sf s1 L F h1 hinv0 (by omega)
  have e2 := emit_ok h2
  have ejp1 : jp1 = s1.insts.size := (Prod.mk.inj e2).1
  have es2 : s2 = emitS opJumpFalsy [0] s1 := (Prod.mk.inj e2).2
  subst es2
  have inv2 := o1.inv.emit (op := opJumpFalsy) (args := [0]) (jump_shape hjf) (opReq_jump hjf)
  have hl1 : s1.loops = [] := by rw [o1.loops]; exact hlf
  -- body
  obtain ⟨Bd, F₂, bs₁, cs₁, o2⟩ := (all_spec d).b body _ s3 _ F₁ h3 inv2 (by omega)
  obtain ⟨ebs, ecs⟩ := o2.nopend hl1
  subst ebs; subst ecs
  have hl3 : s3.loops = [] := by rw [o2.loops]; exact addPend_eq_nil hl1
  have e4 := emit_ok h4
  have ejp2 : jp2 = s3.insts.size := (Prod.mk.inj e4).1
  have es4 : s4 = emitS opJump [0] s3 := (Prod.mk.inj e4).2
  subst es4
  have inv4 := o2.inv.emit (op := opJump) (args := [0]) (jump_shape hjj) (opReq_jump hjj)
  -- first patch
  have e5 := curPos_ok h5
  have ep1 : p1 = (emitS opJump [0] s3).insts.size := (Prod.mk.inj e5).1
  have es4' : s4' = emitS opJump [0] s3 := (Prod.mk.inj e5).2
  rw [es4', ep1] at h6
  clear e5 ep1 es4' h5
  have e6 := changeOperand_ok h6
  have es5 : s5 = chgS jp1 (emitS opJump [0] s3).insts.size (emitS opJump [0] s3) := (Prod.mk.inj e6).2
  subst es5
  -- sizes
  have hsz1 : s1.insts.size = totalSize L + totalSize Bc := by rw [o1.inv.em.size, totalSize_append]
  have hL1 : totalSize (L ++ Bc) = totalSize L + totalSize Bc := totalSize_append _ _
  rw [hL1] at inv2 o2 inv4
  have hsz3 : s3.insts.size = totalSize L + totalSize Bc + 5 + totalSize Bd := by
    rw [o2.inv.em.size]; simp only [totalSize_append, totalSize_cons, totalSize_nil, jump_size hjf] <;> omega
  have hL3 : totalSize (L ++ Bc ++ [⟨totalSize L + totalSize Bc, opJumpFalsy, [0]⟩] ++ Bd) =
      totalSize L + totalSize Bc + 5 + totalSize Bd := by
    simp only [totalSize_append, totalSize_cons, totalSize_nil, jump_size hjf] <;> omega
  rw [hL3] at inv4
  have hsz4 : (emitS opJump [0] s3).insts.size = totalSize L + totalSize Bc + 5 + totalSize Bd + 5 := by
    rw [inv4.em.size]; simp only [totalSize_append, totalSize_cons, totalSize_nil, jump_size hjf, jump_size hjj] <;> omega
  have hinv4' : Inv (emitS opJump [0] s3) ((L ++ Bc) ++ ⟨totalSize L + totalSize Bc, opJumpFalsy, [0]⟩ ::
      (Bd ++ [⟨totalSize L + totalSize Bc + 5 + totalSize Bd, opJump, [0]⟩])) F₂ := by
    have := inv4; simpa using this
  have hinv5 := hinv4'.patch (t := (emitS opJump [0] s3).insts.size) hjf
  have hjp1 : jp1 = totalSize L + totalSize Bc := by rw [ejp1, hsz1]
  subst hjp1
  have hjp2 : jp2 = totalSize L + totalSize Bc + 5 + totalSize Bd := by rw [ejp2, hsz3]
  subst hjp2
  have hf5 := chgS_frame (totalSize L + totalSize Bc) (emitS opJump [0] s3).insts.size (emitS opJump [0] s3)
  rw [hsz4] at hinv5 hf5 h7
  -- else branch
  cases d with
  | zero => rw [compileStmt] at h7; exact (unsupported_ok h7).elim
  | succ d0 =>
  have hl5 : (chgS (totalSize L + totalSize Bc) (totalSize L + totalSize Bc + 5 + totalSize Bd + 5)
      (emitS opJump [0] s3)).loops = [] := by rw [hf5.2.2.2]; exact hl3
  obtain ⟨P, N, x, z, R, F₃, hinv6, hst6, hlo6, htP, hnN, hsbl, hx⟩ := hels d0 _ s6 _ F₂ h7 hinv5 (by omega) hl5
  have hL5 : totalSize (L ++ Bc ++ ⟨totalSize L + totalSize Bc, opJumpFalsy,
      [totalSize L + totalSize Bc + 5 + totalSize Bd + 5]⟩ ::
      (Bd ++ [⟨totalSize L + totalSize Bc + 5 + totalSize Bd, opJump, [0]⟩])) =
      totalSize L + totalSize Bc + 5 + totalSize Bd + 5 := by
    simp only [totalSize_append, totalSize_cons, totalSize_nil, jump_size hjf, jump_size hjj] <;> omega
  rw [hL5] at htP hsbl
  have e8 := curPos_ok h8
  have ep2 : p2 = s6.insts.size := (Prod.mk.inj e8).1
  have es6' : s6' = s6 := (Prod.mk.inj e8).2
  rw [es6', ep2] at hH
  clear e8 ep2 es6' h8
  have e9 := changeOperand_ok hH
  have es7 : s7 = chgS (totalSize L + totalSize Bc + 5 + totalSize Bd) s6.insts.size s6 := (Prod.mk.inj e9).2
  subst es7
  have hinv6' : Inv s6 ((L ++ Bc ++ ⟨totalSize L + totalSize Bc, opJumpFalsy,
      [totalSize L + totalSize Bc + 5 + totalSize Bd + 5]⟩ :: Bd) ++
      ⟨totalSize L + totalSize Bc + 5 + totalSize Bd, opJump, [0]⟩ :: (P ++ N ++ [x, z] ++ R)) F₃ := by
    have := hinv6; simpa using this
  have hinv7 := hinv6'.patch (t := s6.insts.size) hjj
  have hsz6 : s6.insts.size = totalSize L + totalSize Bc + 5 + totalSize Bd + 5 + totalSize (P ++ N ++ [x, z] ++ R) := by
    rw [hinv6.em.size]
    simp only [totalSize_append, totalSize_cons, totalSize_nil, jump_size hjf, jump_size hjj] <;> omega
  have hf7 := chgS_frame (totalSize L + totalSize Bc + 5 + totalSize Bd) s6.insts.size s6
  rw [hsz6] at hinv7 hf7 ⊢
  generalize hJ1 : (Instr.mk (totalSize L + totalSize Bc) opJumpFalsy
    [totalSize L + totalSize Bc + 5 + totalSize Bd + 5]) = J1 at hinv7
  generalize hJ2 : (Instr.mk (totalSize L + totalSize Bc + 5 + totalSize Bd) opJump
    [totalSize L + totalSize Bc + 5 + totalSize Bd + 5 + totalSize (P ++ N ++ [x, z] ++ R)]) = J2 at hinv7
  have hJ1s : J1.size = 5 := by rw [← hJ1]; rfl
  have hJ2s : J2.size = 5 := by rw [← hJ2]; rfl
  refine ⟨Bc ++ J1 :: (Bd ++ J2 :: P), N, x, z, R, F₃, ?_, ?_, ?_, ?_, hnN, ?_, hx⟩
  · have e : L ++ (Bc ++ J1 :: (Bd ++ J2 :: P) ++ N ++ [x, z] ++ R) =
        L ++ Bc ++ J1 :: Bd ++ J2 :: (P ++ N ++ [x, z] ++ R) := by simp
    rw [e]; exact hinv7
  · have st2 : Step s1 (emitS opJumpFalsy [0] s1) F₁ F₁ := Step.of_eq F₁ rfl rfl rfl
    have st4 : Step s3 (emitS opJump [0] s3) F₂ F₂ := Step.of_eq F₂ rfl rfl rfl
    have st5 := Step.of_eq (s := emitS opJump [0] s3) F₂ hf5.2.2.1 hf5.2.1 hf5.1
    have st7 := Step.of_eq (s := s6) F₃ hf7.2.2.1 hf7.2.1 hf7.1
    exact (((((o1.step.trans st2).trans o2.step).trans st4).trans st5).trans hst6).trans st7
  · rw [hf7.2.2.2, hlo6, hf5.2.2.2]
    show s3.loops = sf.loops
    rw [hl3, hlf]
  · -- `Bc ++ J1 :: Bd ++ [J2]` contains the jump `J1` to its own end
    have ht1 : Thru (totalSize L) (totalSize L + totalSize Bc + 5 + totalSize Bd + 5) (Bc ++ J1 :: (Bd ++ [J2])) :=
      Thru.ofJump (j := J1) (by simp) (by rw [← hJ1]; rfl) (by rw [← hJ1]; rfl)
    have := ht1.append htP
    have e2 : Bc ++ J1 :: (Bd ++ J2 :: P) = Bc ++ J1 :: (Bd ++ [J2]) ++ P := by simp
    rw [e2]
    refine this.cast rfl ?_
    simp only [totalSize_append, totalSize_cons, totalSize_nil, hJ1s, hJ2s]
    omega
  · have hbd : SBlk (totalSize L + totalSize Bc + 5) (totalSize L + totalSize Bc + 5 + totalSize Bd) Bd [] [] :=
      o2.blk.cast (by simp only [totalSize_append, totalSize_cons, totalSize_nil, jump_size hjf])
        (by simp only [totalSize_append, totalSize_cons, totalSize_nil, jump_size hjf])
    have hbe : SBlk (totalSize L + totalSize Bc + 5 + totalSize Bd + 5)
        (totalSize L + totalSize Bc + 5 + totalSize Bd + 5 + totalSize (P ++ N ++ [x, z] ++ R)) (P ++ N ++ [x, z] ++ R) [] [] := hsbl
    have := SBlk.ifelse (hb1 0) hbd hbe
    rw [hJ1, hJ2] at this
    have e : Bc ++ J1 :: (Bd ++ J2 :: P) ++ N ++ [x, z] ++ R = Bc ++ J1 :: (Bd ++ J2 :: (P ++ N ++ [x, z] ++ R)) := by simp
    rw [e]
    refine (by simpa using this : SBlk _ _ _ [] []).cast rfl ?_
    simp only [totalSize_append, totalSize_cons, totalSize_nil, hJ1s, hJ2s]
    omega


/-- `if c { pre…; last; post… } else st` with a `CALL; RETURN` tail call at `last` inside the THEN block
(whatever the else branch is) -/
theorem thenelse_tailEnd {n sp : Nat} {zargs : List Nat} (ini : Option Stmt)
    (hini : ∀ st ∈ ini, passes st = true) (c : Expr) (pre : List Stmt) (last : Stmt) (post : List Stmt)
    (st : Stmt) (hpre : ∀ st ∈ pre, passes st = true) (hlast : LastOK last n sp opReturn zargs)
    (d : Nat) (s s' : CState) (L : List Instr) (F : List Nat)
    (h : compileStmt (d + 1) (.ifs ini c (pre ++ last :: post) (some st)) s = .ok ((), s')) (hinv : Inv s L F)
    (hsz : szS (d + 1) (.ifs ini c (pre ++ last :: post) (some st)) < 2 ^ 30) (hl : s.loops = []) :
    TailEnd s s' L F n sp opReturn zargs := by
  have hjf : isJump opJumpFalsy = true := rfl
  have hjj : isJump opJump = true := rfl
  rw [compile_ifs] at h
  rw [szS_ifs] at hsz
  have hszi : szOS d ini < 2 ^ 30 := by omega
  simp only [szOS] at hsz
  obtain ⟨_, s0, h0, hA⟩ := bind_ok h
  have e0 : s0 = forkS true s := by
    rw [fork_run] at h0; injection h0 with h0; exact (Prod.mk.inj h0).2.symm
  subst e0
  obtain ⟨_, s0', h0', hB⟩ := bind_ok hA
  obtain ⟨_, s1, h1, hC⟩ := bind_ok hB
  obtain ⟨jp1, s2, h2, hD⟩ := bind_ok hC
  obtain ⟨_, s3, h3, hE⟩ := bind_ok hD
  obtain ⟨_, s7, hT, hF⟩ := bind_ok hE
  have e8 : s' = unforkS s7 := by
    rw [unfork_run] at hF; injection hF with hF; exact (Prod.mk.inj hF).2.symm
  subst e8
  clear h hA hB hC hD hE hF h0
  refine TailEnd.forked hinv ?_
  obtain ⟨Bi, Fi, bsi, csi, oi, ti⟩ := optS_thru ini hini h0' hinv.fork hszi
  obtain ⟨ebs, ecs⟩ := oi.nopend hl
  subst ebs; subst ecs
  have hli : s0'.loops = [] := by rw [oi.loops]; exact addPend_eq_nil hl
  refine TailEnd.prepend oi.step (hli.trans hl.symm) ti oi.blk ?_
  suffices core : ∀ (sf : CState) (L : List Instr) (F : List Nat), Inv sf L F → sf.loops = [] →
      compileExpr d c sf = .ok ((), s1) → TailEnd sf s7 L F n sp opReturn zargs from
    core s0' (L ++ Bi) Fi oi.inv hli h1
  intro sf L F hinv0 hlf h1
  unfold ifTail at hT
  obtain ⟨jp2, s4, h4, hD⟩ := bind_ok hT
  obtain ⟨p1, s4', h5, hE⟩ := bind_ok hD
  obtain ⟨_, s5, h6, hF⟩ := bind_ok hE
  obtain ⟨_, s6, h7, hG⟩ := bind_ok hF
  obtain ⟨p2, s6', h8, hH⟩ := bind_ok hG
  clear hT hD hE hF hG
  -- condition
  obtain ⟨Bc, F₁, o1, hb1⟩ := (all_spec d).e c sf s1 L F h1 hinv0 (by omega)
  have e2 := emit_ok h2
  have ejp1 : jp1 = s1.insts.size := (Prod.mk.inj e2).1
  have es2 : s2 = emitS opJumpFalsy [0] s1 := (Prod.mk.inj e2).2
  subst es2
  have inv2 := o1.inv.emit (op := opJumpFalsy) (args := [0]) (jump_shape hjf) (opReq_jump hjf)
  have hl1 : s1.loops = [] := by rw [o1.loops]; exact hlf
  have hsz1 : s1.insts.size = totalSize L + totalSize Bc := by rw [o1.inv.em.size, totalSize_append]
  have hjp1 : jp1 = totalSize L + totalSize Bc := by rw [ejp1, hsz1]
  subst hjp1
  have hL1 : totalSize (L ++ Bc) = totalSize L + totalSize Bc := totalSize_append _ _
  rw [hL1] at inv2
  -- the THEN block
  obtain ⟨P, N, x, z, R, F₂, hinv3, hst3, hlo3, htP, hnN, hsbl, hx⟩ :=
    block_tailEnd pre last post (Or.inr rfl) hpre hlast d _ s3 _ F₁ h3 inv2 (by omega) hl1
  have hM : totalSize (L ++ Bc ++ [⟨totalSize L + totalSize Bc, opJumpFalsy, [0]⟩]) = totalSize L + totalSize Bc + 5 := by
    simp only [totalSize_append, totalSize_cons, totalSize_nil, jump_size hjf]
  rw [hM] at htP hsbl
  have hl3 : s3.loops = [] := by rw [hlo3]; exact hl1
  generalize hT : P ++ N ++ [x, z] ++ R = T at hinv3 hsbl
  have hsz3 : s3.insts.size = totalSize L + totalSize Bc + 5 + totalSize T := by
    rw [hinv3.em.size]; simp only [totalSize_append, totalSize_cons, totalSize_nil, jump_size hjf] <;> omega
  have e4 := emit_ok h4
  have ejp2 : jp2 = s3.insts.size := (Prod.mk.inj e4).1
  have es4 : s4 = emitS opJump [0] s3 := (Prod.mk.inj e4).2
  subst es4
  have inv4 := hinv3.emit (op := opJump) (args := [0]) (jump_shape hjj) (opReq_jump hjj)
  have hL3 : totalSize (L ++ Bc ++ [⟨totalSize L + totalSize Bc, opJumpFalsy, [0]⟩] ++ T) =
      totalSize L + totalSize Bc + 5 + totalSize T := by
    simp only [totalSize_append, totalSize_cons, totalSize_nil, jump_size hjf] <;> omega
  rw [hL3] at inv4
  have hjp2 : jp2 = totalSize L + totalSize Bc + 5 + totalSize T := by rw [ejp2, hsz3]
  subst hjp2
  -- first patch
  have e5 := curPos_ok h5
  have ep1 : p1 = (emitS opJump [0] s3).insts.size := (Prod.mk.inj e5).1
  have es4' : s4' = emitS opJump [0] s3 := (Prod.mk.inj e5).2
  rw [es4', ep1] at h6
  clear e5 ep1 es4' h5
  have e6 := changeOperand_ok h6
  have es5 : s5 = chgS (totalSize L + totalSize Bc) (emitS opJump [0] s3).insts.size (emitS opJump [0] s3) :=
    (Prod.mk.inj e6).2
  subst es5
  have hsz4 : (emitS opJump [0] s3).insts.size = totalSize L + totalSize Bc + 5 + totalSize T + 5 := by
    rw [inv4.em.size]; simp only [totalSize_append, totalSize_cons, totalSize_nil, jump_size hjf, jump_size hjj] <;> omega
  have hinv4' : Inv (emitS opJump [0] s3) ((L ++ Bc) ++ ⟨totalSize L + totalSize Bc, opJumpFalsy, [0]⟩ ::
      (T ++ [⟨totalSize L + totalSize Bc + 5 + totalSize T, opJump, [0]⟩])) F₂ := by
    have := inv4; simpa using this
  have hinv5 := hinv4'.patch (t := (emitS opJump [0] s3).insts.size) hjf
  have hf5 := chgS_frame (totalSize L + totalSize Bc) (emitS opJump [0] s3).insts.size (emitS opJump [0] s3)
  rw [hsz4] at hinv5 hf5 h7
  -- else branch
  have hl5 : (chgS (totalSize L + totalSize Bc) (totalSize L + totalSize Bc + 5 + totalSize T + 5)
      (emitS opJump [0] s3)).loops = [] := by rw [hf5.2.2.2]; exact hl3
  obtain ⟨Be, F₃, bs₂, cs₂, o3⟩ := (all_spec d).s st _ s6 _ F₂ h7 hinv5 (by omega)
  obtain ⟨ebs, ecs⟩ := o3.nopend hl5
  subst ebs; subst ecs
  have hL5 : totalSize (L ++ Bc ++ ⟨totalSize L + totalSize Bc, opJumpFalsy,
      [totalSize L + totalSize Bc + 5 + totalSize T + 5]⟩ ::
      (T ++ [⟨totalSize L + totalSize Bc + 5 + totalSize T, opJump, [0]⟩])) =
      totalSize L + totalSize Bc + 5 + totalSize T + 5 := by
    simp only [totalSize_append, totalSize_cons, totalSize_nil, jump_size hjf, jump_size hjj] <;> omega
  have e8 := curPos_ok h8
  have ep2 : p2 = s6.insts.size := (Prod.mk.inj e8).1
  have es6' : s6' = s6 := (Prod.mk.inj e8).2
  rw [es6', ep2] at hH
  clear e8 ep2 es6' h8
  have e9 := changeOperand_ok hH
  have es7 : s7 = chgS (totalSize L + totalSize Bc + 5 + totalSize T) s6.insts.size s6 := (Prod.mk.inj e9).2
  subst es7
  have hinv6' : Inv s6 ((L ++ Bc ++ ⟨totalSize L + totalSize Bc, opJumpFalsy,
      [totalSize L + totalSize Bc + 5 + totalSize T + 5]⟩ :: T) ++
      ⟨totalSize L + totalSize Bc + 5 + totalSize T, opJump, [0]⟩ :: Be) F₃ := by
    have := o3.inv; simpa using this
  have hinv7 := hinv6'.patch (t := s6.insts.size) hjj
  have hsz6 : s6.insts.size = totalSize L + totalSize Bc + 5 + totalSize T + 5 + totalSize Be := by
    rw [o3.inv.em.size]
    simp only [totalSize_append, totalSize_cons, totalSize_nil, jump_size hjf, jump_size hjj] <;> omega
  have hf7 := chgS_frame (totalSize L + totalSize Bc + 5 + totalSize T) s6.insts.size s6
  rw [hsz6] at hinv7 hf7 ⊢
  generalize hJ1 : (Instr.mk (totalSize L + totalSize Bc) opJumpFalsy
    [totalSize L + totalSize Bc + 5 + totalSize T + 5]) = J1 at hinv7
  generalize hJ2 : (Instr.mk (totalSize L + totalSize Bc + 5 + totalSize T) opJump
    [totalSize L + totalSize Bc + 5 + totalSize T + 5 + totalSize Be]) = J2 at hinv7
  have hJ1s : J1.size = 5 := by rw [← hJ1]; rfl
  have hJ2s : J2.size = 5 := by rw [← hJ2]; rfl
  have hJ1o : J1.op = opJumpFalsy := by rw [← hJ1]
  obtain ⟨hxo, hxa, hzo, hza, _⟩ := hx
  refine ⟨Bc ++ J1 :: P, N, x, z, R ++ J2 :: Be, F₃, ?_, ?_, ?_, ?_, hnN, ?_, hxo, hxa, hzo, hza, Or.inr rfl⟩
  · have e : L ++ (Bc ++ J1 :: P ++ N ++ [x, z] ++ (R ++ J2 :: Be)) =
        L ++ Bc ++ J1 :: (P ++ N ++ [x, z] ++ R) ++ J2 :: Be := by simp
    rw [e, hT]; exact hinv7
  · have st2 : Step s1 (emitS opJumpFalsy [0] s1) F₁ F₁ := Step.of_eq F₁ rfl rfl rfl
    have st4 : Step s3 (emitS opJump [0] s3) F₂ F₂ := Step.of_eq F₂ rfl rfl rfl
    have st5 := Step.of_eq (s := emitS opJump [0] s3) F₂ hf5.2.2.1 hf5.2.1 hf5.1
    have st7 := Step.of_eq (s := s6) F₃ hf7.2.2.1 hf7.2.1 hf7.1
    exact (((((o1.step.trans st2).trans hst3).trans st4).trans st5).trans o3.step).trans st7
  · rw [hf7.2.2.2, o3.loops, hl5, hlf]; rfl
  · have hlay := hinv7.em.lay
    have hl1' : Layout (totalSize L) (Bc ++ [J1]) := by
      have e : L ++ Bc ++ J1 :: T ++ J2 :: Be = L ++ (Bc ++ [J1]) ++ (T ++ J2 :: Be) := by simp
      rw [e] at hlay
      have := (layout_split (layout_split hlay).1).2
      simpa using this
    have hn1 : NoRet (Bc ++ [J1]) := by
      obtain ⟨H, _, hn, _⟩ := hb1 0
      refine (NoPR.noRet hn).append ?_
      intro i hi
      simp only [List.mem_singleton] at hi
      subst hi
      rw [hJ1o]; exact jmpf_ne_ret
    have ht1 := Thru.ofNoRet hl1' hn1
    have e1 : totalSize (Bc ++ [J1]) = totalSize Bc + 5 := by
      simp only [totalSize_append, totalSize_cons, totalSize_nil, hJ1s]
    rw [e1, ← Nat.add_assoc] at ht1
    have := ht1.append htP
    have e2 : Bc ++ J1 :: P = Bc ++ [J1] ++ P := by simp
    rw [e2]
    refine this.cast rfl ?_
    simp only [totalSize_append, totalSize_cons, totalSize_nil, hJ1s]
    omega
  · have hbe : SBlk (totalSize L + totalSize Bc + 5 + totalSize T + 5)
        (totalSize L + totalSize Bc + 5 + totalSize T + 5 + totalSize Be) Be [] [] :=
      o3.blk.cast hL5 (by rw [hL5])
    have := SBlk.ifelse (hb1 0) hsbl hbe
    rw [hJ1, hJ2] at this
    have e : Bc ++ J1 :: P ++ N ++ [x, z] ++ (R ++ J2 :: Be) = Bc ++ J1 :: ((P ++ N ++ [x, z] ++ R) ++ J2 :: Be) := by
      simp
    rw [e, hT]
    refine (by simpa using this : SBlk _ _ _ [] []).cast rfl ?_
    simp only [totalSize_append, totalSize_cons, totalSize_nil, hJ1s, hJ2s]
    omega

/-- **Tail position of statements**: `st`, as the statement `last` of a function body `pre…; last; post…`, ends
with `CALL n sp; zop zargs`. Statements after the tail statement (`post`) are allowed only behind `CALL; RETURN`. -/
inductive TailS : Stmt → Nat → Nat → Nat → List Nat → Prop
  | ret {e : Expr} {ell : Bool} {f : Expr} {args : List Expr} : TailE e ell f args →
      TailS (.ret (some e)) args.length (if ell then 1 else 0) opReturn [1]
  | expr {e : Expr} {ell : Bool} {f : Expr} {args : List Expr} : TailE e ell f args →
      TailS (.expr e) args.length (if ell then 1 else 0) opPop []
  | ifThen (ini : Option Stmt) (c : Expr) (pre : List Stmt) {last : Stmt} (post : List Stmt) {n sp zop : Nat}
      {zargs : List Nat} : (∀ st ∈ ini, passes st = true) → (post = [] ∨ zop = opReturn) → (∀ st ∈ pre, passes st = true) → TailS last n sp zop zargs →
      TailS (.ifs ini c (pre ++ last :: post) none) n sp zop zargs
  | ifThenElse (ini : Option Stmt) (c : Expr) (pre : List Stmt) {last : Stmt} (post : List Stmt) (st : Stmt)
      {n sp : Nat} {zargs : List Nat} : (∀ st ∈ ini, passes st = true) → (∀ st ∈ pre, passes st = true) → TailS last n sp opReturn zargs →
      TailS (.ifs ini c (pre ++ last :: post) (some st)) n sp opReturn zargs
  | ifElse (ini : Option Stmt) (c : Expr) (body : List Stmt) {st : Stmt} {n sp zop : Nat} {zargs : List Nat} :
      (∀ st ∈ ini, passes st = true) → TailS st n sp zop zargs → TailS (.ifs ini c body (some st)) n sp zop zargs
  | block (pre : List Stmt) {last : Stmt} (post : List Stmt) {n sp zop : Nat} {zargs : List Nat} :
      (post = [] ∨ zop = opReturn) → (∀ st ∈ pre, passes st = true) → TailS last n sp zop zargs →
      TailS (.block (pre ++ last :: post)) n sp zop zargs

theorem tailS_tailEnd {st : Stmt} {n sp zop : Nat} {zargs : List Nat} (h : TailS st n sp zop zargs) :
    LastOK st n sp zop zargs := by
  induction h with
  | ret ht => exact fun d' s1 s1' L1 F1 hc hi hs _ => ret_tailEnd ht s1 s1' L1 F1 hc hi hs
  | expr ht => exact fun d' s1 s1' L1 F1 hc hi hs _ => expr_tailEnd ht s1 s1' L1 F1 hc hi hs
  | ifThen ini c pre post hini hpost hpre _ ih =>
    exact fun d' s1 s1' L1 F1 hc hi hs hl => if_tailEnd ini hini c pre _ post hpost hpre ih d' s1 s1' L1 F1 hc hi hs hl
  | ifThenElse ini c pre post st hini hpre _ ih =>
    exact fun d' s1 s1' L1 F1 hc hi hs hl => thenelse_tailEnd ini hini c pre _ post st hpre ih d' s1 s1' L1 F1 hc hi hs hl
  | ifElse ini c body hini _ ih => exact fun d' s1 s1' L1 F1 hc hi hs hl => ifelse_tailEnd ini hini c body _ ih d' s1 s1' L1 F1 hc hi hs hl
  | @block pre last post n sp zop zargs hpost hpre _ ih =>
    intro d' s1 s1' L1 F1 hc hi hs hl
    rw [compileStmt] at hc
    have hszd : szS (d' + 1) (.block (pre ++ last :: post)) = szBlock d' (pre ++ last :: post) := by rw [szS]
    rw [hszd] at hs
    exact block_tailEnd pre _ post hpost hpre ih d' s1 s1' L1 F1 hc hi hs hl

end Tengo.Proofs.C16Fn

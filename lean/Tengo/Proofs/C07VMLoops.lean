import Tengo.Proofs.C07VMBeh
/-!
Concrete programs on the whole-VM model. Two looping ones, compiled by hand the way compiler.go compiles them:

* `for {}`                          main: `JMP 0; SUSPEND`                       (a backward jump)
* `f := func() { return f() }; f()`  f:    `GETG 0; CALL 0 0; RET 1`              (a self tail call: the frame is
                                                                                   reused, `ip := -1`, `continue`)

Each comes back to its own configuration (after 1 resp. 2 dispatches) — for every heap and every allocation
counter — so its run never ends (`cycle_never_ends`).

And four that end, one for each outcome class the protocol model distinguishes (`ok`, `err`, `goPanic`,
`fatal`), used as non-vacuity witnesses by `Props/C07VM` and `Props/C05VM`.
-/
namespace Tengo.Proofs.C07VMLoops
open Tengo.Model.VM Tengo.Model.Spec Tengo.Model.VMAbort Tengo.Model.Opcodes

/-! ### `for {}` -/

def forMain : Fn := { insts := #[12, 0, 0, 0, 0, 41], numLocals := 0, numParams := 0, varargs := false }
def forCode : Code := { main := forMain, consts := #[] }
def forCore : Core :=
  { regs := { stack := #[], sp := 0, globals := #[] },
    cur := { fnIdx := 0, fnRef := none, ip := -1, bp := 0, free := [] }, callers := [] }
/-- The configuration `VM.Run` starts `for {}` from (any heap). -/
def forCfg (g : GSt) (h : St) : Cfg := ⟨forCore, g, h⟩

theorem for_fetch : fetch forMain 0 = { op := opJump, a0 := 0, a1 := 0, size := 5 } := by decide

theorem for_exec : exec forCode forCore = pure (.next forCore false) := by
  have h1 : forCode.fn forCore.cur.fnIdx = some forMain := rfl
  have h2 : forCore.cur.ip + 1 = 0 := rfl
  unfold exec
  rw [h1, h2]
  simp only [for_fetch]
  rfl

theorem for_dispatch (a : Int) (g : GSt) (h : St) : dispatch forCode a (forCfg g h) = .go (forCfg g h) a false := by
  unfold dispatch forCfg
  simp only [for_exec]
  rfl

theorem for_cycle (a : Int) (g : GSt) (h : St) : cfgAt forCode 1 a (forCfg g h) = some (forCfg g h, a) := by
  simp [cfgAt, for_dispatch]

/-! ### unbounded self tail recursion -/

/-- `func() { return f() }` with `f` global 0: `GETG 0; CALL 0 0; RET 1`. -/
def tailFn : Fn := { insts := #[22, 0, 0, 20, 0, 0, 21, 1], numLocals := 0, numParams := 0, varargs := false }
def tailCode : Code :=
  { main := { insts := #[41], numLocals := 0, numParams := 0, varargs := false }, consts := #[.fn tailFn 0] }
def tailRegs (sp : Nat) : Regs :=
  { stack := #[.cfn 0, .cfn 0], sp := sp, globals := #[.cfn 0], fobjs := #[(0, [])] }
def tailFrame (ip : Int) : Tengo.Model.VM.Frame := { fnIdx := 1, fnRef := some 0, ip := ip, bp := 1, free := [] }
def tailCaller : Tengo.Model.VM.Frame := { fnIdx := 0, fnRef := none, ip := 5, bp := 0, free := [] }
/-- At the entry of `f` (frame 2, called from main). -/
def tailCore0 : Core := { regs := tailRegs 1, cur := tailFrame (-1), callers := [tailCaller] }
/-- After `GETG 0`: the callee is on the stack, the next instruction is the self call in tail position. -/
def tailCore1 : Core := { regs := tailRegs 2, cur := tailFrame 2, callers := [tailCaller] }
def tailCfg (g : GSt) (h : St) : Cfg := ⟨tailCore0, g, h⟩

theorem tail_fetch0 : fetch tailFn 0 = { op := opGetGlobal, a0 := 0, a1 := 0, size := 3 } := by decide
theorem tail_fetch1 : fetch tailFn 3 = { op := opCall, a0 := 0, a1 := 0, size := 3 } := by decide

/-- The call at offset 3 IS a self tail call (callee = the running function object, next instruction RET). -/
theorem tail_isSelfTail : isSelfTail tailFn tailCore1.cur 0 (3 + 2) = true := by decide

theorem tail_exec0 : exec tailCode tailCore0 = pure (.next tailCore1 false) := by
  have h1 : tailCode.fn tailCore0.cur.fnIdx = some tailFn := rfl
  have h2 : tailCore0.cur.ip + 1 = 0 := rfl
  unfold exec
  rw [h1, h2]
  simp only [tail_fetch0]
  rfl

/-- The self tail call reuses the frame: same callers, same base pointer, `ip` back to -1. -/
theorem tail_exec1 : exec tailCode tailCore1 = pure (.next tailCore0 false) := by
  have h1 : tailCode.fn tailCore1.cur.fnIdx = some tailFn := rfl
  have h2 : tailCore1.cur.ip + 1 = 3 := rfl
  unfold exec
  rw [h1, h2]
  simp only [tail_fetch1]
  rfl

theorem tail_dispatch0 (a : Int) (g : GSt) (h : St) :
    dispatch tailCode a ⟨tailCore0, g, h⟩ = .go ⟨tailCore1, g, h⟩ a false := by
  unfold dispatch
  simp only [tail_exec0]
  rfl

theorem tail_dispatch1 (a : Int) (g : GSt) (h : St) :
    dispatch tailCode a ⟨tailCore1, g, h⟩ = .go ⟨tailCore0, g, h⟩ a false := by
  unfold dispatch
  simp only [tail_exec1]
  rfl

theorem tail_cycle (a : Int) (g : GSt) (h : St) : cfgAt tailCode 2 a (tailCfg g h) = some (tailCfg g h, a) := by
  simp [cfgAt, tailCfg, tail_dispatch0, tail_dispatch1]

/-! ### programs that end: SUSPEND, a run-time error, a recovered Go panic, exhausted native recursion -/

def startCore (stack : Array Value) (sp : Nat) (ip : Int) : Core :=
  { regs := { stack := stack, sp := sp, globals := #[] },
    cur := { fnIdx := 0, fnRef := none, ip := ip, bp := 0, free := [] }, callers := [] }

/-- `true` as an expression statement: `TRUE; POP; SUSPEND`. -/
def okMain : Fn := { insts := #[3, 2, 41], numLocals := 0, numParams := 0, varargs := false }
def okCode : Code := { main := okMain, consts := #[] }
def okCfg (ip : Int) (sp : Nat) (stack : Array Value) : Cfg := ⟨startCore stack sp ip, {}, {}⟩
def okStart : Cfg := okCfg (-1) 0 #[.undef]

theorem ok_fetch0 : fetch okMain 0 = { op := opTrue } := by decide
theorem ok_fetch1 : fetch okMain 1 = { op := opPop } := by decide
theorem ok_fetch2 : fetch okMain 2 = { op := opSuspend } := by decide

theorem ok_exec0 : exec okCode (startCore #[.undef] 0 (-1)) = pure (.next (startCore #[.bool true] 1 0) false) := by
  have h1 : okCode.fn (startCore #[.undef] 0 (-1)).cur.fnIdx = some okMain := rfl
  have h2 : (startCore #[.undef] 0 (-1)).cur.ip + 1 = 0 := rfl
  unfold exec
  rw [h1, h2]
  simp only [ok_fetch0]
  rfl

theorem ok_exec1 : exec okCode (startCore #[.bool true] 1 0) = pure (.next (startCore #[.bool true] 0 1) false) := by
  have h1 : okCode.fn (startCore #[.bool true] 1 0).cur.fnIdx = some okMain := rfl
  have h2 : (startCore #[.bool true] 1 0).cur.ip + 1 = 1 := rfl
  unfold exec
  rw [h1, h2]
  simp only [ok_fetch1]
  rfl

theorem ok_exec2 : exec okCode (startCore #[.bool true] 0 1) = pure (.halt (startCore #[.bool true] 0 2)) := by
  have h1 : okCode.fn (startCore #[.bool true] 0 1).cur.fnIdx = some okMain := rfl
  have h2 : (startCore #[.bool true] 0 1).cur.ip + 1 = 2 := rfl
  unfold exec
  rw [h1, h2]
  simp only [ok_fetch2]
  rfl

theorem ok_dispatch0 (a : Int) : dispatch okCode a okStart = .go (okCfg 0 1 #[.bool true]) a false := by
  unfold dispatch okStart okCfg
  simp only [ok_exec0]
  rfl

theorem ok_dispatch1 (a : Int) : dispatch okCode a (okCfg 0 1 #[.bool true]) = .go (okCfg 1 0 #[.bool true]) a false := by
  unfold dispatch okCfg
  simp only [ok_exec1]
  rfl

theorem ok_dispatch2 (a : Int) :
    dispatch okCode a (okCfg 1 0 #[.bool true]) = .stop (.halted (okCfg 2 0 #[.bool true])) := by
  unfold dispatch okCfg
  simp only [ok_exec2]
  rfl

/-- The run of `TRUE; POP; SUSPEND`: three dispatches, then halted. -/
theorem ok_run (keep : Nat) (a : Int) (log : Log) :
    (run okCode keep 3 a okStart log).1 = .halted (okCfg 2 0 #[.bool true]) ∧
    (run okCode keep 2 a okStart log).1 = .outOfFuel (okCfg 1 0 #[.bool true]) := by
  constructor
  · rw [run_dispatch, ok_dispatch0]
    simp only
    rw [run_dispatch, ok_dispatch1]
    simp only
    rw [run_dispatch, ok_dispatch2]
  · rw [run_dispatch, ok_dispatch0]
    simp only
    rw [run_dispatch, ok_dispatch1]
    simp only [run_zero]

theorem ok_run_steps (keep : Nat) (a : Int) (log : Log) :
    (run okCode keep 3 a okStart log).2.steps = log.steps + 3 := by
  rw [run_dispatch, ok_dispatch0]
  simp only
  rw [run_dispatch, ok_dispatch1]
  simp only
  rw [run_dispatch, ok_dispatch2]
  simp

/-- `-true`: `TRUE; MINUS; …` — a run-time error returned through `v.err`. -/
def rtMain : Fn := { insts := #[3, 7, 2, 41], numLocals := 0, numParams := 0, varargs := false }
def rtCode : Code := { main := rtMain, consts := #[] }

theorem rt_fetch0 : fetch rtMain 0 = { op := opTrue } := by decide
theorem rt_fetch1 : fetch rtMain 1 = { op := opMinus } := by decide

theorem rt_exec0 : exec rtCode (startCore #[.undef] 0 (-1)) = pure (.next (startCore #[.bool true] 1 0) false) := by
  have h1 : rtCode.fn (startCore #[.undef] 0 (-1)).cur.fnIdx = some rtMain := rfl
  have h2 : (startCore #[.undef] 0 (-1)).cur.ip + 1 = 0 := rfl
  unfold exec
  rw [h1, h2]
  simp only [rt_fetch0]
  rfl

theorem rt_exec1 : (((exec rtCode (startCore #[.bool true] 1 0)).run).run {}).run {} =
    .error (.runtime "invalid operation: -bool") := by
  have h1 : rtCode.fn (startCore #[.bool true] 1 0).cur.fnIdx = some rtMain := rfl
  have h2 : (startCore #[.bool true] 1 0).cur.ip + 1 = 1 := rfl
  unfold exec
  rw [h1, h2]
  simp only [rt_fetch1]
  rfl

theorem rt_dispatch0 (a : Int) : dispatch rtCode a okStart = .go (okCfg 0 1 #[.bool true]) a false := by
  unfold dispatch okStart okCfg
  simp only [rt_exec0]
  rfl

theorem rt_dispatch1 (a : Int) : dispatch rtCode a (okCfg 0 1 #[.bool true]) =
    .stop (.failed (.runtime "invalid operation: -bool") (okCfg 0 1 #[.bool true])) := by
  unfold dispatch okCfg
  simp only [rt_exec1]

theorem rt_run (keep : Nat) (a : Int) (log : Log) :
    (run rtCode keep 2 a okStart log).1 =
      .failed (.runtime "invalid operation: -bool") (okCfg 0 1 #[.bool true]) := by
  rw [run_dispatch, rt_dispatch0]
  simp only
  rw [run_dispatch, rt_dispatch1]

/-- `TRUE; ITERNEXT`: the VM's type assertion `.(Iterator)` on a Bool — a Go run-time panic (hand-made
bytecode; the compiler only emits ITERNEXT after ITERINIT). -/
def panicMain : Fn := { insts := #[3, 37, 41], numLocals := 0, numParams := 0, varargs := false }
def panicCode : Code := { main := panicMain, consts := #[] }
def panicText : String := "interface conversion: tengo.Object is not tengo.Iterator"

theorem panic_fetch0 : fetch panicMain 0 = { op := opTrue } := by decide
theorem panic_fetch1 : fetch panicMain 1 = { op := opIteratorNext } := by decide

theorem panic_exec0 : exec panicCode (startCore #[.undef] 0 (-1)) = pure (.next (startCore #[.bool true] 1 0) false) := by
  have h1 : panicCode.fn (startCore #[.undef] 0 (-1)).cur.fnIdx = some panicMain := rfl
  have h2 : (startCore #[.undef] 0 (-1)).cur.ip + 1 = 0 := rfl
  unfold exec
  rw [h1, h2]
  simp only [panic_fetch0]
  rfl

theorem panic_exec1 : (((exec panicCode (startCore #[.bool true] 1 0)).run).run {}).run {} =
    .error (.gopanic panicText) := by
  have h1 : panicCode.fn (startCore #[.bool true] 1 0).cur.fnIdx = some panicMain := rfl
  have h2 : (startCore #[.bool true] 1 0).cur.ip + 1 = 1 := rfl
  unfold exec
  rw [h1, h2]
  simp only [panic_fetch1]
  rfl

theorem panic_dispatch0 (a : Int) : dispatch panicCode a okStart = .go (okCfg 0 1 #[.bool true]) a false := by
  unfold dispatch okStart okCfg
  simp only [panic_exec0]
  rfl

theorem panic_dispatch1 (a : Int) : dispatch panicCode a (okCfg 0 1 #[.bool true]) =
    .stop (.failed (.gopanic panicText) (okCfg 0 1 #[.bool true])) := by
  unfold dispatch okCfg
  simp only [panic_exec1]

theorem panic_run (keep : Nat) (a : Int) (log : Log) :
    (run panicCode keep 2 a okStart log).1 = .failed (.gopanic panicText) (okCfg 0 1 #[.bool true]) := by
  rw [run_dispatch, panic_dispatch0]
  simp only
  rw [run_dispatch, panic_dispatch1]

/-- The image of known finding O9 on the model: `a == a` after `a := [0]; a[0] = a` — `EQUAL` on a stack that
holds the cyclic array twice. `Array.Equals` recurses natively without end; the model's bounded `equalsV 64`
runs out. -/
def cycMain : Fn := { insts := #[5, 41], numLocals := 0, numParams := 0, varargs := false }
def cycCode : Code := { main := cycMain, consts := #[] }
def cycCore : Core := startCore #[.arr 0, .arr 0] 2 (-1)
/-- heap: object 0 = array header over store 1, store 1 = `[array 0]`: the array contains itself. -/
def cycHeap : St := { heap := #[.arr 1 0 1, .store #[.arr 0] 1] }
def cycCfg : Cfg := ⟨cycCore, {}, cycHeap⟩

theorem cyc_fetch : fetch cycMain 0 = { op := opEqual } := by decide

set_option maxRecDepth 100000 in
theorem cyc_exec : (((exec cycCode cycCore).run).run {}).run cycHeap = .error .fuel := by
  have h1 : cycCode.fn cycCore.cur.fnIdx = some cycMain := rfl
  have h2 : cycCore.cur.ip + 1 = 0 := rfl
  unfold exec
  rw [h1, h2]
  simp only [cyc_fetch]
  rfl

theorem cyc_dispatch (a : Int) : dispatch cycCode a cycCfg = .stop (.failed .fuel cycCfg) := by
  unfold dispatch cycCfg
  simp only [cyc_exec]

theorem cyc_run (keep : Nat) (a : Int) (log : Log) : (run cycCode keep 1 a cycCfg log).1 = .failed .fuel cycCfg := by
  rw [run_dispatch, cyc_dispatch]

end Tengo.Proofs.C07VMLoops

import Tengo.Proofs.C11PlaceRhoE
/-!
C11, PLACEMENT global ↦ local with block-scoped declarations and re-use of local slots, layer 2: statements
(see `C11PlaceRhoE` for the setting). `chkS` / `chkSs`: the static discipline; `renRS` / `renRSs`: the local
placement (`x := e` for the first write of a variable not in scope, `x = e` otherwise, slot `ρ j`);
`simRho_all`: same fuel, same results, the variables in scope afterwards have their values in their slots.
-/
set_option linter.unusedVariables false
set_option linter.unusedSimpArgs false
namespace Tengo.Proofs.C11Place
open Tengo.Model Tengo.Model.F3
open Tengo.Model.F0 (Sem upd)
variable {V : Type}

def updD (d : Nat → Bool) (j : Nat) : Nat → Bool := fun k => k == j || d k

/-- Writing variable `j` does not hit the local slot of another variable in scope. -/
def noEvict (ρ : Nat → Nat) (N : Nat) (d : Nat → Bool) (j : Nat) : Bool :=
  (List.range N).all (fun k => !(d k) || k == j || !(ρ k == ρ j))

/-- Scope after a statement: an assignment brings its variable into scope; what a block declares ends with it. -/
def outR (d : Nat → Bool) : Stm → (Nat → Bool)
  | .assign j _ => updD d j
  | _ => d

def outRs (d : Nat → Bool) : Stms → (Nat → Bool)
  | .nil => d
  | .cons s ss => outRs (outR d s) ss

mutual
  def chkS (ρ : Nat → Nat) (N : Nat) (d : Nat → Bool) : Stm → Bool
    | .expr e => rdE N d e
    | .assign j e => decide (j < N) && rdE N d e && noEvict ρ N d j
    | .ifs c b => rdE N d c && chkSs ρ N d b
    | .ifelse c b e => rdE N d c && chkSs ρ N d b && chkSs ρ N d e
    | .whil c b => rdE N d c && chkSs ρ N d b
    | .forever b => chkSs ρ N d b
    | .for3 c b p => rdE N d c && chkSs ρ N d b && chkS ρ N d p
    | .brk => true
    | .cont => true
    | .defl _ _ => false
    | .setl _ _ => false
    | .ret _ => false
    | .ret0 => false
  def chkSs (ρ : Nat → Nat) (N : Nat) (d : Nat → Bool) : Stms → Bool
    | .nil => true
    | .cons s ss => chkS ρ N d s && chkSs ρ N (outR d s) ss
end

mutual
  def renRS (ρ : Nat → Nat) (d : Nat → Bool) : Stm → Stm
    | .expr e => .expr (renRE ρ e)
    | .assign j e => if d j then .setl (ρ j) (renRE ρ e) else .defl (ρ j) (renRE ρ e)
    | .ifs c b => .ifs (renRE ρ c) (renRSs ρ d b)
    | .ifelse c b e => .ifelse (renRE ρ c) (renRSs ρ d b) (renRSs ρ d e)
    | .whil c b => .whil (renRE ρ c) (renRSs ρ d b)
    | .forever b => .forever (renRSs ρ d b)
    | .for3 c b p => .for3 (renRE ρ c) (renRSs ρ d b) (renRS ρ d p)
    | .defl i e => .defl i e
    | .setl i e => .setl i e
    | .brk => .brk
    | .cont => .cont
    | .ret e => .ret e
    | .ret0 => .ret0
  def renRSs (ρ : Nat → Nat) (d : Nat → Bool) : Stms → Stms
    | .nil => .nil
    | .cons s ss => .cons (renRS ρ d s) (renRSs ρ (outR d s) ss)
end

/-- The variables in scope are below `N`. -/
def DB (N : Nat) (d : Nat → Bool) : Prop := ∀ k, d k = true → k < N

theorem DB.upd {N : Nat} {d : Nat → Bool} (h : DB N d) {j : Nat} (hj : j < N) : DB N (updD d j) := by
  intro k hk
  simp only [updD, Bool.or_eq_true, beq_iff_eq] at hk
  rcases hk with rfl | hk
  · exact hj
  · exact h k hk

theorem outR_mono (d : Nat → Bool) (s : Stm) (k : Nat) (h : d k = true) : outR d s k = true := by
  cases s <;> first | exact h | (simp only [outR, updD, h, Bool.or_true])

theorem outRs_mono : ∀ (ss : Stms) (d : Nat → Bool) (k : Nat), d k = true → outRs d ss k = true
  | .nil, d, k, h => h
  | .cons s ss, d, k, h => outRs_mono ss (outR d s) k (outR_mono d s k h)

theorem Rr.weaken {ρ : Nat → Nat} {d d' : Nat → Bool} {g : Nat → V} {l : Locals V} (h : Rr ρ d g l)
    (hm : ∀ k, d' k = true → d k = true) : Rr ρ d' g l := fun j hj => h j (hm j hj)

theorem Rr.upd {ρ : Nat → Nat} {N : Nat} {d : Nat → Bool} {g : Nat → V} {l : Locals V} (h : Rr ρ d g l)
    (hd : DB N d) {j : Nat} (hne : noEvict ρ N d j = true) (v : V) :
    Rr ρ (updD d j) (upd g j v) (updL l (ρ j) v) := by
  intro k hk
  simp only [updD, Bool.or_eq_true, beq_iff_eq] at hk
  by_cases hkj : k = j
  · subst hkj; simp only [updL, F0.upd, if_true]
  · have hdk : d k = true := by
      rcases hk with h1 | h1
      · exact absurd h1 hkj
      · exact h1
    have hall := List.all_eq_true.mp hne k (List.mem_range.mpr (hd k hdk))
    simp only [hdk, Bool.not_true, Bool.false_or, Bool.or_eq_true, beq_iff_eq, Bool.not_eq_true',
      beq_eq_false_iff_ne, ne_eq] at hall
    have hρ : ρ k ≠ ρ j := by
      rcases hall with h1 | h1
      · exact absurd h1 hkj
      · exact h1
    simp only [updL, F0.upd, hρ, hkj, if_false]
    exact h k hdk

/-- What the final locals of the local placement must satisfy, by kind of result. -/
def resQ (Qd Qb : (Nat → V) → Locals V → Prop) (l' : Locals V) : Res V → Prop
  | .done g' _ => Qd g' l'
  | .brk g' _ => Qb g' l'
  | .cont g' _ => Qb g' l'
  | _ => True

/-- The local placement's result is the global one's (`tS'`) with final locals satisfying `Qd` / `Qb`. -/
def SimQ (Qd Qb : (Nat → V) → Locals V → Prop) (gL : Nat → V) (rL rG : Res V) : Prop :=
  ∃ l', rL = tS' gL l' rG ∧ resQ Qd Qb l' rG

theorem SimQ.mono {Qd Qb Qd' Qb' : (Nat → V) → Locals V → Prop} {gL : Nat → V} {rL rG : Res V}
    (h : SimQ Qd Qb gL rL rG) (hd : ∀ g l, Qd g l → Qd' g l) (hb : ∀ g l, Qb g l → Qb' g l) :
    SimQ Qd' Qb' gL rL rG := by
  obtain ⟨l', he, hq⟩ := h
  refine ⟨l', he, ?_⟩
  cases rG <;> first | exact hd _ _ hq | exact hb _ _ hq | trivial

theorem simQ_done {Qd Qb : (Nat → V) → Locals V → Prop} {gL g : Nat → V} {l lG : Locals V} (h : Qd g l) :
    SimQ Qd Qb gL (.done gL l) (.done g lG) := ⟨l, rfl, h⟩

/-- Sequencing. -/
theorem seqQ {Qd Qb Qd' : (Nat → V) → Locals V → Prop} {rL rG : Res V} {gL : Nat → V}
    (K K' : (Nat → V) → Locals V → Res V)
    (hK : ∀ g2 lG2 l2, Qd g2 l2 → SimQ Qd' Qb gL (K' gL l2) (K g2 lG2)) :
    SimQ Qd Qb gL rL rG → SimQ Qd' Qb gL
      (match rL with
        | .done g2 l2 => K' g2 l2
        | r => r)
      (match rG with
        | .done g2 l2 => K g2 l2
        | r => r) := by
  rintro ⟨l', he, hq⟩
  subst he
  cases rG with
  | done g2 l2 => simp only [tS']; exact hK g2 l2 l' hq
  | cont g2 l2 => exact ⟨l', by simp only [tS'], hq⟩
  | brk g2 l2 => exact ⟨l', by simp only [tS'], hq⟩
  | ret v g2 => exact ⟨l', by simp only [tS'], trivial⟩
  | err => exact ⟨l', by simp only [tS'], trivial⟩
  | out => exact ⟨l', by simp only [tS'], trivial⟩
  | bad => exact ⟨l', by simp only [tS'], trivial⟩

/-- The body of a loop and what follows it (`Q`: the loop's own scope). -/
theorem loopQ {Q : (Nat → V) → Locals V → Prop} {rL rG : Res V} {gL : Nat → V}
    (K K' : (Nat → V) → Locals V → Res V)
    (hK : ∀ g2 lG2 l2, Q g2 l2 → SimQ Q Q gL (K' gL l2) (K g2 lG2)) :
    SimQ Q Q gL rL rG → SimQ Q Q gL
      (match rL with
        | .done g2 l2 => K' g2 l2
        | .cont g2 l2 => K' g2 l2
        | .brk g2 l2 => .done g2 l2
        | r => r)
      (match rG with
        | .done g2 l2 => K g2 l2
        | .cont g2 l2 => K g2 l2
        | .brk g2 l2 => .done g2 l2
        | r => r) := by
  rintro ⟨l', he, hq⟩
  subst he
  cases rG with
  | done g2 l2 => simp only [tS']; exact hK g2 l2 l' hq
  | cont g2 l2 => simp only [tS']; exact hK g2 l2 l' hq
  | brk g2 l2 => exact ⟨l', by simp only [tS'], hq⟩
  | ret v g2 => exact ⟨l', by simp only [tS'], trivial⟩
  | err => exact ⟨l', by simp only [tS'], trivial⟩
  | out => exact ⟨l', by simp only [tS'], trivial⟩
  | bad => exact ⟨l', by simp only [tS'], trivial⟩

section
variable {E : Env V} {N : Nat} {ρ : Nat → Nat}

/-- A statement that starts by evaluating an expression. -/
theorem headQ (P P' : Prog) (f : Nat) (e : Ex) (d : Nat → Bool) (g : Nat → V) (lG : Locals V) (gL : Nat → V)
    (l : Locals V) (hc : rdE N d e = true) (hR : Rr ρ d g l) {Qd Qb : (Nat → V) → Locals V → Prop}
    (K K' : V → (Nat → V) → Res V) (hK : ∀ a, SimQ Qd Qb gL (K' a gL) (K a g)) :
    SimQ Qd Qb gL
      (match evalE E P' f (renRE ρ e) gL l with
        | .val a g1 => K' a g1
        | r => r.toRes)
      (match evalE E P f e g lG with
        | .val a g1 => K a g1
        | r => r.toRes) := by
  rw [simRho_E (E := E) (N := N) P P' f e d g lG gL l hc hR]
  rcases evalE_cases (E := E) P f e g lG (g2E_rd N d e hc) with ⟨x, hx⟩ | hx | hx | hx
  · simp only [hx, tE]; exact hK x
  · exact ⟨l, by simp only [hx, tE, tS', ERes.toRes], by simp only [hx, ERes.toRes, resQ]⟩
  · exact ⟨l, by simp only [hx, tE, tS', ERes.toRes], by simp only [hx, ERes.toRes, resQ]⟩
  · exact ⟨l, by simp only [hx, tE, tS', ERes.toRes], by simp only [hx, ERes.toRes, resQ]⟩

structure SimRhoAll (E : Env V) (ρ : Nat → Nat) (N : Nat) (P P' : Prog) (f : Nat) : Prop where
  s : ∀ (s : Stm) (d : Nat → Bool) (g : Nat → V) (lG : Locals V) (gL : Nat → V) (l : Locals V),
    chkS ρ N d s = true → DB N d → Rr ρ d g l →
    SimQ (Rr ρ (outR d s)) (Rr ρ d) gL (execS E P' f (renRS ρ d s) gL l) (execS E P f s g lG)
  ss : ∀ (ss : Stms) (d : Nat → Bool) (g : Nat → V) (lG : Locals V) (gL : Nat → V) (l : Locals V),
    chkSs ρ N d ss = true → DB N d → Rr ρ d g l →
    SimQ (Rr ρ (outRs d ss)) (Rr ρ d) gL (execSs E P' f (renRSs ρ d ss) gL l) (execSs E P f ss g lG)

/-- A block's result, seen from the enclosing scope. -/
theorem blockQ {d : Nat → Bool} {ss : Stms} {gL : Nat → V} {rL rG : Res V}
    (h : SimQ (Rr ρ (outRs d ss)) (Rr ρ d) gL rL rG) : SimQ (Rr ρ d) (Rr ρ d) gL rL rG :=
  h.mono (fun g l hq => hq.weaken (outRs_mono ss d)) (fun _ _ hq => hq)

theorem simRhoS_succ {P P' : Prog} {f : Nat} (ih : SimRhoAll E ρ N P P' f) (s : Stm) (d : Nat → Bool) (g : Nat → V)
    (lG : Locals V) (gL : Nat → V) (l : Locals V) (hc : chkS ρ N d s = true) (hd : DB N d) (hR : Rr ρ d g l) :
    SimQ (Rr ρ (outR d s)) (Rr ρ d) gL (execS E P' (f + 1) (renRS ρ d s) gL l) (execS E P (f + 1) s g lG) := by
  cases s with
  | expr e =>
    simp only [chkS] at hc
    simp only [renRS, execS, outR]
    exact headQ P P' f e d g lG gL l hc hR (fun _ g1 => .done g1 lG) (fun _ g1 => .done g1 l)
      (fun a => simQ_done hR)
  | assign j e =>
    simp only [chkS, Bool.and_eq_true, decide_eq_true_eq] at hc
    simp only [renRS, outR]
    by_cases hdj : d j = true
    · simp only [hdj, if_true, execS]
      exact headQ P P' f e d g lG gL l hc.1.2 hR (fun v g1 => .done (upd g1 j v) lG)
        (fun v g1 => .done g1 (updL l (ρ j) v)) (fun a => simQ_done (hR.upd hd hc.2 a))
    · simp only [hdj, Bool.false_eq_true, if_false, execS]
      exact headQ P P' f e d g lG gL l hc.1.2 hR (fun v g1 => .done (upd g1 j v) lG)
        (fun v g1 => .done g1 (updL l (ρ j) v)) (fun a => simQ_done (hR.upd hd hc.2 a))
  | defl i e => simp only [chkS] at hc; cases hc
  | setl i e => simp only [chkS] at hc; cases hc
  | ret e => simp only [chkS] at hc; cases hc
  | ret0 => simp only [chkS] at hc; cases hc
  | brk => simp only [renRS, execS, outR]; exact ⟨l, rfl, hR⟩
  | cont => simp only [renRS, execS, outR]; exact ⟨l, rfl, hR⟩
  | ifs c body =>
    simp only [chkS, Bool.and_eq_true] at hc
    simp only [renRS, execS, outR]
    refine headQ P P' f c d g lG gL l hc.1 hR
      (fun a g1 => if E.S.falsy a then .done g1 lG else execSs E P f body g1 lG)
      (fun a g1 => if E.S.falsy a then .done g1 l else execSs E P' f (renRSs ρ d body) g1 l) (fun a => ?_)
    by_cases hfa : E.S.falsy a = true
    · simp only [hfa, if_true]; exact simQ_done hR
    · simp only [hfa, Bool.false_eq_true, if_false]; exact blockQ (ih.ss body d g lG gL l hc.2 hd hR)
  | ifelse c body els =>
    simp only [chkS, Bool.and_eq_true] at hc
    simp only [renRS, execS, outR]
    refine headQ P P' f c d g lG gL l hc.1.1 hR
      (fun a g1 => if E.S.falsy a then execSs E P f els g1 lG else execSs E P f body g1 lG)
      (fun a g1 => if E.S.falsy a then execSs E P' f (renRSs ρ d els) g1 l
        else execSs E P' f (renRSs ρ d body) g1 l) (fun a => ?_)
    by_cases hfa : E.S.falsy a = true
    · simp only [hfa, if_true]; exact blockQ (ih.ss els d g lG gL l hc.2 hd hR)
    · simp only [hfa, Bool.false_eq_true, if_false]; exact blockQ (ih.ss body d g lG gL l hc.1.2 hd hR)
  | whil c body =>
    have hw := hc
    simp only [chkS, Bool.and_eq_true] at hc
    have hrec := fun g2 lG2 l2 (h2 : Rr ρ d g2 l2) => ih.s (.whil c body) d g2 lG2 gL l2 hw hd h2
    simp only [renRS, outR] at hrec
    simp only [renRS, execS, outR]
    refine headQ P P' f c d g lG gL l hc.1 hR
      (fun a g1 => if E.S.falsy a then .done g1 lG
        else match execSs E P f body g1 lG with
          | .done g2 l2 => execS E P f (.whil c body) g2 l2
          | .cont g2 l2 => execS E P f (.whil c body) g2 l2
          | .brk g2 l2 => .done g2 l2
          | r => r)
      (fun a g1 => if E.S.falsy a then .done g1 l
        else match execSs E P' f (renRSs ρ d body) g1 l with
          | .done g2 l2 => execS E P' f (.whil (renRE ρ c) (renRSs ρ d body)) g2 l2
          | .cont g2 l2 => execS E P' f (.whil (renRE ρ c) (renRSs ρ d body)) g2 l2
          | .brk g2 l2 => .done g2 l2
          | r => r)
      (fun a => ?_)
    by_cases hfa : E.S.falsy a = true
    · simp only [hfa, if_true]; exact simQ_done hR
    · simp only [hfa, Bool.false_eq_true, if_false]
      exact loopQ (fun g2 l2 => execS E P f (.whil c body) g2 l2)
        (fun g2 l2 => execS E P' f (.whil (renRE ρ c) (renRSs ρ d body)) g2 l2) hrec
        (blockQ (ih.ss body d g lG gL l hc.2 hd hR))
  | forever body =>
    have hw := hc
    simp only [chkS] at hc
    have hrec := fun g2 lG2 l2 (h2 : Rr ρ d g2 l2) => ih.s (.forever body) d g2 lG2 gL l2 hw hd h2
    simp only [renRS, outR] at hrec
    simp only [renRS, execS, outR]
    exact loopQ (fun g2 l2 => execS E P f (.forever body) g2 l2)
      (fun g2 l2 => execS E P' f (.forever (renRSs ρ d body)) g2 l2) hrec
      (blockQ (ih.ss body d g lG gL l hc hd hR))
  | for3 c body post =>
    have hw := hc
    simp only [chkS, Bool.and_eq_true] at hc
    have hrec := fun g2 lG2 l2 (h2 : Rr ρ d g2 l2) => ih.s (.for3 c body post) d g2 lG2 gL l2 hw hd h2
    simp only [renRS, outR] at hrec
    simp only [renRS, execS, outR]
    refine headQ P P' f c d g lG gL l hc.1.1 hR
      (fun a g1 => if E.S.falsy a then .done g1 lG
        else match execSs E P f body g1 lG with
          | .done g2 l2 =>
            match execS E P f post g2 l2 with
            | .done g3 l3 => execS E P f (.for3 c body post) g3 l3
            | r => r
          | .cont g2 l2 =>
            match execS E P f post g2 l2 with
            | .done g3 l3 => execS E P f (.for3 c body post) g3 l3
            | r => r
          | .brk g2 l2 => .done g2 l2
          | r => r)
      (fun a g1 => if E.S.falsy a then .done g1 l
        else match execSs E P' f (renRSs ρ d body) g1 l with
          | .done g2 l2 =>
            match execS E P' f (renRS ρ d post) g2 l2 with
            | .done g3 l3 => execS E P' f (.for3 (renRE ρ c) (renRSs ρ d body) (renRS ρ d post)) g3 l3
            | r => r
          | .cont g2 l2 =>
            match execS E P' f (renRS ρ d post) g2 l2 with
            | .done g3 l3 => execS E P' f (.for3 (renRE ρ c) (renRSs ρ d body) (renRS ρ d post)) g3 l3
            | r => r
          | .brk g2 l2 => .done g2 l2
          | r => r)
      (fun a => ?_)
    by_cases hfa : E.S.falsy a = true
    · simp only [hfa, if_true]; exact simQ_done hR
    · simp only [hfa, Bool.false_eq_true, if_false]
      refine loopQ
        (fun g2 l2 => match execS E P f post g2 l2 with
          | .done g3 l3 => execS E P f (.for3 c body post) g3 l3
          | r => r)
        (fun g2 l2 => match execS E P' f (renRS ρ d post) g2 l2 with
          | .done g3 l3 => execS E P' f (.for3 (renRE ρ c) (renRSs ρ d body) (renRS ρ d post)) g3 l3
          | r => r) (fun g2 lG2 l2 h2 => ?_) (blockQ (ih.ss body d g lG gL l hc.1.2 hd hR))
      have hp := (ih.s post d g2 lG2 gL l2 hc.2 hd h2).mono
        (Qd' := Rr ρ d) (Qb' := Rr ρ d) (fun g l hq => hq.weaken (outR_mono d post)) (fun _ _ hq => hq)
      exact seqQ (fun g3 l3 => execS E P f (.for3 c body post) g3 l3)
        (fun g3 l3 => execS E P' f (.for3 (renRE ρ c) (renRSs ρ d body) (renRS ρ d post)) g3 l3) hrec hp

theorem simRhoSs_succ {P P' : Prog} {f : Nat} (ih : SimRhoAll E ρ N P P' f) (ss : Stms) (d : Nat → Bool)
    (g : Nat → V) (lG : Locals V) (gL : Nat → V) (l : Locals V) (hc : chkSs ρ N d ss = true) (hd : DB N d)
    (hR : Rr ρ d g l) :
    SimQ (Rr ρ (outRs d ss)) (Rr ρ d) gL (execSs E P' (f + 1) (renRSs ρ d ss) gL l) (execSs E P (f + 1) ss g lG) := by
  cases ss with
  | nil => simp only [renRSs, execSs, outRs]; exact simQ_done hR
  | cons s rest =>
    simp only [chkSs, Bool.and_eq_true] at hc
    simp only [renRSs, execSs, outRs]
    have hd' : DB N (outR d s) := by
      cases s <;> first | exact hd | skip
      simp only [chkS, Bool.and_eq_true, decide_eq_true_eq] at hc
      exact hd.upd hc.1.1.1
    refine seqQ (fun g1 l1 => execSs E P f rest g1 l1) (fun g1 l1 => execSs E P' f (renRSs ρ (outR d s) rest) g1 l1)
      (fun g2 lG2 l2 h2 => ?_) (ih.s s d g lG gL l hc.1 hd hR)
    exact (ih.ss rest (outR d s) g2 lG2 gL l2 hc.2 hd' h2).mono (fun _ _ hq => hq)
      (fun g l hq => hq.weaken (outR_mono d s))

/-- **Statements, same fuel, shared local slots** (see the module text). -/
theorem simRho_all (E : Env V) (ρ : Nat → Nat) (N : Nat) (P P' : Prog) : ∀ f, SimRhoAll E ρ N P P' f := by
  intro f
  induction f with
  | zero =>
    exact ⟨fun s d g lG gL l _ _ _ => ⟨l, by simp only [execS, tS'], trivial⟩,
      fun ss d g lG gL l _ _ _ => ⟨l, by simp only [execSs, tS'], trivial⟩⟩
  | succ f ih => exact ⟨simRhoS_succ ih, simRhoSs_succ ih⟩

end
end Tengo.Proofs.C11Place

import Tengo.Proofs.F3Expr
/-!
Fragment F3, proof layer 2 (continued): unary operators, the conditional and short-circuit operators, argument
lists, the call expression and the call proper (frame push, body, return).
-/
set_option linter.unusedSimpArgs false
set_option linter.unusedVariables false
namespace Tengo.Model.F3
open Tengo.Model.F0 (Sem upd)
variable {V : Type}

section cases
variable {E : Env V} {P : Prog}

/-- One operand followed by the instruction `I`. -/
theorem eval1 {f : Nat} {a : Ex} (iha : OkE E P f a)
    {g : Nat → V} {l : Locals V} {fn : Nat} {code : List Ins} {nl off bp sp : Nat} {stk : Nat → V} {dis : Bool}
    {cl : List Frame} (I : Ins)
    (hc : (compProg P).code fn = some code) (hnt : FrameOk P fn nl)
    (hat : At code off (comp off a ++ [I])) (hl : LocRel nl l stk bp) (hsp : bp + nl ≤ sp) :
    fetch code (off + esize a) = some I ∧
    GoodE E (compProg P) code ⟨fn, off, bp, sp, stk, g, dis, cl⟩ (off + esize a) sp (evalE E P f a g l) :=
  ⟨(hat.right (off' := off + esize a) (by rw [csize_comp])).fetch,
    iha g l fn code nl off bp sp stk dis cl hc hnt hat.left hl hsp⟩

theorem okE_neg (f : Nat) (a : Ex) (iha : OkE E P f a) : OkE E P (f + 1) (.neg a) := by
  intro g l fn code nl off bp sp stk dis cl hc hnt hat hl hsp
  have hA : At code off (comp off a ++ [Ins.minus]) := by simpa [comp] using hat
  obtain ⟨hfI, h⟩ := eval1 (g := g) (dis := dis) (cl := cl) iha _ hc hnt hA hl hsp
  simp only [evalE]
  cases ha : evalE E P f a g l with
  | val x g1 =>
    rw [ha] at h
    obtain ⟨stk1, hr, hx, hs⟩ := h.normal (tailNext_of_fetch hfI rfl)
    dsimp only at hr hs ⊢
    cases hv : E.S.neg x with
    | some v =>
      have hst := step_minus_ok (E := E) (bp := bp) (g := g1) (dis := dis) (cl := cl) hc hfI
        (stk := stk1) (sp := sp) (v := v) (by rw [hx]; exact hv)
      exact Or.inl ⟨upd stk1 sp v, (hr.trans (Runs.step hst)).of_eq (by simp [esize]; omega), by simp [upd],
        fun i hi => by simp only [upd]; rw [if_neg (by omega)]; exact hs i hi⟩
    | none =>
      have hst := step_minus_err (E := E) (bp := bp) (g := g1) (dis := dis) (cl := cl) hc hfI
        (stk := stk1) (sp := sp) (by rw [hx]; exact hv)
      exact hr.fails (Fails.step hst)
  | err => rw [ha] at h; exact h
  | out => trivial
  | bad => trivial

theorem okE_bnot (f : Nat) (a : Ex) (iha : OkE E P f a) : OkE E P (f + 1) (.bnot a) := by
  intro g l fn code nl off bp sp stk dis cl hc hnt hat hl hsp
  have hA : At code off (comp off a ++ [Ins.bcompl]) := by simpa [comp] using hat
  obtain ⟨hfI, h⟩ := eval1 (g := g) (dis := dis) (cl := cl) iha _ hc hnt hA hl hsp
  simp only [evalE]
  cases ha : evalE E P f a g l with
  | val x g1 =>
    rw [ha] at h
    obtain ⟨stk1, hr, hx, hs⟩ := h.normal (tailNext_of_fetch hfI rfl)
    dsimp only at hr hs ⊢
    cases hv : E.S.bnot x with
    | some v =>
      have hst := step_bcompl_ok (E := E) (bp := bp) (g := g1) (dis := dis) (cl := cl) hc hfI
        (stk := stk1) (sp := sp) (v := v) (by rw [hx]; exact hv)
      exact Or.inl ⟨upd stk1 sp v, (hr.trans (Runs.step hst)).of_eq (by simp [esize]; omega), by simp [upd],
        fun i hi => by simp only [upd]; rw [if_neg (by omega)]; exact hs i hi⟩
    | none =>
      have hst := step_bcompl_err (E := E) (bp := bp) (g := g1) (dis := dis) (cl := cl) hc hfI
        (stk := stk1) (sp := sp) (by rw [hx]; exact hv)
      exact hr.fails (Fails.step hst)
  | err => rw [ha] at h; exact h
  | out => trivial
  | bad => trivial

theorem okE_lnot (f : Nat) (a : Ex) (iha : OkE E P f a) : OkE E P (f + 1) (.lnot a) := by
  intro g l fn code nl off bp sp stk dis cl hc hnt hat hl hsp
  have hA : At code off (comp off a ++ [Ins.lnot]) := by simpa [comp] using hat
  obtain ⟨hfI, h⟩ := eval1 (g := g) (dis := dis) (cl := cl) iha _ hc hnt hA hl hsp
  simp only [evalE]
  cases ha : evalE E P f a g l with
  | val x g1 =>
    rw [ha] at h
    obtain ⟨stk1, hr, hx, hs⟩ := h.normal (tailNext_of_fetch hfI rfl)
    dsimp only at hr hs ⊢
    have hst := step_lnot (E := E) (bp := bp) (g := g1) (dis := dis) (cl := cl) hc hfI (stk := stk1) (sp := sp)
    rw [hx] at hst
    exact Or.inl ⟨upd stk1 sp (E.S.ofBool (E.S.falsy x)), (hr.trans (Runs.step hst)).of_eq (by simp [esize]; omega),
      by simp [upd], fun i hi => by simp only [upd]; rw [if_neg (by omega)]; exact hs i hi⟩
  | err => rw [ha] at h; exact h
  | out => trivial
  | bad => trivial

theorem okE_plus (f : Nat) (a : Ex) (iha : OkE E P f a) : OkE E P (f + 1) (.plus a) := by
  intro g l fn code nl off bp sp stk dis cl hc hnt hat hl hsp
  have hA : At code off (comp off a) := by simpa [comp] using hat
  simp only [evalE, esize]
  exact iha g l fn code nl off bp sp stk dis cl hc hnt hA hl hsp

theorem okE_cond (f : Nat) (c t e : Ex) (ihc : OkE E P f c) (iht : OkE E P f t) (ihe : OkE E P f e) :
    OkE E P (f + 1) (.cond c t e) := by
  intro g l fn code nl off bp sp stk dis cl hc hnt hat hl hsp
  have hA : At code off (comp off c ++ [Ins.jmpf (off + esize c + 5 + esize t + 5)] ++
      comp (off + esize c + 5) t ++ [Ins.jmp (off + esize c + 5 + esize t + 5 + esize e)] ++
      comp (off + esize c + 5 + esize t + 5) e) := by simpa [comp] using hat
  obtain ⟨hfj, h⟩ := eval1 (g := g) (dis := dis) (cl := cl) ihc _ hc hnt hA.left.left.left hl hsp
  have hfj2 := (hA.left.right (off' := off + esize c + 5 + esize t)
    (by simp [csize_append, csize_comp, csize, Ins.size] <;> omega)).fetch
  simp only [evalE]
  cases ha : evalE E P f c g l with
  | val x g1 =>
    rw [ha] at h
    obtain ⟨stk1, hr, hx, hs⟩ := h.normal (tailNext_of_fetch hfj rfl)
    dsimp only at hr hs ⊢
    have hst := step_jmpf (E := E) (bp := bp) (g := g1) (dis := dis) (cl := cl) hc hfj (stk := stk1) (sp := sp)
    rw [hx] at hst
    have hl1 := hl.frame hsp hs
    by_cases hfa : E.S.falsy x = true
    · simp only [hfa, if_true] at hst ⊢
      have h2 := ihe g1 l fn code nl _ bp sp stk1 dis cl hc hnt
        (hA.right (by simp [csize_append, csize_comp, csize, Ins.size] <;> omega)) hl1 hsp
      have h3 := GoodE.pre (s := ⟨fn, off, bp, sp, stk, g, dis, cl⟩) (hr.trans (Runs.step hst)) hs (by dsimp only; omega) h2
      have he : off + esize c + 5 + esize t + 5 + esize e = off + esize (.cond c t e) := by simp [esize]; omega
      rw [he] at h3; exact h3
    · simp only [hfa, Bool.false_eq_true, if_false] at hst ⊢
      have h2 := iht g1 l fn code nl _ bp sp stk1 dis cl hc hnt
        (hA.left.left.right (by simp [csize_append, csize_comp, csize, Ins.size] <;> omega)) hl1 hsp
      cases hb : evalE E P f t g1 l with
      | val y g2 =>
        rw [hb] at h2
        obtain ⟨stk2, hr2, hy, hs2⟩ := h2.normal (by
          have := tailNext_of_fetch hfj2 rfl
          simpa [Nat.add_assoc] using this)
        dsimp only at hr2 hs2
        have hst2 := step_jmp (E := E) (bp := bp) (sp := sp + 1) (g := g2) (dis := dis) (cl := cl) hc hfj2
          (stk := stk2)
        exact Or.inl ⟨stk2, (((hr.trans (Runs.step hst)).trans hr2).trans (Runs.step hst2)).of_eq
          (by simp [esize]; omega), hy, fun i hi => by rw [hs2 i hi]; exact hs i hi⟩
      | err => rw [hb] at h2; exact (hr.trans (Runs.step hst)).fails h2
      | out => trivial
      | bad => trivial
  | err => rw [ha] at h; exact h
  | out => trivial
  | bad => trivial

theorem okE_land (f : Nat) (a b : Ex) (iha : OkE E P f a) (ihb : OkE E P f b) :
    OkE E P (f + 1) (.land a b) := by
  intro g l fn code nl off bp sp stk dis cl hc hnt hat hl hsp
  have hA : At code off (comp off a ++ [Ins.andjmp (off + esize a + 5 + esize b)] ++
      comp (off + esize a + 5) b) := by simpa [comp] using hat
  obtain ⟨hfj, h⟩ := eval1 (g := g) (dis := dis) (cl := cl) iha _ hc hnt hA.left hl hsp
  simp only [evalE]
  cases ha : evalE E P f a g l with
  | val x g1 =>
    rw [ha] at h
    obtain ⟨stk1, hr, hx, hs⟩ := h.normal (tailNext_of_fetch hfj rfl)
    dsimp only at hr hs ⊢
    have hst := step_andjmp (E := E) (bp := bp) (g := g1) (dis := dis) (cl := cl) hc hfj (stk := stk1) (sp := sp)
    rw [hx] at hst
    by_cases hfa : E.S.falsy x = true
    · simp only [hfa, if_true] at hst ⊢
      exact Or.inl ⟨stk1, (hr.trans (Runs.step hst)).of_eq (by simp [esize]; omega), hx, hs⟩
    · simp only [hfa, Bool.false_eq_true, if_false] at hst ⊢
      have h2 := ihb g1 l fn code nl _ bp sp stk1 dis cl hc hnt
        (hA.right (by simp [csize_append, csize_comp, csize, Ins.size] <;> omega)) (hl.frame hsp hs) hsp
      have h3 := GoodE.pre (s := ⟨fn, off, bp, sp, stk, g, dis, cl⟩) (hr.trans (Runs.step hst)) hs (by dsimp only; omega) h2
      have he : off + esize a + 5 + esize b = off + esize (.land a b) := by simp [esize]; omega
      rw [he] at h3; exact h3
  | err => rw [ha] at h; exact h
  | out => trivial
  | bad => trivial

theorem okE_lor (f : Nat) (a b : Ex) (iha : OkE E P f a) (ihb : OkE E P f b) :
    OkE E P (f + 1) (.lor a b) := by
  intro g l fn code nl off bp sp stk dis cl hc hnt hat hl hsp
  have hA : At code off (comp off a ++ [Ins.orjmp (off + esize a + 5 + esize b)] ++
      comp (off + esize a + 5) b) := by simpa [comp] using hat
  obtain ⟨hfj, h⟩ := eval1 (g := g) (dis := dis) (cl := cl) iha _ hc hnt hA.left hl hsp
  simp only [evalE]
  cases ha : evalE E P f a g l with
  | val x g1 =>
    rw [ha] at h
    obtain ⟨stk1, hr, hx, hs⟩ := h.normal (tailNext_of_fetch hfj rfl)
    dsimp only at hr hs ⊢
    have hst := step_orjmp (E := E) (bp := bp) (g := g1) (dis := dis) (cl := cl) hc hfj (stk := stk1) (sp := sp)
    rw [hx] at hst
    by_cases hfa : E.S.falsy x = true
    · simp only [hfa, if_true] at hst ⊢
      have h2 := ihb g1 l fn code nl _ bp sp stk1 dis cl hc hnt
        (hA.right (by simp [csize_append, csize_comp, csize, Ins.size] <;> omega)) (hl.frame hsp hs) hsp
      have h3 := GoodE.pre (s := ⟨fn, off, bp, sp, stk, g, dis, cl⟩) (hr.trans (Runs.step hst)) hs (by dsimp only; omega) h2
      have he : off + esize a + 5 + esize b = off + esize (.lor a b) := by simp [esize]; omega
      rw [he] at h3; exact h3
    · simp only [hfa, Bool.false_eq_true, if_false] at hst ⊢
      exact Or.inl ⟨stk1, (hr.trans (Runs.step hst)).of_eq (by simp [esize]; omega), hx, hs⟩
  | err => rw [ha] at h; exact h
  | out => trivial
  | bad => trivial

end cases

end Tengo.Model.F3

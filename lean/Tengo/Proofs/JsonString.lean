import Tengo.Model.Json
/-!
Helper lemmas for C18: UTF-8 encode/decode of one rune, `encodeString` as a bytewise map, and the
round trip `unquote (encodeString s) = some s` for valid UTF-8.
-/
namespace Tengo.Proofs.JsonString
open Tengo.Model.Json

/-- Unicode scalar values: what a rune of a valid UTF-8 string can be. -/
def Scalar (r : Nat) : Prop := r < 0x110000 ∧ ¬ (0xD800 ≤ r ∧ r < 0xE000)

instance (r : Nat) : Decidable (Scalar r) := by unfold Scalar; infer_instance

/-- The UTF-8 encoding of a rune list. -/
def utf8 (rs : List Nat) : Bytes := rs.flatMap encodeRune

/-- Valid UTF-8: the encoding of a list of scalar values. -/
def ValidUTF8 (s : Bytes) : Prop := ∃ rs : List Nat, (∀ r ∈ rs, Scalar r) ∧ s = utf8 rs

theorem toNat_ofNat_lt (n : Nat) (h : n < 256) : (UInt8.ofNat n).toNat = n := by
  simp [UInt8.toNat_ofNat']; omega

/-! ### one rune -/

theorem encodeRune_ascii (r : Nat) (h : r < 0x80) : encodeRune r = [UInt8.ofNat r] := by
  simp [encodeRune, h]

theorem decodeRune_encodeRune (r : Nat) (h : Scalar r) (rest : Bytes) :
    decodeRune (encodeRune r ++ rest) = (r, (encodeRune r).length) := by
  obtain ⟨h1, h2⟩ := h
  unfold encodeRune
  by_cases c1 : r < 0x80
  · simp [c1, decodeRune, toNat_ofNat_lt r (by omega)]
  · by_cases c2 : r < 0x800
    · simp [c1, c2, decodeRune, isCont]
      repeat' split
      all_goals first | omega | (simp; omega)
    · have c3 : (isSurrogate r || decide (0x10FFFF < r)) = false := by
        simp [isSurrogate]; omega
      by_cases c4 : r < 0x10000
      · simp [c1, c2, c3, c4, decodeRune, isCont, accept3, accept4]
        repeat' split
        all_goals first | omega | (simp; omega)
      · simp [c1, c2, c3, c4, decodeRune, isCont, accept3, accept4]
        repeat' split
        all_goals first | omega | (simp; omega)

theorem encodeRune_2 (r : Nat) (c1 : ¬ r < 0x80) (c2 : r < 0x800) :
    encodeRune r = [UInt8.ofNat (0xC0 + r / 64), UInt8.ofNat (0x80 + r % 64)] := by
  unfold encodeRune; rw [if_neg c1, if_pos c2]

theorem encodeRune_3 (r : Nat) (h : Scalar r) (c2 : ¬ r < 0x800) (c4 : r < 0x10000) :
    encodeRune r = [UInt8.ofNat (0xE0 + r / 4096), UInt8.ofNat (0x80 + r / 64 % 64), UInt8.ofNat (0x80 + r % 64)] := by
  have c3 : (isSurrogate r || decide (0x10FFFF < r)) = false := by
    have := h.1; have := h.2; simp [isSurrogate]; omega
  unfold encodeRune; rw [if_neg (by omega), if_neg c2, c3, if_neg (by simp), if_pos c4]

theorem encodeRune_4 (r : Nat) (h : Scalar r) (c4 : ¬ r < 0x10000) :
    encodeRune r = [UInt8.ofNat (0xF0 + r / 262144), UInt8.ofNat (0x80 + r / 4096 % 64),
      UInt8.ofNat (0x80 + r / 64 % 64), UInt8.ofNat (0x80 + r % 64)] := by
  have c3 : (isSurrogate r || decide (0x10FFFF < r)) = false := by
    have := h.1; have := h.2; simp [isSurrogate]; omega
  unfold encodeRune; rw [if_neg (by omega), if_neg (by omega), c3, if_neg (by simp), if_neg c4]

/-- A non-ASCII scalar is encoded as a lead byte ≥ 0x80 followed by at least one more byte, all ≥ 0x80. -/
theorem encodeRune_high (r : Nat) (h : Scalar r) (c1 : ¬ r < 0x80) :
    ∃ c E, encodeRune r = c :: E ∧ E ≠ [] ∧ ∀ b ∈ c :: E, 0x80 ≤ b.toNat := by
  have h1 := h.1
  by_cases c2 : r < 0x800
  · refine ⟨_, _, encodeRune_2 r c1 c2, by simp, ?_⟩
    intro b hb
    simp only [List.mem_cons, List.not_mem_nil, or_false] at hb
    rcases hb with rfl | rfl <;> rw [toNat_ofNat_lt _ (by omega)] <;> omega
  · by_cases c4 : r < 0x10000
    · refine ⟨_, _, encodeRune_3 r h c2 c4, by simp, ?_⟩
      intro b hb
      simp only [List.mem_cons, List.not_mem_nil, or_false] at hb
      rcases hb with rfl | rfl | rfl <;> rw [toNat_ofNat_lt _ (by omega)] <;> omega
    · refine ⟨_, _, encodeRune_4 r h c4, by simp, ?_⟩
      intro b hb
      simp only [List.mem_cons, List.not_mem_nil, or_false] at hb
      rcases hb with rfl | rfl | rfl | rfl <;> rw [toNat_ofNat_lt _ (by omega)] <;> omega

/-! ### `encodeString` is a bytewise map -/

theorem slowPath_append (a b : Bytes) : slowPath (a ++ b) = slowPath a ++ slowPath b := by
  induction a with
  | nil => simp [slowPath]
  | cons c a ih =>
    simp only [List.cons_append, slowPath]
    split
    · split <;> simp [ih]
    · simp [ih]

theorem slowPath_cons_fastOk (c : UInt8) (s : Bytes) (h : fastOk c = true) : slowPath (c :: s) = c :: slowPath s := by
  simp [fastOk] at h
  have hs : safeSet c = true := by simp [safeSet, h]; omega
  simp [slowPath, hs]

/-- Fast path followed by slow path = slow path from the start. -/
theorem fastSplit_slowPath (s : Bytes) : (fastSplit s).1 ++ slowPath (fastSplit s).2 = slowPath s := by
  induction s with
  | nil => simp [fastSplit, slowPath]
  | cons c s ih =>
    by_cases h : fastOk c = true
    · simp only [fastSplit, h, if_true, List.cons_append, ih, slowPath_cons_fastOk c s h]
    · simp [fastSplit, h]

theorem fastSplit_nil (s : Bytes) (h : (fastSplit s).2 = []) : slowPath (fastSplit s).2 = [] := by
  rw [h]; rfl

theorem encodeString_eq (s : Bytes) : encodeString s = 0x22 :: slowPath s ++ [0x22] := by
  unfold encodeString
  have h := fastSplit_slowPath s
  generalize fastSplit s = p at h
  obtain ⟨pre, rest⟩ := p
  simp only at h ⊢
  cases rest with
  | nil => simp [slowPath] at h; simp [h]
  | cons c r => simp [← h]

/-! ### one iteration of the loops of `unquoteBytes` on one encoded rune -/

theorem hexVal_hexDigit : ∀ n : Fin 16, hexVal (hexDigit n.val) = some n.val := by decide

theorem hexVal_hexDigit' (n : Nat) (h : n < 16) : hexVal (hexDigit n) = some n := hexVal_hexDigit ⟨n, h⟩

theorem ofNat_toNat' (c : UInt8) : UInt8.ofNat c.toNat = c := UInt8.ofNat_toNat

/-- ASCII byte: one iteration of the second loop undoes `slowPath` of that byte. -/
theorem unqLoop_ascii (c : UInt8) (hc : c.toNat < 0x80) (T : Bytes) (f : Nat) :
    unqLoop (f + 1) (slowPath [c] ++ T) = (unqLoop f T).map (c :: ·) := by
  by_cases hs : safeSet c = true
  · have hs' := hs
    simp only [safeSet, Bool.and_eq_true, decide_eq_true_eq, bne_iff_ne, ne_eq] at hs'
    obtain ⟨⟨h20, h22⟩, h5c⟩ := hs'
    have h3 : ¬ c.toNat < 0x20 := by omega
    simp [slowPath, hc, hs, unqLoop, h22, h5c, h3]
  · simp only [slowPath, hc, hs, if_true, List.append_nil]
    unfold escByte
    by_cases e1 : c = 0x5C
    · subst e1; simp [unqLoop]
    by_cases e2 : c = 0x22
    · subst e2; simp [unqLoop]
    by_cases e3 : c = 0x0A
    · subst e3; simp [unqLoop]
    by_cases e4 : c = 0x0D
    · subst e4; simp [unqLoop]
    by_cases e5 : c = 0x09
    · subst e5; simp [unqLoop]
    have hlt : c.toNat < 0x20 := by
      simp only [safeSet, Bool.and_eq_true, decide_eq_true_eq, bne_iff_ne, ne_eq, not_and, Classical.not_not] at hs
      by_cases h20 : 0x20 ≤ c.toNat
      · exact absurd (hs ⟨h20, e2⟩) e1
      · omega
    have g1 := hexVal_hexDigit' (c.toNat / 16) (by omega)
    have g2 := hexVal_hexDigit' (c.toNat % 16) (by omega)
    have g0 : hexVal 0x30 = some 0 := by decide
    have hsur : isSurrogate c.toNat = false := by simp [isSurrogate]; omega
    have hval : c.toNat / 16 * 16 + c.toNat % 16 = c.toNat := by omega
    simp [e1, e2, e3, e4, e5, unqLoop, getu4, g0, g1, g2, hval, hsur, encodeRune_ascii c.toNat hc]

theorem slowPath_high (E : Bytes) (h : ∀ b ∈ E, 0x80 ≤ b.toNat) : slowPath E = E := by
  induction E with
  | nil => rfl
  | cons c E ih =>
    have hc : ¬ c.toNat < 0x80 := by have := h c (by simp); omega
    simp [slowPath, hc, ih (fun b hb => h b (by simp [hb]))]

theorem high_ne (c : UInt8) (hc : 0x80 ≤ c.toNat) : c ≠ 0x5C ∧ c ≠ 0x22 ∧ ¬ c.toNat < 0x20 ∧ ¬ c.toNat < 0x80 := by
  refine ⟨?_, ?_, by omega, by omega⟩ <;> (intro h; subst h; simp at hc)

/-- One iteration of the second loop of `unquoteBytes` undoes what `encodeString` wrote for one rune. -/
theorem unqLoop_rune (r : Nat) (h : Scalar r) (T : Bytes) (f : Nat) :
    unqLoop (f + 1) (slowPath (encodeRune r) ++ T) = (unqLoop f T).map (encodeRune r ++ ·) := by
  by_cases c1 : r < 0x80
  · rw [encodeRune_ascii r c1]
    have := unqLoop_ascii (UInt8.ofNat r) (by rw [toNat_ofNat_lt r (by omega)]; exact c1) T f
    simpa using this
  · obtain ⟨c, E, he, _, hall⟩ := encodeRune_high r h c1
    have hd := decodeRune_encodeRune r h T
    rw [slowPath_high (encodeRune r) (by rw [he]; exact hall)]
    rw [he] at hd ⊢
    obtain ⟨n1, n2, n3, n4⟩ := high_ne c (hall c (by simp))
    have hdrop : List.drop (c :: E).length (c :: (E ++ T)) = T := by
      have := List.drop_left (l₁ := c :: E) (l₂ := T)
      simpa using this
    simp only [List.cons_append] at hd ⊢
    simp only [unqLoop, n1, n2, n3, n4, if_false, hd, hdrop]
    simp [he]

/-- One iteration of the first loop of `unquoteBytes` on what `encodeString` wrote for one rune:
an escape stops it, anything else is skipped. -/
theorem fastLen_rune (r : Nat) (h : Scalar r) (T : Bytes) (f : Nat) :
    fastLen (f + 1) (slowPath (encodeRune r) ++ T) = 0 ∨
    (slowPath (encodeRune r) = encodeRune r ∧
      fastLen (f + 1) (slowPath (encodeRune r) ++ T) = (encodeRune r).length + fastLen f T) := by
  by_cases c1 : r < 0x80
  · rw [encodeRune_ascii r c1]
    have hc : (UInt8.ofNat r).toNat < 0x80 := by rw [toNat_ofNat_lt r (by omega)]; exact c1
    generalize UInt8.ofNat r = c at hc
    by_cases hs : safeSet c = true
    · right
      have hs' := hs
      simp only [safeSet, Bool.and_eq_true, decide_eq_true_eq, bne_iff_ne, ne_eq] at hs'
      obtain ⟨⟨h20, h22⟩, h5c⟩ := hs'
      have h3 : ¬ c.toNat < 0x20 := by omega
      simp [slowPath, hc, hs, fastLen, isSpecial, h22, h5c, h3]
    · left
      have : ∃ t, escByte c = 0x5C :: t := by unfold escByte; (repeat' split) <;> exact ⟨_, rfl⟩
      obtain ⟨t, ht⟩ := this
      simp [slowPath, hc, hs, ht, fastLen, isSpecial]
  · right
    obtain ⟨c, E, he, hne, hall⟩ := encodeRune_high r h c1
    have hd := decodeRune_encodeRune r h T
    have hsp := slowPath_high (encodeRune r) (by rw [he]; exact hall)
    refine ⟨hsp, ?_⟩
    rw [hsp]
    rw [he] at hd ⊢
    obtain ⟨n1, n2, n3, n4⟩ := high_ne c (hall c (by simp))
    have hdrop : List.drop (c :: E).length (c :: (E ++ T)) = T := by
      have := List.drop_left (l₁ := c :: E) (l₂ := T)
      simpa using this
    simp only [List.cons_append] at hd ⊢
    simp [fastLen, isSpecial, n1, n2, n3, n4, hd]
    intro _ hE; exact absurd hE hne

/-! ### the whole string -/

theorem escByte_length (c : UInt8) : 2 ≤ (escByte c).length := by
  unfold escByte; (repeat' split) <;> simp

theorem length_le_slowPath (x : Bytes) : x.length ≤ (slowPath x).length := by
  induction x with
  | nil => simp [slowPath]
  | cons c x ih =>
    simp only [slowPath]
    split
    · split
      · simp; omega
      · have := escByte_length c; simp; omega
    · simp; omega

theorem encodeRune_length_pos (r : Nat) : 1 ≤ (encodeRune r).length := by
  unfold encodeRune; (repeat' split) <;> simp

theorem slowPath_utf8_cons (r : Nat) (rs : List Nat) :
    slowPath (utf8 (r :: rs)) = slowPath (encodeRune r) ++ slowPath (utf8 rs) := by
  simp [utf8, slowPath_append]

theorem unqLoop_nil (f : Nat) : unqLoop f [] = some [] := by cases f <;> simp [unqLoop]

/-- The second loop of `unquoteBytes`, run on the body `encodeString` wrote for a valid string, gives
the string back (any fuel ≥ the body length). -/
theorem unqLoop_body (rs : List Nat) (hrs : ∀ r ∈ rs, Scalar r) :
    ∀ f, (slowPath (utf8 rs)).length ≤ f → unqLoop f (slowPath (utf8 rs)) = some (utf8 rs) := by
  induction rs with
  | nil => intro f _; simp [utf8, slowPath, unqLoop_nil]
  | cons r rs ih =>
    intro f hf
    rw [slowPath_utf8_cons] at hf ⊢
    have h1 := length_le_slowPath (encodeRune r)
    have h2 := encodeRune_length_pos r
    simp only [List.length_append] at hf
    obtain ⟨f', rfl⟩ : ∃ f', f = f' + 1 := ⟨f - 1, by omega⟩
    rw [unqLoop_rune r (hrs r (by simp)) _ f', ih (fun x hx => hrs x (by simp [hx])) f' (by omega)]
    simp [utf8]

/-- First loop then second loop, as `unquoteBytes` combines them. -/
theorem fast_then_slow (rs : List Nat) (hrs : ∀ r ∈ rs, Scalar r) :
    ∀ f1 f2, (slowPath (utf8 rs)).length ≤ f1 → (slowPath (utf8 rs)).length ≤ f2 →
      (unqLoop f2 ((slowPath (utf8 rs)).drop (fastLen f1 (slowPath (utf8 rs))))).map
        ((slowPath (utf8 rs)).take (fastLen f1 (slowPath (utf8 rs))) ++ ·) = some (utf8 rs) := by
  induction rs with
  | nil => intro f1 f2 _ _; cases f1 <;> simp [utf8, slowPath, fastLen, unqLoop_nil]
  | cons r rs ih =>
    intro f1 f2 hf1 hf2
    have hbody := unqLoop_body (r :: rs) hrs f2 hf2
    rw [slowPath_utf8_cons] at hf1 hf2 hbody ⊢
    have h1 := length_le_slowPath (encodeRune r)
    have h2 := encodeRune_length_pos r
    simp only [List.length_append] at hf1 hf2
    obtain ⟨f', rfl⟩ : ∃ f', f1 = f' + 1 := ⟨f1 - 1, by omega⟩
    rcases fastLen_rune r (hrs r (by simp)) (slowPath (utf8 rs)) f' with h0 | ⟨hsp, hn⟩
    · rw [h0]; simpa using hbody
    · rw [hn, hsp]
      have ih' := ih (fun x hx => hrs x (by simp [hx])) f' f2 (by omega) (by omega)
      rw [List.drop_append, List.take_append]
      simp only [List.drop_eq_nil_of_le (Nat.le_add_right _ _), List.take_of_length_le (Nat.le_add_right _ _),
        Nat.add_sub_cancel_left, List.nil_append]
      generalize unqLoop f2 _ = o at ih' ⊢
      cases o with
      | none => simp at ih'
      | some x =>
        simp only [Option.map_some, Option.some.injEq] at ih' ⊢
        simp only [utf8] at ih'
        simp [utf8, ih']

theorem unquoteBytes_quoted (body : Bytes) :
    unquoteBytes (0x22 :: body ++ [0x22]) =
      (if fastLen body.length body = body.length then some body
       else (unqLoop body.length (body.drop (fastLen body.length body))).map (body.take (fastLen body.length body) ++ ·)) := by
  simp [unquoteBytes]

end Tengo.Proofs.JsonString

import Tengo.Proofs.C01BridgeF3SpecStmt
/-!
C01 bridge for fragment F3, reference-interpreter side, layer 4: local definitions at the top level of a function
body (`DeflSim`, `BodySim`), the call (`callSim_succ`: `callTail` / `callClosure` against `F3.callFn`), and all
forms together at every fuel of the fragment's evaluator (`all_sim3`).
-/
set_option linter.unusedVariables false
set_option linter.unusedSimpArgs false
namespace Tengo.Proofs.C01BridgeF3Spec
open Tengo.Model Tengo.Model.Spec
open Tengo.Model.F3 (Ex Exs Stm Stms FnDef Prog Locals ERes EsRes Res updL bindArgs)
open Tengo.Proofs.C01Bridge
open Tengo.Proofs.C01BridgeF3 (DataRel NotCallable)
open Tengo.Proofs.C01BridgeF3Comp
open Tengo.Proofs.C01F3Opt (EnvOk)
open Tengo.Proofs.C11Rename (isFuncLit)

variable {V : Type} (C : Cx V)

/-- `lnames m := e` at the top level of a function body: the next slot gets a fresh cell. -/
def DeflSim (f : Nat) (e : Ex) : Prop :=
  ∀ (F : Nat) (ctx : Ctx) (gs : GSt) (σ : St) (g : Nat → V) (l : Locals V) (m : Nat) (lc : Nat → Nat) (B k : Nat),
    4 * f ≤ F → 2 * ctx.callDepth + f ≤ 1800 → ctx.callDepth ≠ 0 → EInv C ctx.env m lc → HInv C B σ g m lc l →
    wfE3 (isFnOf C.P) C.n m k e = true →
    match F3.execS C.E C.P f (.defl m e) g l with
    | .done g' l' => ∃ env' σ' lc', EOk (execStmt F ctx (toAstS3 C.names C.lnames C.ctab (.defl m e))) gs σ
        (Flow.normal, env') σ' ∧ EInv C env' (m + 1) lc' ∧ HInv C B σ' g' (m + 1) lc' l' ∧ FrB C B σ σ'
    | .err => ∃ err, err ≠ Err.fuel ∧ EErr (execStmt F ctx (toAstS3 C.names C.lnames C.ctab (.defl m e))) gs σ err
    | _ => True

/-- A run of the interpreter against the result of a function body. -/
def RB (x : EM (Flow × Spec.Env)) (gs : GSt) (σ : St) (B : Nat) : Res V → Prop
  | .done g' _ => ∃ env' σ', EOk x gs σ (Flow.normal, env') σ' ∧ GInv C σ' g' ∧ FrB C B σ σ'
  | .ret v g' => ∃ w env' σ', EOk x gs σ (Flow.ret w, env') σ' ∧ VR C σ' v w ∧ GInv C σ' g' ∧ FrB C B σ σ'
  | .err => ∃ err, err ≠ Err.fuel ∧ EErr x gs σ err
  | _ => True

def BodySim (f : Nat) (ss : Stms) : Prop :=
  ∀ (F : Nat) (ctx : Ctx) (gs : GSt) (σ : St) (g : Nat → V) (l : Locals V) (m : Nat) (lc : Nat → Nat) (B k i : Nat),
    4 * f ≤ F → 2 * ctx.callDepth + f ≤ 1800 → ctx.callDepth ≠ 0 → EInv C ctx.env m lc → HInv C B σ g m lc l →
    wfBody (isFnOf C.P) C.n m k ss = true →
    RB C (execStmts F ctx (toAstSs3 C.names C.lnames C.ctab ss) i) gs σ B (F3.execSs C.E C.P f ss g l)

variable {C}

theorem RB.bind_ok {α : Type} {x : EM α} {K : α → EM (Flow × Spec.Env)} {gs : GSt} {σ σ1 : St} {a : α}
    {B : Nat} {res : Res V} (h1 : EOk x gs σ a σ1) (hf : FrB C B σ σ1)
    (h2 : RB C (K a) gs σ1 B res) : RB C (x >>= K) gs σ B res := by
  cases res with
  | done g' l' => obtain ⟨env', σ', hok, hh, hfr⟩ := h2; exact ⟨env', σ', EOk.bind h1 hok, hh, hf.trans hfr⟩
  | ret v g' => obtain ⟨w, env', σ', hok, hv, hh, hfr⟩ := h2; exact ⟨w, env', σ', EOk.bind h1 hok, hv, hh, hf.trans hfr⟩
  | err => obtain ⟨err, hne, he⟩ := h2; exact ⟨err, hne, EErr.bind_right h1 he⟩
  | brk _ _ => trivial
  | cont _ _ => trivial
  | out => trivial
  | bad => trivial

theorem deflSim_succ (hy : Hyp C) (f : Nat) (ihE : ∀ e, EvalSim C f e) (e : Ex) : DeflSim C (f + 1) e := by
  intro F ctx gs σ g l m lc B k hF hD hdep he hh hw
  obtain ⟨F, rfl⟩ : ∃ F', F = F' + 1 + 1 := ⟨F - 2, by omega⟩
  have ha := ihE e (F + 1) ctx gs σ g l m lc B _ (by omega) (by omega) he hh hw
  simp only [toAstS3, ex_define _ _ _ _ (isFuncLit_toAstE3 _ _ _ e), F3.execS]
  cases hea : F3.evalE C.E C.P f e g l with
  | val x g1 =>
    rw [hea] at ha
    obtain ⟨wx, σ1, hok1, hvx, hh1, hf1⟩ := ha
    refine ⟨bindEnv ctx.env (C.lnames m) σ1.heap.size, pushSt σ1 (.cell wx false),
      fun j => if j = m then σ1.heap.size else lc j,
      EOk.bind hok1 (EOk.bind (declare_run ctx _ wx hdep gs σ1) (EOk.pure _ gs _)), ⟨?_, ?_⟩,
      hh1.defLoc hvx, hf1.trans (frB_push B σ1 _)⟩
    · intro i hi
      rw [lookupVar_bind_ne _ _ (fun e => hy.nm.dis m i hi e.symm)]
      exact he.glob i hi
    · intro j hj
      by_cases hjm : j = m
      · subst hjm; simp only [if_true]; exact lookupVar_bind_eq _ _ _
      · simp only [hjm, if_false]
        rw [lookupVar_bind_ne _ _ (fun e => hjm (hy.nm.linj _ _ e))]
        exact he.loc j (by omega)
  | err => rw [hea] at ha; obtain ⟨err, hne, herr⟩ := ha; exact ⟨err, hne, EErr.bind_left herr⟩
  | out => exact True.intro
  | bad => exact True.intro


theorem defl_res (E : F3.Env V) (P : Prog) (f : Nat) (i : Nat) (e : Ex) (g : Nat → V) (l : Locals V) :
    match F3.execS E P f (.defl i e) g l with
    | .brk _ _ => False
    | .cont _ _ => False
    | .ret _ _ => False
    | _ => True := by
  cases f with
  | zero => simp only [F3.execS]
  | succ f =>
    simp only [F3.execS]
    cases F3.evalE E P f e g l <;> simp only [ERes.toRes]

theorem bodySim_nil (f : Nat) : BodySim C (f + 1) .nil := by
  intro F ctx gs σ g l m lc B k i hF hD hdep he hh hw
  obtain ⟨F, rfl⟩ : ∃ F', F = F' + 1 := ⟨F - 1, by omega⟩
  simp only [toAstSs3, execStmts.eq_2, F3.execSs]
  exact ⟨ctx.env, σ, EOk.pure _ gs σ, hh.glob, FrB.refl B σ⟩

theorem body_step_plain {f : Nat} {s : Stm} {ss : Stms} (hS : StmtSim C f s) (hB : BodySim C f ss)
    (F : Nat) (ctx : Ctx) (gs : GSt) (σ : St) (g : Nat → V) (l : Locals V) (m : Nat) (lc : Nat → Nat) (B k i : Nat)
    (hF : 4 * (f + 1) ≤ F + 1) (hD : 2 * ctx.callDepth + (f + 1) ≤ 1800) (hdep : ctx.callDepth ≠ 0)
    (he : EInv C ctx.env m lc) (hh : HInv C B σ g m lc l)
    (hw1 : wfS3 (isFnOf C.P) C.n m true false k s = true)
    (hw2 : wfBody (isFnOf C.P) C.n m (k + nlitsS3 s) ss = true) :
    RB C (execStmts (F + 1) ctx (toAstSs3 C.names C.lnames C.ctab (.cons s ss)) i) gs σ B
      (F3.execSs C.E C.P (f + 1) (.cons s ss) g l) := by
  have hD' : 2 * ctx.callDepth + f ≤ 1800 := by omega
  simp only [toAstSs3, execStmts.eq_3, F3.execSs]
  have ha := hS F { env := ctx.env, callDepth := ctx.callDepth, path := i :: ctx.path } gs σ g l m lc B k true false
    (by omega) hD' he hh hw1
  cases hs : F3.execS C.E C.P f s g l with
  | done g1 l1 =>
    rw [hs] at ha
    obtain ⟨σ1, hok1, hh1, hf1⟩ := ha
    exact RB.bind_ok hok1 hf1 (hB F { env := ctx.env, callDepth := ctx.callDepth, path := ctx.path } gs σ1 g1 l1 m lc B
      _ (i + 1) (by omega) hD' hdep he hh1 hw2)
  | brk g1 l1 => exact True.intro
  | cont g1 l1 => exact True.intro
  | ret v g1 =>
    rw [hs] at ha
    obtain ⟨w, σ1, hok1, hv1, hg1, hf1⟩ := ha
    exact ⟨w, ctx.env, σ1, EOk.bind hok1 (EOk.pure _ gs σ1), hv1, hg1, hf1⟩
  | err => rw [hs] at ha; obtain ⟨err, hne, herr⟩ := ha; exact ⟨err, hne, EErr.bind_left herr⟩
  | out => exact True.intro
  | bad => exact True.intro

theorem bodySim_cons (f : Nat) (s : Stm) (ss : Stms) (hS : StmtSim C f s) (hDf : ∀ e, DeflSim C f e)
    (hB : BodySim C f ss) : BodySim C (f + 1) (.cons s ss) := by
  intro F ctx gs σ g l m lc B k i hF hD hdep he hh hw
  obtain ⟨F, rfl⟩ : ∃ F', F = F' + 1 := ⟨F - 1, by omega⟩
  have hD' : 2 * ctx.callDepth + f ≤ 1800 := by omega
  cases s with
  | defl j e =>
    simp only [wfBody, Bool.and_eq_true, beq_iff_eq] at hw
    obtain ⟨⟨rfl, hwe⟩, hwb⟩ := hw
    simp only [toAstSs3, execStmts.eq_3, F3.execSs]
    have ha := hDf e F { env := ctx.env, callDepth := ctx.callDepth, path := i :: ctx.path } gs σ g l j lc B k
      (by omega) hD' hdep he hh hwe
    have hr := defl_res C.E C.P f j e g l
    cases hs : F3.execS C.E C.P f (.defl j e) g l with
    | done g1 l1 =>
      rw [hs] at ha
      obtain ⟨env', σ1, lc', hok1, he1, hh1, hf1⟩ := ha
      exact RB.bind_ok hok1 hf1 (hB F { env := env', callDepth := ctx.callDepth, path := ctx.path } gs σ1 g1 l1 (j + 1)
        lc' B _ (i + 1) (by omega) hD' hdep he1 hh1 hwb)
    | brk g1 l1 => exact True.intro
    | cont g1 l1 => exact True.intro
    | ret v g1 => rw [hs] at hr; exact hr.elim
    | err => rw [hs] at ha; obtain ⟨err, hne, herr⟩ := ha; exact ⟨err, hne, EErr.bind_left herr⟩
    | out => exact True.intro
    | bad => exact True.intro
  | _ =>
    simp only [wfBody, Bool.and_eq_true] at hw
    exact body_step_plain hS hB F ctx gs σ g l m lc B k i hF hD hdep he hh hw.1 hw.2


/-! ### the call -/

variable (C) in
/-- A run of the body block of a function against the result of its body. -/
def RBk (x : EM Flow) (gs : GSt) (σ : St) (B : Nat) : Res V → Prop
  | .done g' _ => ∃ σ', EOk x gs σ Flow.normal σ' ∧ GInv C σ' g' ∧ FrB C B σ σ'
  | .ret v g' => ∃ w σ', EOk x gs σ (Flow.ret w) σ' ∧ VR C σ' v w ∧ GInv C σ' g' ∧ FrB C B σ σ'
  | .err => ∃ err, err ≠ Err.fuel ∧ EErr x gs σ err
  | _ => True

theorem bodyBlock {f : Nat} {ss : Stms} (h : BodySim C f ss)
    (F : Nat) (ctx : Ctx) (gs : GSt) (σ : St) (g : Nat → V) (l : Locals V) (m : Nat) (lc : Nat → Nat) (B k : Nat)
    (hF : 4 * f + 1 ≤ F) (hD : 2 * ctx.callDepth + f ≤ 1800) (hdep : ctx.callDepth ≠ 0)
    (he : EInv C ctx.env m lc) (hh : HInv C B σ g m lc l) (hw : wfBody (isFnOf C.P) C.n m k ss = true) :
    RBk C (execBlock F ctx (toAstSs3 C.names C.lnames C.ctab ss) 0) gs σ B (F3.execSs C.E C.P f ss g l) := by
  obtain ⟨F, rfl⟩ : ∃ F', F = F' + 1 := ⟨F - 1, by omega⟩
  cases ss with
  | nil =>
    simp only [toAstSs3, execBlock.eq_2]
    cases f with
    | zero => simp only [F3.execSs]; exact True.intro
    | succ f =>
      simp only [F3.execSs]
      exact ⟨σ, EOk.pure _ gs σ, hh.glob, FrB.refl B σ⟩
  | cons st ss =>
    rw [toAstSs3, execBlock.eq_3 _ _ _ _ (by simp), ← toAstSs3]
    have hb := h F { env := { vars := [] } :: ctx.env, callDepth := ctx.callDepth, path := 0 :: ctx.path }
      gs σ g l m lc B k 0 (by omega) hD hdep he.push hh hw
    cases hex : F3.execSs C.E C.P f (.cons st ss) g l with
    | done g' l' =>
      rw [hex] at hb
      obtain ⟨env', σ', hok, hg', hf'⟩ := hb
      exact ⟨σ', EOk.bind hok (EOk.pure _ gs σ'), hg', hf'⟩
    | ret v g' =>
      rw [hex] at hb
      obtain ⟨w, env', σ', hok, hv', hg', hf'⟩ := hb
      exact ⟨w, σ', EOk.bind hok (EOk.pure _ gs σ'), hv', hg', hf'⟩
    | err => rw [hex] at hb; obtain ⟨err, hne, herr⟩ := hb; exact ⟨err, hne, EErr.bind_left herr⟩
    | brk _ _ => exact True.intro
    | cont _ _ => exact True.intro
    | out => exact True.intro
    | bad => exact True.intro

theorem paramsOf_get_some {lnames : Nat → String} {np i : Nat} {p : String}
    (h : (paramsOf lnames np)[i]? = some p) : i < np ∧ lnames i = p := by
  by_cases hi : i < np
  · simp only [paramsOf, List.getElem?_map, List.getElem?_range hi, Option.map_some, Option.some.injEq] at h
    exact ⟨hi, h⟩
  · have : (paramsOf lnames np)[i]? = none := by
      apply List.getElem?_eq_none
      simp [paramsOf]; omega
    rw [this] at h; cases h

theorem paramsOf_get (lnames : Nat → String) {np j : Nat} (hj : j < np) :
    (paramsOf lnames np)[j]? = some (lnames j) := by
  simp only [paramsOf, List.getElem?_map, List.getElem?_range hj, Option.map_some]

theorem callSim_succ (hy : Hyp C) (f : Nat) (ihB : ∀ ss, BodySim C f ss) : CallSim C (f + 1) := by
  intro F ctx gs σ g fv w vs ws hF hD hv hvs hg
  obtain ⟨F, rfl⟩ : ∃ F', F = F' + 1 := ⟨F - 1, by omega⟩
  simp only [F3.callFn]
  cases hfn : C.E.asFn fv with
  | none =>
    dsimp only
    rcases hv with ⟨hs, rfl⟩ | ⟨k, fd, r, h1, _⟩
    · exact callTail_notfn _ ctx _ ws gs σ (fun r h => by rw [h] at hs; cases hs)
        (fun nm h => by rw [h] at hs; cases hs)
    · rw [hfn] at h1; cases h1
  | some k =>
    dsimp only
    rcases hv with ⟨hs, _⟩ | ⟨k', fd, r, h1, hfd, rfl, hcl⟩
    · have := hy.env.asFn_some fv k hfn
      rw [this] at hs; cases hs
    · rw [hfn] at h1
      injection h1 with h1
      subst h1
      rw [hfd]
      dsimp only
      have hplen : (C.clos fd).params.length = fd.nparams := by simp [Cx.clos, paramsOf]
      by_cases hlen : vs.length ≠ fd.nparams
      · rw [if_pos hlen]
        obtain ⟨err, hne, he⟩ := callClosure_wrong F ctx (C.clos fd) ws rfl
          (by rw [hplen, ← hvs.1]; exact hlen) gs σ
        refine ⟨err, hne, ?_⟩
        unfold EErr at he ⊢
        rw [callTail_fn _ _ _ _ _ gs σ hcl]; exact he
      · rw [if_neg hlen]
        have hlen' : vs.length = fd.nparams := Decidable.of_not_not hlen
        have hwl : ws.length = (C.clos fd).params.length := by rw [hplen, ← hvs.1]; exact hlen'
        have hdep : ctx.callDepth < 900 := by omega
        obtain ⟨fr, σ1, hloop, hsz, hold, hnew, hlk, hoth⟩ := params_loop gs (paramsOf C.lnames fd.nparams) ws
          { vars := [], isFn := true } σ (by rw [hwl]; rfl)
          (fun i j p hi hj => hy.nm.linj i j ((paramsOf_get_some hi).2.trans (paramsOf_get_some hj).2.symm))
        have hkc : KeepClos σ σ1 := fun r c h => by rw [hold r (lt_size_of_get h)]; exact h
        have hfr1 : FrB C σ.heap.size σ σ1 := ⟨by omega, hkc, fun r _ hr _ => hold r hr⟩
        have hg1 : GInv C σ1 g := hg.move hkc (fun i hi => by
          obtain ⟨w, b, h, _⟩ := hg i hi
          exact hold _ (lt_size_of_get h))
        have hh1 : HInv C σ.heap.size σ1 g fd.nparams (fun j => σ.heap.size + j) (bindArgs vs) := by
          refine ⟨hg1, ⟨?_, fun i _ => Nat.le_add_right _ _, ?_, fun i j _ _ h => by omega⟩, by omega⟩
          · intro j hj
            have hjv : j < vs.length := by omega
            have hjw : j < ws.length := by rw [← hvs.1]; exact hjv
            refine ⟨vs[j], ws[j], false, by simp [bindArgs, hjv], hnew j ws[j] (List.getElem?_eq_getElem hjw), ?_⟩
            exact (hvs.2 j _ _ (List.getElem?_eq_getElem hjv) (List.getElem?_eq_getElem hjw)).mono hkc
          · intro i j hi hj h
            obtain ⟨w, b, hc, _⟩ := hg j hj
            have := lt_size_of_get hc
            omega
        have he1 : EInv C (fr :: C.genv) fd.nparams (fun j => σ.heap.size + j) := by
          constructor
          · intro i hi
            have hx : C.names i ∉ paramsOf C.lnames fd.nparams := by
              simp only [paramsOf, List.mem_map, List.mem_range, not_exists, not_and]
              intro j _ h
              exact hy.nm.dis j i hi h
            simp only [lookupVar_cons, hoth _ hx, List.lookup]
            exact hy.genv i hi
          · intro j hj
            simp only [lookupVar_cons, hlk j _ (paramsOf_get C.lnames hj)]
        obtain ⟨k0, hwf⟩ := hy.wfns k fd hfd
        simp only [wfFn, Bool.and_eq_true] at hwf
        have hb := bodyBlock (ihB fd.body) F
          { env := fr :: C.genv, callDepth := ctx.callDepth + 1, path := [] } gs σ1 g (bindArgs vs) fd.nparams
          (fun j => σ.heap.size + j) σ.heap.size k0 (by omega) (by show 2 * (ctx.callDepth + 1) + f ≤ 1800; omega)
          (by show ctx.callDepth + 1 ≠ 0; omega) he1 hh1 hwf.2
        have hunf := callClosure_unf F ctx (C.clos fd) ws rfl hwl hdep
        cases hex : F3.execSs C.E C.P f fd.body g (bindArgs vs) with
        | done g' l' =>
          rw [hex] at hb
          obtain ⟨σ', hok, hg', hf'⟩ := hb
          refine ⟨.undef, σ', ?_, by rw [← hy.data.undef]; exact VR.scalar (by rw [hy.data.undef]; rfl), hg',
            hfr1.trans hf'⟩
          unfold EOk
          rw [callTail_fn _ _ _ _ _ gs σ hcl, hunf]
          exact EOk.bind hloop (EOk.bind hok (EOk.pure _ gs σ'))
        | ret v g' =>
          rw [hex] at hb
          obtain ⟨w', σ', hok, hv', hg', hf'⟩ := hb
          refine ⟨w', σ', ?_, hv', hg', hfr1.trans hf'⟩
          unfold EOk
          rw [callTail_fn _ _ _ _ _ gs σ hcl, hunf]
          exact EOk.bind hloop (EOk.bind hok (EOk.pure _ gs σ'))
        | err =>
          rw [hex] at hb
          obtain ⟨err, hne, herr⟩ := hb
          refine ⟨err, hne, ?_⟩
          unfold EErr
          rw [callTail_fn _ _ _ _ _ gs σ hcl, hunf]
          exact EErr.bind_right hloop (EErr.bind_left herr)
        | brk _ _ => exact True.intro
        | cont _ _ => exact True.intro
        | out => exact True.intro
        | bad => exact True.intro


/-- **All forms, at every fuel of the fragment's evaluator.** -/
theorem all_sim3 (hy : Hyp C) : ∀ f : Nat,
    (∀ e, EvalSim C f e) ∧ (∀ es, EvalsSim C f es) ∧ CallSim C f ∧ (∀ st, StmtSim C f st) ∧
    (∀ ss, StmtsSim C f ss) ∧ (∀ c body, WhileSim C f c body) ∧ (∀ body, ForeverSim C f body) ∧
    (∀ c body post, For3Sim C f c body post) ∧ (∀ e, DeflSim C f e) ∧ (∀ ss, BodySim C f ss)
  | 0 => by
    refine ⟨fun e => ?_, fun es => ?_, ?_, fun st => ?_, fun ss => ?_, fun c body => ?_, fun body => ?_,
      fun c body post => ?_, fun e => ?_, fun ss => ?_⟩
    · intro F ctx gs σ g l m lc B k hF hD he hh hw; simp only [F3.evalE]; exact True.intro
    · intro F ctx gs σ g l m lc B k hF hD he hh hw; simp only [F3.evalEs]; exact True.intro
    · intro F ctx gs σ g fv w vs ws hF hD hv hvs hg; simp only [F3.callFn]
    · intro F ctx gs σ g l m lc B k inFn inl hF hD he hh hw; simp only [F3.execS]; exact True.intro
    · intro F ctx gs σ g l m lc B k i inFn inl hF hD he hh hw; simp only [F3.execSs]; exact True.intro
    · intro F ctx gs σ g l m lc B k inFn inl hF hD he hh hw; simp only [F3.execS]; exact True.intro
    · intro F ctx gs σ g l m lc B k inFn inl hF hD he hh hw; simp only [F3.execS]; exact True.intro
    · intro F ctx gs σ g l m lc B k inFn inl hF hD he hh hw; simp only [F3.execS]; exact True.intro
    · intro F ctx gs σ g l m lc B k hF hD hdep he hh hw; simp only [F3.execS]
    · intro F ctx gs σ g l m lc B k i hF hD hdep he hh hw; simp only [F3.execSs]; exact True.intro
  | f + 1 => by
    obtain ⟨ihE, ihEs, ihC, ihS, ihSs, ihW, ihFo, ih3, ihD, ihB⟩ := all_sim3 hy f
    have hW : ∀ c body, WhileSim C (f + 1) c body :=
      fun c body => whileSim_succ hy f ihE c body (blockSim_of (ihSs body)) (ihW c body)
    have hFo : ∀ body, ForeverSim C (f + 1) body :=
      fun body => foreverSim_succ f body (blockSim_of (ihSs body)) (ihFo body)
    have h3 : ∀ c body post, For3Sim C (f + 1) c body post :=
      fun c body post => for3Sim_succ hy f ihE c body post (blockSim_of (ihSs body)) (ihS post) (ih3 c body post)
    refine ⟨evalSim_succ hy f ihE ihEs ihC, evalsSim_succ f ihE ihEs, callSim_succ hy f ihB, fun st => ?_,
      fun ss => ?_, hW, hFo, h3, deflSim_succ hy f ihE, fun ss => ?_⟩
    · cases st with
      | expr e => exact stmtSim_expr f ihE e
      | assign i e => exact stmtSim_assign hy f ihE i e
      | defl i e =>
        intro F ctx gs σ g l m lc B k inFn inl hF hD he hh hw
        simp [wfS3] at hw
      | setl i e => exact stmtSim_setl f ihE i e
      | ifs c body => exact stmtSim_ifs hy f ihE c body (blockSim_of (ihSs body))
      | ifelse c body els =>
        exact stmtSim_ifelse hy f ihE c body els (blockSim_of (ihSs body)) (blockSim_of (ihSs els))
      | whil c body => exact stmtSim_whil f c body (hW c body)
      | forever body => exact stmtSim_forever f body (hFo body)
      | for3 c body post => exact stmtSim_for3 f c body post (h3 c body post)
      | brk => exact stmtSim_brk f
      | cont => exact stmtSim_cont f
      | ret e => exact stmtSim_ret f ihE e
      | ret0 => exact stmtSim_ret0 hy f
    · cases ss with
      | nil => exact stmtsSim_nil f
      | cons st ss => exact stmtsSim_cons f st ss (ihS st) (ihSs ss)
    · cases ss with
      | nil => exact bodySim_nil f
      | cons st ss => exact bodySim_cons f st ss (ihS st) ihD (ihB ss)

end Tengo.Proofs.C01BridgeF3Spec

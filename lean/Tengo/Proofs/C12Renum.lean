import Tengo.Proofs.C12Scan
import Tengo.Proofs.VMRenumCheck
import Tengo.Proofs.VMSafeCtx
import Tengo.Proofs.C03Reloc
import Tengo.Model.DedupVM
/-!
C12, the universal link between the `Dedup` model (`RemoveDuplicates` + `updateConstIndexes` over an
abstract pool, `Tengo.Model.Dedup` / `Tengo.Props.C12`) and the whole-VM renumbering check
(`Tengo.Model.VM.checkRenum`, `Tengo.Proofs.VMRenumCheck`): **the program that the model's output stands
for always passes `checkRenum` against the original** — for every program satisfying `DedupPre`, not per
evaluated program.

1. `toDedup`: abstract entries, `merged_consts` (two constants whose abstract entries have equal keys).
2. The pool of `renumCode`: `pool_fn`, `pool_val` (from the index-level scan invariant `scan_origin`).
3. `fn_renum`: the model's rewritten bytes of one function pass `checkFnRenum` against the original.
4. `dedup_code_renum` (the check passes), `dedup_code_vals` (`ValsAgree`), `dedup_code_renumbers` (`Renum`),
   `dedup_total` (the model does not panic).
5. Decidable forms of the hypotheses: `checkDedupPre_sound`, `floatsDistinctB_sound`; `outputIsModel_sound`.
-/
set_option linter.unusedSectionVars false
set_option linter.unusedSimpArgs false
set_option linter.unusedVariables false
namespace Tengo.Proofs.C12Renum
open Tengo.Model Tengo.Model.Opcodes Tengo.Model.Spec Tengo.Model.VM Tengo.Props.C12
open Tengo.Model.Dedup (scan dedup updateConstIndexes rewriteConst rewriteAll floatEq isConstRef Key)

/-! ## 1. The abstraction `toDedup` -/

theorem toDedup_get (ptr : Nat → Nat) (code : Code) (k : Nat) :
    (toDedup ptr code).consts[k]? = (code.consts[k]?).map (toDconst ptr k) := by
  simp [toDedup, List.getElem?_mapIdx]

theorem toDedup_length (ptr : Nat → Nat) (code : Code) : (toDedup ptr code).consts.length = code.consts.size := by
  simp [toDedup]

theorem toDconst_fn_inv {ptr : Nat → Nat} {k : Nat} {c : Const} {g : Dedup.Fn} (h : toDconst ptr k c = .fn g) :
    ∃ f r, c = .fn f r ∧ g = toDfn (ptr k) f := by
  cases c with
  | fn f r => exact ⟨f, r, rfl, by simp [toDconst] at h; exact h.symm⟩
  | val v => cases v <;> simp [toDconst] at h

theorem toDconst_val_notfn (ptr : Nat → Nat) (k : Nat) (v : Value) (g : Dedup.Fn) : toDconst ptr k (.val v) ≠ .fn g := by
  cases v <;> simp [toDconst]

/-- Function constants with the same pointer are the same function with the same `ref`. -/
def PtrOK (ptr : Nat → Nat) (code : Code) : Prop :=
  ∀ k1 k2 f1 r1 f2 r2, code.consts[k1]? = some (.fn f1 r1) → code.consts[k2]? = some (.fn f2 r2) →
    ptr k1 = ptr k2 → f1 = f2 ∧ r1 = r2

/-- Float constants that are equal as Go map keys (`floatEq` on the bit patterns: `+0 == -0`, NaN equals
nothing) are the same `Float`. (`Float` is opaque in core Lean: that equal bit patterns mean equal floats
cannot be proved, and `-0.0`, which the compiler never emits as a constant, must be excluded.) -/
def FloatsOK (code : Code) : Prop :=
  ∀ (k1 k2 : Nat) (x y : Float), code.consts[k1]? = some (Const.val (.float x)) →
    code.consts[k2]? = some (Const.val (.float y)) →
    floatEq x.toBits.toNat y.toBits.toNat = true → x = y

/-- Two constants of the pool whose abstract entries have equal keys: the same function constant, or value
constants — equal ones when `FloatsOK`. -/
theorem merged_consts {ptr : Nat → Nat} {code : Code} (hp : PtrOK ptr code) {k i0 : Nat} {c c0 : Const} {kc kd : Key}
    (hk : code.consts[k]? = some c) (h0 : code.consts[i0]? = some c0)
    (hkc : (toDconst ptr k c).key = some kc) (hkd : (toDconst ptr i0 c0).key = some kd) (he : kd.eqv kc = true) :
    (∃ f r, c = .fn f r ∧ c0 = .fn f r) ∨ (∃ v v0, c = .val v ∧ c0 = .val v0 ∧ (FloatsOK code → v0 = v)) := by
  rcases key_eqv_cases hkc hkd he with ⟨f, g, hf, hg, hpg⟩ | ⟨a, b, ha, hb, hfe⟩ | heq
  · obtain ⟨f1, r1, rfl, hf1⟩ := toDconst_fn_inv hf
    obtain ⟨f2, r2, rfl, hf2⟩ := toDconst_fn_inv hg
    subst hf1; subst hf2
    simp only [toDfn] at hpg
    obtain ⟨h1, h2⟩ := hp k i0 f1 r1 f2 r2 hk h0 hpg.symm
    subst h1; subst h2
    exact Or.inl ⟨_, _, rfl, rfl⟩
  · cases c with
    | fn f r => simp [toDconst] at ha
    | val v =>
      cases c0 with
      | fn f r => simp [toDconst] at hb
      | val v0 =>
        refine Or.inr ⟨v, v0, rfl, rfl, ?_⟩
        intro hfl
        cases v <;> simp [toDconst] at ha
        cases v0 <;> simp [toDconst] at hb
        subst ha; subst hb
        rename_i x y
        rw [hfl i0 k y x h0 hk hfe]
  · cases c with
    | fn f r =>
      cases c0 with
      | val v0 => exact absurd heq.symm (toDconst_val_notfn _ _ _ _)
      | fn f0 r0 =>
        simp only [toDconst, toDfn, Dedup.Const.fn.injEq, Dedup.Fn.mk.injEq] at heq
        obtain ⟨h1, h2⟩ := hp k i0 f r f0 r0 hk h0 heq.1
        subst h1; subst h2
        exact Or.inl ⟨_, _, rfl, rfl⟩
    | val v =>
      cases c0 with
      | fn f0 r0 => exact absurd heq (toDconst_val_notfn _ _ _ _)
      | val v0 =>
        refine Or.inr ⟨v, v0, rfl, rfl, ?_⟩
        intro hfl
        cases v <;> simp [toDconst, Dedup.Const.key] at hkc <;>
          cases v0 <;> simp [toDconst] at heq
        all_goals first | (subst heq; rfl) | skip
        rename_i x y
        simp only [toDconst, Dedup.Const.key, Option.some.injEq] at hkd
        subst hkc; subst hkd
        simp only [Key.eqv] at he
        rw [hfl i0 k y x h0 hk he]

/-! ## 2. The pool of `renumCode` -/

theorem renum_size (code : Code) (bc' : Dedup.Bytecode) (m : List Nat) :
    (renumCode code bc' m).consts.size = bc'.consts.length := by
  simp [renumCode]

theorem renum_get (code : Code) (bc' : Dedup.Bytecode) (m : List Nat) (j : Nat) (hj : j < bc'.consts.length) :
    (renumCode code bc' m).consts[j]? = some (renumConst code bc' m j) := by
  simp [renumCode, List.getElem?_map, List.getElem?_range hj]

section pool
variable {ptr : Nat → Nat} {code : Code} {bc' : Dedup.Bytecode} {m : List Nat}

/-- The origin of the new index of constant `k`, at the VM level. -/
theorem origin_vm (hd : dedup (toDedup ptr code) = .ok (bc', m)) (hp : PtrOK ptr code) {k : Nat} {c : Const}
    (hk : code.consts[k]? = some c) :
    ∃ j i0 c0 d', m[k]? = some j ∧ m.findIdx (· == j) = i0 ∧ code.consts[i0]? = some c0 ∧
      bc'.consts[j]? = some d' ∧ rewriteConst m (toDconst ptr i0 c0) = .ok d' ∧
      ((∃ f r, c = .fn f r ∧ c0 = .fn f r) ∨ (∃ v v0, c = .val v ∧ c0 = .val v0 ∧ (FloatsOK code → v0 = v))) := by
  obtain ⟨hm, _, hall, _⟩ := dedup_unfold hd
  subst hm
  obtain ⟨_, hget, _⟩ := rewriteAll_get _ _ _ hall
  have hck : (toDedup ptr code).consts[k]? = some (toDconst ptr k c) := by rw [toDedup_get, hk]; rfl
  obtain ⟨j, i0, d, h1, h2, h3, h4, h5⟩ := scan_origin _ k _ hck
  rw [toDedup_get] at h3
  cases h0 : code.consts[i0]? with
  | none => rw [h0] at h3; cases h3
  | some c0 =>
    rw [h0] at h3
    simp only [Option.map_some, Option.some.injEq] at h3
    subst h3
    obtain ⟨d', h6, h7⟩ := hget j _ h2
    refine ⟨j, i0, c0, d', h1, h4, h0, h6, h7, ?_⟩
    rcases h5 with h5 | ⟨_, kc, kd, h8, h9, h10⟩
    · subst h5
      rw [hk] at h0
      cases h0
      cases c with
      | fn f r => exact Or.inl ⟨f, r, rfl, rfl⟩
      | val v => exact Or.inr ⟨v, v, rfl, rfl, fun _ => rfl⟩
    · exact merged_consts hp hk h0 h8 h9 h10

theorem pool_fn (hd : dedup (toDedup ptr code) = .ok (bc', m)) (hp : PtrOK ptr code) {k : Nat} {f : Fn} {r : Nat}
    (hk : code.consts[k]? = some (.fn f r)) :
    ∃ j bs', m[k]? = some j ∧ j < bc'.consts.length ∧ updateConstIndexes m f.insts.toList = .ok bs' ∧
      (renumCode code bc' m).consts[j]? = some (.fn { f with insts := bs'.toArray } r) := by
  obtain ⟨j, i0, c0, d', h1, h2, h3, h4, h5, h6⟩ := origin_vm hd hp hk
  have hj : j < bc'.consts.length := (List.getElem?_eq_some_iff.mp h4).1
  rcases h6 with ⟨f', r', he, he0⟩ | ⟨v, v0, he, _⟩
  · cases he
    subst he0
    simp only [toDconst, rewriteConst, toDfn] at h5
    cases hu : updateConstIndexes m f.insts.toList with
    | error e => rw [hu] at h5; cases h5
    | ok bs' =>
      rw [hu] at h5
      simp only [Except.ok.injEq] at h5
      subst h5
      refine ⟨j, bs', h1, hj, rfl, ?_⟩
      rw [renum_get _ _ _ _ hj]
      simp only [renumConst, h2, h3, h4]
  · cases he

theorem pool_val (hd : dedup (toDedup ptr code) = .ok (bc', m)) (hp : PtrOK ptr code) {k : Nat} {v : Value}
    (hk : code.consts[k]? = some (.val v)) :
    ∃ j v0, m[k]? = some j ∧ j < bc'.consts.length ∧ (renumCode code bc' m).consts[j]? = some (.val v0) ∧
      (FloatsOK code → v0 = v) := by
  obtain ⟨j, i0, c0, d', h1, h2, h3, h4, h5, h6⟩ := origin_vm hd hp hk
  have hj : j < bc'.consts.length := (List.getElem?_eq_some_iff.mp h4).1
  rcases h6 with ⟨f', r', he, _⟩ | ⟨v', v0, he, he0, hv⟩
  · cases he
  · cases he
    subst he0
    refine ⟨j, v0, h1, hj, ?_, hv⟩
    rw [renum_get _ _ _ _ hj]
    simp only [renumConst, h2, h3]

end pool

/-! ## 3. One function -/

theorem update_ok_len (m : List Nat) (dflt : Nat) (hm : ∀ j ∈ m, j < 65536) (bs : Model.Bytes) (is : List Instr)
    (hd : decode bs = some is) (hr : RefsOK m.length is) :
    ∃ bs', updateConstIndexes m bs = .ok bs' ∧ bs'.length = bs.length ∧
      decode bs' = some (is.map (renInstr (rOf m dflt))) := by
  obtain ⟨bs', h1, h2, h3⟩ := updFuel_decode m dflt hm bs.length 0 bs is hd hr
  refine ⟨bs', h1, h2, ?_⟩
  unfold decode
  rw [h2]
  exact h3

theorem renInstr_size (r : Nat → Nat) (i : Instr) : (renInstr r i).size = i.size := by
  unfold Instr.size; rw [renInstr_op]

theorem renInstr_tail (r : Nat → Nat) (i : Instr) : (renInstr r i).args.drop 1 = i.args.drop 1 := by
  unfold renInstr
  split
  · cases i.args <;> rfl
  · rfl

theorem renInstr_head_ref (m : List Nat) (dflt n' : Nat) (i : Instr) (cur : Nat) (hc : isConstRef i.op = true)
    (hh : i.args.head? = some cur) (hlt : cur < m.length) :
    (renInstr (rOf m dflt) i).args.headD 0 = cmOf m n' cur ∧ i.args.headD 0 = cur := by
  cases ha : i.args with
  | nil => rw [ha] at hh; cases hh
  | cons a more =>
    rw [ha] at hh
    simp only [List.head?_cons, Option.some.injEq] at hh
    subst hh
    have : m[a]? = some (m[a]'hlt) := List.getElem?_eq_getElem hlt
    simp [renInstr, hc, ha, rOf, cmOf, this]

theorem renInstr_nonref (r : Nat → Nat) (i : Instr) (hc : isConstRef i.op = false) : renInstr r i = i := by
  simp [renInstr, hc]

theorem fn_renum (code code' : Code) (m : List Nat) (n' : Nat) (f : Fn) (bs' : Model.Bytes) (is : List Instr)
    (hd : decode f.insts.toList = some is) (hne : is ≠ []) (hr : RefsOK m.length is) (hsmall : ∀ j ∈ m, j < 65536)
    (hu : updateConstIndexes m f.insts.toList = .ok bs')
    (hj : ∀ i ∈ is, isJump i.op = true → ∃ j ∈ is, i.args.head? = some j.pos)
    (hf : ∀ i ∈ is, canFallB i.op = true → ∃ j ∈ is, j.pos = i.pos + i.size)
    (hK : ∀ i ∈ is, i.op = opConstant →
      constRefOkB (code.consts[i.args.headD 0]?) (code'.consts[cmOf m n' (i.args.headD 0)]?) = true)
    (hC : ∀ i ∈ is, i.op = opClosure →
      isFnPairB (code.consts[i.args.headD 0]?) (code'.consts[cmOf m n' (i.args.headD 0)]?) = true) :
    checkFnRenum code code' (cmOf m n') f { f with insts := bs'.toArray } (is.map (·.pos)) = true := by
  obtain ⟨bs2, hu2, hlen, hd2⟩ := update_ok_len m 0 hsmall _ is hd hr
  rw [hu] at hu2
  cases hu2
  have hd' : decode ({ f with insts := bs'.toArray } : Fn).insts.toList = some (is.map (renInstr (rOf m 0))) := by
    simpa using hd2
  unfold checkFnRenum
  rw [Bool.and_eq_true]
  constructor
  · have hbne : f.insts.toList ≠ [] := by
      intro he
      rw [he] at hd
      simp [decode, decodeFuel] at hd
      exact hne hd
    obtain ⟨a, ha, ha0⟩ := decode_head _ _ hd hbne
    rw [List.contains_iff_mem]
    exact List.mem_map.mpr ⟨a, ha, ha0⟩
  · rw [List.all_eq_true]
    intro p hp
    obtain ⟨x, hx, rfl⟩ := List.mem_map.mp hp
    have hfx := fetch_decoded f is hd x hx
    have hx' : renInstr (rOf m 0) x ∈ is.map (renInstr (rOf m 0)) := List.mem_map_of_mem hx
    have hfx' := fetch_decoded _ _ hd' _ hx'
    rw [renInstr_pos] at hfx'
    have hlt := (op_at f is hd x hx).2
    simp only [hfx, hfx']
    have hrel : fetchRelCB (cmOf m n')
        { op := x.op, a0 := x.args.headD 0, a1 := (List.drop 1 x.args).headD 0, size := x.size }
        { op := (renInstr (rOf m 0) x).op, a0 := (renInstr (rOf m 0) x).args.headD 0,
          a1 := (List.drop 1 (renInstr (rOf m 0) x).args).headD 0, size := (renInstr (rOf m 0) x).size } = true := by
      unfold fetchRelCB
      simp only [renInstr_op, renInstr_tail, renInstr_size, beq_self_eq_true, Bool.true_and]
      cases hc : isConstRef x.op with
      | true =>
        obtain ⟨cur, h1, h2⟩ := hr x hx hc
        obtain ⟨h3, h4⟩ := renInstr_head_ref m 0 n' x cur hc h1 h2
        have hc' : (x.op == opConstant || x.op == opClosure) = true := hc
        rw [h3, h4, hc']
        simp
      | false =>
        have hc' : (x.op == opConstant || x.op == opClosure) = false := hc
        rw [renInstr_nonref _ _ hc, hc']
        simp
    have hKx : (x.op != opConstant ||
        constRefOkB code.consts[x.args.headD 0]? code'.consts[cmOf m n' (x.args.headD 0)]?) = true := by
      by_cases ho : x.op = opConstant
      · rw [hK x hx ho]; simp
      · simp [ho]
    have hCx : (x.op != opClosure ||
        isFnPairB code.consts[x.args.headD 0]? code'.consts[cmOf m n' (x.args.headD 0)]?) = true := by
      by_cases ho : x.op = opClosure
      · rw [hC x hx ho]; simp
      · simp [ho]
    have hFx : (!canFallB x.op || (List.map (fun x => x.pos) is).contains (x.pos + x.size)) = true := by
      cases hcf : canFallB x.op with
      | false => rfl
      | true =>
        obtain ⟨j, hjm, hjp⟩ := hf x hx hcf
        simp only [Bool.not_true, Bool.false_or, List.contains_iff_mem]
        exact List.mem_map.mpr ⟨j, hjm, hjp⟩
    have hJx : (!jumpOpsB.contains x.op || (List.map (fun x => x.pos) is).contains (x.args.headD 0)) = true := by
      rw [Tengo.Proofs.C03Reloc.jumpOpsB_contains]
      cases hjx : isJump x.op with
      | false => rfl
      | true =>
        obtain ⟨j, hjm, hjt⟩ := hj x hx hjx
        have : x.args.headD 0 = j.pos := by
          cases hxa : x.args with
          | nil => rw [hxa] at hjt; cases hjt
          | cons a as => rw [hxa] at hjt; simp at hjt; simp [hjt]
        simp only [Bool.not_true, Bool.false_or, List.contains_iff_mem, this]
        exact List.mem_map.mpr ⟨j, hjm, rfl⟩
    rw [hrel, hKx, hCx, hFx, hJx]
    simp [hlt]

/-! ## 4. Whole programs -/

/-- What the theorem needs of one function (`is`: its decoded instructions): it decodes and is not empty;
every CONST / CLOSURE operand is an index of the pool; every CLOSURE operand names a function constant;
every jump lands on an instruction; an instruction that can fall through is followed by one. -/
structure FnPre (code : Code) (f : Fn) (is : List Instr) : Prop where
  dec : decode f.insts.toList = some is
  ne : is ≠ []
  refs : RefsOK code.consts.size is
  clos : ∀ i ∈ is, i.op = opClosure → ∃ g r, code.consts[i.args.headD 0]? = some (Const.fn g r)
  jumps : ∀ i ∈ is, isJump i.op = true → ∃ j ∈ is, i.args.head? = some j.pos
  fall : ∀ i ∈ is, canFallB i.op = true → ∃ j ∈ is, j.pos = i.pos + i.size

/-- The precondition of the universal theorem: at most 65536 constants (the operand is two bytes wide),
every function (main and the function constants) is fit (`FnPre`), and function constants with the same
pointer are the same function with the same `ref` (`PtrOK`). -/
structure DedupPre (ptr : Nat → Nat) (code : Code) : Prop where
  small : code.consts.size ≤ 65536
  fns : ∀ idx f, code.fn idx = some f → ∃ is, FnPre code f is
  ptr : PtrOK ptr code

theorem fn_succ {code : Code} {k : Nat} {f : Fn} {r : Nat} (h : code.consts[k]? = some (Const.fn f r)) :
    code.fn (k + 1) = some f := by
  simp [Code.fn, h]

theorem fn_succ_inv {code : Code} {k : Nat} {f : Fn} (h : code.fn (k + 1) = some f) :
    ∃ r, code.consts[k]? = some (Const.fn f r) := by
  simp only [Code.fn, Nat.add_one_ne_zero, beq_iff_eq, if_false, Nat.add_sub_cancel] at h
  cases hc : code.consts[k]? with
  | none => rw [hc] at h; cases h
  | some c =>
    rw [hc] at h
    cases c with
    | val v => cases h
    | fn g r => simp only [Option.some.injEq] at h; subst h; exact ⟨r, rfl⟩

/-- The abstraction of a fit program is well formed in the sense of the `Dedup` theorems. -/
theorem toDedup_wf {ptr : Nat → Nat} {code : Code} (h : DedupPre ptr code) : WF (toDedup ptr code) := by
  refine ⟨by rw [toDedup_length]; exact h.small, ?_, ?_⟩
  · obtain ⟨is, hf⟩ := h.fns 0 code.main (by simp [Code.fn])
    exact ⟨is, hf.dec, by rw [toDedup_length]; exact hf.refs⟩
  · intro g hg
    obtain ⟨k, hk⟩ := List.getElem?_of_mem hg
    rw [toDedup_get] at hk
    cases hc : code.consts[k]? with
    | none => rw [hc] at hk; cases hk
    | some c =>
      rw [hc] at hk
      simp only [Option.map_some, Option.some.injEq] at hk
      obtain ⟨f, r, rfl, rfl⟩ := toDconst_fn_inv hk
      obtain ⟨is, hf⟩ := h.fns (k + 1) f (fn_succ hc)
      exact ⟨is, hf.dec, by rw [toDedup_length]; exact hf.refs⟩

/-- **The model does not panic** on a fit program, and its index map is defined on every old index. -/
theorem dedup_total {ptr : Nat → Nat} {code : Code} (h : DedupPre ptr code) :
    ∃ bc' m, dedup (toDedup ptr code) = .ok (bc', m) ∧ m.length = code.consts.size := by
  obtain ⟨bc', m, h1, h2⟩ := dedup_index_map_total _ (toDedup_wf h)
  exact ⟨bc', m, h1, by rw [h2, toDedup_length]⟩

theorem cmOf_get {m : List Nat} {k j : Nat} (n' : Nat) (h : m[k]? = some j) : cmOf m n' k = j := by
  simp [cmOf, h]

section whole
variable {ptr : Nat → Nat} {code : Code} {bc' : Dedup.Bytecode} {m : List Nat}

theorem dedup_facts (hpre : DedupPre ptr code) (hd : dedup (toDedup ptr code) = .ok (bc', m)) :
    m.length = code.consts.size ∧ (∀ j ∈ m, j < 65536) ∧
      updateConstIndexes m code.main.insts.toList = .ok bc'.main := by
  obtain ⟨hm, hmain, _, _⟩ := dedup_unfold hd
  have hI := inv_scan (toDedup ptr code).consts
  have hs := scan_small (toDedup_wf hpre)
  rw [← hm] at hs
  refine ⟨?_, hs, hmain⟩
  rw [hm, hI.len, toDedup_length]

/-- Rewriting keeps the length. -/
theorem update_len (hpre : DedupPre ptr code) (hd : dedup (toDedup ptr code) = .ok (bc', m)) {idx : Nat} {f : Fn}
    (hf : code.fn idx = some f) {bs' : Model.Bytes} (hu : updateConstIndexes m f.insts.toList = .ok bs') :
    bs'.length = f.insts.size := by
  obtain ⟨hlen, hs, _⟩ := dedup_facts hpre hd
  obtain ⟨is, hfp⟩ := hpre.fns idx f hf
  obtain ⟨bs2, hu2, hl, _⟩ := update_ok_len m 0 hs _ is hfp.dec (by rw [hlen]; exact hfp.refs)
  rw [hu] at hu2
  cases hu2
  simpa using hl

/-- One function of a fit program against its rewritten form. -/
theorem fn_renum_code (hpre : DedupPre ptr code) (hd : dedup (toDedup ptr code) = .ok (bc', m)) {idx : Nat} {f : Fn}
    (hf : code.fn idx = some f) {bs' : Model.Bytes} (hu : updateConstIndexes m f.insts.toList = .ok bs') :
    checkFnRenum code (renumCode code bc' m) (cmOf m (renumCode code bc' m).consts.size) f
      { f with insts := bs'.toArray } (codeStarts code idx) = true := by
  obtain ⟨hlen, hs, _⟩ := dedup_facts hpre hd
  obtain ⟨is, hfp⟩ := hpre.fns idx f hf
  have hst : codeStarts code idx = is.map (·.pos) := by simp [codeStarts, hf, instrStarts, hfp.dec]
  rw [hst]
  have hhead : ∀ i ∈ is, isConstRef i.op = true → i.args.headD 0 < code.consts.size := by
    intro i hi hc
    obtain ⟨cur, h1, h2⟩ := hfp.refs i hi hc
    cases ha : i.args with
    | nil => rw [ha] at h1; cases h1
    | cons a more => rw [ha] at h1; simp at h1; subst h1; simpa using h2
  apply fn_renum code _ m _ f bs' is hfp.dec hfp.ne (by rw [hlen]; exact hfp.refs) hs hu hfp.jumps hfp.fall
  · intro i hi ho
    have hlt := hhead i hi (by simp [isConstRef, ho])
    have hc : code.consts[i.args.headD 0]? = some (code.consts[i.args.headD 0]'hlt) := by simp
    cases hcc : code.consts[i.args.headD 0]'hlt with
    | val v =>
      rw [hcc] at hc
      obtain ⟨j, v0, h1, _, h3, _⟩ := pool_val hd hpre.ptr hc
      rw [cmOf_get _ h1, hc, h3]; rfl
    | fn g r =>
      rw [hcc] at hc
      obtain ⟨j, bs2, h1, _, _, h4⟩ := pool_fn hd hpre.ptr hc
      rw [cmOf_get _ h1, hc, h4]; simp [constRefOkB]
  · intro i hi ho
    obtain ⟨g, r, hc⟩ := hfp.clos i hi ho
    obtain ⟨j, bs2, h1, _, _, h4⟩ := pool_fn hd hpre.ptr hc
    rw [cmOf_get _ h1, hc, h4]; rfl

/-- **dedup_code_renum.** For every fit program, the program that the `Dedup` model's output stands for
passes the renumbering check against the original, with the model's index map as the table and the
decoded instruction positions as the starts. -/
theorem dedup_code_renum (hpre : DedupPre ptr code) (hd : dedup (toDedup ptr code) = .ok (bc', m)) :
    checkRenum code (renumCode code bc' m) m (codeStarts code) = true := by
  obtain ⟨hlen, hs, hmain⟩ := dedup_facts hpre hd
  unfold checkRenum
  simp only [Bool.and_eq_true, List.all_eq_true, beq_iff_eq, List.mem_range]
  refine ⟨⟨⟨hlen, ?_⟩, ?_⟩, ?_⟩
  · have := update_len hpre hd (idx := 0) (by simp [Code.fn]) hmain
    simp [fnShapeB, renumCode, this]
  · intro k hk
    have hc : code.consts[k]? = some (code.consts[k]'hk) := by simp
    cases hcc : code.consts[k]'hk with
    | val v =>
      rw [hcc] at hc
      obtain ⟨j, v0, h1, _, h3, _⟩ := pool_val hd hpre.ptr hc
      rw [cmOf_get _ h1, hc, h3]; rfl
    | fn g r =>
      rw [hcc] at hc
      obtain ⟨j, bs2, h1, _, h3, h4⟩ := pool_fn hd hpre.ptr hc
      have := update_len hpre hd (fn_succ hc) h3
      rw [cmOf_get _ h1, hc, h4]
      simp [constShapeB, fnShapeB, this]
  · intro idx hidx
    cases hf : code.fn idx with
    | none => trivial
    | some f =>
      cases idx with
      | zero =>
        have hfm : f = code.main := by
          have : code.fn 0 = some code.main := by simp [Code.fn]
          rw [this] at hf; exact (Option.some.inj hf).symm
        subst hfm
        have h' : (renumCode code bc' m).fn (fim (cmOf m (renumCode code bc' m).consts.size) 0) =
            some { code.main with insts := bc'.main.toArray } := by simp [fim, Code.fn, renumCode]
        rw [h']
        exact fn_renum_code hpre hd hf hmain
      | succ k =>
        obtain ⟨r, hc⟩ := fn_succ_inv hf
        obtain ⟨j, bs2, h1, _, h3, h4⟩ := pool_fn hd hpre.ptr hc
        have h' : (renumCode code bc' m).fn (fim (cmOf m (renumCode code bc' m).consts.size) (k + 1)) =
            some { f with insts := bs2.toArray } := by
          simp only [fim, Nat.add_one_ne_zero, if_false, Nat.add_sub_cancel, cmOf_get _ h1]
          exact fn_succ h4
        rw [h']
        exact fn_renum_code hpre hd hf h3

/-- **dedup_code_vals.** The value constants agree, when float constants that Go's `==` identifies are the
same float. -/
theorem dedup_code_vals (hp : PtrOK ptr code) (hfl : FloatsOK code) (hd : dedup (toDedup ptr code) = .ok (bc', m)) :
    ValsAgree code (renumCode code bc' m) (cmOf m (renumCode code bc' m).consts.size) := by
  intro k v v' h1 h2
  obtain ⟨j, v0, h3, _, h4, h5⟩ := pool_val hd hp h1
  rw [cmOf_get _ h3, h4] at h2
  cases h2
  exact h5 hfl

/-- **dedup_code_renumbers.** The de-duplicated program is the renumbering of the original. -/
theorem dedup_code_renumbers (hpre : DedupPre ptr code) (hfl : FloatsOK code)
    (hd : dedup (toDedup ptr code) = .ok (bc', m)) :
    Renum code (renumCode code bc' m) (cmOf m (renumCode code bc' m).consts.size) (codeStarts code) :=
  checkRenum_sound _ _ _ _ (dedup_code_renum hpre hd) (dedup_code_vals hpre.ptr hfl hd)

/-- The same without any hypothesis on floats: the original *with every value constant `k` read from the
de-duplicated pool at its new index* (`expandVals`: constant `k` is replaced by the constant at the first
index with the same kind and an equal key) is the renumbering. -/
theorem dedup_code_renumbers_expand (hpre : DedupPre ptr code) (hd : dedup (toDedup ptr code) = .ok (bc', m)) :
    Renum (expandVals code (renumCode code bc' m) m) (renumCode code bc' m)
      (cmOf m (renumCode code bc' m).consts.size) (codeStarts code) :=
  checkRenum_sound_expand _ _ _ _ (dedup_code_renum hpre hd)

end whole

/-! ## 5. Decidable forms of the hypotheses -/

theorem fnEqB_sound {f g : Fn} (h : fnEqB f g = true) : f = g := by
  unfold fnEqB at h
  simp only [Bool.and_eq_true, beq_iff_eq] at h
  obtain ⟨⟨⟨h1, h2⟩, h3⟩, h4⟩ := h
  cases f; cases g
  simp only at h1 h2 h3 h4
  have := Array.toList_inj.mp h1
  subst this; subst h2; subst h3; subst h4
  rfl

theorem fnPreB_sound {code : Code} {f : Fn} (h : fnPreB code f = true) : ∃ is, FnPre code f is := by
  unfold fnPreB at h
  cases hd : decode f.insts.toList with
  | none => rw [hd] at h; cases h
  | some is =>
    rw [hd] at h
    simp only [Bool.and_eq_true, List.all_eq_true] at h
    obtain ⟨hne, hall⟩ := h
    refine ⟨is, hd, ?_, ?_, ?_, ?_, ?_⟩
    · intro he; rw [he] at hne; simp at hne
    · intro i hi hc
      have := (hall i hi).1.1.1
      rw [hc] at this
      simp only [Bool.not_true, Bool.false_or] at this
      cases hh : i.args.head? with
      | none => rw [hh] at this; cases this
      | some c => rw [hh] at this; exact ⟨c, rfl, by simpa using this⟩
    · intro i hi ho
      have := (hall i hi).1.1.2
      have hb : (i.op != opClosure) = false := by simp [ho]
      rw [hb, Bool.false_or] at this
      cases hc : code.consts[i.args.headD 0]? with
      | none => rw [hc] at this; cases this
      | some c =>
        cases c with
        | val v => rw [hc] at this; cases this
        | fn g r => exact ⟨g, r, rfl⟩
    · intro i hi hj
      have := (hall i hi).1.2
      rw [hj] at this
      simp only [Bool.not_true, Bool.false_or] at this
      cases hh : i.args.head? with
      | none => rw [hh] at this; cases this
      | some t =>
        rw [hh] at this
        simp only [List.any_eq_true, beq_iff_eq] at this
        obtain ⟨j, hjm, hjp⟩ := this
        exact ⟨j, hjm, by rw [hjp]⟩
    · intro i hi hcf
      have := (hall i hi).2
      rw [hcf] at this
      simp only [Bool.not_true, Bool.false_or, bne_iff_ne, ne_eq] at this
      obtain ⟨ws, hws, _, _, _, hnext⟩ := decode_mem _ _ hd i hi
      have hsz := size_eq i ws hws
      rcases hnext with he | ⟨j, hjm, hjp⟩
      · exfalso
        apply this
        rw [hsz]
        have : f.insts.toList.length = f.insts.size := by simp
        omega
      · exact ⟨j, hjm, by rw [hjp, hsz]; omega⟩

theorem ptrOKB_sound {ptr : Nat → Nat} {code : Code} (h : ptrOKB ptr code = true) : PtrOK ptr code := by
  intro k1 k2 f1 r1 f2 r2 h1 h2 hp
  unfold ptrOKB at h
  simp only [List.all_eq_true, List.mem_range] at h
  have hk1 := (Array.getElem?_eq_some_iff.mp h1).1
  have hk2 := (Array.getElem?_eq_some_iff.mp h2).1
  have := h k1 hk1 k2 hk2
  rw [h1, h2] at this
  by_cases he : k1 = k2
  · subst he
    rw [h1] at h2
    cases h2
    exact ⟨rfl, rfl⟩
  · have hb : (k1 == k2) = false := by simp [he]
    have hb2 : (ptr k1 != ptr k2) = false := by simp [hp]
    rw [hb, hb2] at this
    simp only [Bool.false_or, Bool.and_eq_true, beq_iff_eq] at this
    exact ⟨fnEqB_sound this.1, this.2⟩

/-- **checkDedupPre_sound.** The decidable precondition implies the hypothesis of the theorems. -/
theorem checkDedupPre_sound {ptr : Nat → Nat} {code : Code} (h : checkDedupPre ptr code = true) :
    DedupPre ptr code := by
  unfold checkDedupPre at h
  simp only [Bool.and_eq_true, decide_eq_true_eq, List.all_eq_true, List.mem_range] at h
  obtain ⟨⟨h1, h2⟩, h3⟩ := h
  refine ⟨h1, ?_, ptrOKB_sound h3⟩
  intro idx f hf
  have := h2 idx (fn_some_lt hf)
  rw [hf] at this
  exact fnPreB_sound this

/-- No two float constants at different indexes that Go's `==` identifies: `FloatsOK` holds (vacuously —
the model merges no float constants). -/
theorem floatsDistinctB_sound {code : Code} (h : floatsDistinctB code = true) : FloatsOK code := by
  intro k1 k2 x y h1 h2 he
  unfold floatsDistinctB at h
  simp only [List.all_eq_true, List.mem_range] at h
  have hk1 := (Array.getElem?_eq_some_iff.mp h1).1
  have hk2 := (Array.getElem?_eq_some_iff.mp h2).1
  have := h k1 hk1 k2 hk2
  rw [h1, h2] at this
  by_cases hk : k1 = k2
  · subst hk
    rw [h1] at h2
    cases h2
    rfl
  · have hb : (k1 == k2) = false := by simp [hk]
    simp [he] at this
    exact absurd this hk

/-! ### is a given program the model's output? -/

/-- Value constants on both sides, or the same function (whatever its `ref`). -/
def SameConst : Option Const → Option Const → Prop
  | some (.val _), some (.val _) => True
  | some (.fn f _), some (.fn g _) => f = g
  | none, none => True
  | _, _ => False

/-- `c'` is `c` up to the value constants and the `ref`s of the function constants. -/
structure SameUpToVals (c c' : Code) : Prop where
  main : c.main = c'.main
  size : c.consts.size = c'.consts.size
  consts : ∀ j : Nat, SameConst (c.consts[j]?) (c'.consts[j]?)

theorem SameUpToVals.fn_eq {c c' : Code} (h : SameUpToVals c c') (idx : Nat) : c.fn idx = c'.fn idx := by
  unfold Code.fn
  by_cases h0 : idx = 0
  · subst h0; simp [h.main]
  · have hb : (idx == 0) = false := by simp [h0]
    simp only [hb]
    have := h.consts (idx - 1)
    cases h1 : c.consts[idx - 1]? with
    | none =>
      rw [h1] at this
      cases h2 : c'.consts[idx - 1]? with
      | none => rfl
      | some x => rw [h2] at this; exact this.elim
    | some x =>
      rw [h1] at this
      cases h2 : c'.consts[idx - 1]? with
      | none => rw [h2] at this; cases x <;> exact this.elim
      | some y =>
        rw [h2] at this
        cases x with
        | val v =>
          cases y with
          | val w => rfl
          | fn g r => exact this.elim
        | fn f r =>
          cases y with
          | val w => exact this.elim
          | fn g r' =>
            have : f = g := this
            subst this; rfl

theorem sameUpToValsB_sound {c c' : Code} (h : sameUpToValsB c c' = true) : SameUpToVals c c' := by
  unfold sameUpToValsB at h
  simp only [Bool.and_eq_true, beq_iff_eq, List.all_eq_true, List.mem_range] at h
  obtain ⟨⟨h1, h2⟩, h3⟩ := h
  refine ⟨fnEqB_sound h1, h2, ?_⟩
  intro j
  by_cases hj : j < c.consts.size
  · have := h3 j hj
    cases ha : c.consts[j]? with
    | none => rw [ha] at this; cases hb : c'.consts[j]? <;> rw [hb] at this <;> cases this
    | some x =>
      rw [ha] at this
      cases hb : c'.consts[j]? with
      | none => rw [hb] at this; cases x <;> cases this
      | some y =>
        rw [hb] at this
        cases x with
        | val v =>
          cases y with
          | val w => trivial
          | fn g r => cases this
        | fn f r =>
          cases y with
          | val w => cases this
          | fn g r' => exact fnEqB_sound this
  · have ha : c.consts[j]? = none := by simp; omega
    have hb : c'.consts[j]? = none := by simp; omega
    rw [ha, hb]
    trivial

theorem dedupCode_some {ptr : Nat → Nat} {code c : Code} {m : List Nat} (h : dedupCode ptr code = some (c, m)) :
    ∃ bc', dedup (toDedup ptr code) = .ok (bc', m) ∧ c = renumCode code bc' m := by
  unfold dedupCode at h
  cases hd : dedup (toDedup ptr code) with
  | error e => rw [hd] at h; cases h
  | ok p =>
    obtain ⟨bc', m'⟩ := p
    rw [hd] at h
    simp only [Option.some.injEq, Prod.mk.injEq] at h
    obtain ⟨h1, h2⟩ := h
    subst h2
    exact ⟨bc', rfl, h1.symm⟩

/-- **outputIsModel_sound.** A program the driver has classified as the model's output: the model returns a
program `c` with the index map `tab`, and `code'` is `c` up to value constants and `ref`s. -/
theorem outputIsModel_sound {ptr : Nat → Nat} {code code' : Code} {tab : List Nat}
    (h : outputIsModel ptr code code' tab = true) :
    ∃ c, dedupCode ptr code = some (c, tab) ∧ SameUpToVals c code' := by
  unfold outputIsModel at h
  cases hd : dedupCode ptr code with
  | none => rw [hd] at h; cases h
  | some p =>
    obtain ⟨c, m⟩ := p
    rw [hd] at h
    simp only [Bool.and_eq_true, beq_iff_eq] at h
    obtain ⟨h1, h2⟩ := h
    subst h1
    exact ⟨c, rfl, sameUpToValsB_sound h2⟩

/-- **covered_renum.** A program pair the driver has classified is covered by the universal theorem: the
original meets the precondition, the real output is the model's (up to value constants as written and
`ref`s), and the model's output passes the renumbering check — by proof, not by evaluation. -/
theorem covered_renum {ptr : Nat → Nat} {code code' : Code} {tab : List Nat}
    (h1 : checkDedupPre ptr code = true) (h2 : outputIsModel ptr code code' tab = true) :
    ∃ c, dedupCode ptr code = some (c, tab) ∧ SameUpToVals c code' ∧
      checkRenum code c tab (codeStarts code) = true := by
  obtain ⟨c, hc, hs⟩ := outputIsModel_sound h2
  obtain ⟨bc', hd, rfl⟩ := dedupCode_some hc
  exact ⟨_, hc, hs, dedup_code_renum (checkDedupPre_sound h1) hd⟩

end Tengo.Proofs.C12Renum

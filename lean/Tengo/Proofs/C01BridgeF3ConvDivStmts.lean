import Tengo.Proofs.C01BridgeF3ConvDivBase
/-!
Fragment F3, DIVERGENCE: the simple statements and the statement lists (counterparts of `okS_expr` … `okSs_cons`
of F3Stmts.lean).
-/
set_option linter.unusedSimpArgs false
set_option linter.unusedVariables false
namespace Tengo.Model.F3
open Tengo.Model.F0 (Sem upd)
variable {V : Type} {E : Env V} {P : Prog} {K : Nat}

/-! ### a phrase whose code starts with `RET 0` returns as soon as the fuel covers its nesting height -/

mutual
  theorem execS_startsRet_fuel : ∀ (s : Stm), startsRetS s = true → ∀ (f : Nat) (g : Nat → V) (l : Locals V),
      hS s ≤ f → execS E P f s g l = .ret E.S.undef g
    | .ret0, _, 0, g, l, hf => by simp only [hS] at hf; omega
    | .ret0, _, f + 1, g, l, _ => by simp only [execS]
    | .forever body, h, 0, g, l, hf => by simp only [hS] at hf; omega
    | .forever body, h, f + 1, g, l, hf => by
      have hb : startsRetSs body = true := by simpa [startsRetS] using h
      simp only [hS] at hf
      have h1 := execSs_startsRet_fuel body hb f g l (by omega)
      simp only [execS, h1]
    | .expr _, h, _, _, _, _ | .assign _ _, h, _, _, _, _ | .defl _ _, h, _, _, _, _ | .setl _ _, h, _, _, _, _
    | .ifs _ _, h, _, _, _, _ | .ifelse _ _ _, h, _, _, _, _ | .whil _ _, h, _, _, _, _
    | .for3 _ _ _, h, _, _, _, _
    | .brk, h, _, _, _, _ | .cont, h, _, _, _, _ | .ret _, h, _, _, _, _ => by simp [startsRetS] at h
  theorem execSs_startsRet_fuel : ∀ (ss : Stms), startsRetSs ss = true → ∀ (f : Nat) (g : Nat → V) (l : Locals V),
      hSs ss ≤ f → execSs E P f ss g l = .ret E.S.undef g
    | .nil, h, _, _, _, _ => by simp [startsRetSs] at h
    | .cons s ss, h, 0, g, l, hf => by simp only [hSs] at hf; omega
    | .cons s ss, h, f + 1, g, l, hf => by
      have hb : startsRetS s = true := by simpa [startsRetSs] using h
      simp only [hSs] at hf
      have h1 := execS_startsRet_fuel s hb f g l (by omega)
      simp only [execSs, h1]
end

/-- A statement list whose code starts where a `RET` is does not run out of fuel above its nesting height. -/
theorem execSs_at_ret_fuel {code : List Ins} {p bt ct : Nat} {ss : Stms} (hat : At code p (compSs bt ct p ss))
    (hr : retNext code p = true) (f : Nat) (g : Nat → V) (l : Locals V) (hf : hSs ss ≤ f) :
    execSs E P f ss g l ≠ .out := by
  rcases compSs_head ss bt ct p with hn | ⟨i, rest, h, hs⟩
  · subst hn
    cases f with
    | zero => simp only [hSs] at hf; omega
    | succ f => simp [execSs]
  · rw [h] at hat
    rw [execSs_startsRet_fuel ss (hs (ret_of_retNext hat.fetch hr)) f g l hf]
    simp

/-! ### statements made of one expression and one instruction -/

/-- The common part: the expression's code starts where the statement's code starts. -/
theorem divS_of_expr {f : Nat} {e : Ex} (ih : AllDiv E P K f) {I : Ins}
    {g : Nat → V} {l : Locals V} {fn : Nat} {code : List Ins} {nl off bp sp : Nat} {stk : Nat → V} {dis : Bool}
    {cl : List Frame} (hc : (compProg P).code fn = some code) (hnt : FrameOk P fn nl)
    (hat : At code off (comp off e ++ [I])) (hl : LocRel nl l stk bp) (hsp : bp + nl ≤ sp)
    (h : evalE E P f e g l = .out) (j : Nat) (hj : j * K + hE e ≤ f) :
    Alive E (compProg P) j ⟨fn, off, bp, sp, stk, g, dis, cl⟩ :=
  ih.e e g l fn code nl off bp sp stk dis cl hc hnt hat.left hl hsp h j hj

theorem divS_expr (f : Nat) (e : Ex) (ih : AllDiv E P K f) : DivS E P K (f + 1) (.expr e) := by
  intro g l fn code nl bt ct off bp sp stk dis cl hc hnt hat hsl hl hsp h j hj
  have hA : At code off (comp off e ++ [Ins.pop]) := by simpa [compS] using hat
  simp only [hS] at hj
  simp only [execS] at h
  cases ha : evalE E P f e g l with
  | val v g1 => rw [ha] at h; cases h
  | err => rw [ha] at h; cases h
  | bad => rw [ha] at h; cases h
  | out => exact divS_of_expr ih hc hnt hA hl hsp ha j (by omega)

theorem divS_assign (f i : Nat) (e : Ex) (ih : AllDiv E P K f) : DivS E P K (f + 1) (.assign i e) := by
  intro g l fn code nl bt ct off bp sp stk dis cl hc hnt hat hsl hl hsp h j hj
  have hA : At code off (comp off e ++ [Ins.setg i]) := by simpa [compS] using hat
  simp only [hS] at hj
  simp only [execS] at h
  cases ha : evalE E P f e g l with
  | val v g1 => rw [ha] at h; cases h
  | err => rw [ha] at h; cases h
  | bad => rw [ha] at h; cases h
  | out => exact divS_of_expr ih hc hnt hA hl hsp ha j (by omega)

theorem divS_defl (f i : Nat) (e : Ex) (ih : AllDiv E P K f) : DivS E P K (f + 1) (.defl i e) := by
  intro g l fn code nl bt ct off bp sp stk dis cl hc hnt hat hsl hl hsp h j hj
  have hA : At code off (comp off e ++ [Ins.defl i]) := by simpa [compS] using hat
  simp only [hS] at hj
  simp only [execS] at h
  cases ha : evalE E P f e g l with
  | val v g1 => rw [ha] at h; cases h
  | err => rw [ha] at h; cases h
  | bad => rw [ha] at h; cases h
  | out => exact divS_of_expr ih hc hnt hA hl hsp ha j (by omega)

theorem divS_setl (f i : Nat) (e : Ex) (ih : AllDiv E P K f) : DivS E P K (f + 1) (.setl i e) := by
  intro g l fn code nl bt ct off bp sp stk dis cl hc hnt hat hsl hl hsp h j hj
  have hA : At code off (comp off e ++ [Ins.setl i]) := by simpa [compS] using hat
  simp only [hS] at hj
  simp only [execS] at h
  cases ha : evalE E P f e g l with
  | val v g1 => rw [ha] at h; cases h
  | err => rw [ha] at h; cases h
  | bad => rw [ha] at h; cases h
  | out => exact divS_of_expr ih hc hnt hA hl hsp ha j (by omega)

theorem divS_ret (f : Nat) (e : Ex) (ih : AllDiv E P K f) : DivS E P K (f + 1) (.ret e) := by
  intro g l fn code nl bt ct off bp sp stk dis cl hc hnt hat hsl hl hsp h j hj
  have hA : At code off (comp off e ++ [Ins.ret true]) := by simpa [compS] using hat
  simp only [hS] at hj
  simp only [execS] at h
  cases ha : evalE E P f e g l with
  | val v g1 => rw [ha] at h; cases h
  | err => rw [ha] at h; cases h
  | bad => rw [ha] at h; cases h
  | out => exact divS_of_expr ih hc hnt hA hl hsp ha j (by omega)

/-! ### statements that never run out of fuel at `f + 1` -/

theorem divS_ret0 (f : Nat) : DivS E P K (f + 1) .ret0 := by
  intro g l fn code nl bt ct off bp sp stk dis cl hc hnt hat hsl hl hsp h j hj
  simp [execS] at h

theorem divS_brk (f : Nat) : DivS E P K (f + 1) .brk := by
  intro g l fn code nl bt ct off bp sp stk dis cl hc hnt hat hsl hl hsp h j hj
  simp [execS] at h

theorem divS_cont (f : Nat) : DivS E P K (f + 1) .cont := by
  intro g l fn code nl bt ct off bp sp stk dis cl hc hnt hat hsl hl hsp h j hj
  simp [execS] at h

/-! ### statement lists -/

theorem divSs_nil (f : Nat) : DivSs E P K (f + 1) .nil := by
  intro g l fn code nl bt ct off bp sp stk dis cl hc hnt hat hsl hl hsp h j hj
  simp [execSs] at h

theorem divSs_cons (f : Nat) (s : Stm) (ss : Stms) (ok : AllOk E P f) (ih : AllDiv E P K f) :
    DivSs E P K (f + 1) (.cons s ss) := by
  intro g l fn code nl bt ct off bp sp stk dis cl hc hnt hat hsl hl hsp h j hj
  have hA : At code off (compS bt ct off s ++ compSs bt ct (off + ssize s) ss) := by
    simpa [compSs] using hat
  simp only [slotsSs, Bool.and_eq_true] at hsl
  simp only [hSs] at hj
  simp only [execSs] at h
  cases hes : execS E P f s g l with
  | out =>
    exact ih.s s g l fn code nl bt ct off bp sp stk dis cl hc hnt hA.left hsl.1 hl hsp hes j (by omega)
  | done g1 l1 =>
    rw [hes] at h
    dsimp only at h
    have h1 := ok.s s g l fn code nl bt ct off bp sp stk dis cl hc hnt hA.left hsl.1 hl hsp
    rw [hes] at h1
    have hB : At code (off + ssize s) (compSs bt ct (off + ssize s) ss) := hA.right (by rw [csize_compS])
    rcases h1 with ⟨stk1, hr, hl1, hsm⟩ | ⟨hrn, hret⟩
    · dsimp only at hr hl1 hsm
      have h2 := ih.ss ss g1 l1 fn code nl bt ct (off + ssize s) bp sp stk1 dis cl hc hnt hB hsl.2 hl1 hsp h j
        (by omega)
      exact Alive.of_runs hr h2
    · exact absurd h (execSs_at_ret_fuel (E := E) (P := P) hB hrn f g1 l1 (by omega))
  | brk g1 l1 => rw [hes] at h; cases h
  | cont g1 l1 => rw [hes] at h; cases h
  | ret v g1 => rw [hes] at h; cases h
  | err => rw [hes] at h; cases h
  | bad => rw [hes] at h; cases h

end Tengo.Model.F3

import Tengo.Proofs.C11PlaceParRun
import Tengo.Proofs.C11PlaceWf
/-!
C11, PLACEMENT global ↦ PARAMETER on fragment F3: the program `progP` (variables as parameters) meets the side
conditions (`SrcOk`) of the compiler bridge when the original `progG` does; its literal count and traversal budget.
-/
set_option linter.unusedVariables false
set_option linter.unusedSimpArgs false
namespace Tengo.Proofs.C11Place
open Tengo.Model Tengo.Model.F3
open Tengo.Proofs.C01BridgeF3Comp Tengo.Proofs.C01F3Opt

/-! ### the argument list -/

theorem len_argsFrom : ∀ c j : Nat, (argsFrom j c).len = c
  | 0, _ => rfl
  | c + 1, j => by simp only [argsFrom, Exs.len, len_argsFrom c (j + 1)]

theorem nlitsEs_args : ∀ c j : Nat, nlitsEs3 (argsFrom j c) = 0
  | 0, _ => rfl
  | c + 1, j => by simp only [argsFrom, nlitsEs3, nlitsE3, nlitsEs_args c (j + 1)]

theorem budEs_args : ∀ c j : Nat, budEs3 (argsFrom j c) ≤ c + 1
  | 0, _ => by simp only [argsFrom, budEs3]; omega
  | c + 1, j => by
    have := budEs_args c (j + 1)
    simp only [argsFrom, budEs3, budE3]; omega

theorem essize_args : ∀ c j : Nat, essize (argsFrom j c) = 3 * c
  | 0, _ => rfl
  | c + 1, j => by simp only [argsFrom, essize, esize, essize_args c (j + 1)]; omega

theorem wfEs_args (isFn : Nat → Bool) (N m k : Nat) : ∀ c j : Nat, j + c ≤ N →
    wfEs3 isFn N m k (argsFrom j c) = true
  | 0, _, _ => by simp only [argsFrom, wfEs3]
  | c + 1, j, h => by
    have := wfEs_args isFn N m k c (j + 1) (by omega)
    simp only [argsFrom, wfEs3, wfE3, nlitsE3, Nat.add_zero, this, Bool.and_true, decide_eq_true_eq]
    omega

/-! ### literal count, budget, size, definitions of the function body -/

theorem nlitsSs_parBody (n : Nat) (body : Stms) : nlitsSs3 (parBody n body) = nlitsSs3 body := by
  simp only [parBody, nlitsSs_app, nlitsSs_epi, nlitsSs_ren, Nat.add_zero]

theorem budSs_parBody (n : Nat) (body : Stms) : budSs3 (parBody n body) ≤ budSs3 body + n + 3 := by
  have h2 := budSs_app (renSs body) (epiFrom 0 n)
  have h4 := budSs_epi n 0
  rw [budSs_ren] at h2
  simp only [parBody]; omega

theorem sssize_parBody (n : Nat) (body : Stms) : sssize (parBody n body) ≤ sssize body + 5 * n := by
  have := sssize_ren body
  simp only [parBody, sssize_app, sssize_epi]; omega

theorem ndefs_parBody {n : Nat} {body : Stms} (hc : g2Ss n body = true) : ndefs (parBody n body) = 0 := by
  simp only [parBody, ndefs_app, ndefs_epi, ndefs_ren n body hc, Nat.add_zero]

theorem wfBody_parBody {isFn isFn' : Nat → Bool} {n : Nat} {body : Stms} (hc : g2Ss n body = true)
    (hw : wfSs3 isFn n 0 false false 0 body = true) (hK : ∀ j, j < nlitsSs3 body → isFn' j = false) :
    wfBody isFn' (n + 1) n 0 (parBody n body) = true := by
  have h1 := wfSs_ren (isFn := isFn) hK body false 0 hc hw (by omega)
  have h2 := wfSs_epi isFn' n (0 + nlitsSs3 (renSs body)) n 0 (by omega)
  rw [parBody, wfBody_app isFn' (n + 1) n _ _ 0 h1]
  have h3 := wfBody_app isFn' (n + 1) n .nil (epiFrom 0 n) (0 + nlitsSs3 (renSs body)) h2
  rw [app_nil] at h3
  rw [h3]; simp only [wfBody]

/-! ### the main program -/

theorem topFn_progP_first (n L : Nat) (body : Stms) :
    topFn (progP n L body) (.assign n (.lit L)) = some (n, L, parDef n body) := by
  simp only [topFn, progP, if_pos, Option.map]

theorem topFn_progP_second (n L : Nat) (body : Stms) :
    topFn (progP n L body) (.expr (.call (.glob n) (argsFrom 0 n))) = none := rfl

theorem nlitsMain_progP (n : Nat) (body : Stms) :
    nlitsMain (progP n (nlitsSs3 body) body) (progP n (nlitsSs3 body) body).main = nlitsSs3 body + 1 := by
  show nlitsMain (progP n (nlitsSs3 body) body)
    (.cons (.assign n (.lit (nlitsSs3 body))) (.cons (.expr (.call (.glob n) (argsFrom 0 n))) .nil)) = _
  simp only [nlitsMain, nlitsTop, topFn_progP_first, topFn_progP_second, parDef, nlitsSs_parBody, nlitsS3, nlitsE3,
    nlitsEs_args, Nat.add_zero]

/-- the traversal budget of the program with the variables as parameters (the same bound as for `progL`) -/
theorem budMain_progP (n : Nat) (body : Stms) :
    budMain (progP n (nlitsSs3 body) body) (progP n (nlitsSs3 body) body).main ≤ budSs3 body + 2 * n + 12 := by
  show budMain (progP n (nlitsSs3 body) body)
    (.cons (.assign n (.lit (nlitsSs3 body))) (.cons (.expr (.call (.glob n) (argsFrom 0 n))) .nil)) ≤ _
  have h := budSs_parBody n body
  have hp := budSs_pos body
  have ha := budEs_args n 0
  simp only [budMain, budTop, topFn_progP_first, topFn_progP_second, parDef, budS3, budE3]
  omega

/-! ### the side conditions -/

/-- SrcOk of the program with the variables as parameters from SrcOk of the original. -/
theorem srcOk_progP {n : Nat} {body : Stms} (hs : SrcOk (progG body) n) (hc : g2Ss n body = true) (hn : n ≤ 255)
    (hsz : F3.sssize body + 10 * n < 4294967296) (hp : nlitsSs3 body < 65536) :
    SrcOk (progP n (nlitsSs3 body) body) (n + 1) := by
  have hw : wfSs3 (isFnOf (progG body)) n 0 false false 0 body = true := by
    have := hs.wf
    rwa [wfProg, wfMain_progG] at this
  have hK : ∀ j, j < nlitsSs3 body → isFnOf (progP n (nlitsSs3 body) body) j = false := by
    intro j hj
    have : ¬ j = nlitsSs3 body := by omega
    simp only [isFnOf, progP, if_neg this, Option.isSome_none]
  have hmain : (progP n (nlitsSs3 body) body).main =
      .cons (.assign n (.lit (nlitsSs3 body))) (.cons (.expr (.call (.glob n) (argsFrom 0 n))) .nil) := rfl
  refine ⟨?_, ?_, ?_, by omega, ?_, ?_⟩
  · have hb := wfBody_parBody (isFn' := isFnOf (progP n (nlitsSs3 body) body)) hc hw hK
    rw [wfProg, hmain]
    simp only [wfMain, topFn_progP_first, topFn_progP_second, wfFn, parDef, ndefs_parBody hc, hb, nlitsSs_parBody,
      nlitsTop, nlitsS3, nlitsE3, wfS3, wfE3, len_argsFrom, Nat.zero_add, Nat.add_zero, beq_self_eq_true,
      Bool.and_true, Bool.true_and, Bool.and_eq_true, decide_eq_true_eq]
    exact ⟨⟨by omega, by omega⟩, ⟨hn, by omega⟩, wfEs_args _ (n + 1) 0 _ n 0 (by omega)⟩
  · intro k fd hf
    refine ⟨n, ?_⟩
    have hk : k = nlitsSs3 body := by
      by_cases h : k = nlitsSs3 body
      · exact h
      · simp only [progP, if_neg h] at hf; cases hf
    subst hk
    rw [hmain]; exact Or.inl rfl
  · rw [nlitsMain_progP]; omega
  · rw [hmain]; simp only [sssize, ssize, esize, essize_args]; omega
  · intro k fd hf
    have hk : k = nlitsSs3 body := by
      by_cases h : k = nlitsSs3 body
      · exact h
      · simp only [progP, if_neg h] at hf; cases hf
    subst hk
    simp only [progP, if_pos, Option.some.injEq] at hf
    subst hf
    have := sssize_parBody n body
    simp only [parDef]; omega

/-- Non-vacuity: `x_0 = x_0 + 1` (one variable) meets every hypothesis of `srcOk_progP`. -/
example : let body : Stms := .cons (.assign 0 (.bin 11 (.glob 0) (.lit 0))) .nil
    SrcOk (progG body) 1 ∧ g2Ss 1 body = true ∧ 1 ≤ 255 ∧ F3.sssize body + 10 * 1 < 4294967296 ∧
      nlitsSs3 body < 65536 ∧ SrcOk (progP 1 (nlitsSs3 body) body) 2 := by
  intro body
  have hs : SrcOk (progG body) 1 :=
    ⟨by decide, fun k fd hf => by simp [progG] at hf, by decide, by decide, by decide,
      fun k fd hf => by simp [progG] at hf⟩
  exact ⟨hs, by decide, by decide, by decide, by decide, srcOk_progP hs (by decide) (by decide) (by decide) (by decide)⟩

end Tengo.Proofs.C11Place

import Tengo.Proofs.C19EnumLoop
/-!
C19, enum module, layer 4: the callback contract (`CallsAs`), the call `fn(k, v)` inside the loop body, and
the loop bodies of each / all / any / find / find_key.
-/
set_option linter.unusedVariables false
set_option linter.unusedSimpArgs false
namespace Tengo.Proofs.C19Enum
open Tengo.Model Tengo.Model.Spec

/-- The callback contract: the function value `.fn cr` of heap `σ0` is a closure that, called with
`(index, value)` in ANY heap extending `σ0`, with any fuel ≥ `Fc`, from any context below the frame limit,
returns `f index value`, leaves the declaration-site table alone and only extends the heap. -/
def CallsAs (Fc : Nat) (σ0 : St) (cr : Nat) (f : Nat → Value → Value) : Prop :=
  ∃ c, σ0.heap[cr]? = some (.clos c) ∧
    ∀ F, Fc ≤ F → ∀ (ctx : Ctx), ctx.callDepth < 900 → ∀ (gs : GSt) (σ : St) (i : Nat) (x : Value), Ext σ0 σ →
      ∃ σ', callClosure F ctx c [.int i, x] gs σ = .ok ((f i x, gs), σ') ∧ Ext σ σ'

theorem fn_call_run {Fc F : Nat} {σ0 σ : St} {cr : Nat} {f : Nat → Value → Value} {ctx : Ctx} {i : Nat} {x : Value}
    (gs : GSt) (hcb : CallsAs Fc σ0 cr f) (hF : Fc ≤ F) (hext : Ext σ0 σ) (hd : ctx.callDepth < 900)
    (hfn : Var σ ctx.env "fn" (.fn cr)) (hk : Var σ ctx.env "k" (.int i)) (hv : Var σ ctx.env "v" x) :
    ∃ σ', evalExpr (F + 4) ctx fnKV gs σ = .ok ((f i x, gs), σ') ∧ Ext σ σ' := by
  obtain ⟨c, hc, hcall⟩ := hcb
  obtain ⟨σ', h, he⟩ := hcall (F + 3) (by omega) ctx hd gs σ i x hext
  refine ⟨σ', ?_, he⟩
  unfold fnKV call2
  rw [call_fn_run (F := F + 3) (ev_ident hfn (F + 2) gs) (ev_args2 hk hv F gs) (hext.keep _ _ hc)]
  exact h

/-! ### variables inside an iteration -/

theorem iter_var_k (ctx : Ctx) (E : Env) (σ : St) (kv vv : Value) :
    Var (st2 σ kv vv) (iterCtx ctx E σ).env "k" kv :=
  ⟨σ.heap.size, false, by simp [iterCtx, lookupVar_cons, List.lookup], st2_get0 σ kv vv⟩

theorem iter_var_v (ctx : Ctx) (E : Env) (σ : St) (kv vv : Value) :
    Var (st2 σ kv vv) (iterCtx ctx E σ).env "v" vv :=
  ⟨σ.heap.size + 1, false, by simp [iterCtx, lookupVar_cons, List.lookup], st2_get1 σ kv vv⟩

theorem iter_var_other {ctx : Ctx} {E : Env} {σ : St} (kv vv : Value) {n : String} {val : Value}
    (h : Var σ E n val) (hk : (n == "k") = false) (hv : (n == "v") = false) :
    Var (st2 σ kv vv) (iterCtx ctx E σ).env n val :=
  (h.ext (ext_st2 σ kv vv)).under _ (by simp [List.lookup, hk, hv])

/-! ### body shapes -/

/-- A block that is one expression statement. -/
theorem block_expr {F tag : Nat} {ctx : Ctx} {e : Expr} {gs : GSt} {σ σ' : St} {val : Value}
    (h : evalExpr F { env := { vars := [] } :: ctx.env, callDepth := ctx.callDepth, path := 0 :: tag :: ctx.path } e gs σ
      = .ok ((val, gs), σ')) :
    execBlock (F + 3) ctx [.expr e] tag gs σ = .ok ((.normal, gs), σ') := by
  rw [execBlock_cons, execStmts_cons]
  simp only [execStmt, bind_assoc, pure_bind]
  rw [em_bind_ok h]
  simp only [execStmts_nil]
  rfl

/-- A block that is `if c { return e }`. -/
theorem block_if_ret {F tag : Nat} {ctx : Ctx} {c e : Expr} {gs : GSt} {σ σ' : St} {cv val : Value}
    (hc : evalExpr (F + 3) { env := { vars := [] } :: { vars := [] } :: ctx.env, callDepth := ctx.callDepth, path := 0 :: tag :: ctx.path } c gs σ = .ok ((cv, gs), σ')) (hs : Scalar cv = true)
    (he : evalExpr F { env := { vars := [] } :: { vars := [] } :: { vars := [] } :: ctx.env, callDepth := ctx.callDepth, path := 0 :: 1 :: 0 :: tag :: ctx.path } e gs σ' = .ok ((val, gs), σ')) :
    execBlock (F + 6) ctx [.ifs none c [.ret (some e)] none] tag gs σ =
      .ok ((if falsy cv then Flow.normal else Flow.ret val, gs), σ') := by
  rw [execBlock_cons, execStmts_cons, execStmt_if]
  simp only [pushCtx, bind_assoc, pure_bind]
  rw [em_bind_ok hc, em_bind_ok (liftM_ok (isFalsy_run hs σ'))]
  cases hf : falsy cv
  · simp only [Bool.not_false, if_true, bind_assoc, pure_bind, Bool.false_eq_true, if_false]
    rw [em_bind_ok (block_ret_expr (F := F) (tag := 1) he)]
    rfl
  · simp only [Bool.not_true, Bool.false_eq_true, if_false, if_true, pure_bind, execStmts_nil]
    rfl

/-- What a loop body has to do: in any context where `fn`, `k`, `v` are bound as expected, answer
`flowOf (res i x)` and only extend the heap. -/
def BodySpec (Fc Kb : Nat) (σ : St) (cr : Nat) (es : List Value) (body : List Stmt)
    (res : Nat → Value → Option Value) : Prop :=
  ∀ F, Fc ≤ F → ∀ (cx : Ctx) (gs : GSt) (σI : St) (i : Nat) (x : Value), cx.callDepth < 900 → Ext σ σI →
    Var σI cx.env "fn" (.fn cr) → Var σI cx.env "k" (.int i) → Var σI cx.env "v" x → es[i]? = some x →
    ∃ σ'', execBlock (F + Kb) cx body 1 gs σI = .ok ((flowOf (res i x), gs), σ'') ∧ Ext σI σ''

/-- A module function `func(x, fn) { guard; for k, v in x body; tail }` called on an array. -/
theorem enum_fn_run {Fc Kb : Nat} {σ : St} {menv : Env} {ctx : Ctx} {r st cr : Nat} {es : List Value}
    {body tail : List Stmt} {res : Nat → Value → Option Value} (gs : GSt)
    (hb : IsEnumBound σ menv) (harr : ArrAt σ r st es) (hd : ctx.callDepth < 899)
    (hbody : BodySpec Fc Kb σ cr es body res) (F : Nat) (hF : Fc ≤ F) :
    ∃ σ'', Ext σ σ'' ∧
      callClosure (F + Kb + es.length + 16) ctx ⟨["x", "fn"], false, guardEnum :: forKV body :: tail, menv⟩
          [.arr r, .fn cr] gs σ =
        match firstRes res es 0 with
        | some v => .ok ((v, gs), σ'')
        | none => (do let p ← execStmts (F + Kb + es.length + 12)
                                { bodyCtx menv ctx "fn" σ with env := (bodyCtx menv ctx "fn" σ).env } tail 2
                      match p.1 with
                      | .ret v => pure v
                      | _ => pure Value.undef : EM Value) gs σ'' := by
  rw [guarded_call (F := F + Kb + es.length) gs σ (by decide) (by decide) hb hd]
  simp only [isEnum, if_true]
  rw [execStmts_cons]
  -- the loop
  let σG := stG σ (.arr r) (.fn cr)
  let cxB : Ctx := { env := (bodyCtx menv ctx "fn" σ).env, callDepth := ctx.callDepth + 1, path := 1 :: [0] }
  have hxG : Var σG cxB.env "x" (.arr r) := (var_x_body menv ctx "fn" σ (.arr r) (.fn cr) (by decide)).ext (ext_push _ _)
  have hfG : Var σG cxB.env "fn" (.fn cr) := (var_q_body menv ctx "fn" σ (.arr r) (.fn cr)).ext (ext_push _ _)
  have hloop := forin_loop_run (Fb := F + Kb + 10) (ctx := cxB) (r := r) (st := st) (es := es) (body := body) gs
    (fun _ σ' => Ext σG σ') res
    (fun _ σ' h => (harr.ext (ext_stG σ _ _)).ext h)
    (fun _ σ' h => hxG.ext h)
    (by show (ctx.callDepth + 1 == 0) = false; simp)
    (by
      intro F' hF' i x σ' hget hI
      obtain ⟨k, rfl⟩ : ∃ k, F' = k + Kb := ⟨F' - Kb, by omega⟩
      obtain ⟨σ2, h2, he2⟩ := hbody k (by omega) (iterCtx (pushCtx cxB) cxB.env σ') gs (st2 σ' (.int i) x) i x
        (by show ctx.callDepth + 1 < 900; omega)
        (((ext_stG σ _ _).trans hI).trans (ext_st2 _ _ _))
        (iter_var_other _ _ (hfG.ext hI) (by decide) (by decide))
        (iter_var_k _ _ _ _ _) (iter_var_v _ _ _ _ _) hget
      exact ⟨σ2, h2, (hI.trans (ext_st2 _ _ _)).trans he2⟩)
    σG (Ext.refl _)
  obtain ⟨σ', j, hrun, hI', _⟩ := hloop
  refine ⟨σ', (ext_stG σ _ _).trans hI', ?_⟩
  have hfuel : F + Kb + 10 + es.length + 2 = F + Kb + es.length + 12 := by omega
  rw [hfuel] at hrun
  simp only [bind_assoc]
  have hrun2 : execStmt (F + Kb + es.length + 12)
      { env := (bodyCtx menv ctx "fn" σ).env, callDepth := (bodyCtx menv ctx "fn" σ).callDepth,
        path := 1 :: (bodyCtx menv ctx "fn" σ).path } (forKV body) gs (stG σ (Value.arr r) (Value.fn cr)) =
      .ok (((flowOf (firstRes res es 0), (bodyCtx menv ctx "fn" σ).env), gs), σ') := hrun
  rw [em_bind_ok hrun2]
  cases hr : firstRes res es 0 with
  | some v => simp only [flowOf]; rfl
  | none => simp only [flowOf]; rfl

/-! ### the loop bodies -/

def allLoop : List Stmt := [.ifs none (.un "Not" fnKV) [.ret (some (.bool false))] none]
def anyLoop : List Stmt := [.ifs none fnKV [.ret (some (.bool true))] none]
def eachLoop : List Stmt := [.expr fnKV]
def findLoop : List Stmt := [.ifs none fnKV [.ret (some (.ident "v"))] none]
def findKeyLoop : List Stmt := [.ifs none fnKV [.ret (some (.ident "k"))] none]

theorem each_body {Fc : Nat} {σ : St} {cr : Nat} {f : Nat → Value → Value} {es : List Value}
    (hcb : CallsAs Fc σ cr f) : BodySpec Fc 7 σ cr es eachLoop (fun _ _ => none) := by
  intro F hF cx gs σI i x hd hext hfn hk hv hget
  obtain ⟨σ2, hcall, he2⟩ := fn_call_run (F := F)
    (ctx := { env := { vars := [] } :: cx.env, callDepth := cx.callDepth, path := 0 :: 1 :: cx.path })
    gs hcb hF hext hd (var_push hfn 0) (var_push hk 0) (var_push hv 0)
  exact ⟨σ2, block_expr (F := F + 4) (tag := 1) hcall, he2⟩

theorem all_body {Fc : Nat} {σ : St} {cr : Nat} {f : Nat → Value → Value} {es : List Value}
    (hcb : CallsAs Fc σ cr f) (hsc : ∀ i x, es[i]? = some x → Scalar (f i x) = true) :
    BodySpec Fc 8 σ cr es allLoop (fun i x => if truthy (f i x) then none else some (.bool false)) := by
  intro F hF cx gs σI i x hd hext hfn hk hv hget
  obtain ⟨σ2, hcall, he2⟩ := fn_call_run (F := F)
    (ctx := { env := { vars := [] } :: { vars := [] } :: cx.env, callDepth := cx.callDepth, path := 0 :: 1 :: cx.path })
    gs hcb hF hext hd (var_push (var_push hfn 0) 0) (var_push (var_push hk 0) 0) (var_push (var_push hv 0) 0)
  have h := block_if_ret (F := F + 2) (tag := 1) (ctx := cx) (c := .un "Not" fnKV) (e := .bool false)
    (not_run hcall (hsc i x hget)) rfl (ev_bool (F + 1) _ false gs σ2)
  refine ⟨σ2, ?_, he2⟩
  show execBlock (F + 2 + 6) cx allLoop 1 gs σI = _
  rw [allLoop, h]
  have hb : ∀ b : Bool, falsy (.bool b) = !b := fun _ => rfl
  simp only [hb, truthy]
  rcases Bool.eq_false_or_eq_true (falsy (f i x)) with h' | h' <;> simp [h', flowOf]

theorem ifret_body {Fc : Nat} {σ : St} {cr : Nat} {f : Nat → Value → Value} {es : List Value}
    (hcb : CallsAs Fc σ cr f) (hsc : ∀ i x, es[i]? = some x → Scalar (f i x) = true) (e : Expr) (val : Nat → Value → Value)
    (he : ∀ (F : Nat) (cx : Ctx) (gs : GSt) (σI : St) (i : Nat) (x : Value), Var σI cx.env "k" (.int i) →
      Var σI cx.env "v" x → evalExpr (F + 1) cx e gs σI = .ok ((val i x, gs), σI)) :
    BodySpec Fc 7 σ cr es [.ifs none fnKV [.ret (some e)] none]
      (fun i x => if truthy (f i x) then some (val i x) else none) := by
  intro F hF cx gs σI i x hd hext hfn hk hv hget
  obtain ⟨σ2, hcall, he2⟩ := fn_call_run (F := F)
    (ctx := { env := { vars := [] } :: { vars := [] } :: cx.env, callDepth := cx.callDepth, path := 0 :: 1 :: cx.path })
    gs hcb hF hext hd (var_push (var_push hfn 0) 0) (var_push (var_push hk 0) 0) (var_push (var_push hv 0) 0)
  have h := block_if_ret (F := F + 1) (tag := 1) (ctx := cx) (c := fnKV) (e := e)
    hcall (hsc i x hget) (he F _ gs σ2 i x (var_push (var_push (var_push (hk.ext he2) 0) 0) 0)
      (var_push (var_push (var_push (hv.ext he2) 0) 0) 0))
  refine ⟨σ2, ?_, he2⟩
  show execBlock (F + 1 + 6) cx _ 1 gs σI = _
  rw [h]
  simp only [truthy]
  rcases Bool.eq_false_or_eq_true (falsy (f i x)) with h' | h' <;> simp [h', flowOf]

/-! ### the answers of the loop as list functions -/

theorem firstRes_all (p : Nat → Value → Bool) (c : Value) (l : List Value) (i : Nat) :
    firstRes (fun i x => if p i x then none else some c) l i =
      cond ((l.zipIdx i).all (fun q => p q.2 q.1)) none (some c) := by
  induction l generalizing i with
  | nil => simp [firstRes]
  | cons x l ih =>
    simp only [firstRes, List.zipIdx_cons, List.all_cons, ih]
    cases h : p i x <;> simp

theorem firstRes_find (p : Nat → Value → Bool) (val : Nat → Value → Value) (l : List Value) (i : Nat) :
    firstRes (fun i x => if p i x then some (val i x) else none) l i =
      ((l.zipIdx i).find? (fun q => p q.2 q.1)).map (fun q => val q.2 q.1) := by
  induction l generalizing i with
  | nil => simp [firstRes]
  | cons x l ih =>
    simp only [firstRes, List.zipIdx_cons, List.find?_cons, ih]
    cases h : p i x <;> simp

theorem firstRes_any (p : Nat → Value → Bool) (c : Value) (l : List Value) (i : Nat) :
    firstRes (fun i x => if p i x then some c else none) l i =
      cond ((l.zipIdx i).any (fun q => p q.2 q.1)) (some c) none := by
  induction l generalizing i with
  | nil => simp [firstRes]
  | cons x l ih =>
    simp only [firstRes, List.zipIdx_cons, List.any_cons, ih]
    cases h : p i x <;> simp

theorem firstRes_none (l : List Value) (i : Nat) : firstRes (fun _ _ => none) l i = none := by
  induction l generalizing i with
  | nil => rfl
  | cons x l ih => simp [firstRes, ih]

/-! ### tails -/

theorem tail_ret_bool (N : Nat) (cx : Ctx) (b : Bool) (gs : GSt) (σ : St) :
    (do let p ← execStmts (N + 3) cx [.ret (some (.bool b))] 2
        match p.1 with
        | .ret v => pure v
        | _ => pure Value.undef : EM Value) gs σ = .ok ((.bool b, gs), σ) := by
  rw [execStmts_cons, execStmt_ret]
  simp only [bind_assoc, pure_bind]
  rw [em_bind_ok (ev_bool N _ b gs σ)]
  rfl

theorem tail_nil (N : Nat) (cx : Ctx) (gs : GSt) (σ : St) :
    (do let p ← execStmts (N + 1) cx [] 2
        match p.1 with
        | .ret v => pure v
        | _ => pure Value.undef : EM Value) gs σ = .ok ((.undef, gs), σ) := by
  rw [execStmts_nil]
  rfl

end Tengo.Proofs.C19Enum

import Tengo.Proofs.JsonScan
import Tengo.Proofs.JsonGrammar
/-!
C18, direction "grammar ⇒ scanner": token-level runs of the control automaton (`conts`) and
`JsonD pf maxNestingDepth b v → accB .beginValue [] b` (a value nested at most `n` deep is accepted where
the parse stack has room for `n` more entries; `accB_deep`: more opening brackets than there is room for
are rejected).
-/
namespace Tengo.Proofs.JsonAccept
open Tengo.Model.Json Tengo.Proofs.JsonScan Tengo.Proofs.JsonGrammar

/-- Run `w` from `st`: every opcode is `scanContinue`, no error, the parse stack untouched. -/
def conts : Step → List PS → Bytes → Option Step
  | st, _, [] => some st
  | st, σ, c :: w =>
    if (delta st σ c).op = .continue_ ∧ (delta st σ c).step ≠ .error ∧ (delta st σ c).stack = σ then
      conts (delta st σ c).step σ w
    else none

theorem conts_append (σ : List PS) (a b : Bytes) : ∀ st st', conts st σ a = some st' → conts st σ (a ++ b) = conts st' σ b := by
  induction a with
  | nil => intro st st' h; simp [conts] at h; simp [h]
  | cons c a ih =>
    intro st st' h
    simp only [conts, List.cons_append] at h ⊢
    split at h
    · rename_i hc; rw [if_pos hc]; exact ih _ _ h
    · exact absurd h (by simp)

/-- A `scanContinue` run is invisible to acceptance. -/
theorem accB_conts (σ : List PS) (a r : Bytes) : ∀ st st', conts st σ a = some st' → accB st σ (a ++ r) = accB st' σ r := by
  induction a with
  | nil => intro st st' h; simp [conts] at h; simp [h]
  | cons c a ih =>
    intro st st' h
    simp only [conts] at h
    split at h
    · rename_i hc
      obtain ⟨_, h2, h3⟩ := hc
      have hb : ((delta st σ c).step != Step.error) = true := by simpa using h2
      simp only [List.cons_append, accB, hb, Bool.true_and, h3]
      exact ih _ _ h
    · exact absurd h (by simp)

/-! ### strings -/

theorem conts_strBody (σ : List PS) {b : Bytes} (h : StrBody b) : conts .inString σ (b ++ [0x22]) = some .endValue := by
  induction h with
  | nil => simp [conts, delta, stateInString, goTo]
  | plain h1 h2 h3 _ ih =>
    simp only [List.cons_append, conts, delta, stateInString, h2, h3, h1, if_false, goTo]
    simpa using ih
  | esc he _ ih =>
    simp only [List.cons_append, conts, delta, stateInString, stateInStringEsc, he, goTo]
    simpa using ih
  | uni a1 a2 a3 a4 _ ih =>
    have : isSimpleEsc 0x75 = false := by decide
    simp only [List.cons_append, conts, delta, stateInString, stateInStringEsc, stateHex, a1, a2, a3, a4, this, goTo]
    simpa using ih

/-! ### numbers -/

def phaseStep : NPhase → Step
  | .neg => .neg | .zero => .s0 | .int => .s1 | .dot => .dot | .frac => .dot0 | .e => .e | .esign => .eSign | .exp => .e0

/-- The states in which a number may end. -/
def NumFinal (st : Step) : Prop := st = .s0 ∨ st = .s1 ∨ st = .dot0 ∨ st = .e0

/-- A byte that cannot continue a number. -/
def Follow (c : UInt8) : Prop := isDigit c = false ∧ isFloatByte c = false

theorem digit_facts (d : UInt8) (h : isDigit d = true) :
    d ≠ 0x2E ∧ d ≠ 0x65 ∧ d ≠ 0x45 ∧ d ≠ 0x2B ∧ d ≠ 0x2D := by
  simp only [isDigit, Bool.and_eq_true, decide_eq_true_eq] at h
  refine ⟨?_, ?_, ?_, ?_, ?_⟩ <;> (intro e; subst e; simp at h)

theorem digit19_facts (d : UInt8) (h : isDigit19 d = true) : d ≠ 0x30 ∧ isDigit d = true := by
  simp only [isDigit19, Bool.and_eq_true, decide_eq_true_eq] at h
  refine ⟨?_, ?_⟩
  · intro e; subst e; simp at h
  · simp [isDigit]; omega

theorem conts_step (st : Step) (σ : List PS) (c : UInt8) (w : Bytes) (st1 : Step)
    (h : delta st σ c = goTo st1 σ .continue_) (h1 : st1 ≠ .error) : conts st σ (c :: w) = conts st1 σ w := by
  simp [conts, h, goTo, h1]

theorem conts_numRest (σ : List PS) {p : NPhase} {t : Bytes} (h : NumRest p t) :
    ∃ st', conts (phaseStep p) σ t = some st' ∧ NumFinal st' := by
  induction h with
  | zeroEnd => exact ⟨.s0, rfl, .inl rfl⟩
  | intEnd => exact ⟨.s1, rfl, .inr (.inl rfl)⟩
  | fracEnd => exact ⟨.dot0, rfl, .inr (.inr (.inl rfl))⟩
  | expEnd => exact ⟨.e0, rfl, .inr (.inr (.inr rfl))⟩
  | negZero _ ih =>
    rw [show phaseStep .neg = .neg from rfl, conts_step .neg σ 0x30 _ .s0 (by simp [delta, stateNeg]) (by decide)]; exact ih
  | negInt hd _ ih =>
    obtain ⟨h0, _⟩ := digit19_facts _ hd
    rw [show phaseStep .neg = .neg from rfl, conts_step .neg σ _ _ .s1 (by simp [delta, stateNeg, h0, hd]) (by decide)]; exact ih
  | intDigit hd _ ih =>
    rw [show phaseStep .int = .s1 from rfl, conts_step .s1 σ _ _ .s1 (by simp [delta, state1, hd]) (by decide)]; exact ih
  | zeroDot _ ih =>
    rw [show phaseStep .zero = .s0 from rfl, conts_step .s0 σ _ _ .dot (by simp [delta, state0]) (by decide)]; exact ih
  | intDot _ ih =>
    have : isDigit 0x2E = false := by decide
    rw [show phaseStep .int = .s1 from rfl, conts_step .s1 σ _ _ .dot (by simp [delta, state1, state0, this]) (by decide)]; exact ih
  | zeroE hc _ ih =>
    rw [show phaseStep .zero = .s0 from rfl, conts_step .s0 σ _ _ .e (by rcases hc with rfl | rfl <;> simp [delta, state0]) (by decide)]
    exact ih
  | intE hc _ ih =>
    have h1 : isDigit 0x65 = false := by decide
    have h2 : isDigit 0x45 = false := by decide
    rw [show phaseStep .int = .s1 from rfl,
      conts_step .s1 σ _ _ .e (by rcases hc with rfl | rfl <;> simp [delta, state1, state0, h1, h2]) (by decide)]
    exact ih
  | fracE hc _ ih =>
    have h1 : isDigit 0x65 = false := by decide
    have h2 : isDigit 0x45 = false := by decide
    rw [show phaseStep .frac = .dot0 from rfl,
      conts_step .dot0 σ _ _ .e (by rcases hc with rfl | rfl <;> simp [delta, stateDot0, h1, h2]) (by decide)]
    exact ih
  | dotDigit hd _ ih =>
    rw [show phaseStep .dot = .dot from rfl, conts_step .dot σ _ _ .dot0 (by simp [delta, stateDot, hd]) (by decide)]; exact ih
  | fracDigit hd _ ih =>
    rw [show phaseStep .frac = .dot0 from rfl, conts_step .dot0 σ _ _ .dot0 (by simp [delta, stateDot0, hd]) (by decide)]; exact ih
  | eSign hc _ ih =>
    rw [show phaseStep .e = .e from rfl,
      conts_step .e σ _ _ .eSign (by rcases hc with rfl | rfl <;> simp [delta, stateE]) (by decide)]
    exact ih
  | eDigit hd _ ih =>
    obtain ⟨_, _, _, h4, h5⟩ := digit_facts _ hd
    rw [show phaseStep .e = .e from rfl, conts_step .e σ _ _ .e0 (by simp [delta, stateE, stateESign, h4, h5, hd]) (by decide)]
    exact ih
  | esignDigit hd _ ih =>
    rw [show phaseStep .esign = .eSign from rfl, conts_step .eSign σ _ _ .e0 (by simp [delta, stateESign, hd]) (by decide)]; exact ih
  | expDigit hd _ ih =>
    rw [show phaseStep .exp = .e0 from rfl, conts_step .e0 σ _ _ .e0 (by simp [delta, stateE0, hd]) (by decide)]; exact ih

/-- In a number-final state a byte that cannot continue the number is handled by `stateEndValue`. -/
theorem final_follow (st : Step) (σ : List PS) (c : UInt8) (hf : NumFinal st) (hc : Follow c) :
    delta st σ c = stateEndValue σ c := by
  obtain ⟨hd, hfl⟩ := hc
  simp only [isFloatByte, Bool.or_eq_false_iff, decide_eq_false_iff_not] at hfl
  obtain ⟨⟨h1, h2⟩, h3⟩ := hfl
  rcases hf with rfl | rfl | rfl | rfl <;> simp [delta, state0, state1, stateDot0, stateE0, hd, h1, h2, h3]

/-! ### white space, value starts, ends of composites -/

theorem follow_space (c : UInt8) (h : isSpace c = true) : Follow c := by
  simp only [isSpace, Bool.or_eq_true, decide_eq_true_eq] at h
  rcases h with ((rfl | rfl) | rfl) | rfl <;> exact ⟨by decide, by decide⟩

/-- `st` loops on white space. -/
def SpaceLoop (st : Step) (σ : List PS) : Prop :=
  st ≠ .error ∧ ∀ c, isSpace c = true → (delta st σ c).step = st ∧ (delta st σ c).stack = σ

theorem accB_ws (st : Step) (σ : List PS) (hl : SpaceLoop st σ) (w r : Bytes) (hw : WS w) :
    accB st σ (w ++ r) = accB st σ r := by
  induction w with
  | nil => rfl
  | cons c w ih =>
    obtain ⟨h1, h2⟩ := hl.2 c (hw c (by simp))
    have hb : (st != Step.error) = true := by simpa using hl.1
    simp only [List.cons_append, accB, h1, h2, hb, Bool.true_and]
    exact ih (fun x hx => hw x (by simp [hx]))

theorem loop_beginValue (σ : List PS) : SpaceLoop .beginValue σ :=
  ⟨by decide, fun c h => by simp [delta, stateBeginValue, h, goTo]⟩
theorem loop_beginValueOrEmpty (σ : List PS) : SpaceLoop .beginValueOrEmpty σ :=
  ⟨by decide, fun c h => by simp [delta, stateBeginValueOrEmpty, h, goTo]⟩
theorem loop_beginString (σ : List PS) : SpaceLoop .beginString σ :=
  ⟨by decide, fun c h => by simp [delta, stateBeginString, h, goTo]⟩
theorem loop_beginStringOrEmpty (σ : List PS) : SpaceLoop .beginStringOrEmpty σ :=
  ⟨by decide, fun c h => by simp [delta, stateBeginStringOrEmpty, h, goTo]⟩
theorem loop_endValue (p : PS) (σ : List PS) : SpaceLoop .endValue (p :: σ) :=
  ⟨by decide, fun c h => by simp [delta, stateEndValue, h, goTo]⟩
theorem loop_endTop (σ : List PS) : SpaceLoop .endTop σ :=
  ⟨by decide, fun c h => by simp [delta, stateEndTop, h, goTo]⟩

/-- The first byte of a value. -/
def ValStart (c : UInt8) : Prop :=
  c = 0x7B ∨ c = 0x5B ∨ c = 0x22 ∨ c = 0x2D ∨ c = 0x30 ∨ c = 0x74 ∨ c = 0x66 ∨ c = 0x6E ∨ isDigit19 c = true

theorem valStart_facts (c : UInt8) (h : ValStart c) : isSpace c = false ∧ c ≠ 0x5D ∧ c ≠ 0x7D := by
  rcases h with rfl | rfl | rfl | rfl | rfl | rfl | rfl | rfl | h
  all_goals first | exact ⟨by decide, by decide, by decide⟩ | skip
  simp only [isDigit19, Bool.and_eq_true, decide_eq_true_eq] at h
  refine ⟨?_, ?_, ?_⟩
  · simp only [isSpace, Bool.or_eq_false_iff, decide_eq_false_iff_not]
    refine ⟨⟨⟨?_, ?_⟩, ?_⟩, ?_⟩ <;> (intro e; subst e; simp at h)
  · intro e; subst e; simp at h
  · intro e; subst e; simp at h

theorem val_start {pf : Bytes → UInt64} {t : Bytes} {v : J} (h : Val pf t v) : ∃ c t', t = c :: t' ∧ ValStart c := by
  cases h with
  | null => exact ⟨_, _, rfl, by simp [ValStart]⟩
  | true => exact ⟨_, _, rfl, by simp [ValStart]⟩
  | false => exact ⟨_, _, rfl, by simp [ValStart]⟩
  | num hn =>
    cases hn with
    | neg _ => exact ⟨_, _, rfl, by simp [ValStart]⟩
    | zero _ => exact ⟨_, _, rfl, by simp [ValStart]⟩
    | int hd _ => exact ⟨_, _, rfl, by simp [ValStart, hd]⟩
  | str _ => exact ⟨_, _, rfl, by simp [ValStart]⟩
  | arrEmpty _ => exact ⟨_, _, rfl, by simp [ValStart]⟩
  | arr _ => exact ⟨_, _, rfl, by simp [ValStart]⟩
  | objEmpty _ => exact ⟨_, _, rfl, by simp [ValStart]⟩
  | obj _ => exact ⟨_, _, rfl, by simp [ValStart]⟩

/-- After `[`, white space and a value start behave as in `stateBeginValue`. -/
theorem accB_orEmpty (σ : List PS) (w : Bytes) (hw : WS w) (c : UInt8) (hc : ValStart c) (x : Bytes) :
    accB .beginValueOrEmpty σ (w ++ c :: x) = accB .beginValue σ (w ++ c :: x) := by
  rw [accB_ws _ _ (loop_beginValueOrEmpty σ) _ _ hw, accB_ws _ _ (loop_beginValue σ) _ _ hw]
  obtain ⟨h1, h2, _⟩ := valStart_facts c hc
  simp [accB, delta, stateBeginValueOrEmpty, h1, h2]

/-- After the closing bracket/brace (`popParseState`) the automaton is where a finished value leaves it. -/
theorem accB_popTo (σ : List PS) (op : Op) (r : Bytes) :
    accB (popTo σ op).step (popTo σ op).stack r = accB .endValue σ r := by
  cases σ with
  | nil =>
    simp only [popTo]
    cases r with
    | nil => simp [accB, eofOK, delta, stateEndValue, stateEndTop, isSpace, goTo]
    | cons c r => simp only [accB, delta, stateEndValue]
  | cons p σ => simp [popTo, goTo]

/-- The condition on what follows a value for a number to end there. -/
def FollowOK (r : Bytes) : Prop := ∀ c r', r = c :: r' → Follow c

theorem accB_final (st : Step) (σ : List PS) (hf : NumFinal st) (r : Bytes) (hr : FollowOK r) :
    accB st σ r = accB .endValue σ r := by
  cases r with
  | nil =>
    have h := final_follow st σ 0x20 hf ⟨by decide, by decide⟩
    have hne : (st == Step.endTop) = false := by rcases hf with rfl | rfl | rfl | rfl <;> rfl
    show eofOK st σ = eofOK .endValue σ
    unfold eofOK
    rw [h, hne]; rfl
  | cons c r =>
    have h := final_follow st σ c hf (hr c r rfl)
    show ((delta st σ c).step != .error && accB (delta st σ c).step (delta st σ c).stack r) = _
    rw [h]; rfl

theorem accB_first (σ : List PS) (c : UInt8) (st1 : Step) (w : Bytes)
    (h : stateBeginValue σ c = goTo st1 σ .beginLiteral) (h1 : st1 ≠ .error) :
    accB .beginValue σ (c :: w) = accB st1 σ w := by
  simp [accB, delta, h, goTo, h1]

theorem followOK_cons (c : UInt8) (r : Bytes) (h : Follow c) : FollowOK (c :: r) := by
  intro c' r' e; cases e; exact h

theorem followOK_ws_cons (w : Bytes) (hw : WS w) (c : UInt8) (r : Bytes) (h : Follow c) : FollowOK (w ++ c :: r) := by
  cases w with
  | nil => exact followOK_cons c r h
  | cons a w => exact followOK_cons a _ (follow_space a (hw a (by simp)))

theorem follow_punct : Follow 0x5D ∧ Follow 0x7D ∧ Follow 0x2C ∧ Follow 0x3A :=
  ⟨⟨by decide, by decide⟩, ⟨by decide, by decide⟩, ⟨by decide, by decide⟩, ⟨by decide, by decide⟩⟩

theorem elems_start {pf : Bytes → UInt64} {e : Bytes} {xs : JList} (h : Elems pf e xs) :
    ∃ w c x, WS w ∧ ValStart c ∧ e = w ++ c :: x := by
  cases h with
  | @one w1 t w2 _ hw1 hv hw2 =>
    obtain ⟨c, t', rfl, hc⟩ := val_start hv
    exact ⟨w1, c, t' ++ w2, hw1, hc, by simp⟩
  | @more w1 t w2 _ e' _ hw1 hv hw2 he =>
    obtain ⟨c, t', rfl, hc⟩ := val_start hv
    exact ⟨w1, c, t' ++ w2 ++ 0x2C :: e', hw1, hc, by simp⟩

theorem members_start {pf : Bytes → UInt64} {m : Bytes} {es : JMems} (h : Members pf m es) :
    ∃ w x, WS w ∧ m = w ++ 0x22 :: x := by
  cases h with
  | @one w1 k w2 w3 t w4 _ hw1 hk hw2 hw3 hv hw4 =>
    exact ⟨w1, k ++ 0x22 :: (w2 ++ 0x3A :: (w3 ++ (t ++ w4))), hw1, by simp [quote]⟩
  | @more w1 k w2 w3 t w4 _ m' _ hw1 hk hw2 hw3 hv hw4 hm =>
    exact ⟨w1, k ++ 0x22 :: (w2 ++ 0x3A :: (w3 ++ (t ++ (w4 ++ 0x2C :: m')))), hw1, by simp [quote]⟩

/-! ### single punctuation steps -/

theorem popTo_ne (σ : List PS) (op : Op) : (popTo σ op).step ≠ .error := by cases σ <;> simp [popTo, goTo]

/-- A push below the limit is the plain transition. -/
theorem pushTo_ok (st : Step) (p : PS) (σ : List PS) (op : Op) (h : σ.length < maxNestingDepth) :
    pushTo st p σ op = goTo st (p :: σ) op := by
  unfold pushTo
  rw [if_pos (by simp only [List.length_cons]; omega)]

/-- A push at the limit is the error `exceeded max depth`. -/
theorem pushTo_deep (st : Step) (p : PS) (σ : List PS) (op : Op) (h : maxNestingDepth ≤ σ.length) :
    pushTo st p σ op = failAt (p :: σ) "exceeded max depth" := by
  unfold pushTo
  rw [if_neg (by simp only [List.length_cons]; omega)]

theorem step_open_arr (σ : List PS) (x : Bytes) (h : σ.length < maxNestingDepth) :
    accB .beginValue σ (0x5B :: x) = accB .beginValueOrEmpty (.arr :: σ) x := by
  simp [accB, delta, stateBeginValue, isSpace, pushTo_ok _ _ _ _ h, goTo]
theorem step_open_obj (σ : List PS) (x : Bytes) (h : σ.length < maxNestingDepth) :
    accB .beginValue σ (0x7B :: x) = accB .beginStringOrEmpty (.objKey :: σ) x := by
  simp [accB, delta, stateBeginValue, isSpace, pushTo_ok _ _ _ _ h, goTo]
/-- More opening brackets in a row than the parse stack has room for are never accepted. -/
theorem accB_deep (k : Nat) : ∀ (st : Step) (σ : List PS) (r : Bytes), (st = .beginValue ∨ st = .beginValueOrEmpty) →
    σ.length ≤ maxNestingDepth → maxNestingDepth < σ.length + k → accB st σ (List.replicate k 0x5B ++ r) = false := by
  induction k with
  | zero => intro st σ r _ h1 h2; omega
  | succ k ih =>
    intro st σ r hst h1 h2
    have hd : delta st σ 0x5B = pushTo .beginValueOrEmpty .arr σ .beginArray := by
      rcases hst with rfl | rfl <;> simp [delta, stateBeginValueOrEmpty, stateBeginValue, isSpace]
    simp only [List.replicate_succ, List.cons_append, accB, hd]
    by_cases hlt : σ.length < maxNestingDepth
    · rw [pushTo_ok _ _ _ _ hlt]
      simp only [goTo]
      rw [ih .beginValueOrEmpty (.arr :: σ) r (.inr rfl) (by simp only [List.length_cons]; omega)
        (by simp only [List.length_cons]; omega)]
      simp
    · rw [pushTo_deep _ _ _ _ (by omega)]
      simp [failAt]

theorem step_close_arr_empty (σ : List PS) (r : Bytes) :
    accB .beginValueOrEmpty (.arr :: σ) (0x5D :: r) = accB .endValue σ r := by
  rw [← accB_popTo σ .endArray r]
  simp [accB, delta, stateBeginValueOrEmpty, stateEndValue, isSpace, popTo_ne]
theorem step_close_obj_empty (σ : List PS) (r : Bytes) :
    accB .beginStringOrEmpty (.objKey :: σ) (0x7D :: r) = accB .endValue σ r := by
  rw [← accB_popTo σ .endObject r]
  simp [accB, delta, stateBeginStringOrEmpty, stateEndValue, isSpace, popTo_ne]
theorem step_close_arr (σ : List PS) (r : Bytes) :
    accB .endValue (.arr :: σ) (0x5D :: r) = accB .endValue σ r := by
  rw [← accB_popTo σ .endArray r]
  simp [accB, delta, stateEndValue, isSpace, popTo_ne]
theorem step_close_obj (σ : List PS) (r : Bytes) :
    accB .endValue (.objVal :: σ) (0x7D :: r) = accB .endValue σ r := by
  rw [← accB_popTo σ .endObject r]
  simp [accB, delta, stateEndValue, isSpace, popTo_ne]
theorem step_comma_arr (σ : List PS) (x : Bytes) :
    accB .endValue (.arr :: σ) (0x2C :: x) = accB .beginValue (.arr :: σ) x := by
  simp [accB, delta, stateEndValue, isSpace, goTo]
theorem step_comma_obj (σ : List PS) (x : Bytes) :
    accB .endValue (.objVal :: σ) (0x2C :: x) = accB .beginString (.objKey :: σ) x := by
  simp [accB, delta, stateEndValue, isSpace, goTo]
theorem step_colon (σ : List PS) (x : Bytes) :
    accB .endValue (.objKey :: σ) (0x3A :: x) = accB .beginValue (.objVal :: σ) x := by
  simp [accB, delta, stateEndValue, isSpace, goTo]
theorem step_quote_key (σ : List PS) (x : Bytes) : accB .beginString σ (0x22 :: x) = accB .inString σ x := by
  simp [accB, delta, stateBeginString, isSpace, goTo]
theorem step_quote_keyOrEmpty (σ : List PS) (x : Bytes) :
    accB .beginStringOrEmpty σ (0x22 :: x) = accB .inString σ x := by
  simp [accB, delta, stateBeginStringOrEmpty, stateBeginString, isSpace, goTo]
theorem accB_str (σ : List PS) {k : Bytes} (hk : StrBody k) (x : Bytes) :
    accB .inString σ (k ++ 0x22 :: x) = accB .endValue σ x := by
  have := accB_conts σ _ x _ _ (conts_strBody σ hk)
  simpa using this

theorem accB_orEmpty' (σ : List PS) (e : Bytes) (h : ∃ w c x, WS w ∧ ValStart c ∧ e = w ++ c :: x) (y : Bytes) :
    accB .beginValueOrEmpty σ (e ++ y) = accB .beginValue σ (e ++ y) := by
  obtain ⟨w, c, x, hw, hc, rfl⟩ := h
  simp only [List.append_assoc, List.cons_append]
  exact accB_orEmpty σ w hw c hc _

theorem accB_key_orEmpty (σ : List PS) (m : Bytes) (h : ∃ w x, WS w ∧ m = w ++ 0x22 :: x) (y : Bytes) :
    accB .beginStringOrEmpty σ (m ++ y) = accB .beginString σ (m ++ y) := by
  obtain ⟨w, x, hw, rfl⟩ := h
  simp only [List.append_assoc, List.cons_append]
  rw [accB_ws _ _ (loop_beginStringOrEmpty _) _ _ hw, step_quote_keyOrEmpty,
    accB_ws _ _ (loop_beginString _) _ _ hw, step_quote_key]

/-! ### grammar ⇒ acceptance -/

/-- A value nested at most `n` deep is accepted wherever the parse stack leaves room for `n` more levels. -/
def AccVal (n : Nat) (t : Bytes) : Prop :=
  ∀ (σ : List PS) (r : Bytes), σ.length + n ≤ maxNestingDepth → FollowOK r →
    accB .beginValue σ (t ++ r) = accB .endValue σ r
def AccElems (n : Nat) (e : Bytes) : Prop :=
  ∀ (σ : List PS) (r : Bytes), σ.length + 1 + n ≤ maxNestingDepth →
    accB .beginValue (.arr :: σ) (e ++ 0x5D :: r) = accB .endValue σ r
def AccMembers (n : Nat) (m : Bytes) : Prop :=
  ∀ (σ : List PS) (r : Bytes), σ.length + 1 + n ≤ maxNestingDepth →
    accB .beginString (.objKey :: σ) (m ++ 0x7D :: r) = accB .endValue σ r

theorem acc_lit (c0 : UInt8) (st1 : Step) (tl : Bytes) (σ : List PS) (r : Bytes)
    (h : stateBeginValue σ c0 = goTo st1 σ .beginLiteral) (h1 : st1 ≠ .error) (h2 : conts st1 σ tl = some .endValue) :
    accB .beginValue σ (c0 :: tl ++ r) = accB .endValue σ r := by
  simp only [List.cons_append]
  rw [accB_first σ c0 st1 _ h h1]
  exact accB_conts σ tl r st1 .endValue h2

theorem acc_num {n : Nat} {t : Bytes} (hn : NumTok t) : AccVal n t := by
  intro σ r _ hr
  cases hn with
  | neg hrest =>
    obtain ⟨st', h1, h2⟩ := conts_numRest σ hrest
    have h1' : conts .neg σ _ = some st' := h1
    simp only [List.cons_append]
    rw [accB_first σ 0x2D .neg _ (by simp [stateBeginValue, isSpace]) (by decide),
      accB_conts σ _ r _ _ h1', accB_final st' σ h2 r hr]
  | zero hrest =>
    obtain ⟨st', h1, h2⟩ := conts_numRest σ hrest
    have h1' : conts .s0 σ _ = some st' := h1
    simp only [List.cons_append]
    rw [accB_first σ 0x30 .s0 _ (by simp [stateBeginValue, isSpace]) (by decide),
      accB_conts σ _ r _ _ h1', accB_final st' σ h2 r hr]
  | @int d _ hd hrest =>
    obtain ⟨st', h1, h2⟩ := conts_numRest σ hrest
    have h1' : conts .s1 σ _ = some st' := h1
    obtain ⟨hs, _, _⟩ := valStart_facts d (by simp [ValStart, hd])
    have hd' := hd
    simp only [isDigit19, Bool.and_eq_true, decide_eq_true_eq] at hd'
    have hne : d ≠ 0x7B ∧ d ≠ 0x5B ∧ d ≠ 0x22 ∧ d ≠ 0x2D ∧ d ≠ 0x30 ∧ d ≠ 0x74 ∧ d ≠ 0x66 ∧ d ≠ 0x6E := by
      refine ⟨?_, ?_, ?_, ?_, ?_, ?_, ?_, ?_⟩ <;> (intro e; subst e; simp at hd')
    obtain ⟨n1, n2, n3, n4, n5, n6, n7, n8⟩ := hne
    simp only [List.cons_append]
    rw [accB_first σ d .s1 _ (by simp [stateBeginValue, hs, n1, n2, n3, n4, n5, n6, n7, n8, hd]) (by decide),
      accB_conts σ _ r _ _ h1', accB_final st' σ h2 r hr]

theorem acc_all (pf : Bytes → UInt64) :
    (∀ {n t v}, ValD pf n t v → AccVal n t) ∧ (∀ {n e xs}, ElemsD pf n e xs → AccElems n e) ∧
    (∀ {n m es}, MembersD pf n m es → AccMembers n m) := by
  apply grammarD_induction (P1 := fun n t _ => AccVal n t) (P2 := fun n e _ => AccElems n e) (P3 := fun n m _ => AccMembers n m)
  · intro _ σ r _ _
    exact acc_lit 0x6E .n [0x75, 0x6C, 0x6C] σ r (by simp [stateBeginValue, isSpace]) (by decide)
      (by simp [conts, delta, stateLit, goTo])
  · intro _ σ r _ _
    exact acc_lit 0x74 .t [0x72, 0x75, 0x65] σ r (by simp [stateBeginValue, isSpace]) (by decide)
      (by simp [conts, delta, stateLit, goTo])
  · intro _ σ r _ _
    exact acc_lit 0x66 .f [0x61, 0x6C, 0x73, 0x65] σ r (by simp [stateBeginValue, isSpace]) (by decide)
      (by simp [conts, delta, stateLit, goTo])
  · intro _ t hn; exact acc_num hn
  · intro _ b hb σ r _ _
    simp only [quote, List.cons_append, List.append_assoc, List.nil_append]
    rw [accB_first σ 0x22 .inString _ (by simp [stateBeginValue, isSpace]) (by decide), accB_str σ hb]
  · intro n w hw σ r hd _
    simp only [List.cons_append, List.append_assoc, List.nil_append]
    rw [step_open_arr _ _ (by omega), accB_ws _ _ (loop_beginValueOrEmpty _) _ _ hw, step_close_arr_empty]
  · intro n e xs he ih σ r hd _
    simp only [List.cons_append, List.append_assoc, List.nil_append]
    rw [step_open_arr _ _ (by omega), accB_orEmpty' _ e (elems_start ((toVal_all pf).2.1 he))]
    exact ih σ r (by omega)
  · intro n w hw σ r hd _
    simp only [List.cons_append, List.append_assoc, List.nil_append]
    rw [step_open_obj _ _ (by omega), accB_ws _ _ (loop_beginStringOrEmpty _) _ _ hw, step_close_obj_empty]
  · intro n m es hm ih σ r hd _
    simp only [List.cons_append, List.append_assoc, List.nil_append]
    rw [step_open_obj _ _ (by omega), accB_key_orEmpty _ m (members_start ((toVal_all pf).2.2 hm))]
    exact ih σ r (by omega)
  · intro n w1 t w2 v hw1 _ hw2 ih σ r hd
    simp only [List.append_assoc]
    rw [accB_ws _ _ (loop_beginValue _) _ _ hw1,
      ih (.arr :: σ) _ (by simp only [List.length_cons]; omega) (followOK_ws_cons w2 hw2 _ _ follow_punct.1),
      accB_ws _ _ (loop_endValue _ _) _ _ hw2, step_close_arr]
  · intro n w1 t w2 v e xs hw1 _ hw2 _ ih ihe σ r hd
    simp only [List.append_assoc, List.cons_append]
    rw [accB_ws _ _ (loop_beginValue _) _ _ hw1,
      ih (.arr :: σ) _ (by simp only [List.length_cons]; omega) (followOK_ws_cons w2 hw2 _ _ follow_punct.2.2.1),
      accB_ws _ _ (loop_endValue _ _) _ _ hw2, step_comma_arr]
    exact ihe σ r hd
  · intro n w1 k w2 w3 t w4 v hw1 hk hw2 hw3 _ hw4 ih σ r hd
    simp only [List.append_assoc, quote, List.cons_append, List.nil_append]
    rw [accB_ws _ _ (loop_beginString _) _ _ hw1, step_quote_key, accB_str _ hk, accB_ws _ _ (loop_endValue _ _) _ _ hw2,
      step_colon, accB_ws _ _ (loop_beginValue _) _ _ hw3,
      ih (.objVal :: σ) _ (by simp only [List.length_cons]; omega) (followOK_ws_cons w4 hw4 _ _ follow_punct.2.1),
      accB_ws _ _ (loop_endValue _ _) _ _ hw4, step_close_obj]
  · intro n w1 k w2 w3 t w4 v m es hw1 hk hw2 hw3 _ hw4 _ ih ihm σ r hd
    simp only [List.append_assoc, quote, List.cons_append, List.nil_append]
    rw [accB_ws _ _ (loop_beginString _) _ _ hw1, step_quote_key, accB_str _ hk, accB_ws _ _ (loop_endValue _ _) _ _ hw2,
      step_colon, accB_ws _ _ (loop_beginValue _) _ _ hw3,
      ih (.objVal :: σ) _ (by simp only [List.length_cons]; omega) (followOK_ws_cons w4 hw4 _ _ follow_punct.2.2.1),
      accB_ws _ _ (loop_endValue _ _) _ _ hw4, step_comma_obj]
    exact ihm σ r hd

theorem acc_val {pf : Bytes → UInt64} {n : Nat} {t : Bytes} {v : J} (h : ValD pf n t v) : AccVal n t := (acc_all pf).1 h

/-- **Grammar ⇒ scanner.** Every JSON text nested at most `maxNestingDepth` deep is accepted by the
control automaton. -/
theorem json_accB {pf : Bytes → UInt64} {b : Bytes} {v : J} (h : JsonD pf maxNestingDepth b v) :
    accB .beginValue [] b = true := by
  obtain ⟨w1, t, w2, rfl, hw1, hv, hw2⟩ := h
  have hf : FollowOK w2 := by
    intro c r' e; subst e; exact follow_space c (hw2 c (by simp))
  simp only [List.append_assoc]
  rw [accB_ws _ _ (loop_beginValue _) _ _ hw1, acc_val hv [] w2 (by simp) hf]
  cases w2 with
  | nil => simp [accB, eofOK, delta, stateEndValue, stateEndTop, isSpace, goTo]
  | cons c w =>
    have hc := hw2 c (by simp)
    have h1 : accB .endValue [] (c :: w) = accB .endTop [] w := by
      simp [accB, delta, stateEndValue, stateEndTop, hc, goTo]
    rw [h1]
    have := accB_ws .endTop [] (loop_endTop []) w [] (fun x hx => hw2 x (by simp [hx]))
    simp only [List.append_nil] at this
    rw [this]; simp [accB, eofOK]

end Tengo.Proofs.JsonAccept

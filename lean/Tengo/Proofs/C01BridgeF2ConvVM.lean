import Tengo.Proofs.F2Diverge
import Tengo.Proofs.C01ConverseVM
/-!
C01 bridge for fragment F2, converse direction, VM side: an F2 program on which the fragment's evaluator
`F2.exec` runs out of EVERY fuel keeps `VM.run` running: `VM.run` answers `outOfFuel` for every fuel
(`diverges_outOfFuel2`). (`steps_outOfFuel`, `run_agree` of Proofs/C01ConverseVM.lean are about instruction
lists and are reused.)
-/
set_option linter.unusedVariables false
set_option linter.unusedSimpArgs false
namespace Tengo.Proofs.C01Bridge
open Tengo.Model Tengo.Model.Spec Tengo.Model.VM Tengo.Model.F0

section lift
variable {K n : Nat} {cs : Nat → SV} {code : Code}

/-- **VM bridge, diverging runs, F2.** If the fragment's evaluator runs out of every fuel, `VM.run` runs out of
every fuel: it never halts, never fails. -/
theorem diverges_outOfFuel2 {ss : F2.Stms} (hcode : CodeRel (F2.compProg ss) K n cs code) {gl : Nat → SV} {c : Core}
    (hrel : Rel n ⟨0, [], gl⟩ c) (hd : F2.depthSs ss ≤ stackSize)
    (hout : ∀ f, F2.exec vmSem cs f (.inr ss) gl = .out)
    (keep : Nat) (allocs : Int) (log : Log) (g : GSt) (h : Spec.St) (ha : allocs ≤ 0) :
    ∀ fuel, ∃ cfg, (run code keep fuel allocs ⟨c, g, h⟩ log).1 = .outOfFuel cfg := by
  intro fuel
  obtain ⟨m, s', hm, hr⟩ := F2.program_diverges_bounded stackSize vmSem cs gl ss (fuel + F2.heightSs ss) hd (hout _)
  exact steps_outOfFuel hcode hrel m hr keep allocs log g h ha fuel (by omega)

end lift

/-- The fragment's evaluator on a program whose `break` / `continue` are inside loops, over all fuels: it runs
out of every fuel, or finishes with some fuel, or reports an error with some fuel. (Classical.) -/
theorem exec_cases2 {V : Type} (S : F0.Sem V) (cs : Nat → V) (ss : F2.Stms) (g : Nat → V)
    (hsc : F2.scopedSs false ss = true) :
    (∀ f, F2.exec S cs f (.inr ss) g = .out) ∨ (∃ f g', F2.exec S cs f (.inr ss) g = .done g') ∨
      (∃ f, F2.exec S cs f (.inr ss) g = .err) := by
  by_cases h : ∀ f, F2.exec S cs f (.inr ss) g = .out
  · exact .inl h
  · right
    have ⟨f, hf⟩ : ∃ f, F2.exec S cs f (.inr ss) g ≠ .out := Classical.not_forall.mp h
    rcases F2.exec_program_cases S cs g ss f hsc with ⟨g', hr⟩ | hr | hr
    · exact .inl ⟨f, g', hr⟩
    · exact .inr ⟨f, hr⟩
    · exact absurd hr hf

end Tengo.Proofs.C01Bridge

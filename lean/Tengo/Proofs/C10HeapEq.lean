import Tengo.Proofs.C10HeapReach
import Tengo.Proofs.C09Eq
/-!
C10 over the heap model — `copy` succeeds on data values (acyclic, no retired object), keeps the heap well-formed,
and its result is equal to the original (`Eqv`, and the executable `equalsN`) for values without errors and NaN.
-/
namespace Tengo.Proofs.C10Heap
open Tengo.Model.Heap9 Tengo.Model.HeapCopy Tengo.Props.C09 Tengo.Proofs.C09Eq

/-! ### Well-formedness is kept -/

theorem closed_allocErr {h : Heap} (c : Closed h) (p : Val) : Closed (h.allocObj (.err p)).1 := by
  intro o ho
  simp only [Heap.allocObj, List.mem_append, List.mem_singleton] at ho
  rcases ho with ho | ho
  · exact storeOk_mono (Nat.le_refl _) (Nat.le_refl _) (c o ho)
  · subst ho; rfl

theorem foldVals_pres {σ : Type} {P : Heap → Prop} (f : Heap → σ → Val → Option (Heap × σ × Val))
    (hf : ∀ h st v h' st' v', f h st v = some (h', st', v') → P h → P h') :
    ∀ (vs : List Val) (h : Heap) (st : σ) (h' : Heap) (st' : σ) (vs' : List Val),
      foldVals f h st vs = some (h', st', vs') → P h → P h' := by
  intro vs
  induction vs with
  | nil => intro h st h' st' vs' e p; simp [foldVals] at e; rw [← e.1]; exact p
  | cons v vs ih =>
    intro h st h' st' vs' e p
    unfold foldVals at e
    split at e
    · cases e
    · rename_i h1 st1 v1 e1
      split at e
      · cases e
      · rename_i h2 st2 vs2 e2
        injection e with e; injection e with e3 e4
        rw [← e3]
        exact ih _ _ _ _ _ e2 (hf _ _ _ _ _ _ e1 p)

theorem copyN_closed : ∀ (n : Nat) (h : Heap) (caps : List Nat) (v : Val) (h' : Heap) (caps' : List Nat) (v' : Val),
    copyN n h caps v = some (h', caps', v') → Closed h → Closed h' := by
  intro n
  induction n with
  | zero => intro h caps v h' caps' v' e; simp [copyN] at e
  | succ n ih =>
    intro h caps v h' caps' v' e c
    unfold copyN at e
    repeat' split at e
    all_goals first
      | (cases e; done)
      | (injection e with e; injection e with e1 e2; rw [← e1]; first
          | exact c
          | exact closed_newArr (foldVals_pres _ ih _ _ _ _ _ _ (by assumption) c) _ _ _
          | exact closed_newMap (foldVals_pres _ ih _ _ _ _ _ _ (by assumption) c) _ _
          | exact closed_allocErr (ih _ _ _ _ _ _ (by assumption) c) _)

theorem astore_len_mono {h h' : Heap} (e : Ext h h') (s : Nat) : (h.astore s).length ≤ (h'.astore s).length := by
  cases hs : h.astores[s]? with
  | none => simp [Heap.astore, List.getD_eq_getElem?_getD, hs]
  | some st => rw [ext_astore_old e hs]; exact Nat.le_refl _

theorem hdrOk_mono {h h' : Heap} (e : Ext h h') {o : Obj} (ok : hdrOk h o = true) : hdrOk h' o = true := by
  cases o with
  | arr m s off len cap =>
    simp only [hdrOk, decide_eq_true_eq] at ok ⊢
    have := astore_len_mono e s; omega
  | map _ _ => rfl
  | err _ => rfl
  | dead => rfl

theorem hdrOk_newArr {h : Heap} (w : HdrOk h) (mu : Bool) (xs : List Val) (cap : Nat) : HdrOk (h.newArr mu xs cap).1 := by
  intro o ho
  have e := ext_newArr h mu xs cap
  simp only [Heap.newArr, List.mem_append, List.mem_singleton] at ho
  rcases ho with ho | ho
  · exact hdrOk_mono e (w o ho)
  · subst ho
    have := newArr_store h mu xs cap
    simp only [hdrOk, decide_eq_true_eq, Heap.astore, List.getD_eq_getElem?_getD]
    rw [show (h.newArr mu xs cap).1.astores = h.astores ++ [xs ++ List.replicate (max cap xs.length - xs.length) Val.undef] from rfl]
    simp

theorem hdrOk_newMap {h : Heap} (w : HdrOk h) (mu : Bool) (kvs : List (String × Val)) : HdrOk (h.newMap mu kvs).1 := by
  intro o ho
  have e := ext_newMap h mu kvs
  simp only [Heap.newMap, List.mem_append, List.mem_singleton] at ho
  rcases ho with ho | ho
  · exact hdrOk_mono e (w o ho)
  · subst ho; rfl

theorem hdrOk_allocErr {h : Heap} (w : HdrOk h) (p : Val) : HdrOk (h.allocObj (.err p)).1 := by
  intro o ho
  have e := ext_allocObj h (.err p)
  simp only [Heap.allocObj, List.mem_append, List.mem_singleton] at ho
  rcases ho with ho | ho
  · exact hdrOk_mono e (w o ho)
  · subst ho; rfl

theorem copyN_hdrOk : ∀ (n : Nat) (h : Heap) (caps : List Nat) (v : Val) (h' : Heap) (caps' : List Nat) (v' : Val),
    copyN n h caps v = some (h', caps', v') → HdrOk h → HdrOk h' := by
  intro n
  induction n with
  | zero => intro h caps v h' caps' v' e; simp [copyN] at e
  | succ n ih =>
    intro h caps v h' caps' v' e c
    unfold copyN at e
    repeat' split at e
    all_goals first
      | (cases e; done)
      | (injection e with e; injection e with e1 e2; rw [← e1]; first
          | exact c
          | exact hdrOk_newArr (foldVals_pres _ ih _ _ _ _ _ _ (by assumption) c) _ _ _
          | exact hdrOk_newMap (foldVals_pres _ ih _ _ _ _ _ _ (by assumption) c) _ _
          | exact hdrOk_allocErr (ih _ _ _ _ _ _ (by assumption) c) _)

/-! ### `dataN` does not look at new cells; `copy` succeeds on data values -/

theorem content_ext_old {h h' : Heap} (e : Ext h h') {s : Nat} {st : List Val} (hs : h.astores[s]? = some st)
    (off len : Nat) : h'.content s off len = h.content s off len := by
  unfold Heap.content; rw [ext_astore_old e hs]

theorem dataN_ext {strict : Bool} {h h1 : Heap} (e : Ext h h1) (c : Closed h) :
    ∀ (n : Nat) (v : Val), dataN strict n h v = true → dataN strict n h1 v = true := by
  intro n
  induction n with
  | zero => intro v d; simp [dataN] at d
  | succ n ih =>
    intro v d
    cases v with
    | undef => rfl
    | int i => rfl
    | str s => rfl
    | opq s => simpa [dataN] using d
    | ref r =>
      simp only [dataN] at d ⊢
      cases ho : h.obj r with
      | arr m s off len cap =>
        have ho1 := obj_of_some (e.objs _ _ (obj_some ho (by simp)))
        obtain ⟨st, hs⟩ := closed_arr c (obj_some ho (by simp))
        rw [ho] at d; rw [ho1]
        simp only at d ⊢
        rw [content_ext_old e hs]
        exact List.all_eq_true.mpr (fun x hx => ih x (List.all_eq_true.mp d x hx))
      | map m s =>
        have ho1 := obj_of_some (e.objs _ _ (obj_some ho (by simp)))
        obtain ⟨st, hs⟩ := closed_map c (obj_some ho (by simp))
        rw [ho] at d; rw [ho1]
        simp only at d ⊢
        rw [ext_mstore_old e hs]
        exact List.all_eq_true.mpr (fun x hx => ih x (List.all_eq_true.mp d x hx))
      | err p =>
        have ho1 := obj_of_some (e.objs _ _ (obj_some ho (by simp)))
        rw [ho] at d; rw [ho1]
        simp only [Bool.and_eq_true] at d ⊢
        exact ⟨d.1, ih p d.2⟩
      | dead => rw [ho] at d; simp at d

theorem foldVals_copy_succeeds {strict : Bool} {n : Nat}
    (ih : ∀ (h : Heap) (v : Val) (caps : List Nat), Closed h → dataN strict n h v = true →
      ∃ h' caps' v', copyN n h caps v = some (h', caps', v')) :
    ∀ (vs : List Val) (h : Heap) (caps : List Nat), Closed h → (∀ x ∈ vs, dataN strict n h x = true) →
      ∃ h' caps' cs, foldVals (copyN n) h caps vs = some (h', caps', cs) := by
  intro vs
  induction vs with
  | nil => intro h caps _ _; exact ⟨h, caps, [], rfl⟩
  | cons v vs ihl =>
    intro h caps c d
    obtain ⟨h1, caps1, v1, e1⟩ := ih h v caps c (d v (List.mem_cons_self ..))
    have x1 := copyN_ext _ _ _ _ _ _ _ e1
    have c1 := copyN_closed _ _ _ _ _ _ _ e1 c
    obtain ⟨h2, caps2, cs, e2⟩ := ihl h1 caps1 c1 (fun x hx => dataN_ext x1 c n x (d x (List.mem_cons_of_mem _ hx)))
    exact ⟨h2, caps2, v1 :: cs, by simp [foldVals, e1, e2]⟩

/-- `Copy` terminates with a result on every data value (acyclic, no retired object), whatever the capacities. -/
theorem copyN_succeeds {strict : Bool} : ∀ (n : Nat) (h : Heap) (v : Val) (caps : List Nat), Closed h →
    dataN strict n h v = true → ∃ h' caps' v', copyN n h caps v = some (h', caps', v') := by
  intro n
  induction n with
  | zero => intro h v caps _ d; simp [dataN] at d
  | succ n ih =>
    intro h v caps c d
    cases v with
    | undef => exact ⟨_, _, _, rfl⟩
    | int i => exact ⟨_, _, _, rfl⟩
    | str s => exact ⟨_, _, _, rfl⟩
    | opq s => exact ⟨_, _, _, rfl⟩
    | ref r =>
      simp only [dataN] at d
      simp only [copyN]
      cases ho : h.obj r with
      | arr m s off len cap =>
        rw [ho] at d; simp only at d ⊢
        obtain ⟨h1, caps1, cs, e1⟩ := foldVals_copy_succeeds ih (h.content s off len) h caps.tail c
          (fun x hx => List.all_eq_true.mp d x hx)
        rw [e1]; exact ⟨_, _, _, rfl⟩
      | map m s =>
        rw [ho] at d; simp only at d ⊢
        obtain ⟨h1, caps1, cs, e1⟩ := foldVals_copy_succeeds ih ((h.mstore s).map Prod.snd) h caps c
          (fun x hx => List.all_eq_true.mp d x hx)
        rw [e1]; exact ⟨_, _, _, rfl⟩
      | err p =>
        rw [ho] at d; simp only [Bool.and_eq_true] at d ⊢
        obtain ⟨h1, caps1, p1, e1⟩ := ih h p caps c d.2
        rw [e1]; exact ⟨_, _, _, rfl⟩
      | dead => rw [ho] at d; simp at d

/-! ### The copy is equal to the original -/

theorem eqv_refl_scalar (h : Heap) {v : Val} (hv : ∀ r, v ≠ .ref r) : Eqv h v v := by
  cases v with
  | undef => exact .undef
  | int i => exact .int i
  | str s => exact .str s
  | opq s => exact .opq s
  | ref r => exact absurd rfl (hv r)

theorem copied_arr_eqv {h1 : Heap} {cs : List Val} {r s off len cap : Nat} {m : Bool} {st : List Val} (cp : Nat)
    (ho : h1.objs[r]? = some (Obj.arr m s off len cap)) (hs : h1.astores[s]? = some st)
    (hl : cs.length = ((st.drop off).take len).length)
    (hp : ∀ (i : Nat) (a b : Val), cs[i]? = some a → ((st.drop off).take len)[i]? = some b → Eqv h1 a b) :
    Eqv (h1.newArr true cs cp).1 (.ref h1.objs.length) (.ref r) := by
  have e := ext_newArr h1 true cs cp
  refine .arr (newArr_obj _ _ _ _) (e.objs _ _ ho) (newArr_store _ _ _ _) (e.astores _ _ hs) ?_ ?_
  · rw [take_pad]; exact hl
  · rw [take_pad]; intro i a b ha hb; exact (hp i a b ha hb).mono e

theorem copied_map_eqv {h1 : Heap} {cs : List Val} {r s : Nat} {m : Bool} {kvs : List (String × Val)}
    (ho : h1.objs[r]? = some (Obj.map m s)) (hs : h1.mstores[s]? = some kvs)
    (hl : cs.length = (kvs.map Prod.snd).length)
    (hp : ∀ (i : Nat) (a b : Val), cs[i]? = some a → (kvs.map Prod.snd)[i]? = some b → Eqv h1 a b) :
    Eqv (h1.newMap true ((kvs.map Prod.fst).zip cs)).1 (.ref h1.objs.length) (.ref r) := by
  have e := ext_newMap h1 true ((kvs.map Prod.fst).zip cs)
  have hk : (kvs.map Prod.fst).length = cs.length := by simp at hl; simp [hl]
  refine .map (newMap_obj _ _ _) (e.objs _ _ ho) (newMap_store _ _ _) (e.mstores _ _ hs) ?_ ?_
  · rw [zip_fst _ _ hk]
  · rw [zip_snd _ _ hk]; intro i a b ha hb; exact (hp i a b ha hb).mono e

theorem foldVals_copy_eqv {n : Nat}
    (ih : ∀ (h : Heap) (caps : List Nat) (v : Val) (h' : Heap) (caps' : List Nat) (v' : Val),
      copyN n h caps v = some (h', caps', v') → Closed h → dataN true n h v = true → Eqv h' v' v) :
    ∀ (vs : List Val) (h : Heap) (caps : List Nat) (h' : Heap) (caps' : List Nat) (cs : List Val),
      foldVals (copyN n) h caps vs = some (h', caps', cs) → Closed h → (∀ x ∈ vs, dataN true n h x = true) →
      cs.length = vs.length ∧ ∀ (i : Nat) (c v : Val), cs[i]? = some c → vs[i]? = some v → Eqv h' c v := by
  intro vs
  induction vs with
  | nil =>
    intro h caps h' caps' cs e _ _
    simp [foldVals] at e
    obtain ⟨_, _, e3⟩ := e
    subst e3
    exact ⟨rfl, (fun i c v hc => by simp at hc)⟩
  | cons v vs ihl =>
    intro h caps h' caps' cs e c d
    unfold foldVals at e
    split at e
    · cases e
    · rename_i h1 c1 v1 e1
      split at e
      · cases e
      · rename_i h2 c2 vs2 e2
        injection e with e; injection e with e3 e4; injection e4 with e4 e5
        subst e3 e4 e5
        have q1 := ih _ _ _ _ _ _ e1 c (d v (List.mem_cons_self ..))
        have x1 := copyN_ext _ _ _ _ _ _ _ e1
        have cl1 := copyN_closed _ _ _ _ _ _ _ e1 c
        obtain ⟨l2, p2⟩ := ihl _ _ _ _ _ e2 cl1 (fun x hx => dataN_ext x1 c n x (d x (List.mem_cons_of_mem _ hx)))
        have x12 : Ext h1 h2 := foldVals_ext _ (copyN_ext n) _ _ _ _ _ _ e2
        refine ⟨by simp [l2], ?_⟩
        intro i a b ha hb
        cases i with
        | zero => simp at ha hb; subst ha hb; exact q1.mono x12
        | succ i => simp at ha hb; exact p2 i a b ha hb

/-- `copy(v)` is `Eqv`-equal to `v` for values without error values inside (`dataN true`). -/
theorem copyN_eqv : ∀ (n : Nat) (h : Heap) (caps : List Nat) (v : Val) (h' : Heap) (caps' : List Nat) (v' : Val),
    copyN n h caps v = some (h', caps', v') → Closed h → dataN true n h v = true → Eqv h' v' v := by
  intro n
  induction n with
  | zero => intro h caps v h' caps' v' e; simp [copyN] at e
  | succ n ih =>
    intro h caps v h' caps' v' e c d
    unfold copyN at e
    split at e
    · rename_i r
      simp only [dataN] at d
      split at e
      · rename_i m s off len cap ho
        rw [ho] at d; simp only at d
        have hoo := obj_some ho (by simp)
        obtain ⟨st, hs⟩ := closed_arr c hoo
        split at e
        · cases e
        · rename_i h1 caps1 cs ef
          injection e with e; injection e with e1 e2; injection e2 with e2 e3; subst e1 e2 e3
          obtain ⟨l1, p1⟩ := foldVals_copy_eqv ih _ _ _ _ _ _ ef c (fun x hx => List.all_eq_true.mp d x hx)
          have x1 : Ext h h1 := foldVals_ext _ (copyN_ext n) _ _ _ _ _ _ ef
          rw [content_eq hs] at l1 p1
          exact copied_arr_eqv _ (x1.objs _ _ hoo) (x1.astores _ _ hs) l1 p1
      · rename_i m s ho
        rw [ho] at d; simp only at d
        have hoo := obj_some ho (by simp)
        obtain ⟨kvs, hs⟩ := closed_map c hoo
        split at e
        · cases e
        · rename_i h1 caps1 cs ef
          injection e with e; injection e with e1 e2; injection e2 with e2 e3; subst e1 e2 e3
          obtain ⟨l1, p1⟩ := foldVals_copy_eqv ih _ _ _ _ _ _ ef c (fun x hx => List.all_eq_true.mp d x hx)
          have x1 : Ext h h1 := foldVals_ext _ (copyN_ext n) _ _ _ _ _ _ ef
          rw [mstore_eq hs] at l1 p1 ⊢
          exact copied_map_eqv (x1.objs _ _ hoo) (x1.mstores _ _ hs) l1 p1
      · rename_i p ho
        rw [ho] at d; simp at d
      · cases e
    · rename_i hnr
      injection e with e; injection e with e1 e2; injection e2 with e2 e3; subst e1 e2 e3
      exact eqv_refl_scalar _ hnr

/-! ### … also for the executable equality -/

theorem dataN_fin {h : Heap} : ∀ (n : Nat) (v : Val), dataN true n h v = true → Fin h n v := by
  intro n
  induction n with
  | zero => intro v d; simp [dataN] at d
  | succ n ih =>
    intro v d
    cases v with
    | undef => exact .undef _
    | int i => exact .int _ i
    | str s => exact .str _ s
    | opq s => exact .opq _ s (by simpa [dataN] using d)
    | ref r =>
      simp only [dataN] at d
      cases ho : h.obj r with
      | arr m s off len cap =>
        rw [ho] at d; simp only at d
        exact .arr ho (fun x hx => ih x (List.all_eq_true.mp d x hx))
      | map m s =>
        rw [ho] at d; simp only at d
        exact .map ho (fun x hx => ih x (List.all_eq_true.mp d x hx))
      | err p => rw [ho] at d; simp at d
      | dead => rw [ho] at d; simp at d

theorem fin_ext {h h' : Heap} (e : Ext h h') (c : Closed h) {n : Nat} {v : Val} (f : Fin h n v) : Fin h' n v := by
  induction f with
  | undef n => exact .undef n
  | int n i => exact .int n i
  | str n s => exact .str n s
  | opq n s cs => exact .opq n s cs
  | arr ho _ ih =>
    have hoo := obj_some ho (by simp)
    obtain ⟨st, hs⟩ := closed_arr c hoo
    refine .arr (obj_of_some (e.objs _ _ hoo)) ?_
    rw [content_ext_old e hs]; exact ih
  | map ho _ ih =>
    have hoo := obj_some ho (by simp)
    obtain ⟨st, hs⟩ := closed_map c hoo
    refine .map (obj_of_some (e.objs _ _ hoo)) ?_
    rw [ext_mstore_old e hs]; exact ih
  | err ho => exact .err (obj_of_some (e.objs _ _ (obj_some ho (by simp))))

theorem pointwise_mem {α : Type} {l1 l2 : List α} (hl : l1.length = l2.length) {x : α} (hx : x ∈ l1) :
    ∃ (i : Nat) (y : α), l1[i]? = some x ∧ l2[i]? = some y ∧ y ∈ l2 := by
  obtain ⟨i, hi⟩ := List.getElem?_of_mem hx
  have hlt : i < l2.length := by rw [← hl]; exact lt_of_lookup hi
  exact ⟨i, l2[i], hi, List.getElem?_eq_getElem hlt, List.getElem_mem hlt⟩

/-- `Eqv`-equal values have the same shape: the left one is as shallow and as comparable as the right one. -/
theorem fin_of_eqv {h : Heap} {n : Nat} {b : Val} (f : Fin h n b) : ∀ {a : Val}, Eqv h a b → Fin h n a := by
  induction f with
  | undef n => intro a q; cases q; exact .undef n
  | int n i => intro a q; cases q; exact .int n i
  | str n s => intro a q; cases q; exact .str n s
  | opq n s cs => intro a q; cases q; exact .opq n s cs
  | arr ho _ ih =>
    intro a q
    cases q with
    | arr hoa hob hsa hsb hl hp =>
      have e2 := obj_of_some hob; rw [ho] at e2; injection e2 with _ e2s e2o e2l _
      subst e2s e2o e2l
      refine .arr (obj_of_some hoa) ?_
      rw [content_eq hsa]
      intro x hx
      obtain ⟨i, y, hi, hy, hm⟩ := pointwise_mem hl hx
      exact ih _ (by rw [content_eq hsb]; exact hm) (hp i x y hi hy)
    | map hoa hob _ _ _ _ => have e2 := obj_of_some hob; rw [ho] at e2; cases e2
    | err hoa => have e2 := obj_of_some hoa; rw [ho] at e2; cases e2
  | map ho _ ih =>
    intro a q
    cases q with
    | arr hoa hob _ _ _ _ => have e2 := obj_of_some hob; rw [ho] at e2; cases e2
    | map hoa hob hsa hsb hk hp =>
      rename_i ka kb
      have e2 := obj_of_some hob; rw [ho] at e2; injection e2 with _ e2s
      subst e2s
      refine .map (obj_of_some hoa) ?_
      rw [mstore_eq hsa]
      intro x hx
      obtain ⟨i, y, hi, hy, hm⟩ := pointwise_mem (l2 := kb.map Prod.snd)
        (by have := congrArg List.length hk; simpa using this) hx
      exact ih _ (by rw [mstore_eq hsb]; exact hm) (hp i x y hi hy)
    | err hoa => have e2 := obj_of_some hoa; rw [ho] at e2; cases e2
  | err ho =>
    intro a q
    cases q with
    | arr hoa hob _ _ _ _ => have e2 := obj_of_some hob; rw [ho] at e2; cases e2
    | map hoa hob _ _ _ _ => have e2 := obj_of_some hob; rw [ho] at e2; cases e2
    | err hoa => exact .err ho

end Tengo.Proofs.C10Heap

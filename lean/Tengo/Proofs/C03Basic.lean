import Tengo.Model.Optimizer
/-!
C03 helper lemmas, part 1: well-formedness predicates (`Layout`, `WFJumps`, `OneOperand`) and the
structure of pass 2 (`marks` / `keepMarked` / `layout` / `posMap`) of `Tengo.Model.Optimizer`.
-/
namespace Tengo.Proofs.C03
open Tengo.Model Tengo.Model.Opcodes Tengo.Model.Optimizer

/-- Positions are consecutive from `s` by encoded instruction size. -/
def Layout : Nat → List Instr → Prop
  | _, [] => True
  | s, i :: is => i.pos = s ∧ Layout (s + i.size) is

/-- Every jump has an operand, and it is the position of an instruction of `is` or `endPos`. -/
def WFJumps (is : List Instr) (endPos : Nat) : Prop :=
  ∀ i ∈ is, isJump i.op = true → ∃ t, i.args.head? = some t ∧ (t = endPos ∨ ∃ j ∈ is, j.pos = t)

/-- Jump instructions carry exactly one operand (true of every decoded stream). -/
def OneOperand (is : List Instr) : Prop := ∀ i ∈ is, isJump i.op = true → i.args.length = 1

theorem size_pos (i : Instr) : 0 < i.size := by unfold Instr.size; omega

@[simp] theorem totalSize_nil : totalSize [] = 0 := rfl
@[simp] theorem totalSize_cons (a : Instr) (l : List Instr) :
    totalSize (a :: l) = a.size + totalSize l := by simp [totalSize]

theorem totalSize_append (l₁ l₂ : List Instr) :
    totalSize (l₁ ++ l₂) = totalSize l₁ + totalSize l₂ := by simp [totalSize]

/-! ### Layout -/

theorem layout_ge {s : Nat} {l : List Instr} (h : Layout s l) : ∀ x ∈ l, s ≤ x.pos := by
  induction l generalizing s with
  | nil => intro x hx; cases hx
  | cons a l ih =>
    intro x hx
    obtain ⟨h1, h2⟩ := h
    rcases List.mem_cons.mp hx with rfl | hx
    · omega
    · have := ih h2 x hx; omega

theorem layout_end {s : Nat} {l : List Instr} (h : Layout s l) :
    ∀ x ∈ l, x.pos + x.size ≤ s + totalSize l := by
  induction l generalizing s with
  | nil => intro x hx; cases hx
  | cons a l ih =>
    intro x hx
    obtain ⟨h1, h2⟩ := h
    rw [totalSize_cons]
    rcases List.mem_cons.mp hx with rfl | hx
    · omega
    · have := ih h2 x hx; omega

theorem layout_pairwise {s : Nat} {l : List Instr} (h : Layout s l) :
    l.Pairwise (fun a b => a.pos < b.pos) := by
  induction l generalizing s with
  | nil => exact List.Pairwise.nil
  | cons a l ih =>
    obtain ⟨h1, h2⟩ := h
    refine List.Pairwise.cons ?_ (ih h2)
    intro b hb
    have := layout_ge h2 b hb
    have := size_pos a
    omega

theorem layout_append_single {s : Nat} {l : List Instr} {z : Instr} (h : Layout s l)
    (hz : z.pos = s + totalSize l) : Layout s (l ++ [z]) := by
  induction l generalizing s with
  | nil => simpa [Layout] using hz
  | cons a l ih =>
    obtain ⟨h1, h2⟩ := h
    refine ⟨h1, ih h2 ?_⟩
    rw [totalSize_cons] at hz; omega

/-! ### pass 2: one step of `marks` -/

/-- Is the head instruction kept, given the Go variable `deadCode`? -/
def keepHead (ds : List Nat) (d : Bool) (a : Instr) : Bool := ds.contains a.pos || !d

/-- `deadCode` after the head instruction. -/
def nextDead (ds : List Nat) (d : Bool) (a : Instr) : Bool :=
  if ds.contains a.pos then false else if a.op == opReturn then true else d

theorem marks_cons (ds : List Nat) (d : Bool) (a : Instr) (is : List Instr) :
    marks ds d (a :: is) = keepHead ds d a :: marks ds (nextDead ds d a) is := by
  rw [marks.eq_2]
  unfold keepHead nextDead
  cases hc : ds.contains a.pos <;> cases hr : (a.op == opReturn) <;> cases d <;> simp

/-- The kept sub-list for an arbitrary `deadCode` state. -/
def K (ds : List Nat) (d : Bool) (is : List Instr) : List Instr := keepMarked is (marks ds d is)

theorem kept_eq (is : List Instr) : kept is = K (dsts is) false is := rfl

@[simp] theorem K_nil (ds : List Nat) (d : Bool) : K ds d [] = [] := by simp [K, keepMarked]

theorem K_cons (ds : List Nat) (d : Bool) (a : Instr) (is : List Instr) :
    K ds d (a :: is) =
      if keepHead ds d a then a :: K ds (nextDead ds d a) is else K ds (nextDead ds d a) is := by
  unfold K
  rw [marks_cons]
  cases keepHead ds d a <;> simp [keepMarked]

theorem keepHead_live (ds : List Nat) (a : Instr) : keepHead ds false a = true := by
  simp [keepHead]

theorem keepHead_dst {ds : List Nat} {a : Instr} (d : Bool) (h : a.pos ∈ ds) :
    keepHead ds d a = true := by
  simp [keepHead, h]

theorem nextDead_of_kept {ds : List Nat} {d : Bool} {a : Instr} (hk : keepHead ds d a = true)
    (hr : a.op ≠ opReturn) : nextDead ds d a = false := by
  unfold keepHead at hk
  unfold nextDead
  cases hc : ds.contains a.pos
  · rw [hc] at hk; simp at hk; simp [hr, hk]
  · simp

theorem K_sublist (ds : List Nat) (d : Bool) (is : List Instr) : (K ds d is).Sublist is := by
  induction is generalizing d with
  | nil => simp
  | cons a is ih =>
    rw [K_cons]
    split
    · exact (ih _).cons_cons a
    · exact (ih _).cons a

theorem mem_K_of_dst {ds : List Nat} {x : Instr} (hd : x.pos ∈ ds) :
    ∀ (is : List Instr) (d : Bool), x ∈ is → x ∈ K ds d is := by
  intro is
  induction is with
  | nil => intro d h; cases h
  | cons a is ih =>
    intro d h
    rw [K_cons]
    rcases List.mem_cons.mp h with rfl | h
    · simp [keepHead_dst d hd]
    · split
      · exact List.mem_cons_of_mem _ (ih _ h)
      · exact ih _ h

/-! ### new offsets (`layout`) -/

theorem mem_layout {x : Instr} {n : Nat} : ∀ {k : List Instr} {start : Nat},
    (x, n) ∈ layout start k → x ∈ k ∧ start ≤ n ∧ n + x.size ≤ start + totalSize k := by
  intro k
  induction k with
  | nil => intro start h; simp [layout] at h
  | cons a k ih =>
    intro start h
    simp only [layout, List.mem_cons, Prod.mk.injEq] at h
    rw [totalSize_cons]
    rcases h with ⟨rfl, rfl⟩ | h
    · simp
    · obtain ⟨h1, h2, h3⟩ := ih h
      exact ⟨List.mem_cons_of_mem _ h1, by omega, by omega⟩

theorem exists_layout {x : Instr} : ∀ {k : List Instr} (start : Nat),
    x ∈ k → ∃ n, (x, n) ∈ layout start k := by
  intro k
  induction k with
  | nil => intro start h; cases h
  | cons a k ih =>
    intro start h
    rcases List.mem_cons.mp h with rfl | h
    · exact ⟨start, by simp [layout]⟩
    · obtain ⟨n, hn⟩ := ih (start + a.size) h
      exact ⟨n, by simp [layout, hn]⟩

/-- Old positions and new offsets both increase strictly along `layout`. -/
theorem layout_pairwise2 : ∀ {k : List Instr} (start : Nat),
    k.Pairwise (fun a b => a.pos < b.pos) →
    (layout start k).Pairwise (fun a b => a.1.pos < b.1.pos ∧ a.2 < b.2) := by
  intro k
  induction k with
  | nil => intro start _; simp [layout]
  | cons a k ih =>
    intro start h
    rw [List.pairwise_cons] at h
    simp only [layout]
    refine List.Pairwise.cons ?_ (ih _ h.2)
    intro b hb
    obtain ⟨h1, h2, _⟩ := mem_layout (x := b.1) (n := b.2) hb
    have := size_pos a
    exact ⟨h.1 _ h1, by simp only; omega⟩

/-! ### `List.lookup` on `posMap` -/

theorem lookup_some_mem {l : List (Nat × Nat)} {a b : Nat} (h : l.lookup a = some b) :
    (a, b) ∈ l := by
  induction l with
  | nil => simp at h
  | cons p l ih =>
    obtain ⟨p1, p2⟩ := p
    rw [List.lookup_cons] at h
    split at h
    · rename_i heq
      have : a = p1 := by simpa using heq
      simp at h; subst h; subst this; simp
    · exact List.mem_cons_of_mem _ (ih h)

theorem lookup_some_of_mem {l : List (Nat × Nat)} {a b : Nat} (h : (a, b) ∈ l) :
    ∃ b', l.lookup a = some b' := by
  induction l with
  | nil => cases h
  | cons p l ih =>
    obtain ⟨p1, p2⟩ := p
    rw [List.lookup_cons]
    split
    · exact ⟨_, rfl⟩
    · rename_i hne
      rcases List.mem_cons.mp h with heq | h
      · simp only [Prod.mk.injEq] at heq; simp [heq.1] at hne
      · exact ih h

theorem lookup_none_of_not_mem {l : List (Nat × Nat)} {a : Nat} (h : ∀ b, (a, b) ∉ l) :
    l.lookup a = none := by
  cases hl : l.lookup a with
  | none => rfl
  | some b => exact absurd (lookup_some_mem hl) (h b)

/-- In a list with strictly increasing keys, membership determines `lookup`. -/
theorem lookup_of_sorted {l : List (Nat × Nat)} {a b : Nat}
    (hs : l.Pairwise (fun p q => p.1 < q.1)) (h : (a, b) ∈ l) : l.lookup a = some b := by
  induction l with
  | nil => cases h
  | cons p l ih =>
    obtain ⟨p1, p2⟩ := p
    rw [List.pairwise_cons] at hs
    rw [List.lookup_cons]
    rcases List.mem_cons.mp h with heq | h
    · simp only [Prod.mk.injEq] at heq; simp [heq.1, heq.2]
    · have := hs.1 _ h
      have hne : (a == p1) = false := by simp only at this; simp; omega
      rw [hne]; exact ih hs.2 h

theorem mem_posMap {k : List Instr} {p n : Nat} :
    (p, n) ∈ posMap k ↔ ∃ x, (x, n) ∈ layout 0 k ∧ x.pos = p := by
  unfold posMap
  simp only [List.mem_map, Prod.exists, Prod.mk.injEq]
  constructor
  · rintro ⟨x, m, h, rfl, rfl⟩; exact ⟨x, h, rfl⟩
  · rintro ⟨x, h, rfl⟩; exact ⟨x, n, h, rfl, rfl⟩

theorem posMap_sorted {k : List Instr} (hk : k.Pairwise (fun a b => a.pos < b.pos)) :
    (posMap k).Pairwise (fun p q => p.1 < q.1) := by
  unfold posMap
  rw [List.pairwise_map]
  exact (layout_pairwise2 0 hk).imp (fun h => h.1)

/-- The characterisation of `posMap` lookups used everywhere below. -/
theorem lookup_posMap_eq {k : List Instr} (hk : k.Pairwise (fun a b => a.pos < b.pos))
    {x : Instr} {n : Nat} (h : (x, n) ∈ layout 0 k) : (posMap k).lookup x.pos = some n :=
  lookup_of_sorted (posMap_sorted hk) (mem_posMap.mpr ⟨x, h, rfl⟩)

theorem lookup_posMap_some {k : List Instr} {p n : Nat} (h : (posMap k).lookup p = some n) :
    ∃ x, (x, n) ∈ layout 0 k ∧ x.pos = p := mem_posMap.mp (lookup_some_mem h)

theorem lookup_posMap_none {k : List Instr} {t : Nat} (h : ∀ x ∈ k, x.pos ≠ t) :
    (posMap k).lookup t = none := by
  apply lookup_none_of_not_mem
  intro b hb
  obtain ⟨x, hx, rfl⟩ := mem_posMap.mp hb
  exact h x (mem_layout hx).1 rfl

/-! ### successor of a kept instruction -/

/-- A kept instruction other than RETURN is followed, in the new layout, by the instruction that
followed it in the old layout — or it is the last instruction of both. -/
theorem succ_layout (ds : List Nat) : ∀ (is : List Instr) (d : Bool) (s start : Nat), Layout s is →
    ∀ x n, (x, n) ∈ layout start (K ds d is) → x.op ≠ opReturn →
      (∃ y, (y, n + x.size) ∈ layout start (K ds d is) ∧ y.pos = x.pos + x.size) ∨
      (x.pos + x.size = s + totalSize is ∧ n + x.size = start + totalSize (K ds d is) ∧
        (K ds d is).getLast? = some x) := by
  intro is
  induction is with
  | nil => intro d s start _ x n h; simp [layout] at h
  | cons a rest ih =>
    intro d s start hl x n h hr
    obtain ⟨hpos, hl'⟩ := hl
    rw [K_cons] at h ⊢
    cases hk : keepHead ds d a with
    | false =>
      simp only [hk, Bool.false_eq_true, if_false] at h ⊢
      rcases ih _ _ _ hl' x n h hr with h1 | ⟨h1, h2, h3⟩
      · exact Or.inl h1
      · exact Or.inr ⟨by rw [totalSize_cons]; omega, h2, h3⟩
    | true =>
      simp only [hk, if_true] at h ⊢
      simp only [layout, List.mem_cons, Prod.mk.injEq] at h
      rcases h with ⟨rfl, rfl⟩ | h
      · have hnd := nextDead_of_kept hk hr
        rw [hnd]
        cases rest with
        | nil => right; simp [totalSize_cons, hpos]
        | cons b rest' =>
          left
          refine ⟨b, ?_, ?_⟩
          · rw [K_cons, keepHead_live]; simp [layout]
          · rw [hl'.1, hpos]
      · rcases ih _ _ _ hl' x n h hr with ⟨y, hy, hy'⟩ | ⟨h1, h2, h3⟩
        · exact Or.inl ⟨y, by simp [layout, hy], hy'⟩
        · refine Or.inr ⟨by rw [totalSize_cons]; omega, by rw [totalSize_cons]; omega, ?_⟩
          rw [List.getLast?_cons, h3]; rfl

/-- The entry instruction is kept at new offset 0. -/
theorem first_layout (ds : List Nat) (a : Instr) (rest : List Instr) :
    (a, 0) ∈ layout 0 (K ds false (a :: rest)) := by
  rw [K_cons, keepHead_live]; simp [layout]

end Tengo.Proofs.C03

import Tengo.Proofs.VMSafe
import Tengo.Proofs.VMFrames
namespace Tengo.Model.VM
open Tengo.Model Tengo.Model.Spec Tengo.Model.Opcodes Tengo.Model.Verifier

/-- What the tail branch of OpCall leaves: the same frame, restarted. -/
def Restarted (c : Core) (o : ExecOut) : Prop :=
  ∃ c', o = .next c' false ∧ c'.cur.ip = -1 ∧ c'.cur.fnIdx = c.cur.fnIdx ∧ c'.cur.bp = c.cur.bp ∧
    c'.cur.fnRef = c.cur.fnRef ∧ c'.callers = c.callers

theorem finishCompiled_restarts (f : Fn) (ipAfter : Int) (c : Core) (r : Regs) (numArgs cr k : Nat)
    (free : List Nat) (cf : Fn) (ht : isSelfTail f c.cur cr ipAfter = true) :
    PostX (finishCompiled f ipAfter c r numArgs cr k free cf) (Restarted c) := by
  unfold finishCompiled
  rw [if_pos ht]
  apply PostX_bind'
  intro r'
  apply PostX_pure
  exact ⟨_, rfl, rfl, rfl, rfl, rfl, rfl⟩

/-- A self call in tail position restarts the function in the same frame. -/
theorem execCall_restarts (code : Code) (f : Fn) (ip : Int) (a0 a1 : Nat) (c : Core) (cr : Nat)
    (hcallee : getSlot c.regs (c.regs.sp - 1 - a0) = .cfn cr)
    (ht : isSelfTail f c.cur cr (ip + 2) = true) :
    PostX (execCall code f ip a0 a1 c) (Restarted c) := by
  unfold execCall
  dsimp only
  apply PostX_bind'
  intro _
  rw [hcallee]
  dsimp only
  repeat' (first
    | with_reducible apply PostX_rtE | with_reducible apply PostX_unsupE
    | (exact finishCompiled_restarts _ _ _ _ _ _ _ _ _ ht)
    | (with_reducible apply PostX_bind'; intro _)
    | split)

theorem SafeX_and {β} {m : XM β} {P Q : β → Prop} (h1 : SafeX m P) (h2 : PostX m Q) : SafeX m (fun v => P v ∧ Q v) := by
  intro g s v g' s' hr
  obtain ⟨a, ha, hp⟩ := h1 g s v g' s' hr
  exact ⟨a, ha, hp, h2 g s v g' s' hr a ha⟩

/-- **Self tail calls of a verified program run in constant space.** If the frame is about to execute a
call of the very function object it runs, directly followed by a return (or POP, return), then the
dispatch cannot fault and afterwards: the same callers (constant frame space), the same base pointer,
`ip` at the start of the function and the operand stack empty again — `sp = bp + NumLocals`
(constant operand-stack space) — and the invariant holds, so this repeats for every further iteration,
whatever the depth. -/
theorem self_tail_call_constant_space {code : Code} {t : ProgTabs} {G : Nat} (hck : checkProgram code G t = true)
    {c : Core} (hinv : Inv code t G c) (f : Fn) (cr : Nat)
    (hf : code.fn c.cur.fnIdx = some f)
    (hop : byteAt f (c.cur.ip + 1) = opCall)
    (hcallee : calleeOf f c = .cfn cr)
    (hself : c.cur.fnRef = some cr)
    (hnext : byteAt f (c.cur.ip + 1 + 2 + 1) = opReturn ∨
             (byteAt f (c.cur.ip + 1 + 2 + 1) = opPop ∧ byteAt f (c.cur.ip + 1 + 2 + 2) = opReturn)) :
    SafeX (exec code c) (fun o => ∃ c', o = .next c' false ∧ c'.callers = c.callers ∧ c'.cur.bp = c.cur.bp ∧
      c'.cur.fnRef = c.cur.fnRef ∧ c'.cur.ip = -1 ∧ c'.regs.sp = c.cur.bp + f.numLocals ∧ Inv code t G c') := by
  have htail : isSelfTail f c.cur cr (c.cur.ip + 1 + 2) = true := by
    unfold isSelfTail
    simp only [hself, beq_self_eq_true, Bool.true_and]
    rcases hnext with h | ⟨h1, h2⟩
    · simp [h]
    · simp [h1, h2]
  have h1 := exec_inv hck hinv
  have h3 : PostX (exec code c) (Restarted c) := by
    unfold exec
    rw [hf]
    dsimp only
    split
    · exact PostX_fault _
    rw [if_pos (by rw [fetch_op]; simp [hop])]
    exact execCall_restarts code f _ _ _ c cr hcallee htail
  refine SafeX_mono (SafeX_and h1 h3) ?_
  rintro o ⟨hgoal, c', rfl, hip, hidx, hbp, href, hcs⟩
  have hinv' : Inv code t G c' := hgoal
  obtain ⟨f', hf', hsp⟩ := entry_sp hck hinv' hip
  have : f' = f := by rw [hidx, hf] at hf'; injection hf' with h; exact h.symm
  subst this
  exact ⟨c', rfl, hcs, hbp, href, hip, by rw [hsp, hbp], hinv'⟩

end Tengo.Model.VM

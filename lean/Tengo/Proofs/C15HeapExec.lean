import Tengo.Model.HostHeap
import Tengo.Props.C15
/-!
C15 (heap model): one run of a Compiled's code and one Clone, concrete shared store vs. tagged specification.
-/
namespace Tengo.Proofs.C15Heap
open Tengo.Model.Host hiding execC Host ScriptSt CompiledSt Abs AScript ACompiled
open Tengo.Model.HostHeap
open Tengo.Props.C15 (mapVals hasKey_mapVals setKey_mapVals upsert_mapVals eraseKey_mapVals lookup_mapVals
  keys_mapVals length_mapVals mapVals_congr lookup_mem mem_set SlotsOK VarsOK deref_append deref_new slotOf_ok
  slotsOK_const)

/-- Abstraction of a reference: the object it points to, tagged with its address. -/
def tag (st : List TVal) (r : Nat) : Obj := (r, deref st r)
def absVars (st : List TVal) (vars : List (String × Nat)) : List (String × Obj) := mapVals (tag st) vars
def absEnv (st : List TVal) (sl : List (String × Option Nat)) : List (String × Option Obj) :=
  mapVals (Option.map (tag st)) sl

/-- The objects a Compiled / a Script holds. -/
def Refs (sl : List (String × Option Nat)) (r : Nat) : Prop := ∃ n, (n, some r) ∈ sl
def VRefs (vars : List (String × Nat)) (r : Nat) : Prop := ∃ n, (n, r) ∈ vars

theorem slotsOK_iff (n : Nat) (sl : List (String × Option Nat)) : SlotsOK n sl ↔ ∀ r, Refs sl r → r < n := by
  constructor
  · intro h r ⟨x, hx⟩; exact h _ hx r rfl
  · intro h p hp r hr
    obtain ⟨x, o⟩ := p
    simp only at hr; subst hr
    exact h r ⟨x, hp⟩

theorem varsOK_iff (n : Nat) (vars : List (String × Nat)) : VarsOK n vars ↔ ∀ r, VRefs vars r → r < n := by
  constructor
  · intro h r ⟨x, hx⟩; exact h _ hx
  · intro h p hp
    exact h p.2 ⟨p.1, hp⟩

theorem absEnv_congr (st st' : List TVal) (sl : List (String × Option Nat))
    (h : ∀ r, Refs sl r → deref st' r = deref st r) : absEnv st' sl = absEnv st sl := by
  apply mapVals_congr
  intro p hp
  obtain ⟨x, o⟩ := p
  cases o with
  | none => rfl
  | some r => simp [tag, h r ⟨x, hp⟩]

theorem absVars_congr (st st' : List TVal) (vars : List (String × Nat))
    (h : ∀ r, VRefs vars r → deref st' r = deref st r) : absVars st' vars = absVars st vars := by
  apply mapVals_congr
  intro p hp
  simp [tag, h p.2 ⟨p.1, hp⟩]

theorem objOf_absEnv (st : List TVal) (sl : List (String × Option Nat)) (x : String) :
    objOf (absEnv st sl) x = (slotOf sl x).map (tag st) := by
  unfold objOf slotOf absEnv
  rw [lookup_mapVals]
  cases sl.lookup x with
  | none => rfl
  | some o => cases o <;> rfl

theorem absEnv_setKey (st : List TVal) (sl : List (String × Option Nat)) (d : String) (o : Option Nat) :
    absEnv st (setKey d o sl) = setKey d (o.map (tag st)) (absEnv st sl) := by
  unfold absEnv
  rw [← setKey_mapVals]

theorem deref_set_ne (st : List TVal) (r r' : Nat) (c : TVal) (h : r' ≠ r) : deref (st.set r c) r' = deref st r' := by
  simp [deref, List.getElem?_set_ne (Ne.symm h)]

theorem deref_set_eq (st : List TVal) (r : Nat) (c : TVal) (h : r < st.length) : deref (st.set r c) r = c := by
  simp [deref, h]

theorem absEnv_set (st : List TVal) (sl : List (String × Option Nat)) (r : Nat) (c : TVal) (h : r < st.length) :
    absEnv (st.set r c) sl = updTag r c (absEnv st sl) := by
  simp only [absEnv, updTag, mapVals, List.map_map]
  apply List.map_congr_left
  intro p _
  obtain ⟨x, o⟩ := p
  cases o with
  | none => rfl
  | some r' =>
    by_cases hr : r' = r
    · subst hr; simp [tag, deref_set_eq st r' c h]
    · simp [tag, hr, deref_set_ne st r r' c hr]

theorem refs_setKey {sl : List (String × Option Nat)} {d : String} {o : Option Nat} {r : Nat}
    (h : Refs (setKey d o sl) r) : o = some r ∨ Refs sl r := by
  obtain ⟨x, hx⟩ := h
  simp only [setKey, List.mem_map] at hx
  obtain ⟨q, hq, he⟩ := hx
  obtain ⟨k, o'⟩ := q
  split at he
  · simp only [Prod.mk.injEq] at he; exact Or.inl he.2
  · simp only [Prod.mk.injEq] at he
    obtain ⟨rfl, rfl⟩ := he
    exact Or.inr ⟨_, hq⟩

theorem slotOf_refs {sl : List (String × Option Nat)} {x : String} {r : Nat} (h : slotOf sl x = some r) : Refs sl r := by
  unfold slotOf at h
  cases hl : sl.lookup x with
  | none => simp [hl] at h
  | some o =>
    simp [hl] at h
    subst h
    exact ⟨x, lookup_mem _ _ _ hl⟩

theorem tag_new (st : List TVal) (v : TVal) : tag (st ++ [v]) st.length = (st.length, v) := by
  simp [tag, deref_new]

theorem absEnv_const (st : List TVal) (sl : List (String × Option Nat)) (d : String) (v : TVal)
    (h : SlotsOK st.length sl) :
    absEnv (st ++ [v]) (setKey d (some st.length) sl) = setKey d (some (st.length, v)) (absEnv st sl) := by
  rw [absEnv_setKey, Option.map_some, tag_new]
  congr 1
  exact absEnv_congr _ _ _ (fun r hr => deref_append st [v] r ((slotsOK_iff _ _).1 h r hr))

theorem absEnv_var (st : List TVal) (sl : List (String × Option Nat)) (d x : String) :
    absEnv st (setKey d (slotOf sl x) sl) = setKey d (objOf (absEnv st sl) x) (absEnv st sl) := by
  rw [absEnv_setKey, objOf_absEnv]

/-- What one run of `code` over store `st` and globals `sl` does. -/
def ExecOK (code : List HStmt) (st : List TVal) (sl : List (String × Option Nat)) : Prop :=
  st.length ≤ (execC code st sl).1.length ∧
  SlotsOK (execC code st sl).1.length (execC code st sl).2.1 ∧
  (∀ r, Refs (execC code st sl).2.1 r → Refs sl r ∨ st.length ≤ r) ∧
  (∀ r, r < st.length → (code.all HStmt.pure = true ∨ ¬ Refs sl r) → deref (execC code st sl).1 r = deref st r) ∧
  execS code st.length (absEnv st sl) =
    ((execC code st sl).1.length, absEnv (execC code st sl).1 (execC code st sl).2.1, (execC code st sl).2.2)

theorem execOK_const (rest : List HStmt) (st : List TVal) (sl : List (String × Option Nat)) (d : String) (v : TVal)
    (hs : SlotsOK st.length sl) (s : HStmt)
    (hC : execC (s :: rest) st sl = execC rest (st ++ [v]) (setKey d (some st.length) sl))
    (hS : ∀ nx env, execS (s :: rest) nx env = execS rest (nx + 1) (setKey d (some (nx, v)) env))
    (_hp : s.pure = true)
    (ih : ExecOK rest (st ++ [v]) (setKey d (some st.length) sl)) : ExecOK (s :: rest) st sl := by
  obtain ⟨h1, h2, h3, h4, h5⟩ := ih
  unfold ExecOK
  rw [hC, hS]
  refine ⟨by simp at h1; omega, h2, ?_, ?_, ?_⟩
  · intro r hr
    rcases h3 r hr with h | h
    · rcases refs_setKey h with h | h
      · cases h; exact Or.inr (Nat.le_refl _)
      · exact Or.inl h
    · simp at h; exact Or.inr (by omega)
  · intro r hr hc
    rw [h4 r (by simp; omega) ?_, deref_append st [v] r hr]
    rcases hc with hc | hc
    · left; simp only [List.all_cons, Bool.and_eq_true] at hc; exact hc.2
    · right; intro h
      rcases refs_setKey h with h | h
      · cases h; omega
      · exact hc h
  · rw [← absEnv_const st sl d v hs]
    simpa using h5

theorem execOK_var (rest : List HStmt) (st : List TVal) (sl : List (String × Option Nat)) (d x : String)
    (s : HStmt)
    (hC : execC (s :: rest) st sl = execC rest st (setKey d (slotOf sl x) sl))
    (hS : ∀ nx env, execS (s :: rest) nx env = execS rest nx (setKey d (objOf env x) env))
    (_hp : s.pure = true)
    (ih : ExecOK rest st (setKey d (slotOf sl x) sl)) : ExecOK (s :: rest) st sl := by
  obtain ⟨h1, h2, h3, h4, h5⟩ := ih
  unfold ExecOK
  rw [hC, hS]
  refine ⟨h1, h2, ?_, ?_, ?_⟩
  · intro r hr
    rcases h3 r hr with h | h
    · rcases refs_setKey h with h | h
      · exact Or.inl (slotOf_refs h)
      · exact Or.inl h
    · exact Or.inr h
  · intro r hr hc
    apply h4 r hr
    rcases hc with hc | hc
    · left; simp only [List.all_cons, Bool.and_eq_true] at hc; exact hc.2
    · right; intro h
      rcases refs_setKey h with h | h
      · exact hc (slotOf_refs h)
      · exact hc h
  · rw [← absEnv_var]; exact h5

theorem exec_sim : ∀ (code : List HStmt) (st : List TVal) (sl : List (String × Option Nat)),
    SlotsOK st.length sl → ExecOK code st sl
  | [], st, sl, hs => ⟨Nat.le_refl _, by simpa [execC] using hs, fun r hr => Or.inl (by simpa [execC] using hr),
      fun r _ _ => by simp [execC], by simp [execC, execS]⟩
  | .fail :: rest, st, sl, hs => ⟨Nat.le_refl _, by simpa [execC] using hs, fun r hr => Or.inl (by simpa [execC] using hr),
      fun r _ _ => by simp [execC], by simp [execC, execS]⟩
  | .hidden k :: rest, st, sl, hs => by
      obtain ⟨h1, h2, h3, h4, h5⟩ := exec_sim rest st sl hs
      unfold ExecOK
      simp only [execC, execS]
      refine ⟨h1, h2, h3, ?_, h5⟩
      intro r hr hc
      apply h4 r hr
      rcases hc with hc | hc
      · left; simp only [List.all_cons, Bool.and_eq_true] at hc; exact hc.2
      · exact Or.inr hc
  | .define d (.const v) :: rest, st, sl, hs =>
      execOK_const rest st sl d v hs _ (by simp [execC]) (fun _ _ => by simp [execS]) rfl
        (exec_sim rest _ _ (slotsOK_const hs d v))
  | .assign d (.const v) :: rest, st, sl, hs =>
      execOK_const rest st sl d v hs _ (by simp [execC]) (fun _ _ => by simp [execS]) rfl
        (exec_sim rest _ _ (slotsOK_const hs d v))
  | .define d (.var x) :: rest, st, sl, hs =>
      execOK_var rest st sl d x _ (by simp [execC]) (fun _ _ => by simp [execS]) rfl
        (exec_sim rest _ _ (hs.setKey d _ (slotOf_ok hs x)))
  | .assign d (.var x) :: rest, st, sl, hs =>
      execOK_var rest st sl d x _ (by simp [execC]) (fun _ _ => by simp [execS]) rfl
        (exec_sim rest _ _ (hs.setKey d _ (slotOf_ok hs x)))
  | .upd d key v :: rest, st, sl, hs => by
      unfold ExecOK
      cases hd : slotOf sl d with
      | none =>
        simp only [execC, execS, hd, objOf_absEnv, Option.map_none]
        exact ⟨Nat.le_refl _, hs, fun r hr => Or.inl hr, by simp, by simp⟩
      | some r =>
        have hr : r < st.length := slotOf_ok hs d r hd
        cases hu : updCell key v (deref st r) with
        | none =>
          simp only [execC, execS, hd, objOf_absEnv, Option.map_some, tag, hu]
          exact ⟨Nat.le_refl _, hs, fun r hr => Or.inl hr, by simp, by simp⟩
        | some c =>
          have hs' : SlotsOK (st.set r c).length sl := by simpa using hs
          obtain ⟨h1, h2, h3, h4, h5⟩ := exec_sim rest (st.set r c) sl hs'
          simp only [execC, execS, hd, objOf_absEnv, Option.map_some, tag, hu]
          refine ⟨by simpa using h1, h2, ?_, ?_, ?_⟩
          · intro r' hr'
            rcases h3 r' hr' with h | h
            · exact Or.inl h
            · exact Or.inr (by simpa using h)
          · intro r' hr' hc
            have hn : ¬ Refs sl r' := by
              rcases hc with hc | hc
              · simp [HStmt.pure] at hc
              · exact hc
            rw [h4 r' (by simpa using hr') (Or.inr hn)]
            apply deref_set_ne
            intro he; subst he
            exact hn (slotOf_refs hd)
          · rw [← absEnv_set st sl r c hr]
            simpa using h5

/-! ### Clone -/

/-- What `Clone` does to the store and the new globals. -/
def CloneOK (sl : List (String × Option Nat)) (st : List TVal) : Prop :=
  (∃ ext, (cloneSlots sl st).1 = st ++ ext) ∧
  (∀ r, Refs (cloneSlots sl st).2 r → st.length ≤ r ∧ r < (cloneSlots sl st).1.length) ∧
  cloneEnv (absEnv st sl) st.length = ((cloneSlots sl st).1.length, absEnv (cloneSlots sl st).1 (cloneSlots sl st).2)

theorem clone_sim : ∀ (sl : List (String × Option Nat)) (st : List TVal), SlotsOK st.length sl → CloneOK sl st
  | [], st, _ => ⟨⟨[], by simp [cloneSlots]⟩, by intro r ⟨x, hx⟩; simp [cloneSlots] at hx,
      by simp [cloneSlots, cloneEnv, absEnv, mapVals]⟩
  | (n, none) :: rest, st, hs => by
      have hs' : SlotsOK st.length rest := fun p hp => hs p (List.mem_cons_of_mem _ hp)
      obtain ⟨h1, h2, h3⟩ := clone_sim rest st hs'
      unfold CloneOK
      simp only [cloneSlots]
      refine ⟨h1, ?_, ?_⟩
      · intro r ⟨x, hx⟩
        cases hx with
        | tail _ hx => exact h2 r ⟨x, hx⟩
      · simp only [absEnv, mapVals, List.map_cons, Option.map_none, cloneEnv] at h3 ⊢
        rw [h3]
  | (n, some r) :: rest, st, hs => by
      have hr : r < st.length := hs _ List.mem_cons_self r rfl
      have hs' : SlotsOK (st ++ [copyT (deref st r)]).length rest :=
        SlotsOK.mono (fun p hp => hs p (List.mem_cons_of_mem _ hp)) (by simp)
      obtain ⟨⟨ext, he⟩, h2, h3⟩ := clone_sim rest (st ++ [copyT (deref st r)]) hs'
      unfold CloneOK
      simp only [cloneSlots]
      refine ⟨⟨[copyT (deref st r)] ++ ext, by rw [he, List.append_assoc]⟩, ?_, ?_⟩
      · intro r' ⟨x, hx⟩
        cases hx with
        | head => rw [he]; simp
        | tail _ hx =>
          have := h2 r' ⟨x, hx⟩
          simp at this
          exact ⟨by omega, this.2⟩
      · have hd : deref (cloneSlots rest (st ++ [copyT (deref st r)])).1 st.length = copyT (deref st r) := by
          rw [he, deref_append _ _ _ (by simp), deref_new]
        have ha : absEnv (st ++ [copyT (deref st r)]) rest = absEnv st rest :=
          absEnv_congr _ _ _ (fun r' hr' => deref_append _ _ _
            ((slotsOK_iff _ _).1 (fun p hp => hs p (List.mem_cons_of_mem _ hp)) r' hr'))
        rw [ha] at h3
        simp only [List.length_append, List.length_cons, List.length_nil, Nat.zero_add] at h3
        simp only [absEnv, mapVals, List.map_cons, Option.map_some, cloneEnv, tag] at h3 hd ⊢
        rw [h3, hd]

end Tengo.Proofs.C15Heap

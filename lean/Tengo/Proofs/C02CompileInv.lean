import Tengo.Proofs.C02CompileAttr
import Tengo.Proofs.C02CompileBlocks
import Tengo.Proofs.C02CompileSym
/-!
C02 / `compile_verifies`: the invariant of the compiler state carried through the compilation
(`Inv`), the operand requirement of one instruction (`opReq`) and what every primitive of the `CM`
monad does to them.
-/
set_option linter.unusedVariables false
set_option linter.unusedSimpArgs false
namespace Tengo.Proofs.C02Compile
open Tengo.Model Tengo.Model.Opcodes Tengo.Model.Compiler Tengo.Model.Optimizer Tengo.Model.Verifier
open Tengo.Proofs.C03 Tengo.Proofs.C03Reloc

attribute [opc] opConstant opBComplement opPop opTrue opFalse opEqual opNotEqual opMinus opLNot opJumpFalsy
  opAndJump opOrJump opJump opNull opArray opMap opError opImmutable opIndex opSliceIndex opCall opReturn
  opGetGlobal opSetGlobal opSetSelGlobal opGetLocal opSetLocal opDefineLocal opSetSelLocal opGetFreePtr
  opGetFree opSetFree opGetLocalPtr opSetSelFree opGetBuiltin opClosure opIteratorInit opIteratorNext
  opIteratorKey opIteratorValue opBinaryOp opSuspend

/-- What the operands of the function being compiled may refer to. -/
structure Env where
  numLocals : Nat
  numFree : Nat
  nGlobals : Nat
  inFn : Bool

def envOf (c : Chain) : Env := ⟨locMax c, freeCnt c, rootMax c, !globalCtx c⟩

def isFnC : Const → Bool
  | .fn .. => true
  | _ => false

def arg0 (i : Instr) : Nat := i.args.headD 0
def arg1 (i : Instr) : Nat := (i.args.drop 1).headD 0

inductive OpClass where
  | susp | ret | const | closure | loc | selLoc | free | selFree | builtin | glob | selGlob | map | arr | call
  | binop | other
  deriving DecidableEq, Repr

def opClass (op : Nat) : OpClass :=
  if op = opSuspend then .susp
  else if op = opReturn then .ret
  else if op = opConstant then .const
  else if op = opClosure then .closure
  else if op = opGetLocal ∨ op = opSetLocal ∨ op = opDefineLocal ∨ op = opGetLocalPtr then .loc
  else if op = opSetSelLocal then .selLoc
  else if op = opGetFree ∨ op = opSetFree ∨ op = opGetFreePtr then .free
  else if op = opSetSelFree then .selFree
  else if op = opGetBuiltin then .builtin
  else if op = opGetGlobal ∨ op = opSetGlobal then .glob
  else if op = opSetSelGlobal then .selGlob
  else if op = opMap then .map
  else if op = opArray then .arr
  else if op = opCall then .call
  else if op = opBinaryOp then .binop
  else .other

/-- The operand requirement of one instruction against the constant pool `cs` (with the number of
captured variables `F[k]` of each function constant), and the environment of its function. Jumps are
not constrained here (their targets are the business of the block layer). -/
def opReq (cs : List Const) (F : List Nat) (env : Env) (i : Instr) : Prop :=
  match opClass i.op with
  | .susp => False
  | .ret => env.inFn = true ∧ arg0 i ≤ 1
  | .const => ∃ c, cs[arg0 i]? = some c ∧ (isFnC c = true → F[arg0 i]? = some 0)
  | .closure =>
    ∃ c, cs[arg0 i]? = some c ∧ isFnC c = true ∧ F[arg0 i]? = some (arg1 i) ∧ arg1 i ≤ 255 ∧ 1 ≤ arg1 i
  | .loc => arg0 i < env.numLocals
  | .selLoc => arg0 i < env.numLocals ∧ arg1 i ≤ 255
  | .free => arg0 i < env.numFree
  | .selFree => arg0 i < env.numFree ∧ arg1 i ≤ 255
  | .builtin => arg0 i < Spec.builtinNames.length
  | .glob => arg0 i < env.nGlobals
  | .selGlob => arg0 i < env.nGlobals ∧ arg1 i ≤ 255
  | .map => arg0 i % 2 = 0 ∧ arg0 i ≤ 65535
  | .arr => arg0 i ≤ 65535
  | .call => arg0 i ≤ 255 ∧ arg1 i ≤ 1 ∧ (arg1 i = 1 → 1 ≤ arg0 i)
  | .binop => arg0 i < 256
  | .other => True

theorem prefix_get {α : Type} {l l' : List α} (h : l <+: l') {k : Nat} {a : α} (hk : l[k]? = some a) :
    l'[k]? = some a := by
  obtain ⟨t, rfl⟩ := h
  have hlt : k < l.length := by
    rcases Nat.lt_or_ge k l.length with h | h
    · exact h
    · rw [List.getElem?_eq_none h] at hk; cases hk
  rw [List.getElem?_append_left hlt]; exact hk

def Env.le (e e' : Env) : Prop :=
  e.numLocals ≤ e'.numLocals ∧ e.numFree ≤ e'.numFree ∧ e.nGlobals ≤ e'.nGlobals ∧ e.inFn = e'.inFn

theorem Env.le_refl (e : Env) : e.le e := ⟨Nat.le_refl _, Nat.le_refl _, Nat.le_refl _, rfl⟩

theorem envOf_le {c c' : Chain} (h : ChainLe c c') : (envOf c).le (envOf c') :=
  ⟨h.locMax, h.freeCnt, h.rootMax, by show (!globalCtx c) = (!globalCtx c'); rw [h.globalCtx]⟩

theorem opReq.mono {cs cs' : List Const} {F F' : List Nat} {env env' : Env} {i : Instr}
    (hcs : cs <+: cs') (hF : F <+: F') (he : env.le env') (h : opReq cs F env i) : opReq cs' F' env' i := by
  obtain ⟨h1, h2, h3, h4⟩ := he
  unfold opReq at h ⊢
  cases hc : opClass i.op <;> simp only [hc] at h ⊢
  · exact ⟨h4 ▸ h.1, h.2⟩
  · obtain ⟨c, hc, hf⟩ := h
    exact ⟨c, prefix_get hcs hc, fun hh => prefix_get hF (hf hh)⟩
  · obtain ⟨c, hc, hf, hn, hb⟩ := h
    exact ⟨c, prefix_get hcs hc, hf, prefix_get hF hn, hb⟩
  all_goals first | exact h | omega

/-- evaluation of `opReq` on an instruction whose opcode class is known -/
theorem opReq_other {cs : List Const} {F : List Nat} {env : Env} {p op : Nat} {args : List Nat}
    (h : opClass op = .other) : opReq cs F env ⟨p, op, args⟩ := by
  unfold opReq; simp only [h]

theorem jump_class {op : Nat} (h : isJump op = true) : opClass op = .other := by
  simp only [isJump, Bool.or_eq_true, beq_iff_eq] at h
  rcases h with ((h | h) | h) | h <;> subst h <;> rfl

/-- jumps are not constrained, whatever their operand -/
theorem opReq_jump {cs : List Const} {F : List Nat} {env : Env} {i : Instr} (h : isJump i.op = true) :
    opReq cs F env i := by
  unfold opReq; rw [jump_class h]; trivial

example (cs F env) (p : Nat) : opReq cs F env ⟨p, opNull, []⟩ := opReq_other rfl

/-! ### the invariant -/

/-- What is recorded about a finished function constant: its code is the optimizer's output for a raw
body `Lb` (ideal operands) that is a closed statement block, with operands in range for `nl` locals
and `n` captured variables. -/
def FnRec (cs : List Const) (F : List Nat) (G : Nat) (code : Bytes) (nl n : Nat) : Prop :=
  ∃ (Lb : List Instr) (H : Nat → Nat) (r : Optimizer.Result),
    Layout 0 Lb ∧ (∀ i ∈ Lb, Shape i) ∧ Optimizer.opt (encode Lb) [] 0 = .ok r ∧ code = r.bytes ∧
    Core 0 (totalSize Lb) 0 0 H Lb NoT ∧ (∀ i ∈ Lb, opReq cs F ⟨nl, n, G, true⟩ i) ∧
    nl ≤ 256 ∧ n ≤ 255 ∧ totalSize Lb < 2 ^ 30

def ConstsOK (cs : List Const) (F : List Nat) (G : Nat) : Prop :=
  ∀ (k : Nat) code nl np va, cs[k]? = some (Const.fn code nl np va) → ∃ n, F[k]? = some n ∧ FnRec cs F G code nl n

theorem FnRec.mono {cs cs' : List Const} {F F' : List Nat} {G G' : Nat} {code : Bytes} {nl n : Nat}
    (hcs : cs <+: cs') (hF : F <+: F') (hG : G ≤ G') (h : FnRec cs F G code nl n) : FnRec cs' F' G' code nl n := by
  obtain ⟨Lb, H, r, h1, h2, h3, h4, h5, h6, h7⟩ := h
  exact ⟨Lb, H, r, h1, h2, h3, h4, h5,
    fun i hi => (h6 i hi).mono (env := ⟨nl, n, G, true⟩) (env' := ⟨nl, n, G', true⟩) hcs hF ⟨Nat.le_refl _, Nat.le_refl _, hG, rfl⟩, h7⟩

/-- The invariant of the compiler state: `L` is the (ideal) instruction list of the function being
compiled, `F[k]` the number of captured variables of function constant `k`. -/
structure Inv (s : CState) (L : List Instr) (F : List Nat) : Prop where
  em : Emitted s L
  flen : F.length = s.consts.size
  tinv : TInv s.tables
  wfc : WFC s.tables
  ops : ∀ i ∈ L, opReq s.consts.toList F (envOf s.tables) i
  cok : ConstsOK s.consts.toList F (rootMax s.tables)

/-- What a compilation step may change besides the instruction list. -/
structure Step (s s' : CState) (F F' : List Nat) : Prop where
  saved : s'.saved = s.saved
  tabs : ChainLe s.tables s'.tables
  consts : s.consts.toList <+: s'.consts.toList
  fs : F <+: F'

theorem Step.refl (s : CState) (F : List Nat) : Step s s F F :=
  ⟨rfl, ChainLe.refl _, List.prefix_refl _, List.prefix_refl _⟩

theorem Step.trans {s₁ s₂ s₃ : CState} {F₁ F₂ F₃ : List Nat} (h1 : Step s₁ s₂ F₁ F₂) (h2 : Step s₂ s₃ F₂ F₃) :
    Step s₁ s₃ F₁ F₃ :=
  ⟨h2.saved.trans h1.saved, h1.tabs.trans h2.tabs, h1.consts.trans h2.consts, h1.fs.trans h2.fs⟩

theorem Step.of_eq {s s' : CState} (F : List Nat) (h1 : s'.saved = s.saved) (h2 : s'.tables = s.tables)
    (h3 : s'.consts = s.consts) : Step s s' F F :=
  ⟨h1, by rw [h2]; exact ChainLe.refl _, by rw [h3]; exact List.prefix_refl _, List.prefix_refl _⟩

theorem Step.opReq {s s' : CState} {F F' : List Nat} (h : Step s s' F F') {i : Instr}
    (hi : opReq s.consts.toList F (envOf s.tables) i) : opReq s'.consts.toList F' (envOf s'.tables) i :=
  hi.mono h.consts h.fs (envOf_le h.tabs)

theorem Inv.of_eq {s s' : CState} {L : List Instr} {F : List Nat} (h : Inv s L F) (h1 : s'.insts = s.insts)
    (h2 : s'.tables = s.tables) (h3 : s'.consts = s.consts) : Inv s' L F := by
  obtain ⟨⟨hb, hl, hs⟩, hf, ht, hw, ho, hc⟩ := h
  exact ⟨⟨by rw [h1]; exact hb, hl, hs⟩, by rw [h3]; exact hf, by rw [h2]; exact ht, by rw [h2]; exact hw,
    by rw [h2, h3]; exact ho, by rw [h2, h3]; exact hc⟩

/-- `emit`: one more instruction, which must satisfy the operand requirement. -/
theorem Inv.emit {s : CState} {L : List Instr} {F : List Nat} (h : Inv s L F) {op : Nat} {args : List Nat}
    (hs : Shape ⟨totalSize L, op, args⟩)
    (ho : opReq s.consts.toList F (envOf s.tables) ⟨totalSize L, op, args⟩) :
    Inv (emitS op args s) (L ++ [⟨totalSize L, op, args⟩]) F := by
  refine ⟨emit_emitted h.em hs, h.flen, h.tinv, h.wfc, ?_, h.cok⟩
  intro i hi
  rcases List.mem_append.mp hi with hi | hi
  · exact h.ops i hi
  · simp only [List.mem_singleton] at hi; subst hi; exact ho

theorem isJump_widths {op : Nat} (h : isJump op = true) : widths op = some [4] := widths_jump h

/-- `changeOperand` on a jump. -/
theorem Inv.chg {s : CState} {L : List Instr} {F : List Nat} (h : Inv s L F) {i : Instr} {p t : Nat}
    (hi : i ∈ L) (hp : i.pos = p) (hj : isJump i.op = true) :
    Inv (chgS p t s) (L.map (patchI p t)) F := by
  have hcs : (chgS p t s).consts = s.consts := by unfold chgS; split <;> rfl
  have hts : (chgS p t s).tables = s.tables := by unfold chgS; split <;> rfl
  refine ⟨changeOperand_emitted h.em hi hp (isJump_widths hj), by rw [hcs]; exact h.flen,
    by rw [hts]; exact h.tinv, by rw [hts]; exact h.wfc, ?_, by rw [hcs, hts]; exact h.cok⟩
  intro j hjm
  rw [hcs, hts]
  obtain ⟨j0, hj0, rfl⟩ := List.mem_map.mp hjm
  unfold patchI
  split
  · rename_i hjp
    have : j0 = i := by
      have hpw := layout_pairwise h.em.lay
      by_cases e : j0 = i
      · exact e
      · exfalso
        obtain ⟨L₁, L₂, rfl, _, hlt, hgt⟩ := layout_split_at h.em.lay hi
        rcases List.mem_append.mp hj0 with hm | hm
        · have := hlt j0 hm; omega
        · rcases List.mem_cons.mp hm with rfl | hm
          · exact e rfl
          · have := hgt j0 hm; omega
    subst this
    exact opReq_jump hj
  · exact h.ops j0 hj0

theorem chgS_frame (p t : Nat) (s : CState) : (chgS p t s).consts = s.consts ∧ (chgS p t s).tables = s.tables ∧
    (chgS p t s).saved = s.saved ∧ (chgS p t s).loops = s.loops := by
  unfold chgS; split <;> exact ⟨rfl, rfl, rfl, rfl⟩

/-! ### constants -/

def addS (k : Const) (s : CState) : CState := { s with consts := s.consts.push k }

theorem addConstant_run (k : Const) (s : CState) : addConstant k s = .ok (s.consts.size, addS k s) := rfl

theorem addConstant_ok {k : Const} {s : CState} {r : Nat × CState} (h : addConstant k s = .ok r) :
    r = (s.consts.size, addS k s) := by
  rw [addConstant_run] at h; injection h with h; exact h.symm

theorem getElem?_append_last {α : Type} (l : List α) (a : α) : (l ++ [a])[l.length]? = some a := by
  simp

/-- adding a constant: everything recorded stays valid; the new constant needs its record if it is a
function -/
theorem Inv.add {s : CState} {L : List Instr} {F : List Nat} (h : Inv s L F) (k : Const) (n : Nat)
    (hk : ∀ code nl np va, k = Const.fn code nl np va →
      FnRec (s.consts.toList ++ [k]) (F ++ [n]) (rootMax s.tables) code nl n) :
    Inv (addS k s) L (F ++ [n]) ∧ Step s (addS k s) F (F ++ [n]) := by
  have hcs : (addS k s).consts.toList = s.consts.toList ++ [k] := by simp [addS]
  have hst : Step s (addS k s) F (F ++ [n]) :=
    ⟨rfl, ChainLe.refl _, by rw [hcs]; exact List.prefix_append _ _, List.prefix_append _ _⟩
  refine ⟨⟨⟨h.em.bytes, h.em.lay, h.em.shape⟩, by simp [addS, h.flen], h.tinv, h.wfc,
    fun i hi => hst.opReq (h.ops i hi), ?_⟩, hst⟩
  intro j code nl np va hj
  rw [hcs] at hj ⊢
  change ∃ m, (F ++ [n])[j]? = some m ∧ FnRec (s.consts.toList ++ [k]) (F ++ [n]) (rootMax s.tables) code nl m
  by_cases hlt : j < s.consts.toList.length
  · rw [List.getElem?_append_left hlt] at hj
    obtain ⟨m, hm, hrec⟩ := h.cok j code nl np va hj
    exact ⟨m, prefix_get (List.prefix_append _ _) hm,
      hrec.mono (List.prefix_append _ _) (List.prefix_append _ _) (Nat.le_refl _)⟩
  · have hlen : j = s.consts.toList.length := by
      have : j < (s.consts.toList ++ [k]).length := by
        rcases Nat.lt_or_ge j (s.consts.toList ++ [k]).length with h | h
        · exact h
        · rw [List.getElem?_eq_none h] at hj; cases hj
      simp only [List.length_append, List.length_cons, List.length_nil] at this
      omega
    subst hlen
    rw [getElem?_append_last] at hj
    injection hj with hj
    refine ⟨n, ?_, hk code nl np va hj⟩
    have : s.consts.toList.length = F.length := by rw [h.flen]; simp
    rw [this]; exact getElem?_append_last F n

/-- the constant just added, loaded by `CONST` -/
theorem opReq_const_new {s : CState} {F : List Nat} (hf : F.length = s.consts.size) (k : Const) (n p : Nat)
    (hk : isFnC k = true → n = 0) (env : Env) :
    opReq (addS k s).consts.toList (F ++ [n]) env ⟨p, opConstant, [s.consts.size]⟩ := by
  have hcs : (addS k s).consts.toList = s.consts.toList ++ [k] := by simp [addS]
  unfold opReq
  have hc : opClass (Instr.mk p opConstant [s.consts.size]).op = .const := rfl
  simp only [hc, arg0, List.headD_cons]
  refine ⟨k, ?_, fun hfn => ?_⟩
  · rw [hcs]
    have : s.consts.size = s.consts.toList.length := by simp
    rw [this]; exact getElem?_append_last _ _
  · rw [← hf, hk hfn]; exact getElem?_append_last F 0

/-! ### symbols -/

def defS (n : String) (s : CState) : Sym × CState :=
  ((defineIn n s.nextId s.tables).1,
   { s with nextId := s.nextId + 1, assigned := s.assigned.push false,
            tables := (defineIn n s.nextId s.tables).2 })

theorem define_run (n : String) (s : CState) : define n s = .ok (defS n s) := rfl

theorem define_ok {n : String} {s : CState} {r : Sym × CState} (h : define n s = .ok r) : r = defS n s := by
  rw [define_run] at h; injection h with h; exact h.symm

theorem Inv.define {s : CState} {L : List Instr} {F : List Nat} (h : Inv s L F) (n : String) :
    Inv (defS n s).2 L F ∧ Step s (defS n s).2 F F ∧ SymOK (defS n s).2.tables (defS n s).1 ∧
      ((defS n s).1.scope = .local ∨ (defS n s).1.scope = .global) := by
  obtain ⟨h1, h2, h3, h4⟩ := defineIn_spec n s.nextId s.tables h.wfc h.tinv
  have hst : Step s (defS n s).2 F F := ⟨rfl, h2, List.prefix_refl _, List.prefix_refl _⟩
  exact ⟨⟨⟨h.em.bytes, h.em.lay, h.em.shape⟩, h.flen, h1, h2.wfc h.wfc, fun i hi => hst.opReq (h.ops i hi),
    fun k code nl np va hk => by
      obtain ⟨m, hm, hrec⟩ := h.cok k code nl np va hk
      exact ⟨m, hm, hrec.mono (List.prefix_refl _) (List.prefix_refl _) h2.rootMax⟩⟩, hst, h3, h4⟩

def resS (n : String) (s : CState) : Option (Sym × Nat) × CState :=
  ((resolveIn (isAssigned s) n s.tables false s.nextId).1,
   { s with tables := (resolveIn (isAssigned s) n s.tables false s.nextId).2.1,
            nextId := (resolveIn (isAssigned s) n s.tables false s.nextId).2.2,
            assigned := s.assigned ++ (List.replicate
              ((resolveIn (isAssigned s) n s.tables false s.nextId).2.2 - s.nextId) false).toArray })

theorem resolve_run (n : String) (s : CState) : resolve n s = .ok (resS n s) := rfl

theorem resolve_ok {n : String} {s : CState} {r : Option (Sym × Nat) × CState} (h : resolve n s = .ok r) :
    r = resS n s := by
  rw [resolve_run] at h; injection h with h; exact h.symm

theorem Inv.resolve {s : CState} {L : List Instr} {F : List Nat} (h : Inv s L F) (n : String) :
    Inv (resS n s).2 L F ∧ Step s (resS n s).2 F F ∧
      (∀ sym d, (resS n s).1 = some (sym, d) → SymOK (resS n s).2.tables sym) := by
  obtain ⟨h1, h2, h3⟩ := resolveIn_spec (isAssigned s) n s.tables false s.nextId _ _ _ rfl h.tinv
  have hst : Step s (resS n s).2 F F := ⟨rfl, h2, List.prefix_refl _, List.prefix_refl _⟩
  exact ⟨⟨⟨h.em.bytes, h.em.lay, h.em.shape⟩, h.flen, h1, h2.wfc h.wfc, fun i hi => hst.opReq (h.ops i hi),
    fun k code nl np va hk => by
      obtain ⟨m, hm, hrec⟩ := h.cok k code nl np va hk
      exact ⟨m, hm, hrec.mono (List.prefix_refl _) (List.prefix_refl _) h2.rootMax⟩⟩, hst, h3⟩

/-! ### scopes of the symbol table -/

def forkS (b : Bool) (s : CState) : CState := { s with tables := { block := b } :: s.tables }
def unforkS (s : CState) : CState := { s with tables := s.tables.drop 1 }

theorem fork_run (b : Bool) (s : CState) : fork b s = .ok ((), forkS b s) := rfl
theorem unfork_run (s : CState) : unfork s = .ok ((), unforkS s) := rfl

theorem WFC.ne_nil {c : Chain} (h : WFC c) : c.isEmpty = false := by
  cases c with
  | nil => exact h.elim
  | cons t ps => rfl

theorem envOf_block {t : Table} {ps : Chain} (hb : t.block = true) (hne : ps.isEmpty = false) :
    envOf (t :: ps) = envOf ps := by
  simp only [envOf, locMax, freeCnt, globalCtx, hb, if_true, rootMax_cons hne]

theorem WFC.cons {t : Table} {ps : Chain} (h : WFC ps) : WFC (t :: ps) := by
  cases ps with
  | nil => exact h.elim
  | cons p ps => exact h

theorem WFC.tail {t : Table} {ps : Chain} (h : WFC (t :: ps)) (hne : ps.isEmpty = false) : WFC ps := by
  cases ps with
  | nil => simp at hne
  | cons p ps => exact h

/-- a new block scope changes nothing the invariant looks at -/
theorem Inv.fork {s : CState} {L : List Instr} {F : List Nat} (h : Inv s L F) : Inv (forkS true s) L F := by
  have hne := h.wfc.ne_nil
  refine ⟨⟨h.em.bytes, h.em.lay, h.em.shape⟩, h.flen, ⟨fun p hp => (by cases hp), fun hb => (by cases hb), h.tinv⟩,
    h.wfc.cons, ?_, ?_⟩
  · intro i hi
    show opReq _ _ (envOf (_ :: s.tables)) i
    rw [envOf_block rfl hne]; exact h.ops i hi
  · show ConstsOK _ _ (rootMax (_ :: s.tables))
    rw [rootMax_cons hne]; exact h.cok

/-- leaving a block scope -/
theorem Inv.unfork {s : CState} {L : List Instr} {F : List Nat} {t : Table} {ps : Chain} (h : Inv s L F)
    (ht : s.tables = t :: ps) (hb : t.block = true) (hne : ps.isEmpty = false) : Inv (unforkS s) L F := by
  have htl : (unforkS s).tables = ps := by simp [unforkS, ht]
  obtain ⟨hem, hf, hti, hw, ho, hc⟩ := h
  rw [ht] at hti hw ho hc
  refine ⟨⟨hem.bytes, hem.lay, hem.shape⟩, hf, by rw [htl]; exact hti.2.2, by rw [htl]; exact hw.tail hne, ?_, ?_⟩
  · intro i hi
    rw [htl, ← envOf_block hb hne]; exact ho i hi
  · rw [htl, ← rootMax_cons (t := t) hne]; exact hc

/-- `fork true; …; unfork` as one step -/
theorem Step.unfork {s s₁ : CState} {F F' : List Nat} (h : Step (forkS true s) s₁ F F') :
    Step s (unforkS s₁) F F' ∧ ∃ t ps, s₁.tables = t :: ps ∧ t.block = true ∧ ps.isEmpty = s.tables.isEmpty := by
  have ht := h.tabs
  generalize hc1 : s₁.tables = c1 at ht
  cases c1 with
  | nil => exact ht.elim
  | cons t ps =>
    obtain ⟨⟨hb, _, _⟩, hps⟩ := ht
    refine ⟨⟨h.saved, by simp only [unforkS, hc1, List.drop_one, List.tail_cons]; exact hps, h.consts, h.fs⟩, t, ps, rfl,
      hb.symm, hps.isEmpty.symm⟩

/-! ### operand requirement of variable accesses -/

theorem opReq_glob {cs : List Const} {F : List Nat} {c : Chain} {sym : Sym} (hs : SymOK c sym)
    (hsc : sym.scope = .global) {p op : Nat} (hop : opClass op = .glob) :
    opReq cs F (envOf c) ⟨p, op, [sym.index]⟩ := by
  unfold opReq; simp only [hop, arg0, List.headD_cons]
  unfold SymOK at hs; simp only [hsc] at hs; exact hs

theorem opReq_loc {cs : List Const} {F : List Nat} {c : Chain} {sym : Sym} (hs : SymOK c sym)
    (hsc : sym.scope = .local) {p op : Nat} (hop : opClass op = .loc) :
    opReq cs F (envOf c) ⟨p, op, [sym.index]⟩ := by
  unfold opReq; simp only [hop, arg0, List.headD_cons]
  unfold SymOK at hs; simp only [hsc] at hs; exact hs

theorem opReq_free {cs : List Const} {F : List Nat} {c : Chain} {sym : Sym} (hs : SymOK c sym)
    (hsc : sym.scope = .free) {p op : Nat} (hop : opClass op = .free) :
    opReq cs F (envOf c) ⟨p, op, [sym.index]⟩ := by
  unfold opReq; simp only [hop, arg0, List.headD_cons]
  unfold SymOK at hs; simp only [hsc] at hs; exact hs

theorem opReq_builtin {cs : List Const} {F : List Nat} {c : Chain} {sym : Sym} (hs : SymOK c sym)
    (hsc : sym.scope = .builtin) {p : Nat} :
    opReq cs F (envOf c) ⟨p, opGetBuiltin, [sym.index]⟩ := by
  unfold opReq
  have hop : opClass (Instr.mk p opGetBuiltin [sym.index]).op = .builtin := rfl
  simp only [hop, arg0, List.headD_cons]
  unfold SymOK at hs; simp only [hsc] at hs; exact hs

theorem opReq_selGlob {cs : List Const} {F : List Nat} {c : Chain} {sym : Sym} (hs : SymOK c sym)
    (hsc : sym.scope = .global) {p k : Nat} (hk : k ≤ 255) :
    opReq cs F (envOf c) ⟨p, opSetSelGlobal, [sym.index, k]⟩ := by
  unfold opReq
  have hop : opClass (Instr.mk p opSetSelGlobal [sym.index, k]).op = .selGlob := rfl
  simp only [hop, arg0, arg1, List.headD_cons, List.drop_one, List.tail_cons]
  unfold SymOK at hs; simp only [hsc] at hs; exact ⟨hs, hk⟩

theorem opReq_selLoc {cs : List Const} {F : List Nat} {c : Chain} {sym : Sym} (hs : SymOK c sym)
    (hsc : sym.scope = .local) {p k : Nat} (hk : k ≤ 255) :
    opReq cs F (envOf c) ⟨p, opSetSelLocal, [sym.index, k]⟩ := by
  unfold opReq
  have hop : opClass (Instr.mk p opSetSelLocal [sym.index, k]).op = .selLoc := rfl
  simp only [hop, arg0, arg1, List.headD_cons, List.drop_one, List.tail_cons]
  unfold SymOK at hs; simp only [hsc] at hs; exact ⟨hs, hk⟩

theorem opReq_selFree {cs : List Const} {F : List Nat} {c : Chain} {sym : Sym} (hs : SymOK c sym)
    (hsc : sym.scope = .free) {p k : Nat} (hk : k ≤ 255) :
    opReq cs F (envOf c) ⟨p, opSetSelFree, [sym.index, k]⟩ := by
  unfold opReq
  have hop : opClass (Instr.mk p opSetSelFree [sym.index, k]).op = .selFree := rfl
  simp only [hop, arg0, arg1, List.headD_cons, List.drop_one, List.tail_cons]
  unfold SymOK at hs; simp only [hsc] at hs; exact ⟨hs, hk⟩

end Tengo.Proofs.C02Compile

import Tengo.Proofs.F3Steps
/-!
Fragment F3, proof layer 2: the invariants (`LocRel`: the assigned locals of the reference semantics are in the
frame's slots; `GoodE` / `GoodEs`: what a result of the reference semantics means for a run of the machine) and
the EXPRESSION cases of the compiler-correctness induction, each from the induction hypothesis one fuel below.
-/
set_option linter.unusedSimpArgs false
set_option linter.unusedVariables false
namespace Tengo.Model.F3
open Tengo.Model.F0 (Sem upd)
variable {V : Type}

/-! ### side conditions on programs -/

mutual
  /-- Every local slot WRITTEN by the statement is below `nl` (`NumLocals`). -/
  def slotsS (nl : Nat) : Stm → Bool
    | .expr _ => true
    | .assign _ _ => true
    | .defl i _ => decide (i < nl)
    | .setl i _ => decide (i < nl)
    | .ifs _ body => slotsSs nl body
    | .ifelse _ body els => slotsSs nl body && slotsSs nl els
    | .whil _ body => slotsSs nl body
    | .forever body => slotsSs nl body
    | .for3 _ body post => slotsSs nl body && slotsS nl post
    | .brk => true
    | .cont => true
    | .ret _ => true
    | .ret0 => true
  def slotsSs (nl : Nat) : Stms → Bool
    | .nil => true
    | .cons s ss => slotsS nl s && slotsSs nl ss
end

/-- What the theorem needs of a function definition: the parameters are among the locals and the body writes
only its own local slots. -/
structure FnOk (fd : FnDef) : Prop where
  params : fd.nparams ≤ fd.nlocals
  slots : slotsSs fd.nlocals fd.body = true

/-- `nl` is the `NumLocals` of the function the frame runs (nothing is demanded of the main frame). -/
def FrameOk (P : Prog) (fn nl : Nat) : Prop := ∀ k fd, fn = k + 1 → P.fns k = some fd → nl = fd.nlocals

/-- All function constants are `FnOk`; the main program has no local slots. -/
structure ProgOk (P : Prog) : Prop where
  fns : ∀ k fd, P.fns k = some fd → FnOk fd
  main : slotsSs 0 P.main = true

/-! ### locals -/

/-- The locals the reference semantics has assigned are in the frame's slots (`nl` = `NumLocals`). -/
def LocRel (nl : Nat) (l : Locals V) (stk : Nat → V) (bp : Nat) : Prop :=
  ∀ i v, l i = some v → i < nl ∧ stk (bp + i) = v

theorem LocRel.frame {nl : Nat} {l : Locals V} {stk stk' : Nat → V} {bp sp : Nat} (h : LocRel nl l stk bp)
    (hsp : bp + nl ≤ sp) (hs : ∀ i, i < sp → stk' i = stk i) : LocRel nl l stk' bp := by
  intro i v hi
  obtain ⟨h1, h2⟩ := h i v hi
  exact ⟨h1, by rw [hs _ (by omega)]; exact h2⟩

theorem LocRel.none (nl : Nat) (stk : Nat → V) (bp : Nat) : LocRel nl (fun _ => (none : Option V)) stk bp := by
  intro i v hi; cases hi

/-! ### results of expressions against runs -/

/-- The frame of `s` has returned to its caller: the caller continues with `r` in the callee slot `bp - 1`,
`sp = bp`, globals `g'`, everything below untouched. (Nothing is said about the main frame, which has no
caller.) -/
def Returned (E : Env V) (M : Mach) (s : St V) (r : V) (g' : Nat → V) : Prop :=
  match s.callers with
  | [] => True
  | c :: rest => ∃ stk', Runs E M s ⟨c.fn, c.ip, c.bp, s.bp, stk', g', c.dis, rest⟩ ∧
      stk' (s.bp - 1) = r ∧ ∀ i, i < s.bp - 1 → stk' i = s.stk i

theorem Returned.pre {E : Env V} {M : Mach} {s : St V} {ip1 sp1 : Nat} {stk1 g1 : Nat → V} {dis1 : Bool}
    {r : V} {g' : Nat → V} (h : Runs E M s ⟨s.fn, ip1, s.bp, sp1, stk1, g1, dis1, s.callers⟩)
    (hs : ∀ i, i < s.bp - 1 → stk1 i = s.stk i)
    (hg : Returned E M ⟨s.fn, ip1, s.bp, sp1, stk1, g1, dis1, s.callers⟩ r g') : Returned E M s r g' := by
  obtain ⟨fn, ip, bp, sp, stk, g, dis, cl⟩ := s
  dsimp only at h hs hg
  cases cl with
  | nil => trivial
  | cons c rest =>
    obtain ⟨stk', hr, hv, hs'⟩ := hg
    dsimp only at hr hv hs'
    exact ⟨stk', h.trans hr, hv, fun i hi => by dsimp only at hi ⊢; rw [hs' i hi]; exact hs i hi⟩

/-- The machine, started in `s`, does what the result of the reference semantics says: EITHER it reaches `fin`
in the same frame with the value in slot `slot`, `sp = slot + 1`, the result's globals and everything below
`slot` as in `s`; OR (the expression ended in a self tail call, which can only be when the instruction at `fin`
is `RET`, or `POP` directly followed by `RET`) the frame has been reused and has returned to its caller with
what that `RET` would have returned: the value, or undefined when the frame is marked `dis` or the `POP`
discards it; or the machine stops with a run-time error. -/
def GoodE (E : Env V) (M : Mach) (code : List Ins) (s : St V) (fin slot : Nat) : ERes V → Prop
  | .val v g' =>
    (∃ stk', Runs E M s ⟨s.fn, fin, s.bp, slot + 1, stk', g', s.dis, s.callers⟩ ∧ stk' slot = v ∧
      ∀ i, i < slot → stk' i = s.stk i) ∨
    (tailNext code fin = true ∧
      Returned E M s (if s.dis || nextIsPop code fin then E.S.undef else v) g')
  | .err => Fails E M s
  | .out => True
  | .bad => True

/-- Arguments: `vs` in the slots `sp, sp + 1, …`. -/
def GoodEs (E : Env V) (M : Mach) (s : St V) (fin n : Nat) : EsRes V → Prop
  | .vals vs g' => ∃ stk', Runs E M s ⟨s.fn, fin, s.bp, s.sp + n, stk', g', s.dis, s.callers⟩ ∧ vs.length = n ∧
      (∀ j v, vs[j]? = some v → stk' (s.sp + j) = v) ∧ ∀ i, i < s.sp → stk' i = s.stk i
  | .err => Fails E M s
  | .out => True
  | .bad => True

theorem GoodE.pre {E : Env V} {M : Mach} {code : List Ins} {s : St V} {ip1 sp1 : Nat} {stk1 g1 : Nat → V}
    {fin slot : Nat} {r : ERes V} (h : Runs E M s ⟨s.fn, ip1, s.bp, sp1, stk1, g1, s.dis, s.callers⟩)
    (hs : ∀ i, i < slot → stk1 i = s.stk i) (hbp : s.bp ≤ slot + 1)
    (hg : GoodE E M code ⟨s.fn, ip1, s.bp, sp1, stk1, g1, s.dis, s.callers⟩ fin slot r) :
    GoodE E M code s fin slot r := by
  cases r with
  | val v g' =>
    rcases hg with ⟨stk', h1, h2, h3⟩ | ⟨ht, hret⟩
    · exact Or.inl ⟨stk', h.trans h1, h2, fun i hi => by rw [h3 i hi]; exact hs i hi⟩
    · exact Or.inr ⟨ht, Returned.pre h (fun i hi => hs i (by omega)) hret⟩
  | err => exact h.fails hg
  | out => trivial
  | bad => trivial

/-- When the instruction after the expression is neither `RET` nor `POP; RET` the expression ends normally. -/
theorem GoodE.normal {E : Env V} {M : Mach} {code : List Ins} {s : St V} {fin slot : Nat} {v : V}
    {g' : Nat → V} (h : GoodE E M code s fin slot (.val v g')) (ht : tailNext code fin = false) :
    ∃ stk', Runs E M s ⟨s.fn, fin, s.bp, slot + 1, stk', g', s.dis, s.callers⟩ ∧ stk' slot = v ∧
      ∀ i, i < slot → stk' i = s.stk i := by
  rcases h with h | ⟨ht', _⟩
  · exact h
  · rw [ht] at ht'; cases ht'

/-- The code of an expression starts with an instruction that is neither `RET` nor `POP`. -/
theorem comp_head : ∀ (e : Ex) (off : Nat), ∃ i rest, comp off e = i :: rest ∧ i.plain = true
  | .lit k, _ => ⟨_, _, rfl, rfl⟩
  | .tru, _ => ⟨_, _, rfl, rfl⟩
  | .fls, _ => ⟨_, _, rfl, rfl⟩
  | .undef, _ => ⟨_, _, rfl, rfl⟩
  | .glob i, _ => ⟨_, _, rfl, rfl⟩
  | .loc i, _ => ⟨_, _, rfl, rfl⟩
  | .bin tok l r, off => by
    obtain ⟨i, rest, h, hp⟩ := comp_head l off
    exact ⟨i, _, by simp only [comp, h, List.cons_append]; rfl, hp⟩
  | .eq l r, off => by
    obtain ⟨i, rest, h, hp⟩ := comp_head l off
    exact ⟨i, _, by simp only [comp, h, List.cons_append]; rfl, hp⟩
  | .ne l r, off => by
    obtain ⟨i, rest, h, hp⟩ := comp_head l off
    exact ⟨i, _, by simp only [comp, h, List.cons_append]; rfl, hp⟩
  | .neg e, off => by
    obtain ⟨i, rest, h, hp⟩ := comp_head e off
    exact ⟨i, _, by simp only [comp, h, List.cons_append]; rfl, hp⟩
  | .bnot e, off => by
    obtain ⟨i, rest, h, hp⟩ := comp_head e off
    exact ⟨i, _, by simp only [comp, h, List.cons_append]; rfl, hp⟩
  | .lnot e, off => by
    obtain ⟨i, rest, h, hp⟩ := comp_head e off
    exact ⟨i, _, by simp only [comp, h, List.cons_append]; rfl, hp⟩
  | .plus e, off => by
    obtain ⟨i, rest, h, hp⟩ := comp_head e off
    exact ⟨i, rest, by simp only [comp, h], hp⟩
  | .cond c t f, off => by
    obtain ⟨i, rest, h, hp⟩ := comp_head c off
    exact ⟨i, _, by simp only [comp, h, List.cons_append]; rfl, hp⟩
  | .land l r, off => by
    obtain ⟨i, rest, h, hp⟩ := comp_head l off
    exact ⟨i, _, by simp only [comp, h, List.cons_append]; rfl, hp⟩
  | .lor l r, off => by
    obtain ⟨i, rest, h, hp⟩ := comp_head l off
    exact ⟨i, _, by simp only [comp, h, List.cons_append]; rfl, hp⟩
  | .call f args, off => by
    obtain ⟨i, rest, h, hp⟩ := comp_head f off
    exact ⟨i, _, by simp only [comp, h, List.cons_append]; rfl, hp⟩

/-- Where the code of an expression starts the tail-call test fails. -/
theorem tailNext_comp {code : List Ins} {p : Nat} {e : Ex} {rest : List Ins}
    (h : At code p (comp p e ++ rest)) : tailNext code p = false := by
  obtain ⟨i, r, hi, hp⟩ := comp_head e p
  rw [hi] at h
  exact tailNext_of_fetch (At.fetch (rest := r ++ rest) (by simpa using h)) hp

/-- What has to hold for one expression at one fuel. -/
def OkE (E : Env V) (P : Prog) (f : Nat) (e : Ex) : Prop :=
  ∀ (g : Nat → V) (l : Locals V) (fn : Nat) (code : List Ins) (nl off bp sp : Nat) (stk : Nat → V) (dis : Bool)
    (cl : List Frame),
    (compProg P).code fn = some code → FrameOk P fn nl → At code off (comp off e) →
    LocRel nl l stk bp → bp + nl ≤ sp →
    GoodE E (compProg P) code ⟨fn, off, bp, sp, stk, g, dis, cl⟩ (off + esize e) sp (evalE E P f e g l)

def OkEs (E : Env V) (P : Prog) (f : Nat) (es : Exs) : Prop :=
  ∀ (g : Nat → V) (l : Locals V) (fn : Nat) (code : List Ins) (nl off bp sp : Nat) (stk : Nat → V) (dis : Bool)
    (cl : List Frame),
    (compProg P).code fn = some code → FrameOk P fn nl → At code off (compEs off es) →
    tailNext code (off + essize es) = false → LocRel nl l stk bp → bp + nl ≤ sp →
    GoodEs E (compProg P) ⟨fn, off, bp, sp, stk, g, dis, cl⟩ (off + essize es) es.len (evalEs E P f es g l)

/-- The call proper: the machine is at a `CALL n` with the callee in `slot` and the arguments above. -/
def OkCall (E : Env V) (P : Prog) (f : Nat) : Prop :=
  ∀ (fv : V) (vs : List V) (g : Nat → V) (fn : Nat) (code : List Ins) (nl ip bp slot : Nat) (stk : Nat → V)
    (dis : Bool) (cl : List Frame),
    (compProg P).code fn = some code → FrameOk P fn nl → bp + nl ≤ slot →
    fetch code ip = some (.call vs.length) → stk slot = fv → (∀ j v, vs[j]? = some v → stk (slot + 1 + j) = v) →
    GoodE E (compProg P) code ⟨fn, ip, bp, slot + 1 + vs.length, stk, g, dis, cl⟩ (ip + 3) slot
      (callFn E P f fv vs g)

section cases
variable {E : Env V} {P : Prog}

theorem okE_zero (e : Ex) : OkE E P 0 e := by
  intro g l fn code nl off bp sp stk dis cl hc hnt hat hl hsp
  simp only [evalE]
  trivial

theorem okEs_zero (es : Exs) : OkEs E P 0 es := by
  intro g l fn code nl off bp sp stk dis cl hc hnt hat htl hl hsp
  simp only [evalEs]
  trivial

theorem okCall_zero : OkCall E P 0 := by
  intro fv vs g fn code nl ip bp slot stk dis cl hc hnt hslot hf hfv hargs
  simp only [callFn]
  trivial

/-- A single push instruction. -/
theorem good_push {M : Mach} {code : List Ins} {fn off bp sp : Nat} {stk g : Nat → V} {dis : Bool}
    {cl : List Frame} {v : V} {sz : Nat}
    (h : step E M ⟨fn, off, bp, sp, stk, g, dis, cl⟩ = .next ⟨fn, off + sz, bp, sp + 1, upd stk sp v, g, dis, cl⟩) :
    GoodE E M code ⟨fn, off, bp, sp, stk, g, dis, cl⟩ (off + sz) sp (.val v g) :=
  Or.inl ⟨upd stk sp v, Runs.step h, by simp [upd], fun i hi => by simp [upd]; omega⟩

theorem okE_lit (f k : Nat) : OkE E P (f + 1) (.lit k) := by
  intro g l fn code nl off bp sp stk dis cl hc hnt hat hl hsp
  have hf : fetch code off = some (.const k) := by
    have : At code off [Ins.const k] := by simpa [comp] using hat
    exact this.fetch
  simp only [evalE, esize]
  exact good_push (step_const hc hf)

theorem okE_tru (f : Nat) : OkE E P (f + 1) .tru := by
  intro g l fn code nl off bp sp stk dis cl hc hnt hat hl hsp
  have hf : fetch code off = some .tru := by
    have : At code off [Ins.tru] := by simpa [comp] using hat
    exact this.fetch
  simp only [evalE, esize]
  exact good_push (step_tru hc hf)

theorem okE_fls (f : Nat) : OkE E P (f + 1) .fls := by
  intro g l fn code nl off bp sp stk dis cl hc hnt hat hl hsp
  have hf : fetch code off = some .fls := by
    have : At code off [Ins.fls] := by simpa [comp] using hat
    exact this.fetch
  simp only [evalE, esize]
  exact good_push (step_fls hc hf)

theorem okE_undef (f : Nat) : OkE E P (f + 1) .undef := by
  intro g l fn code nl off bp sp stk dis cl hc hnt hat hl hsp
  have hf : fetch code off = some .null := by
    have : At code off [Ins.null] := by simpa [comp] using hat
    exact this.fetch
  simp only [evalE, esize]
  exact good_push (step_null hc hf)

theorem okE_glob (f i : Nat) : OkE E P (f + 1) (.glob i) := by
  intro g l fn code nl off bp sp stk dis cl hc hnt hat hl hsp
  have hf : fetch code off = some (.getg i) := by
    have : At code off [Ins.getg i] := by simpa [comp] using hat
    exact this.fetch
  simp only [evalE, esize]
  exact good_push (step_getg hc hf)

theorem okE_loc (f i : Nat) : OkE E P (f + 1) (.loc i) := by
  intro g l fn code nl off bp sp stk dis cl hc hnt hat hl hsp
  have hf : fetch code off = some (.getl i) := by
    have : At code off [Ins.getl i] := by simpa [comp] using hat
    exact this.fetch
  simp only [evalE, esize]
  cases hli : l i with
  | none => trivial
  | some v =>
    have := (hl i v hli).2
    simp only
    rw [← this]
    exact good_push (step_getl hc hf)


/-- Two operands in sequence, followed by the instruction `I`. -/
theorem eval2 {f : Nat} {a b : Ex} (iha : OkE E P f a) (ihb : OkE E P f b)
    {g : Nat → V} {l : Locals V} {fn : Nat} {code : List Ins} {nl off bp sp : Nat} {stk : Nat → V} {dis : Bool}
    {cl : List Frame} (I : Ins) (hI : I.plain = true)
    (hc : (compProg P).code fn = some code) (hnt : FrameOk P fn nl)
    (hat : At code off (comp off a ++ comp (off + esize a) b ++ [I])) (hl : LocRel nl l stk bp)
    (hsp : bp + nl ≤ sp) :
    fetch code (off + esize a + esize b) = some I ∧
    match evalE E P f a g l with
    | .val x g1 =>
      match evalE E P f b g1 l with
      | .val y g2 => ∃ stk2, Runs E (compProg P) ⟨fn, off, bp, sp, stk, g, dis, cl⟩
            ⟨fn, off + esize a + esize b, bp, sp + 2, stk2, g2, dis, cl⟩ ∧
          stk2 sp = x ∧ stk2 (sp + 1) = y ∧ ∀ i, i < sp → stk2 i = stk i
      | .err => Fails E (compProg P) ⟨fn, off, bp, sp, stk, g, dis, cl⟩
      | _ => True
    | .err => Fails E (compProg P) ⟨fn, off, bp, sp, stk, g, dis, cl⟩
    | _ => True := by
  have h1 := iha g l fn code nl off bp sp stk dis cl hc hnt hat.left.left hl hsp
  have hfI := (hat.right (off' := off + esize a + esize b)
    (by simp [csize_append, csize_comp]; omega)).fetch
  refine ⟨hfI, ?_⟩
  have hB : At code (off + esize a) (comp (off + esize a) b ++ [I]) := by
    have : At code off (comp off a ++ (comp (off + esize a) b ++ [I])) := by simpa using hat
    exact this.right (by rw [csize_comp])
  cases ha : evalE E P f a g l with
  | val x g1 =>
    rw [ha] at h1
    obtain ⟨stk1, hr1, hx, hs1⟩ := h1.normal (tailNext_comp hB)
    have h2 := ihb g1 l fn code nl (off + esize a) bp (sp + 1) stk1 dis cl hc hnt
      (hat.left.right (by rw [csize_comp])) (hl.frame hsp hs1) (by omega)
    dsimp only
    cases hb : evalE E P f b g1 l with
    | val y g2 =>
      rw [hb] at h2
      obtain ⟨stk2, hr2, hy, hs2⟩ := h2.normal (by
        have := tailNext_of_fetch hfI hI
        rw [Nat.add_assoc] at this ⊢; exact this)
      dsimp only at hr1 hr2 hs1 hs2 ⊢
      refine ⟨stk2, hr1.trans hr2, ?_, hy, ?_⟩
      · rw [hs2 sp (by omega)]; exact hx
      · intro i hi; rw [hs2 i (by omega)]; exact hs1 i hi
    | err => rw [hb] at h2; exact hr1.fails h2
    | out => trivial
    | bad => trivial
  | err => rw [ha] at h1; exact h1
  | out => trivial
  | bad => trivial

theorem okE_bin (f tok : Nat) (a b : Ex) (iha : OkE E P f a) (ihb : OkE E P f b) :
    OkE E P (f + 1) (.bin tok a b) := by
  intro g l fn code nl off bp sp stk dis cl hc hnt hat hl hsp
  have hA : At code off (comp off a ++ comp (off + esize a) b ++ [Ins.binop tok]) := by
    simpa [comp] using hat
  obtain ⟨hfI, h⟩ := eval2 (g := g) iha ihb _ rfl hc hnt hA hl hsp
  simp only [evalE]
  cases ha : evalE E P f a g l with
  | val x g1 =>
    rw [ha] at h
    dsimp only at h ⊢
    cases hb : evalE E P f b g1 l with
    | val y g2 =>
      rw [hb] at h
      obtain ⟨stk2, hr, hx, hy, hs⟩ := h
      dsimp only
      cases hv : E.S.binop tok x y with
      | some v =>
        have hst := step_binop_ok (E := E) (bp := bp) (g := g2) (dis := dis) (cl := cl) hc hfI
          (stk := stk2) (sp := sp) (v := v) (by rw [hx, hy]; exact hv)
        exact Or.inl ⟨upd stk2 sp v, (hr.trans (Runs.step hst)).of_eq (by simp [esize]; omega), by simp [upd],
          fun i hi => by simp only [upd]; rw [if_neg (by omega)]; exact hs i hi⟩
      | none =>
        have hst := step_binop_err (E := E) (bp := bp) (g := g2) (dis := dis) (cl := cl) hc hfI
          (stk := stk2) (sp := sp) (by rw [hx, hy]; exact hv)
        exact hr.fails (Fails.step hst)
    | err => rw [hb] at h; exact h
    | out => trivial
    | bad => trivial
  | err => rw [ha] at h; exact h
  | out => trivial
  | bad => trivial

theorem okE_eq (f : Nat) (a b : Ex) (iha : OkE E P f a) (ihb : OkE E P f b) :
    OkE E P (f + 1) (.eq a b) := by
  intro g l fn code nl off bp sp stk dis cl hc hnt hat hl hsp
  have hA : At code off (comp off a ++ comp (off + esize a) b ++ [Ins.eql]) := by
    simpa [comp] using hat
  obtain ⟨hfI, h⟩ := eval2 (g := g) iha ihb _ rfl hc hnt hA hl hsp
  simp only [evalE]
  cases ha : evalE E P f a g l with
  | val x g1 =>
    rw [ha] at h
    dsimp only at h ⊢
    cases hb : evalE E P f b g1 l with
    | val y g2 =>
      rw [hb] at h
      obtain ⟨stk2, hr, hx, hy, hs⟩ := h
      dsimp only
      have hst := step_eql (E := E) (bp := bp) (g := g2) (dis := dis) (cl := cl) hc hfI (stk := stk2) (sp := sp)
      rw [hx, hy] at hst
      exact Or.inl ⟨upd stk2 sp (E.S.ofBool (E.S.eqv x y)), (hr.trans (Runs.step hst)).of_eq (by simp [esize]; omega),
        by simp [upd], fun i hi => by simp only [upd]; rw [if_neg (by omega)]; exact hs i hi⟩
    | err => rw [hb] at h; exact h
    | out => trivial
    | bad => trivial
  | err => rw [ha] at h; exact h
  | out => trivial
  | bad => trivial

theorem okE_ne (f : Nat) (a b : Ex) (iha : OkE E P f a) (ihb : OkE E P f b) :
    OkE E P (f + 1) (.ne a b) := by
  intro g l fn code nl off bp sp stk dis cl hc hnt hat hl hsp
  have hA : At code off (comp off a ++ comp (off + esize a) b ++ [Ins.neq]) := by
    simpa [comp] using hat
  obtain ⟨hfI, h⟩ := eval2 (g := g) iha ihb _ rfl hc hnt hA hl hsp
  simp only [evalE]
  cases ha : evalE E P f a g l with
  | val x g1 =>
    rw [ha] at h
    dsimp only at h ⊢
    cases hb : evalE E P f b g1 l with
    | val y g2 =>
      rw [hb] at h
      obtain ⟨stk2, hr, hx, hy, hs⟩ := h
      dsimp only
      have hst := step_neq (E := E) (bp := bp) (g := g2) (dis := dis) (cl := cl) hc hfI (stk := stk2) (sp := sp)
      rw [hx, hy] at hst
      exact Or.inl ⟨upd stk2 sp (E.S.ofBool (!E.S.eqv x y)), (hr.trans (Runs.step hst)).of_eq (by simp [esize]; omega),
        by simp [upd],
        fun i hi => by simp only [upd]; rw [if_neg (by omega)]; exact hs i hi⟩
    | err => rw [hb] at h; exact h
    | out => trivial
    | bad => trivial
  | err => rw [ha] at h; exact h
  | out => trivial
  | bad => trivial

end cases

end Tengo.Model.F3

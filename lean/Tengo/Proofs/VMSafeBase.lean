import Tengo.Proofs.VMPost
import Tengo.Model.VerifyProg
namespace Tengo.Model.VM
open Tengo.Model.Spec Tengo.Model.Opcodes

/-- Total-correctness-of-control triple for the dispatch monad: whenever the computation returns
(no error of the value layer), it returns a value, not a fault, and the value satisfies `P`. -/
def SafeX {β} (m : XM β) (P : β → Prop) : Prop :=
  Post m.run (fun r => ∃ v, r = .ok v ∧ P v)

theorem SafeX_pure {β} {P : β → Prop} {v : β} (h : P v) : SafeX (pure v : XM β) P := by
  unfold SafeX
  show Post (pure (Except.ok v)) _
  exact Post_pure ⟨v, rfl, h⟩

theorem SafeX_bind {α β} {x : XM α} {f : α → XM β} {Q : α → Prop} {P : β → Prop}
    (hx : SafeX x Q) (hf : ∀ a, Q a → SafeX (f a) P) : SafeX (x >>= f) P := by
  unfold SafeX at *
  have hrun : (x >>= f).run = x.run >>= ExceptT.bindCont f := rfl
  rw [hrun]
  refine Post_bind hx ?_
  rintro r ⟨a, rfl, ha⟩
  exact hf a ha

theorem SafeX_em {β} {m : VMM β} {P : β → Prop} (h : Post m P) : SafeX (em m) P := by
  unfold SafeX em
  show Post (m >>= fun a => pure (Except.ok a)) _
  refine Post_bind h ?_
  intro a ha
  exact Post_pure ⟨a, rfl, ha⟩

theorem SafeX_mono {β} {m : XM β} {P Q : β → Prop} (h : SafeX m P) (hpq : ∀ v, P v → Q v) : SafeX m Q :=
  Post_mono h (fun _ ⟨v, hv, hp⟩ => ⟨v, hv, hpq v hp⟩)

theorem SafeX_rtE {β} {P : β → Prop} (m : String) : SafeX (rtE m : XM β) P := SafeX_em (Post_eRt m)
theorem SafeX_unsupE {β} {P : β → Prop} (m : String) : SafeX (unsupE m : XM β) P := SafeX_em (Post_eUnsup m)
theorem SafeX_panicE {β} {P : β → Prop} (m : String) : SafeX (panicE m : XM β) P := SafeX_em (Post_throw _)

theorem SafeX_need {r : Regs} {k : Nat} (h : k ≤ r.sp) : SafeX (need r k) (fun _ => True) := by
  unfold need
  rw [if_neg (by omega)]
  exact SafeX_pure trivial

/-- Bind after a value-layer action about which nothing needs to be known. -/
theorem SafeX_bind_em {α β} {m : VMM α} {f : α → XM β} {P : β → Prop}
    (hf : ∀ a, SafeX (f a) P) : SafeX (em m >>= f) P :=
  SafeX_bind (SafeX_em (Post_true m)) (fun a _ => hf a)

/-! ### the register-level building blocks -/

/-- `r'` differs from `r` only in the stack contents. -/
structure SameBut (r r' : Regs) : Prop where
  sp : r'.sp = r.sp
  gl : r'.globals = r.globals
  fo : r'.fobjs = r.fobjs

theorem Post_goPanic {β} {P : β → Prop} (m : String) : Post (goPanic m : VMM β) P := Post_throw _

theorem setSlot_spec (r : Regs) (i : Nat) (v : Value) : Post (setSlot r i v) (SameBut r) := by
  unfold setSlot
  split
  · exact Post_pure ⟨rfl, rfl, rfl⟩
  · exact Post_goPanic _

theorem push_spec (r : Regs) (v : Value) :
    Post (push r v) (fun r' => r'.sp = r.sp + 1 ∧ r'.globals = r.globals ∧ r'.fobjs = r.fobjs) := by
  unfold push
  refine Post_bind (setSlot_spec r r.sp v) ?_
  rintro r1 ⟨h1, h2, h3⟩
  exact Post_pure ⟨by simp [h1], h2, h3⟩

theorem pushAll_spec : ∀ (vs : List Value) (r : Regs),
    Post (pushAll r vs) (fun r' => r'.sp = r.sp + vs.length ∧ r'.globals = r.globals ∧ r'.fobjs = r.fobjs)
  | [], r => by unfold pushAll; exact Post_pure ⟨by simp, rfl, rfl⟩
  | v :: vs, r => by
    unfold pushAll
    refine Post_bind (push_spec r v) ?_
    rintro r1 ⟨h1, h2, h3⟩
    refine Post_mono (pushAll_spec vs r1) ?_
    rintro r2 ⟨g1, g2, g3⟩
    exact ⟨by simp [g1, h1]; omega, by rw [g2, h2], by rw [g3, h3]⟩

theorem copyArgs_spec (bp numArgs : Nat) : ∀ (n : Nat) (r : Regs), Post (copyArgs r bp numArgs n) (SameBut r)
  | 0, r => by unfold copyArgs; exact Post_pure ⟨rfl, rfl, rfl⟩
  | n + 1, r => by
    unfold copyArgs
    refine Post_bind (setSlot_spec r _ _) ?_
    rintro r1 ⟨h1, h2, h3⟩
    refine Post_mono (copyArgs_spec bp numArgs n r1) ?_
    rintro r2 ⟨g1, g2, g3⟩
    exact ⟨by rw [g1, h1], by rw [g2, h2], by rw [g3, h3]⟩

end Tengo.Model.VM

import Tengo.Proofs.C11PlaceRun
/-!
C11, PLACEMENT global ↦ local on fragment F3, layer 4: the two programs against each other.

* `placement_forward`: if the program with GLOBAL variables answers `r` (final globals / run-time error / `bad`) with
  some fuel, the program with the variables as LOCALS of a called function answers `tP … r` with some fuel;
* `placement_progress`: if the moved program answers at all (not out of fuel), so does the original;
* `placement_backward`: hence every answer of the moved program is `tP` of an answer of the original.
-/
set_option linter.unusedVariables false
set_option linter.unusedSimpArgs false
namespace Tengo.Proofs.C11Place
open Tengo.Model Tengo.Model.F3
open Tengo.Model.F0 (Sem upd)
variable {V : Type} {E : Env V}

/-- The answer of the moved program, from the answer of the original: the first `n` globals are the original's,
the others are what the moved program started with (`gL`: the start globals plus the function in slot `n`). -/
def tP (n : Nat) (gL : Nat → V) : PRes V → PRes V
  | .done g' => .done (mkG n gL g')
  | .err => .err
  | .out => .out
  | .bad => .bad

/-- The moved program with fuel `F + 5`, `F ≥ n + 2`, in terms of the original's statements with fuel `F - n`. -/
theorem progL_at (n L : Nat) (body : Stms) (hc : g2Ss n body = true) (hfn : E.asFn (E.cs L) = some L)
    (F : Nat) (hF : n + 2 ≤ F) (g : Nat → V) :
    exec E (progL n L body) (F + 5) g =
      tCall (match tS n (upd g n (E.cs L)) (fun _ => none)
          (execSs E (progG body) (F - n) body g (fun _ => none)) with
        | .done g1 l1 => execSs E (progL n L body) (F - n - len (renSs body)) (epiFrom 0 n) g1 l1
        | r => r) := by
  rw [exec_progL n L body hfn F g,
    fnBody_run (progL n L body) (progG body) n body hc F hF g (upd g n (E.cs L))
      (fun i hi => by simp only [upd, Nat.ne_of_lt hi, if_false]) (fun _ => none)]
  rfl

theorem exec_progG (body : Stms) (f : Nat) (g : Nat → V) :
    exec E (progG body) f g =
      match execSs E (progG body) f body g (fun _ => none) with
      | .done g' _ => .done g'
      | .err => .err
      | .out => .out
      | _ => .bad := rfl

/-- **Forward**: an answer of the original is an answer of the moved program. -/
theorem placement_forward (n L : Nat) (body : Stms) (hc : g2Ss n body = true) (hfn : E.asFn (E.cs L) = some L)
    (f : Nat) (g : Nat → V) (r : PRes V) (hr : exec E (progG body) f g = r) (hne : r ≠ .out) :
    ∃ F, exec E (progL n L body) F g = tP n (upd g n (E.cs L)) r := by
  refine ⟨f + n + len (renSs body) + (n + 2) + 5, ?_⟩
  rw [progL_at n L body hc hfn _ (by omega) g]
  have hfu : f + n + len (renSs body) + (n + 2) - n = f + (len (renSs body) + (n + 2)) := by omega
  have hfe : f + (len (renSs body) + (n + 2)) - len (renSs body) = f + (n + 2) := by omega
  rw [hfu, hfe]
  rw [exec_progG] at hr
  have hmono := fun r0 (h0 : execSs E (progG body) f body g (fun _ => none) = r0) (hn0 : r0 ≠ .out) =>
    execSs_mono E (progG body) (Nat.le_add_right f (len (renSs body) + (n + 2))) h0 hn0
  cases h0 : execSs E (progG body) f body g (fun _ => none) with
  | done g' lx =>
    rw [hmono _ h0 (by simp)]
    rw [h0] at hr
    subst hr
    simp only [tS]
    have he := run_epi (E := E) (progL n L body) n (upd g n (E.cs L)) g' (fun _ => none) n 0 (f + (n + 2))
      (by omega) (by omega)
    rw [mkG_zero, Nat.zero_add] at he
    rw [he]
    simp only [tCall, tP]
  | brk g' lx => rw [hmono _ h0 (by simp)]; rw [h0] at hr; subst hr; simp only [tS, tCall, tP]
  | cont g' lx => rw [hmono _ h0 (by simp)]; rw [h0] at hr; subst hr; simp only [tS, tCall, tP]
  | ret v g' => rw [hmono _ h0 (by simp)]; rw [h0] at hr; subst hr; simp only [tS, tCall, tP]
  | err => rw [hmono _ h0 (by simp)]; rw [h0] at hr; subst hr; simp only [tS, tCall, tP]
  | bad => rw [hmono _ h0 (by simp)]; rw [h0] at hr; subst hr; simp only [tS, tCall, tP]
  | out => rw [h0] at hr; subst hr; exact absurd rfl hne

/-- **Progress**: if the moved program answers (is not out of fuel), the original answers with some fuel. -/
theorem placement_progress (n L : Nat) (body : Stms) (hc : g2Ss n body = true) (hfn : E.asFn (E.cs L) = some L)
    (F : Nat) (g : Nat → V) (hne : exec E (progL n L body) F g ≠ .out) :
    ∃ f, exec E (progG body) f g ≠ .out := by
  refine ⟨F + (n + 2) - n, ?_⟩
  have h1 := exec_mono E (progL n L body) (show F ≤ F + (n + 2) + 5 by omega) rfl hne
  rw [progL_at n L body hc hfn _ (by omega) g] at h1
  rw [exec_progG]
  intro ho
  cases h0 : execSs E (progG body) (F + (n + 2) - n) body g (fun _ => none) with
  | out =>
    rw [h0] at h1
    simp only [tS, tCall] at h1
    exact hne h1.symm
  | done g' lx => rw [h0] at ho; cases ho
  | brk g' lx => rw [h0] at ho; cases ho
  | cont g' lx => rw [h0] at ho; cases ho
  | ret v g' => rw [h0] at ho; cases ho
  | err => rw [h0] at ho; cases ho
  | bad => rw [h0] at ho; cases ho

/-- **Backward**: an answer of the moved program is `tP` of an answer of the original. -/
theorem placement_backward (n L : Nat) (body : Stms) (hc : g2Ss n body = true) (hfn : E.asFn (E.cs L) = some L)
    (F : Nat) (g : Nat → V) (r' : PRes V) (hr : exec E (progL n L body) F g = r') (hne : r' ≠ .out) :
    ∃ f r, exec E (progG body) f g = r ∧ r ≠ .out ∧ r' = tP n (upd g n (E.cs L)) r := by
  obtain ⟨f, hf⟩ := placement_progress n L body hc hfn F g (by rw [hr]; exact hne)
  refine ⟨f, _, rfl, hf, ?_⟩
  obtain ⟨F', hF'⟩ := placement_forward n L body hc hfn f g _ rfl hf
  have hne' : tP n (upd g n (E.cs L)) (exec E (progG body) f g) ≠ .out := by
    cases h : exec E (progG body) f g with
    | out => exact absurd h hf
    | done g' => simp [tP]
    | err => simp [tP]
    | bad => simp [tP]
  have a := exec_mono E (progL n L body) (Nat.le_max_left F F') hr hne
  have b := exec_mono E (progL n L body) (Nat.le_max_right F F') hF' hne'
  rw [← a, b]

end Tengo.Proofs.C11Place

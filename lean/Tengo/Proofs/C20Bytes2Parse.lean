import Tengo.Proofs.C20BytesPrint
import Tengo.Proofs.C20Bytes2Stream
/-!
C20, byte level, round 2, part 3: the parser on the token sequence of a PRINTED expression.

`Node.String()` parenthesises every operator node, so the printed form of every expression is a *primary*
expression: an operand (identifier, literal, parenthesised expression) followed by selectors / indexes / slices /
calls. This file works directly on `Expr` (with `Exprs`, `OptExpr`):

* `Frag2`  — the fragment (decidable by cases, given the float oracle): `Frag` of `Props/C20Bytes` plus Int, decimal Float,
  interpreted String and Char literals, selectors, index, slice and call expressions (also with `...`), array and map
  literals, `error(x)`, `immutable(x)`, `import("name")`.
* `layE`   — the printed token stream (with the printer's blanks) of an expression.
* `pf`     — the tree the parser builds from it: a ParenExpr around every operator node, otherwise the same tree.
* `primOk` — for every token list with the `(kind, literal)` sequence of `layE x` (any offsets) and ANY continuation,
  `parsePrimaryExpr` returns what its postfix loop returns when started with `pf x` on the continuation.
-/
namespace Tengo.Proofs.C20Bytes2Parse
open Tengo.Model.Token Tengo.Model.Scanner Tengo.Model.Ast Tengo.Model.Parser Tengo.Model.Literal
open Tengo.Proofs.C20Parser Tengo.Proofs.C20BytesScan Tengo.Proofs.C20BytesParse Tengo.Proofs.C20BytesPrint
open Tengo.Proofs.C20Bytes2Scan Tengo.Proofs.C20Bytes2Stream

/-! ### Fragment, layout, parsed form -/

/-- Value of an Int literal as `parseOperand` computes it. -/
def intVal (lit : Bs) : Option Int :=
  match parseInt0 lit with
  | .ok n => some (n : Int)
  | _ => none

/-- The string literal `ImportExpr.String()` writes for a module name: the name between double quotes. -/
def impLit (n : Bs) : Bs := 34 :: (n ++ [34])

def isIntLit : Expr → Bool
  | .int _ _ => true
  | _ => false

def isFloatLit : Expr → Bool
  | .float _ _ => true
  | _ => false

/-- A number literal must not be followed directly by `.`. -/
def isNumLit (x : Expr) : Bool := isIntLit x || isFloatLit x

/-- Is the last expression of the list a number literal (`prev` for the empty list)? -/
def lastNumAux (prev : Bool) : Exprs → Bool
  | .nil => prev
  | .cons e es => lastNumAux (isNumLit e) es

/-- `f(x, y...)`: there is a last argument and it is not a number literal (`f(1...)` does not re-scan). -/
def ellOk (args : Exprs) : Bool :=
  (match args with
   | .nil => false
   | .cons _ _ => true) && !lastNumAux false args

mutual
  /-- The byte-level fragment, round 2. -/
  def Frag2 (fo : Bs → Option Nat) : Expr → Prop
    | .ident n => wordAtom .Ident n = true
    | .int v lit => intOk lit = true ∧ intVal lit = some v
    | .float b lit => floatOk lit = true ∧ floatSyntaxOk lit = true ∧ fo lit = some b
    | .char v lit => chrOk lit = true ∧ charValue lit = some v
    | .str v lit => strOk lit = true ∧ v = stringValue lit
    | .bool _ => True
    | .undef => True
    | .bin op l r => 1 ≤ op.prec ∧ Frag2 fo l ∧ Frag2 fo r
    | .un op e => isUnaryOp op = true ∧ Frag2 fo e
    | .cond c t f => Frag2 fo c ∧ Frag2 fo t ∧ Frag2 fo f
    | .paren e => Frag2 fo e
    | .sel e n => isFloatLit e = false ∧ wordAtom .Ident n = true ∧ Frag2 fo e
    | .idx e i => Frag2 fo e ∧ Frag2I fo i
    | .slice e lo hi => Frag2 fo e ∧ Frag2O fo lo ∧ Frag2O fo hi
    | .call f args ell => (ell = true → ellOk args = true) ∧ Frag2 fo f ∧ Frag2s fo args
    | .arr es => Frag2s fo es
    | .map els => Frag2M fo els
    | .error e => Frag2 fo e
    | .immutable e => Frag2 fo e
    | .imp n => strOk (impLit n) = true ∧ stringValue (impLit n) = n
    | _ => False
  def Frag2s (fo : Bs → Option Nat) : Exprs → Prop
    | .nil => True
    | .cons e es => Frag2 fo e ∧ Frag2s fo es
  /-- Optional bound of a slice. -/
  def Frag2O (fo : Bs → Option Nat) : OptExpr → Prop
    | .none => True
    | .some e => Frag2 fo e
  /-- Index: present. -/
  def Frag2I (fo : Bs → Option Nat) : OptExpr → Prop
    | .none => False
    | .some e => Frag2 fo e
  /-- Map literal elements: the key is printed as it is, so it must be an identifier. -/
  def Frag2M (fo : Bs → Option Nat) : MapElems → Prop
    | .nil => True
    | .cons k v r => wordAtom .Ident k = true ∧ Frag2 fo v ∧ Frag2M fo r
end

def opE (t : Tok) : El2 := .it (.op t)

/-- The `...` behind the last argument. -/
def ellE (b : Bool) : List El2 := if b then [opE .Ellipsis] else []

/-- `SelectorExpr.String()` parenthesises an Int literal operand. -/
def selBase (isInt : Bool) (l : List El2) : List El2 :=
  if isInt then opE .LParen :: (l ++ [opE .RParen]) else l

mutual
  /-- The printed token stream of an expression (blanks as `Node.String()` puts them). -/
  def layE : Expr → List El2
    | .ident n => [.it (.word n)]
    | .int _ lit => [.it (.lit .Int lit)]
    | .float _ lit => [.it (.lit .Float lit)]
    | .char _ lit => [.it (.lit .Char lit)]
    | .str _ lit => [.it (.lit .String lit)]
    | .bool b => [.it (.word (if b then Tok.True.bytes else Tok.False.bytes))]
    | .undef => [.it (.word Tok.Undefined.bytes)]
    | .bin op l r => opE .LParen :: (layE l ++ .sp :: opE op :: .sp :: (layE r ++ [opE .RParen]))
    | .un op e => opE .LParen :: opE op :: (layE e ++ [opE .RParen])
    | .cond c t f =>
      opE .LParen :: (layE c ++ .sp :: opE .Question :: .sp ::
        (layE t ++ .sp :: opE .Colon :: .sp :: (layE f ++ [opE .RParen])))
    | .paren e => opE .LParen :: (layE e ++ [opE .RParen])
    | .sel e n => selBase (isIntLit e) (layE e) ++ [opE .Period, .it (.word n)]
    | .idx e i => layE e ++ opE .LBrack :: (layO i ++ [opE .RBrack])
    | .slice e lo hi => layE e ++ opE .LBrack :: (layO lo ++ opE .Colon :: (layO hi ++ [opE .RBrack]))
    | .call f args ell => layE f ++ opE .LParen :: (layArgs args ++ (ellE ell ++ [opE .RParen]))
    | .arr es => opE .LBrack :: (layArgs es ++ [opE .RBrack])
    | .map els => opE .LBrace :: (layM els ++ [opE .RBrace])
    | .error e => .it (.word Tok.Error.bytes) :: opE .LParen :: (layE e ++ [opE .RParen])
    | .immutable e => .it (.word Tok.Immutable.bytes) :: opE .LParen :: (layE e ++ [opE .RParen])
    | .imp n => [.it (.word Tok.Import.bytes), opE .LParen, .it (.lit .String (impLit n)), opE .RParen]
    | _ => []
  def layArgs : Exprs → List El2
    | .nil => []
    | .cons e es => layE e ++ layTail es
  /-- `, e` for every further argument. -/
  def layTail : Exprs → List El2
    | .nil => []
    | .cons e es => opE .Comma :: .sp :: (layE e ++ layTail es)
  def layO : OptExpr → List El2
    | .none => []
    | .some e => layE e
  def layM : MapElems → List El2
    | .nil => []
    | .cons k v r => .it (.word k) :: opE .Colon :: .sp :: (layE v ++ layMT r)
  /-- `, k: v` for every further element. -/
  def layMT : MapElems → List El2
    | .nil => []
    | .cons k v r => opE .Comma :: .sp :: .it (.word k) :: opE .Colon :: .sp :: (layE v ++ layMT r)
end

mutual
  /-- The parsed form: a ParenExpr around every operator node. -/
  def pf : Expr → Expr
    | .bin op l r => .paren (.bin op (pf l) (pf r))
    | .un op e => .paren (.un op (pf e))
    | .cond c t f => .paren (.cond (pf c) (pf t) (pf f))
    | .paren e => .paren (pf e)
    | .sel e n => .sel (if isIntLit e then .paren (pf e) else pf e) n
    | .idx e i => .idx (pf e) (pfO i)
    | .slice e lo hi => .slice (pf e) (pfO lo) (pfO hi)
    | .call f args ell => .call (pf f) (pfs args) ell
    | .ident n => .ident n
    | .int v lit => .int v lit
    | .char v lit => .char v lit
    | .str v lit => .str v lit
    | .bool b => .bool b
    | .undef => .undef
    | .float b l => .float b l
    | .arr es => .arr (pfs es)
    | .map m => .map (pfM m)
    | .func ps va b => .func ps va b
    | .imp n => .imp n
    | .error e => .error (pf e)
    | .immutable e => .immutable (pf e)
    | .bad => .bad
  def pfs : Exprs → Exprs
    | .nil => .nil
    | .cons e es => .cons (pf e) (pfs es)
  def pfO : OptExpr → OptExpr
    | .none => .none
    | .some e => .some (pf e)
  def pfM : MapElems → MapElems
    | .nil => .nil
    | .cons k v r => .cons k (pf v) (pfM r)
end

mutual
  /-- The parsed form is the expression itself up to ParenExpr nodes. -/
  theorem pf_strip : (x : Expr) → (pf x).strip = x.strip
    | .bin op l r => by simp only [pf, Expr.strip, pf_strip l, pf_strip r]
    | .un op e => by simp only [pf, Expr.strip, pf_strip e]
    | .cond c t f => by simp only [pf, Expr.strip, pf_strip c, pf_strip t, pf_strip f]
    | .paren e => by simp only [pf, Expr.strip, pf_strip e]
    | .sel e n => by
      cases h : isIntLit e <;> simp [pf, h, Expr.strip, pf_strip e]
    | .idx e i => by simp only [pf, Expr.strip, pf_strip e, pfO_strip i]
    | .slice e lo hi => by simp only [pf, Expr.strip, pf_strip e, pfO_strip lo, pfO_strip hi]
    | .call f args ell => by simp only [pf, Expr.strip, pf_strip f, pfs_strip args]
    | .ident _ => rfl
    | .int _ _ => rfl
    | .char _ _ => rfl
    | .str _ _ => rfl
    | .bool _ => rfl
    | .undef => rfl
    | .float _ _ => rfl
    | .arr es => by simp only [pf, Expr.strip, pfs_strip es]
    | .map m => by simp only [pf, Expr.strip, pfM_strip m]
    | .func _ _ _ => rfl
    | .imp _ => rfl
    | .error e => by simp only [pf, Expr.strip, pf_strip e]
    | .immutable e => by simp only [pf, Expr.strip, pf_strip e]
    | .bad => rfl
  theorem pfs_strip : (es : Exprs) → (pfs es).strip = es.strip
    | .nil => rfl
    | .cons e es => by simp only [pfs, Exprs.strip, pf_strip e, pfs_strip es]
  theorem pfO_strip : (o : OptExpr) → (pfO o).strip = o.strip
    | .none => rfl
    | .some e => by simp only [pfO, OptExpr.strip, pf_strip e]
  theorem pfM_strip : (m : MapElems) → (pfM m).strip = m.strip
    | .nil => rfl
    | .cons k v r => by simp only [pfM, MapElems.strip, pf_strip v, pfM_strip r]
end

/-! ### Keys of a stream -/

def items2 : List El2 → List Item2
  | [] => []
  | .sp :: r => items2 r
  | .it i :: r => i :: items2 r

def ikey2 (i : Item2) : Tok × Bs := (i.tok, i.lit')

def keysOf (els : List El2) : List (Tok × Bs) := (items2 els).map ikey2

@[simp] theorem keysOf_nil : keysOf [] = [] := rfl
@[simp] theorem keysOf_sp (r : List El2) : keysOf (.sp :: r) = keysOf r := rfl
@[simp] theorem keysOf_it (i : Item2) (r : List El2) : keysOf (.it i :: r) = (i.tok, i.lit') :: keysOf r := rfl
@[simp] theorem keysOf_opE (t : Tok) (r : List El2) : keysOf (opE t :: r) = (t, []) :: keysOf r := rfl
@[simp] theorem keysOf_append (a b : List El2) : keysOf (a ++ b) = keysOf a ++ keysOf b := by
  induction a with
  | nil => rfl
  | cons x a ih => cases x <;> simp [ih]

theorem place2_keys (els : List El2) (off : Nat) : (place2 off els).map key = keysOf els := by
  induction els generalizing off with
  | nil => rfl
  | cons x r ih => cases x <;> simp [place2, ih, key]

/-! ### More equations of the parser model -/

variable (fo : Bs → Option Nat)

theorem run_parseOperand_int (t : Token) (rest : Toks) (n : Nat) (h : t.tok = .Int)
    (hv : parseInt0 t.lit = .ok n) : run (parseOperand fo (t :: rest)) = some (.int n t.lit, rest) := by
  rw [parseOperand]
  simp [h, hv]

theorem run_parseOperand_float (t : Token) (rest : Toks) (b : Nat) (h : t.tok = .Float)
    (hs : floatSyntaxOk t.lit = true) (hv : fo t.lit = some b) :
    run (parseOperand fo (t :: rest)) = some (.float b t.lit, rest) := by
  rw [parseOperand]
  simp [h, hs, hv]

theorem run_parseOperand_char (t : Token) (rest : Toks) (v : Nat) (h : t.tok = .Char)
    (hv : charValue t.lit = some v) : run (parseOperand fo (t :: rest)) = some (.char v t.lit, rest) := by
  rw [parseOperand]
  simp [h, hv]

theorem run_postfix_sel (x : Expr) (t s : Token) (r1 : Toks) (ht : t.tok = .Period) (hs : s.tok = .Ident) :
    run (postfixLoop fo x (t :: s :: r1)) = run (postfixLoop fo (.sel x s.lit) r1) := by
  rw [postfixLoop]
  simp only [ht, hs, beq_self_eq_true, if_true]
  cases h : postfixLoop fo (.sel x s.lit) r1 with
  | none => simp
  | some o => obtain ⟨y, r', hr'⟩ := o; simp

theorem run_optExpr (skip : Bool) (ts : Toks) : run (optExpr fo skip ts) =
    if skip then some (.none, ts) else
      match run (parseExpr fo ts) with
      | none => none
      | some (e, r) => some (.some e, r) := by
  rw [optExpr]
  cases skip with
  | true => simp
  | false =>
    simp only [Bool.false_eq_true, if_false]
    cases h : parseExpr fo ts with
    | none => simp
    | some o => obtain ⟨e, r, hr⟩ := o; simp

/-- The `[` case of the postfix loop. -/
theorem run_postfix_lbrack (x : Expr) (t : Token) (rest : Toks) (ht : t.tok = .LBrack) :
    run (postfixLoop fo x (t :: rest)) =
      match run (optExpr fo (tk rest == .Colon) rest) with
      | none => none
      | some (i0, r1) =>
        match r1 with
        | [] => none
        | c :: r2 =>
          if c.tok = .Colon then
            match run (optExpr fo (tk r2 == .RBrack || tk r2 == .EOF) r2) with
            | none => none
            | some (i1, r3) =>
              match r3 with
              | [] => none
              | d :: r4 => if d.tok = .RBrack then run (postfixLoop fo (.slice x i0 i1) r4) else none
          else if c.tok = .RBrack then run (postfixLoop fo (.idx x i0) r2) else none := by
  rw [postfixLoop.eq_def]
  have h1 : (Tok.LBrack == Tok.Period) = false := by decide
  simp only [ht, h1, Bool.false_eq_true, if_false, beq_self_eq_true, if_true]
  cases h : optExpr fo (tk rest == .Colon) rest with
  | none => simp
  | some o =>
    obtain ⟨i0, r1, hr1⟩ := o
    simp only [run_some]
    cases r1 with
    | nil => simp
    | cons c r2 =>
      simp only
      by_cases hc : c.tok = .Colon
      · simp only [hc, beq_self_eq_true, if_true]
        cases h2 : optExpr fo (tk r2 == .RBrack || tk r2 == .EOF) r2 with
        | none => simp
        | some o2 =>
          obtain ⟨i1, r3, hr3⟩ := o2
          simp only [run_some]
          cases r3 with
          | nil => simp [expectTok]
          | cons d r4 =>
            by_cases hd : d.tok = .RBrack
            · simp only [expectTok, hd, beq_self_eq_true, if_true]
              cases h3 : postfixLoop fo (.slice x i0 i1) r4 with
              | none => simp
              | some o3 => obtain ⟨y, r', hr'⟩ := o3; simp
            · simp [expectTok, hd]
      · by_cases hb : c.tok = .RBrack
        · have hcb : (c.tok == Tok.Colon) = false := by simpa using hc
          simp only [hcb, Bool.false_eq_true, if_false, hb, beq_self_eq_true, if_true, hc]
          have h0 : ¬ Tok.RBrack = Tok.Colon := by decide
          simp only [h0, if_false]
          cases h3 : postfixLoop fo (.idx x i0) r2 with
          | none => simp
          | some o3 => obtain ⟨y, r', hr'⟩ := o3; simp
        · simp [hc, hb]

/-- The `(` case of the postfix loop. -/
theorem run_postfix_lparen (x : Expr) (t : Token) (rest : Toks) (ht : t.tok = .LParen) :
    run (postfixLoop fo x (t :: rest)) =
      match run (callArgs fo rest) with
      | none => none
      | some (ae, r1) =>
        match r1 with
        | [] => none
        | c :: r2 => if c.tok = .RParen then run (postfixLoop fo (.call x ae.1 ae.2) r2) else none := by
  rw [postfixLoop.eq_def]
  have h1 : (Tok.LParen == Tok.Period) = false := by decide
  have h2 : (Tok.LParen == Tok.LBrack) = false := by decide
  simp only [ht, h1, h2, Bool.false_eq_true, if_false, beq_self_eq_true, if_true]
  cases h : callArgs fo rest with
  | none => simp
  | some o =>
    obtain ⟨⟨args, ell⟩, r1, hr1⟩ := o
    simp only [run_some]
    cases r1 with
    | nil => simp [expectTok]
    | cons c r2 =>
      by_cases hc : c.tok = .RParen
      · simp only [expectTok, hc, beq_self_eq_true, if_true]
        cases h3 : postfixLoop fo (.call x args ell) r2 with
        | none => simp
        | some o3 => obtain ⟨y, r', hr'⟩ := o3; simp
      · simp [expectTok, hc]

/-- One argument of a call followed by `,` and a further argument. -/
theorem run_callArgs_more (t c : Token) (rest r' : Toks) (e : Expr)
    (hn : (t.tok == .RParen || t.tok == .EOF) = false)
    (hp : run (parseExpr fo (t :: rest)) = some (e, c :: r')) (hc : c.tok = .Comma) (hr : tk r' ≠ .RParen) :
    run (callArgs fo (t :: rest)) =
      match run (callArgs fo r') with
      | none => none
      | some (ae, r3) => some ((.cons e ae.1, ae.2), r3) := by
  obtain ⟨hlt, hpe⟩ := run_eq hp
  have h2 : (tk r' == Tok.RParen) = false := by simpa using hr
  have hoe : optEllipsis (c :: r') = ⟨false, c :: r', by simp⟩ := by
    simp [optEllipsis, hc]
  have hec : expectComma .RParen (c :: r') = some ⟨true, r', by simp only [List.length_cons]; omega⟩ := by
    simp [expectComma, hc, h2]
  rw [callArgs]
  simp only [hn, Bool.false_eq_true, if_false, hpe]
  rw [hoe]
  simp only
  rw [hec]
  simp only [Bool.not_false, Bool.and_self, if_true]
  cases h : callArgs fo r' with
  | none => simp
  | some o => obtain ⟨⟨es, ell'⟩, r3, h3⟩ := o; simp

/-- The last argument of a call. -/
theorem run_callArgs_last (t c : Token) (rest r' : Toks) (e : Expr)
    (hn : (t.tok == .RParen || t.tok == .EOF) = false)
    (hp : run (parseExpr fo (t :: rest)) = some (e, c :: r')) (hc : c.tok = .RParen) :
    run (callArgs fo (t :: rest)) = some ((.cons e .nil, false), c :: r') := by
  obtain ⟨hlt, hpe⟩ := run_eq hp
  have hoe : optEllipsis (c :: r') = ⟨false, c :: r', by simp⟩ := by
    simp [optEllipsis, hc]
  have hec : expectComma .RParen (c :: r') = some ⟨false, c :: r', by simp⟩ := by
    simp [expectComma, hc]
  rw [callArgs]
  simp only [hn, Bool.false_eq_true, if_false, hpe]
  rw [hoe]
  simp only
  rw [hec]
  simp

/-- The last argument of a call, followed by `...`. -/
theorem run_callArgs_last_ell (t d c : Token) (rest r' : Toks) (e : Expr)
    (hn : (t.tok == .RParen || t.tok == .EOF) = false)
    (hp : run (parseExpr fo (t :: rest)) = some (e, d :: c :: r')) (hd : d.tok = .Ellipsis) (hc : c.tok = .RParen) :
    run (callArgs fo (t :: rest)) = some ((.cons e .nil, true), c :: r') := by
  obtain ⟨hlt, hpe⟩ := run_eq hp
  have hoe : optEllipsis (d :: c :: r') = ⟨true, c :: r', by simp⟩ := by
    simp [optEllipsis, hd]
  have hec : expectComma .RParen (c :: r') = some ⟨false, c :: r', by simp⟩ := by
    simp [expectComma, hc]
  rw [callArgs]
  simp only [hn, Bool.false_eq_true, if_false, hpe]
  rw [hoe]
  simp only
  rw [hec]
  simp

theorem run_callArgs_none (c : Token) (r' : Toks) (hc : c.tok = .RParen) :
    run (callArgs fo (c :: r')) = some ((.nil, false), c :: r') := by
  rw [callArgs]
  simp [hc]

/-- One element of an array literal followed by `,` and a further element. -/
theorem run_elems_more (t c : Token) (rest r' : Toks) (e : Expr)
    (hn : (t.tok == .RBrack || t.tok == .EOF) = false)
    (hp : run (parseExpr fo (t :: rest)) = some (e, c :: r')) (hc : c.tok = .Comma) (hr : tk r' ≠ .RBrack) :
    run (elems fo (t :: rest)) =
      match run (elems fo r') with
      | none => none
      | some (es, r3) => some (.cons e es, r3) := by
  obtain ⟨hlt, hpe⟩ := run_eq hp
  have h2 : (tk r' == Tok.RBrack) = false := by simpa using hr
  have hec : expectComma .RBrack (c :: r') = some ⟨true, r', by simp only [List.length_cons]; omega⟩ := by
    simp [expectComma, hc, h2]
  rw [elems]
  simp only [hn, Bool.false_eq_true, if_false, hpe]
  rw [hec]
  simp only [if_true]
  cases h : elems fo r' with
  | none => simp
  | some o => obtain ⟨es, r3, h3⟩ := o; simp

/-- The last element of an array literal. -/
theorem run_elems_last (t c : Token) (rest r' : Toks) (e : Expr)
    (hn : (t.tok == .RBrack || t.tok == .EOF) = false)
    (hp : run (parseExpr fo (t :: rest)) = some (e, c :: r')) (hc : c.tok = .RBrack) :
    run (elems fo (t :: rest)) = some (.cons e .nil, c :: r') := by
  obtain ⟨hlt, hpe⟩ := run_eq hp
  have hec : expectComma .RBrack (c :: r') = some ⟨false, c :: r', by simp⟩ := by
    simp [expectComma, hc]
  rw [elems]
  simp only [hn, Bool.false_eq_true, if_false, hpe]
  rw [hec]
  simp

theorem run_elems_none (c : Token) (r' : Toks) (hc : c.tok = .RBrack) :
    run (elems fo (c :: r')) = some (.nil, c :: r') := by
  rw [elems]
  simp [hc]

theorem run_parseOperand_lbrack (t : Token) (rest : Toks) (h : t.tok = .LBrack) :
    run (parseOperand fo (t :: rest)) =
      match run (elems fo rest) with
      | none => none
      | some (es, r) =>
        match r with
        | [] => none
        | c :: r' => if c.tok = .RBrack then some (.arr es, r') else none := by
  rw [parseOperand]
  simp only [h]
  cases h1 : elems fo rest with
  | none => simp
  | some o =>
    obtain ⟨es, r, hr⟩ := o
    simp only [run_some]
    cases r with
    | nil => simp [expectTok]
    | cons c r' =>
      by_cases hc : c.tok = .RBrack
      · simp [expectTok, hc]
      · simp [expectTok, hc]

theorem run_parseOperand_lbrace (t : Token) (rest : Toks) (h : t.tok = .LBrace) :
    run (parseOperand fo (t :: rest)) =
      match run (mapElems fo rest) with
      | none => none
      | some (es, r) =>
        match r with
        | [] => none
        | c :: r' => if c.tok = .RBrace then some (.map es, r') else none := by
  rw [parseOperand]
  simp only [h]
  cases h1 : mapElems fo rest with
  | none => simp
  | some o =>
    obtain ⟨es, r, hr⟩ := o
    simp only [run_some]
    cases r with
    | nil => simp [expectTok]
    | cons c r' =>
      by_cases hc : c.tok = .RBrace
      · simp [expectTok, hc]
      · simp [expectTok, hc]

/-- One element `k: v` of a map literal followed by `,` and a further element. -/
theorem run_mapElems_more (t co v0 c : Token) (rest r' : Toks) (e : Expr) (ht : t.tok = .Ident) (hco : co.tok = .Colon)
    (hp : run (parseExpr fo (v0 :: rest)) = some (e, c :: r')) (hc : c.tok = .Comma) (hr : tk r' ≠ .RBrace) :
    run (mapElems fo (t :: co :: v0 :: rest)) =
      match run (mapElems fo r') with
      | none => none
      | some (es, r3) => some (.cons t.lit e es, r3) := by
  obtain ⟨hlt, hpe⟩ := run_eq hp
  have h2 : (tk r' == Tok.RBrace) = false := by simpa using hr
  have hec : expectComma .RBrace (c :: r') = some ⟨true, r', by simp only [List.length_cons]; omega⟩ := by
    simp [expectComma, hc, h2]
  have h0 : (Tok.Ident == Tok.RBrace || Tok.Ident == Tok.EOF) = false := by decide
  rw [mapElems]
  simp only [ht, h0, Bool.false_eq_true, if_false, beq_self_eq_true, if_true, expectTok, hco, hpe]
  rw [hec]
  simp only [if_true]
  cases h : mapElems fo r' with
  | none => simp
  | some o => obtain ⟨es, r3, h3⟩ := o; simp

/-- The last element of a map literal. -/
theorem run_mapElems_last (t co v0 c : Token) (rest r' : Toks) (e : Expr) (ht : t.tok = .Ident) (hco : co.tok = .Colon)
    (hp : run (parseExpr fo (v0 :: rest)) = some (e, c :: r')) (hc : c.tok = .RBrace) :
    run (mapElems fo (t :: co :: v0 :: rest)) = some (.cons t.lit e .nil, c :: r') := by
  obtain ⟨hlt, hpe⟩ := run_eq hp
  have hec : expectComma .RBrace (c :: r') = some ⟨false, c :: r', by simp⟩ := by
    simp [expectComma, hc]
  have h0 : (Tok.Ident == Tok.RBrace || Tok.Ident == Tok.EOF) = false := by decide
  rw [mapElems]
  simp only [ht, h0, Bool.false_eq_true, if_false, beq_self_eq_true, if_true, expectTok, hco, hpe]
  rw [hec]
  simp

theorem run_mapElems_none (c : Token) (r' : Toks) (hc : c.tok = .RBrace) :
    run (mapElems fo (c :: r')) = some (.nil, c :: r') := by
  rw [mapElems]
  simp [hc]

theorem run_parseOperand_import (t lp st rp : Token) (rest : Toks) (h : t.tok = .Import) (hl : lp.tok = .LParen)
    (hs : st.tok = .String) (hr : rp.tok = .RParen) :
    run (parseOperand fo (t :: lp :: st :: rp :: rest)) = some (.imp (stringValue st.lit), rest) := by
  rw [parseOperand]
  simp [h, expectTok, hl, hs, hr]

theorem run_parseOperand_error (t lp : Token) (rest : Toks) (h : t.tok = .Error) (hl : lp.tok = .LParen) :
    run (parseOperand fo (t :: lp :: rest)) =
      match run (parseExpr fo rest) with
      | none => none
      | some (e, r) =>
        match r with
        | [] => none
        | c :: r' => if c.tok = .RParen then some (.error e, r') else none := by
  rw [parseOperand]
  simp only [h, expectTok, hl, beq_self_eq_true, if_true]
  cases h1 : parseExpr fo rest with
  | none => simp
  | some o =>
    obtain ⟨e, r, hr⟩ := o
    simp only [run_some]
    cases r with
    | nil => simp
    | cons c r' =>
      by_cases hc : c.tok = .RParen
      · simp [hc]
      · simp [hc]

theorem run_parseOperand_immutable (t lp : Token) (rest : Toks) (h : t.tok = .Immutable) (hl : lp.tok = .LParen) :
    run (parseOperand fo (t :: lp :: rest)) =
      match run (parseExpr fo rest) with
      | none => none
      | some (e, r) =>
        match r with
        | [] => none
        | c :: r' => if c.tok = .RParen then some (.immutable e, r') else none := by
  rw [parseOperand]
  simp only [h, expectTok, hl, beq_self_eq_true, if_true]
  cases h1 : parseExpr fo rest with
  | none => simp
  | some o =>
    obtain ⟨e, r, hr⟩ := o
    simp only [run_some]
    cases r with
    | nil => simp
    | cons c r' =>
      by_cases hc : c.tok = .RParen
      · simp [hc]
      · simp [hc]

/-! ### Tokens that end an expression -/

def stopTok (t : Tok) : Bool :=
  t == .RParen || t == .Colon || t == .Comma || t == .RBrack || t == .Semicolon || t == .Ellipsis || t == .RBrace

theorem stop0_tok (t : Token) (rest : Toks) (h : stopTok t.tok = true) : Stop0 (t :: rest) := by
  have : ∀ k : Tok, stopTok k = true → k ≠ .Period ∧ k ≠ .LBrack ∧ k ≠ .LParen ∧ k.prec = 0 ∧ k ≠ .Question := by
    intro k; cases k <;> simp [stopTok, Tok.prec]
  obtain ⟨h1, h2, h3, h4, h5⟩ := this t.tok h
  exact ⟨⟨h1, h2, h3⟩, h4, h5⟩

theorem noPostfix_question (q : Token) (rest : Toks) (h : q.tok = .Question) : NoPostfix (q :: rest) := by
  refine ⟨?_, ?_, ?_⟩ <;> simp only [tk, h] <;> decide

/-! ### The printed form of an expression is a primary expression -/

/-- What is established for one expression. -/
structure PrimOk (x : Expr) : Prop where
  prim : ∀ ts rest, ts.map key = keysOf (layE x) →
    run (parsePrimary fo (ts ++ rest)) = run (postfixLoop fo (pf x) rest)
  head : ∃ k ks, keysOf (layE x) = k :: ks ∧ isUnaryOp k.1 = false ∧ isSimpleStart k.1 = true

variable {fo}

theorem PrimOk.unary {x : Expr} (c : PrimOk fo x) (ts rest : Toks) (hk : ts.map key = keysOf (layE x))
    (hn : NoPostfix rest) : run (parseUnary fo (ts ++ rest)) = some (pf x, rest) := by
  obtain ⟨k, ks, hh, hu, -⟩ := c.head
  have hk' := hk
  rw [hh] at hk'
  obtain ⟨t, r, rfl, ht, -, -⟩ := map_key_cons hk'
  have : run (parseUnary fo (t :: r ++ rest)) = run (parsePrimary fo (t :: r ++ rest)) := by
    rw [List.cons_append, run_parseUnary_cons, ht, hu]
    simp
  rw [this, c.prim _ rest hk]
  exact run_postfixLoop_stop fo _ rest hn

theorem PrimOk.binary {x : Expr} (c : PrimOk fo x) (p : Nat) (ts rest : Toks)
    (hk : ts.map key = keysOf (layE x)) (hn : NoPostfix rest) :
    run (parseBinary fo p (ts ++ rest)) = run (binLoop fo p (pf x) rest) := by
  rw [run_parseBinary, c.unary ts rest hk hn]

theorem PrimOk.expr {x : Expr} (c : PrimOk fo x) (ts rest : Toks) (hk : ts.map key = keysOf (layE x))
    (hs : Stop0 rest) : run (parseExpr fo (ts ++ rest)) = some (pf x, rest) := by
  obtain ⟨hn, hp, hq⟩ := hs
  rw [run_parseExpr, c.binary 1 ts rest hk hn, binLoop_stop fo 1 _ rest (by omega)]
  cases rest with
  | nil => rfl
  | cons t r1 =>
    simp only [tk] at hq
    simp [hq]

/-- The first token of the printed form is neither `)` / EOF / `]` / `:`. -/
theorem PrimOk.first {x : Expr} (c : PrimOk fo x) (ts rest : Toks) (hk : ts.map key = keysOf (layE x)) :
    ∃ t r, ts = t :: r ∧ isSimpleStart t.tok = true := by
  obtain ⟨k, ks, hh, -, hs⟩ := c.head
  rw [hh] at hk
  obtain ⟨t, r, rfl, ht, -, -⟩ := map_key_cons hk
  exact ⟨t, r, rfl, by rw [ht]; exact hs⟩

theorem simpleStart_ne {t : Tok} (h : isSimpleStart t = true) :
    t ≠ .RParen ∧ t ≠ .EOF ∧ t ≠ .RBrack ∧ t ≠ .Colon ∧ t ≠ .Comma := by
  cases t <;> simp [isSimpleStart] at h <;> decide

/-- A parenthesised expression is an operand. -/
theorem paren_operand (lp rp : Token) (inner rest : Toks) (e : Expr) (hlp : lp.tok = .LParen)
    (hrp : rp.tok = .RParen) (he : run (parseExpr fo (inner ++ rp :: rest)) = some (e, rp :: rest)) :
    run (parsePrimary fo (lp :: (inner ++ rp :: rest))) = run (postfixLoop fo (.paren e) rest) := by
  rw [run_parsePrimary, run_parseOperand_lparen fo _ _ hlp, he]
  simp only [hrp, if_true]

theorem head_cons {k : Tok × Bs} {a : List (Tok × Bs)} (hu : isUnaryOp k.1 = false) (hs : isSimpleStart k.1 = true) :
    ∃ k' ks, k :: a = k' :: ks ∧ isUnaryOp k'.1 = false ∧ isSimpleStart k'.1 = true := ⟨k, a, rfl, hu, hs⟩

theorem head_append {a b : List (Tok × Bs)}
    (h : ∃ k ks, a = k :: ks ∧ isUnaryOp k.1 = false ∧ isSimpleStart k.1 = true) :
    ∃ k ks, a ++ b = k :: ks ∧ isUnaryOp k.1 = false ∧ isSimpleStart k.1 = true := by
  obtain ⟨k, ks, rfl, h1, h2⟩ := h
  exact ⟨k, ks ++ b, rfl, h1, h2⟩

theorem primOk_atom (x : Expr) (k : Tok) (lit : Bs) (hl : keysOf (layE x) = [(k, lit)])
    (hu : isUnaryOp k = false) (hs : isSimpleStart k = true) (hpf : pf x = x)
    (hop : ∀ t rest, t.tok = k → t.lit = lit → run (parseOperand fo (t :: rest)) = some (x, rest)) :
    PrimOk fo x := by
  refine ⟨?_, ?_⟩
  · intro ts rest hk
    rw [hl] at hk
    obtain ⟨t, r, rfl, ht, hlit, hr⟩ := map_key_cons hk
    have := map_key_nil hr
    subst this
    simp only [List.cons_append, List.nil_append]
    rw [run_parsePrimary, hop t rest ht hlit, hpf]
  · rw [hl]; exact head_cons hu hs

theorem kw2 : wordAtom .True Tok.True.bytes = true ∧ wordAtom .False Tok.False.bytes = true ∧
    wordAtom .Undefined Tok.Undefined.bytes = true := by decide +kernel

theorem operand_word (k : Tok) (n : Bs) (h : wordAtom k n = true) (t : Token) (rest : Toks)
    (ht : t.tok = Tok.lookup n) (hl : t.lit = n) :
    run (parseOperand fo (t :: rest)) = some (atomAst ⟨k, n, 0⟩, rest) := by
  obtain ⟨-, h2, h3, -, -⟩ := wordAtom_atom h
  rw [h2] at ht
  rw [run_parseOperand_atom fo t rest (by rw [ht]; exact h3), atomAst_key t k n ht hl]

/-- Statement for an argument list: the argument loop of `parseCall` up to the closing parenthesis. -/
def ArgsOk (fo : Bs → Option Nat) : Exprs → Prop
  | .nil => True
  | .cons e es => (∀ (ts : Toks) (rp : Token) (rest : Toks), ts.map key = keysOf (layE e ++ layTail es) →
      rp.tok = .RParen → run (callArgs fo (ts ++ rp :: rest)) = some ((pfs (.cons e es), false), rp :: rest)) ∧
    (∀ (ts : Toks) (el rp : Token) (rest : Toks), ts.map key = keysOf (layE e ++ layTail es) →
      el.tok = .Ellipsis → rp.tok = .RParen →
      run (callArgs fo (ts ++ el :: rp :: rest)) = some ((pfs (.cons e es), true), rp :: rest))

/-- Statement for the elements of an array literal. -/
def ElemsOk (fo : Bs → Option Nat) : Exprs → Prop
  | .nil => True
  | .cons e es => ∀ (ts : Toks) (rb : Token) (rest : Toks), ts.map key = keysOf (layE e ++ layTail es) →
      rb.tok = .RBrack → run (elems fo (ts ++ rb :: rest)) = some (pfs (.cons e es), rb :: rest)

theorem kwc : Tok.lookup Tok.Error.bytes = .Error ∧ Tok.lookup Tok.Immutable.bytes = .Immutable ∧
    wordOk Tok.Error.bytes = true ∧ wordOk Tok.Immutable.bytes = true := by decide +kernel

theorem kwi : Tok.lookup Tok.Import.bytes = .Import ∧ wordOk Tok.Import.bytes = true := by decide +kernel

/-- Statement for the elements of a map literal. -/
def MapOk (fo : Bs → Option Nat) : MapElems → Prop
  | .nil => True
  | .cons k v r => ∀ (ts : Toks) (rb : Token) (rest : Toks),
      ts.map key = keysOf (.it (.word k) :: opE .Colon :: .sp :: (layE v ++ layMT r)) →
      rb.tok = .RBrace → run (mapElems fo (ts ++ rb :: rest)) = some (pfM (.cons k v r), rb :: rest)

def OptOk (fo : Bs → Option Nat) : OptExpr → Prop
  | .none => True
  | .some e => PrimOk fo e

mutual
  /-- **The printed form parses back**: every expression of the fragment. -/
  theorem primOk : (x : Expr) → Frag2 fo x → PrimOk fo x
    | .ident n, h => by
      simp only [Frag2] at h
      obtain ⟨-, h2, h3, -, h5⟩ := wordAtom_atom h
      refine primOk_atom _ .Ident n (by simp [layE, Item2.tok, Item2.lit', h2]) (by decide) (by decide) rfl ?_
      intro t rest ht hl
      exact operand_word .Ident n h t rest (by rw [ht, h2]) hl
    | .bool true, _ => by
      obtain ⟨-, h2, -, -, -⟩ := wordAtom_atom kw2.1
      refine primOk_atom _ .True Tok.True.bytes (by simp [layE, Item2.tok, Item2.lit', h2]) (by decide) (by decide) rfl ?_
      intro t rest ht hl
      exact operand_word .True _ kw2.1 t rest (by rw [ht, h2]) hl
    | .bool false, _ => by
      obtain ⟨-, h2, -, -, -⟩ := wordAtom_atom kw2.2.1
      refine primOk_atom _ .False Tok.False.bytes (by simp [layE, Item2.tok, Item2.lit', h2]) (by decide) (by decide) rfl ?_
      intro t rest ht hl
      exact operand_word .False _ kw2.2.1 t rest (by rw [ht, h2]) hl
    | .undef, _ => by
      obtain ⟨-, h2, -, -, -⟩ := wordAtom_atom kw2.2.2
      refine primOk_atom _ .Undefined Tok.Undefined.bytes (by simp [layE, Item2.tok, Item2.lit', h2]) (by decide)
        (by decide) rfl ?_
      intro t rest ht hl
      exact operand_word .Undefined _ kw2.2.2 t rest (by rw [ht, h2]) hl
    | .int v lit, h => by
      simp only [Frag2] at h
      refine primOk_atom _ .Int lit rfl (by decide) (by decide) rfl ?_
      intro t rest ht hl
      have hv := h.2
      unfold intVal at hv
      split at hv
      · next n hn =>
        simp only [Option.some.injEq] at hv
        rw [run_parseOperand_int fo t rest n ht (by rw [hl]; exact hn), hl, hv]
      · exact absurd hv (by simp)
    | .float b lit, h => by
      simp only [Frag2] at h
      refine primOk_atom _ .Float lit rfl (by decide) (by decide) rfl ?_
      intro t rest ht hl
      rw [run_parseOperand_float fo t rest b ht (by rw [hl]; exact h.2.1) (by rw [hl]; exact h.2.2), hl]
    | .char v lit, h => by
      simp only [Frag2] at h
      refine primOk_atom _ .Char lit rfl (by decide) (by decide) rfl ?_
      intro t rest ht hl
      rw [run_parseOperand_char fo t rest v ht (by rw [hl]; exact h.2), hl]
    | .str v lit, h => by
      simp only [Frag2] at h
      refine primOk_atom _ .String lit rfl (by decide) (by decide) rfl ?_
      intro t rest ht hl
      rw [run_parseOperand_atom fo t rest (by rw [ht]; decide)]
      simp only [atomAst, ht, hl, h.2]
    | .bin op l r, h => by
      simp only [Frag2] at h
      obtain ⟨hop, hl, hr⟩ := h
      have cl := primOk l hl
      have cr := primOk r hr
      refine ⟨?_, ⟨_, _, by simp only [layE, keysOf_opE]; rfl, by decide, by decide⟩⟩
      intro ts rest hk
      simp only [layE, keysOf_opE, keysOf_append, keysOf_sp, keysOf_nil] at hk
      obtain ⟨lp, r0, rfl, hlp, -, h0⟩ := map_key_cons hk
      obtain ⟨tl, t2, rfl, htl, h2⟩ := map_key_append h0
      obtain ⟨o, t3, rfl, ho, -, h3⟩ := map_key_cons h2
      obtain ⟨tr, t4, rfl, htr, h4⟩ := map_key_append h3
      obtain ⟨rp, t5, rfl, hrp, -, h5⟩ := map_key_cons h4
      have := map_key_nil h5
      subst this
      simp only at hlp ho hrp
      have hop' : 1 ≤ o.tok.prec := by rw [ho]; exact hop
      have hsr : Stop0 (rp :: rest) := stop0_tok rp rest (by rw [hrp]; decide)
      have e1 : lp :: (tl ++ o :: (tr ++ [rp])) ++ rest = lp :: ((tl ++ o :: tr) ++ rp :: rest) := by simp
      rw [e1]
      refine paren_operand lp rp _ rest _ hlp hrp ?_
      rw [List.append_assoc, List.cons_append, run_parseExpr,
        cl.binary 1 tl _ htl (noPostfix_of_prec hop'), run_binLoop_cons]
      have hnot : ¬ o.tok.prec < 1 := by omega
      simp only [hnot, if_false]
      rw [cr.binary _ tr _ htr hsr.1, binLoop_stop fo _ _ _ (by have := hsr.2.1; simp only [tk] at this ⊢; omega)]
      simp only
      rw [binLoop_stop fo 1 _ _ (by have := hsr.2.1; simp only [tk] at this ⊢; omega)]
      have hq : ¬ rp.tok = .Question := by rw [hrp]; decide
      simp only [hq, if_false, ho, pf]
    | .un op e, h => by
      simp only [Frag2] at h
      obtain ⟨hop, he⟩ := h
      have ce := primOk e he
      refine ⟨?_, ⟨_, _, by simp only [layE, keysOf_opE]; rfl, by decide, by decide⟩⟩
      intro ts rest hk
      simp only [layE, keysOf_opE, keysOf_append, keysOf_nil] at hk
      obtain ⟨lp, r0, rfl, hlp, -, h0⟩ := map_key_cons hk
      obtain ⟨o, t3, rfl, ho, -, h3⟩ := map_key_cons h0
      obtain ⟨te, t4, rfl, hte, h4⟩ := map_key_append h3
      obtain ⟨rp, t5, rfl, hrp, -, h5⟩ := map_key_cons h4
      have := map_key_nil h5
      subst this
      simp only at hlp ho hrp
      have hsr : Stop0 (rp :: rest) := stop0_tok rp rest (by rw [hrp]; decide)
      have e1 : lp :: o :: (te ++ [rp]) ++ rest = lp :: ((o :: te) ++ rp :: rest) := by simp
      rw [e1]
      refine paren_operand lp rp _ rest _ hlp hrp ?_
      rw [List.cons_append, run_parseExpr, run_parseBinary, run_parseUnary_cons, ho, hop]
      simp only [if_true]
      rw [ce.unary te _ hte hsr.1]
      simp only
      rw [binLoop_stop fo 1 _ _ (by have := hsr.2.1; simp only [tk] at this ⊢; omega)]
      have hq : ¬ rp.tok = .Question := by rw [hrp]; decide
      simp only [hq, if_false, pf]
    | .cond c t f, h => by
      simp only [Frag2] at h
      obtain ⟨hc, ht, hf⟩ := h
      have cc := primOk c hc
      have ct := primOk t ht
      have cf := primOk f hf
      refine ⟨?_, ⟨_, _, by simp only [layE, keysOf_opE]; rfl, by decide, by decide⟩⟩
      intro ts rest hk
      simp only [layE, keysOf_opE, keysOf_append, keysOf_sp, keysOf_nil] at hk
      obtain ⟨lp, r0, rfl, hlp, -, h0⟩ := map_key_cons hk
      obtain ⟨tc, t2, rfl, htc, h2⟩ := map_key_append h0
      obtain ⟨q, t3, rfl, hq, -, h3⟩ := map_key_cons h2
      obtain ⟨tt, t4, rfl, htt, h4⟩ := map_key_append h3
      obtain ⟨co, t5, rfl, hco, -, h5⟩ := map_key_cons h4
      obtain ⟨tf, t6, rfl, htf, h6⟩ := map_key_append h5
      obtain ⟨rp, t7, rfl, hrp, -, h7⟩ := map_key_cons h6
      have := map_key_nil h7
      subst this
      simp only at hlp hq hco hrp
      have hsr : Stop0 (rp :: rest) := stop0_tok rp rest (by rw [hrp]; decide)
      have e1 : lp :: (tc ++ q :: (tt ++ co :: (tf ++ [rp]))) ++ rest =
          lp :: ((tc ++ q :: (tt ++ co :: tf)) ++ rp :: rest) := by simp
      rw [e1]
      refine paren_operand lp rp _ rest _ hlp hrp ?_
      have e2 : (tc ++ q :: (tt ++ co :: tf)) ++ rp :: rest = tc ++ q :: (tt ++ co :: (tf ++ rp :: rest)) := by simp
      rw [e2, run_parseExpr, cc.binary 1 tc _ htc (noPostfix_question q _ hq),
        binLoop_stop fo 1 _ _ (by simp only [tk, hq]; decide)]
      simp only [hq, if_true]
      rw [ct.expr tt _ htt (stop0_tok co _ (by rw [hco]; decide))]
      simp only [hco, if_true]
      rw [cf.expr tf _ htf hsr]
    | .paren e, h => by
      simp only [Frag2] at h
      have ce := primOk e h
      refine ⟨?_, ⟨_, _, by simp only [layE, keysOf_opE]; rfl, by decide, by decide⟩⟩
      intro ts rest hk
      simp only [layE, keysOf_opE, keysOf_append, keysOf_nil] at hk
      obtain ⟨lp, r0, rfl, hlp, -, h0⟩ := map_key_cons hk
      obtain ⟨te, t4, rfl, hte, h4⟩ := map_key_append h0
      obtain ⟨rp, t5, rfl, hrp, -, h5⟩ := map_key_cons h4
      have := map_key_nil h5
      subst this
      simp only at hlp hrp
      have hsr : Stop0 (rp :: rest) := stop0_tok rp rest (by rw [hrp]; decide)
      have e1 : lp :: (te ++ [rp]) ++ rest = lp :: (te ++ rp :: rest) := by simp
      rw [e1]
      refine paren_operand lp rp _ rest _ hlp hrp ?_
      rw [ce.expr te _ hte hsr]
    | .sel e n, h => by
      simp only [Frag2] at h
      obtain ⟨-, hn, he⟩ := h
      have ce := primOk e he
      obtain ⟨-, h2, -, -, -⟩ := wordAtom_atom hn
      cases hi : isIntLit e with
      | true =>
        refine ⟨?_, ⟨_, _, by simp only [layE, hi, selBase, if_true, List.cons_append, keysOf_opE]; rfl, by decide,
          by decide⟩⟩
        intro ts rest hk
        simp only [layE, hi, selBase, if_true, keysOf_opE, keysOf_append, keysOf_it, keysOf_nil, Item2.tok,
          Item2.lit', h2, List.cons_append, List.append_assoc, List.nil_append] at hk
        obtain ⟨lp, r0, rfl, hlp, -, h0⟩ := map_key_cons hk
        obtain ⟨te, t4, rfl, hte, h4⟩ := map_key_append h0
        obtain ⟨rp, t5, rfl, hrp, -, h5⟩ := map_key_cons h4
        obtain ⟨d, t6, rfl, hd, -, h6⟩ := map_key_cons h5
        obtain ⟨s, t7, rfl, hs, hsl, h7⟩ := map_key_cons h6
        have := map_key_nil h7
        subst this
        simp only at hlp hrp hd hs hsl
        have e1 : lp :: (te ++ rp :: d :: [s]) ++ rest = lp :: (te ++ rp :: (d :: s :: rest)) := by simp
        rw [e1, paren_operand lp rp te _ (pf e) hlp hrp (ce.expr te _ hte (stop0_tok rp _ (by rw [hrp]; decide))),
          run_postfix_sel fo _ d s rest hd hs, hsl]
        simp only [pf, hi, if_true]
      | false =>
        refine ⟨?_, by
          simp only [layE, hi, selBase, Bool.false_eq_true, if_false, keysOf_append]; exact head_append ce.head⟩
        intro ts rest hk
        simp only [layE, hi, selBase, Bool.false_eq_true, if_false, keysOf_opE, keysOf_append, keysOf_it, keysOf_nil,
          Item2.tok, Item2.lit', h2] at hk
        obtain ⟨te, t4, rfl, hte, h4⟩ := map_key_append hk
        obtain ⟨d, t5, rfl, hd, -, h5⟩ := map_key_cons h4
        obtain ⟨s, t6, rfl, hs, hsl, h6⟩ := map_key_cons h5
        have := map_key_nil h6
        subst this
        simp only at hd hs hsl
        rw [List.append_assoc, ce.prim te _ hte]
        simp only [List.cons_append, List.nil_append]
        rw [run_postfix_sel fo _ d s rest hd hs, hsl]
        simp only [pf, hi, Bool.false_eq_true, if_false]
    | .idx e (.some i), h => by
      simp only [Frag2, Frag2I] at h
      obtain ⟨he, hi⟩ := h
      have ce := primOk e he
      have ci := primOk i hi
      refine ⟨?_, by simp only [layE, keysOf_append]; exact head_append ce.head⟩
      intro ts rest hk
      simp only [layE, layO, keysOf_opE, keysOf_append, keysOf_nil] at hk
      obtain ⟨te, t4, rfl, hte, h4⟩ := map_key_append hk
      obtain ⟨lb, t5, rfl, hlb, -, h5⟩ := map_key_cons h4
      obtain ⟨ti, t6, rfl, hti, h6⟩ := map_key_append h5
      obtain ⟨rb, t7, rfl, hrb, -, h7⟩ := map_key_cons h6
      have := map_key_nil h7
      subst this
      simp only at hlb hrb
      obtain ⟨t0, tr0, rfl, hst⟩ := ci.first ti rest hti
      have hne := simpleStart_ne hst
      rw [List.append_assoc, ce.prim te _ hte]
      have e1 : lb :: (t0 :: tr0 ++ [rb]) ++ rest = lb :: ((t0 :: tr0) ++ rb :: rest) := by simp
      rw [e1, run_postfix_lbrack fo _ lb _ hlb, run_optExpr]
      have hcol : (tk ((t0 :: tr0) ++ rb :: rest) == Tok.Colon) = false := by
        simp only [List.cons_append, tk]; simpa using hne.2.2.2.1
      simp only [hcol, Bool.false_eq_true, if_false]
      rw [ci.expr _ _ hti (stop0_tok rb rest (by rw [hrb]; decide))]
      have h0 : ¬ Tok.RBrack = Tok.Colon := by decide
      simp only [hrb, h0, if_false, if_true, pf, pfO]
    | .idx e .none, h => by simp [Frag2, Frag2I] at h
    | .slice e lo hi, h => by
      simp only [Frag2] at h
      obtain ⟨he, hlo, hhi⟩ := h
      have ce := primOk e he
      have clo := optOk lo hlo
      have chi := optOk hi hhi
      refine ⟨?_, by simp only [layE, keysOf_append]; exact head_append ce.head⟩
      intro ts rest hk
      simp only [layE, keysOf_opE, keysOf_append, keysOf_nil] at hk
      obtain ⟨te, t4, rfl, hte, h4⟩ := map_key_append hk
      obtain ⟨lb, t5, rfl, hlb, -, h5⟩ := map_key_cons h4
      obtain ⟨tlo, t6, rfl, htlo, h6⟩ := map_key_append h5
      obtain ⟨co, t7, rfl, hco, -, h7⟩ := map_key_cons h6
      obtain ⟨thi, t8, rfl, hthi, h8⟩ := map_key_append h7
      obtain ⟨rb, t9, rfl, hrb, -, h9⟩ := map_key_cons h8
      have := map_key_nil h9
      subst this
      simp only at hlb hco hrb
      rw [List.append_assoc, ce.prim te _ hte]
      have e1 : lb :: (tlo ++ co :: (thi ++ [rb])) ++ rest = lb :: (tlo ++ co :: (thi ++ rb :: rest)) := by simp
      rw [e1, run_postfix_lbrack fo _ lb _ hlb]
      -- low bound
      have hlo' : run (optExpr fo (tk (tlo ++ co :: (thi ++ rb :: rest)) == .Colon) (tlo ++ co :: (thi ++ rb :: rest))) =
          some (pfO lo, co :: (thi ++ rb :: rest)) := by
        rw [run_optExpr]
        cases lo with
        | none =>
          have := map_key_nil (by simpa [layO] using htlo)
          subst this
          simp [tk, hco, pfO]
        | some l =>
          simp only [layO] at htlo
          obtain ⟨t0, tr0, rfl, hst⟩ := PrimOk.first clo _ rest htlo
          have hne := simpleStart_ne hst
          have hcol : (tk ((t0 :: tr0) ++ co :: (thi ++ rb :: rest)) == Tok.Colon) = false := by
            simp only [List.cons_append, tk]; simpa using hne.2.2.2.1
          simp only [hcol, Bool.false_eq_true, if_false]
          rw [PrimOk.expr clo _ _ htlo (stop0_tok co _ (by rw [hco]; decide))]
          simp only [pfO]
      rw [hlo']
      simp only [hco, if_true]
      have hhi' : run (optExpr fo (tk (thi ++ rb :: rest) == .RBrack || tk (thi ++ rb :: rest) == .EOF)
          (thi ++ rb :: rest)) = some (pfO hi, rb :: rest) := by
        rw [run_optExpr]
        cases hi with
        | none =>
          have := map_key_nil (by simpa [layO] using hthi)
          subst this
          simp [tk, hrb, pfO]
        | some l =>
          simp only [layO] at hthi
          obtain ⟨t0, tr0, rfl, hst⟩ := PrimOk.first chi _ rest hthi
          have hne := simpleStart_ne hst
          have hcol : (tk ((t0 :: tr0) ++ rb :: rest) == Tok.RBrack || tk ((t0 :: tr0) ++ rb :: rest) == Tok.EOF) = false := by
            simp only [List.cons_append, tk]
            simp [hne.2.2.1, hne.2.1]
          simp only [hcol, Bool.false_eq_true, if_false]
          rw [PrimOk.expr chi _ _ hthi (stop0_tok rb _ (by rw [hrb]; decide))]
          simp only [pfO]
      rw [hhi']
      simp only [hrb, if_true, pf]
    | .call f args ell, h => by
      simp only [Frag2] at h
      obtain ⟨hell, hf, ha⟩ := h
      have cf := primOk f hf
      have ca := argsOk args ha
      refine ⟨?_, by simp only [layE, keysOf_append]; exact head_append cf.head⟩
      intro ts rest hk
      cases ell with
      | false =>
        simp only [layE, ellE, Bool.false_eq_true, if_false, List.nil_append, keysOf_opE, keysOf_append,
          keysOf_nil] at hk
        obtain ⟨tf, t4, rfl, htf, h4⟩ := map_key_append hk
        obtain ⟨lp, t5, rfl, hlp, -, h5⟩ := map_key_cons h4
        obtain ⟨ta, t6, rfl, hta, h6⟩ := map_key_append h5
        obtain ⟨rp, t7, rfl, hrp, -, h7⟩ := map_key_cons h6
        have := map_key_nil h7
        subst this
        simp only at hlp hrp
        rw [List.append_assoc, cf.prim tf _ htf]
        have e1 : lp :: (ta ++ [rp]) ++ rest = lp :: (ta ++ rp :: rest) := by simp
        rw [e1, run_postfix_lparen fo _ lp _ hlp]
        have hargs : run (callArgs fo (ta ++ rp :: rest)) = some ((pfs args, false), rp :: rest) := by
          cases args with
          | nil =>
            have := map_key_nil (by simpa [layArgs] using hta)
            subst this
            exact run_callArgs_none fo rp rest hrp
          | cons a as =>
            simp only [layArgs] at hta
            exact ca.1 ta rp rest (by simpa using hta) hrp
        rw [hargs]
        simp only [hrp, if_true, pf]
      | true =>
        have hok := hell rfl
        simp only [layE, ellE, if_true, List.cons_append, List.nil_append, keysOf_opE, keysOf_append,
          keysOf_nil] at hk
        obtain ⟨tf, t4, rfl, htf, h4⟩ := map_key_append hk
        obtain ⟨lp, t5, rfl, hlp, -, h5⟩ := map_key_cons h4
        obtain ⟨ta, t6, rfl, hta, h6⟩ := map_key_append h5
        obtain ⟨el, t7, rfl, hel, -, h7⟩ := map_key_cons h6
        obtain ⟨rp, t8, rfl, hrp, -, h8⟩ := map_key_cons h7
        have := map_key_nil h8
        subst this
        simp only at hlp hel hrp
        rw [List.append_assoc, cf.prim tf _ htf]
        have e1 : lp :: (ta ++ [el, rp]) ++ rest = lp :: (ta ++ el :: rp :: rest) := by simp
        rw [e1, run_postfix_lparen fo _ lp _ hlp]
        have hargs : run (callArgs fo (ta ++ el :: rp :: rest)) = some ((pfs args, true), rp :: rest) := by
          cases args with
          | nil => simp [ellOk] at hok
          | cons a as =>
            simp only [layArgs] at hta
            exact ca.2 ta el rp rest (by simpa using hta) hel hrp
        rw [hargs]
        simp only [hrp, if_true, pf]
    | .arr es, h => by
      simp only [Frag2] at h
      have ca := elemsOk es h
      refine ⟨?_, ⟨_, _, by simp only [layE, keysOf_opE]; rfl, by decide, by decide⟩⟩
      intro ts rest hk
      simp only [layE, keysOf_opE, keysOf_append, keysOf_nil] at hk
      obtain ⟨lb, r0, rfl, hlb, -, h0⟩ := map_key_cons hk
      obtain ⟨ta, t6, rfl, hta, h6⟩ := map_key_append h0
      obtain ⟨rb, t7, rfl, hrb, -, h7⟩ := map_key_cons h6
      have := map_key_nil h7
      subst this
      simp only at hlb hrb
      have e1 : lb :: (ta ++ [rb]) ++ rest = lb :: (ta ++ rb :: rest) := by simp
      rw [e1, run_parsePrimary, run_parseOperand_lbrack fo lb _ hlb]
      have hel : run (elems fo (ta ++ rb :: rest)) = some (pfs es, rb :: rest) := by
        cases es with
        | nil =>
          have := map_key_nil (by simpa [layArgs] using hta)
          subst this
          exact run_elems_none fo rb rest hrb
        | cons a as =>
          simp only [layArgs] at hta
          exact ca ta rb rest (by simpa using hta) hrb
      rw [hel]
      simp only [hrb, if_true, pf]
    | .error e, h => by
      simp only [Frag2] at h
      have ce := primOk e h
      have hk0 := kwc.1
      refine ⟨?_, ⟨_, _, by simp only [layE, keysOf_it, Item2.tok, hk0]; rfl, by decide, by decide⟩⟩
      intro ts rest hk
      simp only [layE, keysOf_it, keysOf_opE, keysOf_append, keysOf_nil, Item2.tok, Item2.lit', hk0] at hk
      obtain ⟨kw, r0, rfl, hkw, -, h0⟩ := map_key_cons hk
      obtain ⟨lp, r1, rfl, hlp, -, h1⟩ := map_key_cons h0
      obtain ⟨te, t4, rfl, hte, h4⟩ := map_key_append h1
      obtain ⟨rp, t5, rfl, hrp, -, h5⟩ := map_key_cons h4
      have := map_key_nil h5
      subst this
      simp only at hkw hlp hrp
      have e1 : kw :: lp :: (te ++ [rp]) ++ rest = kw :: lp :: (te ++ rp :: rest) := by simp
      rw [e1, run_parsePrimary, run_parseOperand_error fo kw lp _ hkw hlp,
        ce.expr te _ hte (stop0_tok rp _ (by rw [hrp]; decide))]
      simp only [hrp, if_true, pf]
    | .immutable e, h => by
      simp only [Frag2] at h
      have ce := primOk e h
      have hk0 := kwc.2.1
      refine ⟨?_, ⟨_, _, by simp only [layE, keysOf_it, Item2.tok, hk0]; rfl, by decide, by decide⟩⟩
      intro ts rest hk
      simp only [layE, keysOf_it, keysOf_opE, keysOf_append, keysOf_nil, Item2.tok, Item2.lit', hk0] at hk
      obtain ⟨kw, r0, rfl, hkw, -, h0⟩ := map_key_cons hk
      obtain ⟨lp, r1, rfl, hlp, -, h1⟩ := map_key_cons h0
      obtain ⟨te, t4, rfl, hte, h4⟩ := map_key_append h1
      obtain ⟨rp, t5, rfl, hrp, -, h5⟩ := map_key_cons h4
      have := map_key_nil h5
      subst this
      simp only at hkw hlp hrp
      have e1 : kw :: lp :: (te ++ [rp]) ++ rest = kw :: lp :: (te ++ rp :: rest) := by simp
      rw [e1, run_parsePrimary, run_parseOperand_immutable fo kw lp _ hkw hlp,
        ce.expr te _ hte (stop0_tok rp _ (by rw [hrp]; decide))]
      simp only [hrp, if_true, pf]
    | .map els, h => by
      simp only [Frag2] at h
      have cm := mapOk els h
      refine ⟨?_, ⟨_, _, by simp only [layE, keysOf_opE]; rfl, by decide, by decide⟩⟩
      intro ts rest hk
      simp only [layE, keysOf_opE, keysOf_append, keysOf_nil] at hk
      obtain ⟨lb, r0, rfl, hlb, -, h0⟩ := map_key_cons hk
      obtain ⟨ta, t6, rfl, hta, h6⟩ := map_key_append h0
      obtain ⟨rb, t7, rfl, hrb, -, h7⟩ := map_key_cons h6
      have := map_key_nil h7
      subst this
      simp only at hlb hrb
      have e1 : lb :: (ta ++ [rb]) ++ rest = lb :: (ta ++ rb :: rest) := by simp
      rw [e1, run_parsePrimary, run_parseOperand_lbrace fo lb _ hlb]
      have hel : run (mapElems fo (ta ++ rb :: rest)) = some (pfM els, rb :: rest) := by
        cases els with
        | nil =>
          have := map_key_nil (by simpa [layM] using hta)
          subst this
          exact run_mapElems_none fo rb rest hrb
        | cons k v r =>
          simp only [layM] at hta
          exact cm ta rb rest hta hrb
      rw [hel]
      simp only [hrb, if_true, pf]
    | .func _ _ _, h => by simp [Frag2] at h
    | .imp n, h => by
      simp only [Frag2] at h
      have hk0 := kwi.1
      refine ⟨?_, ⟨_, _, by simp only [layE, keysOf_it, Item2.tok, hk0]; rfl, by decide, by decide⟩⟩
      intro ts rest hk
      simp only [layE, keysOf_it, keysOf_opE, keysOf_nil, Item2.tok, Item2.lit', hk0] at hk
      obtain ⟨kw, r0, rfl, hkw, -, h0⟩ := map_key_cons hk
      obtain ⟨lp, r1, rfl, hlp, -, h1⟩ := map_key_cons h0
      obtain ⟨st, r2, rfl, hst, hsl, h2⟩ := map_key_cons h1
      obtain ⟨rp, r3, rfl, hrp, -, h3⟩ := map_key_cons h2
      have := map_key_nil h3
      subst this
      simp only at hkw hlp hst hsl hrp
      simp only [List.cons_append, List.nil_append]
      rw [run_parsePrimary, run_parseOperand_import fo kw lp st rp rest hkw hlp hst hrp, hsl, h.2]
      simp only [pf]
    | .bad, h => by simp [Frag2] at h
  theorem mapOk : (m : MapElems) → Frag2M fo m → MapOk fo m
    | .nil, _ => trivial
    | .cons k v r, h => by
      simp only [Frag2M] at h
      obtain ⟨hkw, hv, hr⟩ := h
      have cv := primOk v hv
      have cr := mapOk r hr
      obtain ⟨-, hk2, -, -, -⟩ := wordAtom_atom hkw
      intro ts rb rest hk hrb
      simp only [keysOf_it, keysOf_opE, keysOf_sp, keysOf_append, Item2.tok, Item2.lit', hk2] at hk
      obtain ⟨kt, r0, rfl, hkt, hkl, h0⟩ := map_key_cons hk
      obtain ⟨co, r1, rfl, hco, -, h1⟩ := map_key_cons h0
      obtain ⟨tv, tt, rfl, htv, htt⟩ := map_key_append h1
      obtain ⟨v0, vr0, rfl, hst⟩ := cv.first tv rest htv
      simp only at hkt hkl hco
      cases r with
      | nil =>
        have := map_key_nil (by simpa [layMT] using htt)
        subst this
        have hp := cv.expr (v0 :: vr0) (rb :: rest) htv (stop0_tok rb rest (by rw [hrb]; decide))
        have e0 : (kt :: co :: (v0 :: vr0 ++ [])) ++ rb :: rest = kt :: co :: v0 :: (vr0 ++ rb :: rest) := by simp
        have hp' : run (parseExpr fo (v0 :: (vr0 ++ rb :: rest))) = some (pf v, rb :: rest) := by simpa using hp
        rw [e0, run_mapElems_last fo kt co v0 rb _ rest _ hkt hco hp' hrb, hkl]
        simp only [pfM]
      | cons k2 v2 r2 =>
        simp only [layMT, keysOf_opE, keysOf_sp, keysOf_it, Item2.tok, Item2.lit'] at htt
        obtain ⟨cm, tt2, rfl, hcm, -, htt2⟩ := map_key_cons htt
        simp only at hcm
        have hp := cv.expr (v0 :: vr0) (cm :: (tt2 ++ rb :: rest)) htv (stop0_tok cm _ (by rw [hcm]; decide))
        have hk3 := (wordAtom_atom hr.1).2.1
        -- the next element starts with its key, an identifier
        have htt2' := htt2
        rw [hk3] at htt2'
        obtain ⟨k2t, tt3, rfl, hk2t, -, -⟩ := map_key_cons htt2'
        simp only at hk2t
        have e1 : (kt :: co :: (v0 :: vr0 ++ cm :: (k2t :: tt3))) ++ rb :: rest =
            kt :: co :: v0 :: (vr0 ++ cm :: ((k2t :: tt3) ++ rb :: rest)) := by simp
        have hp' : run (parseExpr fo (v0 :: (vr0 ++ cm :: ((k2t :: tt3) ++ rb :: rest)))) =
            some (pf v, cm :: ((k2t :: tt3) ++ rb :: rest)) := by
          simpa using hp
        have hnr : tk ((k2t :: tt3) ++ rb :: rest) ≠ .RBrace := by
          simp only [List.cons_append, tk, hk2t]; decide
        rw [e1, run_mapElems_more fo kt co v0 cm _ _ _ hkt hco hp' hcm hnr, hkl]
        have := cr (k2t :: tt3) rb rest (by simpa [Item2.tok, Item2.lit', hk3] using htt2) hrb
        rw [this]
        simp only [pfM]
  theorem argsOk : (es : Exprs) → Frag2s fo es → ArgsOk fo es
    | .nil, _ => trivial
    | .cons e es, h => by
      simp only [Frag2s] at h
      have ce := primOk e h.1
      have ces := argsOk es h.2
      refine ⟨?_, ?_⟩
      · intro ts rp rest hk hrp
        simp only [keysOf_append] at hk
        obtain ⟨te, tt, rfl, hte, htt⟩ := map_key_append hk
        obtain ⟨t0, tr0, rfl, hst⟩ := ce.first te rest hte
        have hne := simpleStart_ne hst
        have hn : (t0.tok == .RParen || t0.tok == .EOF) = false := by simp [hne.1, hne.2.1]
        cases es with
        | nil =>
          have := map_key_nil (by simpa [layTail] using htt)
          subst this
          have hp := ce.expr (t0 :: tr0) (rp :: rest) hte (stop0_tok rp rest (by rw [hrp]; decide))
          have e0 : (t0 :: tr0 ++ []) ++ rp :: rest = t0 :: (tr0 ++ rp :: rest) := by simp
          have hp' : run (parseExpr fo (t0 :: (tr0 ++ rp :: rest))) = some (pf e, rp :: rest) := by simpa using hp
          rw [e0, run_callArgs_last fo t0 rp _ rest _ hn hp' hrp]
          simp only [pfs]
        | cons e2 es2 =>
          simp only [layTail, keysOf_opE, keysOf_sp] at htt
          obtain ⟨cm, tt2, rfl, hcm, -, htt2⟩ := map_key_cons htt
          simp only at hcm
          have hp := ce.expr (t0 :: tr0) (cm :: (tt2 ++ rp :: rest)) hte (stop0_tok cm _ (by rw [hcm]; decide))
          have c2 : PrimOk fo e2 := primOk e2 h.2.1
          simp only [keysOf_append] at htt2
          obtain ⟨te2, tt3, rfl, hte2, -⟩ := map_key_append htt2
          obtain ⟨u0, ur0, rfl, hst2⟩ := c2.first te2 rest hte2
          have hne2 := simpleStart_ne hst2
          have e1 : (t0 :: tr0 ++ cm :: (u0 :: ur0 ++ tt3)) ++ rp :: rest =
              t0 :: (tr0 ++ cm :: ((u0 :: ur0 ++ tt3) ++ rp :: rest)) := by simp
          have hp' : run (parseExpr fo (t0 :: (tr0 ++ cm :: ((u0 :: ur0 ++ tt3) ++ rp :: rest)))) =
              some (pf e, cm :: ((u0 :: ur0 ++ tt3) ++ rp :: rest)) := by
            simpa using hp
          rw [e1, run_callArgs_more fo t0 cm _ _ _ hn hp' hcm (by simp only [List.cons_append, tk]; exact hne2.1)]
          have := ces.1 (u0 :: ur0 ++ tt3) rp rest (by simpa using htt2) hrp
          rw [this]
          simp only [pfs]
      · intro ts el rp rest hk hel hrp
        simp only [keysOf_append] at hk
        obtain ⟨te, tt, rfl, hte, htt⟩ := map_key_append hk
        obtain ⟨t0, tr0, rfl, hst⟩ := ce.first te rest hte
        have hne := simpleStart_ne hst
        have hn : (t0.tok == .RParen || t0.tok == .EOF) = false := by simp [hne.1, hne.2.1]
        cases es with
        | nil =>
          have := map_key_nil (by simpa [layTail] using htt)
          subst this
          have hp := ce.expr (t0 :: tr0) (el :: rp :: rest) hte (stop0_tok el _ (by rw [hel]; decide))
          have e0 : (t0 :: tr0 ++ []) ++ el :: rp :: rest = t0 :: (tr0 ++ el :: rp :: rest) := by simp
          have hp' : run (parseExpr fo (t0 :: (tr0 ++ el :: rp :: rest))) = some (pf e, el :: rp :: rest) := by
            simpa using hp
          rw [e0, run_callArgs_last_ell fo t0 el rp _ rest _ hn hp' hel hrp]
          simp only [pfs]
        | cons e2 es2 =>
          simp only [layTail, keysOf_opE, keysOf_sp] at htt
          obtain ⟨cm, tt2, rfl, hcm, -, htt2⟩ := map_key_cons htt
          simp only at hcm
          have hp := ce.expr (t0 :: tr0) (cm :: (tt2 ++ el :: rp :: rest)) hte
            (stop0_tok cm _ (by rw [hcm]; decide))
          have c2 : PrimOk fo e2 := primOk e2 h.2.1
          simp only [keysOf_append] at htt2
          obtain ⟨te2, tt3, rfl, hte2, -⟩ := map_key_append htt2
          obtain ⟨u0, ur0, rfl, hst2⟩ := c2.first te2 rest hte2
          have hne2 := simpleStart_ne hst2
          have e1 : (t0 :: tr0 ++ cm :: (u0 :: ur0 ++ tt3)) ++ el :: rp :: rest =
              t0 :: (tr0 ++ cm :: ((u0 :: ur0 ++ tt3) ++ el :: rp :: rest)) := by simp
          have hp' : run (parseExpr fo (t0 :: (tr0 ++ cm :: ((u0 :: ur0 ++ tt3) ++ el :: rp :: rest)))) =
              some (pf e, cm :: ((u0 :: ur0 ++ tt3) ++ el :: rp :: rest)) := by
            simpa using hp
          rw [e1, run_callArgs_more fo t0 cm _ _ _ hn hp' hcm (by simp only [List.cons_append, tk]; exact hne2.1)]
          have := ces.2 (u0 :: ur0 ++ tt3) el rp rest (by simpa using htt2) hel hrp
          rw [this]
          simp only [pfs]
  theorem elemsOk : (es : Exprs) → Frag2s fo es → ElemsOk fo es
    | .nil, _ => trivial
    | .cons e es, h => by
      simp only [Frag2s] at h
      have ce := primOk e h.1
      have ces := elemsOk es h.2
      intro ts rp rest hk hrp
      simp only [keysOf_append] at hk
      obtain ⟨te, tt, rfl, hte, htt⟩ := map_key_append hk
      obtain ⟨t0, tr0, rfl, hst⟩ := ce.first te rest hte
      have hne := simpleStart_ne hst
      have hn : (t0.tok == .RBrack || t0.tok == .EOF) = false := by simp [hne.2.2.1, hne.2.1]
      cases es with
      | nil =>
        have := map_key_nil (by simpa [layTail] using htt)
        subst this
        have hp := ce.expr (t0 :: tr0) (rp :: rest) hte (stop0_tok rp rest (by rw [hrp]; decide))
        have e0 : (t0 :: tr0 ++ []) ++ rp :: rest = t0 :: (tr0 ++ rp :: rest) := by simp
        have hp' : run (parseExpr fo (t0 :: (tr0 ++ rp :: rest))) = some (pf e, rp :: rest) := by simpa using hp
        rw [e0, run_elems_last fo t0 rp _ rest _ hn hp' hrp]
        simp only [pfs]
      | cons e2 es2 =>
        simp only [layTail, keysOf_opE, keysOf_sp] at htt
        obtain ⟨cm, tt2, rfl, hcm, -, htt2⟩ := map_key_cons htt
        simp only at hcm
        have hp := ce.expr (t0 :: tr0) (cm :: (tt2 ++ rp :: rest)) hte (stop0_tok cm _ (by rw [hcm]; decide))
        have c2 : PrimOk fo e2 := primOk e2 h.2.1
        simp only [keysOf_append] at htt2
        obtain ⟨te2, tt3, rfl, hte2, -⟩ := map_key_append htt2
        obtain ⟨u0, ur0, rfl, hst2⟩ := c2.first te2 rest hte2
        have hne2 := simpleStart_ne hst2
        have e1 : (t0 :: tr0 ++ cm :: (u0 :: ur0 ++ tt3)) ++ rp :: rest =
            t0 :: (tr0 ++ cm :: ((u0 :: ur0 ++ tt3) ++ rp :: rest)) := by simp
        have hp' : run (parseExpr fo (t0 :: (tr0 ++ cm :: ((u0 :: ur0 ++ tt3) ++ rp :: rest)))) =
            some (pf e, cm :: ((u0 :: ur0 ++ tt3) ++ rp :: rest)) := by
          simpa using hp
        rw [e1, run_elems_more fo t0 cm _ _ _ hn hp' hcm (by simp only [List.cons_append, tk]; exact hne2.2.2.1)]
        have := ces (u0 :: ur0 ++ tt3) rp rest (by simpa using htt2) hrp
        rw [this]
        simp only [pfs]
  theorem optOk : (o : OptExpr) → Frag2O fo o → OptOk fo o
    | .none, _ => trivial
    | .some e, h => by
      simp only [Frag2O] at h
      exact primOk e h
end

end Tengo.Proofs.C20Bytes2Parse

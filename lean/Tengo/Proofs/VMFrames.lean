import Tengo.Proofs.VMRun
import Tengo.Proofs.VMPost
namespace Tengo.Model.VM
open Tengo.Model.Spec Tengo.Model.Opcodes

/-! ### frames -/

theorem fetch_op (f : Fn) (ip : Int) : (fetch f ip).op = byteAt f ip := by
  unfold fetch
  dsimp only
  split <;> rfl

/-- The slot OpCall reads its callee from (below the arguments the instruction's first operand counts). -/
def calleeOf (f : Fn) (c : Core) : Value :=
  getSlot c.regs (c.regs.sp - 1 - (fetch f (c.cur.ip + 1)).a0)

/-- What one dispatch may do to the frame stack. -/
inductive FrameStep (f : Fn) (c c' : Core) : Prop
  /-- same frame: only `ip`, the discard mark and the registers change -/
  | same : c'.callers = c.callers → c'.cur.fnIdx = c.cur.fnIdx → c'.cur.fnRef = c.cur.fnRef →
      c'.cur.bp = c.cur.bp → c'.cur.free = c.cur.free → FrameStep f c c'
  /-- a frame is pushed: the frame array had room, and the call is not a self tail call -/
  | push (cr : Nat) : c'.callers = { c.cur with ip := c.cur.ip + 1 + 2 } :: c.callers →
      c.callers.length + 1 < maxFrames → c'.cur.ip = -1 → c'.cur.fnRef = some cr →
      calleeOf f c = .cfn cr → isSelfTail f c.cur cr (c.cur.ip + 1 + 2) = false → FrameStep f c c'
  /-- return to the caller -/
  | pop : byteAt f (c.cur.ip + 1) = opReturn → c.callers = c'.cur :: c'.callers → FrameStep f c c'

def StepPost (f : Fn) (c : Core) : ExecOut → Prop
  | .next c' _ => FrameStep f c c'
  | .halt c' => c'.callers = c.callers

theorem finishCompiled_frames (f : Fn) (c : Core) (r : Regs) (numArgs cr k : Nat) (free : List Nat) (cf : Fn)
    (hc : calleeOf f c = .cfn cr) :
    PostX (finishCompiled f (c.cur.ip + 1 + 2) c r numArgs cr k free cf) (StepPost f c) := by
  unfold finishCompiled
  split
  · apply PostX_bind'
    intro r'
    apply PostX_pure
    exact FrameStep.same rfl rfl rfl rfl rfl
  · rename_i hnt
    split
    · exact PostX_rtE _
    · rename_i hd
      apply PostX_pure
      refine FrameStep.push cr rfl ?_ rfl rfl hc (by simpa using hnt)
      simp at hd; omega


macro "post_walk" : tactic => `(tactic| repeat' (first
  | with_reducible apply PostX_rtE | with_reducible apply PostX_unsupE | with_reducible apply PostX_panicE
  | with_reducible apply PostX_fault
  | (with_reducible apply PostX_bind'; intro _)
  | split))

theorem execCall_frames (code : Code) (f : Fn) (c : Core) (spread : Nat) :
    PostX (execCall code f (c.cur.ip + 1) (fetch f (c.cur.ip + 1)).a0 spread c) (StepPost f c) := by
  unfold execCall
  dsimp only
  post_walk
  all_goals first
    | (apply finishCompiled_frames; assumption)
    | (apply PostX_pure; exact FrameStep.same rfl rfl rfl rfl rfl)


theorem execReturn_frames (f : Fn) (a0 : Nat) (c : Core) (hop : byteAt f (c.cur.ip + 1) = opReturn) :
    PostX (execReturn a0 c) (StepPost f c) := by
  unfold execReturn
  dsimp only
  post_walk
  all_goals (apply PostX_pure; exact FrameStep.pop hop (by assumption))

/-- **Frame discipline.** One dispatch either stays in the frame, pushes exactly one frame (only when
the frame array has room and the call is not a self tail call), or pops exactly one. -/
theorem exec_frames (code : Code) (c : Core) :
    PostX (exec code c) (fun o => ∃ f, code.fn c.cur.fnIdx = some f ∧ StepPost f c o) := by
  unfold exec
  split
  · rename_i f hf
    dsimp only
    split
    · exact PostX_fault _
    · split
      · exact PostX_mono (execCall_frames code f c _) (fun o h => ⟨f, hf, h⟩)
      · split
        · rename_i hret
          exact PostX_mono (execReturn_frames f _ c (by rw [← fetch_op]; simpa using hret)) (fun o h => ⟨f, hf, h⟩)
        · split
          · apply PostX_pure
            exact ⟨f, hf, rfl⟩
          · apply PostX_bind'
            intro o
            apply PostX_pure
            exact ⟨f, hf, FrameStep.same rfl rfl rfl rfl rfl⟩
  · exact PostX_fault _

/-- Frame depth as the VM counts it (`framesIndex`). -/
def Core.depth (c : Core) : Nat := c.callers.length + 1

theorem FrameStep.depth_le {f : Fn} {c c' : Core} (h : FrameStep f c c') (hd : c.depth ≤ maxFrames) :
    c'.depth ≤ maxFrames := by
  unfold Core.depth at *
  cases h with
  | same hc => rw [hc]; exact hd
  | push cr hc hlt => rw [hc]; simp; omega
  | pop _ hc => rw [hc] at hd; simp at hd; omega

/-- **The frame array never overflows**: every dispatch keeps `framesIndex ≤ MaxFrames`. -/
theorem exec_depth (code : Code) (c : Core) (hd : c.depth ≤ maxFrames) :
    PostX (exec code c) (fun o => match o with | .next c' _ => c'.depth ≤ maxFrames | .halt c' => c'.depth ≤ maxFrames) := by
  refine PostX_mono (exec_frames code c) ?_
  rintro o ⟨f, _, h⟩
  cases o with
  | next c' a => exact FrameStep.depth_le h hd
  | halt c' =>
    simp only [StepPost] at h
    show c'.callers.length + 1 ≤ maxFrames
    rw [h]; exact hd

/-- **Self tail calls reuse the frame.** If the instruction about to run is a call whose callee is the
very function object the frame is running, and the call is directly followed by a return (or by POP,
return), then — whatever the depth, arguments or heap — the dispatch does not touch the frame stack:
same callers, same base pointer, `ip` back at the start of the function. -/
theorem self_tail_call_reuses_frame (code : Code) (c : Core) (f : Fn) (cr : Nat)
    (hf : code.fn c.cur.fnIdx = some f)
    (hop : byteAt f (c.cur.ip + 1) = opCall)
    (hcallee : calleeOf f c = .cfn cr)
    (hself : c.cur.fnRef = some cr)
    (hnext : byteAt f (c.cur.ip + 1 + 2 + 1) = opReturn ∨
             (byteAt f (c.cur.ip + 1 + 2 + 1) = opPop ∧ byteAt f (c.cur.ip + 1 + 2 + 2) = opReturn)) :
    PostX (exec code c) (fun o => ∀ c' a, o = .next c' a →
      c'.callers = c.callers ∧ c'.cur.bp = c.cur.bp ∧ c'.cur.fnRef = c.cur.fnRef) := by
  have htail : isSelfTail f c.cur cr (c.cur.ip + 1 + 2) = true := by
    unfold isSelfTail
    simp only [hself, beq_self_eq_true, Bool.true_and]
    rcases hnext with h | ⟨h1, h2⟩
    · simp [h]
    · simp [h1, h2]
  unfold exec
  rw [hf]
  dsimp only
  split
  · exact PostX_fault _
  rw [if_pos (by rw [fetch_op]; simp [hop])]
  refine PostX_mono (execCall_frames code f c _) ?_
  intro o h c' a ho
  subst ho
  simp only [StepPost] at h
  cases h with
  | same h1 _ h3 h4 => exact ⟨h1, h4, h3⟩
  | push cr' _ _ _ _ hc hnt =>
    rw [hcallee] at hc
    cases hc
    rw [htail] at hnt
    cases hnt
  | pop hret _ =>
    rw [hop] at hret
    simp [opCall, opReturn] at hret


def Outcome.cfg : Outcome → Cfg
  | .halted c | .failed _ c | .fault _ c | .limit c | .outOfFuel c => c

/-- **Every configuration a run reaches respects the frame limit** (take the fuel to be the number
of dispatches up to that configuration): deep recursion ends in the stack-overflow error of
`finishCompiled`, never in an access outside the frame array. -/
theorem run_depth (code : Code) (keep : Nat) :
    ∀ (fuel : Nat) (allocs : Int) (cfg : Cfg) (log : Log), cfg.core.depth ≤ maxFrames →
      (run code keep fuel allocs cfg log).1.cfg.core.depth ≤ maxFrames := by
  intro fuel
  induction fuel with
  | zero => intro allocs cfg log h; simpa [run, Outcome.cfg] using h
  | succ fuel ih =>
    intro allocs cfg log h
    rw [run_succ]
    split
    · simpa [Outcome.cfg] using h
    · simpa [Outcome.cfg] using h
    · rename_i c g hh heq
      have := exec_depth code cfg.core h _ _ _ _ _ heq _ rfl
      simpa [Outcome.cfg] using this
    · rename_i c g hh heq
      have := exec_depth code cfg.core h _ _ _ _ _ heq _ rfl
      exact ih allocs ⟨c, g, hh⟩ _ this
    · rename_i c g hh heq
      have := exec_depth code cfg.core h _ _ _ _ _ heq _ rfl
      split
      · simpa [Outcome.cfg] using h
      · exact ih (allocs - 1) ⟨c, g, hh⟩ _ this

end Tengo.Model.VM

import Tengo.Proofs.C10HeapEq
/-!
C09/C10 — the well-formedness hypothesis `Closed` (every header's store is allocated) of the freeze, equality and
copy theorems is an invariant: every operation of the model keeps it, and the empty heap has it. Hence it holds of
every heap the operations can build.
-/
namespace Tengo.Proofs.C09Closed
open Tengo.Model.Heap9 Tengo.Props.C09 Tengo.Proofs.C10Heap

theorem closed_of_same {h h' : Heap} (c : Closed h) (o : h'.objs = h.objs) (a : h'.astores.length = h.astores.length)
    (m : h'.mstores.length = h.mstores.length) : Closed h' := by
  intro x hx
  rw [o] at hx
  exact storeOk_mono (Nat.le_of_eq a.symm) (Nat.le_of_eq m.symm) (c x hx)

theorem closed_push {h : Heap} (c : Closed h) (v : Val) : Closed (h.push v) := closed_of_same c rfl rfl rfl
theorem closed_pushAll {h : Heap} (c : Closed h) (vs : List Val) : Closed (h.pushAll vs) := closed_of_same c rfl rfl rfl

theorem closed_setA {h : Heap} (c : Closed h) (s : Nat) (xs : List Val) : Closed (h.setA s xs) :=
  closed_of_same c rfl (by simp [Heap.setA]) rfl

theorem closed_setM {h : Heap} (c : Closed h) (s : Nat) (xs : List (String × Val)) : Closed (h.setM s xs) :=
  closed_of_same c rfl rfl (by simp [Heap.setM])

theorem closed_allocObj {h : Heap} (c : Closed h) {o : Obj} (ok : storeOk h o = true) : Closed (h.allocObj o).1 := by
  intro x hx
  simp only [Heap.allocObj, List.mem_append, List.mem_singleton] at hx
  rcases hx with hx | hx
  · exact storeOk_mono (Nat.le_refl _) (Nat.le_refl _) (c x hx)
  · subst hx; exact storeOk_mono (Nat.le_refl _) (Nat.le_refl _) ok

theorem closed_setObj {h : Heap} (c : Closed h) (r : Nat) {o : Obj} (ok : storeOk h o = true) : Closed (h.setObj r o) := by
  intro x hx
  simp only [Heap.setObj] at hx
  rcases List.mem_or_eq_of_mem_set hx with hx | hx
  · exact storeOk_mono (Nat.le_refl _) (Nat.le_refl _) (c x hx)
  · subst hx; exact storeOk_mono (Nat.le_refl _) (Nat.le_refl _) ok

theorem storeOk_of_obj {h : Heap} (c : Closed h) {r : Nat} {o : Obj} (ho : h.obj r = o) (nd : o ≠ .dead) : storeOk h o = true :=
  c o (List.mem_of_getElem? (obj_some ho nd))

theorem storeOk_arr_of {h : Heap} (c : Closed h) {r s off len cap : Nat} {m : Bool} (ho : h.obj r = Obj.arr m s off len cap)
    (m' : Bool) (off' len' cap' : Nat) : storeOk h (Obj.arr m' s off' len' cap') = true := by
  have := storeOk_of_obj c ho (by simp)
  simpa [storeOk] using this

theorem storeOk_arr_of_ok {h : Heap} {s off len cap : Nat} {m : Bool} (ok : storeOk h (Obj.arr m s off len cap) = true)
    (m' : Bool) (off' len' cap' : Nat) : storeOk h (Obj.arr m' s off' len' cap') = true := by
  simpa [storeOk] using ok

theorem storeOk_map_of {h : Heap} (c : Closed h) {r s : Nat} {m : Bool} (ho : h.obj r = Obj.map m s)
    (m' : Bool) : storeOk h (Obj.map m' s) = true := by
  have := storeOk_of_obj c ho (by simp)
  simpa [storeOk] using this

theorem storeOk_setA {h : Heap} {o : Obj} (ok : storeOk h o = true) (s : Nat) (xs : List Val) :
    storeOk (h.setA s xs) o = true :=
  storeOk_mono (h := h) (h' := h.setA s xs) (by simp [Heap.setA]) (Nat.le_refl _) ok

theorem closed_pushNew {p : Heap × Ref} (c : Closed p.1) : Closed (pushNew p).1 := closed_push c _

theorem arrSet_closed {h : Heap} (c : Closed h) (s off len : Nat) (n : Int) (v : Val) : Closed (arrSet h s off len n v).1 := by
  unfold arrSet; split
  · exact c
  · exact closed_setA c _ _

theorem indexSet_closed {h : Heap} (c : Closed h) (dst idx v : Val) : Closed (indexSet h dst idx v).1 := by
  unfold indexSet
  repeat' split
  all_goals first
    | exact c
    | exact arrSet_closed c _ _ _ _ _
    | exact closed_setM c _ _

theorem indexAssign_closed {h : Heap} (c : Closed h) (dst : Val) (sels : List Val) (src : Val) :
    Closed (indexAssign h dst sels src).1 := by
  induction sels generalizing dst with
  | nil => exact c
  | cons i rest ih =>
    cases rest with
    | nil => exact indexSet_closed c _ _ _
    | cons j rest' =>
      unfold indexAssign
      split
      · exact ih _
      · exact c
      · exact c

theorem stepAppend_closed {h : Heap} (c : Closed h) (x : Nat) (items : List Nat) (nc : Nat) :
    Closed (stepAppend h x items nc).1 := by
  unfold stepAppend
  repeat' split
  all_goals first
    | exact c
    | exact closed_pushNew (closed_newArr c _ _ _)
    | exact closed_pushNew (closed_allocObj (closed_setA c _ _)
        (storeOk_setA (storeOk_arr_of c (by assumption) _ _ _ _) _ _))

theorem stepSlice_closed {h : Heap} (c : Closed h) (x lo hi nc : Nat) : Closed (stepSlice h x lo hi nc).1 := by
  unfold stepSlice
  repeat' split
  all_goals try subst_vars
  all_goals first
    | exact c
    | exact closed_pushNew (closed_newArr c _ _ _)
    | exact closed_pushNew (closed_allocObj c (storeOk_arr_of c (by assumption) _ _ _ _))

theorem stepAdd_closed {h : Heap} (c : Closed h) (x y : Nat) : Closed (stepAdd h x y).1 := by
  unfold stepAdd
  repeat' split
  all_goals first
    | exact c
    | exact closed_push c _
    | exact closed_pushNew (closed_newArr c _ _ _)

theorem stepDelete_closed {h : Heap} (c : Closed h) (x k : Nat) : Closed (stepDelete h x k).1 := by
  unfold stepDelete
  repeat' split
  all_goals first
    | exact c
    | exact closed_setM c _ _

theorem stepIter_closed {h : Heap} (c : Closed h) (x : Nat) : Closed (stepIter h x).1 := by
  unfold stepIter
  repeat' split
  all_goals first
    | exact c
    | exact closed_pushAll c _

theorem closed_realloc {h : Heap} (c : Closed h) (r : Ref) (xs : List Val) (l cp : Nat) :
    Closed { h with astores := h.astores ++ [xs], objs := h.objs.set r (Obj.arr true h.astores.length 0 l cp) } := by
  intro x hx
  simp only at hx
  rcases List.mem_or_eq_of_mem_set hx with hx | hx
  · exact storeOk_mono (h := h)
      (h' := { h with astores := h.astores ++ [xs], objs := h.objs.set r (Obj.arr true h.astores.length 0 l cp) })
      (by simp) (Nat.le_refl _) (c x hx)
  · subst hx; simp [storeOk]

theorem spliceWrite_closed {h : Heap} (c : Closed h) (r : Ref) (s off len cap st : Nat) (items : List Val) (nc : Nat)
    (ok : storeOk h (Obj.arr true s off len cap) = true) : Closed (spliceWrite h r s off len cap st items nc) := by
  unfold spliceWrite
  simp only
  split
  · exact closed_setObj (closed_setA c _ _) r (storeOk_setA (storeOk_arr_of_ok ok _ _ _ _) _ _)
  · exact closed_realloc c r _ _ _

theorem stepSplice_closed {h : Heap} (c : Closed h) (x : Nat) (args : List Nat) (nc dc : Nat) :
    Closed (stepSplice h x args nc dc).1 := by
  unfold stepSplice
  repeat' split
  all_goals first
    | exact c
    | exact closed_pushNew (closed_newArr (spliceWrite_closed c _ _ _ _ _ _ _ _ (storeOk_arr_of c (by assumption) _ _ _ _)) _ _ _)

theorem closed_consume {h : Heap} (c : Closed h) (r : Ref) (x : Nat) :
    Closed { h.setObj r Obj.dead with regs := h.regs.set x Val.undef } :=
  closed_of_same (closed_setObj c r (o := .dead) rfl) rfl rfl rfl

theorem storeOk_consume {h : Heap} {o : Obj} (ok : storeOk h o = true) (r : Ref) (x : Nat) :
    storeOk { h.setObj r Obj.dead with regs := h.regs.set x Val.undef } o = true :=
  storeOk_mono (h := h) (Nat.le_refl _) (Nat.le_refl _) ok

theorem stepImmutable_closed {h : Heap} (c : Closed h) (cs : Bool) (x : Nat) : Closed (stepImmutable h cs x).1 := by
  unfold stepImmutable
  repeat' split
  all_goals first
    | exact c
    | exact closed_push c _
    | exact closed_pushNew (closed_allocObj c (storeOk_arr_of c (by assumption) _ _ _ _))
    | exact closed_pushNew (closed_allocObj c (storeOk_map_of c (by assumption) _))
    | exact closed_pushNew (closed_allocObj (closed_consume c _ _)
        (storeOk_consume (storeOk_arr_of c (by assumption) _ _ _ _) _ _))
    | exact closed_pushNew (closed_allocObj (closed_consume c _ _)
        (storeOk_consume (storeOk_map_of c (by assumption) _) _ _))

/-- Every operation keeps the heap well-formed. -/
theorem step_closed {h : Heap} (c : Closed h) (op : Op) : Closed (step h op).1 := by
  cases op with
  | lit l => exact closed_push c _
  | mkArr elems cap =>
    simp only [step]; split
    · exact closed_pushNew (closed_newArr c _ _ _)
    · exact c
  | mkMap kvs =>
    simp only [step]; split
    · exact closed_pushNew (closed_newMap c _ _)
    · exact c
  | mkErr x =>
    simp only [step]; split
    · exact closed_pushNew (closed_allocObj c rfl)
    · exact c
  | immutable cs x => exact stepImmutable_closed c _ _
  | idxGet x i =>
    simp only [step]
    repeat' split
    all_goals first | exact c | exact closed_push c _
  | setSel x sels v =>
    simp only [step]; split
    · exact indexAssign_closed c _ _ _
    · exact c
  | append x items nc => exact stepAppend_closed c _ _ _
  | splice x args nc dc => exact stepSplice_closed c _ _ _ _
  | delete x k => exact stepDelete_closed c _ _
  | slice x lo hi nc => exact stepSlice_closed c _ _ _ _
  | add x y => exact stepAdd_closed c _ _
  | copy x caps =>
    simp only [step]
    repeat' split
    all_goals first
      | exact c
      | exact closed_push (copyN_closed _ _ _ _ _ _ _ (by assumption) c) _
  | freeze x =>
    simp only [step]
    repeat' split
    all_goals first
      | exact c
      | exact closed_push (freeze_spec _ _ _ _ _ _ _ (by assumption) c (memoOK_nil _)).1 _
  | iter x => exact stepIter_closed c _
  | eq x y =>
    simp only [step]
    repeat' split
    all_goals exact c

theorem run_closed (ops : List Op) : ∀ {h : Heap}, Closed h → Closed (run h ops) := by
  induction ops with
  | nil => intro h c; exact c
  | cons op ops ih => intro h c; exact ih (step_closed c op)

theorem closed_empty : Closed {} := by intro o ho; cases ho

/-- Every heap the operations can build from the empty heap is well-formed. -/
theorem closed_of_ops (ops : List Op) : Closed (run {} ops) := run_closed ops closed_empty

end Tengo.Proofs.C09Closed

import Tengo.Proofs.C20StmtParse
/-!
C20 — the side condition `braceFirst` (first token of the printed expression is `{`) in structural form: the expression
is a map literal or a selector / index / slice / call chain on one.
-/
namespace Tengo.Proofs.C20Stmt
open Tengo.Model.Token Tengo.Model.Scanner Tengo.Model.Ast Tengo.Model.Parser Tengo.Model.Literal
open Tengo.Proofs.C20Parser Tengo.Proofs.C20BytesScan Tengo.Proofs.C20BytesParse Tengo.Proofs.C20BytesPrint
open Tengo.Proofs.C20Bytes2Scan Tengo.Proofs.C20Bytes2Stream Tengo.Proofs.C20Bytes2Parse

variable {fo : Bs → Option Nat}

/-- The expression is a map literal, or a postfix chain (selector, index, slice, call) on one. -/
def startsBrace : Expr → Bool
  | .map _ => true
  | .sel e _ => !isIntLit e && startsBrace e
  | .idx e _ => startsBrace e
  | .slice e _ _ => startsBrace e
  | .call f _ _ => startsBrace f
  | _ => false

def headBrace : List (Tok × Bs) → Bool
  | (.LBrace, _) :: _ => true
  | _ => false

theorem braceFirst_def (x : Expr) : braceFirst x = headBrace (keysOf (layE x)) := by
  unfold braceFirst headBrace
  split <;> simp_all

theorem headBrace_append {a : List (Tok × Bs)} (b : List (Tok × Bs)) (h : a ≠ []) :
    headBrace (a ++ b) = headBrace a := by
  cases a with
  | nil => exact absurd rfl h
  | cons k ks => obtain ⟨t, l⟩ := k; cases t <;> rfl

theorem keys_ne (x : Expr) (h : Frag2 fo x) : keysOf (layE x) ≠ [] := by
  obtain ⟨k, ks, hh, -⟩ := (primOk x h).head
  rw [hh]; simp

theorem headBrace_word (k : Tok) (n : Bs) (h : wordAtom k n = true) (r : List (Tok × Bs)) :
    headBrace ((Tok.lookup n, n) :: r) = false := by
  obtain ⟨-, h2, h3, -, -⟩ := wordAtom_atom h
  rw [h2]
  cases k <;> simp [isAtomTok] at h3 <;> rfl

theorem braceFirst_eq : (x : Expr) → Frag2 fo x → braceFirst x = startsBrace x
  | .ident n, h => by
    simp only [Frag2] at h
    rw [braceFirst_def]
    simpa [layE, startsBrace, Item2.tok, Item2.lit'] using headBrace_word _ n h []
  | .bool true, _ => by rw [braceFirst_def]; simpa [layE, startsBrace, Item2.tok, Item2.lit'] using headBrace_word _ _ kw2.1 []
  | .bool false, _ => by rw [braceFirst_def]; simpa [layE, startsBrace, Item2.tok, Item2.lit'] using headBrace_word _ _ kw2.2.1 []
  | .undef, _ => by rw [braceFirst_def]; simpa [layE, startsBrace, Item2.tok, Item2.lit'] using headBrace_word _ _ kw2.2.2 []
  | .int _ _, _ => by rw [braceFirst_def]; rfl
  | .float _ _, _ => by rw [braceFirst_def]; rfl
  | .char _ _, _ => by rw [braceFirst_def]; rfl
  | .str _ _, _ => by rw [braceFirst_def]; rfl
  | .bin _ _ _, _ => by rw [braceFirst_def]; rfl
  | .un _ _, _ => by rw [braceFirst_def]; rfl
  | .cond _ _ _, _ => by rw [braceFirst_def]; rfl
  | .paren _, _ => by rw [braceFirst_def]; rfl
  | .arr _, _ => by rw [braceFirst_def]; rfl
  | .map _, _ => by rw [braceFirst_def]; rfl
  | .error _, _ => by rw [braceFirst_def]; simp [layE, startsBrace, Item2.tok, Item2.lit', kwc.1, headBrace]
  | .immutable _, _ => by rw [braceFirst_def]; simp [layE, startsBrace, Item2.tok, Item2.lit', kwc.2.1, headBrace]
  | .imp _, _ => by rw [braceFirst_def]; simp [layE, startsBrace, Item2.tok, Item2.lit', kwi.1, headBrace]
  | .sel e n, h => by
    simp only [Frag2] at h
    have ih := braceFirst_eq e h.2.2
    rw [braceFirst_def] at ih ⊢
    cases hi : isIntLit e with
    | true => simp [layE, startsBrace, selBase, hi, headBrace]
    | false =>
      simp only [layE, startsBrace, selBase, hi, Bool.false_eq_true, if_false, keysOf_append, Bool.not_false,
        Bool.true_and]
      rw [headBrace_append _ (keys_ne e h.2.2), ih]
  | .idx e i, h => by
    simp only [Frag2] at h
    have ih := braceFirst_eq e h.1
    rw [braceFirst_def] at ih ⊢
    simp only [layE, startsBrace, keysOf_append]
    rw [headBrace_append _ (keys_ne e h.1), ih]
  | .slice e lo hi, h => by
    simp only [Frag2] at h
    have ih := braceFirst_eq e h.1
    rw [braceFirst_def] at ih ⊢
    simp only [layE, startsBrace, keysOf_append]
    rw [headBrace_append _ (keys_ne e h.1), ih]
  | .call f args ell, h => by
    simp only [Frag2] at h
    have ih := braceFirst_eq f h.2.1
    rw [braceFirst_def] at ih ⊢
    simp only [layE, startsBrace, keysOf_append]
    rw [headBrace_append _ (keys_ne f h.2.1), ih]
  | .func _ _ _, h => by simp [Frag2] at h
  | .bad, h => by simp [Frag2] at h

end Tengo.Proofs.C20Stmt

import Tengo.Proofs.C01F3OptFits
import Tengo.Proofs.C01BridgeF3CompFile
/-!
C01 on fragment F3, closing the optimizer gap, layer 3: **the compiled F3 program is the optimized twin of the
fragment compiler's program.**

* `raw_decodes` / `raw_opt`: the raw body `rawBody fd = encodeIns3 (F3.compSs 0 0 0 fd.body)` of a function whose
  operands fit decodes to `toIs 0 …`, its jumps are well formed, hence the optimizer model does not panic on it
  (`opt_total`): `optBody fd` is defined — the hypothesis `optOK` of `compileFile_fragment3_partial` is a THEOREM
  for well-formed programs (`optOK_of`).
* `main_*`: the main function `encodeIns3 main ++ [SUSPEND]` decodes, its jumps and fall-throughs stay inside.
* `bcOf P ctab n`: the `Bytecode'` `compileFile_fragment3_partial` names; `rawsOf P`: its raw bodies;
  `unoptTwin_bcOf`: `UnoptTwin (bcOf P ctab n) (mainIsOf P) (rawsOf P)` — with the EXPLICIT raw bodies, which is
  what `Tengo.Props.C03Source.compiled_is_optimized_twin` gives only existentially.
-/
set_option linter.unusedVariables false
set_option linter.unusedSimpArgs false
namespace Tengo.Proofs.C01F3Opt
open Tengo.Model Tengo.Model.Opcodes Tengo.Model.Optimizer
open Tengo.Model.F3 (Ins csize Ex Exs Stm Stms FnDef Prog comp compEs compS compSs)
open Tengo.Proofs.C03 Tengo.Proofs.C03Reloc
open Tengo.Proofs.C02Compile (suspI)
open Tengo.Proofs.C03Source (UnoptTwin)
open Tengo.Proofs.C01BridgeF3Comp
open Tengo.Proofs.C01BridgeF3 (InsFits3 InsRange3)

/-! ### one function -/

/-- The raw body of a function decodes to the fragment's instructions, with well-formed jumps. -/
theorem raw_decodes (fd : FnDef) (hfit : ∀ i ∈ compSs 0 0 0 fd.body, InsFits3 i) :
    decode (rawBody fd) = some (toIs 0 (compSs 0 0 0 fd.body)) ∧
      WFJumps (toIs 0 (compSs 0 0 0 fd.body)) (rawBody fd).length := by
  refine ⟨decode_toIs _ hfit, ?_⟩
  unfold rawBody
  rw [encodeIns3_length]
  exact wfjumps_toIs (body_jok fd.body)

/-- **The optimizer model does not panic on the raw body of a function of the fragment.** -/
theorem raw_opt (fd : FnDef) (hfit : ∀ i ∈ compSs 0 0 0 fd.body, InsFits3 i) :
    ∃ r, Optimizer.opt (rawBody fd) [] 0 = .ok r := by
  obtain ⟨hd, hw⟩ := raw_decodes fd hfit
  obtain ⟨r, hr⟩ := Tengo.Props.C03Sim.opt_total _ (rawBody fd).length [] 0 hw
  exact ⟨r, by simp [Optimizer.opt, hd, hr]⟩

theorem optBody_isSome (fd : FnDef) (hfit : ∀ i ∈ compSs 0 0 0 fd.body, InsFits3 i) :
    (C01BridgeF3Comp.optBody fd).isSome = true := by
  obtain ⟨r, hr⟩ := raw_opt fd hfit
  simp [C01BridgeF3Comp.optBody, hr]

/-- `optOK` follows from: the optimizer does not panic on any function of `P`. -/
theorem optOK_of (P : Prog) (h : ∀ j fd, P.fns j = some fd → (C01BridgeF3Comp.optBody fd).isSome = true) :
    ∀ ss : Stms, optOK P ss = true
  | .nil => rfl
  | .cons s ss => by
    simp only [optOK, Bool.and_eq_true]
    refine ⟨?_, optOK_of P h ss⟩
    cases ht : topFn P s with
    | none => rfl
    | some x =>
      obtain ⟨i, j, fd⟩ := x
      exact h j fd (topFn_some ht).2

/-! ### main -/

/-- The decoded main function: the fragment's instructions, then SUSPEND. -/
def mainIsOf (main : List Ins) : List Instr := toIs 0 main ++ [suspI (csize main)]

theorem encode_mainIsOf (main : List Ins) :
    encode (mainIsOf main) = encodeIns3 main ++ [UInt8.ofNat opSuspend] := by
  unfold mainIsOf
  rw [Tengo.Proofs.C02Compile.encode_append, encode_toIs]
  rfl

theorem layout_mainIsOf (main : List Ins) : Layout 0 (mainIsOf main) :=
  layout_append_single (layout_toIs main 0) (by simp [suspI, totalSize_toIs])

theorem main_decodes (main : List Ins) (hfit : ∀ i ∈ main, InsFits3 i) :
    decode (encodeIns3 main ++ [UInt8.ofNat opSuspend]) = some (mainIsOf main) := by
  rw [← encode_mainIsOf]
  refine decode_encode _ (layout_mainIsOf main) ?_
  intro j hj
  unfold mainIsOf at hj
  rcases List.mem_append.mp hj with h | h
  · exact wfcode_toIs main 0 hfit j h
  · simp only [List.mem_singleton] at h
    subst h
    exact ⟨[], rfl, trivial⟩

theorem main_ne (main : List Ins) : mainIsOf main ≠ [] := by simp [mainIsOf]

theorem main_closedJumps (main : List Ins) (hj : JOk main main) : ClosedJumps (mainIsOf main) := by
  intro i hi hjmp
  unfold mainIsOf at hi
  rcases List.mem_append.mp hi with h | h
  · obtain ⟨p, x, hx, rfl⟩ := mem_toIs h
    obtain ⟨t, ht, hhd⟩ := isJump_toI p x hjmp
    rcases bd_cases (hj x hx t ht) 0 with e | ⟨y, hy, hp⟩
    · refine ⟨suspI (csize main), by simp [mainIsOf], ?_⟩
      rw [hhd]
      show some t = some (csize main)
      congr 1; omega
    · refine ⟨y, by unfold mainIsOf; exact List.mem_append_left _ hy, ?_⟩
      rw [hhd, hp]; simp
  · simp only [List.mem_singleton] at h
    subst h
    cases hjmp

theorem main_closedFall (main : List Ins) : ClosedFall (mainIsOf main) :=
  Tengo.Proofs.C03Source.main_closedFall (layout_mainIsOf main)

/-! ### the compiled program and its raw bodies -/

/-- The `Bytecode'` the compiler model answers on the embedded program (`compileFile_fragment3_partial`). -/
def bcOf (P : Prog) (ctab : Nat → F0.Const) (n : Nat) : Compiler.Bytecode' :=
  { main := encodeIns3 (F3.compProg P).main ++ [UInt8.ofNat opSuspend],
    consts := (List.range (nlitsMain P P.main)).map (poolOf P ctab),
    maxGlobals := n }

/-- The raw (un-optimized) body of function index `k + 1`: the encoding of the fragment compiler's body. -/
def rawsOf (P : Prog) : Nat → Model.Bytes
  | 0 => []
  | k + 1 =>
    match P.fns k with
    | some fd => rawBody fd
    | none => []

theorem bcOf_const (P : Prog) (ctab : Nat → F0.Const) (n k : Nat) :
    (bcOf P ctab n).consts[k]? = if k < nlitsMain P P.main then some (poolOf P ctab k) else none := by
  unfold bcOf
  simp only [List.getElem?_map, List.getElem?_range']
  by_cases hk : k < nlitsMain P P.main
  · simp [hk, List.getElem?_range hk]
  · simp [hk, List.getElem?_eq_none (by simpa using Nat.le_of_not_lt hk : (List.range (nlitsMain P P.main)).length ≤ k)]

theorem constOf_not_fn (c : F0.Const) (code : Model.Bytes) (nl np : Nat) (va : Bool) :
    C01Bridge.constOf c ≠ Compiler.Const.fn code nl np va := by
  cases c <;> intro h <;> cases h

/-- A function constant of the compiled program is the constant of a function of `P`. -/
theorem bcOf_fn {P : Prog} {ctab : Nat → F0.Const} {n k : Nat} {code : Model.Bytes} {nl np : Nat} {va : Bool}
    (h : (bcOf P ctab n).consts[k]? = some (Compiler.Const.fn code nl np va)) :
    k < nlitsMain P P.main ∧ ∃ fd, P.fns k = some fd ∧ fnConst fd = .fn code nl np va := by
  rw [bcOf_const] at h
  by_cases hk : k < nlitsMain P P.main
  · rw [if_pos hk] at h
    injection h with h
    refine ⟨hk, ?_⟩
    cases hf : P.fns k with
    | none =>
      rw [poolOf_val P ctab k (by simp [isFnOf, hf])] at h
      exact absurd h (constOf_not_fn _ _ _ _ _)
    | some fd =>
      rw [poolOf_fn P ctab k fd hf] at h
      exact ⟨fd, rfl, h⟩
  · rw [if_neg hk] at h; cases h

/-- **The compiled program has the fragment compiler's bodies as raw bodies**: `UnoptTwin` with explicit raws. -/
theorem unoptTwin_bcOf (P : Prog) (ctab : Nat → F0.Const) (n : Nat)
    (hmain : ∀ i ∈ (F3.compProg P).main, InsFits3 i)
    (hfns : ∀ k fd, P.fns k = some fd → (∀ i ∈ compSs 0 0 0 fd.body, InsFits3 i) ∧
      csize (compSs 0 0 0 fd.body) < 4294967296) :
    UnoptTwin (bcOf P ctab n) (mainIsOf (F3.compProg P).main) (rawsOf P) where
  main_dec := main_decodes _ hmain
  main_ne := main_ne _
  main_jumps := main_closedJumps _ (body_jok P.main)
  main_fall := main_closedFall _
  fns := by
    intro k code nl np va hk
    obtain ⟨_, fd, hf, hc⟩ := bcOf_fn hk
    obtain ⟨hfit, hsz⟩ := hfns k fd hf
    have hraw : rawsOf P (k + 1) = rawBody fd := by simp only [rawsOf, hf]
    rw [hraw]
    obtain ⟨hd, hw⟩ := raw_decodes fd hfit
    refine ⟨⟨_, hd, hw⟩, ?_, ?_⟩
    · unfold rawBody; rw [encodeIns3_length]; exact hsz
    · obtain ⟨r, hr⟩ := raw_opt fd hfit
      rw [C03Reloc.optBody_eq hr]
      have : fnConst fd = .fn r.bytes fd.nlocals fd.nparams false := by
        simp [fnConst, C01BridgeF3Comp.optBody, hr]
      rw [this] at hc
      injection hc with h1
      rw [h1]

end Tengo.Proofs.C01F3Opt

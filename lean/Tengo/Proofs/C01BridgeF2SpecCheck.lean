import Tengo.Proofs.C01BridgeF2Defs
import Tengo.Proofs.C01BridgeSpecCheck
/-!
C01 bridge for fragment F2, reference-interpreter side: the static check of the reference semantics
(`Spec.checkProgram`) accepts every embedded F2 program whose slots are pre-declared as inputs and whose
`break` / `continue` are inside loops (`checkProgram_fragment2`); the checker's loop counter is positive exactly
where `F2.scopedS` allows a `break`.
-/
set_option linter.unusedVariables false
set_option linter.unusedSimpArgs false
namespace Tengo.Proofs.C01Bridge
open Tengo.Model Tengo.Model.F0
open Tengo.Model.Spec (Expr Stmt CSt Tab checkExpr checkStmt checkStmts checkBlock checkAssign checkOptStmt checkExprs)

section
variable {names : Nat → String} {ctab : Nat → F0.Const} {n : Nat}

theorem pushed_loops (s : CSt) : (pushed s).loops = s.loops := rfl
theorem looped_loops (s : CSt) : (looped s).loops = s.loops + 1 := rfl

theorem branch_ok (d : Nat) (tok : String) (s : CSt) (h : (s.loops != 0) = true) :
    KId (checkStmt (d + 1) (.branch tok)) s := by
  have hl : (s.loops == 0) = false := by simpa using h
  simp only [checkStmt]
  unfold KId
  rw [k_bind _ _ s s s rfl]
  simp only [hl, Bool.false_eq_true, if_false]
  rfl

mutual
  theorem checkStmt_ok2 : ∀ (st : F2.Stm) (d k : Nat) (s : CSt), budS2 st ≤ d → GoodC names n s →
      wfS2 n k st = true → F2.scopedS (s.loops != 0) st = true →
      KId (checkStmt d (toAstS2 names ctab st)) s
    | .expr e, d, k, s, hd, hg, hw, hsc => by
      simp only [budS2] at hd
      obtain ⟨d, rfl⟩ : ∃ d', d = d' + 1 := ⟨d - 1, by omega⟩
      simp only [wfS2] at hw
      simp only [toAstS2, checkStmt]
      exact checkExpr_ok e d k s (by omega) hg hw
    | .assign i e, d, k, s, hd, hg, hw, hsc => by
      simp only [budS2] at hd
      obtain ⟨d, rfl⟩ : ∃ d', d = d' + 1 + 1 + 1 := ⟨d - 3, by have := budE_pos e; omega⟩
      simp only [wfS2, Bool.and_eq_true, decide_eq_true_eq] at hw
      simp only [toAstS2, checkStmt]
      exact checkAssign_ok d i _ s hg hw.1 (checkExpr_ok e (d + 1) k s (by omega) hg hw.2)
    | .ifs c body, d, k, s, hd, hg, hw, hsc => by
      simp only [budS2] at hd
      obtain ⟨d, rfl⟩ : ∃ d', d = d' + 1 + 1 := ⟨d - 2, by omega⟩
      simp only [wfS2, Bool.and_eq_true] at hw
      simp only [F2.scopedS] at hsc
      simp only [toAstS2, checkStmt]
      exact ((kto_push s).seq ((optNone_ok d _).to.seq ((checkExpr_ok c (d + 1) k _ (by omega) hg.pushed hw.1).to.seq
        ((checkBlock_ok2 body (d + 1) _ _ (by omega) hg.pushed hw.2 hsc).to.seq
          ((optNone_ok d _).to.seq (kto_pop s)))))).id
    | .ifelse c body els, d, k, s, hd, hg, hw, hsc => by
      simp only [budS2] at hd
      obtain ⟨d, rfl⟩ : ∃ d', d = d' + 1 + 1 + 1 + 1 := ⟨d - 4, by omega⟩
      simp only [wfS2, Bool.and_eq_true] at hw
      simp only [F2.scopedS, Bool.and_eq_true] at hsc
      simp only [toAstS2, checkStmt]
      have hels : KId (checkOptStmt (d + 1 + 1 + 1) (some (Stmt.block (toAstSs2 names ctab els)))) (pushed s) := by
        rw [Spec.checkOptStmt, Spec.checkStmt]
        exact checkBlock_ok2 els (d + 1) _ _ (by omega) hg.pushed hw.2 hsc.2
      exact ((kto_push s).seq ((optNone_ok _ _).to.seq ((checkExpr_ok c _ k _ (by omega) hg.pushed hw.1.1).to.seq
        ((checkBlock_ok2 body _ _ _ (by omega) hg.pushed hw.1.2 hsc.1).to.seq (hels.to.seq (kto_pop s)))))).id
    | .whil c body, d, k, s, hd, hg, hw, hsc => by
      simp only [budS2] at hd
      obtain ⟨d, rfl⟩ : ∃ d', d = d' + 1 + 1 := ⟨d - 2, by omega⟩
      simp only [wfS2, Bool.and_eq_true] at hw
      simp only [F2.scopedS] at hsc
      simp only [toAstS2, checkStmt]
      exact ((kto_push s).seq ((optNone_ok d _).to.seq ((checkExpr_ok c (d + 1) k _ (by omega) hg.pushed hw.1).to.seq
        ((kto_loopIn _).seq ((checkBlock_ok2 body (d + 1) _ _ (by omega) hg.pushed.looped hw.2
            (by simpa [looped_loops] using hsc)).to.seq
          ((kto_loopOut _).seq ((optNone_ok d _).to.seq (kto_pop s)))))))).id
    | .forever body, d, k, s, hd, hg, hw, hsc => by
      simp only [budS2] at hd
      obtain ⟨d, rfl⟩ : ∃ d', d = d' + 1 + 1 := ⟨d - 2, by omega⟩
      simp only [wfS2] at hw
      simp only [F2.scopedS] at hsc
      simp only [toAstS2, checkStmt]
      exact ((kto_push s).seq ((optNone_ok d _).to.seq ((KId.pure _).to.seq
        ((kto_loopIn _).seq ((checkBlock_ok2 body (d + 1) _ _ (by omega) hg.pushed.looped hw
            (by simpa [looped_loops] using hsc)).to.seq
          ((kto_loopOut _).seq ((optNone_ok d _).to.seq (kto_pop s)))))))).id
    | .for3 c body post, d, k, s, hd, hg, hw, hsc => by
      simp only [budS2] at hd
      obtain ⟨d, rfl⟩ : ∃ d', d = d' + 1 + 1 := ⟨d - 2, by omega⟩
      simp only [wfS2, Bool.and_eq_true] at hw
      simp only [F2.scopedS, Bool.and_eq_true] at hsc
      simp only [toAstS2, checkStmt]
      have hpost : KId (checkOptStmt (d + 1) (some (toAstS2 names ctab post))) (pushed s) := by
        rw [Spec.checkOptStmt]
        exact checkStmt_ok2 post d _ _ (by omega) hg.pushed hw.2 (by simpa [pushed_loops] using hsc.2)
      exact ((kto_push s).seq ((optNone_ok d _).to.seq ((checkExpr_ok c (d + 1) k _ (by omega) hg.pushed hw.1.1).to.seq
        ((kto_loopIn _).seq ((checkBlock_ok2 body (d + 1) _ _ (by omega) hg.pushed.looped hw.1.2
            (by simpa [looped_loops] using hsc.1)).to.seq
          ((kto_loopOut _).seq (hpost.to.seq (kto_pop s)))))))).id
    | .brk, d, k, s, hd, hg, hw, hsc => by
      simp only [budS2] at hd
      obtain ⟨d, rfl⟩ : ∃ d', d = d' + 1 := ⟨d - 1, by omega⟩
      simp only [F2.scopedS] at hsc
      simp only [toAstS2]
      exact branch_ok d _ s hsc
    | .cont, d, k, s, hd, hg, hw, hsc => by
      simp only [budS2] at hd
      obtain ⟨d, rfl⟩ : ∃ d', d = d' + 1 := ⟨d - 1, by omega⟩
      simp only [F2.scopedS] at hsc
      simp only [toAstS2]
      exact branch_ok d _ s hsc
  theorem checkBlock_ok2 : ∀ (ss : F2.Stms) (d k : Nat) (s : CSt), budSs2 ss + 1 ≤ d → GoodC names n s →
      wfSs2 n k ss = true → F2.scopedSs (s.loops != 0) ss = true →
      KId (checkBlock d (toAstSs2 names ctab ss)) s
    | .nil, d, k, s, hd, hg, hw, hsc => by
      obtain ⟨d, rfl⟩ : ∃ d', d = d' + 1 := ⟨d - 1, by omega⟩
      simp only [toAstSs2, Spec.checkBlock]
      exact KId.pure s
    | .cons st ss, d, k, s, hd, hg, hw, hsc => by
      obtain ⟨d, rfl⟩ : ∃ d', d = d' + 1 := ⟨d - 1, by omega⟩
      rw [toAstSs2, Spec.checkBlock, ← toAstSs2]
      · exact ((kto_push s).seq ((checkStmts_ok2 (.cons st ss) d k _ (by omega) hg.pushed hw
          (by simpa [pushed_loops] using hsc)).to.seq (kto_pop s))).id
      · simp
  theorem checkStmts_ok2 : ∀ (ss : F2.Stms) (d k : Nat) (s : CSt), budSs2 ss ≤ d → GoodC names n s →
      wfSs2 n k ss = true → F2.scopedSs (s.loops != 0) ss = true →
      KId (checkStmts d (toAstSs2 names ctab ss)) s
    | .nil, d, k, s, hd, hg, hw, hsc => by
      simp only [budSs2] at hd
      obtain ⟨d, rfl⟩ : ∃ d', d = d' + 1 := ⟨d - 1, by omega⟩
      simp only [toAstSs2, Spec.checkStmts]
      exact KId.pure s
    | .cons st ss, d, k, s, hd, hg, hw, hsc => by
      simp only [budSs2] at hd
      obtain ⟨d, rfl⟩ : ∃ d', d = d' + 1 := ⟨d - 1, by omega⟩
      simp only [wfSs2, Bool.and_eq_true] at hw
      simp only [F2.scopedSs, Bool.and_eq_true] at hsc
      simp only [toAstSs2, Spec.checkStmts]
      exact (checkStmt_ok2 st d k s (by omega) hg hw.1 hsc.1).seq (checkStmts_ok2 ss d _ s (by omega) hg hw.2 hsc.2)
end

/-- **The static check accepts every embedded F2 program** whose `break` / `continue` are inside loops (within
its depth budget of 4000). -/
theorem checkProgram_fragment2 (names : Nat → String) (ctab : Nat → F0.Const) (n : Nat) (ss : F2.Stms)
    (hwf : wfSs2 n 0 ss = true) (hsc : F2.scopedSs false ss = true) (hbud : budSs2 ss ≤ 4000) :
    Spec.checkProgram (inputsOf names n) (toAstSs2 names ctab ss) = none := by
  have hg : GoodC names n (chkInit names n) := by
    refine ⟨⟨0, _, rfl, fun i hi => ?_⟩, fun i hi => inputsOf_contains names n i hi⟩
    have := inputsOf_contains names n i hi
    simp only [List.contains_iff_mem, List.mem_append] at this ⊢
    exact Or.inl this
  have h := checkStmts_ok2 (names := names) (ctab := ctab) ss 4000 0 _ hbud hg hwf (by simpa [chkInit] using hsc)
  unfold KId at h
  show (match (checkStmts 4000 (toAstSs2 names ctab ss)) (chkInit names n) with
    | .ok _ => none
    | .error e => some e) = none
  rw [h]

end
end Tengo.Proofs.C01Bridge

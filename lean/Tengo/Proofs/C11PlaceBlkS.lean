import Tengo.Proofs.C11PlaceBlkE
/-!
C11, PLACEMENT global ↦ local with declarations in nested blocks, layer 2: statements.

`simR_all`: with the same fuel, a statement (list) of the local placement — `x := e` / `x = e` at any nesting depth —
is `bad` (a block variable read before its definition) or has the result of its global placement (`tS'`), the final
locals again related to the final globals by `Rm`.
-/
set_option linter.unusedVariables false
set_option linter.unusedSimpArgs false
namespace Tengo.Proofs.C11Place
open Tengo.Model Tengo.Model.F3
open Tengo.Model.F0 (Sem upd)
variable {V : Type} {E : Env V} {m n : Nat}

/-- Result of a statement of the local placement with final locals `l'`, from the result of the global one. -/
def tS' (gL : Nat → V) (l' : Locals V) : Res V → Res V
  | .done _ _ => .done gL l'
  | .brk _ _ => .brk gL l'
  | .cont _ _ => .cont gL l'
  | .ret _ _ => .bad
  | .err => .err
  | .out => .out
  | .bad => .bad

/-- The final locals are related to the final globals of the original. -/
def resOK (m n : Nat) (l' : Locals V) : Res V → Prop
  | .done g' _ => Rm m n g' l'
  | .brk g' _ => Rm m n g' l'
  | .cont g' _ => Rm m n g' l'
  | _ => True

/-- `bad`, or the original's result with related locals. -/
def SimR (m n : Nat) (gL : Nat → V) (rL rG : Res V) : Prop :=
  rL = .bad ∨ ∃ l', resOK m n l' rG ∧ rL = tS' gL l' rG

structure SimRAll (E : Env V) (m n : Nat) (P P' : Prog) (f : Nat) : Prop where
  s : ∀ (s : Stm) (g : Nat → V) (lG : Locals V) (gL : Nat → V) (l : Locals V), l2S n s = true → Rm m n g l →
    SimR m n gL (execS E P' f s gL l) (execS E P f (globS s) g lG)
  ss : ∀ (ss : Stms) (g : Nat → V) (lG : Locals V) (gL : Nat → V) (l : Locals V), l2Ss n ss = true → Rm m n g l →
    SimR m n gL (execSs E P' f ss gL l) (execSs E P f (globSs ss) g lG)

/-- A statement that starts by evaluating an expression. -/
theorem headR (P P' : Prog) (f : Nat) (e : Ex) (g : Nat → V) (lG : Locals V) (gL : Nat → V) (l : Locals V)
    (hc : l2E n e = true) (hR : Rm m n g l) (K K' : V → (Nat → V) → Res V)
    (hK : ∀ a, SimR m n gL (K' a gL) (K a g)) :
    SimR m n gL
      (match evalE E P' f e gL l with
        | .val a g1 => K' a g1
        | r => r.toRes)
      (match evalE E P f (globE e) g lG with
        | .val a g1 => K a g1
        | r => r.toRes) := by
  rcases simR_E (E := E) (m := m) P P' f e g lG gL l hc hR with hb | he
  · left; simp only [hb, ERes.toRes]
  · rw [he]
    rcases evalE_cases (E := E) P f (globE e) g lG (g2E_glob n e hc) with ⟨x, hx⟩ | hx | hx | hx
    · simp only [hx, tE]; exact hK x
    · right; exact ⟨l, by simp only [hx, ERes.toRes, resOK], by simp only [hx, tE, tS', ERes.toRes]⟩
    · right; exact ⟨l, by simp only [hx, ERes.toRes, resOK], by simp only [hx, tE, tS', ERes.toRes]⟩
    · right; exact ⟨l, by simp only [hx, ERes.toRes, resOK], by simp only [hx, tE, tS', ERes.toRes]⟩

/-- The body of a loop and what follows it. -/
theorem loopR {rL rG : Res V} {gL : Nat → V}
    (K K' : (Nat → V) → Locals V → Res V)
    (hK : ∀ g2 lG2 l2, Rm m n g2 l2 → SimR m n gL (K' gL l2) (K g2 lG2)) :
    SimR m n gL rL rG → SimR m n gL
      (match rL with
        | .done g2 l2 => K' g2 l2
        | .cont g2 l2 => K' g2 l2
        | .brk g2 l2 => .done g2 l2
        | r => r)
      (match rG with
        | .done g2 l2 => K g2 l2
        | .cont g2 l2 => K g2 l2
        | .brk g2 l2 => .done g2 l2
        | r => r) := by
  intro h
  rcases h with hb | ⟨l', hok, he⟩
  · left; simp only [hb]
  · subst he
    cases rG with
    | done g2 l2 => simp only [tS']; exact hK g2 l2 l' hok
    | cont g2 l2 => simp only [tS']; exact hK g2 l2 l' hok
    | brk g2 l2 => right; exact ⟨l', hok, by simp only [tS']⟩
    | ret v g2 => left; simp only [tS']
    | err => right; exact ⟨l', trivial, by simp only [tS']⟩
    | out => right; exact ⟨l', trivial, by simp only [tS']⟩
    | bad => left; simp only [tS']

/-- Sequencing: what follows a statement that is `done`. -/
theorem seqR {rL rG : Res V} {gL : Nat → V}
    (K K' : (Nat → V) → Locals V → Res V)
    (hK : ∀ g2 lG2 l2, Rm m n g2 l2 → SimR m n gL (K' gL l2) (K g2 lG2)) :
    SimR m n gL rL rG → SimR m n gL
      (match rL with
        | .done g2 l2 => K' g2 l2
        | r => r)
      (match rG with
        | .done g2 l2 => K g2 l2
        | r => r) := by
  intro h
  rcases h with hb | ⟨l', hok, he⟩
  · left; simp only [hb]
  · subst he
    cases rG with
    | done g2 l2 => simp only [tS']; exact hK g2 l2 l' hok
    | cont g2 l2 => right; exact ⟨l', hok, by simp only [tS']⟩
    | brk g2 l2 => right; exact ⟨l', hok, by simp only [tS']⟩
    | ret v g2 => left; simp only [tS']
    | err => right; exact ⟨l', trivial, by simp only [tS']⟩
    | out => right; exact ⟨l', trivial, by simp only [tS']⟩
    | bad => left; simp only [tS']

theorem simR_done {gL g : Nat → V} {l lG : Locals V} (h : Rm m n g l) : SimR m n gL (.done gL l) (.done g lG) :=
  Or.inr ⟨l, h, rfl⟩

theorem simRS_succ {P P' : Prog} {f : Nat} (ih : SimRAll E m n P P' f) (s : Stm) (g : Nat → V) (lG : Locals V)
    (gL : Nat → V) (l : Locals V) (hc : l2S n s = true) (hR : Rm m n g l) :
    SimR m n gL (execS E P' (f + 1) s gL l) (execS E P (f + 1) (globS s) g lG) := by
  cases s with
  | expr e =>
    simp only [l2S] at hc
    simp only [globS, execS]
    exact headR P P' f e g lG gL l hc hR (fun _ g1 => .done g1 lG) (fun _ g1 => .done g1 l) (fun a => simR_done hR)
  | defl i e =>
    simp only [l2S, Bool.and_eq_true, decide_eq_true_eq] at hc
    simp only [globS, execS]
    exact headR P P' f e g lG gL l hc.2 hR (fun v g1 => .done (upd g1 i v) lG) (fun v g1 => .done g1 (updL l i v))
      (fun a => simR_done (hR.upd i a))
  | setl i e =>
    simp only [l2S, Bool.and_eq_true, decide_eq_true_eq] at hc
    simp only [globS, execS]
    exact headR P P' f e g lG gL l hc.2 hR (fun v g1 => .done (upd g1 i v) lG) (fun v g1 => .done g1 (updL l i v))
      (fun a => simR_done (hR.upd i a))
  | assign i e => simp only [l2S] at hc; cases hc
  | ret e => simp only [l2S] at hc; cases hc
  | ret0 => simp only [l2S] at hc; cases hc
  | brk => simp only [globS, execS]; exact Or.inr ⟨l, hR, rfl⟩
  | cont => simp only [globS, execS]; exact Or.inr ⟨l, hR, rfl⟩
  | ifs c body =>
    simp only [l2S, Bool.and_eq_true] at hc
    simp only [globS, execS]
    refine headR P P' f c g lG gL l hc.1 hR
      (fun a g1 => if E.S.falsy a then .done g1 lG else execSs E P f (globSs body) g1 lG)
      (fun a g1 => if E.S.falsy a then .done g1 l else execSs E P' f body g1 l) (fun a => ?_)
    by_cases hfa : E.S.falsy a = true
    · simp only [hfa, if_true]; exact simR_done hR
    · simp only [hfa, Bool.false_eq_true, if_false]; exact ih.ss body g lG gL l hc.2 hR
  | ifelse c body els =>
    simp only [l2S, Bool.and_eq_true] at hc
    simp only [globS, execS]
    refine headR P P' f c g lG gL l hc.1.1 hR
      (fun a g1 => if E.S.falsy a then execSs E P f (globSs els) g1 lG else execSs E P f (globSs body) g1 lG)
      (fun a g1 => if E.S.falsy a then execSs E P' f els g1 l else execSs E P' f body g1 l) (fun a => ?_)
    by_cases hfa : E.S.falsy a = true
    · simp only [hfa, if_true]; exact ih.ss els g lG gL l hc.2 hR
    · simp only [hfa, Bool.false_eq_true, if_false]; exact ih.ss body g lG gL l hc.1.2 hR
  | whil c body =>
    have hw := hc
    simp only [l2S, Bool.and_eq_true] at hc
    have hrec := fun g2 lG2 l2 (h2 : Rm m n g2 l2) => ih.s (.whil c body) g2 lG2 gL l2 hw h2
    simp only [globS] at hrec
    simp only [globS, execS]
    refine headR P P' f c g lG gL l hc.1 hR
      (fun a g1 => if E.S.falsy a then .done g1 lG
        else match execSs E P f (globSs body) g1 lG with
          | .done g2 l2 => execS E P f (.whil (globE c) (globSs body)) g2 l2
          | .cont g2 l2 => execS E P f (.whil (globE c) (globSs body)) g2 l2
          | .brk g2 l2 => .done g2 l2
          | r => r)
      (fun a g1 => if E.S.falsy a then .done g1 l
        else match execSs E P' f body g1 l with
          | .done g2 l2 => execS E P' f (.whil c body) g2 l2
          | .cont g2 l2 => execS E P' f (.whil c body) g2 l2
          | .brk g2 l2 => .done g2 l2
          | r => r)
      (fun a => ?_)
    by_cases hfa : E.S.falsy a = true
    · simp only [hfa, if_true]; exact simR_done hR
    · simp only [hfa, Bool.false_eq_true, if_false]
      exact loopR
        (fun g2 l2 => execS E P f (.whil (globE c) (globSs body)) g2 l2)
        (fun g2 l2 => execS E P' f (.whil c body) g2 l2) hrec (ih.ss body g lG gL l hc.2 hR)
  | forever body =>
    have hw := hc
    simp only [l2S] at hc
    have hrec := fun g2 lG2 l2 (h2 : Rm m n g2 l2) => ih.s (.forever body) g2 lG2 gL l2 hw h2
    simp only [globS] at hrec
    simp only [globS, execS]
    exact loopR (fun g2 l2 => execS E P f (.forever (globSs body)) g2 l2)
      (fun g2 l2 => execS E P' f (.forever body) g2 l2) hrec (ih.ss body g lG gL l hc hR)
  | for3 c body post =>
    have hw := hc
    simp only [l2S, Bool.and_eq_true] at hc
    have hrec := fun g2 lG2 l2 (h2 : Rm m n g2 l2) => ih.s (.for3 c body post) g2 lG2 gL l2 hw h2
    simp only [globS] at hrec
    simp only [globS, execS]
    refine headR P P' f c g lG gL l hc.1.1 hR
      (fun a g1 => if E.S.falsy a then .done g1 lG
        else match execSs E P f (globSs body) g1 lG with
          | .done g2 l2 =>
            match execS E P f (globS post) g2 l2 with
            | .done g3 l3 => execS E P f (.for3 (globE c) (globSs body) (globS post)) g3 l3
            | r => r
          | .cont g2 l2 =>
            match execS E P f (globS post) g2 l2 with
            | .done g3 l3 => execS E P f (.for3 (globE c) (globSs body) (globS post)) g3 l3
            | r => r
          | .brk g2 l2 => .done g2 l2
          | r => r)
      (fun a g1 => if E.S.falsy a then .done g1 l
        else match execSs E P' f body g1 l with
          | .done g2 l2 =>
            match execS E P' f post g2 l2 with
            | .done g3 l3 => execS E P' f (.for3 c body post) g3 l3
            | r => r
          | .cont g2 l2 =>
            match execS E P' f post g2 l2 with
            | .done g3 l3 => execS E P' f (.for3 c body post) g3 l3
            | r => r
          | .brk g2 l2 => .done g2 l2
          | r => r)
      (fun a => ?_)
    by_cases hfa : E.S.falsy a = true
    · simp only [hfa, if_true]; exact simR_done hR
    · simp only [hfa, Bool.false_eq_true, if_false]
      refine loopR
        (fun g2 l2 => match execS E P f (globS post) g2 l2 with
          | .done g3 l3 => execS E P f (.for3 (globE c) (globSs body) (globS post)) g3 l3
          | r => r)
        (fun g2 l2 => match execS E P' f post g2 l2 with
          | .done g3 l3 => execS E P' f (.for3 c body post) g3 l3
          | r => r) (fun g2 lG2 l2 h2 => ?_) (ih.ss body g lG gL l hc.1.2 hR)
      exact seqR
        (fun g3 l3 => execS E P f (.for3 (globE c) (globSs body) (globS post)) g3 l3)
        (fun g3 l3 => execS E P' f (.for3 c body post) g3 l3) hrec (ih.s post g2 lG2 gL l2 hc.2 h2)

theorem simRSs_succ {P P' : Prog} {f : Nat} (ih : SimRAll E m n P P' f) (ss : Stms) (g : Nat → V) (lG : Locals V)
    (gL : Nat → V) (l : Locals V) (hc : l2Ss n ss = true) (hR : Rm m n g l) :
    SimR m n gL (execSs E P' (f + 1) ss gL l) (execSs E P (f + 1) (globSs ss) g lG) := by
  cases ss with
  | nil => simp only [globSs, execSs]; exact simR_done hR
  | cons s rest =>
    simp only [l2Ss, Bool.and_eq_true] at hc
    simp only [globSs, execSs]
    exact seqR (fun g1 l1 => execSs E P f (globSs rest) g1 l1)
      (fun g1 l1 => execSs E P' f rest g1 l1) (fun g2 lG2 l2 h2 => ih.ss rest g2 lG2 gL l2 hc.2 h2)
      (ih.s s g lG gL l hc.1 hR)

/-- **Statements with declarations at any depth, same fuel** (see the module text). -/
theorem simR_all (E : Env V) (m n : Nat) (P P' : Prog) : ∀ f, SimRAll E m n P P' f := by
  intro f
  induction f with
  | zero =>
    exact ⟨fun s g lG gL l _ _ => Or.inr ⟨l, trivial, by simp only [execS, tS']⟩,
      fun ss g lG gL l _ _ => Or.inr ⟨l, trivial, by simp only [execSs, tS']⟩⟩
  | succ f ih => exact ⟨simRS_succ ih, simRSs_succ ih⟩

end Tengo.Proofs.C11Place

import Tengo.Proofs.C20StmtMain
import Tengo.Proofs.C20Bytes2Print
/-!
C20 — statements: the printer model emits, byte for byte, the stream `layS` / `laySs` (`printStmt s = render2 (layS s)`,
`printFile ss = render2 (laySs ss)`), so the key sequence the token-level theorem is about is the one of the printed file.
-/
namespace Tengo.Proofs.C20Stmt
open Tengo.Model.Token Tengo.Model.Scanner Tengo.Model.Ast Tengo.Model.Parser Tengo.Model.Literal
open Tengo.Model.Printer
open Tengo.Proofs.C20Parser Tengo.Proofs.C20BytesScan Tengo.Proofs.C20BytesParse Tengo.Proofs.C20BytesPrint
open Tengo.Proofs.C20Bytes2Scan Tengo.Proofs.C20Bytes2Stream Tengo.Proofs.C20Bytes2Parse Tengo.Proofs.C20Bytes2Print
open Tengo.Proofs.C20StmtEq

variable {fo : Bs → Option Nat}

theorem s_stmt : s "if " = Tok.If.bytes ++ [32] ∧ s "; " = [59, 32] ∧ s " else " = 32 :: Tok.Else.bytes ++ [32] ∧
    s "for " = Tok.For.bytes ++ [32] ∧ s "return" = Tok.Return.bytes ∧ s "return " = Tok.Return.bytes ++ [32] ∧
    s "{" = Tok.LBrace.bytes ∧ s "}" = Tok.RBrace.bytes ∧ s " " = [32] ∧ s ", " = Tok.Comma.bytes ++ [32] := by
  decide +kernel

theorem s_stmt2 : s " ; " = [32, 59, 32] ∧ s " in " = 32 :: Tok.In.bytes ++ [32] := by decide +kernel

@[simp] theorem render2_semiE (r : List El2) : render2 (semiE :: r) = 59 :: render2 r := rfl
@[simp] theorem render2_kwE (t : Tok) (r : List El2) : render2 (kwE t :: r) = t.bytes ++ render2 r := rfl

theorem render2_blk (l : List El2) : render2 (blk l) = Tok.LBrace.bytes ++ render2 l ++ Tok.RBrace.bytes := by
  simp [blk, render2_append]

theorem blockOf_eq (l : List Bs) : blockOf l = Tok.LBrace.bytes ++ join (s "; ") l ++ Tok.RBrace.bytes := by
  obtain ⟨-, -, -, -, -, -, s7, s8, -⟩ := s_stmt
  simp [blockOf, s7, s8]

/-! Equations of `printStmt` (Lean cannot generate them for this definition; they hold by unfolding). -/
theorem pS_expr (e : Expr) : printStmt (.expr e) = printExpr e := rfl
theorem pS_assign (tok : Tok) (l r : Exprs) : printStmt (.assign tok l r) =
    join (s ", ") (printExprs l) ++ s " " ++ tok.bytes ++ s " " ++ join (s ", ") (printExprs r) := rfl
theorem pS_incdec (tok : Tok) (e : Expr) : printStmt (.incdec tok e) = printExpr e ++ tok.bytes := rfl
theorem pS_ret_none : printStmt (.ret .none) = s "return" := rfl
theorem pS_ret_some (e : Expr) : printStmt (.ret (.some e)) = s "return " ++ printExpr e := rfl
theorem pS_branch_none (tok : Tok) : printStmt (.branch tok none) = tok.bytes ++ [] := rfl
theorem pS_branch_some (tok : Tok) (l : Bs) : printStmt (.branch tok (some l)) = tok.bytes ++ (s " " ++ l) := rfl
theorem pS_if_none (c : Expr) (body : Stmts) : printStmt (.ifS .none c body .none) =
    s "if " ++ [] ++ printExpr c ++ s " " ++ blockOf (printStmts body) ++ [] := rfl
theorem pS_if_some (c : Expr) (body : Stmts) (e : Stmt) : printStmt (.ifS .none c body (.some e)) =
    s "if " ++ [] ++ printExpr c ++ s " " ++ blockOf (printStmts body) ++ (s " else " ++ printStmt e) := rfl
theorem pS_for_bare (body : Stmts) : printStmt (.forS .none .none .none body) =
    s "for " ++ [] ++ blockOf (printStmts body) := rfl
theorem pS_for_cond (e : Expr) (body : Stmts) : printStmt (.forS .none (.some e) .none body) =
    s "for " ++ (printExpr e ++ s " ") ++ blockOf (printStmts body) := rfl
theorem pS_if_init_none (i : Stmt) (c : Expr) (body : Stmts) : printStmt (.ifS (.some i) c body .none) =
    s "if " ++ (printStmt i ++ s "; ") ++ printExpr c ++ s " " ++ blockOf (printStmts body) ++ [] := rfl
theorem pS_if_init_some (i : Stmt) (c : Expr) (body : Stmts) (e : Stmt) : printStmt (.ifS (.some i) c body (.some e)) =
    s "if " ++ (printStmt i ++ s "; ") ++ printExpr c ++ s " " ++ blockOf (printStmts body) ++
      (s " else " ++ printStmt e) := rfl
theorem pS_forin (kn vn : Bs) (it : Expr) (body : Stmts) : printStmt (.forIn (some kn) (some vn) it body) =
    s "for " ++ kn ++ s ", " ++ vn ++ s " in " ++ printExpr it ++ s " " ++ blockOf (printStmts body) := rfl

/-- Printed init / post / condition of a `for`. -/
def pOS : OptStmt → Bs
  | .none => []
  | .some x => printStmt x
def pC : OptExpr → Bs
  | .none => []
  | .some x => printExpr x ++ s " "

theorem pS_for (i : OptStmt) (c : OptExpr) (p : OptStmt) (body : Stmts) : printStmt (.forS i c p body) =
    if (!(pOS i).isEmpty || !(pOS p).isEmpty) = true then
      s "for " ++ pOS i ++ s " ; " ++ pC c ++ s " ; " ++ pOS p ++ blockOf (printStmts body)
    else s "for " ++ pC c ++ blockOf (printStmts body) := by
  cases i <;> cases c <;> cases p <;> rfl

theorem pS_block (ss : Stmts) : printStmt (.block ss) = blockOf (printStmts ss) := rfl
theorem pSs_nil : printStmts .nil = [] := rfl
theorem pSs_cons (x : Stmt) (xs : Stmts) : printStmts (.cons x xs) = printStmt x :: printStmts xs := rfl

/-! ### The printed form of a simple statement is not empty (the test of `ForStmt.String()`) -/

theorem renderE_ne (e : Expr) (h : Frag2 fo e) : render2 (layE e) ≠ [] := by
  intro h0
  have h1 := cur_render2 (layE e) []
  rw [h0] at h1
  have h2 := first_start e h (cur (chs []))
  rw [← h1] at h2
  exact absurd h2 (by decide)

theorem render_ne_left (a b : List El2) (h : render2 a ≠ []) : render2 (a ++ b) ≠ [] := by
  rw [render2_append]
  exact List.append_ne_nil_of_left_ne_nil h _

/-- `printStmt x` is not empty for a simple statement of the fragment, given that it is `render2 (layS x)`. -/
theorem print_ne (x : Stmt) (hs : isSimple x = true) (hf : FragS fo x) (hp : printStmt x = render2 (layS x)) :
    (printStmt x).isEmpty = false := by
  have : render2 (layS x) ≠ [] := by
    cases x with
    | expr e =>
      simp only [FragS] at hf
      simpa [layS] using renderE_ne e hf
    | assign tok l r =>
      simp only [FragS] at hf
      cases l with
      | nil => simp [asgShape, nonEmpty, single] at hf
      | cons e es =>
        simp only [layS, layArgs, List.append_assoc]
        exact render_ne_left _ _ (renderE_ne e hf.2.1.1)
    | incdec tok e =>
      simp only [FragS] at hf
      simp only [layS]
      exact render_ne_left _ _ (renderE_ne e hf.2)
    | _ => simp [isSimple] at hs
  rw [hp]
  cases h : render2 (layS x) with
  | nil => exact absurd h this
  | cons b bs => rfl

theorem print_cond (c : OptExpr) (h : Frag2O fo c) : pC c = render2 (layCond c) := by
  cases c with
  | none => rfl
  | some e =>
    have he : Frag2 fo e := h
    simp [pC, layCond, print_lay2 e he, render2_append, s_stmt.2.2.2.2.2.2.2.2.1]

/-- The three-clause form. -/
theorem print_long (i : OptStmt) (c : OptExpr) (p : OptStmt) (body : Stmts)
    (hne : (!(pOS i).isEmpty || !(pOS p).isEmpty) = true) (hi : pOS i = render2 (layOS i))
    (hp : pOS p = render2 (layOS p)) (hc : pC c = render2 (layCond c))
    (hb : join (s "; ") (printStmts body) = render2 (laySs body)) (hform : (isNoneS i && isNoneS p) = false) :
    printStmt (.forS i c p body) = render2 (layS (.forS i c p body)) := by
  obtain ⟨-, -, -, s4, -, -, -, -, -, -⟩ := s_stmt
  rw [pS_for, if_pos hne]
  simp only [layS, hform, Bool.false_eq_true, if_false, hi, hp, hc, blockOf_eq, hb, render2_blk,
    render2_append, render2_sp, render2_kwE, render2_semiE, s4, s_stmt2.1, List.append_assoc, List.cons_append,
    List.nil_append]

mutual
  theorem printS : (x : Stmt) → FragS fo x → printStmt x = render2 (layS x)
    | .expr e, h => by
      simp only [FragS] at h
      simp only [pS_expr, layS, print_lay2 e h]
    | .assign tok l r, h => by
      simp only [FragS] at h
      obtain ⟨-, -, -, -, -, -, -, -, s9, -⟩ := s_stmt
      simp only [pS_assign, layS, print_args l h.2.1, print_args r h.2.2, render2_append, render2_sp, render2_opE, s9,
        List.append_assoc, List.cons_append, List.nil_append]
    | .incdec tok e, h => by
      simp only [FragS] at h
      simp only [pS_incdec, layS, print_lay2 e h.2, render2_append, render2_opE, render2_nil, List.append_nil]
    | .ret .none, _ => by
      simp [pS_ret_none, layS, layRet, s_stmt.2.2.2.2.1]
    | .ret (.some e), h => by
      simp only [FragS, Frag2O] at h
      simp [pS_ret_some, layS, layRet, s_stmt.2.2.2.2.2.1, print_lay2 e h]
    | .branch tok none, _ => by simp [pS_branch_none, layS, layLabel]
    | .branch tok (some l), _ => by simp [pS_branch_some, layS, layLabel, s_stmt.2.2.2.2.2.2.2.2.1]
    | .ifS .none c body .none, h => by
      simp only [FragS] at h
      obtain ⟨s1, -, -, -, -, -, -, -, s9, -⟩ := s_stmt
      simp only [pS_if_none, layS, layElse, layInit, print_lay2 c h.2.1, blockOf_eq, printSs body h.2.2.2.1, render2_blk,
        render2_append, render2_sp, render2_kwE, render2_nil, s1, s9, List.append_assoc, List.cons_append,
        List.nil_append, List.append_nil]
    | .ifS .none c body (.some e), h => by
      simp only [FragS, FragEl] at h
      obtain ⟨s1, -, s3, -, -, -, -, -, s9, -⟩ := s_stmt
      simp only [pS_if_some, layS, layElse, layInit, print_lay2 c h.2.1, blockOf_eq, printSs body h.2.2.2.1,
        printS e h.2.2.2.2.2, render2_blk,
        render2_append, render2_sp, render2_kwE, render2_nil, s1, s3, s9, List.append_assoc, List.cons_append,
        List.nil_append, List.append_nil]
    | .ifS (.some x) c body .none, h => by
      simp only [FragS, FragInit] at h
      obtain ⟨s1, s2, -, -, -, -, -, -, s9, -⟩ := s_stmt
      simp only [pS_if_init_none, print_lay2 c h.2.1, blockOf_eq, printSs body h.2.2.2.1, printS x h.1.2.2]
      simp only [layS, layElse, layInit, render2_blk, render2_semiE,
        render2_append, render2_sp, render2_kwE, render2_nil, s1, s2, s9, List.append_assoc, List.cons_append,
        List.nil_append, List.append_nil]
    | .ifS (.some x) c body (.some e), h => by
      simp only [FragS, FragEl, FragInit] at h
      obtain ⟨s1, s2, s3, -, -, -, -, -, s9, -⟩ := s_stmt
      simp only [pS_if_init_some, print_lay2 c h.2.1, blockOf_eq, printSs body h.2.2.2.1, printS x h.1.2.2,
        printS e h.2.2.2.2.2]
      simp only [layS, layElse, layInit, render2_blk, render2_semiE,
        render2_append, render2_sp, render2_kwE, render2_nil, s1, s2, s3, s9, List.append_assoc, List.cons_append,
        List.nil_append, List.append_nil]
    | .forS .none c .none body, h => by
      simp only [FragS] at h
      obtain ⟨-, -, -, s4, -, -, -, -, s9, -⟩ := s_stmt
      cases c with
      | none =>
        simp [pS_for_bare, layS, isNoneS, layCond, blockOf_eq, printSs body h.2.2.2.2, render2_blk, s4]
      | some e =>
        have he : Frag2 fo e := h.2.2.1
        simp [pS_for_cond, layS, isNoneS, layCond, blockOf_eq, printSs body h.2.2.2.2, render2_blk, s4, s9,
          print_lay2 e he, render2_append]
    | .forS (.some x) c .none body, h => by
      simp only [FragS, FragInit] at h
      exact print_long (.some x) c .none body (by simp [pOS, print_ne x h.1.1 h.1.2.2 (printS x h.1.2.2)])
        (by simp [pOS, layOS, printS x h.1.2.2]) rfl (print_cond c h.2.2.1) (printSs body h.2.2.2.2) rfl
    | .forS .none c (.some y) body, h => by
      simp only [FragS, FragInit] at h
      exact print_long .none c (.some y) body (by simp [pOS, print_ne y h.2.1.1 h.2.1.2.2 (printS y h.2.1.2.2)])
        rfl (by simp [pOS, layOS, printS y h.2.1.2.2]) (print_cond c h.2.2.1) (printSs body h.2.2.2.2) rfl
    | .forS (.some x) c (.some y) body, h => by
      simp only [FragS, FragInit] at h
      exact print_long (.some x) c (.some y) body (by simp [pOS, print_ne x h.1.1 h.1.2.2 (printS x h.1.2.2)])
        (by simp [pOS, layOS, printS x h.1.2.2]) (by simp [pOS, layOS, printS y h.2.1.2.2]) (print_cond c h.2.2.1)
        (printSs body h.2.2.2.2) rfl
    | .forIn k v it body, h => by
      simp only [FragS] at h
      obtain ⟨-, -, -, s4, -, -, -, -, s9, s10⟩ := s_stmt
      cases k with
      | none => simp [nameOk] at h
      | some kn =>
        cases v with
        | none => simp [nameOk] at h
        | some vn =>
          simp only [pS_forin, layS, Option.getD, print_lay2 it h.2.2.1, blockOf_eq, printSs body h.2.2.2, render2_blk,
            render2_append, render2_sp, render2_kwE, render2_word, render2_opE, render2_nil, s4, s9, s10, s_stmt2.2,
            List.append_assoc, List.cons_append, List.nil_append, List.append_nil]
    | .block ss, h => by
      simp only [FragS] at h
      simp only [pS_block, layS, blockOf_eq, printSs ss h, render2_blk]
    | .export _, h => by simp [FragS] at h
    | .empty _, h => by simp [FragS] at h
    | .bad, h => by simp [FragS] at h
  theorem printSs : (ss : Stmts) → FragSs fo ss → join (s "; ") (printStmts ss) = render2 (laySs ss)
    | .nil, _ => by simp [pSs_nil, join, laySs]
    | .cons x xs, h => by
      simp only [FragSs] at h
      simp only [pSs_cons, laySs, join_cons, printS x h.2.1, printSTail xs h.2.2, render2_append]
  theorem printSTail : (ss : Stmts) → FragSs fo ss → joinTail (s "; ") (printStmts ss) = render2 (laySTail ss)
    | .nil, _ => by simp [pSs_nil, joinTail, laySTail]
    | .cons x xs, h => by
      simp only [FragSs] at h
      simp only [pSs_cons, laySTail, joinTail, printS x h.2.1, printSTail xs h.2.2]
      simp only [render2_append, render2_semiE, render2_sp, s_stmt.2.1, List.cons_append, List.nil_append]
end

/-- **The printer model emits `laySs`.** -/
theorem printFile_lay (ss : Stmts) (h : FragSs fo ss) : printFile ss = render2 (laySs ss) :=
  printSs ss h

end Tengo.Proofs.C20Stmt

import Tengo.Model.VM
/-!
C01 bridge, VM side, layer 0: running the dispatch monad `XM` on a heap (`runX`, `XOk`, `XFail`), the stack
primitives, and `VM.exec` unfolded for a simple instruction / SUSPEND of the main function.
-/
set_option linter.unusedVariables false
set_option linter.unusedSimpArgs false
namespace Tengo.Proofs.C01Bridge
open Tengo.Model Tengo.Model.Spec Tengo.Model.VM

/-- Run a dispatch-level computation on a heap. -/
def runX {α : Type} (x : XM α) (g : GSt) (h : St) : Except Err ((Except Fault α × GSt) × St) :=
  ((x.run).run g).run h

/-- `x` succeeds with `a` and leaves the heap as it is. -/
def XOk {α : Type} (x : XM α) (g : GSt) (h : St) (a : α) : Prop := runX x g h = .ok ((.ok a, g), h)
/-- `x` fails with the error `e`. -/
def XFail {α : Type} (x : XM α) (g : GSt) (h : St) (e : Err) : Prop := runX x g h = .error e

theorem XOk.pure {α : Type} (a : α) (g : GSt) (h : St) : XOk (Pure.pure a : XM α) g h a := rfl

theorem runX_bind {α β : Type} (x : XM α) (f : α → XM β) (g : GSt) (h : St) :
    runX (x >>= f) g h =
      match runX x g h with
      | .ok ((.ok a, g'), h') => runX (f a) g' h'
      | .ok ((.error ft, g'), h') => .ok ((.error ft, g'), h')
      | .error e => .error e := by
  unfold runX
  simp only [ExceptT.run_bind, StateT.run_bind]
  generalize StateT.run (StateT.run (ExceptT.run x) g) h = r
  cases r with
  | error e => rfl
  | ok p =>
    obtain ⟨⟨r1, g'⟩, h'⟩ := p
    cases r1 <;> rfl

theorem XOk.bind {α β : Type} {x : XM α} {f : α → XM β} {g : GSt} {h : St} {a : α} {b : β}
    (h1 : XOk x g h a) (h2 : XOk (f a) g h b) : XOk (x >>= f) g h b := by
  unfold XOk at *
  rw [runX_bind, h1]; exact h2

theorem XFail.bind_left {α β : Type} {x : XM α} {f : α → XM β} {g : GSt} {h : St} {e : Err}
    (h1 : XFail x g h e) : XFail (x >>= f) g h e := by
  unfold XFail at *
  rw [runX_bind, h1]

theorem XFail.bind_right {α β : Type} {x : XM α} {f : α → XM β} {g : GSt} {h : St} {a : α} {e : Err}
    (h1 : XOk x g h a) (h2 : XFail (f a) g h e) : XFail (x >>= f) g h e := by
  unfold XOk XFail at *
  rw [runX_bind, h1]; exact h2

/-- A heap-level computation that returns `a` without touching the heap. -/
theorem XOk.ofM {α : Type} {m : M α} {g : GSt} {h : St} {a : α} (hm : m h = .ok (a, h)) :
    XOk (em (VM.hp m)) g h a := by
  unfold XOk runX em VM.hp Spec.liftM
  simp [ExceptT.run, ExceptT.lift, ExceptT.mk, StateT.run, StateT.lift, Functor.map, StateT.map, bind,
    StateT.bind, hm, Except.bind, pure, StateT.pure, Except.pure, Except.map]

theorem XFail.ofM {α : Type} {m : M α} {g : GSt} {h : St} {e : Err} (hm : m h = .error e) :
    XFail (em (VM.hp m)) g h e := by
  unfold XFail runX em VM.hp Spec.liftM
  simp [ExceptT.run, ExceptT.lift, ExceptT.mk, StateT.run, StateT.lift, Functor.map, StateT.map, bind,
    StateT.bind, hm, Except.bind, pure, StateT.pure, Except.pure, Except.map]

theorem XOk.need {r : Regs} {k : Nat} (g : GSt) (h : St) (hk : k ≤ r.sp) : XOk (need r k) g h () := by
  unfold VM.need
  rw [if_neg (by omega)]
  rfl

theorem XOk.setSlot (r : Regs) (i : Nat) (v : Value) (g : GSt) (h : St) (hi : i < stackSize) :
    XOk (em (setSlot r i v)) g h { r with stack := r.stack.setIfInBounds i v } := by
  unfold VM.setSlot
  rw [if_pos hi]
  rfl

theorem XOk.push (r : Regs) (v : Value) (g : GSt) (h : St) (hi : r.sp < stackSize) :
    XOk (em (push r v)) g h { r with stack := r.stack.setIfInBounds r.sp v, sp := r.sp + 1 } := by
  unfold VM.push VM.setSlot
  rw [if_pos hi]
  rfl


/-! ### one dispatch in the main function -/

/-- The core after a simple instruction of the main function at byte `p`. -/
def nextCore (c : Core) (p : Nat) (size : Nat) (o : SimpleOut) : Core :=
  { c with regs := o.regs,
           cur := { c.cur with ip := match o.next with
                                     | .seq => (p : Int) + size - 1
                                     | .jump t => Int.ofNat t - 1 } }

theorem exec_simple_eq (code : Code) (c : Core) (p : Nat) (hfn : c.cur.fnIdx = 0)
    (hip : c.cur.ip + 1 = (p : Int)) (hlt : p < code.main.insts.size) (i : Fetched)
    (hi : fetch code.main (p : Int) = i) (h1 : i.op ≠ Opcodes.opCall) (h2 : i.op ≠ Opcodes.opReturn)
    (h3 : i.op ≠ Opcodes.opSuspend) :
    exec code c = (do
      let o ← execSimple code c.cur i.a0 i.a1 i.op c.regs
      pure (.next (nextCore c p i.size o) o.alloc)) := by
  unfold exec
  have hf : code.fn c.cur.fnIdx = some code.main := by simp [Code.fn, hfn]
  simp only [hf, hip]
  have hnot : ((p : Int) < 0 || decide ((p : Int).toNat ≥ code.main.insts.size)) = false := by
    simp; omega
  simp only [hnot, hi]
  simp [h1, h2, h3, nextCore]
  rfl

theorem exec_suspend (code : Code) (c : Core) (p : Nat) (hfn : c.cur.fnIdx = 0)
    (hip : c.cur.ip + 1 = (p : Int)) (hlt : p < code.main.insts.size)
    (hop : (fetch code.main (p : Int)).op = Opcodes.opSuspend) :
    exec code c = pure (.halt { c with cur := { c.cur with ip := (p : Int) } }) := by
  unfold exec
  have hf : code.fn c.cur.fnIdx = some code.main := by simp [Code.fn, hfn]
  simp only [hf, hip]
  have hnot : ((p : Int) < 0 || decide ((p : Int).toNat ≥ code.main.insts.size)) = false := by
    simp; omega
  simp only [hnot, hop]
  simp [Opcodes.opSuspend, Opcodes.opCall, Opcodes.opReturn]

end Tengo.Proofs.C01Bridge

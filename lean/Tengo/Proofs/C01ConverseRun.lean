import Tengo.Proofs.C01ConverseStmt
import Tengo.Proofs.C01BridgeSpecRun
/-!
C01 bridge, converse direction, layer 3 (`runProgram`): for EVERY fuel `F` of the reference interpreter, the
outcome of `Spec.runProgram` on an embedded fragment program is fuel exhaustion, or it is what the fragment's
evaluator `F1.exec vmSem` answers with every fuel `f ≥ F` (`runProgram_total`). Hence the converse of
`runProgram_fragment` (`runProgram_converse`): an `ok` answer of the interpreter forces the fragment's
evaluator to terminate with the same globals, a failure other than fuel exhaustion forces it to report an
error. The statements carry fuel monotonicity of the fragment's evaluator with them ("for every `f ≥ F`"), so
no separate monotonicity lemma is needed; `runProgram_converse_ex` is the plain existential form.
-/
set_option linter.unusedVariables false
set_option linter.unusedSimpArgs false
namespace Tengo.Proofs.C01Bridge
open Tengo.Model Tengo.Model.Spec Tengo.Model.F0

theorem errOutcome_ne_ok (err : Err) (gs : List (String × Value)) (st : St) : errOutcome err ≠ .ok gs st := by
  cases err <;> intro h <;> cases h

theorem errOutcome_ne_fuel {err : Err} (h : err ≠ Err.fuel) : errOutcome err ≠ .fuel := by
  cases err <;> first | exact absurd rfl h | (intro h'; cases h')

/-- **The reference interpreter on the fragment, at every fuel.** `Spec.runProgram` with fuel `F` on the embedded
program (static check included, from every initial heap) answers

* `fuel` (out of fuel), or
* `ok` with the globals `names i ↦ g' i`, where `g'` is what the fragment's evaluator finishes with for EVERY
  fuel `f ≥ F`, or
* the outcome of an error other than fuel exhaustion, and the fragment's evaluator reports an error for
  every fuel `f ≥ F`. -/
theorem runProgram_total (names : Nat → String) (ctab : Nat → F0.Const) (n : Nat) (ss : F1.Stms) (F : Nat)
    (hinj : ∀ i j, i < n → j < n → names i = names j → i = j)
    (hwf : wfSs n 0 ss = true) (hbud : budSs ss ≤ 4000)
    (g : Nat → SV) (initHeap : St) :
    runProgram F (inputsV names n g) initHeap (toAstSs names ctab ss) = .fuel ∨
    (∃ g' st, (∀ f, F ≤ f → F1.exec vmSem (svConst ctab) f (.inr ss) g = .done g') ∧
      runProgram F (inputsV names n g) initHeap (toAstSs names ctab ss) = .ok (globalsV names n g') st) ∨
    ((∀ f, F ≤ f → F1.exec vmSem (svConst ctab) f (.inr ss) g = .err) ∧
      ∃ err, err ≠ Err.fuel ∧
        runProgram F (inputsV names n g) initHeap (toAstSs names ctab ss) = errOutcome err) := by
  have hc : checkProgram ((inputsV names n g).map Prod.fst) (toAstSs names ctab ss) = none := by
    have : (inputsV names n g).map Prod.fst = inputsOf names n := by
      simp [inputsV, inputsOf, List.map_map, Function.comp_def]
    rw [this]
    exact checkProgram_fragment names ctab n ss hwf hbud
  rw [runProgram_eq F _ initHeap _ hc]
  have h0 : InInv names g initHeap.heap.size 0 { vars := [] } initHeap :=
    ⟨rfl, rfl, fun i hi => by omega⟩
  obtain ⟨fr, σ, hin, hinv⟩ := inputs_loop names g initHeap.heap.size {} n 0 _ _ h0
  simp only [Nat.zero_add] at hinv
  have hin' : EOk (forIn (inputsV names n g) ({ vars := [] } : Spec.Frame) inputStep) {} initHeap fr σ := by
    simpa [inputsV, List.range_eq_range'] using hin
  rcases (all_conv (names := names) (ctab := ctab) (n := n)
    (cells := fun i => initHeap.heap.size + i) F).stmts ss { env := [fr] } {} σ g 0 0
    (hinv.env hinj) hinv.heap hwf with hf | ⟨g', σ', hR, hok, hh'⟩ | ⟨hR, err, hne, herr⟩
  · left
    have : EErr (progOf F (inputsV names n g) (toAstSs names ctab ss)) {} initHeap Err.fuel := by
      unfold progOf
      exact EErr.bind_right hin' (EErr.bind_left hf)
    unfold EErr at this
    rw [this]; rfl
  · right; left
    have hout := readOut_all names n (fun i => initHeap.heap.size + i) g' σ' hh' {} (List.range n)
      (fun i hi => by simpa using hi)
    have hvars : fr.vars.reverse = (List.range n).map (fun i => (names i, initHeap.heap.size + i)) := by
      rw [hinv.vars, List.reverse_reverse]
    refine ⟨g', σ', hR, ?_⟩
    have : EOk (progOf F (inputsV names n g) (toAstSs names ctab ss)) {} initHeap (globalsV names n g') σ' := by
      unfold progOf
      refine EOk.bind hin' (EOk.bind hok ?_)
      simp only [List.getLast?_singleton, hvars]
      exact hout
    unfold EOk at this
    rw [this]; rfl
  · right; right
    refine ⟨hR, err, hne, ?_⟩
    have : EErr (progOf F (inputsV names n g) (toAstSs names ctab ss)) {} initHeap err := by
      unfold progOf
      exact EErr.bind_right hin' (EErr.bind_left herr)
    unfold EErr at this
    rw [this]
    cases err <;> first | rfl | exact absurd rfl hne

/-- **The converse of `runProgram_fragment`.** For every embedded fragment program, every fuel `F` of the
reference interpreter, every initial heap:

1. if `Spec.runProgram` answers `ok gs st`, the fragment's evaluator `F1.exec vmSem` TERMINATES — with fuel
   `F`, and with every larger fuel — with globals `g'`, and `gs` lists exactly `names i ↦ g' i`;
2. if `Spec.runProgram` answers anything that is neither `ok` nor fuel exhaustion, the fragment's evaluator
   reports a run-time error (with fuel `F` and every larger fuel).

(If the interpreter runs out of fuel nothing is claimed.) -/
theorem runProgram_converse (names : Nat → String) (ctab : Nat → F0.Const) (n : Nat) (ss : F1.Stms) (F : Nat)
    (hinj : ∀ i j, i < n → j < n → names i = names j → i = j)
    (hwf : wfSs n 0 ss = true) (hbud : budSs ss ≤ 4000)
    (g : Nat → SV) (initHeap : St) :
    (∀ gs st, runProgram F (inputsV names n g) initHeap (toAstSs names ctab ss) = .ok gs st →
      ∃ g', (∀ f, F ≤ f → F1.exec vmSem (svConst ctab) f (.inr ss) g = .done g') ∧ gs = globalsV names n g') ∧
    ((∀ gs st, runProgram F (inputsV names n g) initHeap (toAstSs names ctab ss) ≠ .ok gs st) →
      runProgram F (inputsV names n g) initHeap (toAstSs names ctab ss) ≠ .fuel →
      ∀ f, F ≤ f → F1.exec vmSem (svConst ctab) f (.inr ss) g = .err) := by
  rcases runProgram_total names ctab n ss F hinj hwf hbud g initHeap with
    hf | ⟨g', st', hR, hrun⟩ | ⟨hR, err, hne, hrun⟩
  · exact ⟨fun gs st h => (by rw [hf] at h; cases h), fun _ h => absurd hf h⟩
  · refine ⟨fun gs st h => ?_, fun h _ => absurd hrun (h _ _)⟩
    rw [hrun] at h
    injection h with h1 h2
    exact ⟨g', hR, h1.symm⟩
  · refine ⟨fun gs st h => ?_, fun _ _ => hR⟩
    rw [hrun] at h
    exact absurd h (errOutcome_ne_ok err gs st)

/-- The existential form asked for: some fuel of the fragment's evaluator. -/
theorem runProgram_converse_ex (names : Nat → String) (ctab : Nat → F0.Const) (n : Nat) (ss : F1.Stms) (F : Nat)
    (hinj : ∀ i j, i < n → j < n → names i = names j → i = j)
    (hwf : wfSs n 0 ss = true) (hbud : budSs ss ≤ 4000)
    (g : Nat → SV) (initHeap : St) :
    (∀ gs st, runProgram F (inputsV names n g) initHeap (toAstSs names ctab ss) = .ok gs st →
      ∃ f g', F1.exec vmSem (svConst ctab) f (.inr ss) g = .done g' ∧ gs = globalsV names n g') ∧
    (∀ err, err ≠ Err.fuel →
      runProgram F (inputsV names n g) initHeap (toAstSs names ctab ss) = errOutcome err →
      ∃ f, F1.exec vmSem (svConst ctab) f (.inr ss) g = .err) := by
  obtain ⟨h1, h2⟩ := runProgram_converse names ctab n ss F hinj hwf hbud g initHeap
  refine ⟨fun gs st h => ?_, fun err hne h => ⟨F, h2 ?_ ?_ F (Nat.le_refl F)⟩⟩
  · obtain ⟨g', hR, hgs⟩ := h1 gs st h
    exact ⟨F, g', hR F (Nat.le_refl F), hgs⟩
  · intro gs st h'
    rw [h] at h'
    exact errOutcome_ne_ok err gs st h'
  · rw [h]
    exact errOutcome_ne_fuel hne

end Tengo.Proofs.C01Bridge

import Tengo.Props.C09
/-!
C09 — the executable equality `equalsN` of the heap model decides the relation `Eqv` (helper lemmas).

* `equalsN_true_sound`   `equalsN fuel h a b = some true  → Eqv h a b`    (any fuel; `Closed h`)
* `equalsN_false_sound`  `equalsN fuel h a b = some false → ¬ Eqv h a b`  (any fuel; `HdrOk h`)
* `equalsN_total`        values of bounded depth without incomparable scalars get an answer once the fuel
                         exceeds the depth of the left operand (`Fin h n a`, `Fin h m b`, `n < fuel`)
-/
namespace Tengo.Proofs.C09Eq
open Tengo.Model.Heap9 Tengo.Props.C09

/-! ### Well-formed slice headers -/

/-- The window `[off, off+len)` of an array header lies inside its backing array. -/
def hdrOk (h : Heap) : Obj → Bool
  | .arr _ s off len _ => decide (off + len ≤ (h.astore s).length)
  | _ => true

/-- Every array header's window lies inside its backing array (an invariant of the operations: `newArr`
allocates `max cap len` cells, slicing narrows the window, `append` in place checks the capacity). -/
def HdrOk (h : Heap) : Prop := ∀ o ∈ h.objs, hdrOk h o = true

instance (h : Heap) : Decidable (HdrOk h) := by unfold HdrOk; infer_instance

theorem hdrOk_len {h : Heap} (w : HdrOk h) {r : Nat} {m : Bool} {s off len cap : Nat} {st : List Val}
    (ho : h.objs[r]? = some (Obj.arr m s off len cap)) (hs : h.astores[s]? = some st) :
    ((st.drop off).take len).length = len := by
  have := w _ (List.mem_of_getElem? ho)
  simp [hdrOk, Heap.astore, List.getD_eq_getElem?_getD, hs] at this
  simp; omega

/-! ### Values of bounded depth whose scalars `Equals` can compare -/

/-- `Fin h n v`: the part of the heap reachable from `v` — not looking behind error values, which `Equals`
compares by identity — is a tree of height at most `n` (in particular acyclic), holds no retired object and
no scalar outside the model of `Equals` (function values, NaN). -/
inductive Fin (h : Heap) : Nat → Val → Prop
  | undef (n : Nat) : Fin h n .undef
  | int (n : Nat) (k : Int) : Fin h n (.int k)
  | str (n : Nat) (s : String) : Fin h n (.str s)
  | opq (n : Nat) (s : String) : opqComparable s = true → Fin h n (.opq s)
  | arr {n r s off len cap : Nat} {m : Bool} : h.obj r = Obj.arr m s off len cap →
      (∀ x ∈ h.content s off len, Fin h n x) → Fin h (n + 1) (.ref r)
  | map {n r s : Nat} {m : Bool} : h.obj r = Obj.map m s →
      (∀ x ∈ (h.mstore s).map Prod.snd, Fin h n x) → Fin h (n + 1) (.ref r)
  | err {n r : Nat} {p : Val} : h.obj r = Obj.err p → Fin h (n + 1) (.ref r)

theorem Fin.mono {h : Heap} {n : Nat} {v : Val} (f : Fin h n v) : ∀ {k : Nat}, n ≤ k → Fin h k v := by
  induction f with
  | undef n => intro k _; exact .undef k
  | int n i => intro k _; exact .int k i
  | str n s => intro k _; exact .str k s
  | opq n s c => intro k _; exact .opq k s c
  | arr ho _ ih =>
    intro k hk
    cases k with
    | zero => omega
    | succ k => exact .arr ho (fun x hx => ih x hx (by omega))
  | map ho _ ih =>
    intro k hk
    cases k with
    | zero => omega
    | succ k => exact .map ho (fun x hx => ih x hx (by omega))
  | err ho =>
    intro k hk
    cases k with
    | zero => omega
    | succ k => exact .err ho

/-- Executable form of `Fin` (fuel = height bound). -/
def finB : Nat → Heap → Val → Bool
  | _, _, .undef => true
  | _, _, .int _ => true
  | _, _, .str _ => true
  | _, _, .opq s => opqComparable s
  | 0, _, .ref _ => false
  | n + 1, h, .ref r =>
    match h.obj r with
    | .arr _ s off len _ => (h.content s off len).all (finB n h)
    | .map _ s => ((h.mstore s).map Prod.snd).all (finB n h)
    | .err _ => true
    | .dead => false

theorem fin_of_finB {h : Heap} : ∀ (n : Nat) (v : Val), finB n h v = true → Fin h n v := by
  intro n
  induction n with
  | zero =>
    intro v e
    cases v with
    | undef => exact .undef _
    | int k => exact .int _ k
    | str s => exact .str _ s
    | opq s => exact .opq _ s (by simpa [finB] using e)
    | ref r => simp [finB] at e
  | succ n ih =>
    intro v e
    cases v with
    | undef => exact .undef _
    | int k => exact .int _ k
    | str s => exact .str _ s
    | opq s => exact .opq _ s (by simpa [finB] using e)
    | ref r =>
      unfold finB at e
      split at e
      · rename_i ho
        exact .arr ho (fun x hx => ih x (List.all_eq_true.mp e x hx))
      · rename_i ho
        exact .map ho (fun x hx => ih x (List.all_eq_true.mp e x hx))
      · rename_i ho
        exact .err ho
      · cases e

/-! ### The element loops -/

theorem eqList_true {f : Val → Val → Option Bool} {P : Val → Val → Prop} :
    ∀ (as bs : List Val), (∀ a ∈ as, ∀ b, f a b = some true → P a b) → eqList f as bs = some true →
      as.length = bs.length ∧ ∀ (i : Nat) (a b : Val), as[i]? = some a → bs[i]? = some b → P a b
  | [], [], _, _ => ⟨rfl, by intro i a b ha; simp at ha⟩
  | [], _ :: _, _, e => by simp [eqList] at e
  | _ :: _, [], _, e => by simp [eqList] at e
  | a :: as, b :: bs, hf, e => by
    unfold eqList at e
    split at e
    · rename_i hab
      have ih := eqList_true as bs (fun x hx => hf x (List.mem_cons_of_mem _ hx)) e
      refine ⟨by simp [ih.1], ?_⟩
      intro i x y hx hy
      cases i with
      | zero => simp at hx hy; subst hx hy; exact hf _ (List.mem_cons_self ..) _ hab
      | succ i => simp at hx hy; exact ih.2 i x y hx hy
    · rename_i hne
      exact absurd e (hne)

theorem eqList_false {f : Val → Val → Option Bool} {P : Val → Val → Prop} :
    ∀ (as bs : List Val), (∀ a ∈ as, ∀ b, f a b = some false → ¬ P a b) → eqList f as bs = some false →
      as.length ≠ bs.length ∨ ∃ (i : Nat) (a b : Val), as[i]? = some a ∧ bs[i]? = some b ∧ ¬ P a b
  | [], [], _, e => by simp [eqList] at e
  | [], _ :: _, _, _ => .inl (by simp)
  | _ :: _, [], _, _ => .inl (by simp)
  | a :: as, b :: bs, hf, e => by
    unfold eqList at e
    split at e
    · rcases eqList_false as bs (fun x hx => hf x (List.mem_cons_of_mem _ hx)) e with hl | ⟨i, x, y, hx, hy, hp⟩
      · exact .inl (by simpa using hl)
      · exact .inr ⟨i + 1, x, y, by simpa using hx, by simpa using hy, hp⟩
    · exact .inr ⟨0, a, b, by simp, by simp, hf _ (List.mem_cons_self ..) _ e⟩

theorem eqList_some {f : Val → Val → Option Bool} :
    ∀ (as bs : List Val), (∀ a ∈ as, ∀ b ∈ bs, ∃ r, f a b = some r) → ∃ r, eqList f as bs = some r
  | [], [], _ => ⟨true, rfl⟩
  | [], _ :: _, _ => ⟨false, rfl⟩
  | _ :: _, [], _ => ⟨false, rfl⟩
  | a :: as, b :: bs, hf => by
    obtain ⟨r, hr⟩ := hf a (List.mem_cons_self ..) b (List.mem_cons_self ..)
    unfold eqList
    cases r with
    | true =>
      rw [hr]
      exact eqList_some as bs (fun x hx y hy => hf x (List.mem_cons_of_mem _ hx) y (List.mem_cons_of_mem _ hy))
    | false => rw [hr]; exact ⟨false, rfl⟩

theorem eqMap_true {f : Val → Val → Option Bool} {P : Val → Val → Prop} :
    ∀ (as bs : List (String × Val)), (∀ a ∈ as.map Prod.snd, ∀ b, f a b = some true → P a b) →
      eqMap f as bs = some true →
      as.map Prod.fst = bs.map Prod.fst ∧
      ∀ (i : Nat) (a b : Val), (as.map Prod.snd)[i]? = some a → (bs.map Prod.snd)[i]? = some b → P a b
  | [], [], _, _ => ⟨rfl, by intro i a b ha; simp at ha⟩
  | [], _ :: _, _, e => by simp [eqMap] at e
  | _ :: _, [], _, e => by simp [eqMap] at e
  | (k, a) :: as, (k', b) :: bs, hf, e => by
    unfold eqMap at e
    split at e
    · rename_i hk
      split at e
      · rename_i hab
        have ih := eqMap_true as bs (fun x hx => hf x (by simp at hx ⊢; exact .inr hx)) e
        refine ⟨by simp [ih.1, hk], ?_⟩
        intro i x y hx hy
        cases i with
        | zero => simp at hx hy; subst hx hy; exact hf _ (by simp) _ hab
        | succ i => simp at hx hy; exact ih.2 i x y (by simpa using hx) (by simpa using hy)
      · rename_i hne
        exact absurd e hne
    · cases e

theorem eqMap_false {f : Val → Val → Option Bool} {P : Val → Val → Prop} :
    ∀ (as bs : List (String × Val)), (∀ a ∈ as.map Prod.snd, ∀ b, f a b = some false → ¬ P a b) →
      eqMap f as bs = some false →
      as.map Prod.fst ≠ bs.map Prod.fst ∨
      ∃ (i : Nat) (a b : Val), (as.map Prod.snd)[i]? = some a ∧ (bs.map Prod.snd)[i]? = some b ∧ ¬ P a b
  | [], [], _, e => by simp [eqMap] at e
  | [], _ :: _, _, _ => .inl (by simp)
  | _ :: _, [], _, _ => .inl (by simp)
  | (k, a) :: as, (k', b) :: bs, hf, e => by
    unfold eqMap at e
    split at e
    · rename_i hk
      split at e
      · rcases eqMap_false as bs (fun x hx => hf x (by simp at hx ⊢; exact .inr hx)) e with hl | ⟨i, x, y, hx, hy, hp⟩
        · exact .inl (by simp [hk]; exact hl)
        · exact .inr ⟨i + 1, x, y, by simpa using hx, by simpa using hy, hp⟩
      · exact .inr ⟨0, a, b, by simp, by simp, hf _ (by simp) _ e⟩
    · rename_i hk
      exact .inl (by simp [hk])

theorem eqMap_some {f : Val → Val → Option Bool} :
    ∀ (as bs : List (String × Val)), (∀ a ∈ as.map Prod.snd, ∀ b ∈ bs.map Prod.snd, ∃ r, f a b = some r) →
      ∃ r, eqMap f as bs = some r
  | [], [], _ => ⟨true, rfl⟩
  | [], _ :: _, _ => ⟨false, rfl⟩
  | _ :: _, [], _ => ⟨false, rfl⟩
  | (k, a) :: as, (k', b) :: bs, hf => by
    unfold eqMap
    split
    · obtain ⟨r, hr⟩ := hf a (by simp) b (by simp)
      cases r with
      | true =>
        rw [hr]
        exact eqMap_some as bs (fun x hx y hy => hf x (by simp at hx ⊢; exact .inr hx) y (by simp at hy ⊢; exact .inr hy))
      | false => rw [hr]; exact ⟨false, rfl⟩
    · exact ⟨false, rfl⟩

/-! ### `some true` is sound -/

theorem obj_ne_dead_some {h : Heap} {r : Ref} {o : Obj} (e : h.obj r = o) (nd : o ≠ .dead) : h.objs[r]? = some o :=
  obj_some e nd

theorem equalsN_true_sound {h : Heap} (c : Closed h) :
    ∀ (n : Nat) (a b : Val), equalsN n h a b = some true → Eqv h a b := by
  intro n
  induction n with
  | zero => intro a b e; simp [equalsN] at e
  | succ n ih =>
    intro a b e
    unfold equalsN at e
    split at e
    · -- opq
      split at e
      · simp at e; subst e; exact .opq _
      · cases e
    · exact .undef
    · simp at e; subst e; exact .int _
    · simp at e; subst e; exact .str _
    · -- ref, ref
      rename_i r r'
      split at e
      · rename_i s off len cap s' off' len' cap' h1 h2
        have ho := obj_some h1 (by simp)
        have ho' := obj_some h2 (by simp)
        obtain ⟨st, hs⟩ := closed_arr c ho
        obtain ⟨st', hs'⟩ := closed_arr c ho'
        split at e
        · have := eqList_true (P := Eqv h) _ _ (fun x _ y => ih x y) e
          rw [content_eq hs, content_eq hs'] at this
          exact .arr ho ho' hs hs' this.1 this.2
        · cases e
      · rename_i s s' h1 h2
        have ho := obj_some h1 (by simp)
        have ho' := obj_some h2 (by simp)
        obtain ⟨st, hs⟩ := closed_map c ho
        obtain ⟨st', hs'⟩ := closed_map c ho'
        split at e
        · have := eqMap_true (P := Eqv h) _ _ (fun x _ y => ih x y) e
          rw [mstore_eq hs, mstore_eq hs'] at this
          exact .map ho ho' hs hs' this.1 this.2
        · cases e
      · rename_i p p' h1 h2
        simp at e; subst e
        exact .err (obj_some h1 (by simp))
      · cases e
      · cases e
      · cases e
    · cases e

/-! ### `some false` is sound -/

theorem equalsN_false_sound {h : Heap} (w : HdrOk h) :
    ∀ (n : Nat) (a b : Val), equalsN n h a b = some false → ¬ Eqv h a b := by
  intro n
  induction n with
  | zero => intro a b e; simp [equalsN] at e
  | succ n ih =>
    intro a b e q
    unfold equalsN at e
    split at e
    · split at e
      · simp at e; cases q; exact e rfl
      · cases e
    · cases e
    · simp at e; cases q; exact e rfl
    · simp at e; cases q; exact e rfl
    · rename_i r r'
      split at e
      · rename_i s off len cap s' off' len' cap' h1 h2
        cases q with
        | arr ho ho' hs hs' hl hp =>
          have e1 := obj_of_some ho; rw [h1] at e1; injection e1 with _ e1s e1o e1l _
          have e2 := obj_of_some ho'; rw [h2] at e2; injection e2 with _ e2s e2o e2l _
          subst e1s e1o e1l e2s e2o e2l
          split at e
          · rcases eqList_false (P := Eqv h) _ _ (fun x _ y => ih x y) e with hne | ⟨i, x, y, hx, hy, hn⟩
            · rw [content_eq hs, content_eq hs'] at hne; exact hne hl
            · rw [content_eq hs] at hx; rw [content_eq hs'] at hy; exact hn (hp i x y hx hy)
          · rename_i hlen
            rw [hdrOk_len w ho hs, hdrOk_len w ho' hs'] at hl
            exact hlen hl
        | map ho _ _ _ _ _ => have e1 := obj_of_some ho; rw [h1] at e1; cases e1
        | err ho => have e1 := obj_of_some ho; rw [h1] at e1; cases e1
      · rename_i s s' h1 h2
        cases q with
        | map ho ho' hs hs' hk hp =>
          have e1 := obj_of_some ho; rw [h1] at e1; injection e1 with _ e1s
          have e2 := obj_of_some ho'; rw [h2] at e2; injection e2 with _ e2s
          subst e1s e2s
          split at e
          · rcases eqMap_false (P := Eqv h) _ _ (fun x _ y => ih x y) e with hne | ⟨i, x, y, hx, hy, hn⟩
            · rw [mstore_eq hs, mstore_eq hs'] at hne; exact hne hk
            · rw [mstore_eq hs] at hx; rw [mstore_eq hs'] at hy; exact hn (hp i x y hx hy)
          · rename_i hlen
            rw [mstore_eq hs, mstore_eq hs'] at hlen
            have := congrArg List.length hk
            simp at this
            exact hlen this
        | arr ho _ _ _ _ _ => have e1 := obj_of_some ho; rw [h1] at e1; cases e1
        | err ho => have e1 := obj_of_some ho; rw [h1] at e1; cases e1
      · rename_i p p' h1 h2
        simp at e
        cases q with
        | arr ho _ _ _ _ _ => have e1 := obj_of_some ho; rw [h1] at e1; cases e1
        | map ho _ _ _ _ _ => have e1 := obj_of_some ho; rw [h1] at e1; cases e1
        | err ho => exact e rfl
      · cases e
      · cases e
      · rename_i n1 n2 n3 n4 n5
        cases q with
        | arr ho ho' _ _ _ _ => exact n3 _ _ _ _ _ _ _ _ _ _ (obj_of_some ho) (obj_of_some ho')
        | map ho ho' _ _ _ _ => exact n4 _ _ _ _ (obj_of_some ho) (obj_of_some ho')
        | err ho => exact n5 _ _ (obj_of_some ho) (obj_of_some ho)
    · rename_i n1 n2 n3 n4 n5
      cases q with
      | undef => exact n2 rfl rfl
      | int k => exact n3 _ _ rfl rfl
      | str t => exact n4 _ _ rfl rfl
      | opq t => exact n1 _ _ rfl rfl
      | arr _ _ _ _ _ _ => exact n5 _ _ rfl rfl
      | map _ _ _ _ _ _ => exact n5 _ _ rfl rfl
      | err _ => exact n5 _ _ rfl rfl

/-! ### Enough fuel gives an answer -/

theorem equalsN_total {h : Heap} {n : Nat} {a : Val} (fa : Fin h n a) :
    ∀ {m : Nat} {b : Val}, Fin h m b → ∀ fuel : Nat, n < fuel → ∃ r, equalsN fuel h a b = some r := by
  induction fa with
  | undef n =>
    intro m b fb fuel hf
    cases fuel with
    | zero => omega
    | succ k => cases b <;> exact ⟨_, rfl⟩
  | int n i =>
    intro m b fb fuel hf
    cases fuel with
    | zero => omega
    | succ k => cases b <;> exact ⟨_, rfl⟩
  | str n s =>
    intro m b fb fuel hf
    cases fuel with
    | zero => omega
    | succ k => cases b <;> exact ⟨_, rfl⟩
  | opq n s cs =>
    intro m b fb fuel hf
    cases fuel with
    | zero => omega
    | succ k =>
      cases fb with
      | opq _ t ct => exact ⟨s == t, by simp [equalsN, cs, ct]⟩
      | undef | int | str | arr | map | err => exact ⟨_, rfl⟩
  | arr ho hall ih =>
    rename_i n r s off len cap mu
    intro m b fb fuel hf
    cases fuel with
    | zero => omega
    | succ k =>
      cases fb with
      | undef | int | str | opq => exact ⟨_, rfl⟩
      | arr ho' hall' =>
        simp only [equalsN, ho, ho']
        split
        · exact eqList_some _ _ (fun x hx y hy => ih x hx (hall' y hy) k (by omega))
        · exact ⟨_, rfl⟩
      | map ho' _ => simp only [equalsN, ho, ho']; exact ⟨_, rfl⟩
      | err ho' => simp only [equalsN, ho, ho']; exact ⟨_, rfl⟩
  | map ho hall ih =>
    rename_i n r s mu
    intro m b fb fuel hf
    cases fuel with
    | zero => omega
    | succ k =>
      cases fb with
      | undef | int | str | opq => exact ⟨_, rfl⟩
      | arr ho' _ => simp only [equalsN, ho, ho']; exact ⟨_, rfl⟩
      | map ho' hall' =>
        simp only [equalsN, ho, ho']
        split
        · exact eqMap_some _ _ (fun x hx y hy => ih x hx (hall' y hy) k (by omega))
        · exact ⟨_, rfl⟩
      | err ho' => simp only [equalsN, ho, ho']; exact ⟨_, rfl⟩
  | err ho =>
    intro m b fb fuel hf
    cases fuel with
    | zero => omega
    | succ k =>
      cases fb with
      | undef | int | str | opq => exact ⟨_, rfl⟩
      | arr ho' _ => simp only [equalsN, ho, ho']; exact ⟨_, rfl⟩
      | map ho' _ => simp only [equalsN, ho, ho']; exact ⟨_, rfl⟩
      | err ho' => simp only [equalsN, ho, ho']; exact ⟨_, rfl⟩

end Tengo.Proofs.C09Eq

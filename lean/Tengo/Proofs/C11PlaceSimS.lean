import Tengo.Proofs.C11PlaceSimE
/-!
C11, PLACEMENT global ↦ local on fragment F3, layer 2: statements.

`sim_S` / `sim_Ss`: with the SAME fuel, a moved statement (list) — variables in local slots, `x = e` as `SETL` — run
with locals `mkL n g l0` and any globals `gL`, in any program `P'`, has the result of the original run from globals
`g` in program `P` (`tS`: same kind of result; where the original ends with globals `g'`, the moved one ends with
locals `mkL n g' l0` and untouched globals `gL`).
-/
set_option linter.unusedVariables false
set_option linter.unusedSimpArgs false
namespace Tengo.Proofs.C11Place
open Tengo.Model Tengo.Model.F3
open Tengo.Model.F0 (Sem upd)
variable {V : Type} {E : Env V} {n : Nat}

structure SimAll (E : Env V) (n : Nat) (P P' : Prog) (f : Nat) : Prop where
  s : ∀ (s : Stm) (g : Nat → V) (lG : Locals V) (gL : Nat → V) (l0 : Locals V), g2S n s = true →
    execS E P' f (renS s) gL (mkL n g l0) = tS n gL l0 (execS E P f s g lG)
  ss : ∀ (ss : Stms) (g : Nat → V) (lG : Locals V) (gL : Nat → V) (l0 : Locals V), g2Ss n ss = true →
    execSs E P' f (renSs ss) gL (mkL n g l0) = tS n gL l0 (execSs E P f ss g lG)

/-- A statement that starts by evaluating an expression. -/
theorem headE (P P' : Prog) (f : Nat) (e : Ex) (g : Nat → V) (lG : Locals V) (gL : Nat → V) (l0 : Locals V)
    (hc : g2E n e = true) (K K' : V → (Nat → V) → Res V) (hK : ∀ a, K' a gL = tS n gL l0 (K a g)) :
    (match evalE E P' f (renE e) gL (mkL n g l0) with
      | .val a g1 => K' a g1
      | r => r.toRes) =
    tS n gL l0 (match evalE E P f e g lG with
      | .val a g1 => K a g1
      | r => r.toRes) := by
  rw [sim_E P P' f e g lG gL l0 hc]
  rcases evalE_cases (E := E) P f e g lG hc with ⟨x, hx⟩ | hx | hx | hx
  · simp only [hx, tE]; exact hK x
  · simp only [hx, tE, tS, ERes.toRes]
  · simp only [hx, tE, tS, ERes.toRes]
  · simp only [hx, tE, tS, ERes.toRes]

/-- The body of a loop and what follows it. -/
theorem loopK {P P' : Prog} {f : Nat} (ih : SimAll E n P P' f) (body : Stms) (g : Nat → V) (lG : Locals V)
    (gL : Nat → V) (l0 : Locals V) (hc : g2Ss n body = true)
    (K K' : (Nat → V) → Locals V → Res V) (hK : ∀ g2 l2, K' gL (mkL n g2 l0) = tS n gL l0 (K g2 l2)) :
    (match execSs E P' f (renSs body) gL (mkL n g l0) with
      | .done g2 l2 => K' g2 l2
      | .cont g2 l2 => K' g2 l2
      | .brk g2 l2 => .done g2 l2
      | r => r) =
    tS n gL l0 (match execSs E P f body g lG with
      | .done g2 l2 => K g2 l2
      | .cont g2 l2 => K g2 l2
      | .brk g2 l2 => .done g2 l2
      | r => r) := by
  rw [ih.ss body g lG gL l0 hc]
  cases execSs E P f body g lG with
  | done g2 l2 => simp only [tS]; exact hK g2 l2
  | cont g2 l2 => simp only [tS]; exact hK g2 l2
  | brk g2 l2 => simp only [tS]
  | ret v g2 => simp only [tS]
  | err => simp only [tS]
  | out => simp only [tS]
  | bad => simp only [tS]

theorem simS_succ {P P' : Prog} {f : Nat} (ih : SimAll E n P P' f) (s : Stm) (g : Nat → V) (lG : Locals V)
    (gL : Nat → V) (l0 : Locals V) (hc : g2S n s = true) :
    execS E P' (f + 1) (renS s) gL (mkL n g l0) = tS n gL l0 (execS E P (f + 1) s g lG) := by
  cases s with
  | expr e =>
    simp only [g2S] at hc
    simp only [renS, execS]
    exact headE P P' f e g lG gL l0 hc (fun _ g1 => .done g1 lG) (fun _ g1 => .done g1 (mkL n g l0))
      (fun a => by simp only [tS])
  | assign i e =>
    simp only [g2S, Bool.and_eq_true, decide_eq_true_eq] at hc
    simp only [renS, execS]
    exact headE P P' f e g lG gL l0 hc.2 (fun v g1 => .done (upd g1 i v) lG)
      (fun v g1 => .done g1 (updL (mkL n g l0) i v)) (fun a => by simp only [tS, updL_mkL g l0 a hc.1])
  | defl i e => simp only [g2S] at hc; cases hc
  | setl i e => simp only [g2S] at hc; cases hc
  | ret e => simp only [g2S] at hc; cases hc
  | ret0 => simp only [g2S] at hc; cases hc
  | brk => simp only [renS, execS, tS]
  | cont => simp only [renS, execS, tS]
  | ifs c body =>
    simp only [g2S, Bool.and_eq_true] at hc
    simp only [renS, execS]
    refine headE P P' f c g lG gL l0 hc.1
      (fun a g1 => if E.S.falsy a then .done g1 lG else execSs E P f body g1 lG)
      (fun a g1 => if E.S.falsy a then .done g1 (mkL n g l0) else execSs E P' f (renSs body) g1 (mkL n g l0))
      (fun a => ?_)
    by_cases hfa : E.S.falsy a = true
    · simp only [hfa, if_true, tS]
    · simp only [hfa, Bool.false_eq_true, if_false]; exact ih.ss body g lG gL l0 hc.2
  | ifelse c body els =>
    simp only [g2S, Bool.and_eq_true] at hc
    simp only [renS, execS]
    refine headE P P' f c g lG gL l0 hc.1.1
      (fun a g1 => if E.S.falsy a then execSs E P f els g1 lG else execSs E P f body g1 lG)
      (fun a g1 => if E.S.falsy a then execSs E P' f (renSs els) g1 (mkL n g l0)
        else execSs E P' f (renSs body) g1 (mkL n g l0))
      (fun a => ?_)
    by_cases hfa : E.S.falsy a = true
    · simp only [hfa, if_true]; exact ih.ss els g lG gL l0 hc.2
    · simp only [hfa, Bool.false_eq_true, if_false]; exact ih.ss body g lG gL l0 hc.1.2
  | whil c body =>
    have hw := hc
    simp only [g2S, Bool.and_eq_true] at hc
    have hrec := fun g2 l2 => ih.s (.whil c body) g2 l2 gL l0 hw
    simp only [renS] at hrec
    simp only [renS, execS]
    refine headE P P' f c g lG gL l0 hc.1
      (fun a g1 => if E.S.falsy a then .done g1 lG
        else match execSs E P f body g1 lG with
          | .done g2 l2 => execS E P f (.whil c body) g2 l2
          | .cont g2 l2 => execS E P f (.whil c body) g2 l2
          | .brk g2 l2 => .done g2 l2
          | r => r)
      (fun a g1 => if E.S.falsy a then .done g1 (mkL n g l0)
        else match execSs E P' f (renSs body) g1 (mkL n g l0) with
          | .done g2 l2 => execS E P' f (.whil (renE c) (renSs body)) g2 l2
          | .cont g2 l2 => execS E P' f (.whil (renE c) (renSs body)) g2 l2
          | .brk g2 l2 => .done g2 l2
          | r => r)
      (fun a => ?_)
    by_cases hfa : E.S.falsy a = true
    · simp only [hfa, if_true, tS]
    · simp only [hfa, Bool.false_eq_true, if_false]
      exact loopK ih body g lG gL l0 hc.2 (fun g2 l2 => execS E P f (.whil c body) g2 l2)
        (fun g2 l2 => execS E P' f (.whil (renE c) (renSs body)) g2 l2) hrec
  | forever body =>
    have hw := hc
    simp only [g2S] at hc
    have hrec := fun g2 l2 => ih.s (.forever body) g2 l2 gL l0 hw
    simp only [renS] at hrec
    simp only [renS, execS]
    exact loopK ih body g lG gL l0 hc (fun g2 l2 => execS E P f (.forever body) g2 l2)
      (fun g2 l2 => execS E P' f (.forever (renSs body)) g2 l2) hrec
  | for3 c body post =>
    have hw := hc
    simp only [g2S, Bool.and_eq_true] at hc
    have hrec := fun g2 l2 => ih.s (.for3 c body post) g2 l2 gL l0 hw
    simp only [renS] at hrec
    simp only [renS, execS]
    refine headE P P' f c g lG gL l0 hc.1.1
      (fun a g1 => if E.S.falsy a then .done g1 lG
        else match execSs E P f body g1 lG with
          | .done g2 l2 =>
            match execS E P f post g2 l2 with
            | .done g3 l3 => execS E P f (.for3 c body post) g3 l3
            | r => r
          | .cont g2 l2 =>
            match execS E P f post g2 l2 with
            | .done g3 l3 => execS E P f (.for3 c body post) g3 l3
            | r => r
          | .brk g2 l2 => .done g2 l2
          | r => r)
      (fun a g1 => if E.S.falsy a then .done g1 (mkL n g l0)
        else match execSs E P' f (renSs body) g1 (mkL n g l0) with
          | .done g2 l2 =>
            match execS E P' f (renS post) g2 l2 with
            | .done g3 l3 => execS E P' f (.for3 (renE c) (renSs body) (renS post)) g3 l3
            | r => r
          | .cont g2 l2 =>
            match execS E P' f (renS post) g2 l2 with
            | .done g3 l3 => execS E P' f (.for3 (renE c) (renSs body) (renS post)) g3 l3
            | r => r
          | .brk g2 l2 => .done g2 l2
          | r => r)
      (fun a => ?_)
    by_cases hfa : E.S.falsy a = true
    · simp only [hfa, if_true, tS]
    · simp only [hfa, Bool.false_eq_true, if_false]
      refine loopK ih body g lG gL l0 hc.1.2
        (fun g2 l2 => match execS E P f post g2 l2 with
          | .done g3 l3 => execS E P f (.for3 c body post) g3 l3
          | r => r)
        (fun g2 l2 => match execS E P' f (renS post) g2 l2 with
          | .done g3 l3 => execS E P' f (.for3 (renE c) (renSs body) (renS post)) g3 l3
          | r => r) (fun g2 l2 => ?_)
      rw [ih.s post g2 l2 gL l0 hc.2]
      cases execS E P f post g2 l2 with
      | done g3 l3 => simp only [tS]; exact hrec g3 l3
      | cont g3 l3 => simp only [tS]
      | brk g3 l3 => simp only [tS]
      | ret v g3 => simp only [tS]
      | err => simp only [tS]
      | out => simp only [tS]
      | bad => simp only [tS]

theorem simSs_succ {P P' : Prog} {f : Nat} (ih : SimAll E n P P' f) (ss : Stms) (g : Nat → V) (lG : Locals V)
    (gL : Nat → V) (l0 : Locals V) (hc : g2Ss n ss = true) :
    execSs E P' (f + 1) (renSs ss) gL (mkL n g l0) = tS n gL l0 (execSs E P (f + 1) ss g lG) := by
  cases ss with
  | nil => simp only [renSs, execSs, tS]
  | cons s rest =>
    simp only [g2Ss, Bool.and_eq_true] at hc
    simp only [renSs, execSs]
    rw [ih.s s g lG gL l0 hc.1]
    cases execS E P f s g lG with
    | done g1 l1 => simp only [tS]; exact ih.ss rest g1 l1 gL l0 hc.2
    | cont g3 l3 => simp only [tS]
    | brk g3 l3 => simp only [tS]
    | ret v g3 => simp only [tS]
    | err => simp only [tS]
    | out => simp only [tS]
    | bad => simp only [tS]

/-- **Statements, same fuel** (see the module text). -/
theorem sim_all (E : Env V) (n : Nat) (P P' : Prog) : ∀ f, SimAll E n P P' f := by
  intro f
  induction f with
  | zero =>
    exact ⟨fun s g lG gL l0 _ => by simp only [execS, tS], fun ss g lG gL l0 _ => by simp only [execSs, tS]⟩
  | succ f ih => exact ⟨simS_succ ih, simSs_succ ih⟩

end Tengo.Proofs.C11Place

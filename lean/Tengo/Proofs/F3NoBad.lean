import Tengo.Model.F3
/-!
Fragment F3: the result `bad` of the reference semantics ("not a behaviour of the language": a local read before
it was assigned, `break` / `continue` / `return` leaving a function or the main program the wrong way, a dangling
function constant) never occurs for programs that pass a STATIC check — what the real compiler enforces by name
resolution and its compile errors:

* definite assignment (`daE`, `okS`): a local slot is read only after a `defl` / `setl` of it in the same statement
  list or an enclosing one (parameters are assigned from the start); definitions inside `if` / loop bodies do not
  count afterwards (block scope);
* `break` / `continue` only inside loops of the same function; `return` only inside functions;
* every callable value denotes a function constant of the program (`Scoped.closed`).
`exec_not_bad`: then `F3.exec` is `done`, `err` or `out` — so `program_correct_F3` leaves nothing unclaimed but
fuel exhaustion.
-/
set_option linter.unusedVariables false
set_option linter.unusedSimpArgs false
namespace Tengo.Model.F3
open Tengo.Model.F0 (Sem upd)
variable {V : Type}

def updB (d : Nat → Bool) (i : Nat) : Nat → Bool := fun j => if j = i then true else d j

mutual
  /-- Every local read of the expression is in the assigned set `d`. -/
  def daE (d : Nat → Bool) : Ex → Bool
    | .loc i => d i
    | .lit _ => true | .tru => true | .fls => true | .undef => true | .glob _ => true
    | .bin _ l r => daE d l && daE d r
    | .eq l r => daE d l && daE d r
    | .ne l r => daE d l && daE d r
    | .land l r => daE d l && daE d r
    | .lor l r => daE d l && daE d r
    | .neg e => daE d e | .bnot e => daE d e | .lnot e => daE d e | .plus e => daE d e
    | .cond c t f => daE d c && daE d t && daE d f
    | .call f args => daE d f && daEs d args
  def daEs (d : Nat → Bool) : Exs → Bool
    | .nil => true
    | .cons e es => daE d e && daEs d es
end

/-- The assigned set after a statement (definitions inside blocks do not escape). -/
def outS (d : Nat → Bool) : Stm → (Nat → Bool)
  | .defl i _ => updB d i
  | .setl i _ => updB d i
  | _ => d

def outSs (d : Nat → Bool) : Stms → (Nat → Bool)
  | .nil => d
  | .cons s ss => outSs (outS d s) ss

mutual
  /-- The static check: definite assignment from `d`, `break` / `continue` only inside a loop (`inl`), `return`
  only inside a function (`infn`). -/
  def okS (infn inl : Bool) (d : Nat → Bool) : Stm → Bool
    | .expr e => daE d e
    | .assign _ e => daE d e
    | .defl _ e => daE d e
    | .setl _ e => daE d e
    | .ifs c b => daE d c && okSs infn inl d b
    | .ifelse c b e => daE d c && okSs infn inl d b && okSs infn inl d e
    | .whil c b => daE d c && okSs infn true d b
    | .forever b => okSs infn true d b
    | .for3 c b p => daE d c && okSs infn true d b && okS infn inl d p
    | .brk => inl
    | .cont => inl
    | .ret e => infn && daE d e
    | .ret0 => infn
  def okSs (infn inl : Bool) (d : Nat → Bool) : Stms → Bool
    | .nil => true
    | .cons s ss => okS infn inl d s && okSs infn inl (outS d s) ss
end

/-- The static side conditions of a program (and of the callable values of the data semantics). -/
structure Scoped (E : Env V) (P : Prog) : Prop where
  fns : ∀ k fd, P.fns k = some fd → okSs true false (fun i => decide (i < fd.nparams)) fd.body = true
  main : okSs false false (fun _ => false) P.main = true
  closed : ∀ v k, E.asFn v = some k → ∃ fd, P.fns k = some fd

/-- The locals assigned so far cover `d`. -/
def Dom (d : Nat → Bool) (l : Locals V) : Prop := ∀ i, d i = true → (l i).isSome = true

theorem outS_mono (d : Nat → Bool) (s : Stm) (i : Nat) (h : d i = true) : outS d s i = true := by
  cases s <;> simp only [outS, updB] <;> first | exact h | (split <;> first | rfl | exact h)

theorem outSs_mono : ∀ (ss : Stms) (d : Nat → Bool) (i : Nat), d i = true → outSs d ss i = true
  | .nil, d, i, h => h
  | .cons s ss, d, i, h => outSs_mono ss (outS d s) i (outS_mono d s i h)

theorem Dom.mono {d d' : Nat → Bool} {l : Locals V} (h : Dom d' l) (hm : ∀ i, d i = true → d' i = true) :
    Dom d l := fun i hi => h i (hm i hi)

theorem Dom.upd {d : Nat → Bool} {l : Locals V} (h : Dom d l) (i : Nat) (v : V) : Dom (updB d i) (updL l i v) := by
  intro j hj
  simp only [updB] at hj
  simp only [updL]
  by_cases hji : j = i
  · simp [hji]
  · simp only [hji, if_false] at hj ⊢
    exact h j hj

/-- What a result of a statement must satisfy. -/
def NbRes (infn inl : Bool) (dout dbrk : Nat → Bool) : Res V → Prop
  | .done _ l' => Dom dout l'
  | .brk _ l' => inl = true ∧ Dom dbrk l'
  | .cont _ l' => inl = true ∧ Dom dbrk l'
  | .ret _ _ => infn = true
  | .bad => False
  | .err => True
  | .out => True

theorem NbRes.weaken {infn inl : Bool} {dout dout' dbrk : Nat → Bool} {r : Res V}
    (h : NbRes infn inl dout dbrk r) (hm : ∀ i, dout' i = true → dout i = true) :
    NbRes infn inl dout' dbrk r := by
  cases r <;> first | exact h | exact Dom.mono h hm

structure AllNb (E : Env V) (P : Prog) (f : Nat) : Prop where
  e : ∀ (e : Ex) (d : Nat → Bool) (g : Nat → V) (l : Locals V), daE d e = true → Dom d l →
    evalE E P f e g l ≠ .bad
  es : ∀ (es : Exs) (d : Nat → Bool) (g : Nat → V) (l : Locals V), daEs d es = true → Dom d l →
    evalEs E P f es g l ≠ .bad
  call : ∀ (fv : V) (vs : List V) (g : Nat → V), callFn E P f fv vs g ≠ .bad
  s : ∀ (s : Stm) (infn inl : Bool) (d : Nat → Bool) (g : Nat → V) (l : Locals V), okS infn inl d s = true →
    Dom d l → NbRes infn inl (outS d s) d (execS E P f s g l)
  ss : ∀ (ss : Stms) (infn inl : Bool) (d : Nat → Bool) (g : Nat → V) (l : Locals V), okSs infn inl d ss = true →
    Dom d l → NbRes infn inl (outSs d ss) d (execSs E P f ss g l)

section proofs
variable {E : Env V} {P : Prog}

theorem toRes_nb {infn inl : Bool} {d d' : Nat → Bool} {r : ERes V} (h : r ≠ .bad) (hv : ∀ v g, r ≠ .val v g) :
    NbRes infn inl d d' r.toRes := by
  cases r with
  | val v g => exact absurd rfl (hv v g)
  | err => trivial
  | out => trivial
  | bad => exact absurd rfl h

/-- Two sub-expressions in sequence. -/
theorem nb2 {f : Nat} (ih : AllNb E P f) {a b : Ex} {d : Nat → Bool} {g : Nat → V} {l : Locals V}
    (ha : daE d a = true) (hb : daE d b = true) (hl : Dom d l)
    (k : V → V → (Nat → V) → ERes V) (hk : ∀ x y g2, k x y g2 ≠ .bad) :
    (match evalE E P f a g l with
      | .val x g1 =>
        match evalE E P f b g1 l with
        | .val y g2 => k x y g2
        | r => r
      | r => r) ≠ .bad := by
  have h1 := ih.e a d g l ha hl
  cases hea : evalE E P f a g l with
  | val x g1 =>
    dsimp only
    have h2 := ih.e b d g1 l hb hl
    cases heb : evalE E P f b g1 l with
    | val y g2 => exact hk x y g2
    | err => intro h; cases h
    | out => intro h; cases h
    | bad => exact absurd heb h2
  | err => intro h; cases h
  | out => intro h; cases h
  | bad => exact absurd hea h1

theorem nb1 {f : Nat} (ih : AllNb E P f) {a : Ex} {d : Nat → Bool} {g : Nat → V} {l : Locals V}
    (ha : daE d a = true) (hl : Dom d l) (k : V → (Nat → V) → ERes V) (hk : ∀ x g1, k x g1 ≠ .bad) :
    (match evalE E P f a g l with
      | .val x g1 => k x g1
      | r => r) ≠ .bad := by
  have h1 := ih.e a d g l ha hl
  cases hea : evalE E P f a g l with
  | val x g1 => exact hk x g1
  | err => intro h; cases h
  | out => intro h; cases h
  | bad => exact absurd hea h1

theorem nbE_succ {f : Nat} (ih : AllNb E P f) (e : Ex) (d : Nat → Bool) (g : Nat → V) (l : Locals V)
    (hd : daE d e = true) (hl : Dom d l) : evalE E P (f + 1) e g l ≠ .bad := by
  cases e with
  | lit k => simp only [evalE]; intro h; cases h
  | tru => simp only [evalE]; intro h; cases h
  | fls => simp only [evalE]; intro h; cases h
  | undef => simp only [evalE]; intro h; cases h
  | glob i => simp only [evalE]; intro h; cases h
  | loc i =>
    simp only [daE] at hd
    have := hl i hd
    simp only [evalE]
    cases hli : l i with
    | none => rw [hli] at this; cases this
    | some v => intro h; cases h
  | bin tok a b =>
    simp only [daE, Bool.and_eq_true] at hd
    simp only [evalE]
    exact nb2 ih hd.1 hd.2 hl (fun x y g2 => match E.S.binop tok x y with | some v => .val v g2 | none => .err)
      (fun x y g2 => by cases E.S.binop tok x y <;> (intro h; cases h))
  | eq a b =>
    simp only [daE, Bool.and_eq_true] at hd
    simp only [evalE]
    exact nb2 ih hd.1 hd.2 hl (fun x y g2 => .val (E.S.ofBool (E.S.eqv x y)) g2) (fun _ _ _ h => by cases h)
  | ne a b =>
    simp only [daE, Bool.and_eq_true] at hd
    simp only [evalE]
    exact nb2 ih hd.1 hd.2 hl (fun x y g2 => .val (E.S.ofBool (!E.S.eqv x y)) g2) (fun _ _ _ h => by cases h)
  | neg a =>
    simp only [daE] at hd
    simp only [evalE]
    exact nb1 ih hd hl (fun x g1 => match E.S.neg x with | some v => .val v g1 | none => .err)
      (fun x g1 => by cases E.S.neg x <;> (intro h; cases h))
  | bnot a =>
    simp only [daE] at hd
    simp only [evalE]
    exact nb1 ih hd hl (fun x g1 => match E.S.bnot x with | some v => .val v g1 | none => .err)
      (fun x g1 => by cases E.S.bnot x <;> (intro h; cases h))
  | lnot a =>
    simp only [daE] at hd
    simp only [evalE]
    exact nb1 ih hd hl (fun x g1 => .val (E.S.ofBool (E.S.falsy x)) g1) (fun _ _ h => by cases h)
  | plus a =>
    simp only [daE] at hd
    simp only [evalE]
    exact ih.e a d g l hd hl
  | cond c t e =>
    simp only [daE, Bool.and_eq_true] at hd
    simp only [evalE]
    exact nb1 ih hd.1.1 hl (fun x g1 => if E.S.falsy x then evalE E P f e g1 l else evalE E P f t g1 l)
      (fun x g1 => by
        by_cases hfa : E.S.falsy x = true
        · simp only [hfa, if_true]; exact ih.e e d g1 l hd.2 hl
        · simp only [hfa, Bool.false_eq_true, if_false]; exact ih.e t d g1 l hd.1.2 hl)
  | land a b =>
    simp only [daE, Bool.and_eq_true] at hd
    simp only [evalE]
    exact nb1 ih hd.1 hl (fun x g1 => if E.S.falsy x then .val x g1 else evalE E P f b g1 l)
      (fun x g1 => by
        by_cases hfa : E.S.falsy x = true
        · simp only [hfa, if_true]; intro h; cases h
        · simp only [hfa, Bool.false_eq_true, if_false]; exact ih.e b d g1 l hd.2 hl)
  | lor a b =>
    simp only [daE, Bool.and_eq_true] at hd
    simp only [evalE]
    exact nb1 ih hd.1 hl (fun x g1 => if E.S.falsy x then evalE E P f b g1 l else .val x g1)
      (fun x g1 => by
        by_cases hfa : E.S.falsy x = true
        · simp only [hfa, if_true]; exact ih.e b d g1 l hd.2 hl
        · simp only [hfa, Bool.false_eq_true, if_false]; intro h; cases h)
  | call fe args =>
    simp only [daE, Bool.and_eq_true] at hd
    simp only [evalE]
    refine nb1 ih hd.1 hl (fun fv g1 => match evalEs E P f args g1 l with
      | .vals vs g2 => callFn E P f fv vs g2
      | .err => .err
      | .out => .out
      | .bad => .bad) (fun fv g1 => ?_)
    have h2 := ih.es args d g1 l hd.2 hl
    cases hes : evalEs E P f args g1 l with
    | vals vs g2 => exact ih.call fv vs g2
    | err => intro h; cases h
    | out => intro h; cases h
    | bad => exact absurd hes h2

theorem nbEs_succ {f : Nat} (ih : AllNb E P f) (es : Exs) (d : Nat → Bool) (g : Nat → V) (l : Locals V)
    (hd : daEs d es = true) (hl : Dom d l) : evalEs E P (f + 1) es g l ≠ .bad := by
  cases es with
  | nil => simp only [evalEs]; intro h; cases h
  | cons e es =>
    simp only [daEs, Bool.and_eq_true] at hd
    simp only [evalEs]
    have h1 := ih.e e d g l hd.1 hl
    cases he : evalE E P f e g l with
    | val v g1 =>
      dsimp only
      have h2 := ih.es es d g1 l hd.2 hl
      cases hes : evalEs E P f es g1 l with
      | vals vs g2 => intro h; cases h
      | err => intro h; cases h
      | out => intro h; cases h
      | bad => exact absurd hes h2
    | err => intro h; cases h
    | out => intro h; cases h
    | bad => exact absurd he h1

theorem dom_bind (vs : List V) (n : Nat) (h : vs.length = n) :
    Dom (fun i => decide (i < n)) (bindArgs vs) := by
  intro i hi
  simp only [decide_eq_true_eq] at hi
  simp only [bindArgs]
  rw [List.getElem?_eq_getElem (by omega)]
  rfl

theorem nbCall_succ (hS : Scoped E P) {f : Nat} (ih : AllNb E P f) (fv : V) (vs : List V) (g : Nat → V) :
    callFn E P (f + 1) fv vs g ≠ .bad := by
  simp only [callFn]
  cases hk : E.asFn fv with
  | none => intro h; cases h
  | some k =>
    dsimp only
    obtain ⟨fd, hfd⟩ := hS.closed fv k hk
    rw [hfd]
    dsimp only
    by_cases hn : vs.length = fd.nparams
    · rw [if_neg (by simpa using hn)]
      have hb := ih.ss fd.body true false _ g (bindArgs vs) (hS.fns k fd hfd) (dom_bind vs fd.nparams hn)
      cases hr : execSs E P f fd.body g (bindArgs vs) with
      | done g' l' => intro h; cases h
      | ret v g' => intro h; cases h
      | brk g' l' => rw [hr] at hb; exact absurd hb.1 (by simp)
      | cont g' l' => rw [hr] at hb; exact absurd hb.1 (by simp)
      | err => intro h; cases h
      | out => intro h; cases h
      | bad => rw [hr] at hb; exact hb.elim
    · rw [if_pos (by simpa using hn)]
      intro h; cases h

/-- A statement of the form `e; <one instruction>`: the result of `e` decides. -/
theorem nbS_simple {f : Nat} (ih : AllNb E P f) {e : Ex} {infn inl : Bool} {d dout : Nat → Bool} {g : Nat → V}
    {l : Locals V} (hd : daE d e = true) (hl : Dom d l) (k : V → (Nat → V) → Res V)
    (hk : ∀ v g1, NbRes infn inl dout d (k v g1)) :
    NbRes infn inl dout d (match evalE E P f e g l with
      | .val v g1 => k v g1
      | r => r.toRes) := by
  have h1 := ih.e e d g l hd hl
  cases he : evalE E P f e g l with
  | val v g1 => exact hk v g1
  | err => trivial
  | out => trivial
  | bad => exact absurd he h1

theorem nbS_succ {f : Nat} (ih : AllNb E P f) (s : Stm) (infn inl : Bool) (d : Nat → Bool) (g : Nat → V)
    (l : Locals V) (hd : okS infn inl d s = true) (hl : Dom d l) :
    NbRes infn inl (outS d s) d (execS E P (f + 1) s g l) := by
  cases s with
  | expr e =>
    simp only [okS] at hd
    simp only [execS]
    exact nbS_simple ih hd hl (fun _ g1 => .done g1 l) (fun _ _ => hl)
  | assign i e =>
    simp only [okS] at hd
    simp only [execS]
    exact nbS_simple ih hd hl (fun v g1 => .done (upd g1 i v) l) (fun _ _ => hl)
  | defl i e =>
    simp only [okS] at hd
    simp only [execS]
    exact nbS_simple ih hd hl (fun v g1 => .done g1 (updL l i v)) (fun v _ => hl.upd i v)
  | setl i e =>
    simp only [okS] at hd
    simp only [execS]
    exact nbS_simple ih hd hl (fun v g1 => .done g1 (updL l i v)) (fun v _ => hl.upd i v)
  | ifs c body =>
    simp only [okS, Bool.and_eq_true] at hd
    simp only [execS]
    refine nbS_simple ih hd.1 hl (fun a g1 => if E.S.falsy a then .done g1 l else execSs E P f body g1 l)
      (fun a g1 => ?_)
    split
    · exact hl
    · exact (ih.ss body infn inl d g1 l hd.2 hl).weaken (fun i hi => outSs_mono body d i hi)
  | ifelse c body els =>
    simp only [okS, Bool.and_eq_true] at hd
    simp only [execS]
    refine nbS_simple ih hd.1.1 hl
      (fun a g1 => if E.S.falsy a then execSs E P f els g1 l else execSs E P f body g1 l) (fun a g1 => ?_)
    split
    · exact (ih.ss els infn inl d g1 l hd.2 hl).weaken (fun i hi => outSs_mono els d i hi)
    · exact (ih.ss body infn inl d g1 l hd.1.2 hl).weaken (fun i hi => outSs_mono body d i hi)
  | whil c body =>
    have hd' := hd
    simp only [okS, Bool.and_eq_true] at hd'
    simp only [execS]
    refine nbS_simple ih hd'.1 hl (fun a g1 => if E.S.falsy a then .done g1 l
      else match execSs E P f body g1 l with
        | .done g2 l2 => execS E P f (.whil c body) g2 l2
        | .cont g2 l2 => execS E P f (.whil c body) g2 l2
        | .brk g2 l2 => .done g2 l2
        | r => r) (fun a g1 => ?_)
    split
    · exact hl
    · have hb := ih.ss body infn true d g1 l hd'.2 hl
      cases hr : execSs E P f body g1 l with
      | done g2 l2 =>
        rw [hr] at hb
        exact ih.s (.whil c body) infn inl d g2 l2 hd (Dom.mono hb (fun i hi => outSs_mono body d i hi))
      | cont g2 l2 => rw [hr] at hb; exact ih.s (.whil c body) infn inl d g2 l2 hd hb.2
      | brk g2 l2 => rw [hr] at hb; exact hb.2
      | ret v g2 => rw [hr] at hb; exact hb
      | err => trivial
      | out => trivial
      | bad => rw [hr] at hb; exact hb
  | forever body =>
    have hd' := hd
    simp only [okS] at hd'
    simp only [execS]
    have hb := ih.ss body infn true d g l hd' hl
    cases hr : execSs E P f body g l with
    | done g2 l2 =>
      rw [hr] at hb
      exact ih.s (.forever body) infn inl d g2 l2 hd (Dom.mono hb (fun i hi => outSs_mono body d i hi))
    | cont g2 l2 => rw [hr] at hb; exact ih.s (.forever body) infn inl d g2 l2 hd hb.2
    | brk g2 l2 => rw [hr] at hb; exact hb.2
    | ret v g2 => rw [hr] at hb; exact hb
    | err => trivial
    | out => trivial
    | bad => rw [hr] at hb; exact hb
  | for3 c body post =>
    have hd' := hd
    simp only [okS, Bool.and_eq_true] at hd'
    simp only [execS]
    have hrest : ∀ g2 l2, Dom d l2 → NbRes infn inl d d (match execS E P f post g2 l2 with
        | .done g3 l3 => execS E P f (.for3 c body post) g3 l3
        | r => r) := by
      intro g2 l2 hl2
      have hp := ih.s post infn inl d g2 l2 hd'.2 hl2
      cases hr : execS E P f post g2 l2 with
      | done g3 l3 =>
        rw [hr] at hp
        exact ih.s (.for3 c body post) infn inl d g3 l3 hd (Dom.mono hp (fun i hi => outS_mono d post i hi))
      | brk g3 l3 => rw [hr] at hp; exact hp
      | cont g3 l3 => rw [hr] at hp; exact hp
      | ret v g3 => rw [hr] at hp; exact hp
      | err => trivial
      | out => trivial
      | bad => rw [hr] at hp; exact hp
    refine nbS_simple ih hd'.1.1 hl (fun a g1 => if E.S.falsy a then .done g1 l
      else match execSs E P f body g1 l with
        | .done g2 l2 =>
          match execS E P f post g2 l2 with
          | .done g3 l3 => execS E P f (.for3 c body post) g3 l3
          | r => r
        | .cont g2 l2 =>
          match execS E P f post g2 l2 with
          | .done g3 l3 => execS E P f (.for3 c body post) g3 l3
          | r => r
        | .brk g2 l2 => .done g2 l2
        | r => r) (fun a g1 => ?_)
    split
    · exact hl
    · have hb := ih.ss body infn true d g1 l hd'.1.2 hl
      cases hr : execSs E P f body g1 l with
      | done g2 l2 =>
        rw [hr] at hb
        exact hrest g2 l2 (Dom.mono hb (fun i hi => outSs_mono body d i hi))
      | cont g2 l2 => rw [hr] at hb; exact hrest g2 l2 hb.2
      | brk g2 l2 => rw [hr] at hb; exact hb.2
      | ret v g2 => rw [hr] at hb; exact hb
      | err => trivial
      | out => trivial
      | bad => rw [hr] at hb; exact hb
  | brk =>
    simp only [okS] at hd
    simp only [execS]
    exact ⟨hd, hl⟩
  | cont =>
    simp only [okS] at hd
    simp only [execS]
    exact ⟨hd, hl⟩
  | ret e =>
    simp only [okS, Bool.and_eq_true] at hd
    simp only [execS]
    exact nbS_simple ih hd.2 hl (fun v g1 => .ret v g1) (fun _ _ => hd.1)
  | ret0 =>
    simp only [okS] at hd
    simp only [execS]
    exact hd

theorem nbSs_succ {f : Nat} (ih : AllNb E P f) (ss : Stms) (infn inl : Bool) (d : Nat → Bool) (g : Nat → V)
    (l : Locals V) (hd : okSs infn inl d ss = true) (hl : Dom d l) :
    NbRes infn inl (outSs d ss) d (execSs E P (f + 1) ss g l) := by
  cases ss with
  | nil => simp only [execSs]; exact hl
  | cons s ss =>
    simp only [okSs, Bool.and_eq_true] at hd
    simp only [execSs]
    have h1 := ih.s s infn inl d g l hd.1 hl
    cases hr : execS E P f s g l with
    | done g1 l1 =>
      rw [hr] at h1
      have h2 := ih.ss ss infn inl (outS d s) g1 l1 hd.2 h1
      dsimp only
      cases hr2 : execSs E P f ss g1 l1 with
      | done g2 l2 => rw [hr2] at h2; exact h2
      | brk g2 l2 => rw [hr2] at h2; exact ⟨h2.1, Dom.mono h2.2 (fun i hi => outS_mono d s i hi)⟩
      | cont g2 l2 => rw [hr2] at h2; exact ⟨h2.1, Dom.mono h2.2 (fun i hi => outS_mono d s i hi)⟩
      | ret v g2 => rw [hr2] at h2; exact h2
      | err => trivial
      | out => trivial
      | bad => rw [hr2] at h2; exact h2
    | brk g1 l1 => rw [hr] at h1; exact h1
    | cont g1 l1 => rw [hr] at h1; exact h1
    | ret v g1 => rw [hr] at h1; exact h1
    | err => trivial
    | out => trivial
    | bad => rw [hr] at h1; exact h1

theorem all_nb (hS : Scoped E P) : ∀ f, AllNb E P f := by
  intro f
  induction f with
  | zero =>
    refine ⟨?_, ?_, ?_, ?_, ?_⟩
    · intro e d g l _ _; simp only [evalE]; intro h; cases h
    · intro es d g l _ _; simp only [evalEs]; intro h; cases h
    · intro fv vs g; simp only [callFn]; intro h; cases h
    · intro s infn inl d g l _ _; simp only [execS]; trivial
    · intro ss infn inl d g l _ _; simp only [execSs]; trivial
  | succ f ih =>
    exact ⟨nbE_succ ih, nbEs_succ ih, nbCall_succ hS ih, nbS_succ ih, nbSs_succ ih⟩

/-- **No `bad` for statically checked programs**: the reference semantics of a `Scoped` program ends `done`, in a
run-time error, or the fuel runs out. -/
theorem exec_not_bad (hS : Scoped E P) (f : Nat) (g : Nat → V) : exec E P f g ≠ .bad := by
  have h := (all_nb hS f).ss P.main false false (fun _ => false) g (fun _ => none) hS.main
    (fun i hi => by cases hi)
  unfold exec
  cases hr : execSs E P f P.main g (fun _ => none) with
  | done g' l' => intro h; cases h
  | err => intro h; cases h
  | out => intro h; cases h
  | brk g' l' => rw [hr] at h; exact absurd h.1 (by simp)
  | cont g' l' => rw [hr] at h; exact absurd h.1 (by simp)
  | ret v g' => rw [hr] at h; cases h
  | bad => rw [hr] at h; exact h.elim

theorem exec_cases (hS : Scoped E P) (f : Nat) (g : Nat → V) :
    (∃ g', exec E P f g = .done g') ∨ exec E P f g = .err ∨ exec E P f g = .out := by
  have h := exec_not_bad hS f g
  cases hr : exec E P f g with
  | done g' => exact Or.inl ⟨g', rfl⟩
  | err => exact Or.inr (Or.inl rfl)
  | out => exact Or.inr (Or.inr rfl)
  | bad => exact absurd hr h

end proofs

end Tengo.Model.F3

import Tengo.Model.SpecAst
/-!
C19: the enum module (stdlib/srcmod_enum.tengo) as an AST of the reference interpreter, one definition per
function, and a printer `render` back to code lines. `Props/C19Enum.lean` proves that the printed AST is
exactly the audited code `StdlibExpect.enumCode` (which C19 proves equal to the file and the embedded string).
-/
namespace Tengo.Proofs.C19Enum
open Tengo.Model.Spec

def call1 (f x : String) : Expr := .call false (.ident f) [.ident x]
def call2 (f x y : String) : Expr := .call false (.ident f) [.ident x, .ident y]
def lor (a b : Expr) : Expr := .bin "LOr" a b
def retUndefUnless (c : Expr) : Stmt := .ifs none (.un "Not" c) [.ret (some .undef)] none

def isEnumerableFn : Expr :=
  .func false ["x"] [.ret (some (lor (lor (lor (call1 "is_array" "x") (call1 "is_map" "x"))
    (call1 "is_immutable_array" "x")) (call1 "is_immutable_map" "x")))]
def isArrayLikeFn : Expr :=
  .func false ["x"] [.ret (some (lor (call1 "is_array" "x") (call1 "is_immutable_array" "x")))]

def guardEnum : Stmt := retUndefUnless (call1 "is_enumerable" "x")
def guardArr : Stmt := retUndefUnless (call1 "is_array_like" "x")
def forKV (body : List Stmt) : Stmt := .forin "k" "v" (.ident "x") body
def fnKV : Expr := call2 "fn" "k" "v"

def allBody : List Stmt :=
  [guardEnum, forKV [.ifs none (.un "Not" fnKV) [.ret (some (.bool false))] none], .ret (some (.bool true))]
def anyBody : List Stmt :=
  [guardEnum, forKV [.ifs none fnKV [.ret (some (.bool true))] none], .ret (some (.bool false))]
def chunkBody : List Stmt :=
  [.ifs none (lor (.un "Not" (call1 "is_array_like" "x")) (.un "Not" (.ident "size"))) [.ret (some .undef)] none,
   .assign "Define" [.ident "numElements"] [call1 "len" "x"],
   .ifs none (.un "Not" (.ident "numElements")) [.ret (some (.arr []))] none,
   .assign "Define" [.ident "res"] [.arr []],
   .assign "Define" [.ident "idx"] [.int 0],
   .fors none (some (.bin "Less" (.ident "idx") (.ident "numElements"))) none
     [.assign "Assign" [.ident "res"] [.call false (.ident "append")
        [.ident "res", .slice (.ident "x") (some (.ident "idx")) (some (.bin "Add" (.ident "idx") (.ident "size")))]],
      .assign "AddAssign" [.ident "idx"] [.ident "size"]],
   .ret (some (.ident "res"))]
def atBody : List Stmt :=
  [guardEnum,
   .ifs none (call1 "is_array_like" "x")
     [.ifs none (.un "Not" (call1 "is_int" "key")) [.ret (some .undef)] none]
     (some (.block [.ifs none (.un "Not" (call1 "is_string" "key")) [.ret (some .undef)] none])),
   .ret (some (.idx (.ident "x") (.ident "key")))]
def eachBody : List Stmt := [guardEnum, forKV [.expr fnKV]]
def filterBody : List Stmt :=
  [guardArr, .assign "Define" [.ident "dst"] [.arr []],
   forKV [.ifs none fnKV [.assign "Assign" [.ident "dst"] [call2 "append" "dst" "v"]] none],
   .ret (some (.ident "dst"))]
def findBody : List Stmt := [guardEnum, forKV [.ifs none fnKV [.ret (some (.ident "v"))] none]]
def findKeyBody : List Stmt := [guardEnum, forKV [.ifs none fnKV [.ret (some (.ident "k"))] none]]
def mapBody : List Stmt :=
  [guardEnum, .assign "Define" [.ident "dst"] [.arr []],
   forKV [.assign "Assign" [.ident "dst"] [.call false (.ident "append") [.ident "dst", fnKV]]],
   .ret (some (.ident "dst"))]
def keyBody : List Stmt := [.ret (some (.ident "k"))]
def valueBody : List Stmt := [.ret (some (.ident "v"))]

/-- The exported map of the module, in source order: name, parameters, body. -/
def enumExports : List (String × List String × List Stmt) :=
  [("all", ["x", "fn"], allBody), ("any", ["x", "fn"], anyBody), ("chunk", ["x", "size"], chunkBody),
   ("at", ["x", "key"], atBody), ("each", ["x", "fn"], eachBody), ("filter", ["x", "fn"], filterBody),
   ("find", ["x", "fn"], findBody), ("find_key", ["x", "fn"], findKeyBody), ("map", ["x", "fn"], mapBody),
   ("key", ["k", "_"], keyBody), ("value", ["_", "v"], valueBody)]

end Tengo.Proofs.C19Enum

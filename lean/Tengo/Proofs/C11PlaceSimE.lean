import Tengo.Proofs.C11PlaceDefs
/-!
C11, PLACEMENT global ↦ local on fragment F3, layer 1: expressions.

* `evalE_pure`: an expression of the class leaves the globals alone.
* `sim_E`: with the SAME fuel, the moved expression (variables in local slots that hold the globals' values) has
  the result of the original (`tE`), in any two programs.
-/
set_option linter.unusedVariables false
set_option linter.unusedSimpArgs false
namespace Tengo.Proofs.C11Place
open Tengo.Model Tengo.Model.F3
open Tengo.Model.F0 (Sem upd)
variable {V : Type}

theorem mkL_lt {n i : Nat} (g : Nat → V) (l0 : Locals V) (h : i < n) : mkL n g l0 i = some (g i) := by
  simp only [mkL, h, if_true]

theorem updL_mkL {n i : Nat} (g : Nat → V) (l0 : Locals V) (v : V) (h : i < n) :
    updL (mkL n g l0) i v = mkL n (upd g i v) l0 := by
  funext j
  simp only [updL, mkL, upd]
  by_cases hj : j = i
  · subst hj; simp only [if_true, h]
  · simp only [hj, if_false]

theorem mkL_congr {n : Nat} {g g' : Nat → V} (l0 : Locals V) (h : ∀ i, i < n → g i = g' i) :
    mkL n g l0 = mkL n g' l0 := by
  funext j
  simp only [mkL]
  by_cases hj : j < n
  · simp only [hj, if_true, h j hj]
  · simp only [hj, if_false]

section
variable {E : Env V} {n : Nat}

/-- An expression of the class does not change the globals. -/
theorem evalE_pure (P : Prog) : ∀ (f : Nat) (e : Ex) (g : Nat → V) (l : Locals V) (v : V) (g1 : Nat → V),
    g2E n e = true → evalE E P f e g l = .val v g1 → g1 = g := by
  intro f
  induction f with
  | zero => intro e g l v g1 _ h; simp only [evalE] at h; cases h
  | succ f ih =>
    intro e g l v g1 hc h
    have bind2 : ∀ (a b : Ex) (k : V → V → (Nat → V) → ERes V), g2E n a = true → g2E n b = true →
        (∀ x y g2, k x y g2 = .val v g1 → g1 = g2) →
        (match evalE E P f a g l with
          | .val x ga =>
            match evalE E P f b ga l with
            | .val y gb => k x y gb
            | r => r
          | r => r) = .val v g1 → g1 = g := by
      intro a b k hca hcb hk h
      cases hea : evalE E P f a g l with
      | val x ga =>
        have := ih a g l x ga hca hea
        subst this
        simp only [hea] at h
        cases heb : evalE E P f b ga l with
        | val y gb =>
          have := ih b ga l y gb hcb heb
          subst this
          simp only [heb] at h
          exact hk x y gb h
        | err => simp only [heb] at h; cases h
        | out => simp only [heb] at h; cases h
        | bad => simp only [heb] at h; cases h
      | err => simp only [hea] at h; cases h
      | out => simp only [hea] at h; cases h
      | bad => simp only [hea] at h; cases h
    have bind1 : ∀ (a : Ex) (k : V → (Nat → V) → ERes V), g2E n a = true →
        (∀ x, k x g = .val v g1 → g1 = g) →
        (match evalE E P f a g l with
          | .val x ga => k x ga
          | r => r) = .val v g1 → g1 = g := by
      intro a k hca hk h
      cases hea : evalE E P f a g l with
      | val x ga =>
        have := ih a g l x ga hca hea
        subst this
        simp only [hea] at h
        exact hk x h
      | err => simp only [hea] at h; cases h
      | out => simp only [hea] at h; cases h
      | bad => simp only [hea] at h; cases h
    cases e with
    | lit k => simp only [evalE] at h; cases h; rfl
    | tru => simp only [evalE] at h; cases h; rfl
    | fls => simp only [evalE] at h; cases h; rfl
    | undef => simp only [evalE] at h; cases h; rfl
    | glob i => simp only [evalE] at h; cases h; rfl
    | loc i => simp only [g2E] at hc; cases hc
    | call fe args => simp only [g2E] at hc; cases hc
    | bin tok a b =>
      simp only [g2E, Bool.and_eq_true] at hc
      simp only [evalE] at h
      refine bind2 a b (fun x y g2 => match E.S.binop tok x y with | some v => .val v g2 | none => .err) hc.1 hc.2
        (fun x y g2 hk => ?_) h
      cases hb : E.S.binop tok x y with
      | some w => simp only [hb] at hk; cases hk; rfl
      | none => simp only [hb] at hk; cases hk
    | eq a b =>
      simp only [g2E, Bool.and_eq_true] at hc
      simp only [evalE] at h
      exact bind2 a b (fun x y g2 => .val (E.S.ofBool (E.S.eqv x y)) g2) hc.1 hc.2
        (fun x y g2 hk => by cases hk; rfl) h
    | ne a b =>
      simp only [g2E, Bool.and_eq_true] at hc
      simp only [evalE] at h
      exact bind2 a b (fun x y g2 => .val (E.S.ofBool (!E.S.eqv x y)) g2) hc.1 hc.2
        (fun x y g2 hk => by cases hk; rfl) h
    | neg a =>
      simp only [g2E] at hc
      simp only [evalE] at h
      refine bind1 a (fun x ga => match E.S.neg x with | some v => .val v ga | none => .err) hc (fun x hk => ?_) h
      cases hb : E.S.neg x with
      | some w => simp only [hb] at hk; cases hk; rfl
      | none => simp only [hb] at hk; cases hk
    | bnot a =>
      simp only [g2E] at hc
      simp only [evalE] at h
      refine bind1 a (fun x ga => match E.S.bnot x with | some v => .val v ga | none => .err) hc (fun x hk => ?_) h
      cases hb : E.S.bnot x with
      | some w => simp only [hb] at hk; cases hk; rfl
      | none => simp only [hb] at hk; cases hk
    | lnot a =>
      simp only [g2E] at hc
      simp only [evalE] at h
      exact bind1 a (fun x ga => .val (E.S.ofBool (E.S.falsy x)) ga) hc (fun x hk => by cases hk; rfl) h
    | plus a =>
      simp only [g2E] at hc
      simp only [evalE] at h
      exact ih a g l v g1 hc h
    | cond c t e =>
      simp only [g2E, Bool.and_eq_true] at hc
      simp only [evalE] at h
      refine bind1 c (fun x ga => if E.S.falsy x then evalE E P f e ga l else evalE E P f t ga l) hc.1.1
        (fun x hk => ?_) h
      by_cases hfa : E.S.falsy x = true
      · simp only [hfa, if_true] at hk; exact ih e g l v g1 hc.2 hk
      · simp only [hfa, Bool.false_eq_true, if_false] at hk; exact ih t g l v g1 hc.1.2 hk
    | land a b =>
      simp only [g2E, Bool.and_eq_true] at hc
      simp only [evalE] at h
      refine bind1 a (fun x ga => if E.S.falsy x then .val x ga else evalE E P f b ga l) hc.1 (fun x hk => ?_) h
      by_cases hfa : E.S.falsy x = true
      · simp only [hfa, if_true] at hk; cases hk; rfl
      · simp only [hfa, Bool.false_eq_true, if_false] at hk; exact ih b g l v g1 hc.2 hk
    | lor a b =>
      simp only [g2E, Bool.and_eq_true] at hc
      simp only [evalE] at h
      refine bind1 a (fun x ga => if E.S.falsy x then evalE E P f b ga l else .val x ga) hc.1 (fun x hk => ?_) h
      by_cases hfa : E.S.falsy x = true
      · simp only [hfa, if_true] at hk; exact ih b g l v g1 hc.2 hk
      · simp only [hfa, Bool.false_eq_true, if_false] at hk; cases hk; rfl

/-- The value-and-globals form of `evalE_pure`. -/
theorem evalE_cases (P : Prog) (f : Nat) (e : Ex) (g : Nat → V) (l : Locals V) (hc : g2E n e = true) :
    (∃ v, evalE E P f e g l = .val v g) ∨ evalE E P f e g l = .err ∨ evalE E P f e g l = .out ∨
      evalE E P f e g l = .bad := by
  cases h : evalE E P f e g l with
  | val v g1 =>
    have := evalE_pure P f e g l v g1 hc h
    subst this
    exact Or.inl ⟨v, rfl⟩
  | err => exact Or.inr (Or.inl rfl)
  | out => exact Or.inr (Or.inr (Or.inl rfl))
  | bad => exact Or.inr (Or.inr (Or.inr rfl))

/-- **Expressions, same fuel**: the moved expression, run with locals `mkL n g l0` (slot `i < n` holds global `i`) and
any globals `gL`, in any program `P'`, has the result of the original from globals `g` (`tE`: same value / same
kind of failure; the globals stay `gL`). -/
theorem sim_E (P P' : Prog) : ∀ (f : Nat) (e : Ex) (g : Nat → V) (lG : Locals V) (gL : Nat → V) (l0 : Locals V),
    g2E n e = true → evalE E P' f (renE e) gL (mkL n g l0) = tE gL (evalE E P f e g lG) := by
  intro f
  induction f with
  | zero => intro e g lG gL l0 _; simp only [evalE, tE]
  | succ f ih =>
    intro e g lG gL l0 hc
    have b2 : ∀ (a b : Ex) (k : V → V → (Nat → V) → ERes V), g2E n a = true → g2E n b = true →
        (∀ x y, k x y gL = tE gL (k x y g)) →
        (match evalE E P' f (renE a) gL (mkL n g l0) with
          | .val x ga =>
            match evalE E P' f (renE b) ga (mkL n g l0) with
            | .val y gb => k x y gb
            | r => r
          | r => r) =
        tE gL (match evalE E P f a g lG with
          | .val x ga =>
            match evalE E P f b ga lG with
            | .val y gb => k x y gb
            | r => r
          | r => r) := by
      intro a b k hca hcb hk
      rw [ih a g lG gL l0 hca]
      rcases evalE_cases (E := E) P f a g lG hca with ⟨x, hx⟩ | hx | hx | hx
      · simp only [hx, tE]
        rw [ih b g lG gL l0 hcb]
        rcases evalE_cases (E := E) P f b g lG hcb with ⟨y, hy⟩ | hy | hy | hy
        · simp only [hy, tE]; exact hk x y
        · simp only [hy, tE]
        · simp only [hy, tE]
        · simp only [hy, tE]
      · simp only [hx, tE]
      · simp only [hx, tE]
      · simp only [hx, tE]
    have b1 : ∀ (a : Ex) (k k' : V → (Nat → V) → ERes V), g2E n a = true →
        (∀ x, k' x gL = tE gL (k x g)) →
        (match evalE E P' f (renE a) gL (mkL n g l0) with
          | .val x ga => k' x ga
          | r => r) =
        tE gL (match evalE E P f a g lG with
          | .val x ga => k x ga
          | r => r) := by
      intro a k k' hca hk
      rw [ih a g lG gL l0 hca]
      rcases evalE_cases (E := E) P f a g lG hca with ⟨x, hx⟩ | hx | hx | hx
      · simp only [hx, tE]; exact hk x
      · simp only [hx, tE]
      · simp only [hx, tE]
      · simp only [hx, tE]
    cases e with
    | lit k => simp only [renE, evalE, tE]
    | tru => simp only [renE, evalE, tE]
    | fls => simp only [renE, evalE, tE]
    | undef => simp only [renE, evalE, tE]
    | glob i =>
      simp only [g2E, decide_eq_true_eq] at hc
      simp only [renE, evalE, tE, mkL_lt g l0 hc]
    | loc i => simp only [g2E] at hc; cases hc
    | call fe args => simp only [g2E] at hc; cases hc
    | bin tok a b =>
      simp only [g2E, Bool.and_eq_true] at hc
      simp only [renE, evalE]
      refine b2 a b (fun x y g2 => match E.S.binop tok x y with | some v => .val v g2 | none => .err) hc.1 hc.2
        (fun x y => ?_)
      cases E.S.binop tok x y <;> simp only [tE]
    | eq a b =>
      simp only [g2E, Bool.and_eq_true] at hc
      simp only [renE, evalE]
      exact b2 a b (fun x y g2 => .val (E.S.ofBool (E.S.eqv x y)) g2) hc.1 hc.2 (fun x y => by simp only [tE])
    | ne a b =>
      simp only [g2E, Bool.and_eq_true] at hc
      simp only [renE, evalE]
      exact b2 a b (fun x y g2 => .val (E.S.ofBool (!E.S.eqv x y)) g2) hc.1 hc.2 (fun x y => by simp only [tE])
    | neg a =>
      simp only [g2E] at hc
      simp only [renE, evalE]
      refine b1 a (fun x ga => match E.S.neg x with | some v => .val v ga | none => .err)
        (fun x ga => match E.S.neg x with | some v => .val v ga | none => .err) hc (fun x => ?_)
      cases E.S.neg x <;> simp only [tE]
    | bnot a =>
      simp only [g2E] at hc
      simp only [renE, evalE]
      refine b1 a (fun x ga => match E.S.bnot x with | some v => .val v ga | none => .err)
        (fun x ga => match E.S.bnot x with | some v => .val v ga | none => .err) hc (fun x => ?_)
      cases E.S.bnot x <;> simp only [tE]
    | lnot a =>
      simp only [g2E] at hc
      simp only [renE, evalE]
      exact b1 a (fun x ga => .val (E.S.ofBool (E.S.falsy x)) ga) (fun x ga => .val (E.S.ofBool (E.S.falsy x)) ga) hc
        (fun x => by simp only [tE])
    | plus a =>
      simp only [g2E] at hc
      simp only [renE, evalE]
      exact ih a g lG gL l0 hc
    | cond c t e =>
      simp only [g2E, Bool.and_eq_true] at hc
      simp only [renE, evalE]
      refine b1 c (fun x ga => if E.S.falsy x then evalE E P f e ga lG else evalE E P f t ga lG)
        (fun x ga => if E.S.falsy x then evalE E P' f (renE e) ga (mkL n g l0)
          else evalE E P' f (renE t) ga (mkL n g l0)) hc.1.1 (fun x => ?_)
      by_cases hfa : E.S.falsy x = true
      · simp only [hfa, if_true]; exact ih e g lG gL l0 hc.2
      · simp only [hfa, Bool.false_eq_true, if_false]; exact ih t g lG gL l0 hc.1.2
    | land a b =>
      simp only [g2E, Bool.and_eq_true] at hc
      simp only [renE, evalE]
      refine b1 a (fun x ga => if E.S.falsy x then .val x ga else evalE E P f b ga lG)
        (fun x ga => if E.S.falsy x then .val x ga else evalE E P' f (renE b) ga (mkL n g l0)) hc.1 (fun x => ?_)
      by_cases hfa : E.S.falsy x = true
      · simp only [hfa, if_true, tE]
      · simp only [hfa, Bool.false_eq_true, if_false]; exact ih b g lG gL l0 hc.2
    | lor a b =>
      simp only [g2E, Bool.and_eq_true] at hc
      simp only [renE, evalE]
      refine b1 a (fun x ga => if E.S.falsy x then evalE E P f b ga lG else .val x ga)
        (fun x ga => if E.S.falsy x then evalE E P' f (renE b) ga (mkL n g l0) else .val x ga) hc.1 (fun x => ?_)
      by_cases hfa : E.S.falsy x = true
      · simp only [hfa, if_true]; exact ih b g lG gL l0 hc.2
      · simp only [hfa, Bool.false_eq_true, if_false, tE]

end
end Tengo.Proofs.C11Place

import Tengo.Model.HeapCopy
import Tengo.Props.C09
/-!
C10 over the heap model — reachability, and: everything reachable from a copy is newly allocated.
-/
namespace Tengo.Proofs.C10Heap
open Tengo.Model.Heap9 Tengo.Model.HeapCopy Tengo.Props.C09

/-- `Reach h v c`: cell `c` can be reached from value `v` — the object a reference points to, the store of a
container, and whatever its elements / the payload of an error value reach. -/
inductive Reach (h : Heap) : Val → Cell → Prop
  | obj {r : Nat} : r < h.objs.length → Reach h (.ref r) (.obj r)
  | arrStore {r s off len cap : Nat} {m : Bool} : h.obj r = Obj.arr m s off len cap → Reach h (.ref r) (.arr s)
  | arrElem {r s off len cap : Nat} {m : Bool} {x : Val} {c : Cell} : h.obj r = Obj.arr m s off len cap →
      x ∈ h.content s off len → Reach h x c → Reach h (.ref r) c
  | mapStore {r s : Nat} {m : Bool} : h.obj r = Obj.map m s → Reach h (.ref r) (.map s)
  | mapElem {r s : Nat} {m : Bool} {x : Val} {c : Cell} : h.obj r = Obj.map m s →
      x ∈ (h.mstore s).map Prod.snd → Reach h x c → Reach h (.ref r) c
  | errPayload {r : Nat} {p : Val} {c : Cell} : h.obj r = Obj.err p → Reach h p c → Reach h (.ref r) c

/-- Allocated after `h`. -/
def IsNew (h : Heap) : Cell → Prop
  | .obj r => h.objs.length ≤ r
  | .arr s => h.astores.length ≤ s
  | .map s => h.mstores.length ≤ s

/-- A scalar, or a reference to an object allocated after `h`. -/
def NewVal (h : Heap) (v : Val) : Prop := ∀ r, v = .ref r → h.objs.length ≤ r

/-- A scalar, or a reference to an object of `h`. -/
def OldVal (h : Heap) (v : Val) : Prop := ∀ r, v = .ref r → r < h.objs.length

/-- What `Copy` allocates: mutable containers over new stores, error values with new payloads. -/
def FreshObj (h : Heap) : Obj → Prop
  | .arr mu s _ _ _ => mu = true ∧ h.astores.length ≤ s
  | .map mu s => mu = true ∧ h.mstores.length ≤ s
  | .err p => NewVal h p
  | .dead => False

/-- `h'` is `h` plus a closed world of new cells: nothing old is modified (`Ext`), every new object is a mutable
container over a new store or an error value, and new stores / payloads hold scalars and new references only. -/
structure Grow (h h' : Heap) : Prop where
  ext : Ext h h'
  olen : h.objs.length ≤ h'.objs.length
  alen : h.astores.length ≤ h'.astores.length
  mlen : h.mstores.length ≤ h'.mstores.length
  newObj : ∀ (r : Nat) (o : Obj), h.objs.length ≤ r → h'.objs[r]? = some o → FreshObj h o
  newA : ∀ (s : Nat) (st : List Val), h.astores.length ≤ s → h'.astores[s]? = some st → ∀ x ∈ st, NewVal h x
  newM : ∀ (s : Nat) (kvs : List (String × Val)), h.mstores.length ≤ s → h'.mstores[s]? = some kvs →
    ∀ x ∈ kvs.map Prod.snd, NewVal h x

theorem none_of_le {α} {l : List α} {i : Nat} {x : α} (hl : l.length ≤ i) (e : l[i]? = some x) : False := by
  rw [List.getElem?_eq_none hl] at e; cases e

theorem Grow.refl (h : Heap) : Grow h h :=
  ⟨Ext.refl h, Nat.le_refl _, Nat.le_refl _, Nat.le_refl _,
   fun _ _ hl e => (none_of_le hl e).elim, fun _ _ hl e => (none_of_le hl e).elim, fun _ _ hl e => (none_of_le hl e).elim⟩

theorem newVal_scalar_or {h : Heap} {v : Val} (hv : ∀ r, v ≠ .ref r) : NewVal h v := fun r e => absurd e (hv r)

theorem grow_newArr {h0 h1 : Heap} (g : Grow h0 h1) {cs : List Val} (hc : ∀ x ∈ cs, NewVal h0 x) (cap : Nat) :
    Grow h0 (h1.newArr true cs cap).1 := by
  refine ⟨Ext.trans g.ext (ext_newArr _ _ _ _), ?_, ?_, ?_, ?_, ?_, ?_⟩
  · have := g.olen; simp [Heap.newArr]; omega
  · have := g.alen; simp [Heap.newArr]; omega
  · exact g.mlen
  · intro r o hl e
    simp only [Heap.newArr] at e
    rcases getElem?_append_one _ _ _ e with e | ⟨_, e⟩
    · exact g.newObj r o hl e
    · subst e; exact ⟨rfl, g.alen⟩
  · intro s st hl e
    simp only [Heap.newArr] at e
    rcases getElem?_append_one _ _ _ e with e | ⟨_, e⟩
    · exact g.newA s st hl e
    · subst e
      intro x hx
      rcases List.mem_append.mp hx with hx | hx
      · exact hc x hx
      · rw [List.mem_replicate] at hx; intro r er; rw [hx.2] at er; cases er
  · intro s kvs hl e; exact g.newM s kvs hl e

theorem grow_newMap {h0 h1 : Heap} (g : Grow h0 h1) {kvs : List (String × Val)}
    (hc : ∀ x ∈ kvs.map Prod.snd, NewVal h0 x) : Grow h0 (h1.newMap true kvs).1 := by
  refine ⟨Ext.trans g.ext (ext_newMap _ _ _), ?_, ?_, ?_, ?_, ?_, ?_⟩
  · have := g.olen; simp [Heap.newMap]; omega
  · exact g.alen
  · have := g.mlen; simp [Heap.newMap]; omega
  · intro r o hl e
    simp only [Heap.newMap] at e
    rcases getElem?_append_one _ _ _ e with e | ⟨_, e⟩
    · exact g.newObj r o hl e
    · subst e; exact ⟨rfl, g.mlen⟩
  · intro s st hl e; exact g.newA s st hl e
  · intro s st hl e
    simp only [Heap.newMap] at e
    rcases getElem?_append_one _ _ _ e with e | ⟨_, e⟩
    · exact g.newM s st hl e
    · subst e; exact hc

theorem grow_allocErr {h0 h1 : Heap} (g : Grow h0 h1) {p : Val} (hp : NewVal h0 p) :
    Grow h0 (h1.allocObj (.err p)).1 := by
  refine ⟨Ext.trans g.ext (ext_allocObj _ _), ?_, g.alen, g.mlen, ?_, ?_, ?_⟩
  · have := g.olen; simp [Heap.allocObj]; omega
  · intro r o hl e
    simp only [Heap.allocObj] at e
    rcases getElem?_append_one _ _ _ e with e | ⟨_, e⟩
    · exact g.newObj r o hl e
    · subst e; exact hp
  · intro s st hl e; exact g.newA s st hl e
  · intro s st hl e; exact g.newM s st hl e

/-- Result of copying `v`: the same scalar, or a reference to an object allocated after `h0`. -/
def CopyRel (h0 : Heap) (v v' : Val) : Prop :=
  (∀ r, v ≠ .ref r) ∧ v' = v ∨ (∃ r r', v = .ref r ∧ v' = .ref r' ∧ h0.objs.length ≤ r')

theorem CopyRel.newVal {h0 : Heap} {v v' : Val} (c : CopyRel h0 v v') : NewVal h0 v' := by
  rcases c with ⟨hs, rfl⟩ | ⟨r, r', _, rfl, hl⟩
  · exact newVal_scalar_or hs
  · intro q e; cases e; exact hl

theorem foldVals_copy_grow {n : Nat} {h0 : Heap}
    (ih : ∀ (h : Heap) (caps : List Nat) (v : Val) (h' : Heap) (caps' : List Nat) (v' : Val),
      copyN n h caps v = some (h', caps', v') → Grow h0 h → Grow h0 h' ∧ CopyRel h0 v v') :
    ∀ (vs : List Val) (h : Heap) (caps : List Nat) (h' : Heap) (caps' : List Nat) (cs : List Val),
      foldVals (copyN n) h caps vs = some (h', caps', cs) → Grow h0 h →
      Grow h0 h' ∧ cs.length = vs.length ∧ (∀ x ∈ cs, NewVal h0 x) ∧
      ∀ (i : Nat) (c v : Val), cs[i]? = some c → vs[i]? = some v → CopyRel h0 v c := by
  intro vs
  induction vs with
  | nil =>
    intro h caps h' caps' cs e g
    simp [foldVals] at e
    obtain ⟨e1, _, e3⟩ := e
    subst e1 e3
    exact ⟨g, rfl, (fun x hx => by cases hx), (fun i c v hc => by simp at hc)⟩
  | cons v vs ihl =>
    intro h caps h' caps' cs e g
    unfold foldVals at e
    split at e
    · cases e
    · rename_i h1 c1 v1 e1
      split at e
      · cases e
      · rename_i h2 c2 vs2 e2
        injection e with e; injection e with e3 e4; injection e4 with e4 e5
        subst e3 e4 e5
        obtain ⟨g1, r1⟩ := ih _ _ _ _ _ _ e1 g
        obtain ⟨g2, l2, n2, p2⟩ := ihl _ _ _ _ _ e2 g1
        refine ⟨g2, by simp [l2], ?_, ?_⟩
        · intro x hx
          rcases List.mem_cons.mp hx with rfl | hx
          · exact r1.newVal
          · exact n2 x hx
        · intro i c w hc hw
          cases i with
          | zero => simp at hc hw; subst hc hw; exact r1
          | succ i => simp at hc hw; exact p2 i c w hc hw

/-- `Copy` only adds a closed world of new cells, and hands out a scalar or a new reference. -/
theorem copyN_grow (h0 : Heap) : ∀ (n : Nat) (h : Heap) (caps : List Nat) (v : Val) (h' : Heap) (caps' : List Nat) (v' : Val),
    copyN n h caps v = some (h', caps', v') → Grow h0 h → Grow h0 h' ∧ CopyRel h0 v v' := by
  intro n
  induction n with
  | zero => intro h caps v h' caps' v' e; simp [copyN] at e
  | succ n ih =>
    intro h caps v h' caps' v' e g
    unfold copyN at e
    split at e
    · rename_i r
      split at e
      · split at e
        · cases e
        · rename_i h1 caps1 cs ef
          injection e with e; injection e with e1 e2; injection e2 with e2 e3; subst e1 e2 e3
          obtain ⟨g1, _, n1, _⟩ := foldVals_copy_grow ih _ _ _ _ _ _ ef g
          exact ⟨grow_newArr g1 n1 _, .inr ⟨r, _, rfl, rfl, g1.olen⟩⟩
      · rename_i s heq
        split at e
        · cases e
        · rename_i h1 caps1 cs ef
          injection e with e; injection e with e1 e2; injection e2 with e2 e3; subst e1 e2 e3
          obtain ⟨g1, l1, n1, _⟩ := foldVals_copy_grow ih _ _ _ _ _ _ ef g
          refine ⟨grow_newMap g1 ?_, .inr ⟨r, _, rfl, rfl, g1.olen⟩⟩
          rw [zip_snd _ _ (by simp at l1; simp [l1])]
          exact n1
      · split at e
        · cases e
        · rename_i h1 caps1 p' ep
          injection e with e; injection e with e1 e2; injection e2 with e2 e3; subst e1 e2 e3
          obtain ⟨g1, r1⟩ := ih _ _ _ _ _ _ ep g
          exact ⟨grow_allocErr g1 r1.newVal, .inr ⟨r, _, rfl, rfl, g1.olen⟩⟩
      · cases e
    · rename_i hnr
      injection e with e; injection e with e1 e2; injection e2 with e2 e3; subst e1 e2 e3
      exact ⟨g, .inl ⟨hnr, rfl⟩⟩

/-! ### Reachability from new and from old values -/

theorem mem_content {h : Heap} {s off len : Nat} {x : Val} (hx : x ∈ h.content s off len) :
    ∃ st, h.astores[s]? = some st ∧ x ∈ st := by
  unfold Heap.content Heap.astore at hx
  rw [List.getD_eq_getElem?_getD] at hx
  cases e : h.astores[s]? with
  | none => simp [e] at hx
  | some st =>
    simp only [e, Option.getD_some] at hx
    exact ⟨st, rfl, List.mem_of_mem_drop (List.mem_of_mem_take hx)⟩

theorem mem_mstore {h : Heap} {s : Nat} {x : Val} (hx : x ∈ (h.mstore s).map Prod.snd) :
    ∃ kvs, h.mstores[s]? = some kvs ∧ x ∈ kvs.map Prod.snd := by
  unfold Heap.mstore at hx
  rw [List.getD_eq_getElem?_getD] at hx
  cases e : h.mstores[s]? with
  | none => simp [e] at hx
  | some st =>
    simp only [e, Option.getD_some] at hx
    exact ⟨st, rfl, hx⟩

/-- Everything reachable from a new value in a grown heap is new. -/
theorem reach_new {h h' : Heap} (g : Grow h h') {v : Val} {c : Cell} (rc : Reach h' v c) (nv : NewVal h v) :
    IsNew h c := by
  induction rc with
  | obj _ => exact nv _ rfl
  | arrStore ho =>
    have := g.newObj _ _ (nv _ rfl) (obj_some ho (by simp))
    exact this.2
  | arrElem ho hx _ ih =>
    have f := g.newObj _ _ (nv _ rfl) (obj_some ho (by simp))
    obtain ⟨st, hs, hm⟩ := mem_content hx
    exact ih (g.newA _ _ f.2 hs _ hm)
  | mapStore ho =>
    have := g.newObj _ _ (nv _ rfl) (obj_some ho (by simp))
    exact this.2
  | mapElem ho hx _ ih =>
    have f := g.newObj _ _ (nv _ rfl) (obj_some ho (by simp))
    obtain ⟨st, hs, hm⟩ := mem_mstore hx
    exact ih (g.newM _ _ f.2 hs _ hm)
  | errPayload ho _ ih =>
    have f := g.newObj _ _ (nv _ rfl) (obj_some ho (by simp))
    exact ih f

/-- In a well-formed heap every reachable cell is allocated. -/
theorem reach_old {h : Heap} (c : Closed h) {v : Val} {x : Cell} (rc : Reach h v x) : ¬ IsNew h x := by
  induction rc with
  | obj hl => simp only [IsNew]; omega
  | arrStore ho =>
    obtain ⟨st, hs⟩ := closed_arr c (obj_some ho (by simp))
    have := lt_of_lookup hs
    simp only [IsNew]; omega
  | arrElem _ _ _ ih => exact ih
  | mapStore ho =>
    obtain ⟨st, hs⟩ := closed_map c (obj_some ho (by simp))
    have := lt_of_lookup hs
    simp only [IsNew]; omega
  | mapElem _ _ _ ih => exact ih
  | errPayload _ _ ih => exact ih

/-- No dangling references: every reference stored in a backing array, a Go map or an error value points to an
allocated object. -/
structure RefsOk (h : Heap) : Prop where
  arrs : ∀ st ∈ h.astores, ∀ x ∈ st, OldVal h x
  maps : ∀ kvs ∈ h.mstores, ∀ x ∈ kvs.map Prod.snd, OldVal h x
  errs : ∀ (p : Val), Obj.err p ∈ h.objs → OldVal h p

/-- Executable form of `OldVal` / `RefsOk`. -/
def oldValB (h : Heap) : Val → Bool
  | .ref r => decide (r < h.objs.length)
  | _ => true

def refsOkB (h : Heap) : Bool :=
  h.astores.all (fun st => st.all (oldValB h)) &&
  h.mstores.all (fun kvs => (kvs.map Prod.snd).all (oldValB h)) &&
  h.objs.all (fun o => match o with | .err p => oldValB h p | _ => true)

theorem oldVal_of_B {h : Heap} {v : Val} (e : oldValB h v = true) : OldVal h v := by
  intro r er; subst er; simpa [oldValB] using e

theorem refsOk_of_B {h : Heap} (e : refsOkB h = true) : RefsOk h := by
  simp only [refsOkB, Bool.and_eq_true, List.all_eq_true] at e
  obtain ⟨⟨e1, e2⟩, e3⟩ := e
  exact ⟨fun st hst x hx => oldVal_of_B (e1 st hst x hx), fun kvs hk x hx => oldVal_of_B (e2 kvs hk x hx),
    fun p hp => oldVal_of_B (e3 _ hp)⟩

theorem ext_obj_old {h h' : Heap} (e : Ext h h') {r : Nat} (hr : r < h.objs.length) : h'.obj r = h.obj r := by
  have h1 : h.objs[r]? = some h.objs[r] := List.getElem?_eq_getElem hr
  have h2 := e.objs _ _ h1
  simp [Heap.obj, List.getD_eq_getElem?_getD, h1, h2]

theorem ext_astore_old {h h' : Heap} (e : Ext h h') {s : Nat} {st : List Val} (hs : h.astores[s]? = some st) :
    h'.astore s = h.astore s := by
  have h2 := e.astores _ _ hs
  simp [Heap.astore, List.getD_eq_getElem?_getD, hs, h2]

theorem ext_mstore_old {h h' : Heap} (e : Ext h h') {s : Nat} {st : List (String × Val)} (hs : h.mstores[s]? = some st) :
    h'.mstore s = h.mstore s := by
  have h2 := e.mstores _ _ hs
  simp [Heap.mstore, List.getD_eq_getElem?_getD, hs, h2]

/-- What an old value reaches after the heap was extended is what it reached before. -/
theorem reach_ext_old {h h' : Heap} (e : Ext h h') (c : Closed h) (w : RefsOk h) {v : Val} {x : Cell}
    (rc : Reach h' v x) (ov : OldVal h v) : Reach h v x := by
  induction rc with
  | obj _ => exact .obj (ov _ rfl)
  | arrStore ho => rw [ext_obj_old e (ov _ rfl)] at ho; exact .arrStore ho
  | arrElem ho hx _ ih =>
    rename_i r s off len cap m y cc hr
    rw [ext_obj_old e (ov _ rfl)] at ho
    obtain ⟨st, hs⟩ := closed_arr c (obj_some ho (by simp))
    have hx' : y ∈ h.content s off len := by
      unfold Heap.content at hx ⊢; rw [ext_astore_old e hs] at hx; exact hx
    obtain ⟨st2, hs2, hm⟩ := mem_content hx'
    exact .arrElem ho hx' (ih (w.arrs _ (List.mem_of_getElem? hs2) _ hm))
  | mapStore ho => rw [ext_obj_old e (ov _ rfl)] at ho; exact .mapStore ho
  | mapElem ho hx _ ih =>
    rw [ext_obj_old e (ov _ rfl)] at ho
    obtain ⟨st, hs⟩ := closed_map c (obj_some ho (by simp))
    rw [ext_mstore_old e hs] at hx
    obtain ⟨st2, hs2, hm⟩ := mem_mstore hx
    exact .mapElem ho hx (ih (w.maps _ (List.mem_of_getElem? hs2) _ hm))
  | errPayload ho _ ih =>
    rw [ext_obj_old e (ov _ rfl)] at ho
    exact .errPayload ho (ih (w.errs _ (List.mem_of_getElem? (obj_some ho (by simp)))))

/-- Values stay reachable-as-before when the heap is extended (the other direction; no hypothesis on references). -/
theorem reach_mono {h h' : Heap} (e : Ext h h') (c : Closed h) {v : Val} {x : Cell} (rc : Reach h v x) : Reach h' v x := by
  induction rc with
  | obj hl =>
    have := e.objs _ _ (List.getElem?_eq_getElem hl)
    exact .obj (lt_of_lookup this)
  | arrStore ho => exact .arrStore (obj_of_some (e.objs _ _ (obj_some ho (by simp))))
  | arrElem ho hx _ ih =>
    obtain ⟨st, hs⟩ := closed_arr c (obj_some ho (by simp))
    refine .arrElem (obj_of_some (e.objs _ _ (obj_some ho (by simp)))) ?_ ih
    unfold Heap.content at hx ⊢; rw [ext_astore_old e hs]; exact hx
  | mapStore ho => exact .mapStore (obj_of_some (e.objs _ _ (obj_some ho (by simp))))
  | mapElem ho hx _ ih =>
    obtain ⟨st, hs⟩ := closed_map c (obj_some ho (by simp))
    refine .mapElem (obj_of_some (e.objs _ _ (obj_some ho (by simp)))) ?_ ih
    rw [ext_mstore_old e hs]; exact hx
  | errPayload ho _ ih => exact .errPayload (obj_of_some (e.objs _ _ (obj_some ho (by simp)))) ih

end Tengo.Proofs.C10Heap

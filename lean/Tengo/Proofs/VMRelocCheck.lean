import Tengo.Proofs.VMReloc
import Tengo.Model.RelocCheck
/-!
Soundness of the decidable relocation check (`Tengo.Model.VM.checkReloc`): a passed check gives `Reloc`,
and so corresponding runs of the whole-VM model from the initial configuration.
-/
set_option linter.unusedSectionVars false
set_option linter.unusedSimpArgs false
namespace Tengo.Model.VM
open Tengo.Model Tengo.Model.Spec Tengo.Model.Opcodes

def pmOf (tab : Nat → List (Nat × Nat)) : PosMap := fun idx p => (tab idx).lookup p

theorem withBodies_fn (code : Code) (b : Nat → Array UInt8) (idx : Nat) :
    (withBodies code b).fn idx = (code.fn idx).map (fun f => { f with insts := b idx }) := by
  unfold Code.fn withBodies
  by_cases h0 : idx = 0
  · subst h0; simp
  · have : (idx == 0) = false := by simp [h0]
    simp only [this, Array.getElem?_mapIdx]
    cases h : code.consts[idx - 1]? with
    | none => simp
    | some c =>
      cases c with
      | val v => simp
      | fn f r =>
        have : idx - 1 + 1 = idx := by omega
        simp [this]

theorem withBodies_consts (code : Code) (b : Nat → Array UInt8) (k : Nat) :
    ConstRel (code.consts[k]?) ((withBodies code b).consts[k]?) := by
  unfold withBodies
  simp only [Array.getElem?_mapIdx]
  cases h : code.consts[k]? with
  | none => simp [ConstRel]
  | some c => cases c <;> simp [ConstRel]

theorem fn_some_lt {code : Code} {idx : Nat} {f : Fn} (h : code.fn idx = some f) : idx < code.consts.size + 1 := by
  unfold Code.fn at h
  by_cases h0 : idx = 0
  · omega
  · have : (idx == 0) = false := by simp [h0]
    simp only [this] at h
    cases hc : code.consts[idx - 1]? with
    | none => simp [hc] at h
    | some c =>
      have := (Array.getElem?_eq_some_iff.mp hc).1
      omega

theorem fetchRelB_sound {pm : PosMap} {idx : Nat} {i i' : Fetched} (h : fetchRelB (pm idx) i i' = true) :
    FetchRel pm idx i i' := by
  unfold fetchRelB at h
  simp only [Bool.and_eq_true, beq_iff_eq] at h
  obtain ⟨⟨⟨h1, h2⟩, h3⟩, h4⟩ := h
  refine ⟨h1, h2, h3, ?_⟩
  by_cases hj : i.op ∈ jumpOps
  · have : jumpOpsB.contains i.op = true := by simpa [jumpOpsB, jumpOps] using hj
    rw [if_pos hj]; rw [if_pos this] at h4; simpa using h4
  · have : ¬ (jumpOpsB.contains i.op = true) := by simpa [jumpOpsB, jumpOps] using hj
    rw [if_neg hj]; rw [if_neg this] at h4; simpa using h4

theorem canFallB_of {op : Nat} (h : canFall op) : canFallB op = true := by
  unfold canFallB; simp [h.1, h.2.1, h.2.2]

/-- **Soundness of the relocation check.** -/
theorem checkReloc_sound (code : Code) (b : Nat → Array UInt8) (tab : Nat → List (Nat × Nat))
    (h : checkReloc code b tab = true) : Reloc code (withBodies code b) (pmOf tab) := by
  have hfn : ∀ idx f, code.fn idx = some f → checkFnReloc f (b idx) (tab idx) = true := by
    intro idx f hf
    unfold checkReloc at h
    rw [List.all_eq_true] at h
    have := h idx (List.mem_range.mpr (fn_some_lt hf))
    simpa [hf] using this
  have hpair : ∀ idx f p q, code.fn idx = some f → pmOf tab idx p = some q →
      p < f.insts.size ∧ q < (b idx).size ∧
      fetchRelB (pmOf tab idx) (fetch f p) (fetch { f with insts := b idx } q) = true ∧
      (canFallB (fetch f p).op = true → pmOf tab idx (p + (fetch f p).size) = some (q + (fetch f p).size)) := by
    intro idx f p q hf hpq
    have hc := hfn idx f hf
    unfold checkFnReloc at hc
    simp only [Bool.and_eq_true, List.all_eq_true] at hc
    have hmem : (p, q) ∈ tab idx := by
      obtain ⟨l1, l2, he, _⟩ := List.lookup_eq_some_iff.mp hpq
      rw [he]; simp
    have := hc.2 (p, q) hmem
    simp only [Bool.and_eq_true, decide_eq_true_eq, Bool.or_eq_true, Bool.not_eq_true', beq_iff_eq] at this
    obtain ⟨⟨⟨h1, h2⟩, h3⟩, h4⟩ := this
    refine ⟨h1, h2, h3, ?_⟩
    intro hcf
    rcases h4 with h4 | h4
    · rw [hcf] at h4; cases h4
    · exact h4
  refine ⟨withBodies_consts code b, ?_, ?_, ?_, ?_, ?_⟩
  · intro idx f hf
    exact ⟨{ f with insts := b idx }, by rw [withBodies_fn, hf]; rfl, rfl, rfl, rfl⟩
  · intro idx hf
    rw [withBodies_fn, hf]; rfl
  · intro idx f hf
    have hc := hfn idx f hf
    unfold checkFnReloc at hc
    simp only [Bool.and_eq_true, beq_iff_eq] at hc
    exact hc.1
  · intro idx f f' p q hf hf' hpq
    rw [withBodies_fn, hf] at hf'
    simp only [Option.map_some, Option.some.injEq] at hf'
    subst hf'
    obtain ⟨h1, h2, h3, _⟩ := hpair idx f p q hf hpq
    exact ⟨h1, h2, fetchRelB_sound h3⟩
  · intro idx f p q hf hpq hcf
    exact (hpair idx f p q hf hpq).2.2.2 (canFallB_of hcf)

end Tengo.Model.VM

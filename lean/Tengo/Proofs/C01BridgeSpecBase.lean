import Tengo.Proofs.C01BridgeSem
import Tengo.Proofs.C01BridgeDefs
import Tengo.Model.SpecEval
/-!
C01 bridge, reference-interpreter side, layer 0: running the interpreter's monad `EM` (`EOk`, `EErr`), and
the variables of the fragment in the interpreter: every global slot is a named heap cell (`EnvOK`,
`HeapOK`, `readVar_ok`, `writeVar_ok`).
-/
set_option linter.unusedVariables false
set_option linter.unusedSimpArgs false
namespace Tengo.Proofs.C01Bridge
open Tengo.Model Tengo.Model.Spec Tengo.Model.F0

/-! ### running the reference interpreter's monad -/

/-- `x` succeeds with `a`, leaves the declaration-site table alone and turns heap `σ` into `σ'`. -/
def EOk {α : Type} (x : EM α) (gs : GSt) (σ : St) (a : α) (σ' : St) : Prop := x gs σ = .ok ((a, gs), σ')
/-- `x` fails with error `e`. -/
def EErr {α : Type} (x : EM α) (gs : GSt) (σ : St) (e : Err) : Prop := x gs σ = .error e

theorem EOk.pure {α : Type} (a : α) (gs : GSt) (σ : St) : EOk (Pure.pure a : EM α) gs σ a σ := rfl

theorem em_bind {α β : Type} (x : EM α) (f : α → EM β) (gs : GSt) (σ : St) :
    (x >>= f) gs σ =
      match x gs σ with
      | .ok ((a, gs'), σ') => f a gs' σ'
      | .error e => .error e := by
  show (StateT.bind x f) gs σ = _
  unfold StateT.bind
  show (StateT.bind (x gs) _) σ = _
  unfold StateT.bind
  simp only [bind, Except.bind]
  cases x gs σ with
  | error e => rfl
  | ok p => obtain ⟨⟨a, gs'⟩, σ'⟩ := p; rfl

theorem EOk.bind {α β : Type} {x : EM α} {f : α → EM β} {gs : GSt} {σ σ1 σ2 : St} {a : α} {b : β}
    (h1 : EOk x gs σ a σ1) (h2 : EOk (f a) gs σ1 b σ2) : EOk (x >>= f) gs σ b σ2 := by
  unfold EOk at *
  rw [em_bind, h1]; exact h2

theorem EErr.bind_left {α β : Type} {x : EM α} {f : α → EM β} {gs : GSt} {σ : St} {e : Err}
    (h1 : EErr x gs σ e) : EErr (x >>= f) gs σ e := by
  unfold EErr at *
  rw [em_bind, h1]

theorem EErr.bind_right {α β : Type} {x : EM α} {f : α → EM β} {gs : GSt} {σ σ1 : St} {a : α} {e : Err}
    (h1 : EOk x gs σ a σ1) (h2 : EErr (f a) gs σ1 e) : EErr (x >>= f) gs σ e := by
  unfold EOk EErr at *
  rw [em_bind, h1]; exact h2

theorem EOk.lift {α : Type} {m : M α} {gs : GSt} {σ σ' : St} {a : α} (hm : m σ = .ok (a, σ')) :
    EOk (Spec.liftM m) gs σ a σ' := by
  unfold EOk Spec.liftM
  show (StateT.lift m gs) σ = _
  unfold StateT.lift
  show (StateT.bind m _) σ = _
  unfold StateT.bind
  simp only [hm, bind, Except.bind]
  rfl

theorem EErr.lift {α : Type} {m : M α} {gs : GSt} {σ : St} {e : Err} (hm : m σ = .error e) :
    EErr (Spec.liftM m) gs σ e := by
  unfold EErr Spec.liftM
  show (StateT.lift m gs) σ = _
  unfold StateT.lift
  show (StateT.bind m _) σ = _
  unfold StateT.bind
  simp only [hm, bind, Except.bind]


/-! ### variables of the fragment in the interpreter: one heap cell per global slot -/

/-- Every slot name resolves to its cell. -/
def EnvOK (names : Nat → String) (n : Nat) (cells : Nat → Nat) (env : Env) : Prop :=
  ∀ i, i < n → lookupVar env (names i) = some (cells i)

theorem EnvOK.push {names : Nat → String} {n : Nat} {cells : Nat → Nat} {env : Env}
    (h : EnvOK names n cells env) : EnvOK names n cells ({ vars := [] } :: env) := by
  intro i hi
  have := h i hi
  simpa [lookupVar, List.findSome?, List.lookup] using this

/-- The cells are distinct and hold the globals `g`. -/
structure HeapOK (n : Nat) (cells : Nat → Nat) (g : Nat → SV) (σ : St) : Prop where
  inj : ∀ i j, i < n → j < n → cells i = cells j → i = j
  cell : ∀ i, i < n → ∃ b, σ.heap[cells i]? = some (.cell (g i).1 b)

theorem getObj_run {r : Nat} {σ : St} {o : Obj} (h : σ.heap[r]? = some o) : getObj r σ = .ok (o, σ) := by
  show (do let s ← get; match s.heap[r]? with | some o => pure o | none => throw (Err.unsupported "dangling reference") : M Obj) σ = _
  show (StateT.bind get _) σ = _
  unfold StateT.bind
  show (match σ.heap[r]? with | some o => (pure o : M Obj) | none => throw (Err.unsupported "dangling reference")) σ = _
  rw [h]; rfl

theorem setObj_run (r : Nat) (o : Obj) (σ : St) :
    setObj r o σ = .ok ((), { σ with heap := σ.heap.setIfInBounds r o }) := rfl

section vars
variable {names : Nat → String} {n : Nat} {cells : Nat → Nat}

theorem readVar_ok {env : Env} {g : Nat → SV} {σ : St} (he : EnvOK names n cells env) (hh : HeapOK n cells g σ)
    {i : Nat} (hi : i < n) (gs : GSt) : EOk (readVar env (names i)) gs σ (g i).1 σ := by
  obtain ⟨b, hb⟩ := hh.cell i hi
  unfold readVar
  rw [he i hi]
  exact EOk.bind (EOk.lift (getObj_run hb)) (EOk.pure _ gs σ)

theorem writeVar_ok {env : Env} {g : Nat → SV} {σ : St} (he : EnvOK names n cells env) (hh : HeapOK n cells g σ)
    {i : Nat} (hi : i < n) (v : SV) (gs : GSt) :
    ∃ σ', EOk (writeVar env (names i) v.1) gs σ () σ' ∧ HeapOK n cells (upd g i v) σ' := by
  refine ⟨{ σ with heap := σ.heap.setIfInBounds (cells i) (.cell v.1 false) }, ?_, hh.inj, ?_⟩
  · unfold writeVar
    rw [he i hi]
    exact EOk.lift (setObj_run _ _ _)
  · intro j hj
    obtain ⟨b, hb⟩ := hh.cell j hj
    obtain ⟨bi, hbi⟩ := hh.cell i hi
    have hlt : cells i < σ.heap.size := by
      rcases Nat.lt_or_ge (cells i) σ.heap.size with h | h
      · exact h
      · rw [Array.getElem?_eq_none h] at hbi; cases hbi
    by_cases hji : j = i
    · subst hji
      exact ⟨false, by simp [F0.upd, Array.getElem?_setIfInBounds, hlt]⟩
    · have hne : cells i ≠ cells j := fun e => hji (hh.inj j i hj hi e.symm)
      refine ⟨b, ?_⟩
      simp only [F0.upd, hji, if_false, Array.getElem?_setIfInBounds, hne]
      exact hb

end vars

end Tengo.Proofs.C01Bridge

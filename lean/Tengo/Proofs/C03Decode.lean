import Tengo.Proofs.C03Basic
/-!
C03 helper lemmas, part 5: what `decode` guarantees — consecutive positions (`Layout 0`), total size
equal to the byte length, one operand on every jump opcode.
-/
namespace Tengo.Proofs.C03
open Tengo.Model Tengo.Model.Opcodes Tengo.Model.Optimizer

theorem readOperands_some : ∀ {ws : List Nat} {bs : Bytes} {args : List Nat} {rest : Bytes},
    readOperands ws bs = some (args, rest) →
    args.length = ws.length ∧ bs.length = ws.sum + rest.length := by
  intro ws
  induction ws with
  | nil =>
    intro bs args rest h
    simp only [readOperands, Option.some.injEq, Prod.mk.injEq] at h
    simp [← h.1, h.2]
  | cons w ws ih =>
    intro bs args rest h
    simp only [readOperands] at h
    split at h
    · cases h
    · rename_i hlt
      split at h
      · cases h
      · rename_i vs r' hr
        simp only [Option.some.injEq, Prod.mk.injEq] at h
        obtain ⟨h1, h2⟩ := ih hr
        rw [← h.1, ← h.2]
        simp only [List.length_cons, List.sum_cons, List.length_drop] at h2 ⊢
        omega

theorem decodeFuel_some : ∀ (f pos : Nat) (bs : Bytes) (is : List Instr),
    decodeFuel f pos bs = some is →
    Layout pos is ∧ totalSize is = bs.length ∧
      ∀ i ∈ is, i.args.length = ((widths i.op).getD []).length := by
  intro f
  induction f with
  | zero =>
    intro pos bs is h
    cases bs with
    | nil => simp only [decodeFuel, Option.some.injEq] at h; subst h; simp [Layout]
    | cons b rest => simp [decodeFuel] at h
  | succ f ih =>
    intro pos bs is h
    cases bs with
    | nil => simp only [decodeFuel, Option.some.injEq] at h; subst h; simp [Layout]
    | cons b rest =>
      simp only [decodeFuel] at h
      split at h
      · cases h
      · rename_i ws hws
        split at h
        · cases h
        · rename_i args rest' hro
          split at h
          · cases h
          · rename_i tl htl
            simp only [Option.some.injEq] at h
            subst h
            obtain ⟨h1, h2, h3⟩ := ih _ _ _ htl
            obtain ⟨ha, hb⟩ := readOperands_some hro
            have hsz : Instr.size { pos := pos, op := b.toNat, args := args } = 1 + ws.sum := by
              simp [Instr.size, hws]
            refine ⟨⟨rfl, ?_⟩, ?_, ?_⟩
            · rw [hsz, ← Nat.add_assoc]; exact h1
            · rw [totalSize_cons, hsz, h2]; simp only [List.length_cons]; omega
            · intro i hi
              rcases List.mem_cons.mp hi with rfl | hi
              · simp [hws, ha]
              · exact h3 i hi

theorem widths_jump {op : Nat} (h : isJump op = true) : widths op = some [4] := by
  simp only [isJump, Bool.or_eq_true, beq_iff_eq] at h
  rcases h with ((h | h) | h) | h <;> subst h <;> rfl

theorem decode_layout {bs : Bytes} {is : List Instr} (h : decode bs = some is) : Layout 0 is :=
  (decodeFuel_some _ _ _ _ h).1

theorem decode_totalSize {bs : Bytes} {is : List Instr} (h : decode bs = some is) :
    totalSize is = bs.length := (decodeFuel_some _ _ _ _ h).2.1

theorem decode_oneOperand {bs : Bytes} {is : List Instr} (h : decode bs = some is) :
    OneOperand is := by
  intro i hi hj
  rw [(decodeFuel_some _ _ _ _ h).2.2 i hi, widths_jump hj]
  rfl

end Tengo.Proofs.C03

import Tengo.Model.Json
/-!
C18: the JSON grammar of RFC 8259 (as encoding/json reads it: any byte ≥ 0x20 other than `"` and `\`
may stand in a string, so UTF-8 well-formedness is not part of the grammar) as inductive predicates,
together with the value each text denotes for tengo's decoder.

`Val pf t v`: the byte string `t` is a JSON value (no surrounding white space) and denotes `v`.
`Json pf b v`: `b` is a JSON text (`ws value ws`) denoting `v`.  `Grammar.json b := ∃ v, Json pf b v`
does not depend on `pf` (which only supplies the float read from a number token).
-/
namespace Tengo.Proofs.JsonGrammar
open Tengo.Model.Json

/-- `ws = *( %x20 / %x09 / %x0A / %x0D )` -/
def WS (w : Bytes) : Prop := ∀ c ∈ w, isSpace c = true

theorem ws_nil : WS [] := by intro c hc; simp at hc

/-- What has been read of a number token. -/
inductive NPhase where
  | neg      -- "-"
  | zero     -- [ "-" ] "0"
  | int      -- [ "-" ] digit1-9 *DIGIT
  | dot      -- int "."
  | frac     -- int "." 1*DIGIT
  | e        -- int [ frac ] ("e" / "E")
  | esign    -- int [ frac ] ("e" / "E") ("+" / "-")
  | exp      -- int [ frac ] ("e" / "E") [ "+" / "-" ] 1*DIGIT
  deriving DecidableEq

/-- `NumRest p t`: after phase `p`, `t` completes a number:
`number = [ minus ] int [ frac ] [ exp ]`, `int = zero / ( digit1-9 *DIGIT )`, `frac = "." 1*DIGIT`,
`exp = e [ minus / plus ] 1*DIGIT` in right-linear form. -/
inductive NumRest : NPhase → Bytes → Prop where
  | zeroEnd : NumRest .zero []
  | intEnd : NumRest .int []
  | fracEnd : NumRest .frac []
  | expEnd : NumRest .exp []
  | negZero {t} : NumRest .zero t → NumRest .neg (0x30 :: t)
  | negInt {d t} : isDigit19 d = true → NumRest .int t → NumRest .neg (d :: t)
  | intDigit {d t} : isDigit d = true → NumRest .int t → NumRest .int (d :: t)
  | zeroDot {t} : NumRest .dot t → NumRest .zero (0x2E :: t)
  | intDot {t} : NumRest .dot t → NumRest .int (0x2E :: t)
  | zeroE {c t} : (c = 0x65 ∨ c = 0x45) → NumRest .e t → NumRest .zero (c :: t)
  | intE {c t} : (c = 0x65 ∨ c = 0x45) → NumRest .e t → NumRest .int (c :: t)
  | fracE {c t} : (c = 0x65 ∨ c = 0x45) → NumRest .e t → NumRest .frac (c :: t)
  | dotDigit {d t} : isDigit d = true → NumRest .frac t → NumRest .dot (d :: t)
  | fracDigit {d t} : isDigit d = true → NumRest .frac t → NumRest .frac (d :: t)
  | eSign {c t} : (c = 0x2B ∨ c = 0x2D) → NumRest .esign t → NumRest .e (c :: t)
  | eDigit {d t} : isDigit d = true → NumRest .exp t → NumRest .e (d :: t)
  | esignDigit {d t} : isDigit d = true → NumRest .exp t → NumRest .esign (d :: t)
  | expDigit {d t} : isDigit d = true → NumRest .exp t → NumRest .exp (d :: t)

/-- A number token. -/
inductive NumTok : Bytes → Prop where
  | neg {t} : NumRest .neg t → NumTok (0x2D :: t)
  | zero {t} : NumRest .zero t → NumTok (0x30 :: t)
  | int {d t} : isDigit19 d = true → NumRest .int t → NumTok (d :: t)

/-- The characters between the quotes of a string:
`char = unescaped / "\" ( %x22 / %x5C / %x2F / b / f / n / r / t / u 4HEXDIG )`. -/
inductive StrBody : Bytes → Prop where
  | nil : StrBody []
  | plain {c b} : ¬ c.toNat < 0x20 → c ≠ 0x22 → c ≠ 0x5C → StrBody b → StrBody (c :: b)
  | esc {e b} : isSimpleEsc e = true → StrBody b → StrBody (0x5C :: e :: b)
  | uni {h1 h2 h3 h4 b} : isHex h1 = true → isHex h2 = true → isHex h3 = true → isHex h4 = true → StrBody b →
      StrBody (0x5C :: 0x75 :: h1 :: h2 :: h3 :: h4 :: b)

def quote (b : Bytes) : Bytes := 0x22 :: b ++ [0x22]

/-- The string a string token denotes for the decoder. -/
def strDen (b : Bytes) : Bytes := (unquote (quote b)).getD []

mutual
  /-- `value = false / null / true / object / array / number / string` -/
  inductive Val (pf : Bytes → UInt64) : Bytes → J → Prop where
    | null : Val pf [0x6E, 0x75, 0x6C, 0x6C] .null
    | true : Val pf [0x74, 0x72, 0x75, 0x65] (.bool true)
    | false : Val pf [0x66, 0x61, 0x6C, 0x73, 0x65] (.bool false)
    | num {t} : NumTok t → Val pf t (number pf (t.any isFloatByte) t)
    | str {b} : StrBody b → Val pf (quote b) (.str (strDen b))
    | arrEmpty {w} : WS w → Val pf (0x5B :: w ++ [0x5D]) (.arr .nil)
    | arr {e xs} : Elems pf e xs → Val pf (0x5B :: e ++ [0x5D]) (.arr xs)
    | objEmpty {w} : WS w → Val pf (0x7B :: w ++ [0x7D]) (.obj .nil)
    | obj {m es} : Members pf m es → Val pf (0x7B :: m ++ [0x7D]) (.obj (insertAll es .nil))
  /-- `ws value ws *( "," ws value ws )` -/
  inductive Elems (pf : Bytes → UInt64) : Bytes → JList → Prop where
    | one {w1 t w2 v} : WS w1 → Val pf t v → WS w2 → Elems pf (w1 ++ t ++ w2) (.cons v .nil)
    | more {w1 t w2 v e xs} : WS w1 → Val pf t v → WS w2 → Elems pf e xs →
        Elems pf (w1 ++ t ++ w2 ++ 0x2C :: e) (.cons v xs)
  /-- `ws string ws ":" ws value ws *( "," … )`; the members in source order. -/
  inductive Members (pf : Bytes → UInt64) : Bytes → JMems → Prop where
    | one {w1 k w2 w3 t w4 v} : WS w1 → StrBody k → WS w2 → WS w3 → Val pf t v → WS w4 →
        Members pf (w1 ++ quote k ++ w2 ++ 0x3A :: w3 ++ t ++ w4) (.cons (strDen k) v .nil)
    | more {w1 k w2 w3 t w4 v m es} : WS w1 → StrBody k → WS w2 → WS w3 → Val pf t v → WS w4 → Members pf m es →
        Members pf (w1 ++ quote k ++ w2 ++ 0x3A :: w3 ++ t ++ w4 ++ 0x2C :: m) (.cons (strDen k) v es)
end

/-- `JSON-text = ws value ws` -/
def Json (pf : Bytes → UInt64) (b : Bytes) (v : J) : Prop :=
  ∃ w1 t w2, b = w1 ++ t ++ w2 ∧ WS w1 ∧ Val pf t v ∧ WS w2

/-- Simultaneous induction over `Val` / `Elems` / `Members` with derivation-independent motives. -/
theorem grammar_induction {pf : Bytes → UInt64} {P1 : Bytes → J → Prop} {P2 : Bytes → JList → Prop}
    {P3 : Bytes → JMems → Prop}
    (hnull : P1 [0x6E, 0x75, 0x6C, 0x6C] .null)
    (htrue : P1 [0x74, 0x72, 0x75, 0x65] (.bool true))
    (hfalse : P1 [0x66, 0x61, 0x6C, 0x73, 0x65] (.bool false))
    (hnum : ∀ {t}, NumTok t → P1 t (number pf (t.any isFloatByte) t))
    (hstr : ∀ {b}, StrBody b → P1 (quote b) (.str (strDen b)))
    (harrE : ∀ {w}, WS w → P1 (0x5B :: w ++ [0x5D]) (.arr .nil))
    (harr : ∀ {e xs}, Elems pf e xs → P2 e xs → P1 (0x5B :: e ++ [0x5D]) (.arr xs))
    (hobjE : ∀ {w}, WS w → P1 (0x7B :: w ++ [0x7D]) (.obj .nil))
    (hobj : ∀ {m es}, Members pf m es → P3 m es → P1 (0x7B :: m ++ [0x7D]) (.obj (insertAll es .nil)))
    (hone : ∀ {w1 t w2 v}, WS w1 → Val pf t v → WS w2 → P1 t v → P2 (w1 ++ t ++ w2) (.cons v .nil))
    (hmore : ∀ {w1 t w2 v e xs}, WS w1 → Val pf t v → WS w2 → Elems pf e xs → P1 t v → P2 e xs →
      P2 (w1 ++ t ++ w2 ++ 0x2C :: e) (.cons v xs))
    (hmone : ∀ {w1 k w2 w3 t w4 v}, WS w1 → StrBody k → WS w2 → WS w3 → Val pf t v → WS w4 → P1 t v →
      P3 (w1 ++ quote k ++ w2 ++ 0x3A :: w3 ++ t ++ w4) (.cons (strDen k) v .nil))
    (hmmore : ∀ {w1 k w2 w3 t w4 v m es}, WS w1 → StrBody k → WS w2 → WS w3 → Val pf t v → WS w4 → Members pf m es →
      P1 t v → P3 m es → P3 (w1 ++ quote k ++ w2 ++ 0x3A :: w3 ++ t ++ w4 ++ 0x2C :: m) (.cons (strDen k) v es)) :
    (∀ {t v}, Val pf t v → P1 t v) ∧ (∀ {e xs}, Elems pf e xs → P2 e xs) ∧ (∀ {m es}, Members pf m es → P3 m es) :=
  ⟨fun h => Val.rec (motive_1 := fun t v _ => P1 t v) (motive_2 := fun e xs _ => P2 e xs)
      (motive_3 := fun m es _ => P3 m es) hnull htrue hfalse hnum hstr harrE harr hobjE hobj hone hmore hmone hmmore h,
   fun h => Elems.rec (motive_1 := fun t v _ => P1 t v) (motive_2 := fun e xs _ => P2 e xs)
      (motive_3 := fun m es _ => P3 m es) hnull htrue hfalse hnum hstr harrE harr hobjE hobj hone hmore hmone hmmore h,
   fun h => Members.rec (motive_1 := fun t v _ => P1 t v) (motive_2 := fun e xs _ => P2 e xs)
      (motive_3 := fun m es _ => P3 m es) hnull htrue hfalse hnum hstr harrE harr hobjE hobj hone hmore hmone hmmore h⟩

end Tengo.Proofs.JsonGrammar

import Tengo.Model.Json
/-!
C18: the JSON grammar of RFC 8259 (as encoding/json reads it: any byte ≥ 0x20 other than `"` and `\`
may stand in a string, so UTF-8 well-formedness is not part of the grammar) as inductive predicates,
together with the value each text denotes for tengo's decoder.

`Val pf t v`: the byte string `t` is a JSON value (no surrounding white space) and denotes `v`.
`Json pf b v`: `b` is a JSON text (`ws value ws`) denoting `v`.  `Grammar.json b := ∃ v, Json pf b v`
does not depend on `pf` (which only supplies the float read from a number token).
`ValD pf n t v` / `JsonD pf n b v`: the same with arrays and objects nested at most `n` deep (the scanner
has the limit `maxNestingDepth`).
-/
namespace Tengo.Proofs.JsonGrammar
open Tengo.Model.Json

/-- `ws = *( %x20 / %x09 / %x0A / %x0D )` -/
def WS (w : Bytes) : Prop := ∀ c ∈ w, isSpace c = true

theorem ws_nil : WS [] := by intro c hc; simp at hc

/-- What has been read of a number token. -/
inductive NPhase where
  | neg      -- "-"
  | zero     -- [ "-" ] "0"
  | int      -- [ "-" ] digit1-9 *DIGIT
  | dot      -- int "."
  | frac     -- int "." 1*DIGIT
  | e        -- int [ frac ] ("e" / "E")
  | esign    -- int [ frac ] ("e" / "E") ("+" / "-")
  | exp      -- int [ frac ] ("e" / "E") [ "+" / "-" ] 1*DIGIT
  deriving DecidableEq

/-- `NumRest p t`: after phase `p`, `t` completes a number:
`number = [ minus ] int [ frac ] [ exp ]`, `int = zero / ( digit1-9 *DIGIT )`, `frac = "." 1*DIGIT`,
`exp = e [ minus / plus ] 1*DIGIT` in right-linear form. -/
inductive NumRest : NPhase → Bytes → Prop where
  | zeroEnd : NumRest .zero []
  | intEnd : NumRest .int []
  | fracEnd : NumRest .frac []
  | expEnd : NumRest .exp []
  | negZero {t} : NumRest .zero t → NumRest .neg (0x30 :: t)
  | negInt {d t} : isDigit19 d = true → NumRest .int t → NumRest .neg (d :: t)
  | intDigit {d t} : isDigit d = true → NumRest .int t → NumRest .int (d :: t)
  | zeroDot {t} : NumRest .dot t → NumRest .zero (0x2E :: t)
  | intDot {t} : NumRest .dot t → NumRest .int (0x2E :: t)
  | zeroE {c t} : (c = 0x65 ∨ c = 0x45) → NumRest .e t → NumRest .zero (c :: t)
  | intE {c t} : (c = 0x65 ∨ c = 0x45) → NumRest .e t → NumRest .int (c :: t)
  | fracE {c t} : (c = 0x65 ∨ c = 0x45) → NumRest .e t → NumRest .frac (c :: t)
  | dotDigit {d t} : isDigit d = true → NumRest .frac t → NumRest .dot (d :: t)
  | fracDigit {d t} : isDigit d = true → NumRest .frac t → NumRest .frac (d :: t)
  | eSign {c t} : (c = 0x2B ∨ c = 0x2D) → NumRest .esign t → NumRest .e (c :: t)
  | eDigit {d t} : isDigit d = true → NumRest .exp t → NumRest .e (d :: t)
  | esignDigit {d t} : isDigit d = true → NumRest .exp t → NumRest .esign (d :: t)
  | expDigit {d t} : isDigit d = true → NumRest .exp t → NumRest .exp (d :: t)

/-- A number token. -/
inductive NumTok : Bytes → Prop where
  | neg {t} : NumRest .neg t → NumTok (0x2D :: t)
  | zero {t} : NumRest .zero t → NumTok (0x30 :: t)
  | int {d t} : isDigit19 d = true → NumRest .int t → NumTok (d :: t)

/-- The characters between the quotes of a string:
`char = unescaped / "\" ( %x22 / %x5C / %x2F / b / f / n / r / t / u 4HEXDIG )`. -/
inductive StrBody : Bytes → Prop where
  | nil : StrBody []
  | plain {c b} : ¬ c.toNat < 0x20 → c ≠ 0x22 → c ≠ 0x5C → StrBody b → StrBody (c :: b)
  | esc {e b} : isSimpleEsc e = true → StrBody b → StrBody (0x5C :: e :: b)
  | uni {h1 h2 h3 h4 b} : isHex h1 = true → isHex h2 = true → isHex h3 = true → isHex h4 = true → StrBody b →
      StrBody (0x5C :: 0x75 :: h1 :: h2 :: h3 :: h4 :: b)

def quote (b : Bytes) : Bytes := 0x22 :: b ++ [0x22]

/-- The string a string token denotes for the decoder. -/
def strDen (b : Bytes) : Bytes := (unquote (quote b)).getD []

mutual
  /-- `value = false / null / true / object / array / number / string` -/
  inductive Val (pf : Bytes → UInt64) : Bytes → J → Prop where
    | null : Val pf [0x6E, 0x75, 0x6C, 0x6C] .null
    | true : Val pf [0x74, 0x72, 0x75, 0x65] (.bool true)
    | false : Val pf [0x66, 0x61, 0x6C, 0x73, 0x65] (.bool false)
    | num {t} : NumTok t → Val pf t (number pf (t.any isFloatByte) t)
    | str {b} : StrBody b → Val pf (quote b) (.str (strDen b))
    | arrEmpty {w} : WS w → Val pf (0x5B :: w ++ [0x5D]) (.arr .nil)
    | arr {e xs} : Elems pf e xs → Val pf (0x5B :: e ++ [0x5D]) (.arr xs)
    | objEmpty {w} : WS w → Val pf (0x7B :: w ++ [0x7D]) (.obj .nil)
    | obj {m es} : Members pf m es → Val pf (0x7B :: m ++ [0x7D]) (.obj (insertAll es .nil))
  /-- `ws value ws *( "," ws value ws )` -/
  inductive Elems (pf : Bytes → UInt64) : Bytes → JList → Prop where
    | one {w1 t w2 v} : WS w1 → Val pf t v → WS w2 → Elems pf (w1 ++ t ++ w2) (.cons v .nil)
    | more {w1 t w2 v e xs} : WS w1 → Val pf t v → WS w2 → Elems pf e xs →
        Elems pf (w1 ++ t ++ w2 ++ 0x2C :: e) (.cons v xs)
  /-- `ws string ws ":" ws value ws *( "," … )`; the members in source order. -/
  inductive Members (pf : Bytes → UInt64) : Bytes → JMems → Prop where
    | one {w1 k w2 w3 t w4 v} : WS w1 → StrBody k → WS w2 → WS w3 → Val pf t v → WS w4 →
        Members pf (w1 ++ quote k ++ w2 ++ 0x3A :: w3 ++ t ++ w4) (.cons (strDen k) v .nil)
    | more {w1 k w2 w3 t w4 v m es} : WS w1 → StrBody k → WS w2 → WS w3 → Val pf t v → WS w4 → Members pf m es →
        Members pf (w1 ++ quote k ++ w2 ++ 0x3A :: w3 ++ t ++ w4 ++ 0x2C :: m) (.cons (strDen k) v es)
end

/-- `JSON-text = ws value ws` -/
def Json (pf : Bytes → UInt64) (b : Bytes) (v : J) : Prop :=
  ∃ w1 t w2, b = w1 ++ t ++ w2 ∧ WS w1 ∧ Val pf t v ∧ WS w2

/-- Simultaneous induction over `Val` / `Elems` / `Members` with derivation-independent motives. -/
theorem grammar_induction {pf : Bytes → UInt64} {P1 : Bytes → J → Prop} {P2 : Bytes → JList → Prop}
    {P3 : Bytes → JMems → Prop}
    (hnull : P1 [0x6E, 0x75, 0x6C, 0x6C] .null)
    (htrue : P1 [0x74, 0x72, 0x75, 0x65] (.bool true))
    (hfalse : P1 [0x66, 0x61, 0x6C, 0x73, 0x65] (.bool false))
    (hnum : ∀ {t}, NumTok t → P1 t (number pf (t.any isFloatByte) t))
    (hstr : ∀ {b}, StrBody b → P1 (quote b) (.str (strDen b)))
    (harrE : ∀ {w}, WS w → P1 (0x5B :: w ++ [0x5D]) (.arr .nil))
    (harr : ∀ {e xs}, Elems pf e xs → P2 e xs → P1 (0x5B :: e ++ [0x5D]) (.arr xs))
    (hobjE : ∀ {w}, WS w → P1 (0x7B :: w ++ [0x7D]) (.obj .nil))
    (hobj : ∀ {m es}, Members pf m es → P3 m es → P1 (0x7B :: m ++ [0x7D]) (.obj (insertAll es .nil)))
    (hone : ∀ {w1 t w2 v}, WS w1 → Val pf t v → WS w2 → P1 t v → P2 (w1 ++ t ++ w2) (.cons v .nil))
    (hmore : ∀ {w1 t w2 v e xs}, WS w1 → Val pf t v → WS w2 → Elems pf e xs → P1 t v → P2 e xs →
      P2 (w1 ++ t ++ w2 ++ 0x2C :: e) (.cons v xs))
    (hmone : ∀ {w1 k w2 w3 t w4 v}, WS w1 → StrBody k → WS w2 → WS w3 → Val pf t v → WS w4 → P1 t v →
      P3 (w1 ++ quote k ++ w2 ++ 0x3A :: w3 ++ t ++ w4) (.cons (strDen k) v .nil))
    (hmmore : ∀ {w1 k w2 w3 t w4 v m es}, WS w1 → StrBody k → WS w2 → WS w3 → Val pf t v → WS w4 → Members pf m es →
      P1 t v → P3 m es → P3 (w1 ++ quote k ++ w2 ++ 0x3A :: w3 ++ t ++ w4 ++ 0x2C :: m) (.cons (strDen k) v es)) :
    (∀ {t v}, Val pf t v → P1 t v) ∧ (∀ {e xs}, Elems pf e xs → P2 e xs) ∧ (∀ {m es}, Members pf m es → P3 m es) :=
  ⟨fun h => Val.rec (motive_1 := fun t v _ => P1 t v) (motive_2 := fun e xs _ => P2 e xs)
      (motive_3 := fun m es _ => P3 m es) hnull htrue hfalse hnum hstr harrE harr hobjE hobj hone hmore hmone hmmore h,
   fun h => Elems.rec (motive_1 := fun t v _ => P1 t v) (motive_2 := fun e xs _ => P2 e xs)
      (motive_3 := fun m es _ => P3 m es) hnull htrue hfalse hnum hstr harrE harr hobjE hobj hone hmore hmone hmmore h,
   fun h => Members.rec (motive_1 := fun t v _ => P1 t v) (motive_2 := fun e xs _ => P2 e xs)
      (motive_3 := fun m es _ => P3 m es) hnull htrue hfalse hnum hstr harrE harr hobjE hobj hone hmore hmone hmmore h⟩

/-! ## The grammar with a bound on the nesting depth

`ValD pf n t v` is `Val pf t v` whose arrays and objects are nested at most `n` deep: a scalar has
depth 0, `[]` and `{}` depth 1, a non-empty array or object one more than its deepest element or member
value. The productions are those of `Val` / `Elems` / `Members`, one for one (`ValD.toVal`,
`Val.toD`); the index only counts the `[`/`{` levels (`ValD.mono`: it is an upper bound). -/

mutual
  inductive ValD (pf : Bytes → UInt64) : Nat → Bytes → J → Prop where
    | null {n} : ValD pf n [0x6E, 0x75, 0x6C, 0x6C] .null
    | true {n} : ValD pf n [0x74, 0x72, 0x75, 0x65] (.bool true)
    | false {n} : ValD pf n [0x66, 0x61, 0x6C, 0x73, 0x65] (.bool false)
    | num {n t} : NumTok t → ValD pf n t (number pf (t.any isFloatByte) t)
    | str {n b} : StrBody b → ValD pf n (quote b) (.str (strDen b))
    | arrEmpty {n w} : WS w → ValD pf (n + 1) (0x5B :: w ++ [0x5D]) (.arr .nil)
    | arr {n e xs} : ElemsD pf n e xs → ValD pf (n + 1) (0x5B :: e ++ [0x5D]) (.arr xs)
    | objEmpty {n w} : WS w → ValD pf (n + 1) (0x7B :: w ++ [0x7D]) (.obj .nil)
    | obj {n m es} : MembersD pf n m es → ValD pf (n + 1) (0x7B :: m ++ [0x7D]) (.obj (insertAll es .nil))
  inductive ElemsD (pf : Bytes → UInt64) : Nat → Bytes → JList → Prop where
    | one {n w1 t w2 v} : WS w1 → ValD pf n t v → WS w2 → ElemsD pf n (w1 ++ t ++ w2) (.cons v .nil)
    | more {n w1 t w2 v e xs} : WS w1 → ValD pf n t v → WS w2 → ElemsD pf n e xs →
        ElemsD pf n (w1 ++ t ++ w2 ++ 0x2C :: e) (.cons v xs)
  inductive MembersD (pf : Bytes → UInt64) : Nat → Bytes → JMems → Prop where
    | one {n w1 k w2 w3 t w4 v} : WS w1 → StrBody k → WS w2 → WS w3 → ValD pf n t v → WS w4 →
        MembersD pf n (w1 ++ quote k ++ w2 ++ 0x3A :: w3 ++ t ++ w4) (.cons (strDen k) v .nil)
    | more {n w1 k w2 w3 t w4 v m es} : WS w1 → StrBody k → WS w2 → WS w3 → ValD pf n t v → WS w4 → MembersD pf n m es →
        MembersD pf n (w1 ++ quote k ++ w2 ++ 0x3A :: w3 ++ t ++ w4 ++ 0x2C :: m) (.cons (strDen k) v es)
end

/-- `JSON-text = ws value ws` with nesting depth at most `n`. -/
def JsonD (pf : Bytes → UInt64) (n : Nat) (b : Bytes) (v : J) : Prop :=
  ∃ w1 t w2, b = w1 ++ t ++ w2 ∧ WS w1 ∧ ValD pf n t v ∧ WS w2

/-- Simultaneous induction over `ValD` / `ElemsD` / `MembersD` with derivation-independent motives. -/
theorem grammarD_induction {pf : Bytes → UInt64} {P1 : Nat → Bytes → J → Prop} {P2 : Nat → Bytes → JList → Prop}
    {P3 : Nat → Bytes → JMems → Prop}
    (hnull : ∀ {n}, P1 n [0x6E, 0x75, 0x6C, 0x6C] .null)
    (htrue : ∀ {n}, P1 n [0x74, 0x72, 0x75, 0x65] (.bool true))
    (hfalse : ∀ {n}, P1 n [0x66, 0x61, 0x6C, 0x73, 0x65] (.bool false))
    (hnum : ∀ {n t}, NumTok t → P1 n t (number pf (t.any isFloatByte) t))
    (hstr : ∀ {n b}, StrBody b → P1 n (quote b) (.str (strDen b)))
    (harrE : ∀ {n w}, WS w → P1 (n + 1) (0x5B :: w ++ [0x5D]) (.arr .nil))
    (harr : ∀ {n e xs}, ElemsD pf n e xs → P2 n e xs → P1 (n + 1) (0x5B :: e ++ [0x5D]) (.arr xs))
    (hobjE : ∀ {n w}, WS w → P1 (n + 1) (0x7B :: w ++ [0x7D]) (.obj .nil))
    (hobj : ∀ {n m es}, MembersD pf n m es → P3 n m es → P1 (n + 1) (0x7B :: m ++ [0x7D]) (.obj (insertAll es .nil)))
    (hone : ∀ {n w1 t w2 v}, WS w1 → ValD pf n t v → WS w2 → P1 n t v → P2 n (w1 ++ t ++ w2) (.cons v .nil))
    (hmore : ∀ {n w1 t w2 v e xs}, WS w1 → ValD pf n t v → WS w2 → ElemsD pf n e xs → P1 n t v → P2 n e xs →
      P2 n (w1 ++ t ++ w2 ++ 0x2C :: e) (.cons v xs))
    (hmone : ∀ {n w1 k w2 w3 t w4 v}, WS w1 → StrBody k → WS w2 → WS w3 → ValD pf n t v → WS w4 → P1 n t v →
      P3 n (w1 ++ quote k ++ w2 ++ 0x3A :: w3 ++ t ++ w4) (.cons (strDen k) v .nil))
    (hmmore : ∀ {n w1 k w2 w3 t w4 v m es}, WS w1 → StrBody k → WS w2 → WS w3 → ValD pf n t v → WS w4 → MembersD pf n m es →
      P1 n t v → P3 n m es → P3 n (w1 ++ quote k ++ w2 ++ 0x3A :: w3 ++ t ++ w4 ++ 0x2C :: m) (.cons (strDen k) v es)) :
    (∀ {n t v}, ValD pf n t v → P1 n t v) ∧ (∀ {n e xs}, ElemsD pf n e xs → P2 n e xs) ∧
    (∀ {n m es}, MembersD pf n m es → P3 n m es) :=
  ⟨fun h => ValD.rec (motive_1 := fun n t v _ => P1 n t v) (motive_2 := fun n e xs _ => P2 n e xs)
      (motive_3 := fun n m es _ => P3 n m es) hnull htrue hfalse hnum hstr harrE harr hobjE hobj hone hmore hmone hmmore h,
   fun h => ElemsD.rec (motive_1 := fun n t v _ => P1 n t v) (motive_2 := fun n e xs _ => P2 n e xs)
      (motive_3 := fun n m es _ => P3 n m es) hnull htrue hfalse hnum hstr harrE harr hobjE hobj hone hmore hmone hmmore h,
   fun h => MembersD.rec (motive_1 := fun n t v _ => P1 n t v) (motive_2 := fun n e xs _ => P2 n e xs)
      (motive_3 := fun n m es _ => P3 n m es) hnull htrue hfalse hnum hstr harrE harr hobjE hobj hone hmore hmone hmmore h⟩

/-- Forgetting the bound: a depth-bounded derivation is a derivation of the RFC grammar. -/
theorem toVal_all (pf : Bytes → UInt64) :
    (∀ {n t v}, ValD pf n t v → Val pf t v) ∧ (∀ {n e xs}, ElemsD pf n e xs → Elems pf e xs) ∧
    (∀ {n m es}, MembersD pf n m es → Members pf m es) := by
  apply grammarD_induction (P1 := fun _ t v => Val pf t v) (P2 := fun _ e xs => Elems pf e xs)
    (P3 := fun _ m es => Members pf m es)
  · exact .null
  · exact .true
  · exact .false
  · intro _ t h; exact .num h
  · intro _ b h; exact .str h
  · intro _ w h; exact .arrEmpty h
  · intro _ e xs _ ih; exact .arr ih
  · intro _ w h; exact .objEmpty h
  · intro _ m es _ ih; exact .obj ih
  · intro _ w1 t w2 v h1 _ h2 ih; exact .one h1 ih h2
  · intro _ w1 t w2 v e xs h1 _ h2 _ ih ihe; exact .more h1 ih h2 ihe
  · intro _ w1 k w2 w3 t w4 v h1 hk h2 h3 _ h4 ih; exact .one h1 hk h2 h3 ih h4
  · intro _ w1 k w2 w3 t w4 v m es h1 hk h2 h3 _ h4 _ ih ihm; exact .more h1 hk h2 h3 ih h4 ihm

theorem ValD.toVal {pf : Bytes → UInt64} {n : Nat} {t : Bytes} {v : J} (h : ValD pf n t v) : Val pf t v := (toVal_all pf).1 h

/-- The index is an upper bound. -/
theorem mono_all (pf : Bytes → UInt64) :
    (∀ {n t v}, ValD pf n t v → ∀ k, n ≤ k → ValD pf k t v) ∧ (∀ {n e xs}, ElemsD pf n e xs → ∀ k, n ≤ k → ElemsD pf k e xs) ∧
    (∀ {n m es}, MembersD pf n m es → ∀ k, n ≤ k → MembersD pf k m es) := by
  apply grammarD_induction (P1 := fun n t v => ∀ k, n ≤ k → ValD pf k t v) (P2 := fun n e xs => ∀ k, n ≤ k → ElemsD pf k e xs)
    (P3 := fun n m es => ∀ k, n ≤ k → MembersD pf k m es)
  · intro _ k _; exact .null
  · intro _ k _; exact .true
  · intro _ k _; exact .false
  · intro _ t h k _; exact .num h
  · intro _ b h k _; exact .str h
  · intro n w h k hk
    obtain ⟨k', rfl⟩ : ∃ k', k = k' + 1 := ⟨k - 1, by omega⟩
    exact .arrEmpty h
  · intro n e xs _ ih k hk
    obtain ⟨k', rfl⟩ : ∃ k', k = k' + 1 := ⟨k - 1, by omega⟩
    exact .arr (ih k' (by omega))
  · intro n w h k hk
    obtain ⟨k', rfl⟩ : ∃ k', k = k' + 1 := ⟨k - 1, by omega⟩
    exact .objEmpty h
  · intro n m es _ ih k hk
    obtain ⟨k', rfl⟩ : ∃ k', k = k' + 1 := ⟨k - 1, by omega⟩
    exact .obj (ih k' (by omega))
  · intro _ w1 t w2 v h1 _ h2 ih k hk; exact .one h1 (ih k hk) h2
  · intro _ w1 t w2 v e xs h1 _ h2 _ ih ihe k hk; exact .more h1 (ih k hk) h2 (ihe k hk)
  · intro _ w1 k' w2 w3 t w4 v h1 hk' h2 h3 _ h4 ih k hk; exact .one h1 hk' h2 h3 (ih k hk) h4
  · intro _ w1 k' w2 w3 t w4 v m es h1 hk' h2 h3 _ h4 _ ih ihm k hk; exact .more h1 hk' h2 h3 (ih k hk) h4 (ihm k hk)

theorem ValD.mono {pf : Bytes → UInt64} {n k : Nat} {t : Bytes} {v : J} (h : ValD pf n t v) (hk : n ≤ k) : ValD pf k t v :=
  (mono_all pf).1 h k hk

/-- Every derivation of the RFC grammar has some finite nesting depth. -/
theorem toD_all (pf : Bytes → UInt64) :
    (∀ {t v}, Val pf t v → ∃ n, ValD pf n t v) ∧ (∀ {e xs}, Elems pf e xs → ∃ n, ElemsD pf n e xs) ∧
    (∀ {m es}, Members pf m es → ∃ n, MembersD pf n m es) := by
  apply grammar_induction (P1 := fun t v => ∃ n, ValD pf n t v) (P2 := fun e xs => ∃ n, ElemsD pf n e xs)
    (P3 := fun m es => ∃ n, MembersD pf n m es)
  · exact ⟨0, .null⟩
  · exact ⟨0, .true⟩
  · exact ⟨0, .false⟩
  · intro t h; exact ⟨0, .num h⟩
  · intro b h; exact ⟨0, .str h⟩
  · intro w h; exact ⟨1, .arrEmpty h⟩
  · intro e xs _ ⟨n, ih⟩; exact ⟨n + 1, .arr ih⟩
  · intro w h; exact ⟨1, .objEmpty h⟩
  · intro m es _ ⟨n, ih⟩; exact ⟨n + 1, .obj ih⟩
  · intro w1 t w2 v h1 _ h2 ⟨n, ih⟩; exact ⟨n, .one h1 ih h2⟩
  · intro w1 t w2 v e xs h1 _ h2 _ ⟨n, ih⟩ ⟨n', ihe⟩
    exact ⟨max n n', .more h1 (ih.mono (Nat.le_max_left _ _)) h2 ((mono_all pf).2.1 ihe _ (Nat.le_max_right _ _))⟩
  · intro w1 k w2 w3 t w4 v h1 hk h2 h3 _ h4 ⟨n, ih⟩; exact ⟨n, .one h1 hk h2 h3 ih h4⟩
  · intro w1 k w2 w3 t w4 v m es h1 hk h2 h3 _ h4 _ ⟨n, ih⟩ ⟨n', ihm⟩
    exact ⟨max n n', .more h1 hk h2 h3 (ih.mono (Nat.le_max_left _ _)) h4 ((mono_all pf).2.2 ihm _ (Nat.le_max_right _ _))⟩

theorem Val.toD {pf : Bytes → UInt64} {t : Bytes} {v : J} (h : Val pf t v) : ∃ n, ValD pf n t v := (toD_all pf).1 h

theorem JsonD.toJson {pf : Bytes → UInt64} {n : Nat} {b : Bytes} {v : J} (h : JsonD pf n b v) : Json pf b v := by
  obtain ⟨w1, t, w2, hb, h1, hv, h2⟩ := h
  exact ⟨w1, t, w2, hb, h1, hv.toVal, h2⟩

theorem JsonD.mono {pf : Bytes → UInt64} {n k : Nat} {b : Bytes} {v : J} (h : JsonD pf n b v) (hk : n ≤ k) : JsonD pf k b v := by
  obtain ⟨w1, t, w2, hb, h1, hv, h2⟩ := h
  exact ⟨w1, t, w2, hb, h1, hv.mono hk, h2⟩

theorem Json.toD {pf : Bytes → UInt64} {b : Bytes} {v : J} (h : Json pf b v) : ∃ n, JsonD pf n b v := by
  obtain ⟨w1, t, w2, hb, h1, hv, h2⟩ := h
  obtain ⟨n, hd⟩ := hv.toD
  exact ⟨n, w1, t, w2, hb, h1, hd, h2⟩

end Tengo.Proofs.JsonGrammar

import Tengo.Proofs.C01BridgeF2Patch
/-!
C01 bridge for fragment F2, layer 2 (statements): for every statement (list) of F2 the compiler model, run on
the embedded AST in a state whose innermost loop record is `cur`, appends exactly the byte encoding of the
fragment compiler's code WITH BOTH TARGETS 0 (`F2.compS 0 0 off st`: the `JMP 0` placeholders of `break` /
`continue`), appends the positions of those placeholders to `cur.breaks` / `cur.continues` (`addJ`, `jposS`), and
adds the statement's literals to the pool (`stmtOK2`, `stmtsOK2`). A loop statement pops its record and patches
the recorded positions to its end / post-body positions, which by `patchSs` turns the body's bytes into those of
`F2.compSs end postBody bodyOff body`: the bytes of `F2.compS` for the loop.
-/
set_option linter.unusedVariables false
set_option linter.unusedSimpArgs false
namespace Tengo.Proofs.C01Bridge
open Tengo.Model Tengo.Model.F0 Tengo.Model.Compiler Tengo.Model.Opcodes
open Tengo.Model.Spec (Expr Stmt)

/-! ### the innermost loop record -/

/-- Append `bs` to the `breaks` and `cs` to the `continues` of the innermost loop record (nothing to do outside
loops). -/
def addJ (s : CState) (bs cs : List Nat) : CState :=
  match s.loops with
  | [] => s
  | cur :: rest => { s with loops := { continues := cur.continues ++ cs, breaks := cur.breaks ++ bs } :: rest }

@[simp] theorem addJ_insts (s : CState) (bs cs : List Nat) : (addJ s bs cs).insts = s.insts := by
  unfold addJ; split <;> rfl
@[simp] theorem addJ_consts (s : CState) (bs cs : List Nat) : (addJ s bs cs).consts = s.consts := by
  unfold addJ; split <;> rfl
@[simp] theorem addJ_tables (s : CState) (bs cs : List Nat) : (addJ s bs cs).tables = s.tables := by
  unfold addJ; split <;> rfl
@[simp] theorem addJ_loops_isEmpty (s : CState) (bs cs : List Nat) :
    (addJ s bs cs).loops.isEmpty = s.loops.isEmpty := by
  unfold addJ; split
  · rfl
  · rename_i cur rest h; simp [h]

theorem addJ_nil (s : CState) : addJ s [] [] = s := by
  obtain ⟨consts, tables, nextId, assigned, insts, saved, loops⟩ := s
  cases loops with
  | nil => rfl
  | cons cur rest => simp [addJ]

theorem addJ_addJ (s : CState) (b1 c1 b2 c2 : List Nat) :
    addJ (addJ s b1 c1) b2 c2 = addJ s (b1 ++ b2) (c1 ++ c2) := by
  obtain ⟨consts, tables, nextId, assigned, insts, saved, loops⟩ := s
  cases loops with
  | nil => rfl
  | cons cur rest => simp [addJ]

theorem addJ_app (s : CState) (b : List UInt8) (k : List Compiler.Const) (bs cs : List Nat) :
    addJ (app s b k) bs cs = app (addJ s bs cs) b k := by
  obtain ⟨consts, tables, nextId, assigned, insts, saved, loops⟩ := s
  cases loops with
  | nil => rfl
  | cons cur rest => rfl

theorem addJ_setT (s : CState) (t : Chain) (bs cs : List Nat) :
    addJ (setT s t) bs cs = setT (addJ s bs cs) t := by
  obtain ⟨consts, tables, nextId, assigned, insts, saved, loops⟩ := s
  cases loops with
  | nil => rfl
  | cons cur rest => rfl

theorem app_congr3 {s s' : CState} {b b' : List UInt8} {k k' : List Compiler.Const}
    (hs : s = s') (hb : b = b') (hk : k = k') : app s b k = app s' b' k' := by rw [hs, hb, hk]

theorem addJ_congr (s : CState) {b b' c c' : List Nat} (hb : b = b') (hc : c = c') :
    addJ s b c = addJ s b' c' := by rw [hb, hc]

/-- `leaveLoop` after the body of a loop: the popped record holds the recorded positions. -/
theorem steps_leaveLoop_addJ (s : CState) (bs cs : List Nat) (b : List UInt8) (k : List Compiler.Const) :
    Steps leaveLoop (app (addJ (setL s ({} :: s.loops)) bs cs) b k) { continues := cs, breaks := bs }
      (app s b k) := by
  obtain ⟨consts, tables, nextId, assigned, insts, saved, loops⟩ := s
  rfl

theorem steps_unfork_addJ (s : CState) (bs cs : List Nat) (b : List UInt8) (k : List Compiler.Const) :
    Steps unfork (app (addJ (setT s (blk :: s.tables)) bs cs) b k) () (app (addJ s bs cs) b k) := by
  have h := steps_unfork_forked (addJ s bs cs) b k
  rw [addJ_tables, ← addJ_setT] at h
  exact h

attribute [local irreducible] emit curPos changeOperand addConstant enterLoop leaveLoop fork unfork
  emitBinary patchAll setAssigned localAssigned emitGet emitIt define resolve cerr
  Compiler.unsupported compileExpr compileExprs compileKVs compileSelsRev compileStmt compileBlock compileStmts

/-! ### unfolding the statement compiler on the new forms -/

theorem stmt_for3 (d : Nat) (c : Expr) (post : Stmt) (body : List Stmt) :
    compileStmt (d + 1) (.fors none (some c) (some post) body) = (do
      fork true
      let preCondPos ← curPos
      compileExpr d c
      let p ← emit opJumpFalsy [0]
      enterLoop
      compileBlock d body
      let loop ← leaveLoop
      let postBodyPos ← curPos
      compileStmt d post
      discard (emit opJump [preCondPos])
      let postStmtPos ← curPos
      changeOperand p postStmtPos
      patchAll loop.breaks postStmtPos
      patchAll loop.continues postBodyPos
      unfork) := by
  rw [compileStmt.eq_6]; rfl

theorem stmt_break (d : Nat) :
    compileStmt (d + 1) (.branch "Break") = (do
      let st ← get
      match st.loops with
      | [] => cerr "break not allowed outside loop"
      | cur :: rest => do
        let pos ← emit opJump [0]
        modify fun s => { s with loops := { cur with breaks := cur.breaks ++ [pos] } :: rest }) := by
  rw [compileStmt.eq_9]; rfl

theorem stmt_continue (d : Nat) :
    compileStmt (d + 1) (.branch "Continue") = (do
      let st ← get
      match st.loops with
      | [] => cerr "continue not allowed outside loop"
      | cur :: rest => do
        let pos ← emit opJump [0]
        modify fun s => { s with loops := { cur with continues := cur.continues ++ [pos] } :: rest }) := by
  rw [compileStmt.eq_9]; rfl

/-! ### statements -/

section
variable (names : Nat → String) (ctab : Nat → F0.Const) (n : Nat)

def StmtOK2 (st : F2.Stm) : Prop :=
  ∀ (d : Nat) (s : CState), budS2 st ≤ d → GoodChain names n s.tables → wfS2 n s.consts.size st = true →
    F2.scopedS (!s.loops.isEmpty) st = true →
    Steps (compileStmt d (toAstS2 names ctab st)) s ()
      (app (addJ s (jposS true s.insts.size st) (jposS false s.insts.size st))
        (encodeIns (F2.compS 0 0 s.insts.size st)) (lits ctab s.consts.size (nlitsS2 st)))

def StmtsOK2 (ss : F2.Stms) : Prop :=
  ∀ (d : Nat) (s : CState), budSs2 ss ≤ d → GoodChain names n s.tables → wfSs2 n s.consts.size ss = true →
    F2.scopedSs (!s.loops.isEmpty) ss = true →
    Steps (compileStmts d (toAstSs2 names ctab ss)) s ()
      (app (addJ s (jposSs true s.insts.size ss) (jposSs false s.insts.size ss))
        (encodeIns (F2.compSs 0 0 s.insts.size ss)) (lits ctab s.consts.size (nlitsSs2 ss)))

/-- A block, written relative to a base state. -/
def BlockOK2 (ss : F2.Stms) : Prop :=
  ∀ (d : Nat) (s : CState) (pre : List UInt8) (kpre : List Compiler.Const) (off k : Nat),
    budSs2 ss + 1 ≤ d → GoodChain names n s.tables → off = s.insts.size + pre.length →
    k = s.consts.size + kpre.length → wfSs2 n k ss = true → F2.scopedSs (!s.loops.isEmpty) ss = true →
    Steps (compileBlock d (toAstSs2 names ctab ss)) (app s pre kpre) ()
      (app (addJ s (jposSs true off ss) (jposSs false off ss))
        (pre ++ encodeIns (F2.compSs 0 0 off ss)) (kpre ++ lits ctab k (nlitsSs2 ss)))

variable {names ctab n}

theorem blockOK2_of {ss : F2.Stms} (h : StmtsOK2 names ctab n ss) : BlockOK2 names ctab n ss := by
  intro d s pre kpre off k hd hg hoff hk hw hsc
  subst hoff hk
  cases d with
  | zero => omega
  | succ d =>
    cases ss with
    | nil =>
      simp only [toAstSs2, compileBlock.eq_2]
      exact (Steps.pure () _).to (by simp [F2.compSs, nlitsSs2, lits_zero, jposSs, addJ_nil])
    | cons st ss =>
      rw [toAstSs2, compileBlock.eq_3 _ _ (by simp)]
      rw [← toAstSs2]
      refine Steps.bind (steps_fork' _) ?_
      have h1 := h d (setT (app s pre kpre) (blk :: (app s pre kpre).tables)) (by omega)
        (by simpa using hg.fork) (by simpa using hw) (by simpa using hsc)
      refine Steps.bind h1 ?_
      refine (steps_unfork_addJ _ _ _ _ _).to ?_
      rw [addJ_app, app_app]
      simp

end

section
variable {names : Nat → String} {ctab : Nat → F0.Const} {n : Nat}

theorem stmtOK2_expr (e : Ex) : StmtOK2 names ctab n (.expr e) := by
  intro d s hd hg hw hsc
  cases d with
  | zero => simp [budS2] at hd
  | succ d =>
    simp only [wfS2] at hw
    simp only [budS2] at hd
    simp only [toAstS2, stmt_expr]
    refine steps_one (exprOK e) d s (by omega) hg hw _ _ _ ((steps_emitI .pop _).to ?_)
    rw [app_app]
    exact app_congr3 (by simp [jposS, addJ_nil]) (by simp [F2.compS, encodeIns_append]) (by simp [nlitsS2])

theorem stmtOK2_assign (i : Nat) (e : Ex) : StmtOK2 names ctab n (.assign i e) := by
  intro d s hd hg hw hsc
  obtain ⟨d, rfl⟩ : ∃ d', d = d' + 1 + 1 := ⟨d - 2, by simp [budS2] at hd; omega⟩
  simp only [wfS2, Bool.and_eq_true, decide_eq_true_eq] at hw
  obtain ⟨hi, hwe⟩ := hw
  simp only [budS2] at hd
  simp only [toAstS2, stmt_assign d _ _ (isFuncLit_toAstE names ctab e)]
  obtain ⟨id, k, hres⟩ := steps_resolve hg hi
  refine Steps.bind hres ?_
  simp only [Option.isNone_some, Bool.false_eq_true, ↓reduceIte, Option.map_some, asgRhs_assign]
  obtain ⟨d, rfl⟩ : ∃ d', d = d' + 1 := ⟨d - 1, by have := budE_pos e; omega⟩
  rw [asgOp_assign, compileSelsRev.eq_2, asgEmit_global]
  refine steps_one (exprOK e) _ s (by omega) hg hwe _ _ _ ?_
  refine Steps.bind (Steps.pure () _) ?_
  refine (steps_emitI (.setg i) _).to ?_
  rw [app_app]
  exact app_congr3 (by simp [jposS, addJ_nil]) (by simp [F2.compS, encodeIns_append]) (by simp [nlitsS2])

theorem loops_of_scoped {s : CState} (h : (!s.loops.isEmpty) = true) : ∃ cur rest, s.loops = cur :: rest := by
  cases hl : s.loops with
  | nil => simp [hl] at h
  | cons cur rest => exact ⟨cur, rest, rfl⟩

theorem steps_get (s : CState) : Steps (get : CM CState) s s s := rfl
theorem steps_modify (f : CState → CState) (s : CState) : Steps (modify f : CM Unit) s () (f s) := rfl

theorem stmtOK2_brk : StmtOK2 names ctab n .brk := by
  intro d s hd hg hw hsc
  cases d with
  | zero => simp [budS2] at hd
  | succ d =>
    simp only [F2.scopedS] at hsc
    obtain ⟨cur, rest, hl⟩ := loops_of_scoped hsc
    simp only [toAstS2, stmt_break]
    refine Steps.bind (steps_get s) ?_
    simp only [hl]
    refine Steps.bind (steps_emit opJump [0] s) ?_
    refine (steps_modify _ _).to ?_
    obtain ⟨consts, tables, nextId, assigned, insts, saved, loops⟩ := s
    simp only at hl
    subst hl
    simp [addJ, app, jposS, F2.compS, nlitsS2, lits_zero, encodeIns_single, enc_jmp]

theorem stmtOK2_cont : StmtOK2 names ctab n .cont := by
  intro d s hd hg hw hsc
  cases d with
  | zero => simp [budS2] at hd
  | succ d =>
    simp only [F2.scopedS] at hsc
    obtain ⟨cur, rest, hl⟩ := loops_of_scoped hsc
    simp only [toAstS2, stmt_continue]
    refine Steps.bind (steps_get s) ?_
    simp only [hl]
    refine Steps.bind (steps_emit opJump [0] s) ?_
    refine (steps_modify _ _).to ?_
    obtain ⟨consts, tables, nextId, assigned, insts, saved, loops⟩ := s
    simp only at hl
    subst hl
    simp [addJ, app, jposS, F2.compS, nlitsS2, lits_zero, encodeIns_single, enc_jmp]

theorem stmtOK2_ifs (c : Ex) (body : F2.Stms) (hb : BlockOK2 names ctab n body) :
    StmtOK2 names ctab n (.ifs c body) := by
  intro d s hd hg hw hsc
  cases d with
  | zero => simp [budS2] at hd
  | succ d =>
    simp only [wfS2, Bool.and_eq_true] at hw
    obtain ⟨hwc, hwb⟩ := hw
    simp only [budS2] at hd
    simp only [F2.scopedS] at hsc
    simp only [toAstS2, stmt_ifs]
    refine Steps.bind (steps_fork' s) ?_
    have hg0 : GoodChain names n (setT s (blk :: s.tables)).tables := hg.fork
    refine Steps.bind (exprOK c d _ (by omega) hg0 (by simpa using hwc)) ?_
    refine Steps.bind (steps_emit_at _ _ _ opJumpFalsy [0]) ?_
    refine Steps.bind (hb d _ _ _ (s.insts.size + esize c + 5) (s.consts.size + nlitsE c) (by omega) hg0
      (by simp [encodeIns_length, csize_comp, e5_jmpf]; omega) (by simp [lits_length]) hwb (by simpa using hsc)) ?_
    refine Steps.bind (steps_curPos_at _ _ _) ?_
    refine Steps.bind (steps_patch_at _ (encodeIns (comp s.insts.size c)) opJumpFalsy 0 _
      (encodeIns (F2.compSs 0 0 (s.insts.size + esize c + 5) body)) _ _ _ rfl (by decide)
      (by simp [List.append_assoc]) (by simp)) ?_
    refine (steps_unfork_addJ s _ _ _ _).to ?_
    refine app_congr3 ?_ ?_ ?_
    · simp [jposS, F2.esz_eq]
    · simp [F2.compS, csize_comp, F2.csize_compSs, encodeIns_append, encodeIns_cons, List.append_assoc,
        encodeIns_length, e5_jmpf, enc_jmpf, Nat.add_assoc, encI_length, Ins.size, F2.esz_eq]
    · simp [nlitsS2, lits_add, List.append_assoc, Nat.add_assoc]

theorem stmtOK2_ifelse (c : Ex) (body els : F2.Stms) (hb : BlockOK2 names ctab n body)
    (he : BlockOK2 names ctab n els) : StmtOK2 names ctab n (.ifelse c body els) := by
  intro d s hd hg hw hsc
  obtain ⟨d, rfl⟩ : ∃ d', d = d' + 1 + 1 := ⟨d - 2, by simp [budS2] at hd; omega⟩
  simp only [wfS2, Bool.and_eq_true] at hw
  obtain ⟨⟨hwc, hwb⟩, hwe⟩ := hw
  simp only [budS2] at hd
  simp only [F2.scopedS, Bool.and_eq_true] at hsc
  simp only [toAstS2, stmt_ifelse]
  refine Steps.bind (steps_fork' s) ?_
  have hg0 : GoodChain names n (setT s (blk :: s.tables)).tables := hg.fork
  refine Steps.bind (exprOK c (d + 1) _ (by omega) hg0 (by simpa using hwc)) ?_
  refine Steps.bind (steps_emit_at _ _ _ opJumpFalsy [0]) ?_
  refine Steps.bind (hb (d + 1) _ _ _ (s.insts.size + esize c + 5) (s.consts.size + nlitsE c) (by omega) hg0
    (by simp [encodeIns_length, csize_comp, e5_jmpf]; omega) (by simp [lits_length]) hwb (by simpa using hsc.1)) ?_
  refine Steps.bind (steps_emit_at _ _ _ opJump [0]) ?_
  refine Steps.bind (steps_curPos_at _ _ _) ?_
  refine Steps.bind (steps_patch_at _ (encodeIns (comp s.insts.size c)) opJumpFalsy 0 _
    (encodeIns (F2.compSs 0 0 (s.insts.size + esize c + 5) body) ++ encodeInstr opJump [0]) _ _ _ rfl (by decide)
    (by simp [List.append_assoc]) (by simp)) ?_
  refine Steps.bind (he d _ _ _ (s.insts.size + esize c + 5 + F2.sssize body + 5)
    (s.consts.size + nlitsE c + nlitsSs2 body) (by omega) (by simpa using hg0)
    (by simp [encodeIns_length, csize_comp, F2.csize_compSs, e5_jmpf, e5_jmp]; omega)
    (by simp [lits_length]; omega) hwe (by simpa using hsc.2)) ?_
  refine Steps.bind (steps_curPos_at _ _ _) ?_
  refine Steps.bind (steps_patch_at _ (encodeIns (comp s.insts.size c) ++ encodeInstr opJumpFalsy
      [s.insts.size + esize c + 5 + F2.sssize body + 5] ++ encodeIns (F2.compSs 0 0 (s.insts.size + esize c + 5) body))
    opJump 0 _ (encodeIns (F2.compSs 0 0 (s.insts.size + esize c + 5 + F2.sssize body + 5) els)) _ _ _ rfl (by decide)
    ?_ ?_) ?_
  · simp [List.append_assoc, encodeIns_length, csize_comp, F2.csize_compSs, e5_jmpf, e5_jmp, Nat.add_assoc]
  · simp [List.append_assoc, encodeIns_length, csize_comp, F2.csize_compSs, e5_jmpf, e5_jmp]
  rw [addJ_addJ]
  refine (steps_unfork_addJ s _ _ _ _).to ?_
  refine app_congr3 ?_ ?_ ?_
  · simp [jposS, F2.esz_eq]
  · simp [F2.compS, csize_comp, F2.csize_compSs, encodeIns_append, encodeIns_cons, List.append_assoc,
      encodeIns_length, e5_jmpf, e5_jmp, enc_jmpf, enc_jmp, Nat.add_assoc, encI_length, Ins.size, F2.esz_eq]
  · simp [nlitsS2, lits_add, List.append_assoc, Nat.add_assoc]

/-- `patchSs` in the shape the loop statements meet it: condition bytes, the (already patched) conditional
jump, the body, the rest. -/
theorem patch_loop (body : F2.Stms) (w : Bool) (s : CState) (P J B : List UInt8) (ks : List Compiler.Const)
    (off b c t : Nat) (hoff : off = s.insts.size + P.length + J.length) :
    Steps (patchAll (jposSs w off body) t) (app s (P ++ J ++ (encodeIns (F2.compSs b c off body) ++ B)) ks) ()
      (app s (P ++ J ++ (encodeIns (F2.compSs (if w then t else b) (if w then c else t) off body) ++ B)) ks) := by
  have h := patchSs body w s (P ++ J) B ks off b c t (by simp [hoff]; omega)
  refine h.conv ?_ ?_ <;> simp only [List.append_assoc]

theorem stmtOK2_whil (c : Ex) (body : F2.Stms) (hb : BlockOK2 names ctab n body) :
    StmtOK2 names ctab n (.whil c body) := by
  intro d s hd hg hw hsc
  cases d with
  | zero => simp [budS2] at hd
  | succ d =>
    simp only [wfS2, Bool.and_eq_true] at hw
    obtain ⟨hwc, hwb⟩ := hw
    simp only [budS2] at hd
    simp only [F2.scopedS] at hsc
    simp only [toAstS2, stmt_while]
    refine Steps.bind (steps_fork' s) ?_
    have hg0 : GoodChain names n (setT s (blk :: s.tables)).tables := hg.fork
    refine Steps.bind (steps_curPos _) ?_
    refine Steps.bind (exprOK c d _ (by omega) hg0 (by simpa using hwc)) ?_
    refine Steps.bind (steps_emit_at _ _ _ opJumpFalsy [0]) ?_
    refine Steps.bind (steps_enterLoop_at _ _ _) ?_
    refine Steps.bind (hb d _ _ _ (s.insts.size + esize c + 5) (s.consts.size + nlitsE c) (by omega)
      (by simpa using hg0)
      (by simp [encodeIns_length, csize_comp, e5_jmpf]; omega) (by simp [lits_length]) hwb (by simpa using hsc)) ?_
    refine Steps.bind (steps_leaveLoop_addJ _ _ _ _ _) ?_
    refine Steps.bind (steps_curPos_at _ _ _) ?_
    refine Steps.bind (Steps.discard (steps_emit_at _ _ _ opJump [s.insts.size])) ?_
    refine Steps.bind (steps_curPos_at _ _ _) ?_
    refine Steps.bind (steps_patch_at _ (encodeIns (comp s.insts.size c)) opJumpFalsy 0 _
      (encodeIns (F2.compSs 0 0 (s.insts.size + esize c + 5) body) ++ encodeInstr opJump [s.insts.size]) _ _ _ rfl
      (by decide) (by simp [List.append_assoc]) (by simp)) ?_
    refine Steps.bind (patch_loop body true _ _ _ _ _ (s.insts.size + esize c + 5) 0 0 _
      (by simp [encodeIns_length, csize_comp, e5_jmpf])) ?_
    refine Steps.bind (patch_loop body false _ _ _ _ _ (s.insts.size + esize c + 5) _ 0 _
      (by simp [encodeIns_length, csize_comp, e5_jmpf])) ?_
    refine (steps_unfork_forked s _ _).to ?_
    refine app_congr3 ?_ ?_ ?_
    · simp [jposS, addJ_nil]
    · simp [F2.compS, csize_comp, F2.csize_compSs, encodeIns_append, encodeIns_cons, List.append_assoc,
        encodeIns_length, e5_jmpf, e5_jmp, enc_jmpf, enc_jmp, Nat.add_assoc, encI_length, Ins.size, F2.esz_eq]
    · simp [nlitsS2, lits_add, List.append_assoc, Nat.add_assoc]

theorem stmtOK2_forever (body : F2.Stms) (hb : BlockOK2 names ctab n body) :
    StmtOK2 names ctab n (.forever body) := by
  intro d s hd hg hw hsc
  cases d with
  | zero => simp [budS2] at hd
  | succ d =>
    simp only [wfS2] at hw
    simp only [budS2] at hd
    simp only [F2.scopedS] at hsc
    simp only [toAstS2, stmt_forever]
    refine Steps.bind (steps_fork' s) ?_
    have hg0 : GoodChain names n (setT s (blk :: s.tables)).tables := hg.fork
    refine Steps.bind (steps_curPos _) ?_
    refine Steps.bind (steps_enterLoop0 _) ?_
    refine Steps.bind (hb d _ _ _ s.insts.size s.consts.size (by omega)
      (by simpa using hg0) (by simp) (by simp) hw (by simpa using hsc)) ?_
    refine Steps.bind (steps_leaveLoop_addJ _ _ _ _ _) ?_
    refine Steps.bind (steps_curPos_at _ _ _) ?_
    refine Steps.bind (Steps.discard (steps_emit_at _ _ _ opJump [s.insts.size])) ?_
    refine Steps.bind (steps_curPos_at _ _ _) ?_
    refine Steps.bind (patchSs body true _ [] _ _ s.insts.size 0 0 _ (by simp)) ?_
    refine Steps.bind (patchSs body false _ [] _ _ s.insts.size _ 0 _ (by simp)) ?_
    refine (steps_unfork_forked s _ _).to ?_
    refine app_congr3 ?_ ?_ ?_
    · simp [jposS, addJ_nil]
    · simp [F2.compS, F2.csize_compSs, encodeIns_append, encodeIns_cons, enc_jmp, encodeIns_length, e5_jmp,
        Nat.add_assoc, encI_length, Ins.size]
    · simp [nlitsS2]

theorem stmtOK2_for3 (c : Ex) (body : F2.Stms) (post : F2.Stm) (hb : BlockOK2 names ctab n body)
    (hp : StmtOK2 names ctab n post) : StmtOK2 names ctab n (.for3 c body post) := by
  intro d s hd hg hw hsc
  cases d with
  | zero => simp [budS2] at hd
  | succ d =>
    simp only [wfS2, Bool.and_eq_true] at hw
    obtain ⟨⟨hwc, hwb⟩, hwp⟩ := hw
    simp only [budS2] at hd
    simp only [F2.scopedS, Bool.and_eq_true] at hsc
    simp only [toAstS2, stmt_for3]
    refine Steps.bind (steps_fork' s) ?_
    have hg0 : GoodChain names n (setT s (blk :: s.tables)).tables := hg.fork
    refine Steps.bind (steps_curPos _) ?_
    refine Steps.bind (exprOK c d _ (by omega) hg0 (by simpa using hwc)) ?_
    refine Steps.bind (steps_emit_at _ _ _ opJumpFalsy [0]) ?_
    refine Steps.bind (steps_enterLoop_at _ _ _) ?_
    refine Steps.bind (hb d _ _ _ (s.insts.size + esize c + 5) (s.consts.size + nlitsE c) (by omega)
      (by simpa using hg0)
      (by simp [encodeIns_length, csize_comp, e5_jmpf]; omega) (by simp [lits_length]) hwb (by simpa using hsc.1)) ?_
    refine Steps.bind (steps_leaveLoop_addJ _ _ _ _ _) ?_
    refine Steps.bind (steps_curPos_at _ _ _) ?_
    refine Steps.bind (hp d _ (by omega) (by simpa using hg0)
      (by simpa [lits_length, Nat.add_assoc] using hwp) (by simpa using hsc.2)) ?_
    rw [addJ_app, app_app]
    refine Steps.bind (Steps.discard (steps_emit_at _ _ _ opJump [s.insts.size])) ?_
    refine Steps.bind (steps_curPos_at _ _ _) ?_
    refine Steps.bind (steps_patch_at _ (encodeIns (comp s.insts.size c)) opJumpFalsy 0 _
      (encodeIns (F2.compSs 0 0 (s.insts.size + esize c + 5) body) ++
        (encodeIns (F2.compS 0 0 (s.insts.size + esize c + 5 + F2.sssize body) post) ++
          encodeInstr opJump [s.insts.size])) _ _ _ rfl
      (by decide)
      (by simp [List.append_assoc, encodeIns_length, csize_comp, F2.csize_compSs, e5_jmpf, Nat.add_assoc])
      (by simp)) ?_
    refine Steps.bind (patch_loop body true _ _ _ _ _ (s.insts.size + esize c + 5) 0 0 _
      (by simp [encodeIns_length, csize_comp, e5_jmpf])) ?_
    refine Steps.bind (patch_loop body false _ _ _ _ _ (s.insts.size + esize c + 5) _ 0 _
      (by simp [encodeIns_length, csize_comp, e5_jmpf])) ?_
    refine (steps_unfork_addJ s _ _ _ _).to ?_
    refine app_congr3 ?_ ?_ ?_
    · simp [jposS, F2.esz_eq, encodeIns_length, csize_comp, F2.csize_compSs, e5_jmpf, Nat.add_assoc]
    · simp [F2.compS, csize_comp, F2.csize_compSs, F2.csize_compS, encodeIns_append, encodeIns_cons,
        List.append_assoc, encodeIns_length, e5_jmpf, e5_jmp, enc_jmpf, enc_jmp, Nat.add_assoc, encI_length,
        Ins.size, F2.esz_eq]
    · simp [nlitsS2, lits_add, lits_length, List.append_assoc, Nat.add_assoc]

theorem stmtsOK2_nil : StmtsOK2 names ctab n .nil := by
  intro d s hd hg hw hsc
  cases d with
  | zero => simp [budSs2] at hd
  | succ d =>
    simp only [toAstSs2, compileStmts.eq_2]
    exact (Steps.pure () _).to (by simp [F2.compSs, nlitsSs2, lits_zero, jposSs, addJ_nil])

theorem stmtsOK2_cons (st : F2.Stm) (ss : F2.Stms) (h1 : StmtOK2 names ctab n st)
    (h2 : StmtsOK2 names ctab n ss) : StmtsOK2 names ctab n (.cons st ss) := by
  intro d s hd hg hw hsc
  cases d with
  | zero => simp [budSs2] at hd
  | succ d =>
    simp only [wfSs2, Bool.and_eq_true] at hw
    obtain ⟨hw1, hw2⟩ := hw
    simp only [budSs2] at hd
    simp only [F2.scopedSs, Bool.and_eq_true] at hsc
    simp only [toAstSs2, compileStmts.eq_3]
    refine Steps.bind (h1 d s (by omega) hg hw1 hsc.1) ?_
    refine (h2 d _ (by omega) (by simpa using hg) (by simpa [lits_length] using hw2) (by simpa using hsc.2)).to ?_
    rw [addJ_app, addJ_addJ, app_app]
    refine app_congr3 ?_ ?_ ?_
    · simp [jposSs, encodeIns_length, F2.csize_compS]
    · simp [F2.compSs, F2.csize_compS, encodeIns_append, encodeIns_length]
    · simp [nlitsSs2, lits_add, lits_length]

mutual
  theorem stmtOK2 : ∀ st : F2.Stm, StmtOK2 names ctab n st
    | .expr e => stmtOK2_expr e
    | .assign i e => stmtOK2_assign i e
    | .ifs c body => stmtOK2_ifs c body (blockOK2_of (stmtsOK2 body))
    | .ifelse c body els => stmtOK2_ifelse c body els (blockOK2_of (stmtsOK2 body)) (blockOK2_of (stmtsOK2 els))
    | .whil c body => stmtOK2_whil c body (blockOK2_of (stmtsOK2 body))
    | .forever body => stmtOK2_forever body (blockOK2_of (stmtsOK2 body))
    | .for3 c body post => stmtOK2_for3 c body post (blockOK2_of (stmtsOK2 body)) (stmtOK2 post)
    | .brk => stmtOK2_brk
    | .cont => stmtOK2_cont
  theorem stmtsOK2 : ∀ ss : F2.Stms, StmtsOK2 names ctab n ss
    | .nil => stmtsOK2_nil
    | .cons st ss => stmtsOK2_cons st ss (stmtOK2 st) (stmtsOK2 ss)
end

end

end Tengo.Proofs.C01Bridge

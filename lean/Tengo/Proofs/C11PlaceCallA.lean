import Tengo.Proofs.C11PlaceMain
/-!
C11, PLACEMENT global ↦ local with CALLS of top-level first-order functions inside the moved statements, layer A:
NON-INTERFERENCE of the whole F3 reference evaluator.

`avE n` / `avEs n` / `avS n` / `avSs n`: the text touches no global slot `≤ n` (no `.glob i`, no `.assign i _` with
`i ≤ n`; everything else — locals, calls, `return`, loops — allowed).
`NI n L P P'`: `P'` has the function constants of `P` plus possibly one more at `L` (`P.fns L = none`), and every
function body of `P` avoids the slots `≤ n`.
`all_ni`: for avoiding text (and for `callFn` without any condition), from globals that agree above `n` and the
same locals, with the same fuel: the `P`-run is `bad` (a call of the dangling constant `L`), or both runs have the
same kind of result with the same values / locals, the final globals agree above `n`, and each run leaves its own
slots `≤ n` unchanged (`St`).
-/
set_option linter.unusedVariables false
set_option linter.unusedSimpArgs false
namespace Tengo.Proofs.C11Place
open Tengo.Model Tengo.Model.F3
open Tengo.Model.F0 (Sem upd)
variable {V : Type}

/-! ### avoidance -/

mutual
  def avE (n : Nat) : Ex → Bool
    | .lit _ => true | .tru => true | .fls => true | .undef => true
    | .glob i => decide (n < i)
    | .loc _ => true
    | .bin _ l r => avE n l && avE n r
    | .eq l r => avE n l && avE n r
    | .ne l r => avE n l && avE n r
    | .land l r => avE n l && avE n r
    | .lor l r => avE n l && avE n r
    | .neg e => avE n e | .bnot e => avE n e | .lnot e => avE n e | .plus e => avE n e
    | .cond c t f => avE n c && avE n t && avE n f
    | .call f args => avE n f && avEs n args
  def avEs (n : Nat) : Exs → Bool
    | .nil => true
    | .cons e es => avE n e && avEs n es
end

mutual
  def avS (n : Nat) : Stm → Bool
    | .expr e => avE n e
    | .assign i e => decide (n < i) && avE n e
    | .defl _ e => avE n e
    | .setl _ e => avE n e
    | .ifs c b => avE n c && avSs n b
    | .ifelse c b e => avE n c && avSs n b && avSs n e
    | .whil c b => avE n c && avSs n b
    | .forever b => avSs n b
    | .for3 c b p => avE n c && avSs n b && avS n p
    | .brk => true
    | .cont => true
    | .ret e => avE n e
    | .ret0 => true
  def avSs (n : Nat) : Stms → Bool
    | .nil => true
    | .cons s ss => avS n s && avSs n ss
end

/-! ### relations -/

/-- The globals agree above `n`. -/
def Sm (n : Nat) (g g' : Nat → V) : Prop := ∀ i, n < i → g i = g' i
/-- The slots `≤ n` are unchanged. -/
def Kp (n : Nat) (g g1 : Nat → V) : Prop := ∀ i, i ≤ n → g1 i = g i

def St (n : Nat) (g g' g1 g1' : Nat → V) : Prop := Sm n g1 g1' ∧ Kp n g g1 ∧ Kp n g' g1'

theorem St.refl {n : Nat} {g g' : Nat → V} (h : Sm n g g') : St n g g' g g' :=
  ⟨h, fun _ _ => rfl, fun _ _ => rfl⟩

theorem St.trans {n : Nat} {g g' g1 g1' g2 g2' : Nat → V} (h1 : St n g g' g1 g1') (h2 : St n g1 g1' g2 g2') :
    St n g g' g2 g2' :=
  ⟨h2.1, fun i hi => (h2.2.1 i hi).trans (h1.2.1 i hi), fun i hi => (h2.2.2 i hi).trans (h1.2.2 i hi)⟩

theorem St.upd {n : Nat} {g g' g1 g1' : Nat → V} (h : St n g g' g1 g1') {i : Nat} (hi : n < i) (v : V) :
    St n g g' (upd g1 i v) (upd g1' i v) := by
  refine ⟨fun j hj => ?_, fun j hj => ?_, fun j hj => ?_⟩
  · simp only [F0.upd]; by_cases hji : j = i
    · simp only [hji, if_true]
    · simp only [hji, if_false]; exact h.1 j hj
  · have : j ≠ i := by omega
    simp only [F0.upd, this, if_false]; exact h.2.1 j hj
  · have : j ≠ i := by omega
    simp only [F0.upd, this, if_false]; exact h.2.2 j hj

def RE (n : Nat) (g g' : Nat → V) (rG rL : ERes V) : Prop :=
  rG = .bad ∨ (∃ v g1 g1', rG = .val v g1 ∧ rL = .val v g1' ∧ St n g g' g1 g1') ∨
  (rG = .err ∧ rL = .err) ∨ (rG = .out ∧ rL = .out)

def REs (n : Nat) (g g' : Nat → V) (rG rL : EsRes V) : Prop :=
  rG = .bad ∨ (∃ vs g1 g1', rG = .vals vs g1 ∧ rL = .vals vs g1' ∧ St n g g' g1 g1') ∨
  (rG = .err ∧ rL = .err) ∨ (rG = .out ∧ rL = .out)

def RS (n : Nat) (g g' : Nat → V) (rG rL : Res V) : Prop :=
  rG = .bad ∨ (∃ g1 g1' l1, rG = .done g1 l1 ∧ rL = .done g1' l1 ∧ St n g g' g1 g1') ∨
  (∃ g1 g1' l1, rG = .brk g1 l1 ∧ rL = .brk g1' l1 ∧ St n g g' g1 g1') ∨
  (∃ g1 g1' l1, rG = .cont g1 l1 ∧ rL = .cont g1' l1 ∧ St n g g' g1 g1') ∨
  (∃ v g1 g1', rG = .ret v g1 ∧ rL = .ret v g1' ∧ St n g g' g1 g1') ∨
  (rG = .err ∧ rL = .err) ∨ (rG = .out ∧ rL = .out)

section
variable {n : Nat} {g g' g1 g1' : Nat → V}

theorem RE.bad (r : ERes V) : RE n g g' .bad r := Or.inl rfl
theorem RE.val (v : V) (h : St n g g' g1 g1') : RE n g g' (.val v g1) (.val v g1') :=
  Or.inr (Or.inl ⟨v, g1, g1', rfl, rfl, h⟩)
theorem RE.err : RE n g g' (.err : ERes V) .err := Or.inr (Or.inr (Or.inl ⟨rfl, rfl⟩))
theorem RE.out : RE n g g' (.out : ERes V) .out := Or.inr (Or.inr (Or.inr ⟨rfl, rfl⟩))
theorem RE.mono {r r' : ERes V} (h : St n g g' g1 g1') : RE n g1 g1' r r' → RE n g g' r r' := by
  intro hr
  rcases hr with hb | ⟨v, g2, g2', hG, hL, h2⟩ | h3 | h4
  · exact Or.inl hb
  · exact Or.inr (Or.inl ⟨v, g2, g2', hG, hL, h.trans h2⟩)
  · exact Or.inr (Or.inr (Or.inl h3))
  · exact Or.inr (Or.inr (Or.inr h4))

theorem REs.bad (r : EsRes V) : REs n g g' .bad r := Or.inl rfl
theorem REs.vals (vs : List V) (h : St n g g' g1 g1') : REs n g g' (.vals vs g1) (.vals vs g1') :=
  Or.inr (Or.inl ⟨vs, g1, g1', rfl, rfl, h⟩)
theorem REs.err : REs n g g' (.err : EsRes V) .err := Or.inr (Or.inr (Or.inl ⟨rfl, rfl⟩))
theorem REs.out : REs n g g' (.out : EsRes V) .out := Or.inr (Or.inr (Or.inr ⟨rfl, rfl⟩))
theorem REs.mono {r r' : EsRes V} (h : St n g g' g1 g1') : REs n g1 g1' r r' → REs n g g' r r' := by
  intro hr
  rcases hr with hb | ⟨v, g2, g2', hG, hL, h2⟩ | h3 | h4
  · exact Or.inl hb
  · exact Or.inr (Or.inl ⟨v, g2, g2', hG, hL, h.trans h2⟩)
  · exact Or.inr (Or.inr (Or.inl h3))
  · exact Or.inr (Or.inr (Or.inr h4))

theorem RS.bad (r : Res V) : RS n g g' .bad r := Or.inl rfl
theorem RS.done {l1 : Locals V} (h : St n g g' g1 g1') : RS n g g' (.done g1 l1) (.done g1' l1) :=
  Or.inr (Or.inl ⟨g1, g1', l1, rfl, rfl, h⟩)
theorem RS.brk {l1 : Locals V} (h : St n g g' g1 g1') : RS n g g' (.brk g1 l1) (.brk g1' l1) :=
  Or.inr (Or.inr (Or.inl ⟨g1, g1', l1, rfl, rfl, h⟩))
theorem RS.cont {l1 : Locals V} (h : St n g g' g1 g1') : RS n g g' (.cont g1 l1) (.cont g1' l1) :=
  Or.inr (Or.inr (Or.inr (Or.inl ⟨g1, g1', l1, rfl, rfl, h⟩)))
theorem RS.ret {v : V} (h : St n g g' g1 g1') : RS n g g' (.ret v g1) (.ret v g1') :=
  Or.inr (Or.inr (Or.inr (Or.inr (Or.inl ⟨v, g1, g1', rfl, rfl, h⟩))))
theorem RS.err : RS n g g' (.err : Res V) .err := Or.inr (Or.inr (Or.inr (Or.inr (Or.inr (Or.inl ⟨rfl, rfl⟩)))))
theorem RS.out : RS n g g' (.out : Res V) .out := Or.inr (Or.inr (Or.inr (Or.inr (Or.inr (Or.inr ⟨rfl, rfl⟩)))))
theorem RS.mono {r r' : Res V} (h : St n g g' g1 g1') : RS n g1 g1' r r' → RS n g g' r r' := by
  intro hr
  rcases hr with hb | ⟨a, b, c, hG, hL, h2⟩ | ⟨a, b, c, hG, hL, h2⟩ | ⟨a, b, c, hG, hL, h2⟩ | ⟨a, b, c, hG, hL, h2⟩ |
    h3 | h4
  · exact Or.inl hb
  · subst hG; subst hL; exact RS.done (h.trans h2)
  · subst hG; subst hL; exact RS.brk (h.trans h2)
  · subst hG; subst hL; exact RS.cont (h.trans h2)
  · subst hG; subst hL; exact RS.ret (h.trans h2)
  · rw [h3.1, h3.2]; exact RS.err
  · rw [h4.1, h4.2]; exact RS.out

end

set_option hygiene false in
macro "ni_t" : tactic => `(tactic| first
  | (simp only [hb, ERes.toRes]; exact RE.bad _)
  | (simp only [hb, ERes.toRes]; exact REs.bad _)
  | (simp only [hb, ERes.toRes]; exact RS.bad _)
  | (simp only [hG, hL, ERes.toRes]; exact RE.err)
  | (simp only [hG, hL, ERes.toRes]; exact RE.out)
  | (simp only [hG, hL, ERes.toRes]; exact REs.err)
  | (simp only [hG, hL, ERes.toRes]; exact REs.out)
  | (simp only [hG, hL, ERes.toRes]; exact RS.err)
  | (simp only [hG, hL, ERes.toRes]; exact RS.out))

/-- `P'` is `P` plus possibly a function constant `L`; the function bodies of `P` avoid the slots `≤ n`. -/
structure NI (n L : Nat) (P P' : Prog) : Prop where
  same : ∀ k, k ≠ L → P'.fns k = P.fns k
  noL : P.fns L = none
  av : ∀ k fd, P.fns k = some fd → avSs n fd.body = true

structure AllNI (E : Env V) (n : Nat) (P P' : Prog) (f : Nat) : Prop where
  e : ∀ (e : Ex) (g g' : Nat → V) (l : Locals V), avE n e = true → Sm n g g' →
    RE n g g' (evalE E P f e g l) (evalE E P' f e g' l)
  es : ∀ (es : Exs) (g g' : Nat → V) (l : Locals V), avEs n es = true → Sm n g g' →
    REs n g g' (evalEs E P f es g l) (evalEs E P' f es g' l)
  call : ∀ (fv : V) (vs : List V) (g g' : Nat → V), Sm n g g' →
    RE n g g' (callFn E P f fv vs g) (callFn E P' f fv vs g')
  s : ∀ (s : Stm) (g g' : Nat → V) (l : Locals V), avS n s = true → Sm n g g' →
    RS n g g' (execS E P f s g l) (execS E P' f s g' l)
  ss : ∀ (ss : Stms) (g g' : Nat → V) (l : Locals V), avSs n ss = true → Sm n g g' →
    RS n g g' (execSs E P f ss g l) (execSs E P' f ss g' l)

section
variable {E : Env V} {n L : Nat} {P P' : Prog}

theorem niE_succ {f : Nat} (ih : AllNI E n P P' f) (e : Ex) (g g' : Nat → V) (l : Locals V)
    (hc : avE n e = true) (hs : Sm n g g') :
    RE n g g' (evalE E P (f + 1) e g l) (evalE E P' (f + 1) e g' l) := by
  cases e with
  | lit k => simp only [evalE]; exact RE.val _ (St.refl hs)
  | tru => simp only [evalE]; exact RE.val _ (St.refl hs)
  | fls => simp only [evalE]; exact RE.val _ (St.refl hs)
  | undef => simp only [evalE]; exact RE.val _ (St.refl hs)
  | glob i =>
    simp only [avE, decide_eq_true_eq] at hc
    simp only [evalE]; rw [hs i hc]; exact RE.val _ (St.refl hs)
  | loc i =>
    simp only [evalE]
    cases l i with
    | none => exact RE.bad _
    | some v => exact RE.val _ (St.refl hs)
  | bin tok a b =>
    simp only [avE, Bool.and_eq_true] at hc
    simp only [evalE]
    rcases ih.e a g g' l hc.1 hs with hb | ⟨x, g1, g1', hG, hL, h1⟩ | ⟨hG, hL⟩ | ⟨hG, hL⟩
    · ni_t
    · simp only [hG, hL]
      refine RE.mono h1 ?_
      rcases ih.e b g1 g1' l hc.2 h1.1 with hb | ⟨y, g2, g2', hG, hL, h2⟩ | ⟨hG, hL⟩ | ⟨hG, hL⟩
      · ni_t
      · simp only [hG, hL]
        cases E.S.binop tok x y with
        | none => exact RE.err
        | some v => exact RE.val _ h2
      · ni_t
      · ni_t
    · ni_t
    · ni_t
  | eq a b =>
    simp only [avE, Bool.and_eq_true] at hc
    simp only [evalE]
    rcases ih.e a g g' l hc.1 hs with hb | ⟨x, g1, g1', hG, hL, h1⟩ | ⟨hG, hL⟩ | ⟨hG, hL⟩
    · ni_t
    · simp only [hG, hL]
      refine RE.mono h1 ?_
      rcases ih.e b g1 g1' l hc.2 h1.1 with hb | ⟨y, g2, g2', hG, hL, h2⟩ | ⟨hG, hL⟩ | ⟨hG, hL⟩
      · ni_t
      · simp only [hG, hL]; exact RE.val _ h2
      · ni_t
      · ni_t
    · ni_t
    · ni_t
  | ne a b =>
    simp only [avE, Bool.and_eq_true] at hc
    simp only [evalE]
    rcases ih.e a g g' l hc.1 hs with hb | ⟨x, g1, g1', hG, hL, h1⟩ | ⟨hG, hL⟩ | ⟨hG, hL⟩
    · ni_t
    · simp only [hG, hL]
      refine RE.mono h1 ?_
      rcases ih.e b g1 g1' l hc.2 h1.1 with hb | ⟨y, g2, g2', hG, hL, h2⟩ | ⟨hG, hL⟩ | ⟨hG, hL⟩
      · ni_t
      · simp only [hG, hL]; exact RE.val _ h2
      · ni_t
      · ni_t
    · ni_t
    · ni_t
  | neg a =>
    simp only [avE] at hc
    simp only [evalE]
    rcases ih.e a g g' l hc hs with hb | ⟨x, g1, g1', hG, hL, h1⟩ | ⟨hG, hL⟩ | ⟨hG, hL⟩
    · ni_t
    · simp only [hG, hL]
      cases E.S.neg x with
      | none => exact RE.err
      | some v => exact RE.val _ h1
    · ni_t
    · ni_t
  | bnot a =>
    simp only [avE] at hc
    simp only [evalE]
    rcases ih.e a g g' l hc hs with hb | ⟨x, g1, g1', hG, hL, h1⟩ | ⟨hG, hL⟩ | ⟨hG, hL⟩
    · ni_t
    · simp only [hG, hL]
      cases E.S.bnot x with
      | none => exact RE.err
      | some v => exact RE.val _ h1
    · ni_t
    · ni_t
  | lnot a =>
    simp only [avE] at hc
    simp only [evalE]
    rcases ih.e a g g' l hc hs with hb | ⟨x, g1, g1', hG, hL, h1⟩ | ⟨hG, hL⟩ | ⟨hG, hL⟩
    · ni_t
    · simp only [hG, hL]; exact RE.val _ h1
    · ni_t
    · ni_t
  | plus a =>
    simp only [avE] at hc
    simp only [evalE]
    exact ih.e a g g' l hc hs
  | cond c t e =>
    simp only [avE, Bool.and_eq_true] at hc
    simp only [evalE]
    rcases ih.e c g g' l hc.1.1 hs with hb | ⟨x, g1, g1', hG, hL, h1⟩ | ⟨hG, hL⟩ | ⟨hG, hL⟩
    · ni_t
    · simp only [hG, hL]
      refine RE.mono h1 ?_
      by_cases hfa : E.S.falsy x = true
      · simp only [hfa, if_true]; exact ih.e e g1 g1' l hc.2 h1.1
      · simp only [hfa, Bool.false_eq_true, if_false]; exact ih.e t g1 g1' l hc.1.2 h1.1
    · ni_t
    · ni_t
  | land a b =>
    simp only [avE, Bool.and_eq_true] at hc
    simp only [evalE]
    rcases ih.e a g g' l hc.1 hs with hb | ⟨x, g1, g1', hG, hL, h1⟩ | ⟨hG, hL⟩ | ⟨hG, hL⟩
    · ni_t
    · simp only [hG, hL]
      by_cases hfa : E.S.falsy x = true
      · simp only [hfa, if_true]; exact RE.val _ h1
      · simp only [hfa, Bool.false_eq_true, if_false]; exact RE.mono h1 (ih.e b g1 g1' l hc.2 h1.1)
    · ni_t
    · ni_t
  | lor a b =>
    simp only [avE, Bool.and_eq_true] at hc
    simp only [evalE]
    rcases ih.e a g g' l hc.1 hs with hb | ⟨x, g1, g1', hG, hL, h1⟩ | ⟨hG, hL⟩ | ⟨hG, hL⟩
    · ni_t
    · simp only [hG, hL]
      by_cases hfa : E.S.falsy x = true
      · simp only [hfa, if_true]; exact RE.mono h1 (ih.e b g1 g1' l hc.2 h1.1)
      · simp only [hfa, Bool.false_eq_true, if_false]; exact RE.val _ h1
    · ni_t
    · ni_t
  | call fe args =>
    simp only [avE, Bool.and_eq_true] at hc
    simp only [evalE]
    rcases ih.e fe g g' l hc.1 hs with hb | ⟨x, g1, g1', hG, hL, h1⟩ | ⟨hG, hL⟩ | ⟨hG, hL⟩
    · ni_t
    · simp only [hG, hL]
      refine RE.mono h1 ?_
      rcases ih.es args g1 g1' l hc.2 h1.1 with hb | ⟨vs, g2, g2', hG, hL, h2⟩ | ⟨hG, hL⟩ | ⟨hG, hL⟩
      · ni_t
      · simp only [hG, hL]; exact RE.mono h2 (ih.call x vs g2 g2' h2.1)
      · ni_t
      · ni_t
    · ni_t
    · ni_t

theorem niEs_succ {f : Nat} (ih : AllNI E n P P' f) (es : Exs) (g g' : Nat → V) (l : Locals V)
    (hc : avEs n es = true) (hs : Sm n g g') :
    REs n g g' (evalEs E P (f + 1) es g l) (evalEs E P' (f + 1) es g' l) := by
  cases es with
  | nil => simp only [evalEs]; exact REs.vals _ (St.refl hs)
  | cons e rest =>
    simp only [avEs, Bool.and_eq_true] at hc
    simp only [evalEs]
    rcases ih.e e g g' l hc.1 hs with hb | ⟨x, g1, g1', hG, hL, h1⟩ | ⟨hG, hL⟩ | ⟨hG, hL⟩
    · ni_t
    · simp only [hG, hL]
      refine REs.mono h1 ?_
      rcases ih.es rest g1 g1' l hc.2 h1.1 with hb | ⟨vs, g2, g2', hG, hL, h2⟩ | ⟨hG, hL⟩ | ⟨hG, hL⟩
      · ni_t
      · simp only [hG, hL]; exact REs.vals _ h2
      · ni_t
      · ni_t
    · ni_t
    · ni_t

theorem niCall_succ {f : Nat} (H : NI n L P P') (ih : AllNI E n P P' f) (fv : V) (vs : List V) (g g' : Nat → V)
    (hs : Sm n g g') :
    RE n g g' (callFn E P (f + 1) fv vs g) (callFn E P' (f + 1) fv vs g') := by
  simp only [callFn]
  cases hk : E.asFn fv with
  | none => exact RE.err
  | some k =>
    simp only []
    by_cases hkL : k = L
    · subst hkL; simp only [H.noL]; exact RE.bad _
    · rw [H.same k hkL]
      cases hfd : P.fns k with
      | none => exact RE.bad _
      | some fd =>
        simp only []
        by_cases hlen : vs.length ≠ fd.nparams
        · simp only [if_pos hlen]; exact RE.err
        · simp only [if_neg hlen]
          rcases ih.ss fd.body g g' (bindArgs vs) (H.av k fd hfd) hs with hb | ⟨a, b, c, hG, hL, h2⟩ |
            ⟨a, b, c, hG, hL, h2⟩ | ⟨a, b, c, hG, hL, h2⟩ | ⟨a, b, c, hG, hL, h2⟩ | ⟨hG, hL⟩ | ⟨hG, hL⟩
          · ni_t
          · simp only [hG, hL]; exact RE.val _ h2
          · simp only [hG, hL]; exact RE.bad _
          · simp only [hG, hL]; exact RE.bad _
          · simp only [hG, hL]; exact RE.val _ h2
          · ni_t
          · ni_t

/-- Loop body and what follows. -/
theorem niLoop {rG rL : Res V} {g g' : Nat → V} (K K' : (Nat → V) → Locals V → Res V)
    (hK : ∀ g2 g2' l2, Sm n g2 g2' → RS n g2 g2' (K g2 l2) (K' g2' l2)) :
    RS n g g' rG rL → RS n g g'
      (match rG with
        | .done g2 l2 => K g2 l2
        | .cont g2 l2 => K g2 l2
        | .brk g2 l2 => .done g2 l2
        | r => r)
      (match rL with
        | .done g2 l2 => K' g2 l2
        | .cont g2 l2 => K' g2 l2
        | .brk g2 l2 => .done g2 l2
        | r => r) := by
  intro h
  rcases h with hb | ⟨a, b, c, hG, hL, h2⟩ | ⟨a, b, c, hG, hL, h2⟩ | ⟨a, b, c, hG, hL, h2⟩ | ⟨a, b, c, hG, hL, h2⟩ |
    ⟨hG, hL⟩ | ⟨hG, hL⟩
  · ni_t
  · simp only [hG, hL]; exact RS.mono h2 (hK a b c h2.1)
  · simp only [hG, hL]; exact RS.done h2
  · simp only [hG, hL]; exact RS.mono h2 (hK a b c h2.1)
  · simp only [hG, hL]; exact RS.ret h2
  · ni_t
  · ni_t

/-- Sequencing. -/
theorem niSeq {rG rL : Res V} {g g' : Nat → V} (K K' : (Nat → V) → Locals V → Res V)
    (hK : ∀ g2 g2' l2, Sm n g2 g2' → RS n g2 g2' (K g2 l2) (K' g2' l2)) :
    RS n g g' rG rL → RS n g g'
      (match rG with
        | .done g2 l2 => K g2 l2
        | r => r)
      (match rL with
        | .done g2 l2 => K' g2 l2
        | r => r) := by
  intro h
  rcases h with hb | ⟨a, b, c, hG, hL, h2⟩ | ⟨a, b, c, hG, hL, h2⟩ | ⟨a, b, c, hG, hL, h2⟩ | ⟨a, b, c, hG, hL, h2⟩ |
    ⟨hG, hL⟩ | ⟨hG, hL⟩
  · ni_t
  · simp only [hG, hL]; exact RS.mono h2 (hK a b c h2.1)
  · simp only [hG, hL]; exact RS.brk h2
  · simp only [hG, hL]; exact RS.cont h2
  · simp only [hG, hL]; exact RS.ret h2
  · ni_t
  · ni_t

theorem niS_succ {f : Nat} (ih : AllNI E n P P' f) (s : Stm) (g g' : Nat → V) (l : Locals V)
    (hc : avS n s = true) (hs : Sm n g g') :
    RS n g g' (execS E P (f + 1) s g l) (execS E P' (f + 1) s g' l) := by
  cases s with
  | expr e =>
    simp only [avS] at hc
    simp only [execS]
    rcases ih.e e g g' l hc hs with hb | ⟨x, g1, g1', hG, hL, h1⟩ | ⟨hG, hL⟩ | ⟨hG, hL⟩
    · ni_t
    · simp only [hG, hL]; exact RS.done h1
    · ni_t
    · ni_t
  | assign i e =>
    simp only [avS, Bool.and_eq_true, decide_eq_true_eq] at hc
    simp only [execS]
    rcases ih.e e g g' l hc.2 hs with hb | ⟨x, g1, g1', hG, hL, h1⟩ | ⟨hG, hL⟩ | ⟨hG, hL⟩
    · ni_t
    · simp only [hG, hL]; exact RS.done (h1.upd hc.1 x)
    · ni_t
    · ni_t
  | defl i e =>
    simp only [avS] at hc
    simp only [execS]
    rcases ih.e e g g' l hc hs with hb | ⟨x, g1, g1', hG, hL, h1⟩ | ⟨hG, hL⟩ | ⟨hG, hL⟩
    · ni_t
    · simp only [hG, hL]; exact RS.done h1
    · ni_t
    · ni_t
  | setl i e =>
    simp only [avS] at hc
    simp only [execS]
    rcases ih.e e g g' l hc hs with hb | ⟨x, g1, g1', hG, hL, h1⟩ | ⟨hG, hL⟩ | ⟨hG, hL⟩
    · ni_t
    · simp only [hG, hL]; exact RS.done h1
    · ni_t
    · ni_t
  | ret e =>
    simp only [avS] at hc
    simp only [execS]
    rcases ih.e e g g' l hc hs with hb | ⟨x, g1, g1', hG, hL, h1⟩ | ⟨hG, hL⟩ | ⟨hG, hL⟩
    · ni_t
    · simp only [hG, hL]; exact RS.ret h1
    · ni_t
    · ni_t
  | ret0 => simp only [execS]; exact RS.ret (St.refl hs)
  | brk => simp only [execS]; exact RS.brk (St.refl hs)
  | cont => simp only [execS]; exact RS.cont (St.refl hs)
  | ifs c body =>
    simp only [avS, Bool.and_eq_true] at hc
    simp only [execS]
    rcases ih.e c g g' l hc.1 hs with hb | ⟨x, g1, g1', hG, hL, h1⟩ | ⟨hG, hL⟩ | ⟨hG, hL⟩
    · ni_t
    · simp only [hG, hL]
      by_cases hfa : E.S.falsy x = true
      · simp only [hfa, if_true]; exact RS.done h1
      · simp only [hfa, Bool.false_eq_true, if_false]; exact RS.mono h1 (ih.ss body g1 g1' l hc.2 h1.1)
    · ni_t
    · ni_t
  | ifelse c body els =>
    simp only [avS, Bool.and_eq_true] at hc
    simp only [execS]
    rcases ih.e c g g' l hc.1.1 hs with hb | ⟨x, g1, g1', hG, hL, h1⟩ | ⟨hG, hL⟩ | ⟨hG, hL⟩
    · ni_t
    · simp only [hG, hL]
      by_cases hfa : E.S.falsy x = true
      · simp only [hfa, if_true]; exact RS.mono h1 (ih.ss els g1 g1' l hc.2 h1.1)
      · simp only [hfa, Bool.false_eq_true, if_false]; exact RS.mono h1 (ih.ss body g1 g1' l hc.1.2 h1.1)
    · ni_t
    · ni_t
  | whil c body =>
    have hw := hc
    simp only [avS, Bool.and_eq_true] at hc
    simp only [execS]
    rcases ih.e c g g' l hc.1 hs with hb | ⟨x, g1, g1', hG, hL, h1⟩ | ⟨hG, hL⟩ | ⟨hG, hL⟩
    · ni_t
    · simp only [hG, hL]
      by_cases hfa : E.S.falsy x = true
      · simp only [hfa, if_true]; exact RS.done h1
      · simp only [hfa, Bool.false_eq_true, if_false]
        refine RS.mono h1 ?_
        exact niLoop (fun g2 l2 => execS E P f (.whil c body) g2 l2) (fun g2 l2 => execS E P' f (.whil c body) g2 l2)
          (fun g2 g2' l2 h2 => ih.s (.whil c body) g2 g2' l2 hw h2) (ih.ss body g1 g1' l hc.2 h1.1)
    · ni_t
    · ni_t
  | forever body =>
    have hw := hc
    simp only [avS] at hc
    simp only [execS]
    exact niLoop (fun g2 l2 => execS E P f (.forever body) g2 l2) (fun g2 l2 => execS E P' f (.forever body) g2 l2)
      (fun g2 g2' l2 h2 => ih.s (.forever body) g2 g2' l2 hw h2) (ih.ss body g g' l hc hs)
  | for3 c body post =>
    have hw := hc
    simp only [avS, Bool.and_eq_true] at hc
    simp only [execS]
    rcases ih.e c g g' l hc.1.1 hs with hb | ⟨x, g1, g1', hG, hL, h1⟩ | ⟨hG, hL⟩ | ⟨hG, hL⟩
    · ni_t
    · simp only [hG, hL]
      by_cases hfa : E.S.falsy x = true
      · simp only [hfa, if_true]; exact RS.done h1
      · simp only [hfa, Bool.false_eq_true, if_false]
        refine RS.mono h1 ?_
        refine niLoop
          (fun g2 l2 => match execS E P f post g2 l2 with
            | .done g3 l3 => execS E P f (.for3 c body post) g3 l3
            | r => r)
          (fun g2 l2 => match execS E P' f post g2 l2 with
            | .done g3 l3 => execS E P' f (.for3 c body post) g3 l3
            | r => r) (fun g2 g2' l2 h2 => ?_) (ih.ss body g1 g1' l hc.1.2 h1.1)
        exact niSeq (fun g3 l3 => execS E P f (.for3 c body post) g3 l3)
          (fun g3 l3 => execS E P' f (.for3 c body post) g3 l3)
          (fun g3 g3' l3 h3 => ih.s (.for3 c body post) g3 g3' l3 hw h3) (ih.s post g2 g2' l2 hc.2 h2)
    · ni_t
    · ni_t

theorem niSs_succ {f : Nat} (ih : AllNI E n P P' f) (ss : Stms) (g g' : Nat → V) (l : Locals V)
    (hc : avSs n ss = true) (hs : Sm n g g') :
    RS n g g' (execSs E P (f + 1) ss g l) (execSs E P' (f + 1) ss g' l) := by
  cases ss with
  | nil => simp only [execSs]; exact RS.done (St.refl hs)
  | cons s rest =>
    simp only [avSs, Bool.and_eq_true] at hc
    simp only [execSs]
    exact niSeq (fun g1 l1 => execSs E P f rest g1 l1) (fun g1 l1 => execSs E P' f rest g1 l1)
      (fun g2 g2' l2 h2 => ih.ss rest g2 g2' l2 hc.2 h2) (ih.s s g g' l hc.1 hs)

/-- **Non-interference** (see the module text). -/
theorem all_ni (E : Env V) {n L : Nat} {P P' : Prog} (H : NI n L P P') : ∀ f, AllNI E n P P' f := by
  intro f
  induction f with
  | zero =>
    exact ⟨fun e g g' l _ _ => by simp only [evalE]; exact RE.out,
      fun es g g' l _ _ => by simp only [evalEs]; exact REs.out,
      fun fv vs g g' _ => by simp only [callFn]; exact RE.out,
      fun s g g' l _ _ => by simp only [execS]; exact RS.out,
      fun ss g g' l _ _ => by simp only [execSs]; exact RS.out⟩
  | succ f ih => exact ⟨niE_succ ih, niEs_succ ih, niCall_succ H ih, niS_succ ih, niSs_succ ih⟩

end
end Tengo.Proofs.C11Place

import Tengo.Proofs.C17StarDir
import Tengo.Proofs.C17Multi
/-!
C17 (`*`, `[n]`, flag sets, BAD* renderings): the format loop over a list of structured items, with the
argument cursor (`argNum`, `reordered`; `goodArgNum` lives inside one directive) in the loop invariant.
Every iteration is one guarded write of the directive's documented text `dirOut`.
-/
namespace Tengo.Proofs.C17Star
open Tengo.Model.Format Tengo.Model.FormatSpec Tengo.Model.FormatSpecMulti Tengo.Model.FormatSpecStar Tengo.Proofs.FormatParse
  Tengo.Proofs.C17StarParse Tengo.Proofs.C17StarDir Tengo.Proofs.C17Multi Tengo.Props.C17

/-! ### `ToInt64` of the arguments -/

theorem intsRel_get (O : Oracle) : ∀ (args : List Arg) (ints : List (Option Int)), resolveInts O args = some ints →
    ∀ (k : Nat) (v : BitVec 64), args[k]? = some (Arg.int v) → ints[k]? = some (some v.toInt) := by
  intro args
  induction args with
  | nil => intro ints _ k v h; simp at h
  | cons a rest ih =>
    intro ints h k v hk
    simp only [resolveInts] at h
    split at h
    · rename_i x xs hx hxs
      injection h with h; subst h
      cases k with
      | zero =>
        simp only [List.getElem?_cons_zero, Option.some.injEq] at hk ⊢
        subst hk
        simp only [toInt64, Option.some.injEq] at hx
        exact hx.symm
      | succ j =>
        simp only [List.getElem?_cons_succ] at hk ⊢
        exact ih xs hxs j v hk
    · cases h

theorem intsRel_of_resolve (O : Oracle) (args : List Arg) (ints : List (Option Int)) (h : resolveInts O args = some ints) :
    IntsRel ints args := ⟨resolveInts_length O args ints h, intsRel_get O args ints h⟩

/-! ### the verb -/

theorem widthStage_verb (args : List Arg) (d : GDir) (c : Cur) (w : SNum) : (widthStage args d c w).1.verb = d.verb := by
  cases w with
  | none => rfl
  | lit n => rfl
  | star i => simp only [widthStage]; split <;> rfl
  | dot z n => rfl
  | ilit i n => rfl
  | idx i => rfl

theorem precStage_verb (args : List Arg) (d : GDir) (c : Cur) (p : SNum) : (precStage args d c p).1.verb = d.verb := by
  cases p with
  | none => rfl
  | lit n => rfl
  | star i =>
    simp only [precStage]
    split
    · split <;> rfl
    · rfl
  | dot z n => rfl
  | ilit i n => rfl
  | idx i => rfl

theorem evalHead_verb (args : List Arg) (k : Nat) (sd : SDir) : (evalHead args k sd).d.verb = sd.verb.getD 0 := by
  simp only [evalHead, precStage_verb, widthStage_verb, baseDir]

/-- Verb level `M = G` for an operand the verb is documented for (any width, any precision). -/
theorem printArg_eq_G' (O : Oracle) (L : Nat) (d : GDir) (a : Arg) (buf : Bytes) (hv : VerbArgOk d.verb a) (h : buf.length ≤ L) :
    printArg O L (flOf d) buf a d.verb = write L buf (match ofArg a with | some g => renderDir d g | none => []) := by
  cases a with
  | int v =>
    simp only [VerbArgOk, isIntVerb, Bool.or_eq_true, beq_iff_eq] at hv
    by_cases h99 : d.verb = 99
    · simp only [ofArg, renderDir, h99, if_true]
      rw [← h99]; exact M_eq_G_char O L d buf v h99 h
    · simp only [ofArg, renderDir, h99, if_false]
      exact M_eq_G_int O L d buf v (by omega) h
  | str s => exact (M_eq_G_str O L d buf s hv h).1
  | bytes s => exact (M_eq_G_str O L d buf s hv h).2
  | bool b => exact M_eq_G_bool O L d buf b hv h
  | float b => exact absurd hv (by simp [VerbArgOk])

theorem opt_write (L : Nat) (b : Bool) (buf t : Bytes) (h : buf.length ≤ L) :
    (if b then write L buf t else (.ok buf : R)) = write L buf (if b then t else []) := by
  cases b
  · simp only [Bool.false_eq_true, if_false]; exact (write_nil L buf h).symm
  · simp only [if_true]

/-- The verb's part of `renderDirective`. -/
def verbPart (O : Oracle) (L : Nat) (args : List Arg) (f : Fl) (verb : Option Nat) (good : Bool) (argNum : Nat) (buf : Bytes) : R :=
  match verb with
  | none => write L buf [37, 33, 40, 78, 79, 86, 69, 82, 66, 41]
  | some verb =>
    if verb = 37 then write L buf [37]
    else if !good then verbError L buf verb [40, 66, 65, 68, 73, 78, 68, 69, 88, 41]
    else
      match args[argNum]? with
      | none => verbError L buf verb [40, 77, 73, 83, 83, 73, 78, 71, 41]
      | some a => printArg O L (if verb = 118 then vFlags f else f) buf a verb

theorem renderDirective_parts (O : Oracle) (L : Nat) (args : List Arg) (d : Dir) (buf : Bytes) :
    renderDirective O L args d buf =
      ((if d.badWidth then write L buf badWidthText else .ok buf) >>= fun b1 =>
        (if d.badPrec then write L b1 badPrecText else .ok b1) >>= fun b2 =>
          verbPart O L args d.f d.verb d.good d.argNum b2) := rfl

theorem verbPart_star (O : Oracle) (L : Nat) (args : List Arg) (k : Nat) (sd : SDir) (b2 : Bytes)
    (hok : SDirOk args k sd) (hb2 : b2.length ≤ L) :
    verbPart O L args (flOf (evalHead args k sd).d) sd.verb (evalHead args k sd).cur.good (evalHead args k sd).cur.argNum b2 =
      write L b2 (verbOut args (evalHead args k sd) sd.verb) := by
  obtain ⟨_, _, _, _, _, _, _, hv, hva⟩ := hok
  cases hverb : sd.verb with
  | none => rfl
  | some verb =>
    have hkv := hv verb hverb
    simp only [verbOut, verbPart]
    by_cases h37 : verb = 37
    · simp only [h37, if_true]
    · simp only [h37, if_false]
      cases hg : (evalHead args k sd).cur.good with
      | false =>
        simp only [Bool.not_false, if_true, verbError, badIndexText]
        exact write3 L b2 _ _ _
      | true =>
        simp only [Bool.not_true, Bool.false_eq_true, if_false]
        have hdv : (evalHead args k sd).d.verb = verb := by rw [evalHead_verb, hverb]; rfl
        cases hget : args[(evalHead args k sd).cur.argNum]? with
        | none =>
          simp only [verbError, missingText, hdv]
          exact write3 L b2 _ _ _
        | some a =>
          have hvok := hva verb a hverb h37 hg hget
          have h118 : verb ≠ 118 := by
            intro h; subst h
            simp [isKnownVerb, isIntVerb] at hkv
          simp only [h118, if_false]
          have := printArg_eq_G' O L (evalHead args k sd).d a b2 (by rw [hdv]; exact hvok) hb2
          rw [hdv] at this
          exact this

/-- One directive: one guarded write of its documented text. -/
theorem renderDirective_star (O : Oracle) (L : Nat) (args : List Arg) (k : Nat) (sd : SDir) (buf : Bytes)
    (hok : SDirOk args k sd) (hb : buf.length ≤ L) :
    renderDirective O L args (expectedS args k sd) buf = write L buf (dirOut args k sd) := by
  rw [renderDirective_parts]
  show ((if (evalHead args k sd).badWidth then write L buf badWidthText else .ok buf) >>= fun b1 =>
        (if (evalHead args k sd).badPrec then write L b1 badPrecText else .ok b1) >>= fun b2 =>
          verbPart O L args (flOf (evalHead args k sd).d) sd.verb (evalHead args k sd).cur.good (evalHead args k sd).cur.argNum b2) = _
  unfold dirOut
  rw [opt_write L _ buf badWidthText hb]
  apply write_then
  intro b1 hw1
  have hb1 := (write_ok L buf _ b1 hw1).2
  show ((if (evalHead args k sd).badPrec = true then write L b1 badPrecText else .ok b1) >>= _) = _
  rw [opt_write L _ b1 badPrecText hb1]
  apply write_then
  intro b2 hw2
  exact verbPart_star O L args k sd b2 hok (write_ok L b1 _ b2 hw2).2

/-! ### the loop -/

/-- One structured directive in the loop: one guarded write of `dirOut`, the cursor moves to `dirNext`,
`reordered` is sticky. (A directive without verb ends the format: `rest = []`, and the loop over `[]`
returns the state.) -/
theorem loop_sdir (O : Oracle) (L : Nat) (args : List Arg) (ints : List (Option Int)) (hr : IntsRel ints args) (sd : SDir)
    (rest : Bytes) (st : LoopOut) (hok : SDirOk args st.argNum sd) (hend : sd.verb = none → rest = []) (hb : st.buf.length ≤ L) :
    loop O L args ints (37 :: (bodyText sd ++ rest)) st =
      (write L st.buf (dirOut args st.argNum sd) >>= fun buf =>
        loop O L args ints rest { buf := buf, argNum := dirNext args st.argNum sd,
                                  reordered := st.reordered || dirReordered args st.argNum sd }) := by
  rw [loop_percent, parse_star ints args hr st.argNum sd rest hok hend, renderDirective_star O L args st.argNum sd st.buf hok hb]
  cases hw : write L st.buf (dirOut args st.argNum sd) with
  | error e => rfl
  | ok b =>
    have hnext : nextArgNum args.length (expectedS args st.argNum sd) = dirNext args st.argNum sd := rfl
    have hreo : (expectedS args st.argNum sd).reordered = dirReordered args st.argNum sd := rfl
    have hn : (expectedS args st.argNum sd).n = (bodyText sd).length := rfl
    have hvb : (expectedS args st.argNum sd).verb = sd.verb := rfl
    simp only [hnext, hreo, hn, hvb, List.drop_left, bind, Except.bind]
    cases hverb : sd.verb with
    | none =>
      rw [hend hverb, loop_nil]
      rfl
    | some v => rfl

theorem renderFrom_lit (args : List Arg) (k : Nat) (r : Bool) (s : Bytes) (rest : List SItem) :
    renderFrom args k r (.lit s :: rest) =
      { text := s ++ (renderFrom args k r rest).text, argNum := (renderFrom args k r rest).argNum,
        reordered := (renderFrom args k r rest).reordered } := rfl

theorem renderFrom_dir (args : List Arg) (k : Nat) (r : Bool) (d : SDir) (rest : List SItem) :
    renderFrom args k r (.dir d :: rest) =
      { text := dirOut args k d ++ (renderFrom args (dirNext args k d) (r || dirReordered args k d) rest).text,
        argNum := (renderFrom args (dirNext args k d) (r || dirReordered args k d) rest).argNum,
        reordered := (renderFrom args (dirNext args k d) (r || dirReordered args k d) rest).reordered } := rfl

/-- **The loop invariant with the argument cursor.** From any state whose buffer is within the limit,
the loop over the printed items is one guarded write of the documented text from that cursor on, and it
ends in the documented cursor. -/
theorem loop_sitems (O : Oracle) (L : Nat) (args : List Arg) (ints : List (Option Int)) (hr : IntsRel ints args) :
    ∀ (items : List SItem) (st : LoopOut), SItemsOk args st.argNum items → st.buf.length ≤ L →
      loop O L args ints (showSItems items) st =
        (write L st.buf (renderFrom args st.argNum st.reordered items).text >>= fun buf =>
          .ok { buf := buf, argNum := (renderFrom args st.argNum st.reordered items).argNum,
                reordered := (renderFrom args st.argNum st.reordered items).reordered }) := by
  intro items
  induction items with
  | nil =>
    intro st _ hb
    simp only [showSItems, loop_nil, renderFrom]
    rw [write_nil L st.buf hb]
    rfl
  | cons it rest ih =>
    intro st hok hb
    cases it with
    | lit s =>
      obtain ⟨hs, hokr⟩ : (37 : UInt8) ∉ s ∧ SItemsOk args st.argNum rest := hok
      simp only [showSItems, showSItem, renderFrom_lit]
      rw [loop_lit O L args ints s (showSItems rest) st hs hb]
      exact step_combine L st.buf s _ _ _ (fun b hw => by
        obtain ⟨_, hbl⟩ := write_ok L st.buf s b hw
        exact ih { st with buf := b } hokr hbl)
    | dir d =>
      obtain ⟨hd, hend, hokr⟩ : SDirOk args st.argNum d ∧ (d.verb = none → rest = []) ∧ SItemsOk args (dirNext args st.argNum d) rest := hok
      have hend' : d.verb = none → showSItems rest = [] := fun h => by rw [hend h]; rfl
      simp only [showSItems, showSItem, renderFrom_dir, List.cons_append]
      rw [loop_sdir O L args ints hr d (showSItems rest) st hd hend' hb]
      exact step_combine L st.buf (dirOut args st.argNum d) _ _ _ (fun b hw => by
        obtain ⟨_, hbl⟩ := write_ok L st.buf _ b hw
        exact ih { buf := b, argNum := dirNext args st.argNum d, reordered := st.reordered || dirReordered args st.argNum d } hokr hbl)

/-- `Format` on the printed items: the loop's single guarded write, then the surplus check. -/
theorem format_sitems (O : Oracle) (L : Nat) (items : List SItem) (args : List Arg) (ints : List (Option Int))
    (hints : resolveInts O args = some ints) (hok : SItemsOk args 0 items) (hused : AllUsed items args) :
    format O L (showSItems items) args = write L [] (renderAllStar items args) := by
  unfold format
  rw [hints]
  simp only []
  rw [loop_sitems O L args ints (intsRel_of_resolve O args ints hints) items { buf := [], argNum := 0, reordered := false } hok (Nat.zero_le _)]
  unfold renderAllStar
  cases hw : write L [] (renderFrom args 0 false items).text with
  | error e => rfl
  | ok b =>
    simp only [bind, Except.bind]
    have hcond : (!(renderFrom args 0 false items).reordered && decide ((renderFrom args 0 false items).argNum < args.length)) = false := by
      rcases hused with h | h
      · rw [h]; rfl
      · have : ¬ ((renderFrom args 0 false items).argNum < args.length) := by omega
        simp [this]
    rw [hcond]
    rfl

/-- The surplus branch: operands left over and no index used — the model appends its `%!(EXTRA …)` text. -/
theorem format_sitems_surplus (O : Oracle) (L : Nat) (items : List SItem) (args : List Arg) (ints : List (Option Int))
    (str : Arg → Bytes) (hints : resolveInts O args = some ints) (hok : SItemsOk args 0 items)
    (hre : (renderFrom args 0 false items).reordered = false) (hlt : (renderFrom args 0 false items).argNum < args.length)
    (hstr : ∀ a ∈ args.drop (renderFrom args 0 false items).argNum, argString O a = some (str a)) :
    format O L (showSItems items) args =
      write L [] (renderAllStar items args ++ extraSuffix str (args.drop (renderFrom args 0 false items).argNum)) := by
  unfold format
  rw [hints]
  simp only []
  rw [loop_sitems O L args ints (intsRel_of_resolve O args ints hints) items { buf := [], argNum := 0, reordered := false } hok (Nat.zero_le _)]
  unfold renderAllStar
  rw [← write_write]
  cases hw : write L [] (renderFrom args 0 false items).text with
  | error e => rfl
  | ok b =>
    have hbl := (write_ok L [] _ b hw).2
    simp only [bind, Except.bind, hre, hlt, Bool.not_false, Bool.true_and, decide_true, if_true]
    show (write L b [37, 33, 40, 69, 88, 84, 82, 65, 32] >>= fun buf =>
      extras O L true buf (args.drop (renderFrom args 0 false items).argNum) >>= fun buf => write L buf [41]) = _
    unfold extraSuffix
    rw [List.append_assoc]
    apply write_then
    intro b1 hb1
    rw [extras_eq O L str _ hstr true b1 (write_ok L b _ b1 hb1).2]
    exact write_write L b1 _ _

end Tengo.Proofs.C17Star

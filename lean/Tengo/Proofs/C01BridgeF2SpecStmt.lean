import Tengo.Proofs.C01BridgeF2Defs
import Tengo.Proofs.C01BridgeSpecStmt
/-!
C01 bridge for fragment F2, reference-interpreter side (statements): the reference interpreter's statement
executor (`Spec.execStmt`, `execStmts`, `execBlock`, `loopFor`) on the embedded program computes what the
fragment's fuel-indexed evaluator `F2.exec vmSem` computes (`all_sim2`), `break` / `continue` included: a result
`done` / `brk` / `cont` of `F2.exec` is the interpreter's `Flow` `normal` / `brk` / `cont` — with the slot cells
holding the result's globals, in the same environment —, loops catch `brk` / `cont` on both sides, the post
statement of a three-clause loop runs after a `continue` on both sides; an `err` of `F2.exec` is an error of the
interpreter other than fuel exhaustion.
-/
set_option linter.unusedVariables false
set_option linter.unusedSimpArgs false
namespace Tengo.Proofs.C01Bridge
open Tengo.Model Tengo.Model.Spec Tengo.Model.F0
open Tengo.Proofs.C11Rename (isFuncLit)

theorem ex_branch_break (F : Nat) (ctx : Ctx) :
    execStmt (F + 1) ctx (.branch "Break") = pure (Flow.brk, ctx.env) := by
  simp only [execStmt]; rfl

theorem ex_branch_continue (F : Nat) (ctx : Ctx) :
    execStmt (F + 1) ctx (.branch "Continue") = pure (Flow.cont, ctx.env) := by
  simp only [execStmt]; rfl

theorem ex_for3 (F : Nat) (ctx : Ctx) (c : Expr) (p : Stmt) (body : List Stmt) :
    execStmt (F + 1) ctx (.fors none (some c) (some p) body) = (do
      let fl ← loopFor F { ctx with env := { vars := [] } :: ctx.env } (some c) (some p) body
      pure (fl, ctx.env)) := by
  simp only [execStmt]; rfl

theorem ex_loop_post (F : Nat) (ctx : Ctx) (c : Expr) (p : Stmt) (body : List Stmt) :
    loopFor (F + 1) ctx (some c) (some p) body = (do
      let cv ← evalExpr F ctx c
      let b ← Spec.liftM (isFalsy cv)
      if (!(!b)) = true then pure Flow.normal
      else do
        let fl ← execBlock F ctx body 1
        match fl with
          | .brk => pure Flow.normal
          | .ret v => pure (Flow.ret v)
          | _ => do
            let _ ← execStmt F { ctx with path := 3 :: ctx.path } p
            loopFor F ctx (some c) (some p) body) := by
  rw [loopFor.eq_2]
  rfl

/-! ### results of the fragment's evaluator against runs of the interpreter -/

section
variable (names : Nat → String) (ctab : Nat → F0.Const) (n : Nat) (cells : Nat → Nat)

/-- Outcome of an interpreter computation `x` against the fragment's result: `done` / `brk` / `cont` is a
successful run returning `mk` of the flow `normal` / `brk` / `cont` with the cells holding the result's globals;
`err` is a failure other than fuel exhaustion. -/
def SimRes2 {α : Type} (x : EM α) (mk : Flow → α) (gs : GSt) (σ : St) : F2.Res SV → Prop
  | .done g' => ∃ σ', EOk x gs σ (mk .normal) σ' ∧ HeapOK n cells g' σ'
  | .brk g' => ∃ σ', EOk x gs σ (mk .brk) σ' ∧ HeapOK n cells g' σ'
  | .cont g' => ∃ σ', EOk x gs σ (mk .cont) σ' ∧ HeapOK n cells g' σ'
  | .err => ∃ err, err ≠ Err.fuel ∧ EErr x gs σ err
  | .out => True

def StmtSim2 (f : Nat) (st : F2.Stm) : Prop :=
  ∀ (F : Nat) (ctx : Ctx) (gs : GSt) (σ : St) (g : Nat → SV) (k : Nat),
    4 * f + budS2 st ≤ F → EnvOK names n cells ctx.env → HeapOK n cells g σ → wfS2 n k st = true →
    simplePostS st = true →
    SimRes2 n cells (execStmt F ctx (toAstS2 names ctab st)) (fun fl => (fl, ctx.env)) gs σ
      (F2.exec vmSem (svConst ctab) f (.inl st) g)

def StmtsSim2 (f : Nat) (ss : F2.Stms) : Prop :=
  ∀ (F : Nat) (ctx : Ctx) (gs : GSt) (σ : St) (g : Nat → SV) (k i : Nat),
    4 * f + budSs2 ss ≤ F → EnvOK names n cells ctx.env → HeapOK n cells g σ → wfSs2 n k ss = true →
    simplePostSs ss = true →
    SimRes2 n cells (execStmts F ctx (toAstSs2 names ctab ss) i) (fun fl => (fl, ctx.env)) gs σ
      (F2.exec vmSem (svConst ctab) f (.inr ss) g)

def BlockSim2 (f : Nat) (ss : F2.Stms) : Prop :=
  ∀ (F : Nat) (ctx : Ctx) (gs : GSt) (σ : St) (g : Nat → SV) (k tag : Nat),
    4 * f + budSs2 ss + 1 ≤ F → EnvOK names n cells ctx.env → HeapOK n cells g σ → wfSs2 n k ss = true →
    simplePostSs ss = true →
    SimRes2 n cells (execBlock F ctx (toAstSs2 names ctab ss) tag) (fun fl => fl) gs σ
      (F2.exec vmSem (svConst ctab) f (.inr ss) g)

def WhileSim2 (f : Nat) (c : Ex) (body : F2.Stms) : Prop :=
  ∀ (F : Nat) (ctx : Ctx) (gs : GSt) (σ : St) (g : Nat → SV) (k : Nat),
    4 * f + budS2 (.whil c body) ≤ F + 1 → EnvOK names n cells ctx.env → HeapOK n cells g σ →
    wfS2 n k (.whil c body) = true → simplePostS (.whil c body) = true →
    SimRes2 n cells (loopFor F ctx (some (toAstE names ctab c)) none (toAstSs2 names ctab body)) (fun fl => fl) gs σ
      (F2.exec vmSem (svConst ctab) f (.inl (.whil c body)) g)

def ForeverSim2 (f : Nat) (body : F2.Stms) : Prop :=
  ∀ (F : Nat) (ctx : Ctx) (gs : GSt) (σ : St) (g : Nat → SV) (k : Nat),
    4 * f + budS2 (.forever body) ≤ F + 1 → EnvOK names n cells ctx.env → HeapOK n cells g σ →
    wfS2 n k (.forever body) = true → simplePostS (.forever body) = true →
    SimRes2 n cells (loopFor F ctx none none (toAstSs2 names ctab body)) (fun fl => fl) gs σ
      (F2.exec vmSem (svConst ctab) f (.inl (.forever body)) g)

def For3Sim2 (f : Nat) (c : Ex) (body : F2.Stms) (post : F2.Stm) : Prop :=
  ∀ (F : Nat) (ctx : Ctx) (gs : GSt) (σ : St) (g : Nat → SV) (k : Nat),
    4 * f + budS2 (.for3 c body post) ≤ F + 1 → EnvOK names n cells ctx.env → HeapOK n cells g σ →
    wfS2 n k (.for3 c body post) = true → simplePostS (.for3 c body post) = true →
    SimRes2 n cells (loopFor F ctx (some (toAstE names ctab c)) (some (toAstS2 names ctab post))
        (toAstSs2 names ctab body)) (fun fl => fl) gs σ
      (F2.exec vmSem (svConst ctab) f (.inl (.for3 c body post)) g)

variable {names ctab n cells}

theorem SimRes2.bind_ok {α β : Type} {x : EM α} {f : α → EM β} {mk : Flow → β} {gs : GSt} {σ σ1 : St} {a : α}
    {res : F2.Res SV} (h1 : EOk x gs σ a σ1) (h2 : SimRes2 n cells (f a) mk gs σ1 res) :
    SimRes2 n cells (x >>= f) mk gs σ res := by
  cases res with
  | done g' => obtain ⟨σ', hok, hh⟩ := h2; exact ⟨σ', EOk.bind h1 hok, hh⟩
  | brk g' => obtain ⟨σ', hok, hh⟩ := h2; exact ⟨σ', EOk.bind h1 hok, hh⟩
  | cont g' => obtain ⟨σ', hok, hh⟩ := h2; exact ⟨σ', EOk.bind h1 hok, hh⟩
  | err => obtain ⟨err, hne, herr⟩ := h2; exact ⟨err, hne, EErr.bind_right h1 herr⟩
  | out => trivial

theorem SimRes2.wrap {α β : Type} {x : EM α} {f : α → EM β} {mk : Flow → α} {mk' : Flow → β} {gs : GSt} {σ : St}
    {res : F2.Res SV} (h : SimRes2 n cells x mk gs σ res)
    (hf : ∀ fl σ', EOk (f (mk fl)) gs σ' (mk' fl) σ') : SimRes2 n cells (x >>= f) mk' gs σ res := by
  cases res with
  | done g' => obtain ⟨σ', hok, hh⟩ := h; exact ⟨σ', EOk.bind hok (hf _ σ'), hh⟩
  | brk g' => obtain ⟨σ', hok, hh⟩ := h; exact ⟨σ', EOk.bind hok (hf _ σ'), hh⟩
  | cont g' => obtain ⟨σ', hok, hh⟩ := h; exact ⟨σ', EOk.bind hok (hf _ σ'), hh⟩
  | err => obtain ⟨err, hne, herr⟩ := h; exact ⟨err, hne, EErr.bind_left herr⟩
  | out => trivial

theorem SimRes2.err_left {α β : Type} {x : EM α} {f : α → EM β} {mk : Flow → β} {gs : GSt} {σ : St} {err : Err}
    (hne : err ≠ Err.fuel) (herr : EErr x gs σ err) : SimRes2 n cells (x >>= f) mk gs σ .err :=
  ⟨err, hne, EErr.bind_left herr⟩

theorem blockSim2_of {f : Nat} {ss : F2.Stms} (h : StmtsSim2 names ctab n cells f ss) :
    BlockSim2 names ctab n cells f ss := by
  intro F ctx gs σ g k tag hF he hh hw hsp
  cases F with
  | zero => omega
  | succ F =>
    cases ss with
    | nil =>
      simp only [toAstSs2, execBlock.eq_2]
      cases f with
      | zero => simp only [F2.exec]; trivial
      | succ f =>
        simp only [F2.exec]
        exact ⟨σ, EOk.pure _ gs σ, hh⟩
    | cons st ss =>
      rw [toAstSs2, execBlock.eq_3 _ _ _ _ (by simp), ← toAstSs2]
      exact (h F { env := { vars := [] } :: ctx.env, callDepth := ctx.callDepth, path := tag :: ctx.path }
        gs σ g k 0 (by omega) he.push hh hw hsp).wrap (fun fl σ' => EOk.pure _ gs σ')

theorem stmtSim2_expr (f : Nat) (e : Ex) : StmtSim2 names ctab n cells (f + 1) (.expr e) := by
  intro F ctx gs σ g k hF he hh hw hsp
  simp only [budS2] at hF
  obtain ⟨F, rfl⟩ : ∃ F', F = F' + 1 := ⟨F - 1, by omega⟩
  simp only [wfS2] at hw
  obtain ⟨h1, h2⟩ := evalOK (names := names) (ctab := ctab) (cells := cells) e F ctx gs σ g k (by omega) he hh hw
  simp only [toAstS2, ex_expr, F2.exec]
  cases hev : eval vmSem (svConst ctab) g e with
  | none =>
    obtain ⟨err, hne, herr⟩ := h2 hev
    exact SimRes2.err_left hne herr
  | some v => exact ⟨σ, EOk.bind (h1 v hev) (EOk.pure _ gs σ), hh⟩

theorem stmtSim2_assign (f : Nat) (i : Nat) (e : Ex) : StmtSim2 names ctab n cells (f + 1) (.assign i e) := by
  intro F ctx gs σ g k hF he hh hw hsp
  simp only [budS2] at hF
  obtain ⟨F, rfl⟩ : ∃ F', F = F' + 1 + 1 := ⟨F - 2, by omega⟩
  simp only [wfS2, Bool.and_eq_true, decide_eq_true_eq] at hw
  obtain ⟨hi, hwe⟩ := hw
  obtain ⟨h1, h2⟩ := evalOK (names := names) (ctab := ctab) (cells := cells) e (F + 1) ctx gs σ g k (by omega) he hh hwe
  simp only [toAstS2, ex_assign _ _ _ _ (isFuncLit_toAstE names ctab e), ex_assignTo, F2.exec]
  cases hev : eval vmSem (svConst ctab) g e with
  | none =>
    obtain ⟨err, hne, herr⟩ := h2 hev
    exact SimRes2.err_left hne herr
  | some v =>
    obtain ⟨σ', hw', hh'⟩ := writeVar_ok he hh hi v gs
    exact ⟨σ', EOk.bind (h1 v hev) (EOk.bind (EOk.bind hw' (EOk.pure _ gs σ')) (EOk.pure _ gs σ')), hh'⟩

theorem stmtSim2_brk (f : Nat) : StmtSim2 names ctab n cells (f + 1) .brk := by
  intro F ctx gs σ g k hF he hh hw hsp
  simp only [budS2] at hF
  obtain ⟨F, rfl⟩ : ∃ F', F = F' + 1 := ⟨F - 1, by omega⟩
  simp only [toAstS2, ex_branch_break, F2.exec]
  exact ⟨σ, EOk.pure _ gs σ, hh⟩

theorem stmtSim2_cont (f : Nat) : StmtSim2 names ctab n cells (f + 1) .cont := by
  intro F ctx gs σ g k hF he hh hw hsp
  simp only [budS2] at hF
  obtain ⟨F, rfl⟩ : ∃ F', F = F' + 1 := ⟨F - 1, by omega⟩
  simp only [toAstS2, ex_branch_continue, F2.exec]
  exact ⟨σ, EOk.pure _ gs σ, hh⟩

theorem stmtSim2_ifs (f : Nat) (c : Ex) (body : F2.Stms) (hb : BlockSim2 names ctab n cells f body) :
    StmtSim2 names ctab n cells (f + 1) (.ifs c body) := by
  intro F ctx gs σ g k hF he hh hw hsp
  simp only [budS2] at hF
  obtain ⟨F, rfl⟩ : ∃ F', F = F' + 1 := ⟨F - 1, by omega⟩
  simp only [wfS2, Bool.and_eq_true] at hw
  obtain ⟨hwc, hwb⟩ := hw
  simp only [simplePostS] at hsp
  obtain ⟨h1, h2⟩ := evalOK (names := names) (ctab := ctab) (cells := cells) c F
    { ctx with env := { vars := [] } :: ctx.env } gs σ g k (by omega) he.push hh hwc
  simp only [toAstS2, ex_ifs, F2.exec]
  cases hev : eval vmSem (svConst ctab) g c with
  | none =>
    obtain ⟨err, hne, herr⟩ := h2 hev
    exact SimRes2.err_left hne herr
  | some a =>
    have hfal := EOk.lift (gs := gs) (isFalsy_sem a σ)
    simp only
    cases hfa : vmSem.falsy a with
    | true =>
      rw [hfa] at hfal
      simp only [if_true]
      exact ⟨σ, EOk.bind (h1 a hev) (EOk.bind hfal (EOk.pure _ gs σ)), hh⟩
    | false =>
      rw [hfa] at hfal
      simp only [Bool.false_eq_true, if_false]
      refine SimRes2.bind_ok (h1 a hev) (SimRes2.bind_ok hfal ?_)
      exact (hb F { ctx with env := { vars := [] } :: ctx.env } gs σ g _ 1 (by omega) he.push hh hwb hsp).wrap
        (fun fl σ' => EOk.pure _ gs σ')

theorem stmtSim2_ifelse (f : Nat) (c : Ex) (body els : F2.Stms) (hb : BlockSim2 names ctab n cells f body)
    (hel : BlockSim2 names ctab n cells f els) : StmtSim2 names ctab n cells (f + 1) (.ifelse c body els) := by
  intro F ctx gs σ g k hF he hh hw hsp
  simp only [budS2] at hF
  obtain ⟨F, rfl⟩ : ∃ F', F = F' + 1 + 1 := ⟨F - 2, by omega⟩
  simp only [wfS2, Bool.and_eq_true] at hw
  obtain ⟨⟨hwc, hwb⟩, hwe⟩ := hw
  simp only [simplePostS, Bool.and_eq_true] at hsp
  obtain ⟨h1, h2⟩ := evalOK (names := names) (ctab := ctab) (cells := cells) c (F + 1)
    { ctx with env := { vars := [] } :: ctx.env } gs σ g k (by omega) he.push hh hwc
  simp only [toAstS2, ex_ifelse, F2.exec]
  cases hev : eval vmSem (svConst ctab) g c with
  | none =>
    obtain ⟨err, hne, herr⟩ := h2 hev
    exact SimRes2.err_left hne herr
  | some a =>
    have hfal := EOk.lift (gs := gs) (isFalsy_sem a σ)
    simp only
    cases hfa : vmSem.falsy a with
    | true =>
      rw [hfa] at hfal
      simp only [if_true]
      refine SimRes2.bind_ok (h1 a hev) (SimRes2.bind_ok hfal ?_)
      have hx := (hel F { env := { vars := [] } :: ctx.env, callDepth := ctx.callDepth, path := 2 :: ctx.path }
        gs σ g _ 0 (by omega) he.push hh hwe hsp.2).wrap
        (f := fun fl => (pure (fl, ({ vars := [] } : Spec.Frame) :: ctx.env) : EM (Flow × Env)))
        (mk' := fun fl => (fl, ({ vars := [] } : Spec.Frame) :: ctx.env)) (fun fl σ' => EOk.pure _ gs σ')
      exact hx.wrap (fun fl σ' => EOk.pure _ gs σ')
    | false =>
      rw [hfa] at hfal
      simp only [Bool.false_eq_true, if_false]
      refine SimRes2.bind_ok (h1 a hev) (SimRes2.bind_ok hfal ?_)
      exact (hb (F + 1) { ctx with env := { vars := [] } :: ctx.env } gs σ g _ 1 (by omega) he.push hh hwb hsp.1).wrap
        (fun fl σ' => EOk.pure _ gs σ')

theorem whileSim2_succ (f : Nat) (c : Ex) (body : F2.Stms) (hb : BlockSim2 names ctab n cells f body)
    (hloop : WhileSim2 names ctab n cells f c body) : WhileSim2 names ctab n cells (f + 1) c body := by
  intro F ctx gs σ g k hF he hh hw hsp
  simp only [budS2] at hF
  obtain ⟨F, rfl⟩ : ∃ F', F = F' + 1 := ⟨F - 1, by omega⟩
  have hw0 := hw
  have hsp0 := hsp
  simp only [wfS2, Bool.and_eq_true] at hw
  obtain ⟨hwc, hwb⟩ := hw
  simp only [simplePostS] at hsp
  obtain ⟨h1, h2⟩ := evalOK (names := names) (ctab := ctab) (cells := cells) c F ctx gs σ g k (by omega) he hh hwc
  simp only [ex_loop_some, F2.exec]
  cases hev : eval vmSem (svConst ctab) g c with
  | none =>
    obtain ⟨err, hne, herr⟩ := h2 hev
    exact SimRes2.err_left hne herr
  | some a =>
    have hfal := EOk.lift (gs := gs) (isFalsy_sem a σ)
    simp only
    cases hfa : vmSem.falsy a with
    | true =>
      rw [hfa] at hfal
      simp only [if_true]
      refine SimRes2.bind_ok (h1 a hev) (SimRes2.bind_ok hfal ?_)
      simp only [Bool.not_true, Bool.not_false, if_true]
      exact ⟨σ, EOk.pure _ gs σ, hh⟩
    | false =>
      rw [hfa] at hfal
      simp only [Bool.false_eq_true, if_false]
      refine SimRes2.bind_ok (h1 a hev) (SimRes2.bind_ok hfal ?_)
      simp only [Bool.not_false, Bool.not_true, Bool.false_eq_true, if_false]
      have hbody := hb F ctx gs σ g _ 1 (by omega) he hh hwb hsp
      cases hex : F2.exec vmSem (svConst ctab) f (.inr body) g with
      | done g1 =>
        rw [hex] at hbody
        obtain ⟨σ1, hok1, hh1⟩ := hbody
        exact SimRes2.bind_ok hok1 (hloop F ctx gs σ1 g1 k (by simp only [budS2]; omega) he hh1 hw0 hsp0)
      | cont g1 =>
        rw [hex] at hbody
        obtain ⟨σ1, hok1, hh1⟩ := hbody
        exact SimRes2.bind_ok hok1 (hloop F ctx gs σ1 g1 k (by simp only [budS2]; omega) he hh1 hw0 hsp0)
      | brk g1 =>
        rw [hex] at hbody
        obtain ⟨σ1, hok1, hh1⟩ := hbody
        exact ⟨σ1, EOk.bind hok1 (EOk.pure _ gs σ1), hh1⟩
      | err =>
        rw [hex] at hbody
        obtain ⟨err, hne, herr⟩ := hbody
        exact SimRes2.err_left hne herr
      | out => trivial

theorem foreverSim2_succ (f : Nat) (body : F2.Stms) (hb : BlockSim2 names ctab n cells f body)
    (hloop : ForeverSim2 names ctab n cells f body) : ForeverSim2 names ctab n cells (f + 1) body := by
  intro F ctx gs σ g k hF he hh hw hsp
  simp only [budS2] at hF
  obtain ⟨F, rfl⟩ : ∃ F', F = F' + 1 := ⟨F - 1, by omega⟩
  have hw0 := hw
  have hsp0 := hsp
  simp only [wfS2] at hw
  simp only [simplePostS] at hsp
  simp only [ex_loop_none, F2.exec]
  have hbody := hb F ctx gs σ g _ 1 (by omega) he hh hw hsp
  cases hex : F2.exec vmSem (svConst ctab) f (.inr body) g with
  | done g1 =>
    rw [hex] at hbody
    obtain ⟨σ1, hok1, hh1⟩ := hbody
    exact SimRes2.bind_ok hok1 (hloop F ctx gs σ1 g1 k (by simp only [budS2]; omega) he hh1 hw0 hsp0)
  | cont g1 =>
    rw [hex] at hbody
    obtain ⟨σ1, hok1, hh1⟩ := hbody
    exact SimRes2.bind_ok hok1 (hloop F ctx gs σ1 g1 k (by simp only [budS2]; omega) he hh1 hw0 hsp0)
  | brk g1 =>
    rw [hex] at hbody
    obtain ⟨σ1, hok1, hh1⟩ := hbody
    exact ⟨σ1, EOk.bind hok1 (EOk.pure _ gs σ1), hh1⟩
  | err =>
    rw [hex] at hbody
    obtain ⟨err, hne, herr⟩ := hbody
    exact SimRes2.err_left hne herr
  | out => trivial

/-- A post statement never ends with a `break` / `continue` under way. -/
theorem exec_simple (f : Nat) (p : F2.Stm) (g : Nat → SV) (hs : isSimple p = true) :
    (F2.exec vmSem (svConst ctab) f (.inl p) g).isEsc = false := by
  apply F2.exec_scoped
  cases p <;> simp [isSimple] at hs <;> rfl

theorem for3Sim2_succ (f : Nat) (c : Ex) (body : F2.Stms) (post : F2.Stm)
    (hb : BlockSim2 names ctab n cells f body) (hp : StmtSim2 names ctab n cells f post)
    (hloop : For3Sim2 names ctab n cells f c body post) : For3Sim2 names ctab n cells (f + 1) c body post := by
  intro F ctx gs σ g k hF he hh hw hsp
  simp only [budS2] at hF
  obtain ⟨F, rfl⟩ : ∃ F', F = F' + 1 := ⟨F - 1, by omega⟩
  have hw0 := hw
  have hsp0 := hsp
  simp only [wfS2, Bool.and_eq_true] at hw
  obtain ⟨⟨hwc, hwb⟩, hwp⟩ := hw
  simp only [simplePostS, Bool.and_eq_true] at hsp
  have hspp : simplePostS post = true := by
    cases post <;> simp [isSimple] at hsp <;> rfl
  obtain ⟨h1, h2⟩ := evalOK (names := names) (ctab := ctab) (cells := cells) c F ctx gs σ g k (by omega) he hh hwc
  -- after the body (normal end or `continue`): the post statement, then the loop again
  have hrest : ∀ (σ1 : St) (g1 : Nat → SV), HeapOK n cells g1 σ1 → ∀ r : F2.Res SV,
      (∀ g2, F2.exec vmSem (svConst ctab) f (.inl post) g1 = .done g2 →
        r = F2.exec vmSem (svConst ctab) f (.inl (.for3 c body post)) g2) →
      (F2.exec vmSem (svConst ctab) f (.inl post) g1 = .err → r = .err) →
      (F2.exec vmSem (svConst ctab) f (.inl post) g1 = .out → r = .out) →
      SimRes2 n cells (do
          let _ ← execStmt F { ctx with path := 3 :: ctx.path } (toAstS2 names ctab post)
          loopFor F ctx (some (toAstE names ctab c)) (some (toAstS2 names ctab post)) (toAstSs2 names ctab body))
        (fun fl => fl) gs σ1 r := by
    intro σ1 g1 hh1 r hr1 hr2 hr3
    have hpost := hp F { ctx with path := 3 :: ctx.path } gs σ1 g1 _ (by omega) he hh1 hwp hspp
    have hesc := exec_simple (ctab := ctab) f post g1 hsp.2
    cases hex : F2.exec vmSem (svConst ctab) f (.inl post) g1 with
    | done g2 =>
      rw [hex] at hpost
      obtain ⟨σ2, hok2, hh2⟩ := hpost
      rw [hr1 g2 hex]
      exact SimRes2.bind_ok hok2 (hloop F ctx gs σ2 g2 k (by simp only [budS2]; omega) he hh2 hw0 hsp0)
    | brk g2 => rw [hex] at hesc; cases hesc
    | cont g2 => rw [hex] at hesc; cases hesc
    | err =>
      rw [hex] at hpost
      obtain ⟨err, hne, herr⟩ := hpost
      rw [hr2 hex]
      exact SimRes2.err_left hne herr
    | out => rw [hr3 hex]; trivial
  simp only [ex_loop_post, F2.exec]
  cases hev : eval vmSem (svConst ctab) g c with
  | none =>
    obtain ⟨err, hne, herr⟩ := h2 hev
    exact SimRes2.err_left hne herr
  | some a =>
    have hfal := EOk.lift (gs := gs) (isFalsy_sem a σ)
    simp only
    cases hfa : vmSem.falsy a with
    | true =>
      rw [hfa] at hfal
      simp only [if_true]
      refine SimRes2.bind_ok (h1 a hev) (SimRes2.bind_ok hfal ?_)
      simp only [Bool.not_true, Bool.not_false, if_true]
      exact ⟨σ, EOk.pure _ gs σ, hh⟩
    | false =>
      rw [hfa] at hfal
      simp only [Bool.false_eq_true, if_false]
      refine SimRes2.bind_ok (h1 a hev) (SimRes2.bind_ok hfal ?_)
      simp only [Bool.not_false, Bool.not_true, Bool.false_eq_true, if_false]
      have hbody := hb F ctx gs σ g _ 1 (by omega) he hh hwb hsp.1
      cases hex : F2.exec vmSem (svConst ctab) f (.inr body) g with
      | done g1 =>
        rw [hex] at hbody
        obtain ⟨σ1, hok1, hh1⟩ := hbody
        refine SimRes2.bind_ok hok1 ?_
        dsimp only
        exact hrest σ1 g1 hh1 _ (fun g2 h => by rw [h]) (fun h => by rw [h]) (fun h => by rw [h])
      | cont g1 =>
        rw [hex] at hbody
        obtain ⟨σ1, hok1, hh1⟩ := hbody
        refine SimRes2.bind_ok hok1 ?_
        dsimp only
        exact hrest σ1 g1 hh1 _ (fun g2 h => by rw [h]) (fun h => by rw [h]) (fun h => by rw [h])
      | brk g1 =>
        rw [hex] at hbody
        obtain ⟨σ1, hok1, hh1⟩ := hbody
        exact ⟨σ1, EOk.bind hok1 (EOk.pure _ gs σ1), hh1⟩
      | err =>
        rw [hex] at hbody
        obtain ⟨err, hne, herr⟩ := hbody
        exact SimRes2.err_left hne herr
      | out => trivial

theorem stmtSim2_whil (f : Nat) (c : Ex) (body : F2.Stms) (hloop : WhileSim2 names ctab n cells (f + 1) c body) :
    StmtSim2 names ctab n cells (f + 1) (.whil c body) := by
  intro F ctx gs σ g k hF he hh hw hsp
  have hF' := hF
  simp only [budS2] at hF
  obtain ⟨F, rfl⟩ : ∃ F', F = F' + 1 := ⟨F - 1, by omega⟩
  simp only [toAstS2, ex_while]
  exact (hloop F { ctx with env := { vars := [] } :: ctx.env } gs σ g k hF' he.push hh hw hsp).wrap
    (fun fl σ' => EOk.pure _ gs σ')

theorem stmtSim2_forever (f : Nat) (body : F2.Stms) (hloop : ForeverSim2 names ctab n cells (f + 1) body) :
    StmtSim2 names ctab n cells (f + 1) (.forever body) := by
  intro F ctx gs σ g k hF he hh hw hsp
  have hF' := hF
  simp only [budS2] at hF
  obtain ⟨F, rfl⟩ : ∃ F', F = F' + 1 := ⟨F - 1, by omega⟩
  simp only [toAstS2, ex_forever]
  exact (hloop F { ctx with env := { vars := [] } :: ctx.env } gs σ g k hF' he.push hh hw hsp).wrap
    (fun fl σ' => EOk.pure _ gs σ')

theorem stmtSim2_for3 (f : Nat) (c : Ex) (body : F2.Stms) (post : F2.Stm)
    (hloop : For3Sim2 names ctab n cells (f + 1) c body post) :
    StmtSim2 names ctab n cells (f + 1) (.for3 c body post) := by
  intro F ctx gs σ g k hF he hh hw hsp
  have hF' := hF
  simp only [budS2] at hF
  obtain ⟨F, rfl⟩ : ∃ F', F = F' + 1 := ⟨F - 1, by omega⟩
  simp only [toAstS2, ex_for3]
  exact (hloop F { ctx with env := { vars := [] } :: ctx.env } gs σ g k hF' he.push hh hw hsp).wrap
    (fun fl σ' => EOk.pure _ gs σ')

theorem stmtsSim2_nil (f : Nat) : StmtsSim2 names ctab n cells (f + 1) .nil := by
  intro F ctx gs σ g k i hF he hh hw hsp
  simp only [budSs2] at hF
  obtain ⟨F, rfl⟩ : ∃ F', F = F' + 1 := ⟨F - 1, by omega⟩
  simp only [toAstSs2, execStmts.eq_2, F2.exec]
  exact ⟨σ, EOk.pure _ gs σ, hh⟩

theorem stmtsSim2_cons (f : Nat) (st : F2.Stm) (ss : F2.Stms) (h1 : StmtSim2 names ctab n cells f st)
    (h2 : StmtsSim2 names ctab n cells f ss) : StmtsSim2 names ctab n cells (f + 1) (.cons st ss) := by
  intro F ctx gs σ g k i hF he hh hw hsp
  simp only [budSs2] at hF
  obtain ⟨F, rfl⟩ : ∃ F', F = F' + 1 := ⟨F - 1, by omega⟩
  simp only [wfSs2, Bool.and_eq_true] at hw
  obtain ⟨hw1, hw2⟩ := hw
  simp only [simplePostSs, Bool.and_eq_true] at hsp
  simp only [toAstSs2, execStmts.eq_3, F2.exec]
  have ha := h1 F { env := ctx.env, callDepth := ctx.callDepth, path := i :: ctx.path } gs σ g k
    (by omega) he hh hw1 hsp.1
  cases hs : F2.exec vmSem (svConst ctab) f (.inl st) g with
  | done g1 =>
    rw [hs] at ha
    obtain ⟨σ1, hok1, hh1⟩ := ha
    exact SimRes2.bind_ok hok1 (h2 F { env := ctx.env, callDepth := ctx.callDepth, path := ctx.path } gs σ1 g1 _ (i + 1)
      (by omega) he hh1 hw2 hsp.2)
  | brk g1 =>
    rw [hs] at ha
    obtain ⟨σ1, hok1, hh1⟩ := ha
    exact ⟨σ1, EOk.bind hok1 (EOk.pure _ gs σ1), hh1⟩
  | cont g1 =>
    rw [hs] at ha
    obtain ⟨σ1, hok1, hh1⟩ := ha
    exact ⟨σ1, EOk.bind hok1 (EOk.pure _ gs σ1), hh1⟩
  | err =>
    rw [hs] at ha
    obtain ⟨err, hne, herr⟩ := ha
    exact SimRes2.err_left hne herr
  | out => trivial

/-- All statement forms, all loops, at every fuel of the fragment's evaluator. -/
theorem all_sim2 : ∀ f : Nat,
    (∀ st, StmtSim2 names ctab n cells f st) ∧ (∀ ss, StmtsSim2 names ctab n cells f ss) ∧
    (∀ c body, WhileSim2 names ctab n cells f c body) ∧ (∀ body, ForeverSim2 names ctab n cells f body) ∧
    (∀ c body post, For3Sim2 names ctab n cells f c body post)
  | 0 => by
    refine ⟨fun st => ?_, fun ss => ?_, fun c body => ?_, fun body => ?_, fun c body post => ?_⟩
    · intro F ctx gs σ g k hF he hh hw hsp; simp only [F2.exec]; trivial
    · intro F ctx gs σ g k i hF he hh hw hsp; simp only [F2.exec]; trivial
    · intro F ctx gs σ g k hF he hh hw hsp; simp only [F2.exec]; trivial
    · intro F ctx gs σ g k hF he hh hw hsp; simp only [F2.exec]; trivial
    · intro F ctx gs σ g k hF he hh hw hsp; simp only [F2.exec]; trivial
  | f + 1 => by
    obtain ⟨ihS, ihSs, ihW, ihF, ih3⟩ := all_sim2 f
    have hW : ∀ c body, WhileSim2 names ctab n cells (f + 1) c body :=
      fun c body => whileSim2_succ f c body (blockSim2_of (ihSs body)) (ihW c body)
    have hFo : ∀ body, ForeverSim2 names ctab n cells (f + 1) body :=
      fun body => foreverSim2_succ f body (blockSim2_of (ihSs body)) (ihF body)
    have h3 : ∀ c body post, For3Sim2 names ctab n cells (f + 1) c body post :=
      fun c body post => for3Sim2_succ f c body post (blockSim2_of (ihSs body)) (ihS post) (ih3 c body post)
    refine ⟨fun st => ?_, fun ss => ?_, hW, hFo, h3⟩
    · cases st with
      | expr e => exact stmtSim2_expr f e
      | assign i e => exact stmtSim2_assign f i e
      | ifs c body => exact stmtSim2_ifs f c body (blockSim2_of (ihSs body))
      | ifelse c body els =>
        exact stmtSim2_ifelse f c body els (blockSim2_of (ihSs body)) (blockSim2_of (ihSs els))
      | whil c body => exact stmtSim2_whil f c body (hW c body)
      | forever body => exact stmtSim2_forever f body (hFo body)
      | for3 c body post => exact stmtSim2_for3 f c body post (h3 c body post)
      | brk => exact stmtSim2_brk f
      | cont => exact stmtSim2_cont f
    · cases ss with
      | nil => exact stmtsSim2_nil f
      | cons st ss => exact stmtsSim2_cons f st ss (ihS st) (ihSs ss)

end

end Tengo.Proofs.C01Bridge

import Tengo.Props.C01F3Source
import Tengo.Proofs.C01BridgeF3ConvDivAll
import Tengo.Proofs.C01ConverseVM
/-!
C01 bridge for fragment F3, converse direction, VM side: if `F3.exec` runs out of EVERY fuel and every dispatch of the
fragment's machine stays within the VM's fixed sizes (`WithinVM`, which speaks about the whole — here infinite — run),
`VM.run` on the code `Compiler.compileFile` really emits answers `outOfFuel` with every fuel (`vm_diverges3`).
-/
set_option linter.unusedVariables false
set_option linter.unusedSimpArgs false
namespace Tengo.Proofs.C01BridgeF3Conv
open Tengo.Model Tengo.Model.F3
open Tengo.Model.Spec (Value GSt Err)
open Tengo.Model.VM (Core Code Cfg Log FnObj)
open Tengo.Proofs.C01BridgeF3
open Tengo.Proofs.C01BridgeF3Comp (NamesOK toAstProg budMain nlitsMain)
open Tengo.Proofs.C01Bridge (run_zero)
open Tengo.Proofs.C02Compile (toCodeR toCode)
open Tengo.Proofs.C01F3Opt
open Tengo.Props.C01F3Bridge (WithinVM runsB3_of_runN)

variable {V : Type}

/-- If the fragment's machine is still running after `j` dispatches (all within the VM's sizes), `VM.run` with fuel
`≤ j` is out of fuel. -/
theorem alive_outOfFuel3 {M : F3.Mach} {K n : Nat} {E : F3.Env V} {val : V → Value} {ref : Nat → Nat} {code : Code}
    (hcode : CodeRel3 M K n E val ref code) (hD : DataRel E.S val) {s : F3.St V} {c : Core}
    (hrel : Rel3 M n val ref s c) (hW : WithinVM E M s) {j : Nat} (hal : F3.Alive E M j s)
    (keep : Nat) (allocs : Int) (log : Log) (g : GSt) (h : Spec.St) (ha : allocs ≤ 0) :
    ∀ fuel, fuel ≤ j → ∃ cfg, (VM.run code keep fuel allocs ⟨c, g, h⟩ log).1 = .outOfFuel cfg := by
  intro fuel hf
  obtain ⟨a, hrun⟩ := hal
  have hr := runsB3_of_runN j s a hrun hW
  obtain ⟨c1, a1, l1, ha1, hrel1, hrun1⟩ := runB3_sim hcode hD keep g h hr c 0 allocs log hrel ha
  rw [Nat.add_zero, run_zero] at hrun1
  by_cases hx : ∃ cfg, (VM.run code keep fuel allocs ⟨c, g, h⟩ log).1 = .outOfFuel cfg
  · exact hx
  · exfalso
    have h1 := Tengo.Model.VM.run_fuel_mono code keep fuel allocs ⟨c, g, h⟩ log (j - fuel) (fun c hc => hx ⟨c, hc⟩)
    have e : fuel + (j - fuel) = j := by omega
    rw [e, hrun1] at h1
    exact hx ⟨⟨c1, g, h⟩, by rw [← h1]⟩

/-- **Diverging programs keep `VM.run` running.** Setting of `source_to_vm_fragment3`; if `F3.exec` runs out of every
fuel, `VM.run` on the code really emitted (optimized function bodies) is `outOfFuel` with every fuel. -/
theorem vm_diverges3 (E : Env V) (val : V → Value) (refs : Nat → Nat) (ctab : Nat → F0.Const) (n : Nat) (P : Prog)
    (hs : SrcOk P n) (hD : DataRel E.S val) (hE : EnvOk P ctab E val refs)
    (g : Nat → V) (globals : Array Value) (fobjs : Array FnObj)
    (hgs : globals.size = n) (hg : ∀ i, i < n → globals.getD i .undef = val (g i))
    (hfo : ∀ k fd, P.fns k = some fd → fobjs[refs k]? = some (k, []))
    (hW : WithinVM E (compProg P) (St.init (fun _ => E.S.undef) g))
    (keep : Nat) (allocs : Int) (ha : allocs ≤ 0) (gst : GSt) (heap : Spec.St)
    (hout : ∀ f, F3.exec E P f g = .out) (m : Nat) :
    ∃ cfg, (VM.run (toCodeR refs (bcOf P ctab n)) keep m allocs ⟨VM.initCore globals fobjs, gst, heap⟩ {}).1 =
      .outOfFuel cfg := by
  have htw := srcOk_unoptTwin hs ctab
  have hcode := codeRel_twin hs ctab hE
  have hrel := rel_init3 (M := compProg P) (ref := refs) globals fobjs (fun _ => E.S.undef) g hgs hg
    (fun _ _ => hD.undef) (fun k cf hk => by
      obtain ⟨fd, hf, _⟩ := compProg_fns hk
      exact hfo k fd hf)
  have hK := F3.kOk_sumH P (nlitsMain P P.main) (fun k fd hf => (srcOk_fn hs hf).1)
  have hal := F3.program_diverges_F3 E P (progOk_of_srcOk hs) hK (by omega) g (fun _ => E.S.undef) hout m
  obtain ⟨cfg, hc⟩ := alive_outOfFuel3 hcode hD hrel hW hal keep allocs {} gst heap ha m (Nat.le_refl m)
  have hk := Tengo.Props.C03Source.unopt_twin_same_kind htw refs keep keep m allocs globals fobjs gst heap
  rw [hc] at hk
  cases hr : (VM.run (toCodeR refs (bcOf P ctab n)) keep m allocs ⟨VM.initCore globals fobjs, gst, heap⟩ {}).1 with
  | outOfFuel c => exact ⟨c, rfl⟩
  | halted c => rw [hr] at hk; exact hk.elim
  | failed e c => rw [hr] at hk; exact hk.elim
  | fault ft c => rw [hr] at hk; exact hk.elim
  | limit c => rw [hr] at hk; exact hk.elim

end Tengo.Proofs.C01BridgeF3Conv

import Tengo.Proofs.C01BridgeDefs
import Tengo.Proofs.C11RenameAssign
/-!
C01 bridge, layer 1 (machinery): running the compiler model's monad (`Steps`), what the emission
primitives do to the state (`app`: bytes appended to the current function, constants appended to the
pool), back-patching (`steps_changeOperand`), and name resolution of the pre-declared global slots
through any number of block scopes (`steps_resolve`).
-/
set_option linter.unusedVariables false
set_option linter.unusedSimpArgs false
namespace Tengo.Proofs.C01Bridge
open Tengo.Model Tengo.Model.F0 Tengo.Model.Compiler Tengo.Model.Opcodes
open Tengo.Model.Spec (Expr Stmt)

/-! ### running the compiler monad -/

/-- `x` run on `s` succeeds with result `a` and state `s'`. -/
def Steps {α : Type} (x : CM α) (s : CState) (a : α) (s' : CState) : Prop := x s = .ok (a, s')

theorem Steps.bind {α β : Type} {x : CM α} {f : α → CM β} {s s1 s2 : CState} {a : α} {b : β}
    (h1 : Steps x s a s1) (h2 : Steps (f a) s1 b s2) : Steps (x >>= f) s b s2 := by
  show (StateT.bind x f) s = _
  unfold StateT.bind
  unfold Steps at h1
  simp only [h1, bind, Except.bind]
  exact h2

theorem Steps.pure {α : Type} (a : α) (s : CState) : Steps (pure a : CM α) s a s := rfl

theorem Steps.discard {α : Type} {x : CM α} {s s' : CState} {a : α} (h : Steps x s a s') :
    Steps (discard x) s () s' := by
  show (Functor.map (fun _ => ()) x) s = _
  show (StateT.map (fun _ => ()) x) s = _
  unfold StateT.map
  unfold Steps at h
  simp only [h, bind, Except.bind]
  rfl

theorem Steps.to {α : Type} {x : CM α} {s s' s'' : CState} {a : α} (h : Steps x s a s') (e : s' = s'') :
    Steps x s a s'' := e ▸ h

/-- Append bytes to the current function and constants to the pool. -/
def app (s : CState) (bs : List UInt8) (ks : List Compiler.Const) : CState :=
  { s with insts := s.insts ++ bs.toArray, consts := s.consts ++ ks.toArray }

@[simp] theorem app_nil (s : CState) : app s [] [] = s := by
  cases s; simp [app]

theorem app_app (s : CState) (b1 b2 : List UInt8) (k1 k2 : List Compiler.Const) :
    app (app s b1 k1) b2 k2 = app s (b1 ++ b2) (k1 ++ k2) := by
  cases s; simp [app, Array.append_assoc]

@[simp] theorem app_insts_size (s : CState) (bs ks) : (app s bs ks).insts.size = s.insts.size + bs.length := by
  simp [app]
@[simp] theorem app_consts_size (s : CState) (bs ks) : (app s bs ks).consts.size = s.consts.size + ks.length := by
  simp [app]
@[simp] theorem app_tables (s : CState) (bs ks) : (app s bs ks).tables = s.tables := rfl
@[simp] theorem app_loops (s : CState) (bs ks) : (app s bs ks).loops = s.loops := rfl
@[simp] theorem app_saved (s : CState) (bs ks) : (app s bs ks).saved = s.saved := rfl
@[simp] theorem app_nextId (s : CState) (bs ks) : (app s bs ks).nextId = s.nextId := rfl
@[simp] theorem app_assigned (s : CState) (bs ks) : (app s bs ks).assigned = s.assigned := rfl

theorem steps_emit (op : Nat) (args : List Nat) (s : CState) :
    Steps (emit op args) s s.insts.size (app s (encodeInstr op args) []) := by
  show Except.ok _ = Except.ok _
  cases s; simp [app]

theorem steps_addConstant (k : Compiler.Const) (s : CState) :
    Steps (addConstant k) s s.consts.size (app s [] [k]) := by
  show Except.ok _ = Except.ok _
  cases s; simp [app]

theorem steps_curPos (s : CState) : Steps curPos s s.insts.size s := rfl


/-! ### back-patching -/

theorem overwrite_toList : ∀ (bs old : List UInt8) (a : Array UInt8) (p : Nat) (l1 l2 : List UInt8),
    a.toList = l1 ++ old ++ l2 → old.length = bs.length → l1.length = p →
    (overwrite a p bs).toList = l1 ++ bs ++ l2
  | [], [], a, p, l1, l2, h, _, _ => by simpa [overwrite] using h
  | [], _ :: _, _, _, _, _, _, h, _ => by simp at h
  | _ :: _, [], _, _, _, _, _, h, _ => by simp at h
  | b :: bs, o :: old, a, p, l1, l2, h, hl, hp => by
    rw [overwrite]
    have := overwrite_toList bs old (a.setIfInBounds p b) (p + 1) (l1 ++ [b]) l2 (by
      simp only [Array.toList_setIfInBounds, h]
      subst hp
      simp) (by simpa using hl) (by simp [hp])
    rw [this]; simp

theorem be4_length (t : Nat) : (be4 t).length = 4 := rfl

def chgS (p t : Nat) (s : CState) : CState :=
  match s.insts[p]? with
  | some op => { s with insts := overwrite s.insts p (encodeInstr op.toNat [t]) }
  | none => s

theorem changeOperand_run (p t : Nat) (s : CState) : changeOperand p t s = .ok ((), chgS p t s) := rfl

theorem steps_changeOperand (s : CState) (op x t : Nat) (mid : List UInt8) (ks : List Compiler.Const)
    (hw : widths op = some [4]) (hop : op < 256) :
    Steps (changeOperand s.insts.size t) (app s (encodeInstr op [x] ++ mid) ks) ()
      (app s (encodeInstr op [t] ++ mid) ks) := by
  unfold Steps
  rw [changeOperand_run]
  rw [enc_jump op x hw, enc_jump op t hw]
  have hget : (app s (UInt8.ofNat op :: be4 x ++ mid) ks).insts[s.insts.size]? = some (UInt8.ofNat op) := by
    simp [app]
  have hnat : (UInt8.ofNat op).toNat = op := by
    simp only [UInt8.toNat_ofNat']; omega
  unfold chgS
  simp only [hget, hnat]
  rw [enc_jump op t hw]
  have h := overwrite_toList (UInt8.ofNat op :: be4 t) (UInt8.ofNat op :: be4 x)
    (app s (UInt8.ofNat op :: be4 x ++ mid) ks).insts s.insts.size s.insts.toList mid
    (by simp [app]) (by simp [be4_length]) (by simp)
  have key : overwrite (app s (UInt8.ofNat op :: be4 x ++ mid) ks).insts s.insts.size (UInt8.ofNat op :: be4 t) =
      s.insts ++ (UInt8.ofNat op :: be4 t ++ mid).toArray := by
    apply Array.ext'
    rw [h]; simp
  rw [key]
  rfl


/-! ### symbol table: the pre-declared global slots seen through block scopes -/

/-- The table `fork true` pushes. -/
def blk : Table := { block := true }

/-- The root table gives slot `i` to `names i`, for every `i < n`. -/
def GoodRoot (names : Nat → String) (n : Nat) (root : Table) : Prop :=
  ∀ i, i < n → ∃ id, root.store.lookup (names i) = some ⟨names i, .global, i, id⟩

/-- The chain is the root table under any number of (empty) block scopes. -/
def GoodChain (names : Nat → String) (n : Nat) (c : Chain) : Prop :=
  ∃ k root, c = List.replicate k blk ++ [root] ∧ GoodRoot names n root

theorem GoodChain.fork {names : Nat → String} {n : Nat} {c : Chain} (h : GoodChain names n c) :
    GoodChain names n (blk :: c) := by
  obtain ⟨k, root, hc, hr⟩ := h
  exact ⟨k + 1, root, by rw [hc]; rfl, hr⟩

theorem resolveIn_good (asg : Nat → Bool) (nm : String) (root : Table) (sym : Sym) (id0 : Nat)
    (hl : root.store.lookup nm = some sym) (hs : sym.scope = .global) :
    ∀ (k : Nat) (recur : Bool),
      resolveIn asg nm (List.replicate k blk ++ [root]) recur id0 =
        (some (sym, k), List.replicate k blk ++ [root], id0)
  | 0, recur => by
    simp [resolveIn, hl, hs]
  | k + 1, recur => by
    have ih := resolveIn_good asg nm root sym id0 hl hs k true
    have hne : (List.replicate k blk ++ [root]).isEmpty = false := by
      cases k <;> simp [List.replicate]
    simp only [List.replicate_succ, List.cons_append, resolveIn]
    simp [blk, hne]
    rw [show ({ block := true } : Table) = blk from rfl, ih]

theorem steps_resolve {names : Nat → String} {n : Nat} {s : CState} (h : GoodChain names n s.tables)
    {i : Nat} (hi : i < n) :
    ∃ id k, Steps (resolve (names i)) s (some (⟨names i, .global, i, id⟩, k)) s := by
  obtain ⟨k, root, hc, hr⟩ := h
  obtain ⟨id, hl⟩ := hr i hi
  refine ⟨id, k, ?_⟩
  have hres := resolveIn_good (isAssigned s) (names i) root _ s.nextId hl rfl k false
  rw [← hc] at hres
  show Except.ok _ = Except.ok _
  simp only [hres]
  cases s
  simp

theorem steps_fork (s : CState) : Steps (fork true) s () { s with tables := blk :: s.tables } := rfl
theorem steps_unfork (s : CState) : Steps unfork s () { s with tables := s.tables.drop 1 } := rfl
theorem steps_enterLoop (s : CState) : Steps enterLoop s () { s with loops := {} :: s.loops } := rfl
theorem steps_leaveLoop (s : CState) :
    Steps leaveLoop s (s.loops.headD {}) { s with loops := s.loops.drop 1 } := rfl

end Tengo.Proofs.C01Bridge

import Tengo.Props.C03Sim
import Tengo.Proofs.VMRelocCheck
import Tengo.Proofs.VMSafeCtx
/-!
C03, the universal link between the optimizer model and the whole-VM relocation check: **the output of
`Tengo.Model.Optimizer.opt` always passes `Tengo.Model.VM.checkFnReloc` against the unoptimized twin**
(the optimizer's input bytes followed by `RET 0`), with the table `posMap (kept is)` plus the end entry.

1. `decode_encode`: `decode (encode is) = some is` for well-formed instruction lists (`WFCode`), and
   `decode_append_ret`: decoding the twin.
2. `opt_fn_reloc`: the per-function statement.
3. `id_fn_reloc`: the identity table passes for a function that is not touched (main).
4. `opt_code_reloc`: a whole `Code` whose function constants are twins passes `checkReloc` against the
   bodies the optimizer model produces.
-/
set_option linter.unusedSectionVars false
set_option linter.unusedSimpArgs false
set_option linter.unusedVariables false
namespace Tengo.Proofs.C03Reloc
open Tengo.Model Tengo.Model.Opcodes Tengo.Model.Optimizer Tengo.Proofs.C03 Tengo.Props.C03Sim

/-! ## 1. Round trip `decode ∘ encode` -/

/-- Operand values fit their widths (and there is exactly one value per width). -/
def ArgsFit : List Nat → List Nat → Prop
  | [], [] => True
  | w :: ws, a :: as => a < 256 ^ w ∧ ArgsFit ws as
  | _, _ => False

/-- An instruction `MakeInstruction` encodes without loss: a known opcode, one operand per declared
width, every operand below `256 ^ width`. -/
def WFInstr (i : Instr) : Prop := ∃ ws, widths i.op = some ws ∧ ArgsFit ws i.args

def WFCode (is : List Instr) : Prop := ∀ i ∈ is, WFInstr i

theorem argsFit_length : ∀ {ws as : List Nat}, ArgsFit ws as → as.length = ws.length
  | [], [], _ => rfl
  | _ :: ws, _ :: as, h => by simp [argsFit_length (ws := ws) (as := as) h.2]
  | [], _ :: _, h => h.elim
  | _ :: _, [], h => h.elim

theorem beVal_foldl (bs : Bytes) (acc : Nat) :
    bs.foldl (fun acc b => acc * 256 + b.toNat) acc = acc * 256 ^ bs.length + beVal bs := by
  unfold beVal
  induction bs generalizing acc with
  | nil => simp
  | cons b bs ih =>
    simp only [List.foldl_cons, List.length_cons]
    rw [ih (acc * 256 + b.toNat), ih (0 * 256 + b.toNat)]
    simp only [Nat.zero_mul, Nat.zero_add, Nat.pow_succ, Nat.add_mul]
    rw [Nat.mul_assoc, Nat.mul_comm 256 (256 ^ bs.length), Nat.add_assoc]

theorem beVal_cons (b : UInt8) (bs : Bytes) : beVal (b :: bs) = b.toNat * 256 ^ bs.length + beVal bs := by
  have := beVal_foldl bs (0 * 256 + b.toNat)
  simp only [Nat.zero_mul, Nat.zero_add] at this
  rw [← this]; simp [beVal]

theorem beBytes_length : ∀ (w v : Nat), (beBytes w v).length = w
  | 0, _ => rfl
  | w + 1, v => by simp [beBytes, beBytes_length w v]

theorem beVal_beBytes : ∀ (w v : Nat), beVal (beBytes w v) = v % 256 ^ w
  | 0, v => by simp [beBytes, beVal, Nat.mod_one]
  | w + 1, v => by
    rw [beBytes, beVal_cons, beBytes_length, beVal_beBytes w v, Nat.mod_pow_succ]
    have h : (UInt8.ofNat (v / 256 ^ w % 256)).toNat = v / 256 ^ w % 256 := by
      simp [UInt8.toNat_ofNat']
    rw [h, Nat.mul_comm, Nat.add_comm]

theorem beVal_lt : ∀ (bs : Bytes), beVal bs < 256 ^ bs.length
  | [] => by simp [beVal]
  | b :: bs => by
    rw [beVal_cons, List.length_cons, Nat.pow_succ]
    have h1 := beVal_lt bs
    have h2 : b.toNat < 256 := b.toNat_lt
    calc b.toNat * 256 ^ bs.length + beVal bs
        < b.toNat * 256 ^ bs.length + 256 ^ bs.length := by omega
      _ = (b.toNat + 1) * 256 ^ bs.length := by rw [Nat.add_mul, Nat.one_mul]
      _ ≤ 256 * 256 ^ bs.length := Nat.mul_le_mul_right _ (by omega)
      _ = 256 ^ bs.length * 256 := Nat.mul_comm _ _

theorem readOperands_encode : ∀ (ws as : List Nat) (rest : Bytes), ArgsFit ws as →
    readOperands ws (encodeOperands ws as ++ rest) = some (as, rest)
  | [], [], rest, _ => by simp [readOperands, encodeOperands]
  | w :: ws, a :: as, rest, h => by
    have ih := readOperands_encode ws as rest h.2
    have hl := beBytes_length w a
    simp only [readOperands, encodeOperands, List.append_assoc]
    have h1 : ¬ ((beBytes w a ++ (encodeOperands ws as ++ rest)).length < w) := by
      simp only [List.length_append, hl]; omega
    rw [if_neg h1]
    have h2 : (beBytes w a ++ (encodeOperands ws as ++ rest)).drop w = encodeOperands ws as ++ rest := by
      rw [List.drop_append_of_le_length (by omega), List.drop_of_length_le (by omega), List.nil_append]
    have h3 : (beBytes w a ++ (encodeOperands ws as ++ rest)).take w = beBytes w a := by
      rw [List.take_append_of_le_length (by omega), List.take_of_length_le (by omega)]
    rw [h2, ih, h3, beVal_beBytes, Nat.mod_eq_of_lt h.1]
  | [], _ :: _, _, h => h.elim
  | _ :: _, [], _, h => h.elim

theorem readOperands_fit : ∀ (ws : List Nat) (bs : Bytes) (as : List Nat) (rest : Bytes),
    readOperands ws bs = some (as, rest) → ArgsFit ws as
  | [], bs, as, rest, h => by
    simp only [readOperands, Option.some.injEq, Prod.mk.injEq] at h
    rw [← h.1]; trivial
  | w :: ws, bs, as, rest, h => by
    simp only [readOperands] at h
    split at h
    · cases h
    · rename_i hlt
      split at h
      · cases h
      · rename_i vs r' hr
        simp only [Option.some.injEq, Prod.mk.injEq] at h
        rw [← h.1]
        refine ⟨?_, readOperands_fit ws _ vs r' hr⟩
        have := beVal_lt (bs.take w)
        rwa [List.length_take, Nat.min_eq_left (by omega)] at this

theorem readOperands_append : ∀ (ws : List Nat) (bs : Bytes) (as : List Nat) (rest tail : Bytes),
    readOperands ws bs = some (as, rest) → readOperands ws (bs ++ tail) = some (as, rest ++ tail)
  | [], bs, as, rest, tail, h => by
    simp only [readOperands, Option.some.injEq, Prod.mk.injEq] at h ⊢
    exact ⟨h.1, by rw [h.2]⟩
  | w :: ws, bs, as, rest, tail, h => by
    simp only [readOperands] at h ⊢
    split at h
    · cases h
    · rename_i hlt
      split at h
      · cases h
      · rename_i vs r' hr
        simp only [Option.some.injEq, Prod.mk.injEq] at h
        have h1 : ¬ ((bs ++ tail).length < w) := by simp only [List.length_append]; omega
        rw [if_neg h1, List.drop_append_of_le_length (by omega),
          readOperands_append ws _ vs r' tail hr, List.take_append_of_le_length (by omega)]
        simp only [Option.some.injEq, Prod.mk.injEq]
        exact ⟨h.1, by rw [h.2]⟩

theorem encode_cons (i : Instr) (is : List Instr) :
    encode (i :: is) = encodeInstr i.op i.args ++ encode is := by simp [encode]

/-- Fuel is only a bound: more fuel decodes the same. -/
theorem decodeFuel_mono : ∀ (f f' pos : Nat) (bs : Bytes) (is : List Instr), f ≤ f' →
    decodeFuel f pos bs = some is → decodeFuel f' pos bs = some is := by
  intro f
  induction f with
  | zero =>
    intro f' pos bs is _ h
    cases bs with
    | nil => cases f' <;> simpa [decodeFuel] using h
    | cons b rest => simp [decodeFuel] at h
  | succ f ih =>
    intro f' pos bs is hle h
    cases bs with
    | nil => cases f' <;> simpa [decodeFuel] using h
    | cons b rest =>
      obtain ⟨g, rfl⟩ : ∃ g, f' = g + 1 := ⟨f' - 1, by omega⟩
      simp only [decodeFuel] at h ⊢
      split at h
      · cases h
      · rename_i ws hws
        split at h
        · cases h
        · rename_i args rest' hro
          split at h
          · cases h
          · rename_i tl htl
            rw [ih g _ _ _ (by omega) htl]
            exact h

theorem decodeFuel_encode : ∀ (is : List Instr) (f pos : Nat), is.length ≤ f → Layout pos is → WFCode is →
    decodeFuel f pos (encode is) = some is := by
  intro is
  induction is with
  | nil => intro f pos _ _ _; cases f <;> simp [encode, decodeFuel]
  | cons i is ih =>
    intro f pos hf hl hw
    obtain ⟨g, rfl⟩ : ∃ g, f = g + 1 := ⟨f - 1, by simp only [List.length_cons] at hf; omega⟩
    obtain ⟨ws, hws, hfit⟩ := hw i List.mem_cons_self
    have hop : (UInt8.ofNat i.op).toNat = i.op := by
      have := Tengo.Model.VM.widths_some_lt _ _ hws
      simp only [UInt8.toNat_ofNat']
      omega
    obtain ⟨hpos, hl'⟩ := hl
    have hsz : i.size = 1 + ws.sum := size_eq i ws hws
    rw [encode_cons, encodeInstr, hws, Option.getD_some, List.cons_append]
    simp only [decodeFuel, hop, hws, readOperands_encode ws i.args (encode is) hfit]
    rw [ih g (pos + 1 + ws.sum) (by simp only [List.length_cons] at hf; omega)
      (by rw [Nat.add_assoc, ← hsz]; exact hl') (fun j hj => hw j (List.mem_cons_of_mem _ hj))]
    cases i
    simp only at hpos
    rw [hpos]

theorem encodeInstr_length_pos (op : Nat) (args : List Nat) : 0 < (encodeInstr op args).length := by
  simp [encodeInstr]

theorem length_le_encode : ∀ (is : List Instr), is.length ≤ (encode is).length
  | [] => by simp [encode]
  | i :: is => by
    rw [encode_cons, List.length_append, List.length_cons]
    have := encodeInstr_length_pos i.op i.args
    have := length_le_encode is
    omega

/-- **decode_encode.** `MakeInstruction` followed by the instruction iterator is the identity on
instruction lists laid out from 0 whose operands fit their widths. -/
theorem decode_encode (is : List Instr) (hl : Layout 0 is) (hw : WFCode is) : decode (encode is) = some is :=
  decodeFuel_encode is _ 0 (length_le_encode is) hl hw

/-- Everything `decode` yields is well-formed in the sense of `WFCode`. -/
theorem decode_wf {bs : Bytes} {is : List Instr} (h : decode bs = some is) : WFCode is := by
  intro i hi
  obtain ⟨ws, hws, _, _, hro, _⟩ := decode_mem bs is h i hi
  exact ⟨ws, hws, readOperands_fit _ _ _ _ hro⟩

theorem decodeFuel_append : ∀ (f g pos : Nat) (bs tail : Bytes) (is js : List Instr),
    decodeFuel f pos bs = some is → decodeFuel g (pos + bs.length) tail = some js →
    decodeFuel (f + g) pos (bs ++ tail) = some (is ++ js) := by
  intro f
  induction f with
  | zero =>
    intro g pos bs tail is js h hj
    cases bs with
    | nil =>
      simp only [decodeFuel, Option.some.injEq] at h; subst h
      simpa using hj
    | cons b rest => simp [decodeFuel] at h
  | succ f ih =>
    intro g pos bs tail is js h hj
    cases bs with
    | nil =>
      simp only [decodeFuel, Option.some.injEq] at h; subst h
      simp only [List.nil_append, List.length_nil, Nat.add_zero] at hj ⊢
      exact decodeFuel_mono g _ _ _ _ (by omega) hj
    | cons b rest =>
      have hfg : f + 1 + g = (f + g) + 1 := by omega
      rw [hfg, List.cons_append]
      simp only [decodeFuel] at h ⊢
      split at h
      · cases h
      · rename_i ws hws
        split at h
        · cases h
        · rename_i args rest' hro
          split at h
          · cases h
          · rename_i tl htl
            simp only [Option.some.injEq] at h
            subst h
            have hlen := (readOperands_eq_drop _ _ _ _ hro)
            have hrl : rest.length = ws.sum + rest'.length := by
              rw [hlen.2, List.length_drop]; omega
            simp only [readOperands_append _ _ _ _ tail hro]
            rw [ih g (pos + 1 + ws.sum) rest' tail tl js htl
              (by simp only [List.length_cons] at hj; rw [hrl] at hj
                  have : pos + 1 + ws.sum + rest'.length = pos + (ws.sum + rest'.length + 1) := by omega
                  rw [this]; exact hj)]
            rfl

/-- The trailing `RET 0` the harness appends to the optimizer's input to make it runnable. -/
def retBytes : Bytes := [UInt8.ofNat opReturn, 0]

/-- **decode_append_ret.** The twin (input bytes + `RET 0`) decodes to the input's instructions followed
by one RETURN at the old end. -/
theorem decode_append_ret {raw : Bytes} {is : List Instr} (h : decode raw = some is) :
    decode (raw ++ retBytes) = some (is ++ [⟨raw.length, opReturn, [0]⟩]) := by
  unfold decode at h ⊢
  have h2 : decodeFuel 2 (0 + raw.length) retBytes = some [⟨raw.length, opReturn, [0]⟩] := by
    simp [decodeFuel, retBytes, opReturn, readOperands, beVal, Tengo.Model.VM.widths_Return]
  have := decodeFuel_append _ _ _ _ _ _ _ h h2
  rw [List.length_append]
  exact this

/-! ## 2. One optimized function against its twin -/

open Tengo.Model.VM in
/-- How `checkFnReloc` is established: entry point and the four obligations of every table entry. -/
theorem checkFnReloc_intro (f : Fn) (insts' : Array UInt8) (tab : List (Nat × Nat))
    (h0 : tab.lookup 0 = some 0)
    (hall : ∀ p q, (p, q) ∈ tab → p < f.insts.size ∧ q < insts'.size ∧
      fetchRelB (fun t => tab.lookup t) (fetch f (p : Nat)) (fetch { f with insts := insts' } (q : Nat)) = true ∧
      (canFallB (fetch f (p : Nat)).op = true →
        tab.lookup (p + (fetch f (p : Nat)).size) = some (q + (fetch f (p : Nat)).size))) :
    checkFnReloc f insts' tab = true := by
  unfold checkFnReloc
  rw [Bool.and_eq_true]
  refine ⟨by rw [h0]; simp, ?_⟩
  rw [List.all_eq_true]
  rintro ⟨p, q⟩ hpq
  obtain ⟨h1, h2, h3, h4⟩ := hall p q hpq
  simp only [Bool.and_eq_true, decide_eq_true_eq, Bool.or_eq_true, Bool.not_eq_true', beq_iff_eq]
  refine ⟨⟨⟨h1, h2⟩, h3⟩, ?_⟩
  cases hc : canFallB (fetch f (p : Nat)).op with
  | false => exact Or.inl rfl
  | true => exact Or.inr (h4 hc)

open Tengo.Model.VM in
theorem jumpOpsB_contains (op : Nat) : jumpOpsB.contains op = isJump op := by
  rw [Bool.eq_iff_iff]
  simp [jumpOpsB, isJump, or_assoc]

open Tengo.Model.VM in
/-- `fetchRelB` on two fetched instructions given by decoded instructions `x` (original) and `y`. -/
theorem fetchRelB_instr (lk : Nat → Option Nat) (x y : Instr) (hop : y.op = x.op) (hsz : y.size = x.size)
    (ha1 : (y.args.drop 1).headD 0 = (x.args.drop 1).headD 0)
    (hj : isJump x.op = true → lk (x.args.headD 0) = some (y.args.headD 0))
    (hn : isJump x.op = false → y.args.headD 0 = x.args.headD 0) :
    fetchRelB lk { op := x.op, a0 := x.args.headD 0, a1 := (x.args.drop 1).headD 0, size := x.size }
      { op := y.op, a0 := y.args.headD 0, a1 := (y.args.drop 1).headD 0, size := y.size } = true := by
  unfold fetchRelB
  simp only [hop, hsz, ha1, beq_self_eq_true, Bool.true_and, jumpOpsB_contains]
  cases hjx : isJump x.op with
  | true => simp only [if_true, beq_iff_eq]; exact hj hjx
  | false => simp only [Bool.false_eq_true, if_false, beq_iff_eq]; exact hn hjx

/-- The harness's unoptimized twin of a function: the optimizer's input bytes followed by `RET 0`. -/
def twinBytes (raw : Bytes) : Bytes := raw ++ retBytes

/-- The position table: `posMap` of the kept instructions, plus old end ↦ new end when a RETURN was
appended. -/
def fnTable (raw : Bytes) (is : List Instr) (r : Result) : List (Nat × Nat) :=
  posMap (kept is) ++ (if r.appended then [(raw.length, newEnd is)] else [])

theorem totalSize_K_le (ds : List Nat) : ∀ (is : List Instr) (d : Bool), totalSize (K ds d is) ≤ totalSize is := by
  intro is
  induction is with
  | nil => intro d; simp
  | cons a is ih =>
    intro d
    rw [K_cons]
    have := ih (nextDead ds d a)
    split
    · rw [totalSize_cons, totalSize_cons]; omega
    · rw [totalSize_cons]; omega

section fn
variable {raw : Bytes} {is : List Instr} {sm : List (Nat × Nat)} {rp : Nat} {r : Result}

theorem newEnd_le (hd : decode raw = some is) : newEnd is ≤ raw.length := by
  rw [← decode_totalSize hd]
  exact totalSize_K_le _ _ _

theorem kept_pos_lt (hd : decode raw = some is) {x : Instr} (hx : x ∈ kept is) : x.pos < raw.length := by
  have hx' : x ∈ is := (K_sublist _ _ _).subset hx
  have := layout_end (Tengo.Props.C03Sim.decode_layout hd).1 x hx'
  rw [(Tengo.Props.C03Sim.decode_layout hd).2.1] at this
  have := size_pos x
  omega

theorem tab_lookup_left {p n : Nat} (h : newPos is p = some n) : (fnTable raw is r).lookup p = some n := by
  have h' : (posMap (kept is)).lookup p = some n := h
  simp [fnTable, List.lookup_append, h']

theorem tab_lookup_end (hd : decode raw = some is) (ha : r.appended = true) :
    (fnTable raw is r).lookup raw.length = some (newEnd is) := by
  have hn : (posMap (kept is)).lookup raw.length = none :=
    lookup_posMap_none (fun x hx => Nat.ne_of_lt (kept_pos_lt hd hx))
  simp [fnTable, List.lookup_append, hn, ha]

/-- The optimizer's output is well-formed for encoding: opcodes and operands are those of decoded
instructions, and the re-targeted jump operands are positions `≤ newEnd ≤ raw.length < 2^32`. -/
theorem out_wf (hd : decode raw = some is) (hlen : raw.length < 2 ^ 32)
    (h : optInstrs is raw.length sm rp = .ok r) : WFCode r.insts := by
  have hs := optInstrs_ok h
  intro y hy
  rw [hs.insts] at hy
  rcases List.mem_append.mp hy with hy | hy
  · obtain ⟨⟨x, n⟩, hxn, rfl⟩ := List.mem_map.mp hy
    have hx : x ∈ is := (K_sublist _ _ _).subset (mem_layout hxn).1
    obtain ⟨ws, hws, hfit⟩ := decode_wf hd x hx
    cases hj : isJump x.op with
    | false => exact ⟨ws, by simpa using hws, by rw [rt_args_nonjump hj]; exact hfit⟩
    | true =>
      refine ⟨[4], by simpa using widths_jump hj, ?_⟩
      have hargs : (rt (posMap (kept is)) (totalSize (kept is)) x n).args =
          [tgt (posMap (kept is)) (totalSize (kept is)) (x.args.head?.getD 0)] := by simp [rt, hj]
      rw [hargs]
      refine ⟨?_, trivial⟩
      have hle : tgt (posMap (kept is)) (totalSize (kept is)) (x.args.head?.getD 0) ≤ newEnd is := by
        unfold tgt
        split
        · rename_i m hm
          obtain ⟨_, _, _, _, hle⟩ := posmap_dom (is := is) hm
          omega
        · exact Nat.le_refl _
      have := newEnd_le hd
      have h256 : (256 : Nat) ^ 4 = 2 ^ 32 := by decide
      omega
  · cases ha : r.appended with
    | false => simp [ha] at hy
    | true =>
      simp only [ha, if_true, List.mem_singleton] at hy
      subst hy
      exact ⟨[1], Tengo.Model.VM.widths_Return, by simp [retInstr, ArgsFit]⟩

/-- The output bytes decode to the output instructions. -/
theorem out_decode (hd : decode raw = some is) (hlen : raw.length < 2 ^ 32)
    (h : optInstrs is raw.length sm rp = .ok r) : decode r.bytes = some r.insts := by
  rw [(optInstrs_ok h).bytes]
  exact decode_encode _ (opt_out_layout h) (out_wf hd hlen h)

open Tengo.Model.VM in
theorem fn_reloc_core (g : Fn) (out : Array UInt8)
    (hd : decode raw = some is) (hlen : raw.length < 2 ^ 32)
    (h : optInstrs is raw.length sm rp = .ok r)
    (hA : decode g.insts.toList = some (is ++ [⟨raw.length, opReturn, [0]⟩]))
    (hB : decode out.toList = some r.insts) :
    checkFnReloc g out (fnTable raw is r) = true := by
  have hs := optInstrs_ok h
  obtain ⟨hl, hsz, ho⟩ := Tengo.Props.C03Sim.decode_layout hd
  have hB' : decode ({ g with insts := out } : Fn).insts.toList = some r.insts := hB
  have hretmem : r.appended = true → retInstr (newEnd is) ∈ r.insts := by
    intro ha; rw [hs.insts, ha]; simp
  apply checkFnReloc_intro
  · -- the entry point
    cases his : is with
    | nil =>
      subst his
      have ha : r.appended = true := hs.app_empty rfl
      have hr0 : raw.length = 0 := by rw [← hsz]; rfl
      have : (fnTable raw [] r).lookup raw.length = some (newEnd []) := tab_lookup_end hd ha
      rw [hr0] at this
      exact this
    | cons a rest =>
      subst his
      have h1 : (a, 0) ∈ layout 0 (kept (a :: rest)) := first_layout (dsts (a :: rest)) a rest
      have h2 := lookup_posMap_eq (kept_pairwise hl) h1
      rw [hl.1] at h2
      exact tab_lookup_left h2
  · intro p q hpq
    rcases List.mem_append.mp hpq with hpq | hpq
    · -- a kept instruction
      obtain ⟨x, hxq, rfl⟩ := mem_posMap.mp hpq
      have hxk : x ∈ kept is := (mem_layout hxq).1
      have hx : x ∈ is := (K_sublist _ _ _).subset hxk
      have hn : newPos is x.pos = some q := lookup_posMap_eq (kept_pairwise hl) hxq
      obtain ⟨y, hy, hyp, hyop, hysz, hynj, hyj⟩ := opt_out_instr h hl hx hn
      obtain ⟨hym, _⟩ := fetch_some_mem hy
      have hfx := fetch_decoded g _ hA x (List.mem_append_left _ hx)
      have hfy := fetch_decoded _ _ hB' y hym
      rw [hyp] at hfy
      have hxlt := (op_at g _ hA x (List.mem_append_left _ hx)).2
      have hylt := (op_at _ _ hB' y hym).2
      rw [hyp] at hylt
      refine ⟨hxlt, hylt, ?_, ?_⟩
      · rw [hfx, hfy]
        apply fetchRelB_instr _ x y hyop hysz
        · cases hj : isJump x.op with
          | false => rw [hynj hj]
          | true =>
            obtain ⟨t, ht, hc⟩ := hyj hj
            have hx1 : x.args.length = 1 := ho x hx hj
            have hxd : x.args.drop 1 = [] := by
              apply List.drop_eq_nil_of_le; omega
            rcases hc with ⟨m, _, hm⟩ | ⟨_, _, hm, _⟩ <;> rw [hm, hxd] <;> rfl
        · intro hj
          obtain ⟨t, ht, hc⟩ := hyj hj
          have hxt : x.args.headD 0 = t := by
            cases hxa : x.args with
            | nil => rw [hxa] at ht; cases ht
            | cons a as => rw [hxa] at ht; simp at ht; simp [ht]
          rw [hxt]
          rcases hc with ⟨m, hm, hya⟩ | ⟨_, hte, hya, ha⟩
          · rw [hya]; exact tab_lookup_left hm
          · rw [hya, hte]; exact tab_lookup_end hd ha
        · intro hj
          rw [hynj hj]
      · rw [hfx]
        intro hcf
        have hr : x.op ≠ opReturn := by
          intro he
          simp [canFallB, he] at hcf
        show (fnTable raw is r).lookup (x.pos + x.size) = some (q + x.size)
        rcases posmap_succ hl hx hn hr with hsucc | ⟨h1, h2, h3⟩
        · exact tab_lookup_left hsucc
        · have ha := hs.app_last x h3 hr
          rw [h1, hsz, h2]
          exact tab_lookup_end hd ha
    · -- the end entry
      cases ha : r.appended with
      | false => simp [ha] at hpq
      | true =>
        simp only [ha, if_true, List.mem_singleton, Prod.mk.injEq] at hpq
        obtain ⟨rfl, rfl⟩ := hpq
        have hxm : (⟨raw.length, opReturn, [0]⟩ : Instr) ∈ is ++ [⟨raw.length, opReturn, [0]⟩] := by simp
        have hfx := fetch_decoded g _ hA _ hxm
        have hfy := fetch_decoded _ _ hB' _ (hretmem ha)
        have hxlt := (op_at g _ hA _ hxm).2
        have hylt := (op_at _ _ hB' _ (hretmem ha)).2
        refine ⟨hxlt, hylt, ?_, ?_⟩
        · simp only at hfx
          have hfy' : fetch { g with insts := out } ((newEnd is : Nat) : Int) = _ := hfy
          rw [hfx, hfy']
          exact fetchRelB_instr _ _ _ rfl rfl rfl (fun hj => by cases hj) (fun _ => rfl)
        · simp only at hfx
          rw [hfx]
          intro hcf
          simp [canFallB] at hcf

end fn

/-- **opt_fn_reloc.** The optimizer model's output always passes the relocation check against the
unoptimized twin of its input, with the table `posMap (kept is)` (+ the end entry when a RETURN was
appended). `hlen` (true of real code: jump operands are 32 bit, so is every function the compiler
can emit) is what makes the re-targeted jump operands survive the 4-byte encoding. Well-formed jumps
are not needed here: they are what makes `opt` succeed (`opt_fn_reloc_total`). -/
theorem opt_fn_reloc (f : Tengo.Model.VM.Fn) (raw : Bytes) (is : List Instr) (sm : List (Nat × Nat)) (rp : Nat)
    (r : Result) (hd : decode raw = some is) (hlen : raw.length < 2 ^ 32)
    (h : opt raw sm rp = .ok r) :
    Tengo.Model.VM.checkFnReloc { f with insts := (twinBytes raw).toArray } r.bytes.toArray
      (fnTable raw is r) = true := by
  have h' : optInstrs is raw.length sm rp = .ok r := by simpa [opt, hd] using h
  exact fn_reloc_core _ _ hd hlen h' (decode_append_ret hd) (out_decode hd hlen h')

/-- With well-formed jumps the optimizer succeeds, and its output passes the check. -/
theorem opt_fn_reloc_total (f : Tengo.Model.VM.Fn) (raw : Bytes) (is : List Instr) (sm : List (Nat × Nat))
    (rp : Nat) (hd : decode raw = some is) (hw : WFJumps is raw.length) (hlen : raw.length < 2 ^ 32) :
    ∃ r, opt raw sm rp = .ok r ∧
      Tengo.Model.VM.checkFnReloc { f with insts := (twinBytes raw).toArray } r.bytes.toArray
        (fnTable raw is r) = true := by
  obtain ⟨r, hr⟩ := opt_total is raw.length sm rp hw
  have h : opt raw sm rp = .ok r := by simp [opt, hd, hr]
  exact ⟨r, h, opt_fn_reloc f raw is sm rp r hd hlen h⟩

/-! ## 3. The identity table for an untouched function (main) -/

/-- Every jump operand is the position of an instruction. -/
def ClosedJumps (is : List Instr) : Prop :=
  ∀ i ∈ is, isJump i.op = true → ∃ j ∈ is, i.args.head? = some j.pos

/-- Every instruction that can fall through (not RETURN, JUMP, SUSPEND) is followed by an instruction. -/
def ClosedFall (is : List Instr) : Prop :=
  ∀ i ∈ is, Tengo.Model.VM.canFallB i.op = true → ∃ j ∈ is, j.pos = i.pos + i.size

def idTable (is : List Instr) : List (Nat × Nat) := is.map (fun i => (i.pos, i.pos))

theorem idTable_lookup : ∀ {is : List Instr} {j : Instr}, j ∈ is → (idTable is).lookup j.pos = some j.pos := by
  intro is
  induction is with
  | nil => intro j hj; cases hj
  | cons a is ih =>
    intro j hj
    simp only [idTable, List.map_cons, List.lookup_cons]
    by_cases he : j.pos = a.pos
    · simp [he]
    · have hne : (j.pos == a.pos) = false := by simpa using he
      rw [hne]
      rcases List.mem_cons.mp hj with rfl | hj
      · exact absurd rfl he
      · exact ih hj

open Tengo.Model.VM in
/-- **id_fn_reloc.** A function that is left as it is passes the check with the identity table on
its instruction positions. -/
theorem id_fn_reloc (f : Fn) (is : List Instr) (hd : decode f.insts.toList = some is)
    (hj : ClosedJumps is) (hf : ClosedFall is) (hne : is ≠ []) :
    checkFnReloc f f.insts (idTable is) = true := by
  have hl := Tengo.Proofs.C03.decode_layout hd
  have hff : ({ f with insts := f.insts } : Fn) = f := by cases f; rfl
  apply checkFnReloc_intro
  · cases is with
    | nil => exact absurd rfl hne
    | cons a rest =>
      have := idTable_lookup (is := a :: rest) (j := a) List.mem_cons_self
      rwa [hl.1] at this
  · intro p q hpq
    obtain ⟨x, hx, hxe⟩ := List.mem_map.mp hpq
    simp only [Prod.mk.injEq] at hxe
    obtain ⟨rfl, rfl⟩ := hxe
    have hfx := fetch_decoded f is hd x hx
    have hlt := (op_at f is hd x hx).2
    rw [hff]
    refine ⟨hlt, hlt, ?_, ?_⟩
    · rw [hfx]
      apply fetchRelB_instr _ x x rfl rfl rfl
      · intro hjx
        obtain ⟨j, hjm, hjt⟩ := hj x hx hjx
        have : x.args.headD 0 = j.pos := by
          cases hxa : x.args with
          | nil => rw [hxa] at hjt; cases hjt
          | cons a as => rw [hxa] at hjt; simp at hjt; simp [hjt]
        rw [this]
        exact idTable_lookup hjm
      · intro _; rfl
    · rw [hfx]
      intro hcf
      obtain ⟨j, hjm, hjp⟩ := hf x hx hcf
      show (idTable is).lookup (x.pos + x.size) = some (x.pos + x.size)
      rw [← hjp]
      exact idTable_lookup hjm

/-! ## 4. A whole program: main untouched, every function constant optimized -/

instance (is : List Instr) : Decidable (ClosedJumps is) := by unfold ClosedJumps; infer_instance
instance (is : List Instr) : Decidable (ClosedFall is) := by unfold ClosedFall; infer_instance

/-- The instructions, bytes and `appended` flag of the optimizer's output do not depend on the source
map or the return position. -/
theorem optInstrs_indep {is : List Instr} {e : Nat} {sm sm' : List (Nat × Nat)} {rp rp' : Nat} {r : Result}
    (h : optInstrs is e sm rp = .ok r) :
    ∃ r0, optInstrs is e sm' rp' = .ok r0 ∧ r0.insts = r.insts ∧ r0.bytes = r.bytes ∧
      r0.appended = r.appended := by
  unfold optInstrs at h ⊢
  dsimp only at h ⊢
  cases hra : retargetAll (posMap (kept is)) e (totalSize (kept is)) (layout 0 (kept is)) with
  | none => rw [hra] at h; cases h
  | some p =>
    obtain ⟨out, b⟩ := p
    rw [hra] at h
    simp only at h ⊢
    injection h with h
    subst h
    exact ⟨_, rfl, rfl, rfl, rfl⟩

theorem opt_indep {raw : Bytes} {sm sm' : List (Nat × Nat)} {rp rp' : Nat} {r : Result}
    (h : opt raw sm rp = .ok r) :
    ∃ r0, opt raw sm' rp' = .ok r0 ∧ r0.insts = r.insts ∧ r0.bytes = r.bytes ∧ r0.appended = r.appended := by
  unfold opt at h ⊢
  cases hd : decode raw with
  | none => rw [hd] at h; cases h
  | some is => rw [hd] at h; exact optInstrs_indep h

/-- The table of one optimized function, computed from its input bytes alone. -/
def optTab (raw : Bytes) : List (Nat × Nat) :=
  match decode raw, opt raw [] 0 with
  | some is, .ok r => fnTable raw is r
  | _, _ => []

/-- The bytes the optimizer model makes of `raw`. -/
def optBody (raw : Bytes) : Array UInt8 :=
  match opt raw [] 0 with
  | .ok r => r.bytes.toArray
  | .panic _ => #[]

theorem optTab_eq {raw : Bytes} {is : List Instr} {sm : List (Nat × Nat)} {rp : Nat} {r : Result}
    (hd : decode raw = some is) (h : opt raw sm rp = .ok r) : optTab raw = fnTable raw is r := by
  obtain ⟨r0, h0, _, _, ha⟩ := opt_indep (sm' := []) (rp' := 0) h
  simp only [optTab, hd, h0, fnTable, ha]

theorem optBody_eq {raw : Bytes} {sm : List (Nat × Nat)} {rp : Nat} {r : Result}
    (h : opt raw sm rp = .ok r) : optBody raw = r.bytes.toArray := by
  obtain ⟨r0, h0, _, hb, _⟩ := opt_indep (sm' := []) (rp' := 0) h
  simp only [optBody, h0, hb]

open Tengo.Model.VM in
/-- The shape of the programs the C03 harness runs as "unoptimized": main (function index 0) decodes,
is not empty, and its jumps and fall-throughs stay inside it; every function constant `idx ≥ 1` is the
twin of some optimizer input `raws idx` (that input followed by `RET 0`) which decodes, has well-formed
jumps (targets are instruction positions or the end) and is shorter than `2^32` bytes. -/
structure TwinCode (code : Code) (mainIs : List Instr) (raws : Nat → Bytes) : Prop where
  main_dec : decode code.main.insts.toList = some mainIs
  main_ne : mainIs ≠ []
  main_jumps : ClosedJumps mainIs
  main_fall : ClosedFall mainIs
  fns : ∀ idx f, idx ≠ 0 → code.fn idx = some f →
    f.insts = (twinBytes (raws idx)).toArray ∧
    ∃ is, decode (raws idx) = some is ∧ WFJumps is (raws idx).length ∧ (raws idx).length < 2 ^ 32

/-- Tables of the whole program: identity for main, `optTab` for the functions. -/
def optTabs (mainIs : List Instr) (raws : Nat → Bytes) : Nat → List (Nat × Nat)
  | 0 => idTable mainIs
  | idx + 1 => optTab (raws (idx + 1))

open Tengo.Model.VM in
/-- Bodies of the optimized program: main as it is, the optimizer model's output for the functions. -/
def optBodies (code : Code) (raws : Nat → Bytes) : Nat → Array UInt8
  | 0 => code.main.insts
  | idx + 1 => optBody (raws (idx + 1))

open Tengo.Model.VM in
/-- **opt_code_reloc.** For every program of the shape `TwinCode` and every choice of bodies `b` that
leaves main alone and gives each function the bytes the optimizer model returns for its input (with
whatever source map and return position), the relocation check passes with the computed tables. -/
theorem opt_code_reloc {code : Code} {mainIs : List Instr} {raws : Nat → Bytes}
    (h : TwinCode code mainIs raws) (b : Nat → Array UInt8) (hb0 : b 0 = code.main.insts)
    (hb : ∀ idx f, idx ≠ 0 → code.fn idx = some f →
      ∃ sm rp r, opt (raws idx) sm rp = .ok r ∧ b idx = r.bytes.toArray) :
    checkReloc code b (optTabs mainIs raws) = true := by
  unfold checkReloc
  rw [List.all_eq_true]
  intro idx _
  cases hf : code.fn idx with
  | none => rfl
  | some f =>
    show checkFnReloc f (b idx) (optTabs mainIs raws idx) = true
    cases idx with
    | zero =>
      have hfm : f = code.main := by
        have : code.fn 0 = some code.main := by simp [Code.fn]
        rw [this] at hf; exact (Option.some.inj hf).symm
      subst hfm
      rw [hb0]
      exact id_fn_reloc code.main mainIs h.main_dec h.main_jumps h.main_fall h.main_ne
    | succ k =>
      obtain ⟨hfi, is, hd, hw, hlen⟩ := h.fns (k + 1) f (by omega) hf
      obtain ⟨sm, rp, r, hr, hbk⟩ := hb (k + 1) f (by omega) hf
      have hff : f = { f with insts := (twinBytes (raws (k + 1))).toArray } := by
        cases f; simp only at hfi; subst hfi; rfl
      show checkFnReloc f (b (k + 1)) (optTab (raws (k + 1))) = true
      rw [hbk, optTab_eq hd hr, hff]
      exact opt_fn_reloc f (raws (k + 1)) is sm rp r hd hlen hr

open Tengo.Model.VM in
/-- The same with the bodies computed by the model (`optBodies`): nothing is left to choose. -/
theorem opt_code_reloc_bodies {code : Code} {mainIs : List Instr} {raws : Nat → Bytes}
    (h : TwinCode code mainIs raws) :
    checkReloc code (optBodies code raws) (optTabs mainIs raws) = true := by
  apply opt_code_reloc h _ rfl
  intro idx f h0 hf
  obtain ⟨_, is, hd, hw, _⟩ := h.fns idx f h0 hf
  obtain ⟨r, hr⟩ := opt_total is (raws idx).length [] 0 hw
  have hr' : opt (raws idx) [] 0 = .ok r := by simp [opt, hd, hr]
  refine ⟨[], 0, r, hr', ?_⟩
  cases idx with
  | zero => exact absurd rfl h0
  | succ k => exact optBody_eq hr'

end Tengo.Proofs.C03Reloc

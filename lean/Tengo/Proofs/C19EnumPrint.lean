import Tengo.Proofs.C19EnumAst
/-!
C19: printer of the enum module's AST back to code lines (comment-free, unindented, one statement per line;
an `if` without `else` whose body is one simple statement, and an exported function whose body is one
statement, are printed on one line — the layout of stdlib/srcmod_enum.tengo).
-/
namespace Tengo.Proofs.C19Enum
open Tengo.Model.Spec

def opText : String → String
  | "LOr" => " || " | "Less" => " < " | "Add" => "+" | t => " " ++ t ++ " "

mutual
  def rExpr : Expr → String
    | .ident n => n
    | .int v => toString v
    | .bool b => if b then "true" else "false"
    | .undef => "undefined"
    | .bin t l r => rExpr l ++ opText t ++ rExpr r
    | .un "Not" e => "!" ++ rExpr e
    | .arr es => "[" ++ rExprs es ++ "]"
    | .idx e i => rExpr e ++ "[" ++ rExpr i ++ "]"
    | .slice e (some lo) (some hi) => rExpr e ++ "[" ++ rExpr lo ++ ":" ++ rExpr hi ++ "]"
    | .call false f args => rExpr f ++ "(" ++ rExprs args ++ ")"
    | _ => "?"
  def rExprs : List Expr → String
    | [] => ""
    | [e] => rExpr e
    | e :: es => rExpr e ++ ", " ++ rExprs es
end

/-- Simple (one-line) statements. -/
def rSimple : Stmt → String
  | .expr e => rExpr e
  | .ret (some e) => "return " ++ rExpr e
  | .assign "Define" [l] [r] => rExpr l ++ " := " ++ rExpr r
  | .assign "Assign" [l] [r] => rExpr l ++ " = " ++ rExpr r
  | .assign "AddAssign" [l] [r] => rExpr l ++ " += " ++ rExpr r
  | _ => "?"

mutual
  def rStmt : Stmt → List String
    | .ifs none c [s] none => ["if " ++ rExpr c ++ " { " ++ rSimple s ++ " }"]
    | .ifs none c body (some (.block els)) =>
        ["if " ++ rExpr c ++ " {"] ++ rStmts body ++ ["} else {"] ++ rStmts els ++ ["}"]
    | .forin k v it body => ["for " ++ k ++ ", " ++ v ++ " in " ++ rExpr it ++ " {"] ++ rStmts body ++ ["}"]
    | .fors none (some c) none body => ["for " ++ rExpr c ++ " {"] ++ rStmts body ++ ["}"]
    | s => [rSimple s]
  def rStmts : List Stmt → List String
    | [] => []
    | s :: ss => rStmt s ++ rStmts ss
end

def rTop (name : String) : Expr → List String
  | .func false ps body => [name ++ " := func(" ++ ", ".intercalate ps ++ ") {"] ++ rStmts body ++ ["}"]
  | _ => ["?"]

def rExport (last : Bool) (e : String × List String × List Stmt) : List String :=
  let hd := e.1 ++ ": func(" ++ ", ".intercalate e.2.1 ++ ") {"
  let close := if last then "}" else "},"
  match e.2.2 with
  | [s] => (if (rStmt s).length == 1 then [hd ++ " " ++ rSimple s ++ " " ++ close] else [hd] ++ rStmt s ++ [close])
  | body => [hd] ++ rStmts body ++ [close]

def rExports : List (String × List String × List Stmt) → List String
  | [] => []
  | [e] => rExport true e
  | e :: es => rExport false e ++ rExports es

/-- The whole module as code lines. -/
def render : List String :=
  rTop "is_enumerable" isEnumerableFn ++ rTop "is_array_like" isArrayLikeFn ++ ["export {"] ++ rExports enumExports ++ ["}"]

end Tengo.Proofs.C19Enum

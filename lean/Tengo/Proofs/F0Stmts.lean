import Tengo.Proofs.F0Correct
/-! Compiler correctness for fragment F0 (statements: expression statement, global assignment, if/else). -/
namespace Tengo.Model.F0

variable {V : Type}

mutual
  def ssize : Stm → Nat
    | .expr e => esize e + 1
    | .assign _ e => esize e + 3
    | .ifs c body => esize c + 5 + sssize body
    | .ifelse c body els => esize c + 5 + sssize body + 5 + sssize els
  def sssize : Stms → Nat
    | .nil => 0
    | .cons s ss => ssize s + sssize ss
end

mutual
  theorem csize_compS : ∀ (s : Stm) (o : Nat), csize (compS o s) = ssize s
    | .expr e, o => by simp [compS, ssize, csize_append, csize_comp, csize, Ins.size]
    | .assign i e, o => by simp [compS, ssize, csize_append, csize_comp, csize, Ins.size]
    | .ifs c body, o => by
        simp [compS, ssize, csize_append, csize_comp, csize, Ins.size, csize_compSs body]; omega
    | .ifelse c body els, o => by
        simp [compS, ssize, csize_append, csize_comp, csize, Ins.size, csize_compSs body, csize_compSs els]; omega
  theorem csize_compSs : ∀ (ss : Stms) (o : Nat), csize (compSs o ss) = sssize ss
    | .nil, o => by simp [compSs, sssize, csize]
    | .cons s ss, o => by simp [compSs, sssize, csize_append, csize_compS s, csize_compSs ss]
end

end Tengo.Model.F0

namespace Tengo.Model.F0
variable {V : Type}

mutual
  /-- **F0 statement correctness.** Running the code of a statement placed anywhere leaves the operand
  stack as it was, ends at the first byte after the code, and changes the globals exactly as the
  reference semantics says; a run-time error of the reference semantics is an error of the machine. -/
  theorem compS_correct (S : Sem V) (cs : Nat → V) : ∀ (s : Stm) (g : Nat → V) (pre post : List Ins) (st : List V),
      (∀ g', exec S cs s g = some g' →
        Runs S cs (pre ++ compS (csize pre) s ++ post) ⟨csize pre, st, g⟩ ⟨csize pre + ssize s, st, g'⟩) ∧
      (exec S cs s g = none → Fails S cs (pre ++ compS (csize pre) s ++ post) ⟨csize pre, st, g⟩)
    | .expr e, g, pre, post, st => by
      have hcode : pre ++ compS (csize pre) (.expr e) ++ post = pre ++ comp (csize pre) e ++ ([Ins.pop] ++ post) := by
        simp [compS, List.append_assoc]
      have hf : fetch (pre ++ compS (csize pre) (.expr e) ++ post) (csize pre + esize e) = some Ins.pop := by
        have h := fetch_mid' pre (comp (csize pre) e) [] post Ins.pop (csize pre + esize e) (by simp [csize_comp])
        simpa [compS, List.append_assoc] using h
      obtain ⟨h1, h2⟩ := comp_correct S cs g e pre ([Ins.pop] ++ post) st
      rw [← hcode] at h1 h2
      constructor
      · intro g' hg
        simp only [exec] at hg
        cases he : eval S cs g e with
        | none => simp [he] at hg
        | some v =>
          simp only [he, Option.map_some, Option.some.injEq] at hg
          subst hg
          exact ((h1 v he).trans (Runs.step (step_pop S cs _ hf))).to (by simp [ssize]; omega)
      · intro hg
        simp only [exec] at hg
        cases he : eval S cs g e with
        | none => exact h2 he
        | some v => simp [he] at hg
    | .assign i e, g, pre, post, st => by
      have hcode : pre ++ compS (csize pre) (.assign i e) ++ post = pre ++ comp (csize pre) e ++ ([Ins.setg i] ++ post) := by
        simp [compS, List.append_assoc]
      have hf : fetch (pre ++ compS (csize pre) (.assign i e) ++ post) (csize pre + esize e) = some (Ins.setg i) := by
        have h := fetch_mid' pre (comp (csize pre) e) [] post (Ins.setg i) (csize pre + esize e) (by simp [csize_comp])
        simpa [compS, List.append_assoc] using h
      obtain ⟨h1, h2⟩ := comp_correct S cs g e pre ([Ins.setg i] ++ post) st
      rw [← hcode] at h1 h2
      constructor
      · intro g' hg
        simp only [exec] at hg
        cases he : eval S cs g e with
        | none => simp [he] at hg
        | some v =>
          simp only [he, Option.map_some, Option.some.injEq] at hg
          subst hg
          exact ((h1 v he).trans (Runs.step (step_setg S cs _ hf))).to (by simp [ssize]; omega)
      · intro hg
        simp only [exec] at hg
        cases he : eval S cs g e with
        | none => exact h2 he
        | some v => simp [he] at hg
    | .ifs c body, g, pre, post, st => by
      have hboff : csize (pre ++ comp (csize pre) c ++ [Ins.jmpf (csize pre + esize c + 5 + sssize body)]) =
          csize pre + esize c + 5 := by simp [csize_append, csize_comp, csize, Ins.size]; omega
      have hcomp : compS (csize pre) (.ifs c body) =
          comp (csize pre) c ++ [Ins.jmpf (csize pre + esize c + 5 + sssize body)] ++ compSs (csize pre + esize c + 5) body := by
        simp [compS, csize_comp, csize_compSs, List.append_assoc]
      have hcode0 : pre ++ compS (csize pre) (.ifs c body) ++ post =
          pre ++ comp (csize pre) c ++ ([Ins.jmpf (csize pre + esize c + 5 + sssize body)] ++
            compSs (csize pre + esize c + 5) body ++ post) := by
        rw [hcomp]; simp [List.append_assoc]
      have hcode1 : pre ++ compS (csize pre) (.ifs c body) ++ post =
          (pre ++ comp (csize pre) c ++ [Ins.jmpf (csize pre + esize c + 5 + sssize body)]) ++
            compSs (csize (pre ++ comp (csize pre) c ++ [Ins.jmpf (csize pre + esize c + 5 + sssize body)])) body ++ post := by
        rw [hcomp, hboff]; simp [List.append_assoc]
      have hfj : fetch (pre ++ compS (csize pre) (.ifs c body) ++ post) (csize pre + esize c) =
          some (Ins.jmpf (csize pre + esize c + 5 + sssize body)) := by
        rw [hcomp]
        have h := fetch_mid' pre (comp (csize pre) c) (compSs (csize pre + esize c + 5) body) post
          (Ins.jmpf (csize pre + esize c + 5 + sssize body)) (csize pre + esize c) (by simp [csize_comp])
        simpa [List.append_assoc] using h
      obtain ⟨hc1, hc2⟩ := comp_correct S cs g c pre ([Ins.jmpf (csize pre + esize c + 5 + sssize body)] ++
            compSs (csize pre + esize c + 5) body ++ post) st
      rw [← hcode0] at hc1 hc2
      obtain ⟨hb1, hb2⟩ := compSs_correct S cs body g
        (pre ++ comp (csize pre) c ++ [Ins.jmpf (csize pre + esize c + 5 + sssize body)]) post st
      rw [← hcode1, hboff] at hb1 hb2
      constructor
      · intro g' hg
        simp only [exec] at hg
        cases hec : eval S cs g c with
        | none => simp [hec] at hg
        | some a =>
          simp only [hec] at hg
          have hstep := Runs.step (step_jmpf S cs _ (st := st) (g := g) (a := a) hfj)
          by_cases hfa : S.falsy a = true
          · simp only [hfa, ↓reduceIte, Option.some.injEq] at hg hstep
            subst hg
            exact ((hc1 a hec).trans hstep).to (by simp [ssize]; omega)
          · simp only [hfa, Bool.false_eq_true, ↓reduceIte] at hg hstep
            exact (((hc1 a hec).trans hstep).trans (hb1 g' hg)).to (by simp [ssize]; omega)
      · intro hg
        simp only [exec] at hg
        cases hec : eval S cs g c with
        | none => exact hc2 hec
        | some a =>
          simp only [hec] at hg
          have hstep := Runs.step (step_jmpf S cs _ (st := st) (g := g) (a := a) hfj)
          by_cases hfa : S.falsy a = true
          · simp [hfa] at hg
          · simp only [hfa, Bool.false_eq_true, ↓reduceIte] at hg hstep
            exact ((hc1 a hec).trans hstep).fails (hb2 hg)
    | .ifelse c body els, g, pre, post, st => by
      have hboff : csize (pre ++ comp (csize pre) c ++ [Ins.jmpf (csize pre + esize c + 5 + sssize body + 5)]) =
          csize pre + esize c + 5 := by simp [csize_append, csize_comp, csize, Ins.size]; omega
      have heoff : csize (pre ++ comp (csize pre) c ++ [Ins.jmpf (csize pre + esize c + 5 + sssize body + 5)] ++
          compSs (csize pre + esize c + 5) body ++ [Ins.jmp (csize pre + esize c + 5 + sssize body + 5 + sssize els)]) =
          csize pre + esize c + 5 + sssize body + 5 := by
        simp [csize_append, csize_comp, csize_compSs, csize, Ins.size]; omega
      have hcomp : compS (csize pre) (.ifelse c body els) =
          comp (csize pre) c ++ [Ins.jmpf (csize pre + esize c + 5 + sssize body + 5)] ++
            compSs (csize pre + esize c + 5) body ++ [Ins.jmp (csize pre + esize c + 5 + sssize body + 5 + sssize els)] ++
            compSs (csize pre + esize c + 5 + sssize body + 5) els := by
        simp [compS, csize_comp, csize_compSs, List.append_assoc]
      have hcode0 : pre ++ compS (csize pre) (.ifelse c body els) ++ post =
          pre ++ comp (csize pre) c ++ ([Ins.jmpf (csize pre + esize c + 5 + sssize body + 5)] ++
            compSs (csize pre + esize c + 5) body ++ [Ins.jmp (csize pre + esize c + 5 + sssize body + 5 + sssize els)] ++
            compSs (csize pre + esize c + 5 + sssize body + 5) els ++ post) := by
        rw [hcomp]; simp [List.append_assoc]
      have hcode1 : pre ++ compS (csize pre) (.ifelse c body els) ++ post =
          (pre ++ comp (csize pre) c ++ [Ins.jmpf (csize pre + esize c + 5 + sssize body + 5)]) ++
            compSs (csize (pre ++ comp (csize pre) c ++ [Ins.jmpf (csize pre + esize c + 5 + sssize body + 5)])) body ++
            ([Ins.jmp (csize pre + esize c + 5 + sssize body + 5 + sssize els)] ++
            compSs (csize pre + esize c + 5 + sssize body + 5) els ++ post) := by
        rw [hcomp, hboff]; simp [List.append_assoc]
      have hcode2 : pre ++ compS (csize pre) (.ifelse c body els) ++ post =
          (pre ++ comp (csize pre) c ++ [Ins.jmpf (csize pre + esize c + 5 + sssize body + 5)] ++
            compSs (csize pre + esize c + 5) body ++ [Ins.jmp (csize pre + esize c + 5 + sssize body + 5 + sssize els)]) ++
            compSs (csize (pre ++ comp (csize pre) c ++ [Ins.jmpf (csize pre + esize c + 5 + sssize body + 5)] ++
            compSs (csize pre + esize c + 5) body ++ [Ins.jmp (csize pre + esize c + 5 + sssize body + 5 + sssize els)])) els ++ post := by
        rw [hcomp, heoff]; simp [List.append_assoc]
      have hfj : fetch (pre ++ compS (csize pre) (.ifelse c body els) ++ post) (csize pre + esize c) =
          some (Ins.jmpf (csize pre + esize c + 5 + sssize body + 5)) := by
        rw [hcomp]
        have h := fetch_mid' pre (comp (csize pre) c)
          (compSs (csize pre + esize c + 5) body ++ [Ins.jmp (csize pre + esize c + 5 + sssize body + 5 + sssize els)] ++
            compSs (csize pre + esize c + 5 + sssize body + 5) els) post
          (Ins.jmpf (csize pre + esize c + 5 + sssize body + 5)) (csize pre + esize c) (by simp [csize_comp])
        simpa [List.append_assoc] using h
      have hfj2 : fetch (pre ++ compS (csize pre) (.ifelse c body els) ++ post) (csize pre + esize c + 5 + sssize body) =
          some (Ins.jmp (csize pre + esize c + 5 + sssize body + 5 + sssize els)) := by
        rw [hcomp]
        have h := fetch_mid' pre (comp (csize pre) c ++ [Ins.jmpf (csize pre + esize c + 5 + sssize body + 5)] ++
            compSs (csize pre + esize c + 5) body)
          (compSs (csize pre + esize c + 5 + sssize body + 5) els) post
          (Ins.jmp (csize pre + esize c + 5 + sssize body + 5 + sssize els)) (csize pre + esize c + 5 + sssize body)
          (by simp [csize_append, csize_comp, csize_compSs, csize, Ins.size]; omega)
        simpa [List.append_assoc] using h
      obtain ⟨hc1, hc2⟩ := comp_correct S cs g c pre ([Ins.jmpf (csize pre + esize c + 5 + sssize body + 5)] ++
            compSs (csize pre + esize c + 5) body ++ [Ins.jmp (csize pre + esize c + 5 + sssize body + 5 + sssize els)] ++
            compSs (csize pre + esize c + 5 + sssize body + 5) els ++ post) st
      rw [← hcode0] at hc1 hc2
      obtain ⟨hb1, hb2⟩ := compSs_correct S cs body g
        (pre ++ comp (csize pre) c ++ [Ins.jmpf (csize pre + esize c + 5 + sssize body + 5)])
        ([Ins.jmp (csize pre + esize c + 5 + sssize body + 5 + sssize els)] ++
            compSs (csize pre + esize c + 5 + sssize body + 5) els ++ post) st
      rw [← hcode1, hboff] at hb1 hb2
      obtain ⟨he1, he2⟩ := compSs_correct S cs els g
        (pre ++ comp (csize pre) c ++ [Ins.jmpf (csize pre + esize c + 5 + sssize body + 5)] ++
            compSs (csize pre + esize c + 5) body ++ [Ins.jmp (csize pre + esize c + 5 + sssize body + 5 + sssize els)]) post st
      rw [← hcode2, heoff] at he1 he2
      constructor
      · intro g' hg
        simp only [exec] at hg
        cases hec : eval S cs g c with
        | none => simp [hec] at hg
        | some a =>
          simp only [hec] at hg
          have hstep := Runs.step (step_jmpf S cs _ (st := st) (g := g) (a := a) hfj)
          by_cases hfa : S.falsy a = true
          · simp only [hfa, ↓reduceIte] at hg hstep
            exact (((hc1 a hec).trans hstep).trans (he1 g' hg)).to (by simp [ssize]; omega)
          · simp only [hfa, Bool.false_eq_true, ↓reduceIte] at hg hstep
            exact ((((hc1 a hec).trans hstep).trans (hb1 g' hg)).trans
              (Runs.step (step_jmp S cs _ hfj2))).to (by simp [ssize]; omega)
      · intro hg
        simp only [exec] at hg
        cases hec : eval S cs g c with
        | none => exact hc2 hec
        | some a =>
          simp only [hec] at hg
          have hstep := Runs.step (step_jmpf S cs _ (st := st) (g := g) (a := a) hfj)
          by_cases hfa : S.falsy a = true
          · simp only [hfa, ↓reduceIte] at hg hstep
            exact ((hc1 a hec).trans hstep).fails (he2 hg)
          · simp only [hfa, Bool.false_eq_true, ↓reduceIte] at hg hstep
            exact ((hc1 a hec).trans hstep).fails (hb2 hg)
  theorem compSs_correct (S : Sem V) (cs : Nat → V) : ∀ (ss : Stms) (g : Nat → V) (pre post : List Ins) (st : List V),
      (∀ g', execs S cs ss g = some g' →
        Runs S cs (pre ++ compSs (csize pre) ss ++ post) ⟨csize pre, st, g⟩ ⟨csize pre + sssize ss, st, g'⟩) ∧
      (execs S cs ss g = none → Fails S cs (pre ++ compSs (csize pre) ss ++ post) ⟨csize pre, st, g⟩)
    | .nil, g, pre, post, st => by
      constructor
      · intro g' hg
        simp only [execs, Option.some.injEq] at hg
        subst hg
        simpa [sssize] using Runs.refl S cs (pre ++ compSs (csize pre) .nil ++ post) ⟨csize pre, st, g⟩
      · intro hg; simp [execs] at hg
    | .cons s ss, g, pre, post, st => by
      have hcode0 : pre ++ compSs (csize pre) (.cons s ss) ++ post =
          pre ++ compS (csize pre) s ++ (compSs (csize pre + ssize s) ss ++ post) := by
        simp [compSs, csize_compS, List.append_assoc]
      have hcode1 : pre ++ compSs (csize pre) (.cons s ss) ++ post =
          (pre ++ compS (csize pre) s) ++ compSs (csize (pre ++ compS (csize pre) s)) ss ++ post := by
        simp [compSs, csize_compS, csize_append, List.append_assoc]
      obtain ⟨h1, h2⟩ := compS_correct S cs s g pre (compSs (csize pre + ssize s) ss ++ post) st
      rw [← hcode0] at h1 h2
      have hr := fun g1 => compSs_correct S cs ss g1 (pre ++ compS (csize pre) s) post st
      rw [← hcode1] at hr
      simp only [csize_append, csize_compS] at hr
      constructor
      · intro g' hg
        simp only [execs] at hg
        cases hes : exec S cs s g with
        | none => simp [hes] at hg
        | some g1 =>
          simp only [hes] at hg
          exact ((h1 g1 hes).trans ((hr g1).1 g' hg)).to (by simp [sssize]; omega)
      · intro hg
        simp only [execs] at hg
        cases hes : exec S cs s g with
        | none => exact h2 hes
        | some g1 =>
          simp only [hes] at hg
          exact (h1 g1 hes).fails ((hr g1).2 hg)
end

end Tengo.Model.F0

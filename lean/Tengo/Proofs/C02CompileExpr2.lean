import Tengo.Proofs.C02CompileExpr
/-!
C02 / `compile_verifies`: the induction over the compiler model, part 2 (conditional expression,
function literals, the expression dispatch).
-/
set_option linter.unusedVariables false
set_option linter.unusedSimpArgs false
namespace Tengo.Proofs.C02Compile
open Tengo.Model Tengo.Model.Opcodes Tengo.Model.Compiler Tengo.Model.Optimizer Tengo.Model.Verifier
open Tengo.Model.Spec (Expr Stmt)
open Tengo.Proofs.C03 Tengo.Proofs.C03Reloc

theorem espec_cond {d : Nat} (ih : All d) (c t f : Expr) (s s' : CState) (L : List Instr) (F : List Nat)
    (h : compileExpr (d + 1) (.cond c t f) s = .ok ((), s')) (hinv : Inv s L F)
    (hsz : szE (d + 1) (.cond c t f) < 2 ^ 30) : ERes s s' L F (szE (d + 1) (.cond c t f)) := by
  rw [compileExpr] at h
  have hszd : szE (d + 1) (.cond c t f) = szE d c + szE d t + szE d f + 10 := by rw [szE]
  rw [hszd] at hsz ⊢
  have hjf : isJump opJumpFalsy = true := rfl
  have hjj : isJump opJump = true := rfl
  obtain ⟨_, s1, h1, h⟩ := bind_ok h
  obtain ⟨jp1, s2, h2, h⟩ := bind_ok h
  obtain ⟨_, s3, h3, h⟩ := bind_ok h
  obtain ⟨jp2, s4, h4, h⟩ := bind_ok h
  obtain ⟨p1, s4', h5, h⟩ := bind_ok h
  obtain ⟨_, s5, h6, h⟩ := bind_ok h
  obtain ⟨_, s6, h7, h⟩ := bind_ok h
  obtain ⟨p2, s6', h8, h⟩ := bind_ok h
  -- condition
  obtain ⟨Bc, F₁, o1, hb1⟩ := ih.e c s s1 L F h1 hinv (by omega)
  have e2 := emit_ok h2
  have ejp1 : jp1 = s1.insts.size := (Prod.mk.inj e2).1
  have es2 : s2 = emitS opJumpFalsy [0] s1 := (Prod.mk.inj e2).2
  subst es2
  have inv2 := o1.inv.emit (op := opJumpFalsy) (args := [0]) (jump_shape hjf) (opReq_jump hjf)
  -- then branch
  obtain ⟨Bt, F₂, o2, hb2⟩ := ih.e t _ s3 _ F₁ h3 inv2 (by omega)
  have e4 := emit_ok h4
  have ejp2 : jp2 = s3.insts.size := (Prod.mk.inj e4).1
  have es4 : s4 = emitS opJump [0] s3 := (Prod.mk.inj e4).2
  subst es4
  have inv4 := o2.inv.emit (op := opJump) (args := [0]) (jump_shape hjj) (opReq_jump hjj)
  -- first patch
  have e5 := curPos_ok h5
  have ep1 : p1 = (emitS opJump [0] s3).insts.size := (Prod.mk.inj e5).1
  have es4' : s4' = emitS opJump [0] s3 := (Prod.mk.inj e5).2
  subst es4'; subst ep1
  have e6 := changeOperand_ok h6
  have es5 : s5 = chgS jp1 (emitS opJump [0] s3).insts.size (emitS opJump [0] s3) := (Prod.mk.inj e6).2
  subst es5
  -- sizes
  have hsz1 : s1.insts.size = totalSize L + totalSize Bc := by rw [o1.inv.em.size, totalSize_append]
  have hL1 : totalSize (L ++ Bc) = totalSize L + totalSize Bc := totalSize_append _ _
  rw [hL1] at inv2 o2 hb2 inv4
  have hsz3 : s3.insts.size = totalSize L + totalSize Bc + 5 + totalSize Bt := by
    rw [o2.inv.em.size]; simp only [totalSize_append, totalSize_cons, totalSize_nil, jump_size hjf] <;> omega
  have hL3 : totalSize (L ++ Bc ++ [⟨totalSize L + totalSize Bc, opJumpFalsy, [0]⟩] ++ Bt) =
      totalSize L + totalSize Bc + 5 + totalSize Bt := by
    simp only [totalSize_append, totalSize_cons, totalSize_nil, jump_size hjf] <;> omega
  rw [hL3] at inv4
  have hsz4 : (emitS opJump [0] s3).insts.size = totalSize L + totalSize Bc + 5 + totalSize Bt + 5 := by
    rw [inv4.em.size]; simp only [totalSize_append, totalSize_cons, totalSize_nil, jump_size hjf, jump_size hjj] <;> omega
  have hinv4' : Inv (emitS opJump [0] s3) ((L ++ Bc) ++ ⟨totalSize L + totalSize Bc, opJumpFalsy, [0]⟩ ::
      (Bt ++ [⟨totalSize L + totalSize Bc + 5 + totalSize Bt, opJump, [0]⟩])) F₂ := by
    have := inv4; simpa using this
  have hinv5 := hinv4'.patch (t := (emitS opJump [0] s3).insts.size) hjf
  have hjp1 : jp1 = totalSize L + totalSize Bc := by rw [ejp1, hsz1]
  subst hjp1
  have hjp2 : jp2 = totalSize L + totalSize Bc + 5 + totalSize Bt := by rw [ejp2, hsz3]
  subst hjp2
  -- else branch
  obtain ⟨Bf, F₃, o3, hb3⟩ := ih.e f _ s6 _ F₂ h7 hinv5 (by omega)
  have e8 := curPos_ok h8
  have ep2 : p2 = s6.insts.size := (Prod.mk.inj e8).1
  have es6' : s6 = s6' := (Prod.mk.inj e8).2.symm
  subst es6'; subst ep2
  have e9 := changeOperand_ok h
  have es' : s' = chgS (totalSize L + totalSize Bc + 5 + totalSize Bt) s6.insts.size s6 := (Prod.mk.inj e9).2
  subst es'
  have hinv6 : Inv s6 ((L ++ Bc ++ ⟨totalSize L + totalSize Bc, opJumpFalsy, [(emitS opJump [0] s3).insts.size]⟩ :: Bt) ++
      ⟨totalSize L + totalSize Bc + 5 + totalSize Bt, opJump, [0]⟩ :: Bf) F₃ := by
    have := o3.inv; simpa using this
  have hinv7 := hinv6.patch (t := s6.insts.size) hjj
  have hsz6 : s6.insts.size = totalSize L + totalSize Bc + 5 + totalSize Bt + 5 + totalSize Bf := by
    rw [o3.inv.em.size]
    simp only [totalSize_append, totalSize_cons, totalSize_nil, jump_size hjf, jump_size hjj] <;> omega
  refine ⟨Bc ++ ⟨totalSize L + totalSize Bc, opJumpFalsy, [totalSize L + totalSize Bc + 5 + totalSize Bt + 5]⟩ ::
      (Bt ++ ⟨totalSize L + totalSize Bc + 5 + totalSize Bt, opJump, [s6.insts.size]⟩ :: Bf), F₃,
    ⟨?_, ?_, ?_, ?_⟩, ?_⟩
  · rw [hsz4] at hinv7; simpa using hinv7
  · have hf5 := chgS_frame (totalSize L + totalSize Bc) (emitS opJump [0] s3).insts.size (emitS opJump [0] s3)
    have hf7 := chgS_frame (totalSize L + totalSize Bc + 5 + totalSize Bt) s6.insts.size s6
    have st2 : Step s1 (emitS opJumpFalsy [0] s1) F₁ F₁ := Step.of_eq F₁ rfl rfl rfl
    have st4 : Step s3 (emitS opJump [0] s3) F₂ F₂ := Step.of_eq F₂ rfl rfl rfl
    have st5 : Step (emitS opJump [0] s3) (chgS (totalSize L + totalSize Bc) (emitS opJump [0] s3).insts.size (emitS opJump [0] s3)) F₂ F₂ :=
      Step.of_eq F₂ hf5.2.2.1 hf5.2.1 hf5.1
    have st7 : Step s6 (chgS (totalSize L + totalSize Bc + 5 + totalSize Bt) s6.insts.size s6) F₃ F₃ := Step.of_eq F₃ hf7.2.2.1 hf7.2.1 hf7.1
    exact (((((o1.step.trans st2).trans o2.step).trans st4).trans st5).trans o3.step).trans st7
  · have hf5 := chgS_frame (totalSize L + totalSize Bc) (emitS opJump [0] s3).insts.size (emitS opJump [0] s3)
    have hf7 := chgS_frame (totalSize L + totalSize Bc + 5 + totalSize Bt) s6.insts.size s6
    rw [hf7.2.2.2, o3.loops, hf5.2.2.2]
    show s3.loops = s.loops
    rw [o2.loops]; exact o1.loops
  · simp only [totalSize_append, totalSize_cons, jump_size hjf, jump_size hjj]
    have := o1.size; have := o2.size; have := o3.size; omega
  · intro a
    have hb2' : EBlk (totalSize L + totalSize Bc + 5) (totalSize L + totalSize Bc + 5 + totalSize Bt) a Bt :=
      (hb2 a).cast (by simp only [totalSize_append, totalSize_cons, totalSize_nil, jump_size hjf])
        (by simp only [totalSize_append, totalSize_cons, totalSize_nil, jump_size hjf])
    have hb3' : EBlk (totalSize L + totalSize Bc + 5 + totalSize Bt + 5) s6.insts.size a Bf :=
      (hb3 a).cast (by
        simp only [totalSize_append, totalSize_cons, totalSize_nil, jump_size hjf, jump_size hjj] <;> omega)
        (by rw [hsz6]; simp only [totalSize_append, totalSize_cons, totalSize_nil, jump_size hjf, jump_size hjj] <;> omega)
    exact (EBlk.cond (hb1 a) hb2' hb3').cast rfl (by
      rw [hsz6]; simp only [totalSize_append, totalSize_cons, jump_size hjf, jump_size hjj] <;> omega)

/-! ### function literals -/

theorem setAssigned_ok {sym : Sym} {s : CState} {r : Unit × CState} (h : setAssigned sym s = .ok r) :
    r.2.insts = s.insts ∧ r.2.tables = s.tables ∧ r.2.consts = s.consts ∧ r.2.saved = s.saved ∧
      r.2.loops = s.loops := by
  have : setAssigned sym s = .ok ((), { s with assigned := s.assigned.setIfInBounds sym.id true }) := rfl
  rw [this] at h; injection h with h; subst h
  exact ⟨rfl, rfl, rfl, rfl, rfl⟩

theorem localAssigned_ok {sym : Sym} {s : CState} {r : Bool × CState} (h : localAssigned sym s = .ok r) :
    r.2 = s := by
  have : localAssigned sym s = .ok (isAssigned s sym.id, s) := rfl
  rw [this] at h; injection h with h; subst h; rfl

theorem forM_nil' {α : Type} (g : α → CM PUnit) : ([] : List α).forM g = pure PUnit.unit := rfl
theorem forM_cons' {α : Type} (g : α → CM PUnit) (a : α) (as : List α) :
    (a :: as).forM g = (g a >>= fun _ => as.forM g) := rfl

/-- the parameter loop of a function literal -/
theorem params_inv : ∀ (ps : List String) (s s' : CState) (L : List Instr) (F : List Nat),
    (ps.forM (fun p => do let x ← define p; setAssigned x)) s = .ok ((), s') → Inv s L F →
    Inv s' L F ∧ Step s s' F F ∧ s'.insts = s.insts ∧ s'.loops = s.loops
  | [], s, s', L, F, h, hinv => by
    rw [forM_nil'] at h
    have e : s' = s := (Prod.mk.inj (pure_ok h)).2
    subst e
    exact ⟨hinv, Step.refl _ _, rfl, rfl⟩
  | p :: ps, s, s', L, F, h, hinv => by
    rw [forM_cons'] at h
    obtain ⟨_, s2, h12, h⟩ := bind_ok h
    obtain ⟨x, s1, h1, h2⟩ := bind_ok h12
    have e1 := define_ok h1
    have es1 : s1 = (defS p s).2 := (Prod.mk.inj e1).2
    subst es1
    obtain ⟨hinv1, hst1, _, _⟩ := hinv.define p
    obtain ⟨q1, q2, q3, q4, q5⟩ := setAssigned_ok h2
    simp only at q1 q2 q3 q4 q5
    have hinv2 : Inv s2 L F := hinv1.of_eq q1 q2 q3
    obtain ⟨hinv', hst', hi', hl'⟩ := params_inv ps s2 s' L F h hinv2
    exact ⟨hinv', (hst1.trans (Step.of_eq F q4 q2 q3)).trans hst', by rw [hi', q1]; rfl, by rw [hl', q5]; rfl⟩

/-- a loop that pushes one value per element -/
theorem forM_qres {α : Type} (g : α → CM PUnit) (R : Chain → α → Prop)
    (hR : ∀ c c' a, ChainLe c c' → R c a → R c' a) (n : Nat)
    (hg : ∀ a s s₁ L F, g a s = .ok (PUnit.unit, s₁) → Inv s L F → R s.tables a → QRes s s₁ L F n 1) :
    ∀ (as : List α) (s s' : CState) (L : List Instr) (F : List Nat), (as.forM g) s = .ok ((), s') → Inv s L F →
      (∀ a ∈ as, R s.tables a) → QRes s s' L F (n * as.length) as.length
  | [], s, s', L, F, h, hinv, _ => by
    rw [forM_nil'] at h
    have e : s' = s := (Prod.mk.inj (pure_ok h)).2
    subst e
    simpa using QRes.nil hinv
  | a :: as, s, s', L, F, h, hinv, hr => by
    rw [forM_cons'] at h
    obtain ⟨_, s1, h1, h⟩ := bind_ok h
    have r1 := hg a s s1 L F h1 hinv (hr a List.mem_cons_self)
    obtain ⟨B₁, F₁, o1, hb1⟩ := r1
    have r2 := forM_qres g R hR n hg as s1 s' (L ++ B₁) F₁ h o1.inv
      (fun b hb => hR _ _ b o1.step.tabs (hr b (List.mem_cons_of_mem _ hb)))
    have := (QRes.bind (n₂ := n * as.length) (k₂ := as.length) ⟨B₁, F₁, o1, hb1⟩ (fun L₁ F₁' hinv1 => by
      -- the continuation is run from the state reached, whatever the ghost lists
      exact forM_qres g R hR n hg as s1 s' L₁ F₁' h hinv1
        (fun b hb => hR _ _ b o1.step.tabs (hr b (List.mem_cons_of_mem _ hb)))))
    refine (this.mono ?_).castK ?_
    · simp only [List.length_cons, Nat.mul_add]; omega
    · simp only [List.length_cons]; omega

def enterS (s : CState) : CState :=
  { s with saved := { insts := s.insts, loops := s.loops } :: s.saved, insts := #[], loops := [],
           tables := { block := false } :: s.tables }

theorem enterScope_ok {s : CState} {r : Unit × CState} (h : enterScope s = .ok r) : r.2 = enterS s := by
  have : enterScope s = .ok ((), enterS s) := rfl
  rw [this] at h; injection h with h; subst h; rfl

theorem Inv.enter {s : CState} {L : List Instr} {F : List Nat} (h : Inv s L F) : Inv (enterS s) [] F := by
  have hne := h.wfc.ne_nil
  refine ⟨⟨by simp [enterS, encode], trivial, fun _ hi => (by cases hi)⟩, h.flen,
    ⟨fun p hp => (by cases hp), fun _ o ho => (by cases ho), h.tinv⟩, h.wfc.cons, fun _ hi => (by cases hi), ?_⟩
  show ConstsOK _ _ (rootMax (_ :: s.tables))
  rw [rootMax_cons hne]; exact h.cok

theorem optimizeFunc_ok {s : CState} {r : Unit × CState} (h : optimizeFunc s = .ok r) :
    ∃ res, Optimizer.opt s.insts.toList [] 0 = .ok res ∧ r.2 = { s with insts := res.bytes.toArray } := by
  unfold optimizeFunc at h
  obtain ⟨s0, s1, h1, h2⟩ := bind_ok h
  clear h
  have e := get_ok h1
  have e1 : s0 = s := (Prod.mk.inj e).1
  have e2 : s1 = s := (Prod.mk.inj e).2
  rw [e1, e2] at h2
  clear e e1 e2 h1
  cases hres : Optimizer.opt s.insts.toList [] 0 with
  | ok res =>
    simp only [hres] at h2
    refine ⟨res, rfl, ?_⟩
    have : (set { s with insts := res.bytes.toArray } : CM PUnit) s =
        .ok (PUnit.unit, { s with insts := res.bytes.toArray }) := rfl
    rw [this] at h2; injection h2 with h2; subst h2; rfl
  | panic w =>
    simp only [hres] at h2
    exact (throw_ok h2).elim

theorem QRes.post_eq {s s₁ s₂ : CState} {L : List Instr} {F : List Nat} {n k : Nat} (h : QRes s s₁ L F n k)
    (h1 : s₂.insts = s₁.insts) (h2 : s₂.tables = s₁.tables) (h3 : s₂.consts = s₁.consts)
    (h4 : s₂.saved = s₁.saved) (h5 : s₂.loops = s₁.loops) : QRes s s₂ L F n k := by
  obtain ⟨B, F', ho, hb⟩ := h
  exact ⟨B, F', ⟨ho.inv.of_eq h1 h2 h3, ho.step.trans (Step.of_eq F' h4 h2 h3), h5.trans ho.loops, ho.size⟩, hb⟩

theorem opReq_loc' {cs : List Const} {F : List Nat} {c : Chain} {idx : Nat} (hs : idx < locMax c)
    {p op : Nat} (hop : opClass op = .loc) : opReq cs F (envOf c) ⟨p, op, [idx]⟩ := by
  unfold opReq; simp only [hop, arg0, List.headD_cons]; exact hs

theorem opReq_free' {cs : List Const} {F : List Nat} {c : Chain} {idx : Nat} (hs : idx < freeCnt c)
    {p op : Nat} (hop : opClass op = .free) : opReq cs F (envOf c) ⟨p, op, [idx]⟩ := by
  unfold opReq; simp only [hop, arg0, List.headD_cons]; exact hs

/-- one captured variable: `[NULL; DEFL i;] GETLP i` or `GETFP i` -/
theorem free_step (a : Sym) (s s₁ : CState) (L : List Instr) (F : List Nat)
    (h : (match a.scope with
      | .local => do
        if !(← localAssigned a) then
          discard <| emit opNull
          discard <| emit opDefineLocal [a.index]
          setAssigned a
        discard <| emit opGetLocalPtr [a.index]
      | .free => discard <| emit opGetFreePtr [a.index]
      | _ => pure ()) s = .ok (PUnit.unit, s₁))
    (hinv : Inv s L F) (hr : OrigOK s.tables a) : QRes s s₁ L F 5 1 := by
  rcases hr with ⟨hsc, hlt⟩ | ⟨hsc, hlt⟩
  · simp only [hsc] at h
    obtain ⟨b, s0, h0, hb⟩ := bind_ok h
    clear h
    have e0 := localAssigned_ok h0
    simp only at e0; subst e0
    split at hb
    · obtain ⟨_, s2, h2, hb2⟩ := bind_ok hb
      obtain ⟨_, s3, h3, hb3⟩ := bind_ok hb2
      obtain ⟨_, s4, h4, h⟩ := bind_ok hb3
      have e2 := demit_ok h2; simp only at e2; subst e2
      have e3 := demit_ok h3; simp only at e3; subst e3
      obtain ⟨q1, q2, q3, q4, q5⟩ := setAssigned_ok h4
      simp only at q1 q2 q3 q4 q5
      have e5 := demit_ok h; simp only at e5; subst e5
      have r1 := (QRes.nil hinv).emit (op := opNull) (args := []) (ws := []) (pops := 0) (pushes := 1) rfl rfl
        (fun _ => rfl) (by omega) (by omega) (by decide) (fun p F₁ _ => opReq_other rfl)
      have r2 := r1.emit (op := opDefineLocal) (args := [a.index]) (ws := [1]) (pops := 1) (pushes := 0) rfl rfl
        (fun _ => rfl) (by omega) (by omega) (by decide) (fun p F₁ _ => opReq_loc' hlt rfl)
      have r3 := r2.post_eq q1 q2 q3 q4 q5
      have r4 := r3.emit (op := opGetLocalPtr) (args := [a.index]) (ws := [1]) (pops := 0) (pushes := 1) rfl rfl
        (fun _ => rfl) (by omega) (by omega) (by decide) (fun p F₁ _ => by
          rw [q2]; exact opReq_loc' hlt rfl)
      exact (r4.mono (by simp)).castK (by simp)
    · have e5 := demit_ok hb; simp only at e5; subst e5
      have r4 := (QRes.nil hinv).emit (op := opGetLocalPtr) (args := [a.index]) (ws := [1]) (pops := 0) (pushes := 1)
        rfl rfl (fun _ => rfl) (by omega) (by omega) (by decide) (fun p F₁ _ => opReq_loc' hlt rfl)
      exact (r4.mono (by simp)).castK (by simp)
  · simp only [hsc] at h
    have e5 := demit_ok h; simp only at e5; subst e5
    have r4 := (QRes.nil hinv).emit (op := opGetFreePtr) (args := [a.index]) (ws := [1]) (pops := 0) (pushes := 1)
      rfl rfl (fun _ => rfl) (by omega) (by omega) (by decide) (fun p F₁ _ => opReq_free' hlt rfl)
    exact (r4.mono (by simp)).castK (by simp)

def leaveS (s : CState) (sv : Saved) (rest : List Saved) : CState :=
  { s with insts := sv.insts, loops := sv.loops, saved := rest, tables := parentSkip s.tables }

theorem leaveScope_ok {s : CState} {sv : Saved} {rest : List Saved} (hs : s.saved = sv :: rest)
    {r : Array UInt8 × CState} (h : leaveScope s = .ok r) : r = (s.insts, leaveS s sv rest) := by
  have : leaveScope s = .ok (s.insts, leaveS s sv rest) := by
    unfold leaveScope leaveS
    show Except.ok _ = Except.ok _
    simp only [hs]
  rw [this] at h; injection h with h; exact h.symm

/-- closing an expression, with the reached state in the open -/
theorem eres_emitE' {s s₁ : CState} {L : List Instr} {F : List Nat} {n k : Nat} {B₁ : List Instr} {F₁ : List Nat}
    (o1 : Out s s₁ L F n B₁ F₁) (hb1 : ∀ a, Seq (totalSize L) (totalSize L + totalSize B₁) a (a + k) B₁)
    {op : Nat} {args ws : List Nat}
    (hw : widths op = some ws) (hlen : args.length = ws.length)
    (he : ∀ p, stackEffect ⟨p, op, args⟩ = some (k, 1)) (hnp : op ≠ opPop)
    (hreq : ∀ p, opReq s₁.consts.toList F₁ (envOf s₁.tables) ⟨p, op, args⟩) :
    ERes s (emitS op args s₁) L F (n + (1 + ws.sum)) := by
  have e1 : totalSize (L ++ B₁) = totalSize L + totalSize B₁ := totalSize_append _ _
  have hsz : (Instr.mk (totalSize L + totalSize B₁) op args).size = 1 + ws.sum := shape_size hw
  have hinv := o1.inv.emit (op := op) (args := args) ⟨ws, hw, hlen⟩ (hreq _)
  rw [e1] at hinv
  refine ⟨B₁ ++ [⟨totalSize L + totalSize B₁, op, args⟩], F₁, ⟨by rw [← List.append_assoc]; exact hinv,
    o1.step.trans (Step.of_eq F₁ rfl rfl rfl), o1.loops,
    by rw [totalSize_append, totalSize_cons, totalSize_nil, hsz]; have := o1.size; omega⟩, ?_⟩
  intro a
  have h := EBlk.ofSeq (i := ⟨totalSize L + totalSize B₁, op, args⟩) (hb1 a) rfl (he _) rfl hnp
  rw [totalSize_append, totalSize_cons, totalSize_nil]
  have e2 : totalSize L + (totalSize B₁ + ((Instr.mk (totalSize L + totalSize B₁) op args).size + 0)) =
      totalSize L + totalSize B₁ + (Instr.mk (totalSize L + totalSize B₁) op args).size := by omega
  rw [e2]; exact h

theorem szE_func (d : Nat) (va : Bool) (ps : List String) (body : List Stmt) :
    szE (d + 1) (.func va ps body) = szBlock d body + 1279 := by rw [szE]

theorem espec_func {d : Nat} (ih : All d) (va : Bool) (ps : List String) (body : List Stmt) (s s' : CState)
    (L : List Instr) (F : List Nat) (h : compileExpr (d + 1) (.func va ps body) s = .ok ((), s'))
    (hinv : Inv s L F) (hsz : szE (d + 1) (.func va ps body) < 2 ^ 30) :
    ERes s s' L F (szE (d + 1) (.func va ps body)) := by
  rw [compileExpr] at h
  rw [szE_func] at hsz ⊢
  obtain ⟨_, s0, h0, hA⟩ := bind_ok h
  clear h
  have e0 := enterScope_ok h0; simp only at e0; subst e0
  obtain ⟨_, s1, h1, hB⟩ := bind_ok hA
  obtain ⟨_, s2, h2, hC⟩ := bind_ok hB
  obtain ⟨_, s3, h3, hD⟩ := bind_ok hC
  obtain ⟨st, s3', h4, hE⟩ := bind_ok hD
  clear hA hB hC hD
  have e4 := get_ok h4
  have est : st = s3 := (Prod.mk.inj e4).1
  have es3' : s3' = s3 := (Prod.mk.inj e4).2
  rw [est, es3'] at hE
  clear e4 est es3' h4
  dsimp only at hE
  obtain ⟨instructions, s4, h5, hF⟩ := bind_ok hE
  clear hE
  obtain ⟨hnl, hG⟩ := guard_ok hF
  clear hF
  obtain ⟨hnf, hH⟩ := guard_ok hG
  clear hG
  obtain ⟨_, s5, h6, hI⟩ := bind_ok hH
  obtain ⟨k, s6, h7, hJ⟩ := bind_ok hI
  clear hH hI
  -- the scope of the function
  have hinv0 : Inv (enterS s) [] F := hinv.enter
  obtain ⟨hinv1, hst1, hi1, hl1⟩ := params_inv ps _ s1 [] F h1 hinv0
  -- the body
  obtain ⟨Bb, F₂, bs, cs, ob⟩ := ih.b body s1 s2 [] F h2 hinv1 (by omega)
  have hloops1 : s1.loops = [] := by rw [hl1]; rfl
  obtain ⟨hbs, hcs⟩ := ob.nopend hloops1
  subst hbs; subst hcs
  have hblk : SBlk 0 (totalSize Bb) Bb [] [] := by simpa using ob.blk
  have hinv2 : Inv s2 Bb F₂ := by simpa using ob.inv
  -- the optimizer
  obtain ⟨res, hres, es3⟩ := optimizeFunc_ok h3
  simp only at es3; subst es3
  -- the tables after the body
  have hst02 : Step (enterS s) s2 F F₂ := hst1.trans ob.step
  have htab := hst02.tabs
  generalize hc2 : s2.tables = c2 at htab
  cases c2 with
  | nil => exact htab.elim
  | cons ft c2 =>
    obtain ⟨⟨hfb, _, _⟩, hle⟩ := htab
    have hfb' : ft.block = false := hfb.symm
    have hne2 : c2.isEmpty = false := by rw [← hle.isEmpty]; exact hinv.wfc.ne_nil
    have hsaved : s2.saved = { insts := s.insts, loops := s.loops } :: s.saved := hst02.saved
    have e5 := leaveScope_ok (s := { s2 with insts := res.bytes.toArray }) hsaved h5
    have einstr : instructions = res.bytes.toArray := (Prod.mk.inj e5).1
    have es4 : s4 = _ := (Prod.mk.inj e5).2
    subst es4; subst einstr
    have hps : leaveS { s2 with insts := res.bytes.toArray } { insts := s.insts, loops := s.loops } s.saved =
        { s2 with insts := s.insts, loops := s.loops, saved := s.saved, tables := c2 } := by
      simp [leaveS, hc2, parentSkip, hfb']
    rw [hps] at h6
    simp only [hc2, List.headD_cons] at hnl hnf h6 h7 hJ
    -- back in the enclosing function
    have hinv4 : Inv { s2 with insts := s.insts, loops := s.loops, saved := s.saved, tables := c2 } L F₂ := by
      have ht2 := hinv2.tinv; rw [hc2] at ht2
      have hw2 := hinv2.wfc; rw [hc2] at hw2
      have hst : s.consts.toList <+: s2.consts.toList := hst02.consts
      refine ⟨⟨hinv.em.bytes, hinv.em.lay, hinv.em.shape⟩, hinv2.flen, ht2.2.2, hw2.tail hne2, ?_, ?_⟩
      · intro i hi
        exact (hinv.ops i hi).mono hst hst02.fs (envOf_le hle)
      · have := hinv2.cok; rw [hc2, rootMax_cons hne2] at this; exact this
    have horig : ∀ o ∈ ft.freeSymbols, OrigOK c2 o := by
      have ht2 := hinv2.tinv; rw [hc2] at ht2
      exact ht2.2.1 hfb'
    have rf := forM_qres _ OrigOK (fun c c' a hcl => OrigOK.mono hcl) 5
      (fun a s s₁ L F h hinv hr => free_step a s s₁ L F h hinv hr) ft.freeSymbols _ s5 L F₂ h6 hinv4 horig
    obtain ⟨Bf, F₃, of, hbf⟩ := rf
    -- the function constant
    have e7 := addConstant_ok h7
    have ek : k = s5.consts.size := (Prod.mk.inj e7).1
    have es6 : s6 = addS _ s5 := (Prod.mk.inj e7).2
    subst es6; subst ek
    obtain ⟨H, hcore⟩ := hblk.closed
    have henv2 : envOf s2.tables = ⟨ft.maxDefinition, ft.freeSymbols.length, rootMax c2, true⟩ := by
      rw [hc2]
      simp only [envOf, locMax, freeCnt, globalCtx, hfb', hne2, Bool.false_eq_true, if_false, rootMax_cons hne2,
        Bool.not_false]
    have hrec : FnRec (s5.consts.toList ++ [Const.fn res.bytes ft.maxDefinition ps.length va])
        (F₃ ++ [ft.freeSymbols.length]) (rootMax s5.tables) res.bytes ft.maxDefinition
        ft.freeSymbols.length := by
      refine ⟨Bb, H, res, hinv2.em.lay, hinv2.em.shape, ?_, by simp, hcore, ?_, by omega, by omega, ?_⟩
      · rw [← hinv2.em.bytes]; exact hres
      · intro i hi
        have h1 := hinv2.ops i hi
        rw [henv2] at h1
        refine h1.mono (env := ⟨ft.maxDefinition, ft.freeSymbols.length, rootMax c2, true⟩)
          (env' := ⟨ft.maxDefinition, ft.freeSymbols.length, rootMax s5.tables, true⟩)
          ((of.step.consts).trans (List.prefix_append _ _)) ((of.step.fs).trans (List.prefix_append _ _))
          ⟨Nat.le_refl _, Nat.le_refl _, ?_, rfl⟩
        exact of.step.tabs.rootMax
      · have := ob.size; omega
    obtain ⟨hinv6, hst6⟩ := of.inv.add (Const.fn res.bytes ft.maxDefinition ps.length va)
      ft.freeSymbols.length (fun code nl np va' e => by
        injection e with e1 e2 e3 e4
        subst e1; subst e2
        exact hrec)
    have o6 : Out s (addS (Const.fn res.bytes ft.maxDefinition ps.length va) s5) L F
        (5 * ft.freeSymbols.length) Bf (F₃ ++ [ft.freeSymbols.length]) := by
      refine ⟨hinv6, ?_, ?_, of.size⟩
      · have st04 : Step s { s2 with insts := s.insts, loops := s.loops, saved := s.saved, tables := c2 } F F₂ :=
          ⟨rfl, hle, hst02.consts, hst02.fs⟩
        exact (st04.trans of.step).trans hst6
      · show s5.loops = s.loops
        rw [of.loops]
    have hk1 : (addS (Const.fn res.bytes ft.maxDefinition ps.length va) s5).consts.toList[s5.consts.size]? =
        some (Const.fn res.bytes ft.maxDefinition ps.length va) := by simp [addS]
    have hk2 : (F₃ ++ [ft.freeSymbols.length])[s5.consts.size]? = some ft.freeSymbols.length := by
      rw [← of.inv.flen]; exact getElem?_append_last _ _
    split at hJ
    · rename_i hpos
      have e8 := demit_ok hJ; simp only at e8; subst e8
      refine (eres_emitE' o6 hbf (op := opClosure) (args := [s5.consts.size, ft.freeSymbols.length])
        (ws := [2, 1]) rfl rfl (fun _ => rfl) (by decide) ?_).mono (by simp; omega)
      intro p
      unfold opReq
      have hop : opClass (Instr.mk p opClosure [s5.consts.size, ft.freeSymbols.length]).op = .closure := rfl
      simp only [hop, arg0, arg1, List.headD_cons, List.drop_one, List.tail_cons]
      exact ⟨_, hk1, rfl, hk2, by omega, by omega⟩
    · rename_i hpos
      have hz : ft.freeSymbols.length = 0 := by omega
      have e8 := demit_ok hJ; simp only at e8; subst e8
      have hbf0 : ∀ a, Seq (totalSize L) (totalSize L + totalSize Bf) a (a + 0) Bf := by
        intro a; have := hbf a; rw [hz] at this; exact this
      refine (eres_emitE' o6 hbf0 (op := opConstant) (args := [s5.consts.size])
        (ws := [2]) rfl rfl (fun _ => rfl) (by decide) ?_).mono (by simp; omega)
      intro p
      unfold opReq
      have hop : opClass (Instr.mk p opConstant [s5.consts.size]).op = .const := rfl
      simp only [hop, arg0, List.headD_cons]
      exact ⟨_, hk1, fun _ => by rw [hk2, hz]⟩

/-! ### all expressions -/

theorem espec_succ {d : Nat} (ih : All d) : ESpec (d + 1) := by
  intro e s s' L F h hinv hsz
  cases e with
  | ident n => exact espec_ident n s s' L F hinv h
  | int v => exact (espec_lits (d := d) s s' L F hinv).1 v h
  | float v => exact (espec_lits (d := d) s s' L F hinv).2.1 v h
  | char v => exact (espec_lits (d := d) s s' L F hinv).2.2.2 v h
  | str v => exact (espec_lits (d := d) s s' L F hinv).2.2.1 v h
  | bool b => exact espec_bool b s s' L F hinv h
  | undef => exact espec_undef s s' L F hinv h
  | bin tok l r =>
    rw [compileExpr] at h
    have hszd : szE (d + 1) (.bin tok l r) = szE d l + szE d r + 5 := by rw [szE]
    rw [hszd] at hsz ⊢
    split at h
    · refine espec_andor ih (if tok == "LAnd" then opAndJump else opOrJump) ?_ l r s s' L F h hinv hsz
      split
      · exact Or.inl rfl
      · exact Or.inr rfl
    · exact espec_bin_plain ih tok l r s s' L F h hinv hsz
  | un tok x => exact espec_un ih tok x s s' L F h hinv hsz
  | cond c t f => exact espec_cond ih c t f s s' L F h hinv hsz
  | paren x => exact espec_paren ih x s s' L F h hinv hsz
  | arr es => exact espec_arr ih es s s' L F h hinv hsz
  | map kvs => exact espec_map ih kvs s s' L F h hinv hsz
  | sel x y => exact espec_sel ih x y s s' L F h hinv hsz
  | idx x y => exact espec_idx ih x y s s' L F h hinv hsz
  | slice x lo hi => exact espec_slice ih x lo hi s s' L F h hinv hsz
  | call ell f args => exact espec_call ih ell f args s s' L F h hinv hsz
  | func va ps body => exact espec_func ih va ps body s s' L F h hinv hsz
  | imp n => rw [compileExpr] at h; exact (unsupported_ok h).elim
  | error x => exact espec_error ih x s s' L F h hinv hsz
  | immutable x => exact espec_immutable ih x s s' L F h hinv hsz
  | bad => rw [compileExpr] at h; exact (unsupported_ok h).elim

end Tengo.Proofs.C02Compile

import Tengo.Proofs.C01BridgeF3VMRel
/-!
C01 bridge for fragment F3, VM side, layer 1b: what `VM.execReturn`, `VM.execCall`, `VM.finishCompiled` and
`VM.copyArgs` do on registers that are in range — statements about the VM model only (no fragment state).
-/
set_option linter.unusedVariables false
set_option linter.unusedSimpArgs false
namespace Tengo.Proofs.C01BridgeF3
open Tengo.Model Tengo.Model.Spec Tengo.Model.VM Tengo.Proofs.C01Bridge

/-! ### RET -/

/-- The value `RET` hands to the caller. -/
def retVal (wv : Bool) (c : Core) : Value :=
  if wv && !c.cur.discard then getSlot c.regs (c.regs.sp - 1) else .undef

/-- The core after `RET`. -/
def retCore (wv : Bool) (c : Core) (caller : VM.Frame) (rest : List VM.Frame) : Core :=
  { regs := { stack := c.regs.stack.setIfInBounds (c.cur.bp - 1) (retVal wv c), sp := c.cur.bp,
              globals := c.regs.globals, fobjs := c.regs.fobjs },
    cur := caller, callers := rest }

theorem xok_execReturn (wv : Bool) (c : Core) (caller : VM.Frame) (rest : List VM.Frame) (g : GSt) (h : Spec.St)
    (hcs : c.callers = caller :: rest) (hsp : wv = true → 1 ≤ c.regs.sp) (hbp : c.cur.bp - 1 < stackSize) :
    XOk (execReturn (if wv then 1 else 0) c) g h (.next (retCore wv c caller rest) false) := by
  unfold execReturn
  cases wv with
  | false =>
    simp only [Bool.false_eq_true, if_false, show ((0 : Nat) == 1) = false from rfl, Bool.false_and]
    simp only [hcs]
    exact XOk.bind (XOk.setSlot { c.regs with sp := c.cur.bp } (c.cur.bp - 1) _ g h hbp) (XOk.pure _ g h)
  | true =>
    simp only [if_true, show ((1 : Nat) == 1) = true from rfl, Bool.true_and]
    refine XOk.bind (XOk.need g h (hsp rfl)) ?_
    simp only [hcs]
    exact XOk.bind (XOk.setSlot { c.regs with sp := c.cur.bp } (c.cur.bp - 1) _ g h hbp) (XOk.pure _ g h)

/-! ### `copyArgs` -/

/-- `VM.copyArgs` without the bounds check. -/
def copyArgsP (r : Regs) (bp numArgs : Nat) : Nat → Regs
  | 0 => r
  | m + 1 =>
    copyArgsP { r with stack := r.stack.setIfInBounds (bp + (numArgs - (m + 1)))
                                  (getSlot r (r.sp - numArgs + (numArgs - (m + 1)))) } bp numArgs m

theorem setSlot_eq (r : Regs) (i : Nat) (v : Value) (hi : i < stackSize) :
    setSlot r i v = pure { r with stack := r.stack.setIfInBounds i v } := by
  unfold setSlot
  rw [if_pos hi]

theorem copyArgs_eq (bp numArgs : Nat) (hb : bp + numArgs ≤ stackSize) :
    ∀ (m : Nat) (r : Regs), m ≤ numArgs → copyArgs r bp numArgs m = pure (copyArgsP r bp numArgs m)
  | 0, r, _ => rfl
  | m + 1, r, hm => by
    simp only [copyArgs, copyArgsP]
    rw [setSlot_eq r _ _ (by omega), pure_bind]
    exact copyArgs_eq bp numArgs hb m _ (by omega)

theorem copyArgsP_sp (bp numArgs : Nat) : ∀ (m : Nat) (r : Regs),
    (copyArgsP r bp numArgs m).sp = r.sp ∧ (copyArgsP r bp numArgs m).globals = r.globals ∧
      (copyArgsP r bp numArgs m).fobjs = r.fobjs
  | 0, r => ⟨rfl, rfl, rfl⟩
  | m + 1, r => by
    simp only [copyArgsP]
    exact copyArgsP_sp bp numArgs m _

theorem copyArgsP_stack {V : Type} (val : V → Value) (bp numArgs : Nat) : ∀ (m : Nat) (r : Regs) (stk : Nat → V),
    m ≤ numArgs → numArgs ≤ r.sp → r.sp ≤ stackSize → SlotsRel val stk r.stack →
    SlotsRel val (F3.copyArgs stk bp (r.sp - numArgs) numArgs m) (copyArgsP r bp numArgs m).stack
  | 0, r, stk, _, _, _, h => h
  | m + 1, r, stk, hm, hn, hs, h => by
    simp only [copyArgsP, F3.copyArgs]
    have hget : getSlot r (r.sp - numArgs + (numArgs - (m + 1))) =
        val (stk (r.sp - numArgs + (numArgs - (m + 1)))) :=
      h.get r rfl _ (by omega)
    have := copyArgsP_stack val bp numArgs m
      { r with stack := r.stack.setIfInBounds (bp + (numArgs - (m + 1)))
                          (getSlot r (r.sp - numArgs + (numArgs - (m + 1)))) }
      (F0.upd stk (bp + (numArgs - (m + 1))) (stk (r.sp - numArgs + (numArgs - (m + 1)))))
      (by omega) hn hs (h.set' _ _ _ hget)
    exact this

/-! ### the frame decision of `CALL` -/

/-- The core in which the callee starts. -/
def calleeCore (c : Core) (ipAfter : Int) (numArgs cr k : Nat) (free : List Nat) (numLocals : Nat) : Core :=
  { regs := { c.regs with sp := c.regs.sp - numArgs + numLocals },
    cur := { fnIdx := k + 1, fnRef := some cr, ip := -1, bp := c.regs.sp - numArgs, free := free },
    callers := { c.cur with ip := ipAfter } :: c.callers }

theorem finish_push (f : Fn) (ipAfter : Int) (c : Core) (numArgs cr k : Nat) (free : List Nat) (cf : Fn)
    (g : GSt) (h : Spec.St)
    (h1 : isSelfTail f c.cur cr ipAfter = false) (h2 : c.callers.length + 1 < maxFrames) :
    XOk (finishCompiled f ipAfter c c.regs numArgs cr k free cf) g h
      (.next (calleeCore c ipAfter numArgs cr k free cf.numLocals) false) := by
  unfold finishCompiled
  rw [h1]
  simp only [Bool.false_eq_true, if_false]
  rw [if_neg (by omega)]
  exact XOk.pure _ g h

theorem finish_overflow (f : Fn) (ipAfter : Int) (c : Core) (numArgs cr k : Nat) (free : List Nat) (cf : Fn)
    (g : GSt) (h : Spec.St)
    (h1 : isSelfTail f c.cur cr ipAfter = false) (h2 : c.callers.length + 1 ≥ maxFrames) :
    XFail (finishCompiled f ipAfter c c.regs numArgs cr k free cf) g h (.runtime "stack overflow") := by
  unfold finishCompiled
  rw [h1]
  simp only [Bool.false_eq_true, if_false]
  rw [if_pos h2]
  exact xfail_rtE _ g h

/-- The core a self tail call continues with. -/
def tailCore (f : Fn) (ipAfter : Int) (c : Core) (numArgs : Nat) : Core :=
  { c with regs := { copyArgsP c.regs c.cur.bp numArgs numArgs with
                       sp := (copyArgsP c.regs c.cur.bp numArgs numArgs).sp - numArgs - 1 },
           cur := { c.cur with ip := -1,
                               discard := c.cur.discard || byteAt f (ipAfter + 1) == Opcodes.opPop } }

theorem finish_tail (f : Fn) (ipAfter : Int) (c : Core) (numArgs cr k : Nat) (free : List Nat) (cf : Fn)
    (g : GSt) (h : Spec.St)
    (h1 : isSelfTail f c.cur cr ipAfter = true) (hb : c.cur.bp + numArgs ≤ stackSize) :
    XOk (finishCompiled f ipAfter c c.regs numArgs cr k free cf) g h
      (.next (tailCore f ipAfter c numArgs) false) := by
  unfold finishCompiled
  rw [h1]
  simp only [if_true]
  rw [copyArgs_eq c.cur.bp numArgs hb numArgs c.regs (Nat.le_refl _)]
  rfl

/-! ### `CALL` up to the frame decision -/

section call
variable (code : Code) (f : Fn) (ip : Int) (n : Nat) (c : Core) (g : GSt) (h : Spec.St)

theorem xok_spread0 (r : Regs) : XOk (em (spreadArgs r n 0)) g h (r, n) := rfl

theorem xok_rollUp (cf : Fn) (hva : cf.varargs = false) (r : Regs) : XOk (em (rollUp cf r n)) g h (r, n) := by
  unfold rollUp
  rw [hva]
  rfl

/-- `CALL n` on a compiled function with the right number of arguments is the frame decision. -/
theorem xok_execCall (cr k : Nat) (free : List Nat) (cf : Fn) (rf : Nat) (out : ExecOut)
    (hsp : n + 1 ≤ c.regs.sp) (hcallee : getSlot c.regs (c.regs.sp - 1 - n) = .cfn cr)
    (hfo : c.regs.fobjs[cr]? = some (k, free)) (hk : code.consts[k]? = some (.fn cf rf))
    (hva : cf.varargs = false) (hn : n = cf.numParams)
    (hfin : XOk (finishCompiled f (ip + 2) c c.regs n cr k free cf) g h out) :
    XOk (execCall code f ip n 0 c) g h out := by
  unfold execCall
  refine XOk.bind (XOk.need g h hsp) ?_
  simp only [hcallee]
  refine XOk.bind (xok_spread0 n g h c.regs) ?_
  simp only [hfo, hk]
  refine XOk.bind (xok_rollUp n g h cf hva c.regs) ?_
  simp only
  have : (n != cf.numParams) = false := by simp [hn]
  rw [this]
  simp only [Bool.false_eq_true, if_false]
  exact hfin

theorem xfail_execCall_arity (cr k : Nat) (free : List Nat) (cf : Fn) (rf : Nat)
    (hsp : n + 1 ≤ c.regs.sp) (hcallee : getSlot c.regs (c.regs.sp - 1 - n) = .cfn cr)
    (hfo : c.regs.fobjs[cr]? = some (k, free)) (hk : code.consts[k]? = some (.fn cf rf))
    (hva : cf.varargs = false) (hn : n ≠ cf.numParams) :
    XFail (execCall code f ip n 0 c) g h
      (.runtime s!"wrong number of arguments: want={cf.numParams}, got={n}") := by
  unfold execCall
  refine XFail.bind_right (XOk.need g h hsp) ?_
  simp only [hcallee]
  refine XFail.bind_right (xok_spread0 n g h c.regs) ?_
  simp only [hfo, hk]
  refine XFail.bind_right (xok_rollUp n g h cf hva c.regs) ?_
  simp only
  have : (n != cf.numParams) = true := by simp [hn]
  rw [this]
  simp only [if_true, hva, Bool.false_eq_true, if_false]
  exact xfail_rtE _ g h

theorem xfail_execCall_notCallable (hsp : n + 1 ≤ c.regs.sp)
    (hnc : NotCallable (getSlot c.regs (c.regs.sp - 1 - n))) :
    XFail (execCall code f ip n 0 c) g h
      (.runtime s!"not callable: {typeName (getSlot c.regs (c.regs.sp - 1 - n))}") := by
  unfold execCall
  refine XFail.bind_right (XOk.need g h hsp) ?_
  obtain ⟨h1, h2, h3⟩ := hnc
  generalize getSlot c.regs (c.regs.sp - 1 - n) = x at h1 h2 h3 ⊢
  cases x <;> first
    | exact absurd rfl (h1 _)
    | exact absurd rfl (h2 _)
    | exact absurd rfl (h3 _)
    | exact xfail_rtE _ g h

end call

end Tengo.Proofs.C01BridgeF3

import Tengo.Proofs.C03Basic
/-!
C03 helper lemmas, part 2: pass 3 (`retarget`, `retargetAll`) as a total map `rt`, when it succeeds,
and a specification `Spec` of what `optInstrs` returns when it does not panic.
-/
namespace Tengo.Proofs.C03
open Tengo.Model Tengo.Model.Opcodes Tengo.Model.Optimizer

/-- New target of old target `t`: `posMap t` or the new end. -/
def tgt (pm : List (Nat × Nat)) (newEnd t : Nat) : Nat :=
  match pm.lookup t with
  | some n => n
  | none => newEnd

/-- Pass 3 on one instruction as a total function (agrees with `retarget` whenever that succeeds). -/
def rt (pm : List (Nat × Nat)) (newEnd : Nat) (x : Instr) (n : Nat) : Instr :=
  if isJump x.op then { pos := n, op := x.op, args := [tgt pm newEnd (x.args.head?.getD 0)] }
  else { x with pos := n }

@[simp] theorem rt_pos (pm : List (Nat × Nat)) (ne : Nat) (x : Instr) (n : Nat) :
    (rt pm ne x n).pos = n := by unfold rt; split <;> rfl

@[simp] theorem rt_op (pm : List (Nat × Nat)) (ne : Nat) (x : Instr) (n : Nat) :
    (rt pm ne x n).op = x.op := by unfold rt; split <;> rfl

@[simp] theorem rt_size (pm : List (Nat × Nat)) (ne : Nat) (x : Instr) (n : Nat) :
    (rt pm ne x n).size = x.size := by simp [Instr.size]

theorem rt_args_nonjump {pm : List (Nat × Nat)} {ne : Nat} {x : Instr} {n : Nat}
    (h : isJump x.op = false) : (rt pm ne x n).args = x.args := by simp [rt, h]

theorem rt_args_jump {pm : List (Nat × Nat)} {ne : Nat} {x : Instr} {n t : Nat}
    (h : isJump x.op = true) (ht : x.args.head? = some t) :
    (rt pm ne x n).args = [tgt pm ne t] := by simp [rt, h, ht]

/-- When does `retarget` succeed, and with what. -/
theorem retarget_some {pm : List (Nat × Nat)} {e ne : Nat} {x : Instr} {n : Nat} {y : Instr} {b : Bool}
    (h : retarget pm e ne x n = some (y, b)) :
    y = rt pm ne x n ∧
    (∀ t, isJump x.op = true → x.args.head? = some t → pm.lookup t = none → b = true) ∧
    (isJump x.op = true → ∃ t, x.args.head? = some t ∧ ((pm.lookup t).isSome ∨ t = e)) := by
  unfold retarget at h
  split at h
  · rename_i hj
    split at h
    · cases h
    · rename_i t ht
      split at h
      · rename_i m hm
        simp only [Option.some.injEq, Prod.mk.injEq] at h
        refine ⟨?_, ?_, ?_⟩
        · rw [← h.1]; simp [rt, hj, ht, tgt, hm]
        · intro t' _ ht' hn; rw [ht] at ht'; cases ht'; rw [hm] at hn; cases hn
        · intro _; exact ⟨t, ht, Or.inl (by simp [hm])⟩
      · rename_i hm
        split at h
        · rename_i hte
          simp only [Option.some.injEq, Prod.mk.injEq] at h
          refine ⟨?_, ?_, ?_⟩
          · rw [← h.1]; simp [rt, hj, ht, tgt, hm]
          · intro _ _ _ _; exact h.2.symm
          · intro _; exact ⟨t, ht, Or.inr (by simpa using hte)⟩
        · cases h
  · rename_i hj
    simp only [Option.some.injEq, Prod.mk.injEq] at h
    refine ⟨?_, ?_, ?_⟩
    · rw [← h.1]; simp [rt, hj]
    · intro t hj'; simp [hj'] at hj
    · intro hj'; simp [hj'] at hj

theorem retarget_isSome {pm : List (Nat × Nat)} {e ne : Nat} {x : Instr} {n : Nat}
    (h : isJump x.op = true → ∃ t, x.args.head? = some t ∧ ((pm.lookup t).isSome ∨ t = e)) :
    ∃ r, retarget pm e ne x n = some r := by
  rw [← Option.isSome_iff_exists]
  unfold retarget
  split
  · rename_i hj
    obtain ⟨t, ht, h'⟩ := h hj
    rw [ht]
    cases hm : pm.lookup t with
    | some m => simp [hm]
    | none =>
      rw [hm] at h'
      rcases h' with h' | h'
      · simp at h'
      · subst h'; simp [hm]
  · simp

/-- `retargetAll` = `map rt` plus the "some jump goes to the end" flag. -/
theorem retargetAll_some {pm : List (Nat × Nat)} {e ne : Nat} :
    ∀ {L : List (Instr × Nat)} {out : List Instr} {b : Bool},
    retargetAll pm e ne L = some (out, b) →
    out = L.map (fun p => rt pm ne p.1 p.2) ∧
    (∀ p ∈ L, ∀ t, isJump p.1.op = true → p.1.args.head? = some t → pm.lookup t = none → b = true) ∧
    (∀ p ∈ L, isJump p.1.op = true →
      ∃ t, p.1.args.head? = some t ∧ ((pm.lookup t).isSome ∨ t = e)) := by
  intro L
  induction L with
  | nil =>
    intro out b h
    simp only [retargetAll, Option.some.injEq, Prod.mk.injEq] at h
    simp [h.1.symm]
  | cons p L ih =>
    intro out b h
    obtain ⟨x, n⟩ := p
    simp only [retargetAll] at h
    split at h
    · rename_i y b1 out1 b2 h1 h2
      simp only [Option.some.injEq, Prod.mk.injEq] at h
      obtain ⟨hy, hb, hw⟩ := retarget_some h1
      obtain ⟨ho, hb', hw'⟩ := ih h2
      refine ⟨?_, ?_, ?_⟩
      · rw [← h.1, hy, ho]; rfl
      · intro p hp t hj ht hn
        rw [← h.2]
        rcases List.mem_cons.mp hp with rfl | hp
        · simp [hb t hj ht hn]
        · simp [hb' p hp t hj ht hn]
      · intro p hp hj
        rcases List.mem_cons.mp hp with rfl | hp
        · exact hw hj
        · exact hw' p hp hj
    · cases h

theorem retargetAll_isSome {pm : List (Nat × Nat)} {e ne : Nat} :
    ∀ {L : List (Instr × Nat)},
    (∀ p ∈ L, isJump p.1.op = true →
      ∃ t, p.1.args.head? = some t ∧ ((pm.lookup t).isSome ∨ t = e)) →
    ∃ r, retargetAll pm e ne L = some r := by
  intro L
  induction L with
  | nil => intro _; exact ⟨_, rfl⟩
  | cons p L ih =>
    intro h
    obtain ⟨x, n⟩ := p
    obtain ⟨r1, h1⟩ := retarget_isSome (pm := pm) (e := e) (ne := ne) (x := x) (n := n)
      (h (x, n) (List.mem_cons_self ..))
    obtain ⟨r2, h2⟩ := ih (fun p hp => h p (List.mem_cons_of_mem _ hp))
    obtain ⟨y, b1⟩ := r1
    obtain ⟨o, b2⟩ := r2
    exact ⟨(y :: o, b1 || b2), by simp only [retargetAll, h1, h2]⟩

/-! ### layout of the output -/

theorem totalSize_map_rt (pm : List (Nat × Nat)) (ne : Nat) : ∀ (k : List Instr) (start : Nat),
    totalSize ((layout start k).map (fun p => rt pm ne p.1 p.2)) = totalSize k := by
  intro k
  induction k with
  | nil => intro _; rfl
  | cons a k ih => intro start; simp [layout, ih]

theorem layout_map_rt (pm : List (Nat × Nat)) (ne : Nat) : ∀ (k : List Instr) (start : Nat),
    Layout start ((layout start k).map (fun p => rt pm ne p.1 p.2)) := by
  intro k
  induction k with
  | nil => intro _; trivial
  | cons a k ih =>
    intro start
    simp only [layout, List.map_cons]
    exact ⟨by simp, by simpa using ih (start + a.size)⟩

/-! ### what `optInstrs` returns -/

/-- The RETURN that pass 3 appends. -/
def retInstr (n : Nat) : Instr := { pos := n, op := opReturn, args := [0] }

/-- Specification of a non-panicking `optInstrs`. -/
structure Spec (is : List Instr) (endPos : Nat) (srcMap : List (Nat × Nat)) (retPos : Nat)
    (r : Result) : Prop where
  insts : r.insts = (layout 0 (kept is)).map (fun p => rt (posMap (kept is)) (totalSize (kept is)) p.1 p.2)
      ++ (if r.appended then [retInstr (totalSize (kept is))] else [])
  bytes : r.bytes = encode r.insts
  srcMap : r.srcMap = sortMap
      (srcMap.filterMap (fun (p, s) => ((posMap (kept is)).lookup p).map (fun n => (n, s)))
        ++ (if r.appended then [(totalSize (kept is), retPos)] else []))
  jumps : ∀ p ∈ layout 0 (kept is), isJump p.1.op = true →
      ∃ t, p.1.args.head? = some t ∧ (((posMap (kept is)).lookup t).isSome ∨ t = endPos)
  app_jump : ∀ p ∈ layout 0 (kept is), ∀ t, isJump p.1.op = true → p.1.args.head? = some t →
      (posMap (kept is)).lookup t = none → r.appended = true
  app_last : ∀ x, (kept is).getLast? = some x → x.op ≠ opReturn → r.appended = true
  app_empty : kept is = [] → r.appended = true
  no_app : r.appended = false → ∃ x, (kept is).getLast? = some x ∧ x.op = opReturn

theorem optInstrs_ok {is : List Instr} {endPos : Nat} {sm : List (Nat × Nat)} {rp : Nat} {r : Result}
    (h : optInstrs is endPos sm rp = .ok r) : Spec is endPos sm rp r := by
  unfold optInstrs at h
  dsimp only at h
  split at h
  · cases h
  · rename_i out b hra
    obtain ⟨ho, hb, hw⟩ := retargetAll_some hra
    obtain ⟨ri, rb, rs, ra⟩ := r
    injection h with h
    injection h with h1 h2 h3 h4
    rw [h4] at h1 h2 h3
    rw [h1] at h2
    have hlast : ∀ x, (kept is).getLast? = some x → x.op ≠ opReturn → ra = true := by
      intro x hx hr; rw [← h4, hx]; simp [hr]
    refine ⟨?_, h2.symm, ?_, hw, ?_, hlast, ?_, ?_⟩
    · rw [← h1, ho]; cases ra <;> simp [retInstr]
    · rw [← h3]; cases ra <;> simp
    · intro p hp t hj ht hn; rw [← h4]; simp [hb p hp t hj ht hn]
    · intro hk; rw [← h4]; simp [hk, opReturn]
    · intro hf
      change ra = false at hf
      cases hl : (kept is).getLast? with
      | none => rw [hl] at h4; subst hf; simp [opReturn] at h4
      | some x =>
        refine ⟨x, rfl, ?_⟩
        apply Classical.byContradiction
        intro hne
        have := hlast x hl hne
        rw [hf] at this; cases this

theorem optInstrs_total {is : List Instr} {endPos : Nat} (sm : List (Nat × Nat)) (rp : Nat)
    (hw : ∀ p ∈ layout 0 (kept is), isJump p.1.op = true →
      ∃ t, p.1.args.head? = some t ∧ (((posMap (kept is)).lookup t).isSome ∨ t = endPos)) :
    ∃ r, optInstrs is endPos sm rp = .ok r := by
  obtain ⟨⟨out, b⟩, hr⟩ := retargetAll_isSome (pm := posMap (kept is)) (e := endPos)
    (ne := totalSize (kept is)) hw
  unfold optInstrs
  simp only [hr]
  exact ⟨_, rfl⟩

end Tengo.Proofs.C03

import Tengo.Proofs.C01BridgeF3CompStmt
/-!
C01 bridge for fragment F3, compile side, layer 5a (the symbol tables of a function): what `Define` does in the
function table (parameters) and in the body block (top-level local definitions), the `LocalAssigned` side table
after `define` + `setAssigned` of a fresh symbol (`markNew`), tables that hold exactly the local slots `lo … hi-1`
(`LocTab`), the invariant at the top level of a function body (`FnInv`), and that it makes the names resolve
(`FnInv.ctx`).
-/
set_option linter.unusedVariables false
set_option linter.unusedSimpArgs false
namespace Tengo.Proofs.C01BridgeF3Comp
open Tengo.Model Tengo.Model.Compiler Tengo.Model.Opcodes
open Tengo.Model.Spec (Expr Stmt)
open Tengo.Model.F3 (Ex Exs Stm Stms FnDef Prog Ins)
open Tengo.Proofs.C01Bridge

/-- `Define` in the body block of a function (block table on the function table on the root). -/
theorem defineIn_body (nm : String) (id : Nat) (bt ft root : Table) (hb : bt.block = true) (hf : ft.block = false) :
    defineIn nm id [bt, ft, root] =
      (⟨nm, .local, ft.numDefinition + bt.numDefinition, id⟩,
       [{ bt with store := (nm, ⟨nm, .local, ft.numDefinition + bt.numDefinition, id⟩) :: bt.store,
                  numDefinition := bt.numDefinition + 1,
                  maxDefinition := max bt.maxDefinition (ft.numDefinition + bt.numDefinition + 1) },
        { ft with maxDefinition := max ft.maxDefinition (ft.numDefinition + bt.numDefinition + 1) }, root]) := by
  simp [defineIn, nextIndex, globalCtx, updateMax, hb, hf]

/-- `Define` of a parameter: directly in the function table. -/
theorem defineIn_param (nm : String) (id : Nat) (ft root : Table) (hf : ft.block = false) :
    defineIn nm id [ft, root] =
      (⟨nm, .local, ft.numDefinition, id⟩,
       [{ ft with store := (nm, ⟨nm, .local, ft.numDefinition, id⟩) :: ft.store,
                  numDefinition := ft.numDefinition + 1,
                  maxDefinition := max ft.maxDefinition (ft.numDefinition + 1) }, root]) := by
  simp [defineIn, nextIndex, globalCtx, updateMax, hf]

theorem steps_define (nm : String) (s : CState) :
    Steps (define nm) s (defineIn nm s.nextId s.tables).1
      { s with nextId := s.nextId + 1, assigned := s.assigned.push false,
               tables := (defineIn nm s.nextId s.tables).2 } := rfl

theorem steps_localAssigned (sym : Sym) (s : CState) :
    Steps (localAssigned sym) s (s.assigned.getD sym.id false) s := rfl

theorem steps_setAssigned (sym : Sym) (s : CState) :
    Steps (setAssigned sym) s () { s with assigned := s.assigned.setIfInBounds sym.id true } := rfl

/-- The `LocalAssigned` table after `define` + `setAssigned` of a fresh symbol. -/
def markNew (a : Array Bool) : Array Bool := (a.push false).setIfInBounds a.size true

theorem markNew_size (a : Array Bool) : (markNew a).size = a.size + 1 := by simp [markNew]

theorem markNew_new (a : Array Bool) : (markNew a).getD a.size false = true := by
  simp [markNew, Array.getD_eq_getD_getElem?]

theorem markNew_old (a : Array Bool) (id : Nat) (h : id < a.size) : (markNew a).getD id false = a.getD id false := by
  have h1 : a.size ≠ id := by omega
  have h2 : id ≠ a.size := by omega
  simp [markNew, Array.getD_eq_getD_getElem?, Array.getElem?_setIfInBounds, h1, h2, Array.getElem?_push, h]

theorem push_new (a : Array Bool) : (a.push false).getD a.size false = false := by
  simp [Array.getD_eq_getD_getElem?]

section
variable (lnames : Nat → String)

/-- The table holds exactly the names of the local slots `lo … hi-1`, as local symbols with their slot index, all
marked assigned. -/
structure LocTab (asg : Array Bool) (lo hi : Nat) (t : Table) : Prop where
  none : ∀ nm, (∀ i, lo ≤ i → i < hi → nm ≠ lnames i) → t.store.lookup nm = none
  some : ∀ i, lo ≤ i → i < hi → ∃ id, t.store.lookup (lnames i) = some ⟨lnames i, .local, i, id⟩ ∧
    id < asg.size ∧ asg.getD id false = true

variable {lnames}

theorem LocTab.empty (asg : Array Bool) (lo : Nat) (t : Table) (h : t.store = []) : LocTab lnames asg lo lo t :=
  ⟨fun nm _ => by rw [h]; rfl, fun i h1 h2 => by omega⟩

theorem LocTab.mark {asg : Array Bool} {lo hi : Nat} {t : Table} (h : LocTab lnames asg lo hi t) :
    LocTab lnames (markNew asg) lo hi t := by
  refine ⟨h.none, fun i h1 h2 => ?_⟩
  obtain ⟨id, hl, hid, hv⟩ := h.some i h1 h2
  exact ⟨id, hl, by rw [markNew_size]; omega, by rw [markNew_old _ _ hid]; exact hv⟩

theorem LocTab.push (hinj : ∀ i j, lnames i = lnames j → i = j) {asg : Array Bool} {lo hi : Nat} {t t' : Table}
    (h : LocTab lnames asg lo hi t) (hle : lo ≤ hi)
    (ht : t'.store = (lnames hi, ⟨lnames hi, .local, hi, asg.size⟩) :: t.store) :
    LocTab lnames (markNew asg) lo (hi + 1) t' := by
  refine ⟨fun nm hn => ?_, fun i h1 h2 => ?_⟩
  · have hne : (nm == lnames hi) = false := by
      simp only [beq_eq_false_iff_ne, ne_eq]; exact hn hi hle (by omega)
    rw [ht, List.lookup, hne]
    exact h.none nm (fun i h1 h2 => hn i h1 (by omega))
  · by_cases hi' : i = hi
    · subst hi'
      refine ⟨asg.size, by rw [ht]; simp [List.lookup], by rw [markNew_size]; omega, markNew_new asg⟩
    · obtain ⟨id, hl, hid, hv⟩ := h.mark.some i h1 (by omega)
      refine ⟨id, ?_, hid, hv⟩
      have hne : (lnames i == lnames hi) = false := by
        simp only [beq_eq_false_iff_ne, ne_eq]; exact fun he => hi' (hinj _ _ he)
      rw [ht, List.lookup, hne]; exact hl

end

section
variable (names lnames : Nat → String) (n : Nat)

/-- The names of the bridge: global names distinct below `n`, local names distinct, no local name is a global
name. -/
structure NamesOK : Prop where
  ginj : ∀ i j, i < n → j < n → names i = names j → i = j
  linj : ∀ i j, lnames i = lnames j → i = j
  dis : ∀ i j, j < n → lnames i ≠ names j

/-- The root table gives the global slots to `names` and knows no local name. -/
structure RootOK (root : Table) : Prop where
  good : GoodRoot names n root
  noloc : ∀ i, root.store.lookup (lnames i) = none

/-- The state at the top level of the body of a function with `np` parameters when `m` local slots are defined:
the body block on the function table on the root; the next local index is `m`, `MaxSymbols` of the function
table is `m`; nothing captured; the function is outside every loop. -/
structure FnInv (np m : Nat) (root : Table) (s : CState) : Prop where
  tabs : ∃ bt ft, s.tables = [bt, ft, root] ∧ bt.block = true ∧ ft.block = false ∧
    ft.numDefinition + bt.numDefinition = m ∧ ft.maxDefinition = m ∧ ft.freeSymbols = [] ∧
    LocTab lnames s.assigned np m bt ∧ LocTab lnames s.assigned 0 np ft
  le : np ≤ m
  asz : s.assigned.size = s.nextId
  loops : s.loops = []

variable {names lnames n}

theorem resOK_fn (hN : NamesOK names lnames n) {asg : Array Bool} {np m : Nat} {bt ft root : Table}
    (hb : bt.block = true) (hbt : LocTab lnames asg np m bt) (hft : LocTab lnames asg 0 np ft) (hnp : np ≤ m)
    (hr : RootOK names lnames n root) : ResOK names lnames n m [bt, ft, root] asg := by
  refine ⟨rfl, fun i hi => ?_, fun i hi => ?_⟩
  · obtain ⟨id, hl⟩ := hr.good i hi
    have hnb : bt.store.lookup (names i) = none := hbt.none _ (fun j _ _ => (hN.dis j i hi).symm)
    have hnf : ft.store.lookup (names i) = none := hft.none _ (fun j _ _ => (hN.dis j i hi).symm)
    refine ⟨id, 2, fun recur nid => ?_⟩
    have h0 := resolveIn_here (asgF asg) (names i) root [] true nid _ hl rfl
    have h1 := resolveIn_skip (asgF asg) (names i) ft [root] true nid _ 0 hnf rfl h0 (Or.inr rfl)
    exact resolveIn_skip (asgF asg) (names i) bt [ft, root] recur nid _ 1 hnb rfl h1 (Or.inr rfl)
  · by_cases hip : np ≤ i
    · obtain ⟨id, hl, hid, hv⟩ := hbt.some i hip hi
      refine ⟨id, 0, hid, hv, fun recur nid => ?_⟩
      exact resolveIn_here (asgF asg) (lnames i) bt [ft, root] recur nid _ hl (by simp [asgF, hv])
    · obtain ⟨id, hl, hid, hv⟩ := hft.some i (Nat.zero_le _) (by omega)
      have hnb : bt.store.lookup (lnames i) = none :=
        hbt.none _ (fun j hj _ he => by have := hN.linj _ _ he; omega)
      refine ⟨id, 1, hid, hv, fun recur nid => ?_⟩
      have h0 := resolveIn_here (asgF asg) (lnames i) ft [root] true nid _ hl (by simp)
      exact resolveIn_skip (asgF asg) (lnames i) bt [ft, root] recur nid _ 0 hnb rfl h0 (Or.inl hb)

theorem FnInv.ctx (hN : NamesOK names lnames n) {np m : Nat} {root : Table} {s : CState}
    (hr : RootOK names lnames n root) (h : FnInv lnames np m root s) : Ctx names lnames n m true s := by
  obtain ⟨bt, ft, ht, hb, hf, _, _, _, hbt, hft⟩ := h.tabs
  refine ⟨?_, fun _ => ?_⟩
  · rw [ht]; exact resOK_fn hN hb hbt hft h.le hr
  · rw [ht]; simp [globalCtx, hb, hf]

/-- The next local name is in no table. -/
theorem FnInv.fresh (hN : NamesOK names lnames n) {np m : Nat} {root : Table} {s : CState}
    (hr : RootOK names lnames n root) (h : FnInv lnames np m root s) :
    Steps (resolve (lnames m)) s none s := by
  obtain ⟨bt, ft, ht, hb, hf, _, _, _, hbt, hft⟩ := h.tabs
  refine steps_resolve_of s _ _ ?_
  refine resolveIn_none _ _ _ _ _ ?_
  intro t htm
  rw [ht] at htm
  simp only [List.mem_cons, List.not_mem_nil, or_false] at htm
  rcases htm with rfl | rfl | rfl
  · exact hbt.none _ (fun j _ hj he => by have := hN.linj _ _ he; omega)
  · exact hft.none _ (fun j _ hj he => by have := hN.linj _ _ he; have := h.le; omega)
  · exact hr.noloc m

theorem FnInv.of_eq {np m : Nat} {root : Table} {s s' : CState} (h : FnInv lnames np m root s)
    (h1 : s'.tables = s.tables) (h2 : s'.assigned = s.assigned) (h3 : s'.nextId = s.nextId)
    (h4 : s'.loops = s.loops) : FnInv lnames np m root s' := by
  obtain ⟨bt, ft, ht, hb, hf, hn, hm, hfs, hbt, hft⟩ := h.tabs
  exact ⟨⟨bt, ft, by rw [h1, ht], hb, hf, hn, hm, hfs, by rw [h2]; exact hbt, by rw [h2]; exact hft⟩, h.le,
    by rw [h2, h3]; exact h.asz, by rw [h4]; exact h.loops⟩

end

end Tengo.Proofs.C01BridgeF3Comp

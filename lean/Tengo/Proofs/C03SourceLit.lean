import Tengo.Proofs.C02CompileInd
import Tengo.Proofs.C03Source
/-!
C03 at source level, part 3: what the compiler model stores for ONE function literal, with no invariant
assumed — `func_literal_stored`: the constant added for `func(ps) { body }` is the optimizer model's output
(`optBody`) on the instructions the compiler had emitted for the body (in a fresh scope, after defining
the parameters) at the moment `optimizeFunc` is called. This is the raw body the invariant of the compiler
proof records (`FnRec`, `Tengo/Proofs/C02CompileExpr2.lean: espec_func`), from which the raw bodies of
`Tengo.Proofs.C03Source.unopt_twin_exists` are taken.
-/
set_option linter.unusedVariables false
set_option linter.unusedSimpArgs false
namespace Tengo.Proofs.C03Source
open Tengo.Model Tengo.Model.Opcodes Tengo.Model.Compiler Tengo.Model.Optimizer
open Tengo.Model.Spec (Expr Stmt)
open Tengo.Proofs.C03 Tengo.Proofs.C03Reloc Tengo.Proofs.C02Compile

/-- capturing one free variable emits instructions only -/
theorem free_step_consts (a : Sym) (s s₁ : CState)
    (h : (match a.scope with
      | .local => do
        if !(← localAssigned a) then
          discard <| emit opNull
          discard <| emit opDefineLocal [a.index]
          setAssigned a
        discard <| emit opGetLocalPtr [a.index]
      | .free => discard <| emit opGetFreePtr [a.index]
      | _ => pure ()) s = .ok (PUnit.unit, s₁)) : s₁.consts = s.consts := by
  cases hsc : a.scope <;> simp only [hsc] at h
  · have := (Prod.mk.inj (pure_ok h)).2; rw [this]
  · obtain ⟨b, s0, h0, hb⟩ := bind_ok h
    have e0 := localAssigned_ok h0
    simp only at e0; subst e0
    split at hb
    · obtain ⟨_, s2, h2, hb2⟩ := bind_ok hb
      obtain ⟨_, s3, h3, hb3⟩ := bind_ok hb2
      obtain ⟨_, s4, h4, h5⟩ := bind_ok hb3
      have e2 := demit_ok h2; simp only at e2; subst e2
      have e3 := demit_ok h3; simp only at e3; subst e3
      obtain ⟨_, _, q3, _, _⟩ := setAssigned_ok h4
      simp only at q3
      have e5 := demit_ok h5; simp only at e5; subst e5
      show s4.consts = _
      rw [q3]; rfl
    · have e5 := demit_ok hb; simp only at e5; subst e5; rfl
  · have := (Prod.mk.inj (pure_ok h)).2; rw [this]
  · have e5 := demit_ok h; simp only at e5; subst e5; rfl

theorem forM_consts {α : Type} (g : α → CM PUnit)
    (hg : ∀ a s s₁, g a s = .ok (PUnit.unit, s₁) → s₁.consts = s.consts) :
    ∀ (as : List α) (s s' : CState), (as.forM g) s = .ok ((), s') → s'.consts = s.consts
  | [], s, s', h => by
    rw [forM_nil'] at h
    have e : s' = s := (Prod.mk.inj (pure_ok h)).2
    rw [e]
  | a :: as, s, s', h => by
    rw [forM_cons'] at h
    obtain ⟨_, s1, h1, h2⟩ := bind_ok h
    rw [forM_consts g hg as s1 s' h2, hg a s s1 h1]

/-- **func_literal_stored.** Compiling the function literal `func(ps) { body }` from state `s`: with `s1`
the state after opening the function scope and defining the parameters, and `s2` the state after compiling
the body from `s1` (so `s2.insts` is the raw body), the only constant the literal itself adds (after those
of its body) is the function whose code is the optimizer model's output on `s2.insts`. -/
theorem func_literal_stored (d : Nat) (va : Bool) (ps : List String) (body : List Stmt) (s s' : CState)
    (h : compileExpr (d + 1) (.func va ps body) s = .ok ((), s')) :
    ∃ s1 s2 : CState,
      (ps.forM (fun p => do let x ← define p; setAssigned x)) (enterS s) = .ok ((), s1) ∧
      compileBlock d body s1 = .ok ((), s2) ∧
      s'.consts = s2.consts.push
        (Const.fn (optBody s2.insts.toList).toList (s2.tables.headD {}).maxDefinition ps.length va) := by
  rw [compileExpr] at h
  obtain ⟨_, s0, h0, hA⟩ := bind_ok h
  clear h
  have e0 := enterScope_ok h0; simp only at e0; subst e0
  obtain ⟨_, s1, h1, hB⟩ := bind_ok hA
  obtain ⟨_, s2, h2, hC⟩ := bind_ok hB
  obtain ⟨_, s3, h3, hD⟩ := bind_ok hC
  obtain ⟨st, s3', h4, hE⟩ := bind_ok hD
  clear hA hB hC hD
  have e4 := get_ok h4
  have est : st = s3 := (Prod.mk.inj e4).1
  have es3' : s3' = s3 := (Prod.mk.inj e4).2
  rw [est, es3'] at hE
  clear e4 est es3' h4
  dsimp only at hE
  obtain ⟨instructions, s4, h5, hF⟩ := bind_ok hE
  clear hE
  obtain ⟨hnl, hG⟩ := guard_ok hF
  clear hF
  obtain ⟨hnf, hH⟩ := guard_ok hG
  clear hG
  obtain ⟨_, s5, h6, hI⟩ := bind_ok hH
  obtain ⟨k, s6, h7, hJ⟩ := bind_ok hI
  clear hH hI
  obtain ⟨res, hres, es3⟩ := optimizeFunc_ok h3
  simp only at es3; subst es3
  refine ⟨s1, s2, h1, h2, ?_⟩
  -- `leaveScope` returns the optimized instructions and keeps the constants
  have h5' : instructions = res.bytes.toArray ∧ s4.consts = s2.consts := by
    unfold leaveScope at h5
    have : ∀ (x : Array UInt8 × CState), (modifyGet (fun s : CState =>
        match s.saved with
        | sv :: rest => (s.insts, { s with insts := sv.insts, loops := sv.loops, saved := rest, tables := parentSkip s.tables })
        | [] => (s.insts, s)) : CM (Array UInt8)) { s2 with insts := res.bytes.toArray } = .ok x →
        x.1 = res.bytes.toArray ∧ x.2.consts = s2.consts := by
      intro x hx
      change Except.ok _ = Except.ok x at hx
      injection hx with hx
      subst hx
      cases hsv : s2.saved <;> simp [hsv]
    exact this _ h5
  obtain ⟨einstr, hc4⟩ := h5'
  subst einstr
  have hc5 : s5.consts = s4.consts :=
    forM_consts _ (fun a s s₁ hh => free_step_consts a s s₁ hh) _ s4 s5 h6
  have e7 := addConstant_ok h7
  have ek : k = s5.consts.size := (Prod.mk.inj e7).1
  have es6 : s6 = addS _ s5 := (Prod.mk.inj e7).2
  subst es6
  have hc' : s'.consts = (addS (Const.fn res.bytes.toArray.toList (s2.tables.headD {}).maxDefinition ps.length va) s5).consts := by
    split at hJ
    · have e8 := demit_ok hJ; simp only at e8; rw [e8]; rfl
    · have e8 := demit_ok hJ; simp only at e8; rw [e8]; rfl
  rw [hc']
  show s5.consts.push _ = _
  rw [hc5, hc4, optBody_eq hres]

/-- **func_literal_raw.** … and when the literal is compiled from a state that satisfies the invariant of
the compiler proof (`Inv`, as every state reached by `compileFile` does — that is what `all_spec` carries
through the traversal) and within the size bound, that raw body is the encoding of a closed statement
block with well-formed jumps, shorter than `2^30` bytes: the record `FnRec` the compiler proof keeps for
the new constant is about exactly these instructions. -/
theorem func_literal_raw (d : Nat) (va : Bool) (ps : List String) (body : List Stmt) (s s' : CState)
    (L : List Instr) (F : List Nat)
    (h : compileExpr (d + 1) (.func va ps body) s = .ok ((), s')) (hinv : Inv s L F)
    (hsz : szE (d + 1) (.func va ps body) < 2 ^ 30) :
    ∃ (s1 s2 : CState) (Lb : List Instr) (H : Nat → Nat) (F₂ : List Nat),
      (ps.forM (fun p => do let x ← define p; setAssigned x)) (enterS s) = .ok ((), s1) ∧
      compileBlock d body s1 = .ok ((), s2) ∧
      s'.consts = s2.consts.push
        (Const.fn (optBody s2.insts.toList).toList (s2.tables.headD {}).maxDefinition ps.length va) ∧
      s2.insts.toList = encode Lb ∧ Inv s2 Lb F₂ ∧ Core 0 s2.insts.size 0 0 H Lb NoT ∧
      WFJumps Lb s2.insts.size ∧ s2.insts.size < 2 ^ 30 := by
  obtain ⟨s1, s2, h1, h2, hc⟩ := func_literal_stored d va ps body s s' h
  rw [szE_func] at hsz
  have hinv0 : Inv (enterS s) [] F := hinv.enter
  obtain ⟨hinv1, hst1, hi1, hl1⟩ := params_inv ps _ s1 [] F h1 hinv0
  obtain ⟨Bb, F₂, bs, cs, ob⟩ := (all_spec d).b body s1 s2 [] F h2 hinv1 (by omega)
  have hloops1 : s1.loops = [] := by rw [hl1]; rfl
  obtain ⟨hbs, hcs⟩ := ob.nopend hloops1
  subst hbs; subst hcs
  have hblk : SBlk 0 (totalSize Bb) Bb [] [] := by simpa using ob.blk
  have hinv2 : Inv s2 Bb F₂ := by simpa using ob.inv
  obtain ⟨H, hcore⟩ := hblk.closed
  have hsize : s2.insts.size = totalSize Bb := hinv2.em.size
  have hcore' : Core 0 s2.insts.size 0 0 H Bb NoT := by rw [hsize]; exact hcore
  refine ⟨s1, s2, Bb, H, F₂, h1, h2, hc, hinv2.em.bytes, hinv2, hcore', core_wfjumps hcore' hinv2.em.shape, ?_⟩
  have := ob.size
  omega

end Tengo.Proofs.C03Source

import Tengo.Proofs.C01BridgeF3VMRun
import Tengo.Proofs.C01BridgeF3VMInst
/-!
C01 bridge for fragment F3, VM side: NON-VACUITY. A concrete compiled program with a function constant and a
call (`f := func(x) { return x }; f(5)`), its VM code, the concrete data semantics `env3`: the hypotheses of
`step_sim3` / `runs_halt3` (`CodeRel3`, `DataRel`, `Rel3` of the initial states) all hold for it.
-/
set_option linter.unusedVariables false
set_option linter.unusedSimpArgs false
namespace Tengo.Proofs.C01BridgeF3.Example
open Tengo.Model Tengo.Model.Spec Tengo.Model.VM Tengo.Proofs.C01Bridge Tengo.Proofs.C01BridgeF3

/-- `func(x) { return x }` (+ the `RET 0` the compiler appends). -/
def cf0 : F3.CFn := { code := [.getl 0, .ret true, .ret false], nparams := 1, nlocals := 1 }

/-- `f := <const 0>; f(5)`. -/
def M : F3.Mach :=
  { main := [.const 0, .setg 0, .getg 0, .const 1, .call 1, .pop],
    fns := fun k => if k = 0 then some cf0 else none }

def unref : Nat → Option Nat := fun r => if r = 0 then some 0 else none

def cs : Nat → FV unref
  | 0 => ⟨.cfn 0, rfl⟩
  | 1 => ⟨.int 5, rfl⟩
  | _ => ⟨.undef, rfl⟩

def code : Code :=
  { main := { insts := (encodeIns3 M.main ++ [UInt8.ofNat Opcodes.opSuspend]).toArray, numLocals := 0,
              numParams := 0, varargs := false },
    consts := #[.fn (fnOf cf0) 0, .val (.int 5)] }

theorem fns_some {k : Nat} {cf : F3.CFn} (h : M.fns k = some cf) : k = 0 ∧ cf = cf0 := by
  simp only [M] at h
  by_cases hk : k = 0
  · rw [if_pos hk] at h; injection h with h; exact ⟨hk, h.symm⟩
  · rw [if_neg hk] at h; cases h

theorem codeRel : CodeRel3 M 2 1 (env3 unref cs) Subtype.val id code where
  main := rfl
  fns := fun k cf h => by
    obtain ⟨rfl, rfl⟩ := fns_some h
    rfl
  vals := fun k hk h => by
    have : k = 1 := by
      rcases Nat.lt_or_ge k 1 with h1 | h1
      · have : k = 0 := by omega
        subst this
        simp [M] at h
      · omega
    subst this
    rfl
  inj := fun _ _ h => h
  csfn := fun k cf h => by
    obtain ⟨rfl, rfl⟩ := fns_some h
    rfl
  asFn_some := asFn3_some unref id (fun r k h => by
    simp only [unref] at h
    by_cases hr : r = 0
    · rw [if_pos hr] at h; injection h with h; subst h; exact hr
    · rw [if_neg hr] at h; cases h) cs
  asFn_none := asFn3_none unref cs
  fits := fun fn is h i hi => by
    cases fn with
    | zero =>
      simp only [F3.Mach.code, Option.some.injEq] at h
      subst h
      simp only [M, List.mem_cons, List.not_mem_nil, or_false] at hi
      rcases hi with rfl | rfl | rfl | rfl | rfl | rfl <;> simp [InsFits3]
    | succ k =>
      simp only [F3.Mach.code] at h
      cases hk : M.fns k with
      | none => rw [hk] at h; cases h
      | some cf =>
        obtain ⟨rfl, rfl⟩ := fns_some hk
        rw [hk] at h
        simp only [Option.map_some, Option.some.injEq] at h
        subst h
        simp only [cf0, List.mem_cons, List.not_mem_nil, or_false] at hi
        rcases hi with rfl | rfl | rfl <;> simp [InsFits3]
  rng := fun fn is h i hi => by
    cases fn with
    | zero =>
      simp only [F3.Mach.code, Option.some.injEq] at h
      subst h
      simp only [M, List.mem_cons, List.not_mem_nil, or_false] at hi
      rcases hi with rfl | rfl | rfl | rfl | rfl | rfl <;> simp [InsRange3]
    | succ k =>
      simp only [F3.Mach.code] at h
      cases hk : M.fns k with
      | none => rw [hk] at h; cases h
      | some cf =>
        obtain ⟨rfl, rfl⟩ := fns_some hk
        rw [hk] at h
        simp only [Option.map_some, Option.some.injEq] at h
        subst h
        simp only [cf0, List.mem_cons, List.not_mem_nil, or_false] at hi
        rcases hi with rfl | rfl | rfl <;> simp [InsRange3]

/-- The initial states are related (one global slot, the function object of constant 0 in the store). -/
theorem relInit : Rel3 M 1 (Subtype.val : FV unref → Value) id
    (F3.St.init (fun _ => (sem3 unref).undef) (fun _ => (sem3 unref).undef))
    (initCore #[.undef] #[(0, [])]) :=
  rel_init3 #[.undef] #[(0, [])] _ _ rfl
    (fun i hi => by
      have : i = 0 := by omega
      subst this
      rfl)
    (fun _ _ => rfl)
    (fun k cf h => by
      obtain ⟨rfl, rfl⟩ := fns_some h
      rfl)

/-- One dispatch of the VM on the example follows the first step of the fragment's machine (`CONST 0`, which
pushes the function value): `step_sim3` applies. -/
example (g : GSt) (h : Spec.St) : ∃ c' al, XOk (exec code (initCore #[.undef] #[(0, [])])) g h (.next c' al) ∧
    Rel3 M 1 (Subtype.val : FV unref → Value) id
      (pushSt (F3.St.init (fun _ => (sem3 unref).undef) (fun _ => (sem3 unref).undef)) 3 (cs 0)) c' :=
  step_sim3 codeRel (dataRel3 unref) relInit
    (step3_const (env3 unref cs) M _ (is := M.main) rfl rfl)
    ⟨by show 1 ≤ stackSize; decide, by show 0 < maxFrames; decide,
      fun is i hc hf => by
        have e1 : is = M.main := by
          simp only [F3.St.init, F3.Mach.code, Option.some.injEq] at hc
          exact hc.symm
        subst e1
        have e2 : i = .const 0 := by
          simp only [F3.St.init, M, F3.fetch, Option.some.injEq] at hf
          exact hf.symm
        subst e2
        trivial⟩
    g h

end Tengo.Proofs.C01BridgeF3.Example

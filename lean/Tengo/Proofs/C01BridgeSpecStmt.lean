import Tengo.Proofs.C01BridgeSpecExpr
import Tengo.Proofs.C01BridgeStmt
/-!
C01 bridge, reference-interpreter side, layer 2 (statements): the reference interpreter's statement
executor (`Spec.execStmt`, `execStmts`, `execBlock`, `loopFor`) on the embedded program computes what the
fragment's fuel-indexed evaluator `F1.exec vmSem` computes (`all_sim`): if `F1.exec` with fuel `f` finishes
with globals `g'`, the interpreter — with any fuel `F ≥ 4 f + budget` — finishes normally, in the same
environment, with the slot cells holding `g'`; if `F1.exec` reports an error, the interpreter fails with an
error other than fuel exhaustion.
-/
set_option linter.unusedVariables false
set_option linter.unusedSimpArgs false
namespace Tengo.Proofs.C01Bridge
open Tengo.Model Tengo.Model.Spec Tengo.Model.F0
open Tengo.Proofs.C11Rename (isFuncLit)

theorem ex_expr (F : Nat) (ctx : Ctx) (e : Expr) :
    execStmt (F + 1) ctx (.expr e) = (do let _ ← evalExpr F ctx e; pure (Flow.normal, ctx.env)) := by
  rw [execStmt.eq_2]

theorem ex_assign (F : Nat) (ctx : Ctx) (l r : Expr) (hr : isFuncLit r = false) :
    execStmt (F + 1) ctx (.assign "Assign" [l] [r]) = (do
      let v ← evalExpr F ctx r
      let env' ← assignTo F ctx "Assign" l v
      pure (Flow.normal, env')) := by
  cases r <;> first
    | (simp [isFuncLit] at hr; done)
    | (simp only [execStmt]; rfl)

theorem ex_assignTo (F : Nat) (ctx : Ctx) (nm : String) (v : Value) :
    assignTo (F + 1) ctx "Assign" (.ident nm) v = (do writeVar ctx.env nm v; pure ctx.env) := by
  rw [assignTo.eq_2]; rfl

theorem ex_ifs (F : Nat) (ctx : Ctx) (c : Expr) (body : List Stmt) :
    execStmt (F + 1) ctx (.ifs none c body none) = (do
      let cv ← evalExpr F { ctx with env := { vars := [] } :: ctx.env } c
      let b ← Spec.liftM (isFalsy cv)
      if (!b) = true then do
        let fl ← execBlock F { ctx with env := { vars := [] } :: ctx.env } body 1
        pure (fl, ctx.env)
      else pure (Flow.normal, ctx.env)) := by
  rw [execStmt.eq_10]; rfl

theorem ex_ifelse (F : Nat) (ctx : Ctx) (c : Expr) (body els : List Stmt) :
    execStmt (F + 1 + 1) ctx (.ifs none c body (some (.block els))) = (do
      let cv ← evalExpr (F + 1) { ctx with env := { vars := [] } :: ctx.env } c
      let b ← Spec.liftM (isFalsy cv)
      if (!b) = true then do
        let fl ← execBlock (F + 1) { ctx with env := { vars := [] } :: ctx.env } body 1
        pure (fl, ctx.env)
      else do
        let x ← (do
          let fl ← execBlock F { env := { vars := [] } :: ctx.env, callDepth := ctx.callDepth, path := 2 :: ctx.path } els 0
          pure (fl, ({ vars := [] } : Spec.Frame) :: ctx.env) : EM (Flow × Env))
        pure (x.fst, ctx.env)) := by
  rw [execStmt.eq_10]
  simp only [execStmt.eq_8]
  rfl

theorem ex_while (F : Nat) (ctx : Ctx) (c : Expr) (body : List Stmt) :
    execStmt (F + 1) ctx (.fors none (some c) none body) = (do
      let fl ← loopFor F { ctx with env := { vars := [] } :: ctx.env } (some c) none body
      pure (fl, ctx.env)) := by
  simp only [execStmt]; rfl

theorem ex_forever (F : Nat) (ctx : Ctx) (body : List Stmt) :
    execStmt (F + 1) ctx (.fors none none none body) = (do
      let fl ← loopFor F { ctx with env := { vars := [] } :: ctx.env } none none body
      pure (fl, ctx.env)) := by
  simp only [execStmt]; rfl

theorem ex_loop_some (F : Nat) (ctx : Ctx) (c : Expr) (body : List Stmt) :
    loopFor (F + 1) ctx (some c) none body = (do
      let cv ← evalExpr F ctx c
      let b ← Spec.liftM (isFalsy cv)
      if (!(!b)) = true then pure Flow.normal
      else do
        let fl ← execBlock F ctx body 1
        match fl with
          | .brk => pure Flow.normal
          | .ret v => pure (Flow.ret v)
          | _ => loopFor F ctx (some c) none body) := by
  rw [loopFor.eq_2]
  rfl

theorem ex_loop_none (F : Nat) (ctx : Ctx) (body : List Stmt) :
    loopFor (F + 1) ctx none none body = (do
      let fl ← execBlock F ctx body 1
      match fl with
        | .brk => pure Flow.normal
        | .ret v => pure (Flow.ret v)
        | _ => loopFor F ctx none none body) := by
  rw [loopFor.eq_3]
  rfl


/-! ### statements -/

section
variable (names : Nat → String) (ctab : Nat → F0.Const) (n : Nat) (cells : Nat → Nat)

/-- Outcome of an interpreter computation `x` (returning `r`) against the fragment's result `res`. -/
def SimRes {α : Type} (x : EM α) (r : α) (gs : GSt) (σ : St) (res : F1.Res SV) : Prop :=
  (∀ g', res = .done g' → ∃ σ', EOk x gs σ r σ' ∧ HeapOK n cells g' σ') ∧
  (res = .err → ∃ err, err ≠ Err.fuel ∧ EErr x gs σ err)

def StmtSim (f : Nat) (st : F1.Stm) : Prop :=
  ∀ (F : Nat) (ctx : Ctx) (gs : GSt) (σ : St) (g : Nat → SV) (k : Nat),
    4 * f + budS st ≤ F → EnvOK names n cells ctx.env → HeapOK n cells g σ → wfS n k st = true →
    SimRes n cells (execStmt F ctx (toAstS names ctab st)) (Flow.normal, ctx.env) gs σ
      (F1.exec vmSem (svConst ctab) f (.inl st) g)

def StmtsSim (f : Nat) (ss : F1.Stms) : Prop :=
  ∀ (F : Nat) (ctx : Ctx) (gs : GSt) (σ : St) (g : Nat → SV) (k i : Nat),
    4 * f + budSs ss ≤ F → EnvOK names n cells ctx.env → HeapOK n cells g σ → wfSs n k ss = true →
    SimRes n cells (execStmts F ctx (toAstSs names ctab ss) i) (Flow.normal, ctx.env) gs σ
      (F1.exec vmSem (svConst ctab) f (.inr ss) g)

def BlockSim (f : Nat) (ss : F1.Stms) : Prop :=
  ∀ (F : Nat) (ctx : Ctx) (gs : GSt) (σ : St) (g : Nat → SV) (k tag : Nat),
    4 * f + budSs ss + 1 ≤ F → EnvOK names n cells ctx.env → HeapOK n cells g σ → wfSs n k ss = true →
    SimRes n cells (execBlock F ctx (toAstSs names ctab ss) tag) Flow.normal gs σ
      (F1.exec vmSem (svConst ctab) f (.inr ss) g)

def WhileSim (f : Nat) (c : Ex) (body : F1.Stms) : Prop :=
  ∀ (F : Nat) (ctx : Ctx) (gs : GSt) (σ : St) (g : Nat → SV) (k : Nat),
    4 * f + budS (.whil c body) ≤ F + 1 → EnvOK names n cells ctx.env → HeapOK n cells g σ →
    wfS n k (.whil c body) = true →
    SimRes n cells (loopFor F ctx (some (toAstE names ctab c)) none (toAstSs names ctab body)) Flow.normal gs σ
      (F1.exec vmSem (svConst ctab) f (.inl (.whil c body)) g)

def ForeverSim (f : Nat) (body : F1.Stms) : Prop :=
  ∀ (F : Nat) (ctx : Ctx) (gs : GSt) (σ : St) (g : Nat → SV) (k : Nat),
    4 * f + budS (.forever body) ≤ F + 1 → EnvOK names n cells ctx.env → HeapOK n cells g σ →
    wfS n k (.forever body) = true →
    SimRes n cells (loopFor F ctx none none (toAstSs names ctab body)) Flow.normal gs σ
      (F1.exec vmSem (svConst ctab) f (.inl (.forever body)) g)

variable {names ctab n cells}

theorem simRes_out {α : Type} (x : EM α) (r : α) (gs : GSt) (σ : St) : SimRes n cells x r gs σ .out :=
  ⟨fun g' h => (by cases h), fun h => (by cases h)⟩

theorem blockSim_of {f : Nat} {ss : F1.Stms} (h : StmtsSim names ctab n cells f ss) :
    BlockSim names ctab n cells f ss := by
  intro F ctx gs σ g k tag hF he hh hw
  cases F with
  | zero => omega
  | succ F =>
    cases ss with
    | nil =>
      simp only [toAstSs, execBlock.eq_2]
      cases f with
      | zero => simp only [F1.exec]; exact simRes_out _ _ _ _
      | succ f =>
        simp only [F1.exec]
        refine ⟨fun g' hg => ?_, fun hg => by cases hg⟩
        simp only [F1.Res.done.injEq] at hg
        subst hg
        exact ⟨σ, EOk.pure _ gs σ, hh⟩
    | cons st ss =>
      rw [toAstSs, execBlock.eq_3 _ _ _ _ (by simp), ← toAstSs]
      obtain ⟨h1, h2⟩ := h F { env := { vars := [] } :: ctx.env, callDepth := ctx.callDepth, path := tag :: ctx.path }
        gs σ g k 0 (by omega) he.push hh hw
      refine ⟨fun g' hg => ?_, fun hg => ?_⟩
      · obtain ⟨σ', hok, hh'⟩ := h1 g' hg
        exact ⟨σ', EOk.bind hok (EOk.pure _ gs σ'), hh'⟩
      · obtain ⟨err, hne, herr⟩ := h2 hg
        exact ⟨err, hne, EErr.bind_left herr⟩

theorem stmtSim_expr (f : Nat) (e : Ex) : StmtSim names ctab n cells (f + 1) (.expr e) := by
  intro F ctx gs σ g k hF he hh hw
  simp only [budS] at hF
  obtain ⟨F, rfl⟩ : ∃ F', F = F' + 1 := ⟨F - 1, by omega⟩
  simp only [wfS] at hw
  obtain ⟨h1, h2⟩ := evalOK (names := names) (ctab := ctab) (cells := cells) e F ctx gs σ g k (by omega) he hh hw
  simp only [toAstS, ex_expr, F1.exec]
  cases hev : eval vmSem (svConst ctab) g e with
  | none =>
    obtain ⟨err, hne, herr⟩ := h2 hev
    exact ⟨fun g' hg => (by cases hg), fun _ => ⟨err, hne, EErr.bind_left herr⟩⟩
  | some v =>
    refine ⟨fun g' hg => ?_, fun hg => (by cases hg)⟩
    simp only [F1.Res.done.injEq] at hg
    subst hg
    exact ⟨σ, EOk.bind (h1 v hev) (EOk.pure _ gs σ), hh⟩

theorem stmtSim_assign (f : Nat) (i : Nat) (e : Ex) : StmtSim names ctab n cells (f + 1) (.assign i e) := by
  intro F ctx gs σ g k hF he hh hw
  simp only [budS] at hF
  obtain ⟨F, rfl⟩ : ∃ F', F = F' + 1 + 1 := ⟨F - 2, by omega⟩
  simp only [wfS, Bool.and_eq_true, decide_eq_true_eq] at hw
  obtain ⟨hi, hwe⟩ := hw
  obtain ⟨h1, h2⟩ := evalOK (names := names) (ctab := ctab) (cells := cells) e (F + 1) ctx gs σ g k (by omega) he hh hwe
  simp only [toAstS, ex_assign _ _ _ _ (isFuncLit_toAstE names ctab e), ex_assignTo, F1.exec]
  cases hev : eval vmSem (svConst ctab) g e with
  | none =>
    obtain ⟨err, hne, herr⟩ := h2 hev
    exact ⟨fun g' hg => (by cases hg), fun _ => ⟨err, hne, EErr.bind_left herr⟩⟩
  | some v =>
    refine ⟨fun g' hg => ?_, fun hg => (by cases hg)⟩
    simp only [F1.Res.done.injEq] at hg
    subst hg
    obtain ⟨σ', hw', hh'⟩ := writeVar_ok he hh hi v gs
    exact ⟨σ', EOk.bind (h1 v hev) (EOk.bind (EOk.bind hw' (EOk.pure _ gs σ')) (EOk.pure _ gs σ')), hh'⟩

theorem stmtSim_ifs (f : Nat) (c : Ex) (body : F1.Stms) (hb : BlockSim names ctab n cells f body) :
    StmtSim names ctab n cells (f + 1) (.ifs c body) := by
  intro F ctx gs σ g k hF he hh hw
  simp only [budS] at hF
  obtain ⟨F, rfl⟩ : ∃ F', F = F' + 1 := ⟨F - 1, by omega⟩
  simp only [wfS, Bool.and_eq_true] at hw
  obtain ⟨hwc, hwb⟩ := hw
  obtain ⟨h1, h2⟩ := evalOK (names := names) (ctab := ctab) (cells := cells) c F
    { ctx with env := { vars := [] } :: ctx.env } gs σ g k (by omega) he.push hh hwc
  simp only [toAstS, ex_ifs, F1.exec]
  cases hev : eval vmSem (svConst ctab) g c with
  | none =>
    obtain ⟨err, hne, herr⟩ := h2 hev
    exact ⟨fun g' hg => (by cases hg), fun _ => ⟨err, hne, EErr.bind_left herr⟩⟩
  | some a =>
    have hfal := EOk.lift (gs := gs) (isFalsy_sem a σ)
    simp only
    cases hfa : vmSem.falsy a with
    | true =>
      rw [hfa] at hfal
      simp only [if_true]
      refine ⟨fun g' hg => ?_, fun hg => (by cases hg)⟩
      simp only [F1.Res.done.injEq] at hg
      subst hg
      exact ⟨σ, EOk.bind (h1 a hev) (EOk.bind hfal (EOk.pure _ gs σ)), hh⟩
    | false =>
      rw [hfa] at hfal
      simp only [Bool.false_eq_true, if_false]
      obtain ⟨hb1, hb2⟩ := hb F { ctx with env := { vars := [] } :: ctx.env } gs σ g _ 1 (by omega) he.push hh hwb
      refine ⟨fun g' hg => ?_, fun hg => ?_⟩
      · obtain ⟨σ', hok, hh'⟩ := hb1 g' hg
        exact ⟨σ', EOk.bind (h1 a hev) (EOk.bind hfal (EOk.bind hok (EOk.pure _ gs σ'))), hh'⟩
      · obtain ⟨err, hne, herr⟩ := hb2 hg
        exact ⟨err, hne, EErr.bind_right (h1 a hev) (EErr.bind_right hfal (EErr.bind_left herr))⟩

theorem stmtSim_ifelse (f : Nat) (c : Ex) (body els : F1.Stms) (hb : BlockSim names ctab n cells f body)
    (hel : BlockSim names ctab n cells f els) : StmtSim names ctab n cells (f + 1) (.ifelse c body els) := by
  intro F ctx gs σ g k hF he hh hw
  simp only [budS] at hF
  obtain ⟨F, rfl⟩ : ∃ F', F = F' + 1 + 1 := ⟨F - 2, by omega⟩
  simp only [wfS, Bool.and_eq_true] at hw
  obtain ⟨⟨hwc, hwb⟩, hwe⟩ := hw
  obtain ⟨h1, h2⟩ := evalOK (names := names) (ctab := ctab) (cells := cells) c (F + 1)
    { ctx with env := { vars := [] } :: ctx.env } gs σ g k (by omega) he.push hh hwc
  simp only [toAstS, ex_ifelse, F1.exec]
  cases hev : eval vmSem (svConst ctab) g c with
  | none =>
    obtain ⟨err, hne, herr⟩ := h2 hev
    exact ⟨fun g' hg => (by cases hg), fun _ => ⟨err, hne, EErr.bind_left herr⟩⟩
  | some a =>
    have hfal := EOk.lift (gs := gs) (isFalsy_sem a σ)
    simp only
    cases hfa : vmSem.falsy a with
    | true =>
      rw [hfa] at hfal
      simp only [if_true]
      obtain ⟨hb1, hb2⟩ := hel F { env := { vars := [] } :: ctx.env, callDepth := ctx.callDepth, path := 2 :: ctx.path }
        gs σ g _ 0 (by omega) he.push hh hwe
      refine ⟨fun g' hg => ?_, fun hg => ?_⟩
      · obtain ⟨σ', hok, hh'⟩ := hb1 g' hg
        exact ⟨σ', EOk.bind (h1 a hev) (EOk.bind hfal
          (EOk.bind (EOk.bind hok (EOk.pure _ gs σ')) (EOk.pure _ gs σ'))), hh'⟩
      · obtain ⟨err, hne, herr⟩ := hb2 hg
        exact ⟨err, hne, EErr.bind_right (h1 a hev) (EErr.bind_right hfal (EErr.bind_left (EErr.bind_left herr)))⟩
    | false =>
      rw [hfa] at hfal
      simp only [Bool.false_eq_true, if_false]
      obtain ⟨hb1, hb2⟩ := hb (F + 1) { ctx with env := { vars := [] } :: ctx.env } gs σ g _ 1 (by omega) he.push hh hwb
      refine ⟨fun g' hg => ?_, fun hg => ?_⟩
      · obtain ⟨σ', hok, hh'⟩ := hb1 g' hg
        exact ⟨σ', EOk.bind (h1 a hev) (EOk.bind hfal (EOk.bind hok (EOk.pure _ gs σ'))), hh'⟩
      · obtain ⟨err, hne, herr⟩ := hb2 hg
        exact ⟨err, hne, EErr.bind_right (h1 a hev) (EErr.bind_right hfal (EErr.bind_left herr))⟩

theorem whileSim_succ (f : Nat) (c : Ex) (body : F1.Stms) (hb : BlockSim names ctab n cells f body)
    (hloop : WhileSim names ctab n cells f c body) : WhileSim names ctab n cells (f + 1) c body := by
  intro F ctx gs σ g k hF he hh hw
  simp only [budS] at hF
  obtain ⟨F, rfl⟩ : ∃ F', F = F' + 1 := ⟨F - 1, by omega⟩
  have hw0 := hw
  simp only [wfS, Bool.and_eq_true] at hw
  obtain ⟨hwc, hwb⟩ := hw
  obtain ⟨h1, h2⟩ := evalOK (names := names) (ctab := ctab) (cells := cells) c F ctx gs σ g k (by omega) he hh hwc
  simp only [ex_loop_some, F1.exec]
  cases hev : eval vmSem (svConst ctab) g c with
  | none =>
    obtain ⟨err, hne, herr⟩ := h2 hev
    exact ⟨fun g' hg => (by cases hg), fun _ => ⟨err, hne, EErr.bind_left herr⟩⟩
  | some a =>
    have hfal := EOk.lift (gs := gs) (isFalsy_sem a σ)
    simp only
    cases hfa : vmSem.falsy a with
    | true =>
      rw [hfa] at hfal
      simp only [if_true]
      refine ⟨fun g' hg => ?_, fun hg => (by cases hg)⟩
      simp only [F1.Res.done.injEq] at hg
      subst hg
      refine ⟨σ, EOk.bind (h1 a hev) (EOk.bind hfal ?_), hh⟩
      simp only [Bool.not_true, Bool.not_false, if_true]
      exact EOk.pure _ gs σ
    | false =>
      rw [hfa] at hfal
      simp only [Bool.false_eq_true, if_false]
      obtain ⟨hb1, hb2⟩ := hb F ctx gs σ g _ 1 (by omega) he hh hwb
      cases hbody : F1.exec vmSem (svConst ctab) f (.inr body) g with
      | done g1 =>
        obtain ⟨σ1, hok1, hh1⟩ := hb1 g1 hbody
        obtain ⟨hl1, hl2⟩ := hloop F ctx gs σ1 g1 k (by simp only [budS]; omega) he hh1 hw0
        simp only
        refine ⟨fun g' hg => ?_, fun hg => ?_⟩
        · obtain ⟨σ', hok, hh'⟩ := hl1 g' hg
          refine ⟨σ', EOk.bind (h1 a hev) (EOk.bind hfal ?_), hh'⟩
          simp only [Bool.not_false, Bool.not_true, Bool.false_eq_true, if_false]
          exact EOk.bind hok1 hok
        · obtain ⟨err, hne, herr⟩ := hl2 hg
          refine ⟨err, hne, EErr.bind_right (h1 a hev) (EErr.bind_right hfal ?_)⟩
          simp only [Bool.not_false, Bool.not_true, Bool.false_eq_true, if_false]
          exact EErr.bind_right hok1 herr
      | err =>
        obtain ⟨err, hne, herr⟩ := hb2 hbody
        refine ⟨fun g' hg => (by cases hg), fun _ => ⟨err, hne, EErr.bind_right (h1 a hev) (EErr.bind_right hfal ?_)⟩⟩
        simp only [Bool.not_false, Bool.not_true, Bool.false_eq_true, if_false]
        exact EErr.bind_left herr
      | out => exact ⟨fun g' hg => (by cases hg), fun hg => (by cases hg)⟩

theorem foreverSim_succ (f : Nat) (body : F1.Stms) (hb : BlockSim names ctab n cells f body)
    (hloop : ForeverSim names ctab n cells f body) : ForeverSim names ctab n cells (f + 1) body := by
  intro F ctx gs σ g k hF he hh hw
  simp only [budS] at hF
  obtain ⟨F, rfl⟩ : ∃ F', F = F' + 1 := ⟨F - 1, by omega⟩
  have hw0 := hw
  simp only [wfS] at hw
  simp only [ex_loop_none, F1.exec]
  obtain ⟨hb1, hb2⟩ := hb F ctx gs σ g _ 1 (by omega) he hh hw
  cases hbody : F1.exec vmSem (svConst ctab) f (.inr body) g with
  | done g1 =>
    obtain ⟨σ1, hok1, hh1⟩ := hb1 g1 hbody
    obtain ⟨hl1, hl2⟩ := hloop F ctx gs σ1 g1 k (by simp only [budS]; omega) he hh1 hw0
    simp only
    refine ⟨fun g' hg => ?_, fun hg => ?_⟩
    · obtain ⟨σ', hok, hh'⟩ := hl1 g' hg
      exact ⟨σ', EOk.bind hok1 hok, hh'⟩
    · obtain ⟨err, hne, herr⟩ := hl2 hg
      exact ⟨err, hne, EErr.bind_right hok1 herr⟩
  | err =>
    obtain ⟨err, hne, herr⟩ := hb2 hbody
    exact ⟨fun g' hg => (by cases hg), fun _ => ⟨err, hne, EErr.bind_left herr⟩⟩
  | out => exact ⟨fun g' hg => (by cases hg), fun hg => (by cases hg)⟩

theorem stmtSim_whil (f : Nat) (c : Ex) (body : F1.Stms) (hloop : WhileSim names ctab n cells (f + 1) c body) :
    StmtSim names ctab n cells (f + 1) (.whil c body) := by
  intro F ctx gs σ g k hF he hh hw
  have hF' := hF
  simp only [budS] at hF
  obtain ⟨F, rfl⟩ : ∃ F', F = F' + 1 := ⟨F - 1, by omega⟩
  simp only [toAstS, ex_while]
  obtain ⟨h1, h2⟩ := hloop F { ctx with env := { vars := [] } :: ctx.env } gs σ g k hF' he.push hh hw
  refine ⟨fun g' hg => ?_, fun hg => ?_⟩
  · obtain ⟨σ', hok, hh'⟩ := h1 g' hg
    exact ⟨σ', EOk.bind hok (EOk.pure _ gs σ'), hh'⟩
  · obtain ⟨err, hne, herr⟩ := h2 hg
    exact ⟨err, hne, EErr.bind_left herr⟩

theorem stmtSim_forever (f : Nat) (body : F1.Stms) (hloop : ForeverSim names ctab n cells (f + 1) body) :
    StmtSim names ctab n cells (f + 1) (.forever body) := by
  intro F ctx gs σ g k hF he hh hw
  have hF' := hF
  simp only [budS] at hF
  obtain ⟨F, rfl⟩ : ∃ F', F = F' + 1 := ⟨F - 1, by omega⟩
  simp only [toAstS, ex_forever]
  obtain ⟨h1, h2⟩ := hloop F { ctx with env := { vars := [] } :: ctx.env } gs σ g k hF' he.push hh hw
  refine ⟨fun g' hg => ?_, fun hg => ?_⟩
  · obtain ⟨σ', hok, hh'⟩ := h1 g' hg
    exact ⟨σ', EOk.bind hok (EOk.pure _ gs σ'), hh'⟩
  · obtain ⟨err, hne, herr⟩ := h2 hg
    exact ⟨err, hne, EErr.bind_left herr⟩

theorem stmtsSim_nil (f : Nat) : StmtsSim names ctab n cells (f + 1) .nil := by
  intro F ctx gs σ g k i hF he hh hw
  simp only [budSs] at hF
  obtain ⟨F, rfl⟩ : ∃ F', F = F' + 1 := ⟨F - 1, by omega⟩
  simp only [toAstSs, execStmts.eq_2, F1.exec]
  refine ⟨fun g' hg => ?_, fun hg => (by cases hg)⟩
  simp only [F1.Res.done.injEq] at hg
  subst hg
  exact ⟨σ, EOk.pure _ gs σ, hh⟩

theorem stmtsSim_cons (f : Nat) (st : F1.Stm) (ss : F1.Stms) (h1 : StmtSim names ctab n cells f st)
    (h2 : StmtsSim names ctab n cells f ss) : StmtsSim names ctab n cells (f + 1) (.cons st ss) := by
  intro F ctx gs σ g k i hF he hh hw
  simp only [budSs] at hF
  obtain ⟨F, rfl⟩ : ∃ F', F = F' + 1 := ⟨F - 1, by omega⟩
  simp only [wfSs, Bool.and_eq_true] at hw
  obtain ⟨hw1, hw2⟩ := hw
  simp only [toAstSs, execStmts.eq_3, F1.exec]
  obtain ⟨ha1, ha2⟩ := h1 F { env := ctx.env, callDepth := ctx.callDepth, path := i :: ctx.path } gs σ g k
    (by omega) he hh hw1
  cases hs : F1.exec vmSem (svConst ctab) f (.inl st) g with
  | done g1 =>
    obtain ⟨σ1, hok1, hh1⟩ := ha1 g1 hs
    obtain ⟨hb1, hb2⟩ := h2 F { env := ctx.env, callDepth := ctx.callDepth, path := ctx.path } gs σ1 g1 _ (i + 1)
      (by omega) he hh1 hw2
    simp only
    refine ⟨fun g' hg => ?_, fun hg => ?_⟩
    · obtain ⟨σ', hok, hh'⟩ := hb1 g' hg
      exact ⟨σ', EOk.bind hok1 hok, hh'⟩
    · obtain ⟨err, hne, herr⟩ := hb2 hg
      exact ⟨err, hne, EErr.bind_right hok1 herr⟩
  | err =>
    obtain ⟨err, hne, herr⟩ := ha2 hs
    exact ⟨fun g' hg => (by cases hg), fun _ => ⟨err, hne, EErr.bind_left herr⟩⟩
  | out => exact ⟨fun g' hg => (by cases hg), fun hg => (by cases hg)⟩

/-- All statement forms, all loops, at every fuel of the fragment's evaluator. -/
theorem all_sim : ∀ f : Nat,
    (∀ st, StmtSim names ctab n cells f st) ∧ (∀ ss, StmtsSim names ctab n cells f ss) ∧
    (∀ c body, WhileSim names ctab n cells f c body) ∧ (∀ body, ForeverSim names ctab n cells f body)
  | 0 => by
    refine ⟨fun st => ?_, fun ss => ?_, fun c body => ?_, fun body => ?_⟩
    · intro F ctx gs σ g k hF he hh hw; simp only [F1.exec]; exact simRes_out _ _ _ _
    · intro F ctx gs σ g k i hF he hh hw; simp only [F1.exec]; exact simRes_out _ _ _ _
    · intro F ctx gs σ g k hF he hh hw; simp only [F1.exec]; exact simRes_out _ _ _ _
    · intro F ctx gs σ g k hF he hh hw; simp only [F1.exec]; exact simRes_out _ _ _ _
  | f + 1 => by
    obtain ⟨ihS, ihSs, ihW, ihF⟩ := all_sim f
    have hW : ∀ c body, WhileSim names ctab n cells (f + 1) c body :=
      fun c body => whileSim_succ f c body (blockSim_of (ihSs body)) (ihW c body)
    have hFo : ∀ body, ForeverSim names ctab n cells (f + 1) body :=
      fun body => foreverSim_succ f body (blockSim_of (ihSs body)) (ihF body)
    refine ⟨fun st => ?_, fun ss => ?_, hW, hFo⟩
    · cases st with
      | expr e => exact stmtSim_expr f e
      | assign i e => exact stmtSim_assign f i e
      | ifs c body => exact stmtSim_ifs f c body (blockSim_of (ihSs body))
      | ifelse c body els => exact stmtSim_ifelse f c body els (blockSim_of (ihSs body)) (blockSim_of (ihSs els))
      | whil c body => exact stmtSim_whil f c body (hW c body)
      | forever body => exact stmtSim_forever f body (hFo body)
    · cases ss with
      | nil => exact stmtsSim_nil f
      | cons st ss => exact stmtsSim_cons f st ss (ihS st) (ihSs ss)

end

end Tengo.Proofs.C01Bridge

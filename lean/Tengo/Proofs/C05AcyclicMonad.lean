import Tengo.Proofs.C05AcyclicValue
import Tengo.Model.VM
/-!
C05 `no_fatal_acyclic`, layer 2 (machinery): "never answers `Err.fuel`" for the three monads of the VM model
(`M`: heap + errors, `EM = StateT GSt M`, `XM = ExceptT Fault EM`), unconditionally (`NFM`/`NFE`/`NFX`: for every
state — everything that does not call `equalsV`/`toStringV`/`copyV`) and at a given state (`MG`/`EG`/`XG`), with
read-only prefixes (`RO`/`ERO`/`XRO`).
-/
namespace Tengo.Proofs.C05Acyclic
open Tengo.Model.Spec Tengo.Model.VM

/-! ### unconditional -/

def NFM {α} (x : M α) : Prop := ∀ s, x s ≠ .error Err.fuel
def NFE {α} (x : EM α) : Prop := ∀ g, NFM (x g)
def NFX {α} (x : XM α) : Prop := NFE x.run

theorem nfm_pure {α} (a : α) : NFM (Pure.pure a : M α) := fun _ h => by cases h
theorem nfm_throw {α} {e : Err} (h : e ≠ Err.fuel) : NFM (throw e : M α) := fun _ h' => by cases h'; exact h rfl
theorem nfm_throwE {α} {e : Err} (h : e ≠ Err.fuel) : NFM (throwE e : M α) := nfm_throw h
theorem nfm_bind {α β} {x : M α} {f : α → M β} (hx : NFM x) (hf : ∀ a, NFM (f a)) : NFM (x >>= f) := by
  intro s
  have e : (x >>= f) s = (x s >>= fun p => f p.1 p.2) := rfl
  rw [e]
  cases h : x s with
  | error e => intro (h' : Except.error e = _); cases h'; exact hx s h
  | ok p => exact hf p.1 p.2
theorem nfm_get : NFM (get : M St) := fun _ h => by cases h
theorem nfm_set (s : St) : NFM (set s : M PUnit) := fun _ h => by cases h
theorem nfm_modify (f : St → St) : NFM (modify f : M PUnit) := fun _ h => by cases h
theorem nfm_modifyGet {α} (f : St → α × St) : NFM (modifyGet f : M α) := fun _ h => by cases h
theorem nfm_of_RO {α} {x : M α} (h : ∀ s, ∃ P, RO x s P) : NFM x := by
  intro s hs
  obtain ⟨P, hp⟩ := h s
  unfold RO at hp
  rw [hs] at hp
  exact hp rfl

theorem nfe_pure {α} (a : α) : NFE (Pure.pure a : EM α) := fun _ _ h => by cases h
theorem nfe_bind {α β} {x : EM α} {f : α → EM β} (hx : NFE x) (hf : ∀ a, NFE (f a)) : NFE (x >>= f) := by
  intro g
  have e : (x >>= f) g = (x g >>= fun p => f p.1 p.2) := rfl
  rw [e]
  exact nfm_bind (hx g) (fun p => hf p.1 p.2)
theorem nfe_lift {α} {x : M α} (hx : NFM x) : NFE (Tengo.Model.Spec.liftM x) := by
  intro g
  have e : (Tengo.Model.Spec.liftM x : EM α) g = (x >>= fun a => Pure.pure (a, g)) := rfl
  rw [e]
  exact nfm_bind hx (fun _ => nfm_pure _)
theorem nfe_hp {α} {x : M α} (hx : NFM x) : NFE (hp x) := nfe_lift hx
theorem nfe_get : NFE (get : EM GSt) := fun _ _ h => by cases h
theorem nfe_set (g : GSt) : NFE (set g : EM PUnit) := fun _ _ h => by cases h
theorem nfe_eRt {α} (msg : String) : NFE (eRt msg : EM α) := nfe_lift (nfm_throw (by simp))
theorem nfe_eUnsup {α} (msg : String) : NFE (eUnsup msg : EM α) := nfe_lift (nfm_throw (by simp))
theorem nfe_goPanic {α} (msg : String) : NFE (goPanic msg : EM α) := nfe_lift (nfm_throw (by simp))

theorem nfx_pure {α} (a : α) : NFX (Pure.pure a : XM α) := fun _ _ h => by cases h
theorem nfx_fault {α} (f : Fault) : NFX (fault f : XM α) := fun _ _ h => by cases h
theorem nfx_bind {α β} {x : XM α} {f : α → XM β} (hx : NFX x) (hf : ∀ a, NFX (f a)) : NFX (x >>= f) := by
  have e : (x >>= f).run = (x.run >>= ExceptT.bindCont f) := rfl
  unfold NFX
  rw [e]
  refine nfe_bind hx (fun r => ?_)
  cases r with
  | ok a => exact hf a
  | error ft => exact nfe_pure _
theorem nfx_em {α} {x : EM α} (hx : NFE x) : NFX (em x) := by
  have e : (em x).run = (x >>= fun a => Pure.pure (Except.ok a)) := rfl
  unfold NFX
  rw [e]
  exact nfe_bind hx (fun _ => nfe_pure _)
theorem nfx_need (r : Regs) (k : Nat) : NFX (need r k) := by
  unfold need; split
  · exact nfx_fault _
  · exact nfx_pure _
theorem nfx_rtE {α} (msg : String) : NFX (rtE msg : XM α) := nfx_em (nfe_eRt _)
theorem nfx_unsupE {α} (msg : String) : NFX (unsupE msg : XM α) := nfx_em (nfe_eUnsup _)
theorem nfx_panicE {α} (msg : String) : NFX (panicE msg : XM α) := nfx_em (nfe_goPanic _)

theorem nfe_mapM {α β} (f : α → EM β) (hf : ∀ a, NFE (f a)) : ∀ (l : List α), NFE (l.mapM f)
  | [] => by rw [List.mapM_nil]; exact nfe_pure _
  | a :: l => by
    rw [List.mapM_cons]
    exact nfe_bind (hf a) (fun _ => nfe_bind (nfe_mapM f hf l) (fun _ => nfe_pure _))
theorem nfe_forIn {α β} (f : α → β → EM (ForInStep β)) (hf : ∀ a b, NFE (f a b)) : ∀ (l : List α) (b : β), NFE (forIn l b f)
  | [], b => by rw [List.forIn_nil]; exact nfe_pure _
  | a :: l, b => by
    rw [List.forIn_cons]
    refine nfe_bind (hf a b) (fun r => ?_)
    cases r with
    | done b' => exact nfe_pure _
    | yield b' => exact nfe_forIn f hf l b'

/-- Primitive facts, extensible by `macro_rules`. -/
syntax "nf_prim" : tactic
macro_rules | `(tactic| nf_prim) => `(tactic| first
  | with_reducible exact nfx_pure _ | with_reducible exact nfx_fault _ | with_reducible exact nfx_need _ _ | with_reducible exact nfx_rtE _ | with_reducible exact nfx_unsupE _ | with_reducible exact nfx_panicE _
  | with_reducible exact nfe_pure _ | with_reducible exact nfe_get | with_reducible exact nfe_set _ | with_reducible exact nfe_eRt _ | with_reducible exact nfe_eUnsup _ | with_reducible exact nfe_goPanic _
  | with_reducible exact nfm_pure _ | with_reducible exact nfm_get | with_reducible exact nfm_set _ | with_reducible exact nfm_modify _ | with_reducible exact nfm_modifyGet _
  | with_reducible exact nfm_throw (by simp) | with_reducible exact nfm_throwE (by simp)
  | assumption)
/-- One step of the syntactic traversal. -/
macro "nf_step" : tactic => `(tactic| first
  | nf_prim
  | with_reducible apply nfx_em | with_reducible apply nfe_hp | with_reducible apply nfe_lift
  | with_reducible refine nfx_bind ?_ (fun _ => ?_) | with_reducible refine nfe_bind ?_ (fun _ => ?_)
  | with_reducible refine nfm_bind ?_ (fun _ => ?_)
  | with_reducible refine nfe_mapM _ (fun _ => ?_) _ | with_reducible refine nfe_forIn _ (fun _ _ => ?_) _ _
  | dsimp only
  | split)
macro "nf" : tactic => `(tactic| repeat' nf_step)

theorem nfm_getObj (r : Nat) : NFM (getObj r) := by unfold Tengo.Model.Spec.getObj; nf
theorem nfm_setObj (r : Nat) (o : Obj) : NFM (setObj r o) := by unfold Tengo.Model.Spec.setObj; nf
theorem nfm_alloc (o : Obj) : NFM (alloc o) := by unfold Tengo.Model.Spec.alloc; nf
theorem nfm_unsupported {α} (w : String) : NFM (unsupported w : M α) := nfm_throw (by simp)
theorem nfm_rtErr {α} (w : String) : NFM (rtErr w : M α) := nfm_throw (by simp)
theorem nfm_arrElems (r : Nat) : NFM (arrElems r) := nfm_of_RO (fun s => ⟨_, RO_arrElems r s⟩)
theorem nfm_mapEntries (r : Nat) : NFM (mapEntries r) := nfm_of_RO (fun s => ⟨_, RO_mapEntries r s⟩)

end Tengo.Proofs.C05Acyclic

import Tengo.Proofs.C19EnumMap
/-!
C19, enum module, layer 6: `filter` — the guard `is_array_like(x)` (same shape as `is_enumerable(x)`), the
loop body `if fn(k, v) { dst = append(dst, v) }`.
-/
set_option linter.unusedVariables false
set_option linter.unusedSimpArgs false
namespace Tengo.Proofs.C19Enum
open Tengo.Model Tengo.Model.Spec

/-- Calling the module's `is_array_like` closure. -/
theorem isArrayLike_call {F : Nat} {ctx : Ctx} {env : Env} (hns : NoShadow env) (xv : Value) (gs : GSt) (σ : St)
    (hd : ctx.callDepth < 900) :
    callClosure (F + 10) ctx ⟨["x"], false, isArrayLikeBody, env⟩ [xv] gs σ =
      .ok ((.bool (isArrLike xv), gs), pushSt σ (.cell xv false)) := by
  rw [callClosure1 gs σ hd]
  have hx := var_x_enter1 env ctx σ xv
  have hA := pred_call_run (F := F + 2) (gs := gs) (ctx := { env := { vars := [] } :: (enter1 env ctx "x" σ).env, callDepth := (enter1 env ctx "x" σ).callDepth, path := 0 :: 0 :: (enter1 env ctx "x" σ).path })
    (noshadow_enter1 hns ctx σ (n := "is_array") (by simp)) (by decide) (hx []) (isPred_is_array xv)
  have hC := pred_call_run (F := F + 2) (gs := gs) (ctx := { env := { vars := [] } :: (enter1 env ctx "x" σ).env, callDepth := (enter1 env ctx "x" σ).callDepth, path := 0 :: 0 :: (enter1 env ctx "x" σ).path })
    (noshadow_enter1 hns ctx σ (n := "is_immutable_array") (by simp)) (by decide) (hx []) (isPred_is_imarr xv)
  have h3 := lor_run hA hC
  have hblk := block_ret_expr (tag := 0) (ctx := enter1 env ctx "x" σ) h3
  show (execBlock (F + 2 + 3 + 1 + 3) (enter1 env ctx "x" σ) isArrayLikeBody 0 >>= _) gs _ = _
  rw [show isArrayLikeBody = [Stmt.ret (some (lor (call1 "is_array" "x") (call1 "is_immutable_array" "x")))] from rfl,
    em_bind_ok hblk]
  cases xv <;> rfl

/-- `is_array_like` is bound (in `E`, heap `σ`) to the module's helper closure. -/
def IsArrLikeBound (σ : St) (E : Env) : Prop :=
  ∃ re env0, Var σ E "is_array_like" (.fn re) ∧
    σ.heap[re]? = some (.clos ⟨["x"], false, isArrayLikeBody, env0⟩) ∧ NoShadow env0

theorem IsArrLikeBound.ext {σ σ' : St} {E : Env} (h : IsArrLikeBound σ E) (he : Ext σ σ') : IsArrLikeBound σ' E := by
  obtain ⟨re, env0, h1, h2, h3⟩ := h
  exact ⟨re, env0, h1.ext he, he.keep _ _ h2, h3⟩

theorem guardArr_expr_run {F : Nat} {ctx : Ctx} {σ : St} {xv : Value} (gs : GSt)
    (hb : IsArrLikeBound σ ctx.env) (hx : Var σ ctx.env "x" xv) (hd : ctx.callDepth < 900) :
    evalExpr (F + 11) ctx (call1 "is_array_like" "x") gs σ =
      .ok ((.bool (isArrLike xv), gs), pushSt σ (.cell xv false)) := by
  obtain ⟨re, env0, h1, h2, h3⟩ := hb
  unfold call1
  rw [call_fn_run (F := F + 10) (ev_ident h1 (F + 9) gs) (ev_args1 hx (F + 8) gs) h2]
  exact isArrayLike_call h3 xv gs σ hd

theorem IsArrLikeBound.push {σ : St} {E : Env} (h : IsArrLikeBound σ E) : IsArrLikeBound σ ({ vars := [] } :: E) := by
  obtain ⟨re, env0, h1, h2, h3⟩ := h
  exact ⟨re, env0, var_push h1 0, h2, h3⟩

/-- The guard `if !is_array_like(x) { return undefined }`. -/
theorem guardArr_run {F : Nat} {ctx : Ctx} {σ : St} {xv : Value} (gs : GSt)
    (hb : IsArrLikeBound σ ctx.env) (hx : Var σ ctx.env "x" xv) (hd : ctx.callDepth < 900) :
    execStmt (F + 13) ctx guardArr gs σ =
      .ok (((if isArrLike xv then Flow.normal else Flow.ret .undef, ctx.env), gs), pushSt σ (.cell xv false)) := by
  unfold guardArr retUndefUnless
  rw [execStmt_if]
  have hg := guardArr_expr_run (F := F) (ctx := pushCtx ctx) gs hb.push (var_push hx 0) hd
  rw [em_bind_ok (not_run hg rfl), em_bind_ok (liftM_ok (isFalsy_run (v := .bool _) rfl _))]
  cases h : isArrLike xv
  · simp only [falsy, h, Bool.not_false, Bool.not_true, Bool.false_eq_true, if_false, if_true]
    rw [em_bind_ok (block_ret_expr (F := F + 9) (ev_undef (F + 8) _ gs _))]
    rfl
  · simp only [falsy, h, Bool.not_false, Bool.not_true, Bool.false_eq_true, if_false, if_true]
    rfl

theorem guardedArr_call {F : Nat} {ctx : Ctx} {menv : Env} {q : String} {rest : List Stmt} {xv b : Value}
    (gs : GSt) (σ : St) (hq : ("x" == q) = false) (hq2 : ("is_array_like" == q) = false)
    (hb : IsArrLikeBound σ menv) (hd : ctx.callDepth < 899) :
    callClosure (F + 16) ctx ⟨["x", q], false, guardArr :: rest, menv⟩ [xv, b] gs σ =
      if isArrLike xv then
        (do let p ← execStmts (F + 13) (bodyCtx menv ctx q σ) rest 1
            match p.1 with
            | .ret v => pure v
            | _ => pure Value.undef : EM Value) gs (stG σ xv b)
      else .ok ((.undef, gs), stG σ xv b) := by
  have hxq : ("x" != q) = true := by simp [bne, hq]
  rw [callClosure2 gs σ (by omega) hxq, execBlock_cons, execStmts_cons]
  have hb' : IsArrLikeBound (st2 σ xv b) (bodyCtx menv ctx q σ).env := by
    obtain ⟨re, env0, h1, h2, h3⟩ := hb.ext (ext_st2 σ xv b)
    refine ⟨re, env0, ?_, h2, h3⟩
    refine (h1.under _ ?_).under _ rfl
    simp [List.lookup, hq2]
  have hg := guardArr_run (F := F) (ctx := { env := { vars := [] } :: (enter2 menv ctx "x" q σ).env, callDepth := ctx.callDepth + 1, path := [0, 0] }) gs hb'
    (var_x_body menv ctx q σ xv b hq) (by show ctx.callDepth + 1 < 900; omega)
  simp only [bind_assoc, pure_bind]
  rw [show (enter2 menv ctx "x" q σ).callDepth = ctx.callDepth + 1 from rfl,
    show (enter2 menv ctx "x" q σ).path = [] from rfl]
  rw [em_bind_ok hg]
  cases h : isArrLike xv
  · simp only [Bool.false_eq_true, if_false]; rfl
  · simp only [if_true]; rfl


def filterLoop : List Stmt :=
  [.ifs none fnKV [.assign "Assign" [.ident "dst"] [call2 "append" "dst" "v"]] none]

/-- One iteration of `filter`'s loop body `if fn(k, v) { dst = append(dst, v) }`. -/
theorem filter_body_run {Fc F : Nat} {σ0 σI : St} {cr : Nat} {f : Nat → Value → Value} {cx : Ctx} {i : Nat}
    {x : Value} {rd sd cd : Nat} {ds : List Value} (gs : GSt)
    (hcb : CallsAs Fc σ0 cr f) (hF : Fc ≤ F) (hext : Ext σ0 σI) (hd : cx.callDepth < 900)
    (hfn : Var σI cx.env "fn" (.fn cr)) (hk : Var σI cx.env "k" (.int i)) (hv : Var σI cx.env "v" x)
    (happ : lookupVar cx.env "append" = none) (hdv : lookupVar cx.env "dst" = some cd)
    (hdc : σI.heap[cd]? = some (.cell (.arr rd) false)) (hda : DstArr σI rd sd ds) (hsc : Scalar (f i x) = true) :
    ∃ σ2, Ext σI σ2 ∧ execBlock (F + 10) cx filterLoop 1 gs σI =
      .ok ((.normal, gs), if truthy (f i x) then
        setSt (appSt σ2 rd ds x) cd (.cell (.arr (σ2.heap.size + 1)) false) else σ2) := by
  obtain ⟨σ2, hcall, he2⟩ := fn_call_run (F := F + 3)
    (ctx := { env := { vars := [] } :: { vars := [] } :: cx.env, callDepth := cx.callDepth, path := 0 :: 1 :: cx.path })
    gs hcb (by omega) hext hd (var_push (var_push hfn 0) 0) (var_push (var_push hk 0) 0) (var_push (var_push hv 0) 0)
  refine ⟨σ2, he2, ?_⟩
  unfold filterLoop
  rw [execBlock_cons, execStmts_cons, execStmt_if]
  simp only [pushCtx, bind_assoc, pure_bind]
  rw [em_bind_ok hcall, em_bind_ok (liftM_ok (isFalsy_run hsc σ2))]
  rcases Bool.eq_false_or_eq_true (falsy (f i x)) with hf | hf
  · -- falsy: nothing happens
    simp only [hf, truthy, Bool.not_true, Bool.false_eq_true, if_false, pure_bind, execStmts_nil]
    rfl
  · simp only [hf, truthy, Bool.not_false, if_true, bind_assoc, pure_bind]
    have hdst : Var σ2 ({ vars := [] } :: { vars := [] } :: { vars := [] } :: cx.env) "dst" (.arr rd) :=
      var_push (var_push (var_dst_push hdv (he2.keep _ _ hdc)) 0) 0
    have hvv : Var σ2 ({ vars := [] } :: { vars := [] } :: { vars := [] } :: cx.env) "v" x :=
      var_push (var_push (var_push (hv.ext he2) 0) 0) 0
    have hcallA := call_builtin_run (F := F + 3)
      (ev_builtin_ident (ctx := { env := { vars := [] } :: { vars := [] } :: { vars := [] } :: cx.env, callDepth := cx.callDepth, path := 0 :: 1 :: 0 :: 1 :: cx.path })
        (n := "append") (by simp only [lookupVar_cons, List.lookup]; exact happ) (by decide) (F + 2) gs σ2)
      (ev_args2 (ctx := { env := { vars := [] } :: { vars := [] } :: { vars := [] } :: cx.env, callDepth := cx.callDepth, path := 0 :: 1 :: 0 :: 1 :: cx.path }) hdst hvv F gs)
    rw [callBuiltin_append_run (hda.ext he2) x gs] at hcallA
    unfold call2
    rw [execBlock_cons, execStmts_cons, execStmt_assign_call]
    simp only [bind_assoc, pure_bind]
    rw [em_bind_ok hcallA]
    rw [em_bind_ok (writeVar_run (env := { vars := [] } :: { vars := [] } :: { vars := [] } :: cx.env) (n := "dst") (c := cd)
      (by simp only [lookupVar_cons, List.lookup]; exact hdv) _ gs _)]
    simp only [execStmts_nil]
    rfl

/-- What `filter` has built after `i` iterations. -/
def filtered (f : Nat → Value → Value) (es : List Value) (i : Nat) : List Value :=
  (((es.take i).zipIdx).filter (fun q => truthy (f q.2 q.1))).map (fun q => q.1)

theorem take_succ_zipIdx {es : List Value} {i : Nat} {x : Value} (h : es[i]? = some x) :
    (es.take (i + 1)).zipIdx = (es.take i).zipIdx ++ [(x, i)] := by
  have hi : i < es.length := by
    rcases Nat.lt_or_ge i es.length with hc | hc
    · exact hc
    · have : es[i]? = none := by simp; omega
      rw [this] at h; cases h
  rw [List.take_add_one, h]
  simp [List.zipIdx_append, List.length_take, Nat.min_eq_left (Nat.le_of_lt hi)]

theorem filtered_succ_true (f : Nat → Value → Value) {es : List Value} {i : Nat} {x : Value} (h : es[i]? = some x)
    (ht : truthy (f i x) = true) : filtered f es (i + 1) = filtered f es i ++ [x] := by
  unfold filtered
  rw [take_succ_zipIdx h]
  simp [List.filter_append, ht]

theorem filtered_succ_false (f : Nat → Value → Value) {es : List Value} {i : Nat} {x : Value} (h : es[i]? = some x)
    (ht : truthy (f i x) = false) : filtered f es (i + 1) = filtered f es i := by
  unfold filtered
  rw [take_succ_zipIdx h]
  simp [List.filter_append, ht]

theorem filtered_all (f : Nat → Value → Value) (es : List Value) :
    filtered f es es.length = (es.zipIdx.filter (fun q => truthy (f q.2 q.1))).map (fun q => q.1) := by
  simp [filtered]

def filterRest : List Stmt :=
  [.assign "Define" [.ident "dst"] [.arr []], forKV filterLoop, .ret (some (.ident "dst"))]

theorem filterBody_eq : filterBody = guardArr :: filterRest := rfl

theorem filter_after_define {Fc : Nat} {σ σD : St} {menv : Env} {ctx : Ctx} {r st cr : Nat} {es : List Value}
    {f : Nat → Value → Value} (gs : GSt)
    (harr : ArrAt σ r st es) (hcb : CallsAs Fc σ cr f) (hd : ctx.callDepth < 899)
    (happ : lookupVar menv "append" = none) (hsc : ∀ i x, es[i]? = some x → Scalar (f i x) = true)
    (F : Nat) (hF : Fc ≤ F) (hI0 : AccInv σ (.arr r) cr (filtered f es) 0 σD) :
    ∃ σ'' rd sd, AccInv σ (.arr r) cr (filtered f es) es.length σ'' ∧
      σ''.heap[σ.heap.size + 5]? = some (.cell (.arr rd) false) ∧ DstArr σ'' rd sd ((es.zipIdx.filter (fun q => truthy (f q.2 q.1))).map (fun q => q.1)) ∧
      (do let p ← execStmts (F + es.length + 11 + 2)
                    { env := mapEnv menv σ, callDepth := ctx.callDepth + 1, path := [0] }
                    [forKV filterLoop, .ret (some (.ident "dst"))] 2
          match p.1 with
          | .ret v => pure v
          | _ => pure Value.undef : EM Value) gs σD = .ok ((.arr rd, gs), σ'') := by
  have hloop := forin_loop_run (Fb := F + 10)
    (ctx := { env := mapEnv menv σ, callDepth := ctx.callDepth + 1, path := 2 :: [0] })
    (r := r) (st := st) (es := es) (body := filterLoop) gs
    (AccInv σ (.arr r) cr (filtered f es)) (fun _ _ => none)
    (fun _ σ' h => harr.ext h.ext)
    (fun _ σ' h => ⟨σ.heap.size, false, mapEnv_x menv σ, h.cx⟩)
    (by show (ctx.callDepth + 1 == 0) = false; simp)
    (by
      intro F' hF' i x σ' hget hI
      obtain ⟨k, rfl⟩ : ∃ k, F' = k + 10 := ⟨F' - 10, by omega⟩
      obtain ⟨rd, sd, hdc, hda, hrd⟩ := hI.dst
      have hfnV : Var σ' (mapEnv menv σ) "fn" (.fn cr) := ⟨_, false, mapEnv_fn menv σ, hI.cf⟩
      obtain ⟨σ2, he2, hrun⟩ := filter_body_run (F := k) (σ0 := σ) (σI := st2 σ' (.int i) x)
        (cx := iterCtx (pushCtx { env := mapEnv menv σ, callDepth := ctx.callDepth + 1, path := 2 :: [0] })
          (mapEnv menv σ) σ') (i := i) (x := x) (cd := σ.heap.size + 5) gs hcb (by omega)
        (hI.ext.trans (ext_st2 _ _ _)) (by show ctx.callDepth + 1 < 900; omega)
        (iter_var_other _ _ hfnV (by decide) (by decide)) (iter_var_k _ _ _ _ _) (iter_var_v _ _ _ _ _)
        (by simp [iterCtx, lookupVar_cons, List.lookup, mapEnv_append happ])
        (by simp [iterCtx, lookupVar_cons, List.lookup, mapEnv_dst])
        ((ext_st2 _ _ _).keep _ _ hdc) (hda.ext (ext_st2 _ _ _)) (hsc i x hget)
      rcases Bool.eq_false_or_eq_true (truthy (f i x)) with ht | ht
      · rw [ht] at hrun
        exact ⟨_, hrun, accInv_step hI hdc hda hrd (filtered_succ_true f hget ht) ((ext_st2 _ _ _).trans he2)⟩
      · rw [ht] at hrun
        exact ⟨_, hrun, accInv_keep hI (filtered_succ_false f hget ht) ((ext_st2 _ _ _).trans he2)⟩)
    σD hI0
  obtain ⟨σ', j, hrun, hI', hj⟩ := hloop
  have hjn : j = es.length := hj (firstRes_none es 0)
  subst hjn
  obtain ⟨rd, sd, hdc, hda, hrd⟩ := hI'.dst
  refine ⟨σ', rd, sd, hI', hdc, by rw [← filtered_all]; exact hda, ?_⟩
  rw [execStmts_cons]
  simp only [bind_assoc]
  have hfu : F + 10 + es.length + 2 = F + es.length + 11 + 1 := by omega
  rw [hfu, firstRes_none] at hrun
  rw [em_bind_ok hrun]
  simp only [flowOf]
  rw [show F + es.length + 11 + 1 = (F + es.length + 10) + 2 from by omega, execStmts_cons, execStmt_ret]
  simp only [bind_assoc, pure_bind]
  rw [em_bind_ok (ev_ident (ctx := { env := mapEnv menv σ, callDepth := ctx.callDepth + 1, path := (2 + 1) :: [0] })
    ⟨σ.heap.size + 5, false, mapEnv_dst menv σ, hdc⟩ (F + es.length + 9) gs)]
  rfl

theorem filter_run {Fc : Nat} {σ : St} {menv : Env} {ctx : Ctx} {r st cr : Nat} {es : List Value}
    {f : Nat → Value → Value} (gs : GSt)
    (hb : IsArrLikeBound σ menv) (harr : ArrAt σ r st es) (hcb : CallsAs Fc σ cr f) (hd : ctx.callDepth < 899)
    (hwf : WfApp σ) (happ : lookupVar menv "append" = none)
    (hsc : ∀ i x, es[i]? = some x → Scalar (f i x) = true) (F : Nat) (hF : Fc ≤ F) :
    ∃ σ'' rd sd, AccInv σ (.arr r) cr (filtered f es) es.length σ'' ∧
      σ''.heap[σ.heap.size + 5]? = some (.cell (.arr rd) false) ∧ DstArr σ'' rd sd ((es.zipIdx.filter (fun q => truthy (f q.2 q.1))).map (fun q => q.1)) ∧
      callClosure (F + es.length + 17) ctx ⟨["x", "fn"], false, filterBody, menv⟩ [.arr r, .fn cr] gs σ =
        .ok ((.arr rd, gs), σ'') := by
  rw [filterBody_eq, show F + es.length + 17 = (F + es.length + 1) + 16 from by omega,
    guardedArr_call (F := F + es.length + 1) gs σ (by decide) (by decide) hb hd]
  simp only [isArrLike, if_true]
  unfold filterRest
  rw [execStmts_cons, show F + es.length + 1 + 12 = (F + es.length + 11) + 2 from by omega, execStmt_define_arr]
  simp only [bind_assoc, pure_bind]
  rw [show F + es.length + 11 + 1 = (F + es.length + 10) + 2 from by omega]
  rw [em_bind_ok (ev_arr_nil (F + es.length + 10) _ gs _)]
  rw [em_bind_ok (declare_fn (f := { vars := [] }) (E := (enter2 menv ctx "x" "fn" σ).env) "dst" _ 0 gs _
    (by show (ctx.callDepth + 1 == 0) = false; simp) rfl)]
  have hG : (stG σ (.arr r) (.fn cr)).heap.size = σ.heap.size + 3 := by simp [stG, st2, pushSt_size]
  have hsz : (pushSt (pushSt (stG σ (Value.arr r) (Value.fn cr)) (Obj.store #[] 1))
      (Obj.arr (stG σ (Value.arr r) (Value.fn cr)).heap.size 0 0)).heap.size = σ.heap.size + 5 := by
    simp [pushSt_size, hG]
  have hI0 : AccInv σ (.arr r) cr (filtered f es) 0 (pushSt (pushSt (pushSt (stG σ (Value.arr r) (Value.fn cr)) (Obj.store #[] 1))
      (Obj.arr (stG σ (Value.arr r) (Value.fn cr)).heap.size 0 0))
      (Obj.cell (Value.arr ((stG σ (Value.arr r) (Value.fn cr)).heap.size + 1)) false)) := by
    have he : Ext σ (pushSt (pushSt (pushSt (stG σ (Value.arr r) (Value.fn cr)) (Obj.store #[] 1))
      (Obj.arr (stG σ (Value.arr r) (Value.fn cr)).heap.size 0 0))
      (Obj.cell (Value.arr ((stG σ (Value.arr r) (Value.fn cr)).heap.size + 1)) false)) :=
      (ext_stG σ _ _).trans (((ext_push _ _).trans (ext_push _ _)).trans (ext_push _ _))
    have hk := (((ext_push (stG σ (Value.arr r) (Value.fn cr)) (Obj.store #[] 1)).trans (ext_push _ (Obj.arr (stG σ (Value.arr r) (Value.fn cr)).heap.size 0 0))).trans
      (ext_push _ (Obj.cell (Value.arr ((stG σ (Value.arr r) (Value.fn cr)).heap.size + 1)) false)))
    refine ⟨he, he.wf hwf, ?_, ?_, (stG σ (.arr r) (.fn cr)).heap.size + 1, (stG σ (.arr r) (.fn cr)).heap.size, ?_, ⟨?_, ?_, ?_⟩, ?_⟩
    · exact hk.keep _ _ ((ext_push _ _).keep _ _ (st2_get0 σ _ _))
    · exact hk.keep _ _ ((ext_push _ _).keep _ _ (st2_get1 σ _ _))
    · have := pushSt_new (pushSt (pushSt (stG σ (Value.arr r) (Value.fn cr)) (Obj.store #[] 1))
        (Obj.arr (stG σ (Value.arr r) (Value.fn cr)).heap.size 0 0))
        (Obj.cell (Value.arr ((stG σ (Value.arr r) (Value.fn cr)).heap.size + 1)) false)
      rwa [hsz] at this
    · have := pushSt_new (pushSt (stG σ (Value.arr r) (Value.fn cr)) (Obj.store #[] 1))
        (Obj.arr (stG σ (Value.arr r) (Value.fn cr)).heap.size 0 0)
      rw [pushSt_size] at this
      exact (ext_push _ _).keep _ _ this
    · exact ((ext_push _ _).trans (ext_push _ _)).keep _ _ (pushSt_new (stG σ (Value.arr r) (Value.fn cr)) (Obj.store #[] 1))
    · exact hwf _ (by omega)
    · omega
  obtain ⟨σ'', rd, sd, h1, h2, h3, h4⟩ := filter_after_define (ctx := ctx) (menv := menv) gs harr hcb hd happ hsc F hF hI0
  refine ⟨σ'', rd, sd, h1, h2, h3, ?_⟩
  rw [hsz]
  exact h4

end Tengo.Proofs.C19Enum

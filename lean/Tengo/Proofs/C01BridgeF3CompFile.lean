import Tengo.Proofs.C01BridgeF3CompMain
/-!
C01 bridge for fragment F3, compile side, layer 7 (whole programs): the initial state of the compiler model
(`initState`: the root table knows no local name, the `LocalAssigned` side table is as long as `nextId`, no saved
scopes), and `compileFile_fragment3_partial`: `Compiler.compileFile` on the embedded F3 program emits exactly the
fragment compiler's program.
-/
set_option linter.unusedVariables false
set_option linter.unusedSimpArgs false
namespace Tengo.Proofs.C01BridgeF3Comp
open Tengo.Model Tengo.Model.Compiler Tengo.Model.Opcodes
open Tengo.Model.Spec (Expr Stmt)
open Tengo.Model.F3 (Ex Exs Stm Stms FnDef Prog Ins)
open Tengo.Proofs.C01Bridge

/-! ### the initial state -/

theorem foldl_stepI_asz : ∀ (l : List String) (s : CState), s.assigned.size = s.nextId →
    (l.foldl stepI s).assigned.size = (l.foldl stepI s).nextId
  | [], s, h => h
  | nm :: l, s, h => by
    rw [List.foldl_cons]
    exact foldl_stepI_asz l _ (by simp [stepI, h])

theorem initState_asz (inputs : List String) :
    (initState inputs).assigned.size = (initState inputs).nextId := by
  rw [initState_eq]
  exact foldl_stepI_asz _ _ (by simp [initState])

theorem builtins_lookup (x : String) : ∀ (l : List String) (i : Nat) (acc : List (String × Sym)), x ∉ l →
    (initState.builtins i l acc).lookup x = acc.lookup x
  | [], i, acc, _ => rfl
  | nm :: ns, i, acc, h => by
    rw [initState.builtins, builtins_lookup x ns (i + 1) _ (fun hm => h (List.mem_cons_of_mem _ hm))]
    have hne : (x == nm) = false := by
      simp only [beq_eq_false_iff_ne, ne_eq]
      exact fun he => h (he ▸ List.mem_cons_self ..)
    simp [List.lookup, hne]

/-- The single root table does not know the name `x`. -/
def NoKey (x : String) (s : CState) : Prop :=
  ∃ root, s.tables = [root] ∧ root.block = false ∧ root.store.lookup x = none

theorem noKey_step {x : String} {s : CState} (h : NoKey x s) (nm : String) (hne : nm ≠ x) : NoKey x (stepI s nm) := by
  obtain ⟨root, ht, hb, hl⟩ := h
  have hx : (x == nm) = false := by
    simp only [beq_eq_false_iff_ne, ne_eq]; exact fun he => hne he.symm
  simp only [NoKey, stepI, ht, defineIn, nextIndex, globalCtx, hb, incRoot, updateMax]
  refine ⟨_, rfl, ?_, ?_⟩
  · simp [hb]
  · simp [List.lookup, hx, hl]

theorem noKey_fold {x : String} : ∀ (l : List String) (s : CState), NoKey x s → (∀ nm ∈ l, nm ≠ x) →
    NoKey x (l.foldl stepI s)
  | [], s, h, _ => h
  | nm :: l, s, h, hl => by
    rw [List.foldl_cons]
    exact noKey_fold l _ (noKey_step h nm (hl nm (List.mem_cons_self ..)))
      (fun nm' hm => hl nm' (List.mem_cons_of_mem _ hm))

theorem noKey_init (x : String) (inputs : List String) (hb : x ∉ Spec.builtinNames) (hi : ∀ nm ∈ inputs, nm ≠ x) :
    NoKey x (initState inputs) := by
  rw [initState_eq]
  refine noKey_fold inputs _ ?_ hi
  exact ⟨_, rfl, rfl, by
    show (initState.builtins 0 Spec.builtinNames []).lookup x = none
    rw [builtins_lookup x _ _ _ hb]; rfl⟩

theorem foldl_stepI_saved : ∀ (l : List String) (s : CState), (l.foldl stepI s).saved = s.saved
  | [], s => rfl
  | nm :: l, s => by rw [List.foldl_cons, foldl_stepI_saved l]; rfl

/-! ### the pool -/

theorem poolOf_val (P : Prog) (ctab : Nat → F0.Const) (j : Nat) (h : isFnOf P j = false) :
    poolOf P ctab j = constOf (ctab j) := by
  unfold isFnOf at h
  unfold poolOf
  cases hf : P.fns j with
  | none => rfl
  | some fd => rw [hf] at h; cases h

theorem poolOf_fn (P : Prog) (ctab : Nat → F0.Const) (j : Nat) (fd : FnDef) (h : P.fns j = some fd) :
    poolOf P ctab j = fnConst fd := by
  unfold poolOf; rw [h]

/-- The function constant holds the OPTIMIZER's output on the encoding of the raw body `F3.compSs 0 0 0 fd.body`,
`NumLocals`, `NumParameters`, no varargs. -/
theorem fnConst_spec (fd : FnDef) (h : (optBody fd).isSome = true) :
    ∃ r, Optimizer.opt (encodeIns3 (F3.compSs 0 0 0 fd.body)) [] 0 = .ok r ∧
      fnConst fd = .fn r.bytes fd.nlocals fd.nparams false := by
  obtain ⟨bytes, hb⟩ := Option.isSome_iff_exists.mp h
  obtain ⟨r, hr1, hr2⟩ := optBody_some hb
  exact ⟨r, hr1, by simp [fnConst, hb, hr2]⟩

/-! ### the compiler bridge -/

/-- **Compiler bridge for F3 (partial: see the exclusions).** For every F3 program `P` that is `wfProg P n` — global
slots below `n`; the value constants and the function constants numbered in compilation order, the constants of a
function body BEFORE the function's own constant; function literals only as the right-hand side of a top-level
`assign i (lit k)` of main, in pool order; every local definition `defl i e` at the TOP LEVEL of its function body,
the `j`-th one with `i = nparams + j`, `nlocals = nparams +` their number `≤ 256`; `setl i` / `loc i` only on slots
already defined (or parameters), inside `if` / loop bodies only `setl` / `loc`; operator tokens valid; `break` /
`continue` inside loops of the same function; no `return` in main; at most 255 arguments per call; post statements
of three-clause loops simple — with names such that the global names are distinct, the local names are distinct,
differ from all global names and are not builtin names (`NamesOK`, `hb`), on whose function bodies the optimizer
model does not panic (`optOK`, decidable per program; the real optimizer never panics on compiled code), and whose
nesting fits the traversal budget of the compiler model:
the WHOLE compiler model, run on the embedded AST (`toAstProg`: function literals `func(lnames 0, …) {…}`, calls,
`return`, `:=` / `=` on local names) with the `n` slots pre-declared as inputs, succeeds; its main function is byte
for byte the encoding of `(F3.compProg P).main` followed by SUSPEND; the constant pool is `poolOf P ctab` — the value
constants, and at index `k` with `P.fns k = some fd` the function constant `fnConst fd` = `.fn bytes fd.nlocals
fd.nparams false` where `bytes` is the optimizer model's output on the encoding of `F3.compSs 0 0 0 fd.body`
(`fnConst_spec`); `MaxSymbols()` of the root table is `n`.

Exclusions (hence `_partial`): local definitions nested inside `if` / loop bodies (block-scoped slots, slot reuse),
shadowing, closures / free variables, function literals anywhere else than `global = func…` at the top level of main,
varargs, `:=` on globals; the relation between the optimizer's output and `encode (F3.compFn fd).code` (equal for
bodies without dead code that do not end in a return — `noDeadSs` — not proved here). -/
theorem compileFile_fragment3_partial (names lnames : Nat → String) (ctab : Nat → F0.Const) (n : Nat) (P : Prog)
    (hN : NamesOK names lnames n) (hb : ∀ i, lnames i ∉ Spec.builtinNames)
    (hwf : wfProg P n = true) (hopt : optOK P P.main = true) (hbud : budMain P P.main ≤ Compiler.fuel) :
    compileFile (toAstProg names lnames ctab P) (inputsOf names n) =
      .ok { main := encodeIns3 (F3.compProg P).main ++ [UInt8.ofNat opSuspend],
            consts := (List.range (nlitsMain P P.main)).map (poolOf P ctab),
            maxGlobals := n } := by
  have hinv := initInv_inputs n hN.ginj
  obtain ⟨⟨root, ht, hblk, hn, hm, hl⟩, hi, hc⟩ := hinv
  have hroot : RootOK names lnames n root := by
    refine ⟨hl, fun i => ?_⟩
    obtain ⟨root', ht', _, hl'⟩ := noKey_init (lnames i) (inputsOf names n) (hb i) (by
      intro nm hm
      simp only [inputsOf, List.mem_map, List.mem_range] at hm
      obtain ⟨j, hj, rfl⟩ := hm
      exact (hN.dis i j hj).symm)
    rw [ht] at ht'
    simp only [List.cons.injEq, and_true] at ht'
    rw [ht']; exact hl'
  have hmi : MainInv root (initState (inputsOf names n)) :=
    ⟨ht, initState_asz _, initState_loops _⟩
  obtain ⟨s', hs', hinv', hi', hc', hsv'⟩ := mainOK (ctab := ctab) (K := poolOf P ctab) hN P (poolOf_val P ctab)
    (poolOf_fn P ctab) hroot P.main Compiler.fuel _ hbud hmi (by rw [hc]; exact hwf) hopt
  unfold compileFile
  have hrun : (compileStmts Compiler.fuel (toAstProg names lnames ctab P)).run (initState (inputsOf names n)) =
      .ok ((), s') := hs'
  rw [hrun]
  simp only [hi', hc', hi, hc, hinv'.tabs]
  simp [hm, F3.compProg, litsK, List.range_eq_range']

/- Not proved (statement only):
theorem optBody_noDead_TODO (fd : FnDef) (hnd : noDeadSs fd.body = true) (hlast : the last statement of `fd.body` is
    not `ret` / `ret0`, or the body is empty) (hwf : wfBody … fd.body = true) :
    optBody fd = some (encodeIns3 (F3.compFn fd).code)
-- i.e. for bodies without dead code that do not end in a return the optimizer keeps every instruction, re-targets
-- every jump to itself and appends `RET 0`: the function constant is exactly the encoding of `F3.compFn fd`.
-- Also not proved: `optOK` from `wfProg` (no panic: `Tengo.Props.C03Sim.opt_total` needs `WFJumps` of the decoded
-- raw body). -/

end Tengo.Proofs.C01BridgeF3Comp

import Tengo.Proofs.C01BridgeF3CompFnTab
/-!
C01 bridge for fragment F3, compile side, layer 5b (the top level of a function body): a local definition
`defl m e` at the top level of the body (`lnames m := e`) compiles to `e; DEFL m`, defines slot `m` in the body block
and marks it assigned (`deflOK`); hence the statements of a well-formed body (`wfBody`) compile to the encoding of
`F3.compSs 0 0 off body`, with `np + ndefs body` local slots at the end (`bodyOK`).
-/
set_option linter.unusedVariables false
set_option linter.unusedSimpArgs false
namespace Tengo.Proofs.C01BridgeF3Comp
open Tengo.Model Tengo.Model.Compiler Tengo.Model.Opcodes
open Tengo.Model.Spec (Expr Stmt)
open Tengo.Model.F3 (Ex Exs Stm Stms FnDef Prog Ins)
open Tengo.Proofs.C01Bridge
open Tengo.Proofs.C11Rename (asgBody asgResolve asgRhs asgOp asgEmit isFuncLit compileAssign_succ)

attribute [local irreducible] emit curPos changeOperand addConstant enterLoop leaveLoop fork unfork
  emitBinary patchAll setAssigned localAssigned emitGet emitIt define resolve cerr
  Compiler.unsupported compileExpr compileExprs compileKVs compileSelsRev compileStmt compileBlock compileStmts

theorem asgOp_define (d : Nat) (sym : Option Sym) :
    asgOp (d + 1) [] 0 "Define" sym = (do compileSelsRev (d + 1) []; asgEmit "Define" 0 sym) := rfl

theorem asgRhs_define (d : Nat) (l r : Expr) (nm : String) (sym : Option Sym) :
    asgRhs d l r nm [] 0 "Define" false sym =
      (do compileExpr d r; let s ← define nm; asgOp d [] 0 "Define" (some s)) := rfl

theorem asgResolve_define (d : Nat) (l r : Expr) (nm : String) :
    asgResolve d l r nm [] 0 "Define" false = (do
      let resolved ← resolve nm
      match resolved with
      | some (s, 0) => if s.scope != .builtin then cerr s!"'{nm}' redeclared in this block"
      | _ => pure ()
      asgRhs d l r nm [] 0 "Define" false (resolved.map Prod.fst)) := rfl

theorem asgBody_define (d : Nat) (nm : String) (r : Expr) (hr : isFuncLit r = false) :
    asgBody d [.ident nm] [r] "Define" = asgResolve d (.ident nm) r nm [] 0 "Define" false := by
  have h : asgBody d [.ident nm] [r] "Define" = asgResolve d (.ident nm) r nm [] 0 "Define" (isFuncLit r) := rfl
  rw [h, hr]

theorem stmt_define (d : Nat) (nm : String) (r : Expr) (hr : isFuncLit r = false) :
    compileStmt (d + 1 + 1) (.assign "Define" [.ident nm] [r]) =
      asgResolve d (.ident nm) r nm [] 0 "Define" false := by
  rw [compileStmt.eq_4, compileAssign_succ, asgBody_define d nm r hr]

theorem LocTab.of_store {lnames : Nat → String} {asg : Array Bool} {lo hi : Nat} {t t' : Table}
    (h : LocTab lnames asg lo hi t) (hs : t'.store = t.store) : LocTab lnames asg lo hi t' :=
  ⟨fun nm hn => by rw [hs]; exact h.none nm hn, fun i h1 h2 => by rw [hs]; exact h.some i h1 h2⟩

theorem addJ_of_nil3 {s : CState} (h : s.loops = []) (bs cs : List Nat) : addJ s bs cs = s := by
  unfold addJ; rw [h]

section
variable {names lnames : Nat → String} {ctab : Nat → F0.Const} {isFn : Nat → Bool}
  {K : Nat → Compiler.Const} {n : Nat}

/-- The state after `lnames m := e` at the top level of a function body. -/
def deflSt (s : CState) (bs : List UInt8) (ks : List Compiler.Const) (tabs : Chain) : CState :=
  { app s bs ks with tables := tabs, nextId := s.nextId + 1, assigned := markNew s.assigned }

theorem deflOK (hN : NamesOK names lnames n) (hK : ∀ j, isFn j = false → K j = constOf (ctab j))
    {np m : Nat} {root : Table} (hr : RootOK names lnames n root) (e : Ex) (d : Nat) (s : CState)
    (hd : 2 + budE3 e ≤ d) (hinv : FnInv lnames np m root s) (hw : wfE3 isFn n m s.consts.size e = true) :
    ∃ s', Steps (compileStmt d (toAstS3 names lnames ctab (.defl m e))) s () s' ∧ FnInv lnames np (m + 1) root s' ∧
      s'.insts = s.insts ++ (encodeIns3 (F3.compS 0 0 s.insts.size (.defl m e))).toArray ∧
      s'.consts = s.consts ++ (litsK K s.consts.size (nlitsE3 e)).toArray ∧ s'.saved = s.saved := by
  obtain ⟨d, rfl⟩ : ∃ d', d = d' + 1 + 1 + 1 := ⟨d - 3, by have := budE3_pos e; omega⟩
  have hctx := hinv.ctx hN hr
  obtain ⟨bt, ft, ht, hb, hf, hn, hm, hfs, hbt, hft⟩ := hinv.tabs
  have hasz := hinv.asz
  -- the definition
  have hdef := steps_define (lnames m)
    (app s (encodeIns3 (F3.comp s.insts.size e)) (litsK K s.consts.size (nlitsE3 e)))
  rw [app_tables, ht, defineIn_body _ _ _ _ _ hb hf, hn] at hdef
  simp only [app_nextId, app_assigned] at hdef
  refine ⟨deflSt s (encodeIns3 (F3.comp s.insts.size e ++ [.defl m])) (litsK K s.consts.size (nlitsE3 e))
    [{ bt with store := (lnames m, ⟨lnames m, .local, m, s.nextId⟩) :: bt.store,
               numDefinition := bt.numDefinition + 1, maxDefinition := max bt.maxDefinition (m + 1) },
     { ft with maxDefinition := max ft.maxDefinition (m + 1) }, root], ?_, ?_, ?_, ?_, ?_⟩
  · simp only [toAstS3, stmt_define (d + 1) _ _ (isFuncLit_toAstE3 names lnames ctab e), asgResolve_define]
    refine Steps.bind (hinv.fresh hN hr) ?_
    simp only [Option.map_none, asgRhs_define]
    refine Steps.bind (hctx.expr hK e _ (by omega) hw) ?_
    refine Steps.bind hdef ?_
    rw [asgOp_define, compileSelsRev.eq_2, asgEmit_local_define]
    refine Steps.bind (Steps.pure () _) ?_
    refine Steps.bind (steps_localAssigned _ _) ?_
    have hnew : (s.assigned.push false).getD s.nextId false = false := by rw [← hasz]; exact push_new _
    simp only [hnew, Bool.not_false, if_true]
    refine Steps.bind (steps_emitI3 (.defl m) _) ?_
    refine (steps_setAssigned _ _).to ?_
    simp only [deflSt, app, markNew, hasz, encodeIns3_append, List.append_assoc]
    simp
  · refine ⟨⟨_, _, rfl, hb, hf, ?_, ?_, hfs, ?_, ?_⟩, by have := hinv.le; omega, ?_, ?_⟩
    · simp only; omega
    · simp only [hm]; omega
    · refine hbt.push hN.linj hinv.le ?_
      simp only [deflSt, hasz]
    · exact hft.mark.of_store rfl
    · simp only [deflSt, markNew_size, hasz]
    · simp only [deflSt, app_loops]; exact hinv.loops
  · simp [deflSt, app, F3.compS]
  · simp [deflSt, app, nlitsE3]
  · simp [deflSt, app]

/-! ### the statements of a body -/

theorem wfBody_defl (isFn : Nat → Bool) (n m k i : Nat) (e : Ex) (ss : Stms) :
    wfBody isFn n m k (.cons (.defl i e) ss) =
      (i == m && wfE3 isFn n m k e && wfBody isFn n (m + 1) (k + nlitsE3 e) ss) := by
  simp only [wfBody]

theorem wfBody_other (isFn : Nat → Bool) (n m k : Nat) (st : Stm) (ss : Stms) (h : ∀ i e, st ≠ .defl i e) :
    wfBody isFn n m k (.cons st ss) =
      (wfS3 isFn n m true false k st && wfBody isFn n m (k + nlitsS3 st) ss) := by
  cases st <;> first | exact absurd rfl (h _ _) | (simp only [wfBody])

theorem ndefs_defl (i : Nat) (e : Ex) (ss : Stms) : ndefs (.cons (.defl i e) ss) = ndefs ss + 1 := by
  simp only [ndefs]

theorem ndefs_other (st : Stm) (ss : Stms) (h : ∀ i e, st ≠ .defl i e) : ndefs (.cons st ss) = ndefs ss := by
  cases st <;> first | exact absurd rfl (h _ _) | (simp only [ndefs])

theorem isDefl_cases (st : Stm) : (∃ i e, st = .defl i e) ∨ (∀ i e, st ≠ .defl i e) := by
  cases st <;> first | (left; exact ⟨_, _, rfl⟩) | (right; intro i e h; cases h)

theorem bodyOK (hN : NamesOK names lnames n) (hK : ∀ j, isFn j = false → K j = constOf (ctab j))
    {np : Nat} {root : Table} (hr : RootOK names lnames n root) :
    ∀ (ss : Stms) (d m : Nat) (s : CState), budSs3 ss ≤ d → FnInv lnames np m root s →
      wfBody isFn n m s.consts.size ss = true →
      ∃ s', Steps (compileStmts d (toAstSs3 names lnames ctab ss)) s () s' ∧
        FnInv lnames np (m + ndefs ss) root s' ∧
        s'.insts = s.insts ++ (encodeIns3 (F3.compSs 0 0 s.insts.size ss)).toArray ∧
        s'.consts = s.consts ++ (litsK K s.consts.size (nlitsSs3 ss)).toArray ∧ s'.saved = s.saved
  | .nil, d, m, s, hd, hinv, hw => by
    cases d with
    | zero => simp [budSs3] at hd
    | succ d =>
      refine ⟨s, ?_, by simpa [ndefs] using hinv, by simp [F3.compSs], by simp [nlitsSs3, litsK_zero], rfl⟩
      simp only [toAstSs3, compileStmts.eq_2]
      exact Steps.pure () s
  | .cons st ss, d, m, s, hd, hinv, hw => by
    cases d with
    | zero => simp [budSs3] at hd
    | succ d =>
      simp only [budSs3] at hd
      simp only [toAstSs3, compileStmts.eq_3]
      rcases isDefl_cases st with ⟨i, e, rfl⟩ | hnd
      · rw [wfBody_defl] at hw
        simp only [Bool.and_eq_true, beq_iff_eq] at hw
        obtain ⟨⟨rfl, hwe⟩, hws⟩ := hw
        obtain ⟨s1, hs1, hinv1, hi1, hc1, hsv1⟩ := deflOK hN hK hr e d s (by simp only [budS3] at hd; omega) hinv hwe
        have hsz1 : s1.consts.size = s.consts.size + nlitsE3 e := by rw [hc1]; simp [litsK_length]
        have hiz1 : s1.insts.size = s.insts.size + F3.ssize (.defl i e) := by
          rw [hi1]; simp [encodeIns3_length, F3.csize_compS]
        obtain ⟨s2, hs2, hinv2, hi2, hc2, hsv2⟩ := bodyOK hN hK hr ss d (i + 1) s1 (by omega) hinv1
          (by rw [hsz1]; exact hws)
        refine ⟨s2, Steps.bind hs1 hs2, ?_, ?_, ?_, by rw [hsv2, hsv1]⟩
        · rw [ndefs_defl]
          have e1 : i + (ndefs ss + 1) = i + 1 + ndefs ss := by omega
          rw [e1]; exact hinv2
        · rw [hi2, hiz1, hi1]
          simp [F3.compSs, encodeIns3_append]
        · rw [hc2, hsz1, hc1]
          simp [nlitsSs3, nlitsS3, litsK_add]
      · rw [wfBody_other _ _ _ _ _ _ hnd] at hw
        simp only [Bool.and_eq_true] at hw
        obtain ⟨hw1, hw2⟩ := hw
        have hl := hinv.loops
        have h1 := stmtOK3 (names := names) (lnames := lnames) (ctab := ctab) (isFn := isFn) (K := K) (n := n)
          (m := m) hK true st d s (by omega) (hinv.ctx hN hr) (by rw [hl]; exact hw1)
        rw [addJ_of_nil3 hl] at h1
        have hinv1 : FnInv lnames np m root
            (app s (encodeIns3 (F3.compS 0 0 s.insts.size st)) (litsK K s.consts.size (nlitsS3 st))) :=
          hinv.of_eq rfl rfl rfl rfl
        obtain ⟨s2, hs2, hinv2, hi2, hc2, hsv2⟩ := bodyOK hN hK hr ss d m _ (by omega) hinv1
          (by simpa [litsK_length] using hw2)
        refine ⟨s2, Steps.bind h1 hs2, ?_, ?_, ?_, by rw [hsv2]; rfl⟩
        · rw [ndefs_other _ _ hnd]; exact hinv2
        · rw [hi2]
          simp [app, F3.compSs, encodeIns3_append, encodeIns3_length, F3.csize_compS]
        · rw [hc2]
          simp [app, nlitsSs3, litsK_add, litsK_length]

end

end Tengo.Proofs.C01BridgeF3Comp

import Tengo.Model.Scanner
import Tengo.Proofs.C04Scan
/-!
C20, byte level, part 1: the scanner model on ASCII text.

* `decodeAt_ascii`: bytes 1…127 decode to one character each, without `next()` errors.
* `scanLoop_tok` / `scanLoop_skip`: one `Scan()` step of `scanLoop` as an equation, when the step reports no error.
* `scanLoop_space`, `scanLoop_op`, `scanLoop_word`: the step for a blank, for each operator / delimiter of the
  expression fragment (maximal munch: the hypothesis on the next rune says that it cannot extend the operator),
  and for identifiers / keywords (the next rune is not an identifier character).

The scanner model has no fuel (well-founded on `2 * characters + insertSemi`), so no fuel bound appears.
-/
namespace Tengo.Proofs.C20BytesScan
open Tengo.Model.Token Tengo.Model.Scanner Tengo.Proofs.C04Scan

/-- The character an ASCII byte decodes to. -/
def ch (b : UInt8) : Ch := ⟨b.toNat, [b], none⟩

def chs (bs : Bs) : List Ch := bs.map ch

@[simp] theorem ch_r (b : UInt8) : (ch b).r = b.toNat := rfl
@[simp] theorem ch_bytes (b : UInt8) : (ch b).bytes = [b] := rfl
@[simp] theorem ch_err (b : UInt8) : (ch b).err = none := rfl
@[simp] theorem chs_nil : chs [] = [] := rfl
@[simp] theorem chs_cons (b : UInt8) (bs : Bs) : chs (b :: bs) = ch b :: chs bs := rfl
theorem chs_append (a b : Bs) : chs (a ++ b) = chs a ++ chs b := by simp [chs]
@[simp] theorem chs_length (bs : Bs) : (chs bs).length = bs.length := by simp [chs]

/-- Bytes 1…127. -/
def isAscii (b : UInt8) : Bool := 0 < b.toNat && b.toNat < 128
def Ascii (bs : Bs) : Prop := ∀ b ∈ bs, isAscii b = true

theorem decodeAt_ascii (bs : Bs) : ∀ off, Ascii bs → decodeAt off bs = chs bs := by
  induction bs with
  | nil => intro off _; rw [decodeAt]; rfl
  | cons b rest ih =>
    intro off h
    have hb := h b List.mem_cons_self
    simp only [isAscii, Bool.and_eq_true, decide_eq_true_eq] at hb
    have hr : decodeRune b rest = (b.toNat, 1) := by
      unfold decodeRune
      simp [hb.2]
    rw [decodeAt]
    simp only [hr, Nat.sub_self, List.take_zero, List.drop_zero]
    rw [ih (off + 1) (fun x hx => h x (List.mem_cons_of_mem _ hx))]
    have he : nextErr off b.toNat 1 = none := by
      have h0 : b.toNat ≠ 0 := by omega
      have h1 : b.toNat ≠ runeError := by simp only [runeError]; omega
      have h2 : b.toNat ≠ bomR := by simp only [bomR]; omega
      simp [nextErr, h0, h1, h2]
    simp [he, ch]

/-- No character carries a `next()` error. -/
def Clean (cs : List Ch) : Prop := ∀ c ∈ cs, c.err = none

theorem clean_nil : Clean [] := fun _ h => by simp at h
theorem clean_chs (bs : Bs) : Clean (chs bs) := by
  intro c hc
  simp only [chs, List.mem_map] at hc
  obtain ⟨b, _, rfl⟩ := hc
  rfl
theorem clean_append {a b : List Ch} (ha : Clean a) (hb : Clean b) : Clean (a ++ b) := by
  intro c hc
  rcases List.mem_append.mp hc with h | h
  · exact ha c h
  · exact hb c h
theorem clean_tail {c : Ch} {cs : List Ch} (h : Clean (c :: cs)) : Clean cs :=
  fun x hx => h x (List.mem_cons_of_mem _ hx)
theorem clean_drop {cs : List Ch} (n : Nat) (h : Clean cs) : Clean (cs.drop n) :=
  fun x hx => h x (List.mem_of_mem_drop hx)

theorem charEvents_clean (k off n : Nat) (cs : List Ch) (h : Clean cs) : charEvents k off n cs = [] := by
  induction cs generalizing k off n with
  | nil => cases n <;> simp [charEvents]
  | cons c cs ih =>
    cases n with
    | zero => simp [charEvents]
    | succ n =>
      have hc := h c List.mem_cons_self
      simp only [charEvents, hc]
      exact ih _ _ _ (clean_tail h)

theorem stepErrs_clean (off : Nat) (c : Ch) (cs : List Ch) (st : Step) (h : Clean cs) (he : st.errs = []) :
    stepErrs off c cs st = [] := by
  simp [stepErrs, he, charEvents_clean _ _ _ _ h]

/-- One step of `scanLoop` that yields a token and reports nothing. -/
theorem scanLoop_tok (cls : Nat → Nat) (c : Ch) (rest : List Ch) (off : Nat) (ins : Bool)
    (t : Tok) (lit : Bs) (m : Nat) (ins' : Bool)
    (hcm : atComment c rest = false) (hclean : Clean rest)
    (hst : scan1 cls ins c rest = { m := m, tok := some (t, lit), ins := ins', errs := [] }) :
    scanLoop cls (c :: rest) off ins =
      { toks := ⟨t, lit, off⟩ :: (scanLoop cls (rest.drop m) (off + width (c :: rest.take m)) ins').toks,
        errs := (scanLoop cls (rest.drop m) (off + width (c :: rest.take m)) ins').errs } := by
  rw [scanLoop]
  simp only [hcm, Bool.false_eq_true, and_false, dite_false, hst]
  rw [stepErrs_clean off c rest _ hclean rfl]
  simp

/-- One step of `scanLoop` that yields no token (white space). -/
theorem scanLoop_skip (cls : Nat → Nat) (c : Ch) (rest : List Ch) (off : Nat) (ins : Bool)
    (m : Nat) (ins' : Bool)
    (hcm : atComment c rest = false) (hclean : Clean rest)
    (hst : scan1 cls ins c rest = { m := m, tok := none, ins := ins', errs := [] }) :
    scanLoop cls (c :: rest) off ins =
      scanLoop cls (rest.drop m) (off + width (c :: rest.take m)) ins' := by
  rw [scanLoop]
  simp only [hcm, Bool.false_eq_true, and_false, dite_false, hst]
  rw [stepErrs_clean off c rest _ hclean rfl]
  simp

theorem width_chs (bs : Bs) : width (chs bs) = bs.length := by
  induction bs with
  | nil => rfl
  | cons b bs ih => rw [chs_cons, width_cons, ih]; simp; omega

/-- A blank is skipped and keeps the `insertSemi` flag. -/
theorem scanLoop_space (cls : Nat → Nat) (rest : List Ch) (off : Nat) (ins : Bool) (hclean : Clean rest) :
    scanLoop cls (ch 32 :: rest) off ins = scanLoop cls rest (off + 1) ins := by
  have h := scanLoop_skip cls (ch 32) rest off ins 0 ins (by simp [atComment]) hclean
    (by simp [scan1, scanR])
  simpa [width_cons] using h


/-! ### Operators and delimiters of the expression fragment -/

/-- The 19 binary operators, `!`, parentheses, `?` and `:`. -/
def fragOp : Tok → Bool
  | .Add | .Sub | .Mul | .Quo | .Rem | .And | .Or | .Xor | .Shl | .Shr | .AndNot
  | .LAnd | .LOr | .Equal | .Less | .Greater | .Not | .NotEqual | .LessEq | .GreaterEq
  | .LParen | .RParen | .Question | .Colon => true
  | _ => false

/-- Spelling of the fragment's operators as numerals. -/
def opBytes : Tok → Bs
  | .Add => [43] | .Sub => [45] | .Mul => [42] | .Quo => [47] | .Rem => [37] | .And => [38] | .Or => [124]
  | .Xor => [94] | .Shl => [60, 60] | .Shr => [62, 62] | .AndNot => [38, 94] | .LAnd => [38, 38]
  | .LOr => [124, 124] | .Equal => [61, 61] | .Less => [60] | .Greater => [62] | .Not => [33]
  | .NotEqual => [33, 61] | .LessEq => [60, 61] | .GreaterEq => [62, 61]
  | .LParen => [40] | .RParen => [41] | .Question => [63] | .Colon => [58]
  | _ => []

theorem opBytes_eq (t : Tok) (h : fragOp t = true) : t.bytes = opBytes t := by
  cases t <;> first | (exact absurd h (by decide)) | decide

/-- **Maximal munch.** `fuses t r`: the scanner, having read the spelling of `t`, would go on and produce a
longer operator (or a comment) when the next rune is `r`. Exactly the look-ahead tests of `Scan()`. -/
def fuses : Tok → Nat → Bool
  | .Add, r => r == 61 || r == 43            -- += ++
  | .Sub, r => r == 61 || r == 45            -- -= --
  | .Mul, r => r == 61                       -- *=
  | .Quo, r => r == 61 || r == 47 || r == 42 -- /= // /*
  | .Rem, r => r == 61                       -- %=
  | .And, r => r == 61 || r == 38 || r == 94 -- &= && &^
  | .Or, r => r == 61 || r == 124            -- |= ||
  | .Xor, r => r == 61                       -- ^=
  | .Shl, r => r == 61                       -- <<=
  | .Shr, r => r == 61                       -- >>=
  | .AndNot, r => r == 61                    -- &^=
  | .Less, r => r == 61 || r == 60           -- <= <<
  | .Greater, r => r == 61 || r == 62        -- >= >>
  | .Not, r => r == 61                       -- !=
  | .Colon, r => r == 61                     -- :=
  | _, _ => false

theorem cur_chs_append (b : UInt8) (bs : Bs) (cs : List Ch) : cur (chs (b :: bs) ++ cs) = b.toNat := rfl
theorem cur_cons (c : Ch) (cs : List Ch) : cur (c :: cs) = c.r := rfl

/-- One `Scan()` on the spelling of a fragment operator followed by a rune that does not fuse. -/
theorem scan1_op (cls : Nat → Nat) (ins : Bool) (t : Tok) (hop : fragOp t = true) (cs : List Ch)
    (hf : fuses t (cur cs) = false) :
    scan1 cls ins (ch ((opBytes t).headD 0)) (chs (opBytes t).tail ++ cs) =
      { m := (opBytes t).tail.length, tok := some (t, []), ins := (t == .RParen), errs := [] } ∧
    atComment (ch ((opBytes t).headD 0)) (chs (opBytes t).tail ++ cs) = false := by
  cases t <;> first
    | (exact absurd hop (by decide))
    | (simp only [fuses, Bool.or_eq_false_iff, beq_eq_false_iff_ne] at hf
       simp [opBytes, scan1, scanR, atComment, isLetter, isAsciiLetter, isDec, op, switch2, switch3, switch4,
         cur_cons, hf]
       all_goals decide)


theorem opBytes_cons (t : Tok) (h : fragOp t = true) : opBytes t = (opBytes t).headD 0 :: (opBytes t).tail := by
  cases t <;> first | (exact absurd h (by decide)) | rfl

theorem take_chs_append (bs : Bs) (cs : List Ch) : (chs bs ++ cs).take bs.length = chs bs :=
  List.take_left' (by simp)
theorem drop_chs_append (bs : Bs) (cs : List Ch) : (chs bs ++ cs).drop bs.length = cs :=
  List.drop_left' (by simp)

/-- **Operator step.** On the spelling of an operator of the fragment followed by characters whose first rune
does not fuse with it, `Scan()` returns exactly that operator (literal empty, offset = current offset),
consumes exactly its spelling and sets `insertSemi` iff the token is `)`. -/
theorem scanLoop_op (cls : Nat → Nat) (t : Tok) (hop : fragOp t = true) (cs : List Ch) (off : Nat) (ins : Bool)
    (hcl : Clean cs) (hf : fuses t (cur cs) = false) :
    scanLoop cls (chs t.bytes ++ cs) off ins =
      { toks := ⟨t, [], off⟩ :: (scanLoop cls cs (off + t.bytes.length) (t == .RParen)).toks,
        errs := (scanLoop cls cs (off + t.bytes.length) (t == .RParen)).errs } := by
  obtain ⟨h1, h2⟩ := scan1_op cls ins t hop cs hf
  rw [opBytes_eq t hop, opBytes_cons t hop, chs_cons, List.cons_append]
  rw [scanLoop_tok cls _ _ off ins t [] _ _ h2 (clean_append (clean_chs _) hcl) h1]
  rw [take_chs_append, drop_chs_append, ← chs_cons, width_chs]

/-! ### Identifiers and keywords -/

def isWordByte (b : UInt8) : Bool := isAsciiLetter b.toNat || isDec b.toNat

/-- An ASCII identifier spelling: a letter or `_`, then letters, digits, `_`. -/
def wordOk : Bs → Bool
  | [] => false
  | b :: bs => isAsciiLetter b.toNat && bs.all isWordByte

/-- The next rune ends an identifier for every unicode classification: an ASCII non-identifier character, or
the end of input. -/
def identStop (r : Nat) : Bool := !(isAsciiLetter r || isDec r) && (r < 128 || r == eofR)

theorem identStop_not (cls : Nat → Nat) (r : Nat) (h : identStop r = true) :
    (isLetter cls r || isDigit cls r) = false := by
  simp only [identStop, Bool.and_eq_true, Bool.not_eq_true', Bool.or_eq_false_iff, Bool.or_eq_true,
    decide_eq_true_eq, beq_iff_eq] at h
  obtain ⟨⟨h1, h2⟩, h3⟩ := h
  have h4 : (r ≥ 128 && r < eofR) = false := by
    rcases h3 with h3 | h3
    · simp; omega
    · simp [h3]
  simp only [isDec] at h2
  simp [isLetter, isDigit, h1, h2, h4]

theorem identLen_word (cls : Nat → Nat) (bs : Bs) (cs : List Ch) (hb : bs.all isWordByte = true)
    (hs : identStop (cur cs) = true) : identLen cls (chs bs ++ cs) = bs.length := by
  induction bs with
  | nil =>
    cases cs with
    | nil => rfl
    | cons c cs =>
      have := identStop_not cls c.r hs
      simp only [chs_nil, List.nil_append, identLen, List.length_nil]
      rw [this]; rfl
  | cons b bs ih =>
    simp only [List.all_cons, Bool.and_eq_true] at hb
    have hw : (isLetter cls b.toNat || isDigit cls b.toNat) = true := by
      have := hb.1
      simp only [isWordByte, Bool.or_eq_true] at this
      rcases this with h | h
      · simp [isLetter, h]
      · simp only [isDec] at h
        simp [isDigit, h]
    simp only [chs_cons, List.cons_append, identLen, ch_r, hw, if_true, ih hb.2, List.length_cons]

theorem litOf_chs (bs : Bs) : litOf (chs bs) = bs := by
  induction bs with
  | nil => rfl
  | cons b bs ih =>
    simp only [litOf] at ih
    simp [litOf, ih]

theorem letter_ge {r : Nat} (h : isAsciiLetter r = true) : 65 ≤ r := by
  simp only [isAsciiLetter, Bool.or_eq_true, Bool.and_eq_true, decide_eq_true_eq, beq_iff_eq] at h
  omega

/-- **Word step.** On an ASCII identifier spelling followed by a rune that is not an identifier character the
scanner returns `token.Lookup(name)` (identifier or keyword) with the spelling as literal. -/
theorem scanLoop_word (cls : Nat → Nat) (name : Bs) (hw : wordOk name = true) (cs : List Ch) (off : Nat) (ins : Bool)
    (hcl : Clean cs) (hs : identStop (cur cs) = true) :
    scanLoop cls (chs name ++ cs) off ins =
      { toks := ⟨Tok.lookup name, name, off⟩ ::
          (scanLoop cls cs (off + name.length) (identSemi (Tok.lookup name))).toks,
        errs := (scanLoop cls cs (off + name.length) (identSemi (Tok.lookup name))).errs } := by
  cases name with
  | nil => simp [wordOk] at hw
  | cons b bs =>
    simp only [wordOk, Bool.and_eq_true] at hw
    have hge := letter_ge hw.1
    have hl : isLetter cls b.toNat = true := by simp [isLetter, hw.1]
    have hn := identLen_word cls bs cs hw.2 hs
    have hst : scan1 cls ins (ch b) (chs bs ++ cs) =
        { m := bs.length, tok := some (Tok.lookup (b :: bs), b :: bs), ins := identSemi (Tok.lookup (b :: bs)),
          errs := [] } := by
      have h32 : b.toNat ≠ 32 := by omega
      have h9 : b.toNat ≠ 9 := by omega
      have h13 : b.toNat ≠ 13 := by omega
      have h10 : b.toNat ≠ 10 := by omega
      have hlit : litOf (ch b :: chs bs) = b :: bs := litOf_chs (b :: bs)
      simp [scan1, scanR, h32, h9, h13, h10, hl, hn, hlit]
    have hcm : atComment (ch b) (chs bs ++ cs) = false := by
      have : b.toNat ≠ 47 := by omega
      simp [atComment, this]
    rw [chs_cons, List.cons_append]
    rw [scanLoop_tok cls _ _ off ins _ _ _ _ hcm (clean_append (clean_chs _) hcl) hst]
    rw [take_chs_append, drop_chs_append, ← chs_cons, width_chs]

end Tengo.Proofs.C20BytesScan

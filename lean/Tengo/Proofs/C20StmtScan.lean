import Tengo.Proofs.C20Bytes2Stream
/-!
C20 — statements, byte level, part 1: the scanner steps for the operators of statements (`=` `:=` the eleven `op=`,
`++` `--`) and for the explicit `;`.
-/
namespace Tengo.Proofs.C20StmtScan
open Tengo.Model.Token Tengo.Model.Scanner
open Tengo.Proofs.C20BytesScan Tengo.Proofs.C20Bytes2Scan Tengo.Proofs.C20Bytes2Stream
open Tengo.Proofs.C20BytesStream (endToks scan_ascii)

/-- The operators of simple statements. -/
def stmtOp : Tok → Bool
  | .Assign | .Define | .AddAssign | .SubAssign | .MulAssign | .QuoAssign | .RemAssign | .AndAssign | .OrAssign
  | .XorAssign | .ShlAssign | .ShrAssign | .AndNotAssign | .Inc | .Dec => true
  | _ => false

def opBytes3 : Tok → Bs
  | .Assign => [61] | .Define => [58, 61] | .AddAssign => [43, 61] | .SubAssign => [45, 61] | .MulAssign => [42, 61]
  | .QuoAssign => [47, 61] | .RemAssign => [37, 61] | .AndAssign => [38, 61] | .OrAssign => [124, 61]
  | .XorAssign => [94, 61] | .ShlAssign => [60, 60, 61] | .ShrAssign => [62, 62, 61] | .AndNotAssign => [38, 94, 61]
  | .Inc => [43, 43] | .Dec => [45, 45]
  | _ => []

theorem opBytes3_eq (t : Tok) (h : stmtOp t = true) : t.bytes = opBytes3 t := by
  cases t <;> first | (exact absurd h (by decide)) | decide

/-- Only `=` can grow (to `==`). -/
def fuses3 (t : Tok) (r : Nat) : Bool := t == .Assign && r == 61

/-- `insertSemi` after the operator: set by `++` and `--`. -/
def insOp3 (t : Tok) : Bool := t == .Inc || t == .Dec

theorem scan1_op3 (cls : Nat → Nat) (ins : Bool) (t : Tok) (hop : stmtOp t = true) (cs : List Ch)
    (hf : fuses3 t (cur cs) = false) :
    scan1 cls ins (ch ((opBytes3 t).headD 0)) (chs (opBytes3 t).tail ++ cs) =
      { m := (opBytes3 t).tail.length, tok := some (t, []), ins := insOp3 t, errs := [] } ∧
    atComment (ch ((opBytes3 t).headD 0)) (chs (opBytes3 t).tail ++ cs) = false := by
  have hf' : t = .Assign → cur cs ≠ 61 := by
    intro ht
    subst ht
    simpa [fuses3] using hf
  cases t <;> first
    | (exact absurd hop (by decide))
    | (simp [opBytes3, insOp3, scan1, scanR, atComment, isLetter, isAsciiLetter, isDec, op, switch2, switch3, switch4,
         cur_cons, hf']
       all_goals decide)

theorem opBytes3_cons (t : Tok) (h : stmtOp t = true) : opBytes3 t = (opBytes3 t).headD 0 :: (opBytes3 t).tail := by
  cases t <;> first | (exact absurd h (by decide)) | rfl

/-- **Statement operator step.** -/
theorem scanLoop_op3 (cls : Nat → Nat) (t : Tok) (hop : stmtOp t = true) (bs : Bs) (off : Nat) (ins : Bool)
    (hf : fuses3 t (cur (chs bs)) = false) :
    scanLoop cls (chs t.bytes ++ chs bs) off ins =
      { toks := ⟨t, [], off⟩ :: (scanLoop cls (chs bs) (off + t.bytes.length) (insOp3 t)).toks,
        errs := (scanLoop cls (chs bs) (off + t.bytes.length) (insOp3 t)).errs } := by
  obtain ⟨h1, h2⟩ := scan1_op3 cls ins t hop (chs bs) hf
  rw [opBytes3_eq t hop, opBytes3_cons t hop, chs_cons, List.cons_append]
  rw [scanLoop_tok cls _ _ off ins t [] _ _ h2 (clean_append (clean_chs _) (clean_chs bs)) h1]
  rw [take_chs_append, drop_chs_append, ← chs_cons, width_chs]

/-- **The explicit `;`**: token Semicolon with literal ";", `insertSemi` cleared. -/
theorem scanLoop_semi (cls : Nat → Nat) (bs : Bs) (off : Nat) (ins : Bool) :
    scanLoop cls (chs [59] ++ chs bs) off ins =
      { toks := ⟨.Semicolon, [59], off⟩ :: (scanLoop cls (chs bs) (off + 1) false).toks,
        errs := (scanLoop cls (chs bs) (off + 1) false).errs } := by
  have h1 : scan1 cls ins (ch 59) (chs bs) = { m := 0, tok := some (.Semicolon, [59]), ins := false, errs := [] } := by
    simp [scan1, scanR, isLetter, isAsciiLetter, isDec]
  have h2 : atComment (ch 59) (chs bs) = false := by simp [atComment]
  rw [chs_cons, chs_nil, List.cons_append, List.nil_append]
  rw [scanLoop_tok cls _ _ off ins .Semicolon [59] _ _ h2 (clean_chs bs) h1]
  simp [width]

/-! ### Streams with statement operators and `;` -/

def isSemiItem : Item2 → Bool
  | .lit .Semicolon x => x == [59]
  | _ => false

def isStmtOpItem : Item2 → Bool
  | .op t => stmtOp t
  | _ => false

/-- Items of a printed statement list: those of the expression alphabet, the statement operators, `;`. -/
def ok3 (i : Item2) : Bool := i.ok || isStmtOpItem i || isSemiItem i

def sepOk3 (i : Item2) (r : Nat) : Bool :=
  match i with
  | .op t => if stmtOp t then !fuses3 t r else i.sepOk r
  | _ => i.sepOk r

def insAfter3 (i : Item2) : Bool :=
  match i with
  | .op t => if stmtOp t then insOp3 t else i.insAfter
  | .lit k _ => if k == .Semicolon then false else i.insAfter
  | _ => i.insAfter

def StreamOk3 : List El2 → Nat → Prop
  | [], _ => True
  | .sp :: r, e => StreamOk3 r e
  | .it i :: r, e => ok3 i = true ∧ sepOk3 i (firstR2 r e) = true ∧ StreamOk3 r e

def lastIns3 : Bool → List El2 → Bool
  | ins, [] => ins
  | ins, .sp :: r => lastIns3 ins r
  | _, .it i :: r => lastIns3 (insAfter3 i) r

theorem frag_not_stmt (t : Tok) (h : fragOp2 t = true) : stmtOp t = false := by
  cases t <;> first | rfl | (exact absurd h (by decide))

/-- On the items of the expression alphabet nothing changes. -/
theorem ok_same (i : Item2) (h : i.ok = true) : (∀ r, sepOk3 i r = i.sepOk r) ∧ insAfter3 i = i.insAfter := by
  cases i with
  | op t =>
    have := frag_not_stmt t h
    simp [sepOk3, insAfter3, this]
  | word n => simp [sepOk3, insAfter3]
  | lit k x =>
    simp only [Item2.ok, Item2.litOk, Bool.or_eq_true, Bool.and_eq_true, beq_iff_eq] at h
    rcases h with ((⟨rfl, h⟩ | ⟨rfl, h⟩) | ⟨rfl, h⟩) | ⟨rfl, h⟩ <;> simp [sepOk3, insAfter3]

theorem scan_item3 (cls : Nat → Nat) (i : Item2) (hi : ok3 i = true) (bs : Bs) (off : Nat) (ins : Bool)
    (hs : sepOk3 i (cur (chs bs)) = true) :
    scanLoop cls (chs i.text ++ chs bs) off ins =
      { toks := ⟨i.tok, i.lit', off⟩ :: (scanLoop cls (chs bs) (off + i.text.length) (insAfter3 i)).toks,
        errs := (scanLoop cls (chs bs) (off + i.text.length) (insAfter3 i)).errs } := by
  simp only [ok3, Bool.or_eq_true] at hi
  rcases hi with (hi | hi) | hi
  · obtain ⟨h1, h2⟩ := ok_same i hi
    rw [h1] at hs
    rw [h2]
    exact scan_item cls i hi bs off ins hs
  · cases i with
    | op t =>
      simp only [isStmtOpItem] at hi
      simp only [sepOk3, hi, if_true, Bool.not_eq_true'] at hs
      simp only [insAfter3, hi, if_true]
      exact scanLoop_op3 cls t hi bs off ins hs
    | word n => simp [isStmtOpItem] at hi
    | lit k x => simp [isStmtOpItem] at hi
  · cases i with
    | op t => simp [isSemiItem] at hi
    | word n => simp [isSemiItem] at hi
    | lit k x =>
      cases k <;> simp only [isSemiItem, beq_iff_eq] at hi <;> first | (exact absurd hi (by simp)) | skip
      subst hi
      exact scanLoop_semi cls bs off ins

theorem streamOk3_append (a b : List El2) (e : Nat) :
    StreamOk3 (a ++ b) e ↔ StreamOk3 a (firstR2 b e) ∧ StreamOk3 b e := by
  induction a with
  | nil => simp [StreamOk3]
  | cons x a ih =>
    cases x with
    | sp => simpa [StreamOk3] using ih
    | it i => simp only [List.cons_append, StreamOk3, firstR2_append, ih, and_assoc]

theorem lastIns3_append (a b : List El2) (ins : Bool) : lastIns3 ins (a ++ b) = lastIns3 (lastIns3 ins a) b := by
  induction a generalizing ins with
  | nil => rfl
  | cons x a ih => cases x <;> simp [lastIns3, ih]

theorem streamOk_23 (els : List El2) (e : Nat) (h : StreamOk2 els e) : StreamOk3 els e := by
  induction els with
  | nil => trivial
  | cons x r ih =>
    cases x with
    | sp => exact ih h
    | it i =>
      obtain ⟨h1, h2, h3⟩ := h
      refine ⟨by simp [ok3, h1], ?_, ih h3⟩
      rw [(ok_same i h1).1]; exact h2

theorem lastIns_23 (els : List El2) (e : Nat) (h : StreamOk2 els e) (ins : Bool) :
    lastIns3 ins els = lastIns2 ins els := by
  induction els generalizing ins with
  | nil => rfl
  | cons x r ih =>
    cases x with
    | sp => exact ih h ins
    | it i =>
      obtain ⟨h1, -, h3⟩ := h
      simp only [lastIns3, lastIns2, (ok_same i h1).2]
      exact ih h3 _

/-- **Scanner on a printed statement stream.** -/
theorem scan_stream3 (cls : Nat → Nat) (els : List El2) :
    ∀ (off : Nat) (ins : Bool) (bs : Bs), StreamOk3 els (cur (chs bs)) →
      scanLoop cls (chs (render2 els ++ bs)) off ins =
        { toks := place2 off els ++ (scanLoop cls (chs bs) (off + (render2 els).length) (lastIns3 ins els)).toks,
          errs := (scanLoop cls (chs bs) (off + (render2 els).length) (lastIns3 ins els)).errs } := by
  induction els with
  | nil => intro off ins bs _; simp [render2, place2, lastIns3]
  | cons x r ih =>
    intro off ins bs hok
    cases x with
    | sp =>
      simp only [render2, List.cons_append, chs_cons, place2, lastIns3, List.length_cons]
      rw [scanLoop_space cls _ off ins (clean_chs _), ih (off + 1) ins bs hok]
      have : off + 1 + (render2 r).length = off + ((render2 r).length + 1) := by omega
      rw [this]
    | it i =>
      obtain ⟨hi, hsep, hr⟩ := hok
      rw [← cur_render2] at hsep
      simp only [render2, List.append_assoc, place2, lastIns3, List.length_append]
      rw [chs_append, scan_item3 cls i hi _ off ins hsep, ih _ _ bs hr]
      simp only [Nat.add_assoc, List.cons_append]

theorem ascii_item3 (i : Item2) (hi : ok3 i = true) : Ascii i.text := by
  simp only [ok3, Bool.or_eq_true] at hi
  rcases hi with (hi | hi) | hi
  · exact ascii_item i hi
  · cases i with
    | op t =>
      simp only [isStmtOpItem] at hi
      simp only [Item2.text]
      cases t <;> first | (exact absurd hi (by decide)) | (intro b hb; revert b; decide)
    | word n => simp [isStmtOpItem] at hi
    | lit k x => simp [isStmtOpItem] at hi
  · cases i with
    | op t => simp [isSemiItem] at hi
    | word n => simp [isSemiItem] at hi
    | lit k x =>
      cases k <;> simp only [isSemiItem, beq_iff_eq] at hi <;> first | (exact absurd hi (by simp)) | skip
      subst hi
      intro b hb
      simp only [Item2.text, List.mem_singleton] at hb
      subst hb
      decide

theorem ascii_render3 (els : List El2) (e : Nat) (h : StreamOk3 els e) : Ascii (render2 els) := by
  induction els with
  | nil => intro b hb; simp [render2] at hb
  | cons x r ih =>
    cases x with
    | sp =>
      intro b hb
      simp only [render2, List.mem_cons] at hb
      rcases hb with rfl | hb
      · decide
      · exact ih h b hb
    | it i =>
      obtain ⟨hi, _, hr⟩ := h
      intro b hb
      simp only [render2, List.mem_append] at hb
      rcases hb with hb | hb
      · exact ascii_item3 i hi b hb
      · exact ih hr b hb

/-- **scan_print_tokens3.** `scan_print_tokens2` for streams that may also contain the statement operators and `;`. -/
theorem scan_print_tokens3 (cls : Nat → Nat) (els : List El2) (h : StreamOk3 els eofR) :
    (scan cls (render2 els)).toks = place2 0 els ++ endToks (render2 els).length (lastIns3 false els) ∧
    (scan cls (render2 els)).errs = [] := by
  obtain ⟨h1, h2⟩ := scan_ascii cls (render2 els) (ascii_render3 els eofR h)
  have hs := scan_stream3 cls els 0 false [] h
  simp only [List.append_nil, Nat.zero_add] at hs
  rw [h1, h2, hs]
  simp only
  rw [chs_nil, scanLoop]
  cases lastIns3 false els <;> simp [endToks]

end Tengo.Proofs.C20StmtScan

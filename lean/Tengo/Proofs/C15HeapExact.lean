import Tengo.Proofs.C15HeapInv
/-!
C15 (heap model): refinement under the exact side condition `safeOpsG` (exclusive ownership at the time of an
in-place update; no Compile of a Script whose Add-time objects were updated in place). The abstraction reads
the objects of Scripts through the ghost snapshot `fz` (= `dirty`): an object updated in place through a
Compile-made handle keeps, in the Script's view, the value it had before — the value given to Add.
-/
namespace Tengo.Proofs.C15Heap
open Tengo.Model.Host hiding execC Host ScriptSt CompiledSt Abs AScript ACompiled
open Tengo.Model.HostHeap
open Tengo.Props.C15 (mapVals hasKey_mapVals setKey_mapVals upsert_mapVals eraseKey_mapVals lookup_mapVals
  keys_mapVals length_mapVals mapVals_congr lookup_mem mem_set SlotsOK VarsOK deref_append deref_new slotOf_ok
  slotsOK_const mem_of_getElem?)

def derefF (fz : List (Nat × TVal)) (st : List TVal) (r : Nat) : TVal :=
  match fz.lookup r with
  | some v => v
  | none => deref st r
def tagF (fz : List (Nat × TVal)) (st : List TVal) (r : Nat) : Obj := (r, derefF fz st r)
def absVarsF (fz : List (Nat × TVal)) (st : List TVal) (vars : List (String × Nat)) : List (String × Obj) :=
  mapVals (tagF fz st) vars
def absScriptF (fz : List (Nat × TVal)) (st : List TVal) (s : ScriptSt) : AScript :=
  { vars := absVarsF fz st s.vars, src := s.src }
def absOfG (h : Host) (fz : List (Nat × TVal)) : Abs :=
  { next := h.store.length, scripts := h.scripts.map (absScriptF fz h.store),
    compiled := h.compiled.map (absCompiled h.store) }

/-- Only existing objects are in the snapshot. -/
def FzOK (n : Nat) (fz : List (Nat × TVal)) : Prop := ∀ r, n ≤ r → fz.lookup r = none

theorem absVarsF_congr (fz fz' : List (Nat × TVal)) (st st' : List TVal) (vars : List (String × Nat))
    (h : ∀ r, VRefs vars r → derefF fz' st' r = derefF fz st r) : absVarsF fz' st' vars = absVarsF fz st vars := by
  apply mapVals_congr
  intro p hp
  simp [tagF, h p.2 ⟨p.1, hp⟩]

theorem absScriptsF_congr (h : Host) (fz fz' : List (Nat × TVal)) (S' : List TVal)
    (hd : ∀ s ∈ h.scripts, ∀ r, VRefs s.vars r → derefF fz' S' r = derefF fz h.store r) :
    h.scripts.map (absScriptF fz' S') = h.scripts.map (absScriptF fz h.store) := by
  apply List.map_congr_left
  intro s hs
  simp only [absScriptF, absVarsF_congr _ _ _ _ _ (hd s hs)]

theorem derefF_append (fz : List (Nat × TVal)) (st ext : List TVal) (r : Nat) (h : r < st.length) :
    derefF fz (st ++ ext) r = derefF fz st r := by
  unfold derefF
  cases fz.lookup r with
  | some v => rfl
  | none => exact deref_append st ext r h

theorem absScriptsF_append (h : Host) (hw : WF h) (fz : List (Nat × TVal)) (ext : List TVal) :
    h.scripts.map (absScriptF fz (h.store ++ ext)) = h.scripts.map (absScriptF fz h.store) :=
  absScriptsF_congr h fz fz _ (fun s hs r hr => derefF_append _ _ _ _ ((varsOK_iff _ _).1 (hw.scripts s hs) r hr))

theorem absVarsF_upsert (fz : List (Nat × TVal)) (S : List TVal) (v : TVal) (n : String) (vars : List (String × Nat))
    (h : VarsOK S.length vars) (hf : fz.lookup S.length = none) :
    absVarsF fz (S ++ [v]) (upsert n S.length vars) = upsert n (S.length, v) (absVarsF fz S vars) := by
  unfold absVarsF
  have ht : tagF fz (S ++ [v]) S.length = (S.length, v) := by simp [tagF, derefF, hf, deref_new]
  rw [← upsert_mapVals (tagF fz (S ++ [v])), ht]
  congr 1
  exact absVarsF_congr _ _ _ _ _ (fun r hr => derefF_append _ _ _ _ ((varsOK_iff _ _).1 h r hr))

/-! ### Calls on a Compiled do not look at the Scripts -/

def compOp : HOp → Bool
  | .set _ _ _ | .run _ | .get _ _ | .getAll _ | .isDefined _ _ | .clone _ => true
  | _ => false

theorem sstep_scripts_irrel (L : Limits) (a : Abs) (X : List AScript) (op : HOp) (hop : compOp op = true) :
    sstep L { a with scripts := X } op = ({ (sstep L a op).1 with scripts := X }, (sstep L a op).2) := by
  cases op with
  | newScript src => simp [compOp] at hop
  | add s n g => simp [compOp] at hop
  | remove s n => simp [compOp] at hop
  | compile s => simp [compOp] at hop
  | set c n g =>
    simp only [sstep]
    cases a.compiled[c]? with
    | none => rfl
    | some cs =>
      simp only
      cases fromInterface L g with
      | error e => rfl
      | ok v => simp only; split <;> rfl
  | run c => simp only [sstep]; cases a.compiled[c]? <;> rfl
  | get c n => simp only [sstep]; cases a.compiled[c]? <;> rfl
  | getAll c => simp only [sstep]; cases a.compiled[c]? <;> rfl
  | isDefined c n => simp only [sstep]; cases a.compiled[c]? <;> rfl
  | clone c => simp only [sstep]; cases a.compiled[c]? <;> rfl

theorem hstep_scripts_same (L : Limits) (h : Host) (op : HOp) (hop : compOp op = true) :
    (hstep L h op).1.scripts = h.scripts := by
  cases op with
  | newScript src => simp [compOp] at hop
  | add s n g => simp [compOp] at hop
  | remove s n => simp [compOp] at hop
  | compile s => simp [compOp] at hop
  | set c n g =>
    simp only [hstep]
    cases h.compiled[c]? with
    | none => rfl
    | some cs =>
      simp only
      cases fromInterface L g with
      | error e => rfl
      | ok v => simp only; split <;> rfl
  | run c => simp only [hstep]; cases h.compiled[c]? <;> rfl
  | get c n => simp only [hstep]; cases h.compiled[c]? <;> rfl
  | getAll c => simp only [hstep]; cases h.compiled[c]? <;> rfl
  | isDefined c n => simp only [hstep]; cases h.compiled[c]? <;> rfl
  | clone c => simp only [hstep]; cases h.compiled[c]? <;> rfl

/-- The Compiled part of the simulation. -/
def HoldC (L : Limits) (h : Host) (op : HOp) : Prop :=
  sstep L { absOf h with scripts := [] } op =
    ({ absOf (hstep L h op).1 with scripts := [] }, (hstep L h op).2)

theorem holdC_of_sim (L : Limits) (h : Host) (op : HOp) (hop : compOp op = true)
    (hold : sstep L (absOf h) op = (absOf (hstep L h op).1, (hstep L h op).2)) : HoldC L h op := by
  unfold HoldC
  rw [sstep_scripts_irrel L _ _ _ hop, hold]

theorem simG_of_holdC (L : Limits) (h : Host) (fz fz' : List (Nat × TVal)) (op : HOp) (hop : compOp op = true)
    (hold : HoldC L h op)
    (hscr : h.scripts.map (absScriptF fz' (hstep L h op).1.store) = h.scripts.map (absScriptF fz h.store)) :
    sstep L (absOfG h fz) op = (absOfG (hstep L h op).1 fz', (hstep L h op).2) := by
  have e : absOfG h fz = { ({ absOf h with scripts := [] } : Abs) with scripts := h.scripts.map (absScriptF fz h.store) } := rfl
  rw [e, sstep_scripts_irrel L _ _ _ hop, hold]
  simp only [absOfG, absOf, hstep_scripts_same L h op hop, hscr]

/-- `Run` through `c`, Compiled part: enough that no other Compiled holds an object the code can update. -/
theorem run_holdC (L : Limits) (h : Host) (c : Nat) (cs : CompiledSt) (hw : WF h) (hs : h.compiled[c]? = some cs)
    (hcond : ∀ j cj, j ≠ c → h.compiled[j]? = some cj → ∀ r, Refs cj.slots r →
      (cs.code.all HStmt.pure = true ∨ ¬ Refs cs.slots r)) : HoldC L h (.run c) := by
  unfold HoldC
  obtain ⟨_, _, _, h4, h5⟩ := exec_sim cs.code h.store cs.slots (hw.compiled cs (mem_of_getElem? hs))
  have hcomp : ∀ x, (h.compiled.map (absCompiled (execC cs.code h.store cs.slots).1)).set c x =
      (h.compiled.map (absCompiled h.store)).set c x := by
    intro x
    apply map_set_congr
    intro j cj hj hcj
    apply absCompiled_congr
    intro r hr
    exact h4 r ((slotsOK_iff _ _).1 (hw.compiled cj (mem_of_getElem? hcj)) r hr) (hcond j cj hj hcj r hr)
  simp only [hstep, hs, sstep, absOf, List.getElem?_map, Option.map_some, List.map_set, absCompiled, h5]
  rw [hcomp]

end Tengo.Proofs.C15Heap

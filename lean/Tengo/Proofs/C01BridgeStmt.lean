import Tengo.Proofs.C01BridgeExpr
/-!
C01 bridge, layer 3 (statements): for every statement (list) of the fragment F1, the compiler model run on
the embedded AST appends exactly the byte encoding of the fragment compiler's `F1.compS` / `F1.compSs`
placed at the current position — block scopes forked and left, `if` / `else` and loop jumps back-patched
to the same absolute targets, loop records pushed and popped — and adds exactly the literals of the
statement to the constant pool (`stmtOK`, `stmtsOK`). Assignments go through the staged re-expression
of `compileAssign` of `Tengo.Proofs.C11RenameAssign`.
-/
set_option linter.unusedVariables false
set_option linter.unusedSimpArgs false
namespace Tengo.Proofs.C01Bridge
open Tengo.Model Tengo.Model.F0 Tengo.Model.Compiler Tengo.Model.Opcodes
open Tengo.Model.Spec (Expr Stmt)
open Tengo.Proofs.C11Rename (asgBody asgResolve asgRhs asgOp asgEmit isFuncLit compileAssign_succ)

theorem isFuncLit_toAstE (names : Nat → String) (ctab : Nat → F0.Const) (e : Ex) :
    isFuncLit (toAstE names ctab e) = false := by
  cases e <;> simp [toAstE, isFuncLit]
  case lit k => cases ctab k <;> simp [litExpr]

/-! ### scopes and loops -/

def setT (s : CState) (t : Chain) : CState := { s with tables := t }
def setL (s : CState) (l : List Loop) : CState := { s with loops := l }

@[simp] theorem setT_insts (s : CState) (t : Chain) : (setT s t).insts = s.insts := rfl
@[simp] theorem setT_consts (s : CState) (t : Chain) : (setT s t).consts = s.consts := rfl
@[simp] theorem setT_tables (s : CState) (t : Chain) : (setT s t).tables = t := rfl
@[simp] theorem setT_loops (s : CState) (t : Chain) : (setT s t).loops = s.loops := rfl
@[simp] theorem setL_insts (s : CState) (l : List Loop) : (setL s l).insts = s.insts := rfl
@[simp] theorem setL_consts (s : CState) (l : List Loop) : (setL s l).consts = s.consts := rfl
@[simp] theorem setL_tables (s : CState) (l : List Loop) : (setL s l).tables = s.tables := rfl
@[simp] theorem setL_loops (s : CState) (l : List Loop) : (setL s l).loops = l := rfl

theorem steps_fork' (s : CState) : Steps (fork true) s () (setT s (blk :: s.tables)) := rfl

theorem steps_unfork_forked (s : CState) (bs : List UInt8) (ks : List Compiler.Const) :
    Steps unfork (app (setT s (blk :: s.tables)) bs ks) () (app s bs ks) := by
  cases s; rfl

theorem steps_enterLoop_at (s : CState) (bs : List UInt8) (ks : List Compiler.Const) :
    Steps enterLoop (app s bs ks) () (app (setL s ({} :: s.loops)) bs ks) := rfl

theorem steps_enterLoop0 (s : CState) :
    Steps enterLoop s () (app (setL s ({} :: s.loops)) [] []) := by
  rw [app_nil]; rfl

theorem steps_leaveLoop_at (s : CState) (bs : List UInt8) (ks : List Compiler.Const) :
    Steps leaveLoop (app (setL s ({} :: s.loops)) bs ks) {} (app s bs ks) := by
  cases s; rfl

theorem steps_patchAll_nil (p : Nat) (s : CState) : Steps (patchAll [] p) s () s := rfl


attribute [local irreducible] emit curPos changeOperand addConstant enterLoop leaveLoop fork unfork
  emitBinary patchAll setAssigned localAssigned emitGet emitIt define resolve cerr
  Compiler.unsupported compileExpr compileExprs compileKVs compileSelsRev compileStmt compileBlock compileStmts

theorem asgEmit_global (nm : String) (i id : Nat) :
    asgEmit "Assign" 0 (some ⟨nm, .global, i, id⟩) = discard (emit opSetGlobal [i]) := rfl

theorem asgOp_assign (d : Nat) (sym : Option Sym) :
    asgOp (d + 1) [] 0 "Assign" sym = (do compileSelsRev (d + 1) []; asgEmit "Assign" 0 sym) := rfl

theorem asgRhs_assign (d : Nat) (l r : Expr) (nm : String) (sym : Option Sym) :
    asgRhs d l r nm [] 0 "Assign" false sym = (do compileExpr d r; asgOp d [] 0 "Assign" sym) := rfl

theorem asgResolve_assign (d : Nat) (l r : Expr) (nm : String) :
    asgResolve d l r nm [] 0 "Assign" false = (do
      let resolved ← resolve nm
      if resolved.isNone then cerr s!"unresolved reference '{nm}'"
      asgRhs d l r nm [] 0 "Assign" false (resolved.map Prod.fst)) := rfl

theorem asgBody_assign (d : Nat) (nm : String) (r : Expr) (hr : isFuncLit r = false) :
    asgBody d [.ident nm] [r] "Assign" = asgResolve d (.ident nm) r nm [] 0 "Assign" false := by
  have h : asgBody d [.ident nm] [r] "Assign" = asgResolve d (.ident nm) r nm [] 0 "Assign" (isFuncLit r) := rfl
  rw [h, hr]

/-! ### unfolding the statement compiler on the embedded forms -/

theorem stmt_expr (d : Nat) (e : Expr) :
    compileStmt (d + 1) (.expr e) = (do compileExpr d e; discard (emit opPop)) := by
  rw [compileStmt.eq_2]

theorem stmt_assign (d : Nat) (nm : String) (r : Expr) (hr : isFuncLit r = false) :
    compileStmt (d + 1 + 1) (.assign "Assign" [.ident nm] [r]) = (do
      let resolved ← resolve nm
      if resolved.isNone then cerr s!"unresolved reference '{nm}'"
      asgRhs d (.ident nm) r nm [] 0 "Assign" false (resolved.map Prod.fst)) := by
  rw [compileStmt.eq_4, compileAssign_succ, asgBody_assign d nm r hr, asgResolve_assign]

theorem stmt_ifs (d : Nat) (c : Expr) (body : List Stmt) :
    compileStmt (d + 1) (.ifs none c body none) = (do
      fork true
      compileExpr d c
      let jumpPos1 ← emit opJumpFalsy [0]
      compileBlock d body
      let p ← curPos
      changeOperand jumpPos1 p
      unfork) := by
  rw [compileStmt.eq_5]

theorem stmt_ifelse (d : Nat) (c : Expr) (body els : List Stmt) :
    compileStmt (d + 1 + 1) (.ifs none c body (some (.block els))) = (do
      fork true
      compileExpr (d + 1) c
      let jumpPos1 ← emit opJumpFalsy [0]
      compileBlock (d + 1) body
      let jumpPos2 ← emit opJump [0]
      let p ← curPos
      changeOperand jumpPos1 p
      compileBlock d els
      let p2 ← curPos
      changeOperand jumpPos2 p2
      unfork) := by
  rw [compileStmt.eq_5]
  simp only [compileStmt.eq_8]

theorem stmt_while (d : Nat) (c : Expr) (body : List Stmt) :
    compileStmt (d + 1) (.fors none (some c) none body) = (do
      fork true
      let preCondPos ← curPos
      compileExpr d c
      let p ← emit opJumpFalsy [0]
      enterLoop
      compileBlock d body
      let loop ← leaveLoop
      let postBodyPos ← curPos
      discard (emit opJump [preCondPos])
      let postStmtPos ← curPos
      changeOperand p postStmtPos
      patchAll loop.breaks postStmtPos
      patchAll loop.continues postBodyPos
      unfork) := by
  rw [compileStmt.eq_6]; rfl

theorem stmt_forever (d : Nat) (body : List Stmt) :
    compileStmt (d + 1) (.fors none none none body) = (do
      fork true
      let preCondPos ← curPos
      enterLoop
      compileBlock d body
      let loop ← leaveLoop
      let postBodyPos ← curPos
      discard (emit opJump [preCondPos])
      let postStmtPos ← curPos
      patchAll loop.breaks postStmtPos
      patchAll loop.continues postBodyPos
      unfork) := by
  rw [compileStmt.eq_6]; rfl


/-! ### statements -/

section
variable (names : Nat → String) (ctab : Nat → F0.Const) (n : Nat)

def StmtOK (st : F1.Stm) : Prop :=
  ∀ (d : Nat) (s : CState), budS st ≤ d → GoodChain names n s.tables → wfS n s.consts.size st = true →
    Steps (compileStmt d (toAstS names ctab st)) s ()
      (app s (encodeIns (F1.compS s.insts.size st)) (lits ctab s.consts.size (nlitsS st)))

def StmtsOK (ss : F1.Stms) : Prop :=
  ∀ (d : Nat) (s : CState), budSs ss ≤ d → GoodChain names n s.tables → wfSs n s.consts.size ss = true →
    Steps (compileStmts d (toAstSs names ctab ss)) s ()
      (app s (encodeIns (F1.compSs s.insts.size ss)) (lits ctab s.consts.size (nlitsSs ss)))

/-- A block, written relative to a base state. -/
def BlockOK (ss : F1.Stms) : Prop :=
  ∀ (d : Nat) (s : CState) (pre : List UInt8) (kpre : List Compiler.Const) (off k : Nat),
    budSs ss + 1 ≤ d → GoodChain names n s.tables → off = s.insts.size + pre.length →
    k = s.consts.size + kpre.length → wfSs n k ss = true →
    Steps (compileBlock d (toAstSs names ctab ss)) (app s pre kpre) ()
      (app s (pre ++ encodeIns (F1.compSs off ss)) (kpre ++ lits ctab k (nlitsSs ss)))

variable {names ctab n}

theorem blockOK_of {ss : F1.Stms} (h : StmtsOK names ctab n ss) : BlockOK names ctab n ss := by
  intro d s pre kpre off k hd hg hoff hk hw
  subst hoff hk
  cases d with
  | zero => omega
  | succ d =>
    cases ss with
    | nil =>
      simp only [toAstSs, compileBlock.eq_2]
      exact (Steps.pure () _).to (by simp [F1.compSs, nlitsSs, lits_zero])
    | cons st ss =>
      rw [toAstSs, compileBlock.eq_3 _ _ (by simp)]
      rw [← toAstSs]
      refine Steps.bind (steps_fork' _) ?_
      have h1 := h d (setT (app s pre kpre) (blk :: (app s pre kpre).tables)) (by omega)
        (by simpa using hg.fork) (by simpa using hw)
      refine Steps.bind h1 ?_
      refine (steps_unfork_forked _ _ _).to ?_
      rw [app_app]
      simp

end


section
variable {names : Nat → String} {ctab : Nat → F0.Const} {n : Nat}

theorem stmtOK_expr (e : Ex) : StmtOK names ctab n (.expr e) := by
  intro d s hd hg hw
  cases d with
  | zero => simp [budS] at hd
  | succ d =>
    simp only [wfS] at hw
    simp only [budS] at hd
    simp only [toAstS, stmt_expr]
    refine steps_one (exprOK e) d s (by omega) hg hw _ _ _ ((steps_emitI .pop _).to ?_)
    rw [app_app]
    exact app_congr s (by simp [F1.compS, encodeIns_append]) (by simp [nlitsS])

theorem stmtOK_assign (i : Nat) (e : Ex) : StmtOK names ctab n (.assign i e) := by
  intro d s hd hg hw
  obtain ⟨d, rfl⟩ : ∃ d', d = d' + 1 + 1 := ⟨d - 2, by simp [budS] at hd; omega⟩
  simp only [wfS, Bool.and_eq_true, decide_eq_true_eq] at hw
  obtain ⟨hi, hwe⟩ := hw
  simp only [budS] at hd
  simp only [toAstS, stmt_assign d _ _ (isFuncLit_toAstE names ctab e)]
  obtain ⟨id, k, hres⟩ := steps_resolve hg hi
  refine Steps.bind hres ?_
  simp only [Option.isNone_some, Bool.false_eq_true, ↓reduceIte, Option.map_some, asgRhs_assign]
  obtain ⟨d, rfl⟩ : ∃ d', d = d' + 1 := ⟨d - 1, by have := budE_pos e; omega⟩
  rw [asgOp_assign, compileSelsRev.eq_2, asgEmit_global]
  refine steps_one (exprOK e) _ s (by omega) hg hwe _ _ _ ?_
  refine Steps.bind (Steps.pure () _) ?_
  refine (steps_emitI (.setg i) _).to ?_
  rw [app_app]
  exact app_congr s (by simp [F1.compS, encodeIns_append]) (by simp [nlitsS])

theorem e5_jmpf (t : Nat) : (encodeInstr opJumpFalsy [t]).length = 5 := by rw [enc_jump _ _ rfl]; rfl
theorem e5_jmp (t : Nat) : (encodeInstr opJump [t]).length = 5 := by rw [enc_jump _ _ rfl]; rfl

theorem stmtOK_ifs (c : Ex) (body : F1.Stms) (hb : BlockOK names ctab n body) :
    StmtOK names ctab n (.ifs c body) := by
  intro d s hd hg hw
  cases d with
  | zero => simp [budS] at hd
  | succ d =>
    simp only [wfS, Bool.and_eq_true] at hw
    obtain ⟨hwc, hwb⟩ := hw
    simp only [budS] at hd
    simp only [toAstS, stmt_ifs]
    refine Steps.bind (steps_fork' s) ?_
    have hg0 : GoodChain names n (setT s (blk :: s.tables)).tables := hg.fork
    refine Steps.bind (exprOK c d _ (by omega) hg0 (by simpa using hwc)) ?_
    refine Steps.bind (steps_emit_at _ _ _ opJumpFalsy [0]) ?_
    refine Steps.bind (hb d _ _ _ (s.insts.size + esize c + 5) (s.consts.size + nlitsE c) (by omega) hg0
      (by simp [encodeIns_length, csize_comp, e5_jmpf]; omega) (by simp [lits_length]) hwb) ?_
    refine Steps.bind (steps_curPos_at _ _ _) ?_
    refine Steps.bind (steps_patch_at _ (encodeIns (comp s.insts.size c)) opJumpFalsy 0 _
      (encodeIns (F1.compSs (s.insts.size + esize c + 5) body)) _ _ _ rfl (by decide)
      (by simp [List.append_assoc]) (by simp)) ?_
    refine (steps_unfork_forked s _ _).to ?_
    refine app_congr s ?_ ?_
    · simp [F1.compS, csize_comp, F1.csize_compSs, encodeIns_append, encodeIns_cons, List.append_assoc,
        encodeIns_length, e5_jmpf, enc_jmpf, Nat.add_assoc, encI_length, Ins.size]
    · simp [nlitsS, lits_add, List.append_assoc, Nat.add_assoc]


theorem stmtOK_ifelse (c : Ex) (body els : F1.Stms) (hb : BlockOK names ctab n body)
    (he : BlockOK names ctab n els) : StmtOK names ctab n (.ifelse c body els) := by
  intro d s hd hg hw
  obtain ⟨d, rfl⟩ : ∃ d', d = d' + 1 + 1 := ⟨d - 2, by simp [budS] at hd; omega⟩
  simp only [wfS, Bool.and_eq_true] at hw
  obtain ⟨⟨hwc, hwb⟩, hwe⟩ := hw
  simp only [budS] at hd
  simp only [toAstS, stmt_ifelse]
  refine Steps.bind (steps_fork' s) ?_
  have hg0 : GoodChain names n (setT s (blk :: s.tables)).tables := hg.fork
  refine Steps.bind (exprOK c (d + 1) _ (by omega) hg0 (by simpa using hwc)) ?_
  refine Steps.bind (steps_emit_at _ _ _ opJumpFalsy [0]) ?_
  refine Steps.bind (hb (d + 1) _ _ _ (s.insts.size + esize c + 5) (s.consts.size + nlitsE c) (by omega) hg0
    (by simp [encodeIns_length, csize_comp, e5_jmpf]; omega) (by simp [lits_length]) hwb) ?_
  refine Steps.bind (steps_emit_at _ _ _ opJump [0]) ?_
  refine Steps.bind (steps_curPos_at _ _ _) ?_
  refine Steps.bind (steps_patch_at _ (encodeIns (comp s.insts.size c)) opJumpFalsy 0 _
    (encodeIns (F1.compSs (s.insts.size + esize c + 5) body) ++ encodeInstr opJump [0]) _ _ _ rfl (by decide)
    (by simp [List.append_assoc]) (by simp)) ?_
  refine Steps.bind (he d _ _ _ (s.insts.size + esize c + 5 + F1.sssize body + 5)
    (s.consts.size + nlitsE c + nlitsSs body) (by omega) hg0
    (by simp [encodeIns_length, csize_comp, F1.csize_compSs, e5_jmpf, e5_jmp]; omega)
    (by simp [lits_length]; omega) hwe) ?_
  refine Steps.bind (steps_curPos_at _ _ _) ?_
  refine Steps.bind (steps_patch_at _ (encodeIns (comp s.insts.size c) ++ encodeInstr opJumpFalsy
      [s.insts.size + esize c + 5 + F1.sssize body + 5] ++ encodeIns (F1.compSs (s.insts.size + esize c + 5) body))
    opJump 0 _ (encodeIns (F1.compSs (s.insts.size + esize c + 5 + F1.sssize body + 5) els)) _ _ _ rfl (by decide)
    ?_ ?_) ?_
  · simp [List.append_assoc, encodeIns_length, csize_comp, F1.csize_compSs, e5_jmpf, e5_jmp, Nat.add_assoc]
  · simp [List.append_assoc, encodeIns_length, csize_comp, F1.csize_compSs, e5_jmpf, e5_jmp]
  refine (steps_unfork_forked s _ _).to ?_
  refine app_congr s ?_ ?_
  · simp [F1.compS, csize_comp, F1.csize_compSs, encodeIns_append, encodeIns_cons, List.append_assoc,
      encodeIns_length, e5_jmpf, e5_jmp, enc_jmpf, enc_jmp, Nat.add_assoc, encI_length, Ins.size]
  · simp [nlitsS, lits_add, List.append_assoc, Nat.add_assoc]

theorem stmtOK_whil (c : Ex) (body : F1.Stms) (hb : BlockOK names ctab n body) :
    StmtOK names ctab n (.whil c body) := by
  intro d s hd hg hw
  cases d with
  | zero => simp [budS] at hd
  | succ d =>
    simp only [wfS, Bool.and_eq_true] at hw
    obtain ⟨hwc, hwb⟩ := hw
    simp only [budS] at hd
    simp only [toAstS, stmt_while]
    refine Steps.bind (steps_fork' s) ?_
    have hg0 : GoodChain names n (setT s (blk :: s.tables)).tables := hg.fork
    refine Steps.bind (steps_curPos _) ?_
    refine Steps.bind (exprOK c d _ (by omega) hg0 (by simpa using hwc)) ?_
    refine Steps.bind (steps_emit_at _ _ _ opJumpFalsy [0]) ?_
    refine Steps.bind (steps_enterLoop_at _ _ _) ?_
    refine Steps.bind (hb d _ _ _ (s.insts.size + esize c + 5) (s.consts.size + nlitsE c) (by omega)
      (by simpa using hg0)
      (by simp [encodeIns_length, csize_comp, e5_jmpf]; omega) (by simp [lits_length]) hwb) ?_
    refine Steps.bind (steps_leaveLoop_at _ _ _) ?_
    refine Steps.bind (steps_curPos_at _ _ _) ?_
    refine Steps.bind (Steps.discard (steps_emit_at _ _ _ opJump [s.insts.size])) ?_
    refine Steps.bind (steps_curPos_at _ _ _) ?_
    refine Steps.bind (steps_patch_at _ (encodeIns (comp s.insts.size c)) opJumpFalsy 0 _
      (encodeIns (F1.compSs (s.insts.size + esize c + 5) body) ++ encodeInstr opJump [s.insts.size]) _ _ _ rfl
      (by decide) (by simp [List.append_assoc]) (by simp)) ?_
    refine Steps.bind (steps_patchAll_nil _ _) ?_
    refine Steps.bind (steps_patchAll_nil _ _) ?_
    refine (steps_unfork_forked s _ _).to ?_
    refine app_congr s ?_ ?_
    · simp [F1.compS, csize_comp, F1.csize_compSs, encodeIns_append, encodeIns_cons, List.append_assoc,
        encodeIns_length, e5_jmpf, e5_jmp, enc_jmpf, enc_jmp, Nat.add_assoc, encI_length, Ins.size]
    · simp [nlitsS, lits_add, List.append_assoc, Nat.add_assoc]

theorem stmtOK_forever (body : F1.Stms) (hb : BlockOK names ctab n body) :
    StmtOK names ctab n (.forever body) := by
  intro d s hd hg hw
  cases d with
  | zero => simp [budS] at hd
  | succ d =>
    simp only [wfS] at hw
    simp only [budS] at hd
    simp only [toAstS, stmt_forever]
    refine Steps.bind (steps_fork' s) ?_
    have hg0 : GoodChain names n (setT s (blk :: s.tables)).tables := hg.fork
    refine Steps.bind (steps_curPos _) ?_
    refine Steps.bind (steps_enterLoop0 _) ?_
    refine Steps.bind (hb d _ _ _ s.insts.size s.consts.size (by omega)
      (by simpa using hg0) (by simp) (by simp) hw) ?_
    refine Steps.bind (steps_leaveLoop_at _ _ _) ?_
    refine Steps.bind (steps_curPos_at _ _ _) ?_
    refine Steps.bind (Steps.discard (steps_emit_at _ _ _ opJump [s.insts.size])) ?_
    refine Steps.bind (steps_curPos_at _ _ _) ?_
    refine Steps.bind (steps_patchAll_nil _ _) ?_
    refine Steps.bind (steps_patchAll_nil _ _) ?_
    refine (steps_unfork_forked s _ _).to ?_
    refine app_congr s ?_ ?_
    · simp [F1.compS, encodeIns_append, encodeIns_cons, enc_jmp]
    · simp [nlitsS]

theorem stmtsOK_nil : StmtsOK names ctab n .nil := by
  intro d s hd hg hw
  cases d with
  | zero => simp [budSs] at hd
  | succ d =>
    simp only [toAstSs, compileStmts.eq_2]
    exact (Steps.pure () _).to (by simp [F1.compSs, nlitsSs, lits_zero])

theorem stmtsOK_cons (st : F1.Stm) (ss : F1.Stms) (h1 : StmtOK names ctab n st) (h2 : StmtsOK names ctab n ss) :
    StmtsOK names ctab n (.cons st ss) := by
  intro d s hd hg hw
  cases d with
  | zero => simp [budSs] at hd
  | succ d =>
    simp only [wfSs, Bool.and_eq_true] at hw
    obtain ⟨hw1, hw2⟩ := hw
    simp only [budSs] at hd
    simp only [toAstSs, compileStmts.eq_3]
    refine Steps.bind (h1 d s (by omega) hg hw1) ?_
    refine (h2 d _ (by omega) (by simpa using hg) (by simpa [lits_length] using hw2)).to ?_
    rw [app_app]
    refine app_congr s ?_ ?_
    · simp [F1.compSs, F1.csize_compS, encodeIns_append, encodeIns_length]
    · simp [nlitsSs, lits_add, lits_length]

mutual
  theorem stmtOK : ∀ st : F1.Stm, StmtOK names ctab n st
    | .expr e => stmtOK_expr e
    | .assign i e => stmtOK_assign i e
    | .ifs c body => stmtOK_ifs c body (blockOK_of (stmtsOK body))
    | .ifelse c body els => stmtOK_ifelse c body els (blockOK_of (stmtsOK body)) (blockOK_of (stmtsOK els))
    | .whil c body => stmtOK_whil c body (blockOK_of (stmtsOK body))
    | .forever body => stmtOK_forever body (blockOK_of (stmtsOK body))
  theorem stmtsOK : ∀ ss : F1.Stms, StmtsOK names ctab n ss
    | .nil => stmtsOK_nil
    | .cons st ss => stmtsOK_cons st ss (stmtOK st) (stmtsOK ss)
end

end

end Tengo.Proofs.C01Bridge

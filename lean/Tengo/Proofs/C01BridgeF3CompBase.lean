import Tengo.Proofs.C01BridgeF3CompDefs
import Tengo.Proofs.C01BridgeF2Stmt
/-!
C01 bridge for fragment F3, compile side, layer 1 (machinery): the encoding lemmas of `encI3`, emission of one
instruction (`steps_emitI3`), the constants of a range of pool indices (`litsK`), and name resolution through the
table stack of a function (`resolveIn_here` / `resolveIn_skip` / `resolveIn_none`; `ResOK`: the names of the
global slots resolve to the global slots, the names of the local slots defined so far resolve to the local slots,
without changing the state).
-/
set_option linter.unusedVariables false
set_option linter.unusedSimpArgs false
namespace Tengo.Proofs.C01BridgeF3Comp
open Tengo.Model Tengo.Model.Compiler Tengo.Model.Opcodes
open Tengo.Model.Spec (Expr Stmt)
open Tengo.Model.F3 (Ex Exs Stm Stms FnDef Prog Ins)
open Tengo.Proofs.C01Bridge

/-! ### encoding -/

theorem encI3_eq (i : Ins) : encodeInstr (toInstr3 i).1 (toInstr3 i).2 = encI3 i := by
  cases i <;> simp [toInstr3, encodeInstr, encI3, encodeOperands, beBytes_1, beBytes_2, beBytes_4,
    show widths opConstant = some [2] from rfl, show widths opGetGlobal = some [2] from rfl,
    show widths opSetGlobal = some [2] from rfl, show widths opBinaryOp = some [1] from rfl,
    show widths opEqual = some [] from rfl, show widths opNotEqual = some [] from rfl,
    show widths opMinus = some [] from rfl, show widths opBComplement = some [] from rfl,
    show widths opLNot = some [] from rfl, show widths opTrue = some [] from rfl,
    show widths opFalse = some [] from rfl, show widths opNull = some [] from rfl,
    show widths opPop = some [] from rfl, show widths opJumpFalsy = some [4] from rfl,
    show widths opJump = some [4] from rfl, show widths opAndJump = some [4] from rfl,
    show widths opOrJump = some [4] from rfl, show widths opGetLocal = some [1] from rfl,
    show widths opSetLocal = some [1] from rfl, show widths opDefineLocal = some [1] from rfl,
    show widths opCall = some [1, 1] from rfl, show widths opReturn = some [1] from rfl] <;> first | rfl | (split <;> exact ⟨rfl, rfl⟩)

@[simp] theorem encodeIns3_nil : encodeIns3 [] = [] := rfl

theorem encodeIns3_cons (i : Ins) (is : List Ins) : encodeIns3 (i :: is) = encI3 i ++ encodeIns3 is := by
  simp [encodeIns3]

theorem encodeIns3_append (a b : List Ins) : encodeIns3 (a ++ b) = encodeIns3 a ++ encodeIns3 b := by
  simp [encodeIns3]

theorem encodeIns3_single (i : Ins) : encodeIns3 [i] = encI3 i := by
  simp [encodeIns3]

theorem encI3_length (i : Ins) : (encI3 i).length = i.size := by
  cases i <;> simp [encI3, F3.Ins.size, be2, be4]

theorem encodeIns3_length (is : List Ins) : (encodeIns3 is).length = F3.csize is := by
  induction is with
  | nil => rfl
  | cons i is ih => rw [encodeIns3_cons, List.length_append, encI3_length, ih]; rfl

theorem enc_of3 (i : Ins) : encodeInstr (toInstr3 i).1 (toInstr3 i).2 = encodeIns3 [i] := by
  rw [encodeIns3_single, encI3_eq]

theorem enc_jmpf3 (t : Nat) : encodeInstr opJumpFalsy [t] = encI3 (.jmpf t) := encI3_eq (.jmpf t)
theorem enc_jmp3 (t : Nat) : encodeInstr opJump [t] = encI3 (.jmp t) := encI3_eq (.jmp t)

/-- `discard (emit …)` of the instruction `i`. -/
theorem steps_emitI3 (i : Ins) (s : CState) :
    Steps (discard (emit (toInstr3 i).1 (toInstr3 i).2)) s () (app s (encodeIns3 [i]) []) := by
  have := Steps.discard (steps_emit (toInstr3 i).1 (toInstr3 i).2 s)
  rwa [enc_of3] at this

/-! ### constants of a range of pool indices -/

/-- The constants `k, …, k+m-1` of the pool `K`. -/
def litsK (K : Nat → Compiler.Const) (k m : Nat) : List Compiler.Const := (List.range' k m).map K

theorem litsK_zero (K : Nat → Compiler.Const) (k : Nat) : litsK K k 0 = [] := rfl
theorem litsK_one (K : Nat → Compiler.Const) (k : Nat) : litsK K k 1 = [K k] := rfl
theorem litsK_length (K : Nat → Compiler.Const) (k m : Nat) : (litsK K k m).length = m := by simp [litsK]
theorem litsK_add (K : Nat → Compiler.Const) (k a b : Nat) :
    litsK K k (a + b) = litsK K k a ++ litsK K (k + a) b := by
  unfold litsK
  rw [← List.map_append]
  congr 1
  have := List.range'_append (s := k) (m := a) (n := b) (step := 1)
  rw [Nat.one_mul] at this
  exact this.symm

/-! ### name resolution through a table stack -/

/-- `LocalAssigned` as `resolve` reads it. -/
def asgF (a : Array Bool) : Nat → Bool := fun id => a.getD id false

theorem isAssigned_eq (s : CState) : isAssigned s = asgF s.assigned := rfl

/-- The name is found in the current table. -/
theorem resolveIn_here (asg : Nat → Bool) (nm : String) (t : Table) (ps : Chain) (recur : Bool) (nid : Nat)
    (sym : Sym) (hl : t.store.lookup nm = some sym)
    (hs : (sym.scope != .local || asg sym.id || recur) = true) :
    resolveIn asg nm (t :: ps) recur nid = (some (sym, 0), t :: ps, nid) := by
  simp only [resolveIn, hl, hs, if_true]

/-- The name is not in the current table and is found further out — through a block table, or as a global. -/
theorem resolveIn_skip (asg : Nat → Bool) (nm : String) (t : Table) (ps : Chain) (recur : Bool) (nid : Nat)
    (sym : Sym) (k : Nat) (hl : t.store.lookup nm = none) (hne : ps.isEmpty = false)
    (hp : resolveIn asg nm ps true nid = (some (sym, k), ps, nid))
    (hb : t.block = true ∨ sym.scope = .global) :
    resolveIn asg nm (t :: ps) recur nid = (some (sym, k + 1), t :: ps, nid) := by
  simp only [resolveIn, hl, hne, hp]
  rcases hb with hb | hb
  · simp [hb]
  · simp [hb]

/-- The name is in no table. -/
theorem resolveIn_none (asg : Nat → Bool) (nm : String) : ∀ (c : Chain) (recur : Bool) (nid : Nat),
    (∀ t ∈ c, t.store.lookup nm = none) → resolveIn asg nm c recur nid = (none, c, nid)
  | [], _, _, _ => rfl
  | t :: ps, recur, nid, h => by
    have hl := h t (List.mem_cons_self ..)
    have ih := resolveIn_none asg nm ps true nid (fun t' ht' => h t' (List.mem_cons_of_mem _ ht'))
    simp only [resolveIn, hl, ih]
    cases ps <;> simp

/-- Running `resolve` when the chain does not change. -/
theorem steps_resolve_of (s : CState) (nm : String) (r : Option (Sym × Nat))
    (h : resolveIn (asgF s.assigned) nm s.tables false s.nextId = (r, s.tables, s.nextId)) :
    Steps (resolve nm) s r s := by
  have h' : resolveIn (isAssigned s) nm s.tables false s.nextId = (r, s.tables, s.nextId) := h
  show Except.ok _ = Except.ok _
  simp only [h']
  cases s
  simp

section
variable (names lnames : Nat → String)

/-- In this table stack, with these `LocalAssigned` flags, `names i` (`i < n`) resolves to global slot `i` and
`lnames i` (`i < m`) to local slot `i` (whose symbol is marked assigned), without capturing anything. -/
structure ResOK (n m : Nat) (tabs : Chain) (asg : Array Bool) : Prop where
  ne : tabs.isEmpty = false
  glob : ∀ i, i < n → ∃ id k, ∀ recur nid,
    resolveIn (asgF asg) (names i) tabs recur nid = (some (⟨names i, .global, i, id⟩, k), tabs, nid)
  loc : ∀ i, i < m → ∃ id k, id < asg.size ∧ asg.getD id false = true ∧ ∀ recur nid,
    resolveIn (asgF asg) (lnames i) tabs recur nid = (some (⟨lnames i, .local, i, id⟩, k), tabs, nid)

variable {names lnames}

theorem ResOK.fork {n m : Nat} {tabs : Chain} {asg : Array Bool} (h : ResOK names lnames n m tabs asg) :
    ResOK names lnames n m (blk :: tabs) asg := by
  refine ⟨rfl, ?_, ?_⟩
  · intro i hi
    obtain ⟨id, k, hr⟩ := h.glob i hi
    exact ⟨id, k + 1, fun recur nid => resolveIn_skip _ _ blk tabs recur nid _ k rfl h.ne (hr true nid) (Or.inl rfl)⟩
  · intro i hi
    obtain ⟨id, k, h1, h2, hr⟩ := h.loc i hi
    exact ⟨id, k + 1, h1, h2,
      fun recur nid => resolveIn_skip _ _ blk tabs recur nid _ k rfl h.ne (hr true nid) (Or.inl rfl)⟩

theorem ResOK.steps_glob {n m : Nat} {s : CState} (h : ResOK names lnames n m s.tables s.assigned)
    {i : Nat} (hi : i < n) : ∃ id k, Steps (resolve (names i)) s (some (⟨names i, .global, i, id⟩, k)) s := by
  obtain ⟨id, k, hr⟩ := h.glob i hi
  exact ⟨id, k, steps_resolve_of s _ _ (hr false s.nextId)⟩

theorem ResOK.steps_loc {n m : Nat} {s : CState} (h : ResOK names lnames n m s.tables s.assigned)
    {i : Nat} (hi : i < m) : ∃ id k, id < s.assigned.size ∧ s.assigned.getD id false = true ∧
      Steps (resolve (lnames i)) s (some (⟨lnames i, .local, i, id⟩, k)) s := by
  obtain ⟨id, k, h1, h2, hr⟩ := h.loc i hi
  exact ⟨id, k, h1, h2, steps_resolve_of s _ _ (hr false s.nextId)⟩

/-- Main program: the root table under block scopes, no locals. -/
theorem ResOK.of_good {n : Nat} {tabs : Chain} {asg : Array Bool} (h : GoodChain names n tabs) :
    ResOK names lnames n 0 tabs asg := by
  obtain ⟨k, root, hc, hr⟩ := h
  refine ⟨by rw [hc]; cases k <;> simp [List.replicate], ?_, fun i hi => absurd hi (Nat.not_lt_zero i)⟩
  intro i hi
  obtain ⟨id, hl⟩ := hr i hi
  refine ⟨id, k, fun recur nid => ?_⟩
  rw [hc]
  exact resolveIn_good _ (names i) root _ nid hl rfl k recur

/-- `setAssigned` on a symbol that is already marked. -/
theorem steps_setAssigned_same (sym : Sym) (s : CState) (h1 : sym.id < s.assigned.size)
    (h2 : s.assigned.getD sym.id false = true) : Steps (setAssigned sym) s () s := by
  show Except.ok _ = Except.ok _
  have : s.assigned.setIfInBounds sym.id true = s.assigned := by
    apply Array.ext
    · simp
    · intro j hj1 hj2
      by_cases hj : sym.id = j
      · subst hj
        simp only [Array.getElem_setIfInBounds_self]
        have : s.assigned.getD sym.id false = s.assigned[sym.id] := by
          simp [Array.getD, h1]
        rw [← this, h2]
      · rw [Array.getElem_setIfInBounds (by simpa using hj1)]
        rw [if_neg hj]
  show Except.ok ((), { s with assigned := s.assigned.setIfInBounds sym.id true }) = Except.ok ((), s)
  rw [this]

end

end Tengo.Proofs.C01BridgeF3Comp

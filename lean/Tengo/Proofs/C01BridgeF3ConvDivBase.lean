import Tengo.Proofs.F3Program
/-!
Fragment F3, DIVERGENCE of the reference semantics against the machine `F3.step` (layer 0: statements).

`program_correct_F3` says nothing when `F3.exec` runs out of fuel. Here: if an evaluation with fuel `f` is `out`, the
machine started at the code of the phrase is STILL RUNNING after `j` dispatches (`Alive j`), for every `j` with
`j * K + height ≤ f`, where `height` is the nesting height of the phrase and `K` exceeds the height of every function
body by 2 (`KOk`): every unit of fuel beyond the nesting height pays for a loop round or a call, each of which
dispatches at least one instruction. Terminating sub-evaluations are taken from `all_ok` (forward theorem).
-/
set_option linter.unusedSimpArgs false
set_option linter.unusedVariables false
namespace Tengo.Model.F3
open Tengo.Model.F0 (Sem upd)
variable {V : Type}

/-- The machine has not stopped within `j` dispatches from `s`. -/
def Alive (E : Env V) (M : Mach) (j : Nat) (s : St V) : Prop := ∃ a, runN E M j s = .at a

theorem Alive.zero (E : Env V) (M : Mach) (s : St V) : Alive E M 0 s := ⟨s, rfl⟩

theorem Alive.step {E : Env V} {M : Mach} {s s1 : St V} {j : Nat} (h : F3.step E M s = .next s1)
    (ha : Alive E M j s1) : Alive E M (j + 1) s := by
  obtain ⟨a, ha⟩ := ha
  exact ⟨a, by rw [runN.eq_2, h]; exact ha⟩

theorem Alive.pred {E : Env V} {M : Mach} {s : St V} {j : Nat} (h : Alive E M (j + 1) s) : Alive E M j s := by
  induction j generalizing s with
  | zero => exact Alive.zero E M s
  | succ j ih =>
    obtain ⟨a, ha⟩ := h
    rw [runN.eq_2] at ha
    cases hs : F3.step E M s with
    | next s1 =>
      rw [hs] at ha
      exact Alive.step hs (ih ⟨a, ha⟩)
    | err => rw [hs] at ha; cases ha
    | stuck => rw [hs] at ha; cases ha

theorem Alive.le {E : Env V} {M : Mach} {s : St V} {j k : Nat} (h : Alive E M j s) (hk : k ≤ j) : Alive E M k s := by
  induction hk with
  | refl => exact h
  | step _ ih => exact ih h.pred

/-- After a run from `s` to `s1`, what is alive from `s1` is alive from `s`. -/
theorem Alive.of_runs {E : Env V} {M : Mach} {s s1 : St V} {j : Nat} (h : Runs E M s s1) (ha : Alive E M j s1) :
    Alive E M j s := by
  obtain ⟨n, hn⟩ := h
  obtain ⟨a, ha⟩ := ha
  have : Alive E M (n + j) s := ⟨a, by rw [runN_add, hn]; exact ha⟩
  exact this.le (by omega)

/-- One dispatch then a run: one more step is alive. -/
theorem Alive.step_runs {E : Env V} {M : Mach} {s s1 : St V} {j : Nat} (h : F3.step E M s = .next s1)
    (ha : Alive E M j s1) : Alive E M j s := (Alive.step h ha).pred

/-! ### nesting heights (fuel consumed without any dispatch) -/

mutual
  def hE : Ex → Nat
    | .lit _ | .tru | .fls | .undef | .glob _ | .loc _ => 1
    | .bin _ a b | .eq a b | .ne a b | .land a b | .lor a b => max (hE a) (hE b) + 1
    | .neg a | .bnot a | .lnot a | .plus a => hE a + 1
    | .cond c t e => max (hE c) (max (hE t) (hE e)) + 1
    | .call fe args => max (hE fe) (hEs args) + 2
  def hEs : Exs → Nat
    | .nil => 1
    | .cons e es => max (hE e) (hEs es) + 1
end

mutual
  def hS : Stm → Nat
    | .expr e | .assign _ e | .defl _ e | .setl _ e | .ret e => hE e + 1
    | .ifs c body => max (hE c) (hSs body) + 1
    | .ifelse c body els => max (hE c) (max (hSs body) (hSs els)) + 1
    | .whil c body => max (hE c) (hSs body) + 1
    | .forever body => hSs body + 1
    | .for3 c body post => max (hE c) (max (hSs body) (hS post)) + 1
    | .brk | .cont | .ret0 => 1
  def hSs : Stms → Nat
    | .nil => 1
    | .cons s ss => max (hS s) (hSs ss) + 1
end

/-- `K` exceeds the nesting height of every function body by 2. -/
def KOk (P : Prog) (K : Nat) : Prop := ∀ k fd, P.fns k = some fd → hSs fd.body + 2 ≤ K

/-! ### the statements -/

def DivE (E : Env V) (P : Prog) (K f : Nat) (e : Ex) : Prop :=
  ∀ (g : Nat → V) (l : Locals V) (fn : Nat) (code : List Ins) (nl off bp sp : Nat) (stk : Nat → V) (dis : Bool)
    (cl : List Frame),
    (compProg P).code fn = some code → FrameOk P fn nl → At code off (comp off e) →
    LocRel nl l stk bp → bp + nl ≤ sp →
    evalE E P f e g l = .out → ∀ j, j * K + hE e ≤ f → Alive E (compProg P) j ⟨fn, off, bp, sp, stk, g, dis, cl⟩

def DivEs (E : Env V) (P : Prog) (K f : Nat) (es : Exs) : Prop :=
  ∀ (g : Nat → V) (l : Locals V) (fn : Nat) (code : List Ins) (nl off bp sp : Nat) (stk : Nat → V) (dis : Bool)
    (cl : List Frame),
    (compProg P).code fn = some code → FrameOk P fn nl → At code off (compEs off es) →
    tailNext code (off + essize es) = false → LocRel nl l stk bp → bp + nl ≤ sp →
    evalEs E P f es g l = .out → ∀ j, j * K + hEs es ≤ f → Alive E (compProg P) j ⟨fn, off, bp, sp, stk, g, dis, cl⟩

/-- The call proper (the machine is at a `CALL n`). -/
def DivCall (E : Env V) (P : Prog) (K f : Nat) : Prop :=
  ∀ (fv : V) (vs : List V) (g : Nat → V) (fn : Nat) (code : List Ins) (nl ip bp slot : Nat) (stk : Nat → V)
    (dis : Bool) (cl : List Frame),
    (compProg P).code fn = some code → FrameOk P fn nl → bp + nl ≤ slot →
    fetch code ip = some (.call vs.length) → stk slot = fv → (∀ j v, vs[j]? = some v → stk (slot + 1 + j) = v) →
    callFn E P f fv vs g = .out → ∀ j, j * K + 1 ≤ f →
      Alive E (compProg P) j ⟨fn, ip, bp, slot + 1 + vs.length, stk, g, dis, cl⟩

def DivS (E : Env V) (P : Prog) (K f : Nat) (c : Stm) : Prop :=
  ∀ (g : Nat → V) (l : Locals V) (fn : Nat) (code : List Ins) (nl bt ct off bp sp : Nat) (stk : Nat → V)
    (dis : Bool) (cl : List Frame),
    (compProg P).code fn = some code → FrameOk P fn nl → At code off (compS bt ct off c) →
    slotsS nl c = true → LocRel nl l stk bp → bp + nl ≤ sp →
    execS E P f c g l = .out → ∀ j, j * K + hS c ≤ f → Alive E (compProg P) j ⟨fn, off, bp, sp, stk, g, dis, cl⟩

def DivSs (E : Env V) (P : Prog) (K f : Nat) (c : Stms) : Prop :=
  ∀ (g : Nat → V) (l : Locals V) (fn : Nat) (code : List Ins) (nl bt ct off bp sp : Nat) (stk : Nat → V)
    (dis : Bool) (cl : List Frame),
    (compProg P).code fn = some code → FrameOk P fn nl → At code off (compSs bt ct off c) →
    slotsSs nl c = true → LocRel nl l stk bp → bp + nl ≤ sp →
    execSs E P f c g l = .out → ∀ j, j * K + hSs c ≤ f → Alive E (compProg P) j ⟨fn, off, bp, sp, stk, g, dis, cl⟩

/-- The five judgements at one fuel. -/
structure AllDiv (E : Env V) (P : Prog) (K f : Nat) : Prop where
  e : ∀ e, DivE E P K f e
  es : ∀ es, DivEs E P K f es
  call : DivCall E P K f
  s : ∀ s, DivS E P K f s
  ss : ∀ ss, DivSs E P K f ss

section zero
variable {E : Env V} {P : Prog} {K : Nat}

theorem hE_pos : ∀ e : Ex, 0 < hE e := by
  intro e; cases e <;> simp only [hE] <;> omega

theorem hEs_pos : ∀ es : Exs, 0 < hEs es := by
  intro es; cases es <;> simp only [hEs] <;> omega

theorem hS_pos : ∀ s : Stm, 0 < hS s := by
  intro s; cases s <;> simp only [hS] <;> omega

theorem hSs_pos : ∀ ss : Stms, 0 < hSs ss := by
  intro ss; cases ss <;> simp only [hSs] <;> omega

/-- With fuel 0 the bound forces `j = 0` … but the bound cannot hold at all: heights are positive. -/
theorem divE_zero (e : Ex) : DivE E P K 0 e := by
  intro g l fn code nl off bp sp stk dis cl _ _ _ _ _ _ j hj
  have := hE_pos e
  omega

theorem divEs_zero (es : Exs) : DivEs E P K 0 es := by
  intro g l fn code nl off bp sp stk dis cl _ _ _ _ _ _ _ j hj
  have := hEs_pos es
  omega

theorem divCall_zero : DivCall E P K 0 := by
  intro fv vs g fn code nl ip bp slot stk dis cl _ _ _ _ _ _ _ j hj
  omega

theorem divS_zero (c : Stm) : DivS E P K 0 c := by
  intro g l fn code nl bt ct off bp sp stk dis cl _ _ _ _ _ _ _ j hj
  have := hS_pos c
  omega

theorem divSs_zero (c : Stms) : DivSs E P K 0 c := by
  intro g l fn code nl bt ct off bp sp stk dis cl _ _ _ _ _ _ _ j hj
  have := hSs_pos c
  omega

end zero

end Tengo.Model.F3

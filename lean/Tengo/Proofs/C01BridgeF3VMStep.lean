import Tengo.Proofs.C01BridgeF3VMCall
import Tengo.Proofs.C01BridgeVMStep
/-!
C01 bridge for fragment F3, VM side, layer 3: ONE STEP, all instructions, any function frame.

* `Bnd3 M s s'`: the fixed sizes of the VM as a side condition on a step `s → s'` of the (unbounded) fragment
  machine: `s'.sp ≤ StackSize`, `s'.callers.length < MaxFrames`, and the local slots the instruction reads /
  writes are inside the stack (`SlotOK`: `bp + j < StackSize` for GETL / SETL / DEFL `j`; `bp + n ≤ StackSize`
  for a `CALL n` that reuses its frame, i.e. the self tail call).
* `step_sim3`: a step of the fragment's machine is one dispatch `VM.exec` between related states, heap untouched.
* `err_sim3`: a run-time error of the fragment's machine is an error of the dispatch (never `fuel`).
* `halt_sim3`: at the end of main the VM dispatches SUSPEND.
-/
set_option linter.unusedVariables false
set_option linter.unusedSimpArgs false
namespace Tengo.Proofs.C01BridgeF3
open Tengo.Model Tengo.Model.Spec Tengo.Model.VM Tengo.Proofs.C01Bridge

variable {V : Type}

/-- The local slots the instruction at `s.ip` touches are inside the VM's stack. -/
def SlotOK (M : F3.Mach) (s s' : F3.St V) : Prop :=
  ∀ is i, M.code s.fn = some is → F3.fetch is s.ip = some i →
    match i with
    | .getl j | .setl j | .defl j => s.bp + j < stackSize
    | .call n => s'.callers.length = s.callers.length → s.bp + n ≤ stackSize
    | _ => True

/-- The VM's fixed sizes, as a condition on a step `s → s'` of the fragment's machine. -/
structure Bnd3 (M : F3.Mach) (s s' : F3.St V) : Prop where
  sp : s'.sp ≤ stackSize
  depth : s'.callers.length < maxFrames
  slot : SlotOK M s s'

theorem ite_next (b : Bool) (A B : F3.St V) :
    (if b then F3.SRes.next A else F3.SRes.next B) = F3.SRes.next (if b then A else B) := by
  cases b <;> rfl

section eqs
variable (E : F3.Env V) (M : F3.Mach) (s : F3.St V) {is : List F3.Ins} (hc : M.code s.fn = some is)
include hc

theorem step3_call_go {nargs k : Nat} {cf : F3.CFn} (hf : F3.fetch is s.ip = some (.call nargs))
    (h0 : ¬ s.sp < nargs + 1) (hfn : E.asFn (s.stk (s.sp - 1 - nargs)) = some k) (hk : M.fns k = some cf)
    (hn : nargs = cf.nparams) :
    F3.step E M s = if s.fn == k + 1 && F3.tailNext is (s.ip + 3) then .next (tailSt s is nargs)
      else .next (calleeSt s nargs k cf.nlocals) := by
  rw [step3_call E M s hc hf, if_neg h0]
  simp only [hfn, hk]
  rw [if_neg (by intro hh; exact hh hn)]

theorem step3_call_arity {nargs k : Nat} {cf : F3.CFn} (hf : F3.fetch is s.ip = some (.call nargs))
    (h0 : ¬ s.sp < nargs + 1) (hfn : E.asFn (s.stk (s.sp - 1 - nargs)) = some k) (hk : M.fns k = some cf)
    (hn : nargs ≠ cf.nparams) : F3.step E M s = .err := by
  rw [step3_call E M s hc hf, if_neg h0]
  simp only [hfn, hk]
  rw [if_pos hn]

theorem step3_call_dangling {nargs k : Nat} (hf : F3.fetch is s.ip = some (.call nargs))
    (h0 : ¬ s.sp < nargs + 1) (hfn : E.asFn (s.stk (s.sp - 1 - nargs)) = some k) (hk : M.fns k = none) :
    F3.step E M s = .stuck := by
  rw [step3_call E M s hc hf, if_neg h0]
  simp only [hfn, hk]

theorem step3_call_notCallable {nargs : Nat} (hf : F3.fetch is s.ip = some (.call nargs))
    (h0 : ¬ s.sp < nargs + 1) (hfn : E.asFn (s.stk (s.sp - 1 - nargs)) = none) : F3.step E M s = .err := by
  rw [step3_call E M s hc hf, if_neg h0]
  simp only [hfn]

theorem step3_ret_go {wv : Bool} {fr : F3.Frame} {rest : List F3.Frame} (hf : F3.fetch is s.ip = some (.ret wv))
    (h0 : ¬ (wv && decide (s.sp < 1)) = true) (hcs : s.callers = fr :: rest) :
    F3.step E M s = .next (retSt s fr rest (if wv && !s.dis then s.stk (s.sp - 1) else E.S.undef)) := by
  rw [step3_ret E M s hc hf, if_neg h0]
  simp only [hcs]

theorem step3_ret_main {wv : Bool} (hf : F3.fetch is s.ip = some (.ret wv))
    (h0 : ¬ (wv && decide (s.sp < 1)) = true) (hcs : s.callers = []) : F3.step E M s = .stuck := by
  rw [step3_ret E M s hc hf, if_neg h0]
  simp only [hcs]

theorem step3_binop_some {tok : Nat} {v : V} (hf : F3.fetch is s.ip = some (.binop tok)) (h0 : ¬ s.sp < 2)
    (hv : E.S.binop tok (s.stk (s.sp - 2)) (s.stk (s.sp - 1)) = some v) :
    F3.step E M s = .next (repl2St s 2 v) := by
  rw [step3_binop E M s hc hf, if_neg h0]
  simp only [hv]

theorem step3_binop_none {tok : Nat} (hf : F3.fetch is s.ip = some (.binop tok)) (h0 : ¬ s.sp < 2)
    (hv : E.S.binop tok (s.stk (s.sp - 2)) (s.stk (s.sp - 1)) = none) : F3.step E M s = .err := by
  rw [step3_binop E M s hc hf, if_neg h0]
  simp only [hv]

theorem step3_minus_some {v : V} (hf : F3.fetch is s.ip = some .minus) (h0 : ¬ s.sp < 1)
    (hv : E.S.neg (s.stk (s.sp - 1)) = some v) : F3.step E M s = .next (repl1St s 1 v) := by
  rw [step3_minus E M s hc hf, if_neg h0]
  simp only [hv]

theorem step3_minus_none (hf : F3.fetch is s.ip = some .minus) (h0 : ¬ s.sp < 1)
    (hv : E.S.neg (s.stk (s.sp - 1)) = none) : F3.step E M s = .err := by
  rw [step3_minus E M s hc hf, if_neg h0]
  simp only [hv]

theorem step3_bcompl_some {v : V} (hf : F3.fetch is s.ip = some .bcompl) (h0 : ¬ s.sp < 1)
    (hv : E.S.bnot (s.stk (s.sp - 1)) = some v) : F3.step E M s = .next (repl1St s 1 v) := by
  rw [step3_bcompl E M s hc hf, if_neg h0]
  simp only [hv]

theorem step3_bcompl_none (hf : F3.fetch is s.ip = some .bcompl) (h0 : ¬ s.sp < 1)
    (hv : E.S.bnot (s.stk (s.sp - 1)) = none) : F3.step E M s = .err := by
  rw [step3_bcompl E M s hc hf, if_neg h0]
  simp only [hv]

end eqs

section sim
variable {M : F3.Mach} {K n : Nat} {E : F3.Env V} {val : V → Value} {ref : Nat → Nat} {code : Code}

/-- **VM bridge for F3, one step.** If the fragment's machine steps from `s` to `s'` (within the VM's fixed
sizes, `Bnd3`), then one dispatch of the VM model on the encoded program steps from any related core to a
related core and leaves the heap alone — in ANY function frame. -/
theorem step_sim3 (hcode : CodeRel3 M K n E val ref code) (hD : DataRel E.S val) {s s' : F3.St V} {c : Core}
    (hrel : Rel3 M n val ref s c) (hstep : F3.step E M s = .next s') (hb : Bnd3 M s s') (g : GSt) (h : Spec.St) :
    ∃ c' al, XOk (exec code c) g h (.next c' al) ∧ Rel3 M n val ref s' c' := by
  cases hc : M.code s.fn with
  | none => simp [F3.step, hc] at hstep
  | some is =>
  cases hf : F3.fetch is s.ip with
  | none => simp [F3.step, hc, hf] at hstep
  | some i =>
  obtain ⟨f, pre, post, tl, hat⟩ := at_fetch3 (K := K) (n := n) hcode hc hf
  have hslot := hb.slot is i hc hf
  have hbsp := hb.sp
  cases i with
  | const k =>
    rw [step3_const E M s hc hf] at hstep
    injection hstep with e; subst e
    exact sim_const hcode hrel hat g h hbsp
  | tru =>
    rw [step3_tru E M s hc hf] at hstep
    injection hstep with e; subst e
    exact sim_tru hD hrel hat g h hbsp
  | fls =>
    rw [step3_fls E M s hc hf] at hstep
    injection hstep with e; subst e
    exact sim_fls hD hrel hat g h hbsp
  | null =>
    rw [step3_null E M s hc hf] at hstep
    injection hstep with e; subst e
    exact sim_null hD hrel hat g h hbsp
  | getg j =>
    rw [step3_getg E M s hc hf] at hstep
    injection hstep with e; subst e
    exact sim_getg hrel hat g h hbsp
  | getl j =>
    rw [step3_getl E M s hc hf] at hstep
    injection hstep with e; subst e
    exact sim_getl hD hrel hat g h hbsp hslot
  | jmp t =>
    rw [step3_jmp E M s hc hf] at hstep
    injection hstep with e; subst e
    exact sim_jmp hrel hat g h
  | pop =>
    rw [step3_pop E M s hc hf] at hstep
    by_cases h1 : s.sp < 1
    · rw [if_pos h1] at hstep; cases hstep
    · rw [if_neg h1] at hstep
      injection hstep with e; subst e
      exact sim_pop hrel hat g h (by omega)
  | setg j =>
    rw [step3_setg E M s hc hf] at hstep
    by_cases h1 : s.sp < 1
    · rw [if_pos h1] at hstep; cases hstep
    · rw [if_neg h1] at hstep
      injection hstep with e; subst e
      exact sim_setg hrel hat g h (by omega)
  | setl j =>
    rw [step3_setl E M s hc hf] at hstep
    by_cases h1 : s.sp < 1
    · rw [if_pos h1] at hstep; cases hstep
    · rw [if_neg h1] at hstep
      injection hstep with e; subst e
      exact sim_setl hD hrel hat g h (by omega) hslot
  | defl j =>
    rw [step3_defl E M s hc hf] at hstep
    by_cases h1 : s.sp < 1
    · rw [if_pos h1] at hstep; cases hstep
    · rw [if_neg h1] at hstep
      injection hstep with e; subst e
      exact sim_defl hrel hat g h (by omega) hslot
  | jmpf t =>
    rw [step3_jmpf E M s hc hf] at hstep
    by_cases h1 : s.sp < 1
    · rw [if_pos h1] at hstep; cases hstep
    · rw [if_neg h1] at hstep
      injection hstep with e; subst e
      exact sim_jmpf hD hrel hat g h (by omega)
  | andjmp t =>
    rw [step3_andjmp E M s hc hf] at hstep
    by_cases h1 : s.sp < 1
    · rw [if_pos h1] at hstep; cases hstep
    · rw [if_neg h1, ite_next] at hstep
      injection hstep with e; subst e
      exact sim_andjmp hD hrel hat g h (by omega)
  | orjmp t =>
    rw [step3_orjmp E M s hc hf] at hstep
    by_cases h1 : s.sp < 1
    · rw [if_pos h1] at hstep; cases hstep
    · rw [if_neg h1, ite_next] at hstep
      injection hstep with e; subst e
      exact sim_orjmp hD hrel hat g h (by omega)
  | lnot =>
    rw [step3_lnot E M s hc hf] at hstep
    by_cases h1 : s.sp < 1
    · rw [if_pos h1] at hstep; cases hstep
    · rw [if_neg h1] at hstep
      injection hstep with e; subst e
      exact sim_lnot hD hrel hat g h (by omega)
  | eql =>
    rw [step3_eql E M s hc hf] at hstep
    by_cases h1 : s.sp < 2
    · rw [if_pos h1] at hstep; cases hstep
    · rw [if_neg h1] at hstep
      injection hstep with e; subst e
      exact sim_eql hD hrel hat g h (by omega)
  | neq =>
    rw [step3_neq E M s hc hf] at hstep
    by_cases h1 : s.sp < 2
    · rw [if_pos h1] at hstep; cases hstep
    · rw [if_neg h1] at hstep
      injection hstep with e; subst e
      exact sim_neq hD hrel hat g h (by omega)
  | binop tok =>
    by_cases h1 : s.sp < 2
    · rw [step3_binop E M s hc hf, if_pos h1] at hstep; cases hstep
    · cases hv : E.S.binop tok (s.stk (s.sp - 2)) (s.stk (s.sp - 1)) with
      | none => rw [step3_binop_none E M s hc hf h1 hv] at hstep; cases hstep
      | some v =>
        rw [step3_binop_some E M s hc hf h1 hv] at hstep
        injection hstep with e; subst e
        exact sim_binop hD hrel hat g h (by omega) hv
  | minus =>
    by_cases h1 : s.sp < 1
    · rw [step3_minus E M s hc hf, if_pos h1] at hstep; cases hstep
    · cases hv : E.S.neg (s.stk (s.sp - 1)) with
      | none => rw [step3_minus_none E M s hc hf h1 hv] at hstep; cases hstep
      | some v =>
        rw [step3_minus_some E M s hc hf h1 hv] at hstep
        injection hstep with e; subst e
        exact sim_minus hD hrel hat g h (by omega) hv
  | bcompl =>
    by_cases h1 : s.sp < 1
    · rw [step3_bcompl E M s hc hf, if_pos h1] at hstep; cases hstep
    · cases hv : E.S.bnot (s.stk (s.sp - 1)) with
      | none => rw [step3_bcompl_none E M s hc hf h1 hv] at hstep; cases hstep
      | some v =>
        rw [step3_bcompl_some E M s hc hf h1 hv] at hstep
        injection hstep with e; subst e
        exact sim_bcompl hD hrel hat g h (by omega) hv
  | call nargs =>
    by_cases h0 : s.sp < nargs + 1
    · rw [step3_call E M s hc hf, if_pos h0] at hstep; cases hstep
    · cases hfn : E.asFn (s.stk (s.sp - 1 - nargs)) with
      | none => rw [step3_call_notCallable E M s hc hf h0 hfn] at hstep; cases hstep
      | some k =>
        cases hk : M.fns k with
        | none => rw [step3_call_dangling E M s hc hf h0 hfn hk] at hstep; cases hstep
        | some cf =>
          by_cases hn : nargs = cf.nparams
          · rw [step3_call_go E M s hc hf h0 hfn hk hn] at hstep
            cases htail : (s.fn == k + 1 && F3.tailNext is (s.ip + 3)) with
            | false =>
              rw [htail] at hstep
              simp only [Bool.false_eq_true, if_false] at hstep
              injection hstep with e; subst e
              exact sim_call_push hcode hrel hat g h (by omega) hfn hk hn htail hbsp hb.depth
            | true =>
              rw [htail] at hstep
              simp only [if_true] at hstep
              injection hstep with e; subst e
              exact sim_call_tail hcode hrel hat g h (by omega) hfn hk hn htail (hslot rfl)
          · rw [step3_call_arity E M s hc hf h0 hfn hk hn] at hstep; cases hstep
  | ret wv =>
    by_cases h0 : (wv && decide (s.sp < 1)) = true
    · rw [step3_ret E M s hc hf, if_pos h0] at hstep; cases hstep
    · cases hcs : s.callers with
      | nil => rw [step3_ret_main E M s hc hf h0 hcs] at hstep; cases hstep
      | cons fr rest =>
        rw [step3_ret_go E M s hc hf h0 hcs] at hstep
        injection hstep with e; subst e
        refine sim_ret hD hrel hat g h fr rest hcs ?_ hbsp
        intro hw
        subst hw
        simp only [Bool.true_and, decide_eq_true_eq] at h0
        omega

/-- **VM bridge for F3, the failing step.** A run-time error of the fragment's machine (operator without value,
not callable, wrong number of arguments) is an error of the VM's dispatch — never `fuel`. -/
theorem err_sim3 (hcode : CodeRel3 M K n E val ref code) (hD : DataRel E.S val) {s : F3.St V} {c : Core}
    (hrel : Rel3 M n val ref s c) (hstep : F3.step E M s = .err) (g : GSt) (h : Spec.St) :
    ∃ e, e ≠ Err.fuel ∧ XFail (exec code c) g h e := by
  cases hc : M.code s.fn with
  | none => simp [F3.step, hc] at hstep
  | some is =>
  cases hf : F3.fetch is s.ip with
  | none => simp [F3.step, hc, hf] at hstep
  | some i =>
  obtain ⟨f, pre, post, tl, hat⟩ := at_fetch3 (K := K) (n := n) hcode hc hf
  have hfn' : code.fn c.cur.fnIdx = some f := by rw [hrel.cur.fn]; exact hat.fn
  have hsp := hrel.sp
  cases i with
  | const k => rw [step3_const E M s hc hf] at hstep; cases hstep
  | tru => rw [step3_tru E M s hc hf] at hstep; cases hstep
  | fls => rw [step3_fls E M s hc hf] at hstep; cases hstep
  | null => rw [step3_null E M s hc hf] at hstep; cases hstep
  | getg j => rw [step3_getg E M s hc hf] at hstep; cases hstep
  | getl j => rw [step3_getl E M s hc hf] at hstep; cases hstep
  | jmp t => rw [step3_jmp E M s hc hf] at hstep; cases hstep
  | pop => rw [step3_pop E M s hc hf] at hstep; split at hstep <;> cases hstep
  | setg j => rw [step3_setg E M s hc hf] at hstep; split at hstep <;> cases hstep
  | setl j => rw [step3_setl E M s hc hf] at hstep; split at hstep <;> cases hstep
  | defl j => rw [step3_defl E M s hc hf] at hstep; split at hstep <;> cases hstep
  | jmpf t => rw [step3_jmpf E M s hc hf] at hstep; split at hstep <;> cases hstep
  | andjmp t =>
    rw [step3_andjmp E M s hc hf] at hstep
    split at hstep
    · cases hstep
    · rw [ite_next] at hstep; cases hstep
  | orjmp t =>
    rw [step3_orjmp E M s hc hf] at hstep
    split at hstep
    · cases hstep
    · rw [ite_next] at hstep; cases hstep
  | lnot => rw [step3_lnot E M s hc hf] at hstep; split at hstep <;> cases hstep
  | eql => rw [step3_eql E M s hc hf] at hstep; split at hstep <;> cases hstep
  | neq => rw [step3_neq E M s hc hf] at hstep; split at hstep <;> cases hstep
  | binop tok =>
    by_cases h1 : s.sp < 2
    · rw [step3_binop E M s hc hf, if_pos h1] at hstep; cases hstep
    · cases hv : E.S.binop tok (s.stk (s.sp - 2)) (s.stk (s.sp - 1)) with
      | some v => rw [step3_binop_some E M s hc hf h1 hv] at hstep; cases hstep
      | none =>
        obtain ⟨e, hne, he⟩ := hD.binop_err tok _ _ h hv
        refine ⟨e, hne, xfail_exec_of3 (i := .binop tok) trivial hfn' hrel.cur.ip hat.lt hat.fetch
          (xfail_exBinaryOp code c.cur tok 0 40 c.regs g h e (by omega)
            (by rw [rel_top hrel, rel_snd hrel]; exact he))⟩
  | minus =>
    by_cases h1 : s.sp < 1
    · rw [step3_minus E M s hc hf, if_pos h1] at hstep; cases hstep
    · cases hv : E.S.neg (s.stk (s.sp - 1)) with
      | some v => rw [step3_minus_some E M s hc hf h1 hv] at hstep; cases hstep
      | none =>
        obtain ⟨hn1, hn2⟩ := hD.neg_none _ hv
        obtain ⟨msg, he⟩ := xfail_exMinus code c.cur 0 0 7 c.regs g h (by omega)
          (by rw [rel_top hrel]; exact hn1) (by rw [rel_top hrel]; exact hn2)
        exact ⟨.runtime msg, fun hh => Err.noConfusion hh,
          xfail_exec_of3 (i := .minus) trivial hfn' hrel.cur.ip hat.lt hat.fetch he⟩
  | bcompl =>
    by_cases h1 : s.sp < 1
    · rw [step3_bcompl E M s hc hf, if_pos h1] at hstep; cases hstep
    · cases hv : E.S.bnot (s.stk (s.sp - 1)) with
      | some v => rw [step3_bcompl_some E M s hc hf h1 hv] at hstep; cases hstep
      | none =>
        have hn1 := hD.bnot_none _ hv
        obtain ⟨msg, he⟩ := xfail_exBComplement code c.cur 0 0 1 c.regs g h (by omega)
          (by rw [rel_top hrel]; exact hn1)
        exact ⟨.runtime msg, fun hh => Err.noConfusion hh,
          xfail_exec_of3 (i := .bcompl) trivial hfn' hrel.cur.ip hat.lt hat.fetch he⟩
  | call nargs =>
    by_cases h0 : s.sp < nargs + 1
    · rw [step3_call E M s hc hf, if_pos h0] at hstep; cases hstep
    · cases hfn : E.asFn (s.stk (s.sp - 1 - nargs)) with
      | none =>
        exact ⟨_, fun hh => Err.noConfusion hh, err_call_notCallable hcode hrel hat g h (by omega) hfn⟩
      | some k =>
        cases hk : M.fns k with
        | none => rw [step3_call_dangling E M s hc hf h0 hfn hk] at hstep; cases hstep
        | some cf =>
          by_cases hn : nargs = cf.nparams
          · rw [step3_call_go E M s hc hf h0 hfn hk hn] at hstep
            rw [ite_next] at hstep; cases hstep
          · exact ⟨_, fun hh => Err.noConfusion hh, err_call_arity hcode hrel hat g h (by omega) hfn hk hn⟩
  | ret wv =>
    rw [step3_ret E M s hc hf] at hstep
    split at hstep
    · cases hstep
    · split at hstep <;> cases hstep

/-- The error texts of the two failing `CALL`s, as vm.go words them. -/
theorem err_sim3_call (hcode : CodeRel3 M K n E val ref code) {s : F3.St V} {c : Core}
    (hrel : Rel3 M n val ref s c) {is : List F3.Ins} {nargs : Nat} (hc : M.code s.fn = some is)
    (hf : F3.fetch is s.ip = some (.call nargs)) (h0 : nargs + 1 ≤ s.sp) (g : GSt) (h : Spec.St) :
    (E.asFn (s.stk (s.sp - 1 - nargs)) = none →
      XFail (exec code c) g h (.runtime s!"not callable: {typeName (val (s.stk (s.sp - 1 - nargs)))}")) ∧
    (∀ k cf, E.asFn (s.stk (s.sp - 1 - nargs)) = some k → M.fns k = some cf → nargs ≠ cf.nparams →
      XFail (exec code c) g h (.runtime s!"wrong number of arguments: want={cf.nparams}, got={nargs}")) := by
  obtain ⟨f, pre, post, tl, hat⟩ := at_fetch3 (K := K) (n := n) hcode hc hf
  exact ⟨fun hfn => err_call_notCallable hcode hrel hat g h h0 hfn,
    fun k cf hfn hk hn => err_call_arity hcode hrel hat g h h0 hfn hk hn⟩

/-- **VM bridge for F3, the end.** At the end of the main function the VM dispatches SUSPEND and halts. -/
theorem halt_sim3 (hcode : CodeRel3 M K n E val ref code) {s : F3.St V} {c : Core}
    (hrel : Rel3 M n val ref s c) (hfn : s.fn = 0) (hend : s.ip = F3.csize M.main) (g : GSt) (h : Spec.St) :
    XOk (exec code c) g h (.halt { c with cur := { c.cur with ip := (s.ip : Int) } }) := by
  have hf : code.fn c.cur.fnIdx = some code.main := by
    have : c.cur.fnIdx = 0 := by rw [hrel.cur.fn]; exact hfn
    simp [Code.fn, this]
  have hop : (VM.fetch code.main (s.ip : Int)).op = Opcodes.opSuspend := by
    rw [fetch_op]
    have := byteAt0 code.main (encodeIns3 M.main) [UInt8.ofNat Opcodes.opSuspend] []
      (by rw [hcode.main]; simp) (UInt8.ofNat Opcodes.opSuspend) rfl
    rw [encodeIns3_length, ← hend] at this
    rw [this]; rfl
  have hlt : s.ip < code.main.insts.size := by
    rw [hcode.main, hend]
    simp [encodeIns3_length]
  rw [exec_suspend3 code c code.main s.ip hf hrel.cur.ip hlt hop]
  exact XOk.pure _ g h

end sim

end Tengo.Proofs.C01BridgeF3

import Tengo.Proofs.F3Loops
/-!
Fragment F3, whole programs: the induction on the fuel of the reference semantics over all five judgements
(`all_ok`) and `program_correct_F3`.
-/
set_option linter.unusedSimpArgs false
set_option linter.unusedVariables false
namespace Tengo.Model.F3
open Tengo.Model.F0 (Sem upd)
variable {V : Type}

/-- The five judgements at one fuel. -/
structure AllOk (E : Env V) (P : Prog) (f : Nat) : Prop where
  e : ∀ e, OkE E P f e
  es : ∀ es, OkEs E P f es
  call : OkCall E P f
  s : ∀ s, OkS E P f s
  ss : ∀ ss, OkSs E P f ss

/-- **F3 correctness** (every fuel; every expression, argument list, call, statement, statement list; every
frame, placement and pair of `break` / `continue` targets): see `OkE`, `OkEs`, `OkCall`, `OkS`, `OkSs`. -/
theorem all_ok (E : Env V) (P : Prog) (hP : ProgOk P) : ∀ f, AllOk E P f := by
  intro f
  induction f with
  | zero => exact ⟨okE_zero, okEs_zero, okCall_zero, okS_zero, okSs_zero⟩
  | succ f ih =>
    refine ⟨?_, ?_, okCall_succ hP f ih.ss, ?_, ?_⟩
    · intro e
      cases e with
      | lit k => exact okE_lit f k
      | tru => exact okE_tru f
      | fls => exact okE_fls f
      | undef => exact okE_undef f
      | glob i => exact okE_glob f i
      | loc i => exact okE_loc f i
      | bin tok a b => exact okE_bin f tok a b (ih.e a) (ih.e b)
      | eq a b => exact okE_eq f a b (ih.e a) (ih.e b)
      | ne a b => exact okE_ne f a b (ih.e a) (ih.e b)
      | neg a => exact okE_neg f a (ih.e a)
      | bnot a => exact okE_bnot f a (ih.e a)
      | lnot a => exact okE_lnot f a (ih.e a)
      | plus a => exact okE_plus f a (ih.e a)
      | cond c t e => exact okE_cond f c t e (ih.e c) (ih.e t) (ih.e e)
      | land a b => exact okE_land f a b (ih.e a) (ih.e b)
      | lor a b => exact okE_lor f a b (ih.e a) (ih.e b)
      | call fe args => exact okE_call f fe args (ih.e fe) (ih.es args) ih.call
    · intro es
      cases es with
      | nil => exact okEs_nil f
      | cons e es => exact okEs_cons f e es (ih.e e) (ih.es es)
    · intro s
      cases s with
      | expr e => exact okS_expr f e (ih.e e)
      | assign i e => exact okS_assign f i e (ih.e e)
      | defl i e => exact okS_defl f i e (ih.e e)
      | setl i e => exact okS_setl f i e (ih.e e)
      | ifs c body => exact okS_ifs f c body (ih.e c) (ih.ss body)
      | ifelse c body els => exact okS_ifelse f c body els (ih.e c) (ih.ss body) (ih.ss els)
      | whil c body => exact okS_whil f c body (ih.e c) (ih.ss body) (ih.s _)
      | forever body => exact okS_forever f body (ih.ss body) (ih.s _)
      | for3 c body post => exact okS_for3 f c body post (ih.e c) (ih.ss body) (ih.s post) (ih.s _)
      | brk => exact okS_brk f
      | cont => exact okS_cont f
      | ret e => exact okS_ret f e (ih.e e)
      | ret0 => exact okS_ret0 f
    · intro ss
      cases ss with
      | nil => exact okSs_nil f
      | cons s ss => exact okSs_cons f s ss (ih.s s) (ih.ss ss)

/-- **C01 on fragment F3 (first-order functions).**
For every data semantics `E`, every program `P` that is `ProgOk` (every function constant has its parameters
among its locals and its body writes only its own local slots; the main program has no local slots — what the
real compiler guarantees by construction), every fuel, every initial globals `g` and every initial content `stk`
of the value stack: if the reference semantics finishes with globals `g'`, the compiled program (`compProg P`:
main code + one compiled constant per function, bodies followed by `RET 0`) run on the machine from the start of
main with an empty stack and no frames reaches the end of the main code with an empty stack, no frames and
globals `g'`; a run-time error of the reference semantics (an operator without value, a call of a non-function,
a wrong number of arguments — in the main program or in any function activation) is a run-time error of the
machine. The machine `F3.step` INCLUDES the self-tail-call rule of vm.go (frame reuse for `return f(…)` and for
`f(…)` directly before a `RET`, with the `discardResult` mark), and the theorem covers it.
Nothing is claimed when the fuel runs out or the program is `bad` (reads a local it never assigned, leaves a
function or the main program by `break` / `continue`, `return`s from main).
NOT covered: the frame limit (1024) and the stack size (2048) of the VM — the machine is unbounded. -/
theorem program_correct_F3 (E : Env V) (P : Prog) (hP : ProgOk P) (f : Nat) (g stk : Nat → V) :
    (∀ g', exec E P f g = .done g' →
      ∃ stk', Runs E (compProg P) (St.init stk g) ⟨0, sssize P.main, 0, 0, stk', g', false, []⟩) ∧
    (exec E P f g = .err → Fails E (compProg P) (St.init stk g)) := by
  have h := (all_ok E P hP f).ss P.main g (fun _ => none) 0 (compProg P).main 0 0 0 0 0 0 stk false [] rfl
    (fun k fd hk _ => by omega) (At.whole _) hP.main (LocRel.none _ _ _) (Nat.le_refl _)
  unfold exec
  constructor
  · intro g' hg
    cases hr : execSs E P f P.main g (fun _ => none) with
    | done g1 l1 =>
      rw [hr] at h hg
      simp only [PRes.done.injEq] at hg
      subst hg
      rcases h with ⟨stk', hrun, _, _⟩ | ⟨hrn, _⟩
      · exact ⟨stk', by simpa [St.init] using hrun⟩
      · have hm : (compProg P).main = compSs 0 0 0 P.main := rfl
        have := retNext_end (compProg P).main
        rw [hm, csize_compSs] at this
        rw [hm] at hrn
        simp only [Nat.zero_add] at hrn
        rw [this] at hrn; cases hrn
    | brk _ _ => rw [hr] at hg; cases hg
    | cont _ _ => rw [hr] at hg; cases hg
    | ret _ _ => rw [hr] at hg; cases hg
    | err => rw [hr] at hg; cases hg
    | out => rw [hr] at hg; cases hg
    | bad => rw [hr] at hg; cases hg
  · intro hg
    cases hr : execSs E P f P.main g (fun _ => none) with
    | err => rw [hr] at h; exact h
    | done _ _ => rw [hr] at hg; cases hg
    | brk _ _ => rw [hr] at hg; cases hg
    | cont _ _ => rw [hr] at hg; cases hg
    | ret _ _ => rw [hr] at hg; cases hg
    | out => rw [hr] at hg; cases hg
    | bad => rw [hr] at hg; cases hg

end Tengo.Model.F3

import Tengo.Proofs.VMSafeCall
import Tengo.Proofs.DecodeAt
namespace Tengo.Model.VM
open Tengo.Model Tengo.Model.Spec Tengo.Model.Opcodes Tengo.Model.Verifier

/-! ### bytes of a decoded function -/

theorem byteAt_nat (f : Fn) (n : Nat) (b : UInt8) (h : f.insts.toList[n]? = some b) :
    byteAt f (n : Int) = b.toNat := by
  unfold byteAt
  have h0 : ¬ ((n : Int) < 0) := by omega
  simp only [h0, ↓reduceIte, Int.toNat_natCast]
  have : f.insts[n]? = some b := by simpa using h
  simp [Array.getD_eq_getD_getElem?, this]

theorem byteAt_off (f : Fn) (p k : Nat) (b : UInt8) (h : f.insts.toList[p + k]? = some b) :
    byteAt f ((p : Int) + (k : Int)) = b.toNat := by
  have := byteAt_nat f (p + k) b h
  rwa [Int.natCast_add] at this

theorem byteAt1 (f : Fn) (p : Nat) (b : UInt8) (h : f.insts.toList[p + 1]? = some b) :
    byteAt f ((p : Int) + 1) = b.toNat := byteAt_off f p 1 b h
theorem byteAt2 (f : Fn) (p : Nat) (b : UInt8) (h : f.insts.toList[p + 2]? = some b) :
    byteAt f ((p : Int) + 2) = b.toNat := byteAt_off f p 2 b h
theorem byteAt3 (f : Fn) (p : Nat) (b : UInt8) (h : f.insts.toList[p + 3]? = some b) :
    byteAt f ((p : Int) + 3) = b.toNat := byteAt_off f p 3 b h
theorem byteAt4 (f : Fn) (p : Nat) (b : UInt8) (h : f.insts.toList[p + 4]? = some b) :
    byteAt f ((p : Int) + 4) = b.toNat := byteAt_off f p 4 b h

section
variable (f : Fn) (is : List Instr) (hd : decode f.insts.toList = some is) (i : Instr) (hi : i ∈ is)
include hd hi

theorem op_at : byteAt f (i.pos : Int) = i.op ∧ i.pos < f.insts.size := by
  obtain ⟨ws, _, hlen, hop, _⟩ := decode_mem _ _ hd i hi
  cases hb : f.insts.toList[i.pos]? with
  | none => rw [hb] at hop; simp at hop
  | some b =>
    rw [hb] at hop
    simp only [Option.map_some, Option.some.injEq] at hop
    refine ⟨by rw [byteAt_nat f _ b hb, hop], ?_⟩
    have : i.pos < f.insts.toList.length := by
      rcases List.getElem?_eq_some_iff.mp hb with ⟨hlt, _⟩; exact hlt
    simpa using this

theorem link8 (hw : widths i.op = some [1]) : i.args = [byteAt f ((i.pos : Int) + 1)] := by
  obtain ⟨b0, h0, ha⟩ := decode_mem_op8 _ _ hd i hi hw
  rw [ha, byteAt1 f _ b0 h0]

theorem link16 (hw : widths i.op = some [2]) : i.args = [op16 f (i.pos : Int)] := by
  obtain ⟨b0, b1, h0, h1, ha⟩ := decode_mem_op16 _ _ hd i hi hw
  rw [ha]; unfold op16; rw [byteAt1 f _ b0 h0, byteAt2 f _ b1 h1]

theorem link32 (hw : widths i.op = some [4]) : i.args = [op32 f (i.pos : Int)] := by
  obtain ⟨b0, b1, b2, b3, h0, h1, h2, h3, ha⟩ := decode_mem_op32 _ _ hd i hi hw
  rw [ha]; unfold op32; rw [byteAt1 f _ b0 h0, byteAt2 f _ b1 h1, byteAt3 f _ b2 h2, byteAt4 f _ b3 h3]

theorem link8_8 (hw : widths i.op = some [1, 1]) :
    i.args = [byteAt f ((i.pos : Int) + 1), byteAt f ((i.pos : Int) + 2)] := by
  obtain ⟨b0, b1, h0, h1, ha⟩ := decode_mem_op8_8 _ _ hd i hi hw
  rw [ha, byteAt1 f _ b0 h0, byteAt2 f _ b1 h1]

theorem link16_8 (hw : widths i.op = some [2, 1]) :
    i.args = [op16 f (i.pos : Int), byteAt f ((i.pos : Int) + 3)] := by
  obtain ⟨b0, b1, b2, h0, h1, h2, ha⟩ := decode_mem_op16_8 _ _ hd i hi hw
  rw [ha]; unfold op16; rw [byteAt1 f _ b0 h0, byteAt2 f _ b1 h1, byteAt3 f _ b2 h2]

end

/-! ### fetching agrees with decoding -/

theorem widths_some_lt (op : Nat) (ws : List Nat) (h : widths op = some ws) : op < 42 := by
  by_cases hlt : op < 42
  · exact hlt
  · exfalso
    unfold widths at h
    have : table.find? (fun r => r.2.1 == op) = none := by
      apply List.find?_eq_none.mpr
      intro r hr
      simp only [table, List.mem_cons, List.mem_nil_iff, or_false] at hr
      rcases hr with rfl | rfl | rfl | rfl | rfl | rfl | rfl | rfl | rfl | rfl | rfl | rfl | rfl | rfl | rfl | rfl | rfl | rfl | rfl | rfl | rfl | rfl | rfl | rfl | rfl | rfl | rfl | rfl | rfl | rfl | rfl | rfl | rfl | rfl | rfl | rfl | rfl | rfl | rfl | rfl | rfl | rfl <;>
        simp <;> omega
    rw [this] at h
    cases h


/-- **Fetching agrees with decoding.** At the position of a decoded instruction, `fetch` yields that
instruction's opcode, its operands (absent ones read 0) and its size. -/
theorem fetch_decoded (f : Fn) (is : List Instr) (hd : decode f.insts.toList = some is) (i : Instr) (hi : i ∈ is) :
    fetch f (i.pos : Int) = { op := i.op, a0 := i.args.headD 0, a1 := (i.args.drop 1).headD 0, size := i.size } := by
  obtain ⟨hop, _⟩ := op_at f is hd i hi
  obtain ⟨ws, hws, _⟩ := decode_mem _ _ hd i hi
  have hlt := widths_some_lt _ _ hws
  have hsh : shape i.op = ws := by
    have := shape_eq_widths i.op hlt
    rw [hws] at this
    injection this with this
    exact this.symm
  have hsize : i.size = 1 + ws.sum := size_eq i ws hws
  unfold fetch
  dsimp only
  rw [hop, hsh]
  -- the six operand shapes
  have hcases : ws = [] ∨ ws = [1] ∨ ws = [2] ∨ ws = [4] ∨ ws = [1, 1] ∨ ws = [2, 1] := by
    rw [← hsh]
    have : ∀ op, op < 42 → shape op = [] ∨ shape op = [1] ∨ shape op = [2] ∨ shape op = [4] ∨ shape op = [1, 1] ∨ shape op = [2, 1] := by
      decide
    exact this _ hlt
  rcases hcases with rfl | rfl | rfl | rfl | rfl | rfl
  · have ha := decode_mem_op0 _ _ hd i hi hws
    simp [ha, hsize]
  · have ha := link8 f is hd i hi hws
    simp [ha, hsize]
  · have ha := link16 f is hd i hi hws
    simp [ha, hsize]
  · have ha := link32 f is hd i hi hws
    simp [ha, hsize]
  · have ha := link8_8 f is hd i hi hws
    simp [ha, hsize]
  · have ha := link16_8 f is hd i hi hws
    simp [ha, hsize]


/-! ### the opcode table, as rewrite rules -/

@[simp] theorem widths_Constant : widths 0 = some [2] := by decide
@[simp] theorem widths_BComplement : widths 1 = some [] := by decide
@[simp] theorem widths_Pop : widths 2 = some [] := by decide
@[simp] theorem widths_True : widths 3 = some [] := by decide
@[simp] theorem widths_False : widths 4 = some [] := by decide
@[simp] theorem widths_Equal : widths 5 = some [] := by decide
@[simp] theorem widths_NotEqual : widths 6 = some [] := by decide
@[simp] theorem widths_Minus : widths 7 = some [] := by decide
@[simp] theorem widths_LNot : widths 8 = some [] := by decide
@[simp] theorem widths_JumpFalsy : widths 9 = some [4] := by decide
@[simp] theorem widths_AndJump : widths 10 = some [4] := by decide
@[simp] theorem widths_OrJump : widths 11 = some [4] := by decide
@[simp] theorem widths_Jump : widths 12 = some [4] := by decide
@[simp] theorem widths_Null : widths 13 = some [] := by decide
@[simp] theorem widths_Array : widths 14 = some [2] := by decide
@[simp] theorem widths_Map : widths 15 = some [2] := by decide
@[simp] theorem widths_Error : widths 16 = some [] := by decide
@[simp] theorem widths_Immutable : widths 17 = some [] := by decide
@[simp] theorem widths_Index : widths 18 = some [] := by decide
@[simp] theorem widths_SliceIndex : widths 19 = some [] := by decide
@[simp] theorem widths_Call : widths 20 = some [1, 1] := by decide
@[simp] theorem widths_Return : widths 21 = some [1] := by decide
@[simp] theorem widths_GetGlobal : widths 22 = some [2] := by decide
@[simp] theorem widths_SetGlobal : widths 23 = some [2] := by decide
@[simp] theorem widths_SetSelGlobal : widths 24 = some [2, 1] := by decide
@[simp] theorem widths_GetLocal : widths 25 = some [1] := by decide
@[simp] theorem widths_SetLocal : widths 26 = some [1] := by decide
@[simp] theorem widths_DefineLocal : widths 27 = some [1] := by decide
@[simp] theorem widths_SetSelLocal : widths 28 = some [1, 1] := by decide
@[simp] theorem widths_GetFreePtr : widths 29 = some [1] := by decide
@[simp] theorem widths_GetFree : widths 30 = some [1] := by decide
@[simp] theorem widths_SetFree : widths 31 = some [1] := by decide
@[simp] theorem widths_GetLocalPtr : widths 32 = some [1] := by decide
@[simp] theorem widths_SetSelFree : widths 33 = some [1, 1] := by decide
@[simp] theorem widths_GetBuiltin : widths 34 = some [1] := by decide
@[simp] theorem widths_Closure : widths 35 = some [2, 1] := by decide
@[simp] theorem widths_IteratorInit : widths 36 = some [] := by decide
@[simp] theorem widths_IteratorNext : widths 37 = some [] := by decide
@[simp] theorem widths_IteratorKey : widths 38 = some [] := by decide
@[simp] theorem widths_IteratorValue : widths 39 = some [] := by decide
@[simp] theorem widths_BinaryOp : widths 40 = some [1] := by decide
@[simp] theorem widths_Suspend : widths 41 = some [] := by decide

/-! ### the instruction a frame is about to dispatch -/

/-- Facts about the instruction a frame is about to dispatch (all derived from `checkProgram`). -/
structure AtInstr (code : Code) (t : ProgTabs) (G : Nat) (f : Fn) (ft : FnTab) (fr : Frame) (r : Regs)
    (i : Instr) (h : Nat) : Prop where
  dec : decode f.insts.toList = some ft.is
  mem : i ∈ ft.is
  ipEq : fr.ip + 1 = (i.pos : Int)
  hget : ft.hm.get i.pos = some h
  spEq : r.sp = fr.bp + f.numLocals + h
  chk : checkInstr ft.is ft.hm heightLimit i = true
  opd : operandOk (envOf code t G fr.fnIdx f) i = none
  ext : extraOk code t fr.fnIdx f.insts.toList ft.hm i = true
  freeLen : fr.free.length = t.free fr.fnIdx
  gl : r.globals.size = G

section
variable {code : Code} {t : ProgTabs} {G : Nat} {f : Fn} {ft : FnTab} {fr : Frame} {r : Regs} {i : Instr} {h : Nat}

theorem AtInstr.succs_ok (ctx : AtInstr code t G f ft fr r i h) :
    ∃ l, succs i h = some l ∧
      ∀ p' h', (p', h') ∈ l → (instrAt ft.is p').isSome = true ∧ ft.hm.get p' = some h' := by
  have hc := ctx.chk
  unfold checkInstr at hc
  rw [ctx.hget] at hc
  simp only [Bool.and_eq_true, decide_eq_true_eq] at hc
  cases hs : succs i h with
  | none => rw [hs] at hc; simp at hc
  | some l =>
    rw [hs] at hc
    refine ⟨l, rfl, ?_⟩
    intro p' h' hm
    have := (List.all_eq_true.mp hc.2) (p', h') hm
    simpa using this

/-- Where a simple instruction leaves the frame: at an instruction boundary whose tabulated height
matches the stack pointer. -/
def Landed (ft : FnTab) (f : Fn) (fr : Frame) (G : Nat) (i : Instr) (o : SimpleOut) : Prop :=
  ∃ p' h', (instrAt ft.is p').isSome = true ∧ ft.hm.get p' = some h' ∧
    (match o.next with | .seq => p' = i.pos + i.size | .jump t => p' = t) ∧
    o.regs.sp = fr.bp + f.numLocals + h' ∧ o.regs.globals.size = G

theorem AtInstr.plain (ctx : AtInstr code t G f ft fr r i h) (pops pushes : Nat)
    (hs : succs i h = if h < pops then none else some [(i.pos + i.size, h - pops + pushes)]) :
    pops ≤ h ∧ ∀ o, Eff r pops pushes o → o.next = .seq → Landed ft f fr G i o ∧ o.regs.fobjs = r.fobjs := by
  obtain ⟨l, hl, hall⟩ := ctx.succs_ok
  rw [hs] at hl
  split at hl
  · cases hl
  · rename_i hge
    injection hl with hl
    subst hl
    refine ⟨by omega, ?_⟩
    intro o he hn
    obtain ⟨h1, h2⟩ := hall _ _ (List.mem_singleton.mpr rfl)
    refine ⟨⟨_, _, h1, h2, ?_, ?_, ?_⟩, he.fo⟩
    · rw [hn]
    · have := he.sp; have := ctx.spEq; omega
    · rw [he.gl, ctx.gl]

end
end Tengo.Model.VM

import Tengo.Model.SpecEval
/-!
C19, enum module on the reference interpreter (`Spec.evalExpr`), layer 0: running the interpreter's monad,
heap extension (`Ext`), variables (`Var`), arrays (`ArrAt`), the callback contract (`CallsAs`).
-/
set_option linter.unusedVariables false
set_option linter.unusedSimpArgs false
namespace Tengo.Proofs.C19Enum
open Tengo.Model Tengo.Model.Spec

theorem em_bind {α β : Type} (x : EM α) (f : α → EM β) (gs : GSt) (σ : St) :
    (x >>= f) gs σ =
      match x gs σ with
      | .ok ((a, gs'), σ') => f a gs' σ'
      | .error e => .error e := by
  show (StateT.bind x f) gs σ = _
  unfold StateT.bind
  show (StateT.bind (x gs) _) σ = _
  unfold StateT.bind
  simp only [bind, Except.bind]
  cases x gs σ with
  | error e => rfl
  | ok p => obtain ⟨⟨a, gs'⟩, σ'⟩ := p; rfl

theorem em_bind_ok {α β : Type} {x : EM α} {f : α → EM β} {gs gs' : GSt} {σ σ' : St} {a : α}
    (h : x gs σ = .ok ((a, gs'), σ')) : (x >>= f) gs σ = f a gs' σ' := by
  rw [em_bind, h]

theorem em_pure {α : Type} (a : α) (gs : GSt) (σ : St) : (pure a : EM α) gs σ = .ok ((a, gs), σ) := rfl

theorem liftM_ok {α : Type} {m : M α} {gs : GSt} {σ σ' : St} {a : α} (hm : m σ = .ok (a, σ')) :
    (Spec.liftM m) gs σ = .ok ((a, gs), σ') := by
  unfold Spec.liftM
  show (StateT.lift m gs) σ = _
  unfold StateT.lift
  show (StateT.bind m _) σ = _
  unfold StateT.bind
  simp only [hm, bind, Except.bind]
  rfl

/-- The append bookkeeping only mentions references of the heap. -/
def WfApp (σ : St) : Prop := ∀ r, σ.heap.size ≤ r → σ.appendedFrom.lookup r = none

/-- `σ'` extends `σ`: every object of `σ` is still there, the append bookkeeping of the references of `σ`
and the dirty list are unchanged (new references may have been appended to), well-formedness is kept. -/
structure Ext (σ σ' : St) : Prop where
  keep : ∀ (r : Nat) (o : Obj), σ.heap[r]? = some o → σ'.heap[r]? = some o
  app : ∀ r, r < σ.heap.size → σ'.appendedFrom.lookup r = σ.appendedFrom.lookup r
  dirty : σ'.dirty = σ.dirty
  wf : WfApp σ → WfApp σ'

theorem lt_size_of_get {σ : St} {r : Nat} {o : Obj} (h : σ.heap[r]? = some o) : r < σ.heap.size := by
  rcases Nat.lt_or_ge r σ.heap.size with hc | hc
  · exact hc
  · have : σ.heap[r]? = none := by simp; omega
    rw [this] at h; cases h

theorem Ext.size_le {σ σ' : St} (h : Ext σ σ') : σ.heap.size ≤ σ'.heap.size := by
  rcases Nat.eq_zero_or_pos σ.heap.size with h0 | hp
  · omega
  · have hlt : σ.heap.size - 1 < σ.heap.size := by omega
    have := lt_size_of_get (h.keep (σ.heap.size - 1) _ (Array.getElem?_eq_getElem hlt))
    omega

theorem Ext.refl (σ : St) : Ext σ σ := ⟨fun _ _ h => h, fun _ _ => rfl, rfl, fun h => h⟩
theorem Ext.trans {a b c : St} (h1 : Ext a b) (h2 : Ext b c) : Ext a c :=
  ⟨fun r o h => h2.keep r o (h1.keep r o h),
   fun r hr => (h2.app r (Nat.lt_of_lt_of_le hr h1.size_le)).trans (h1.app r hr),
   h2.dirty.trans h1.dirty, fun h => h2.wf (h1.wf h)⟩

def pushSt (σ : St) (o : Obj) : St := { σ with heap := σ.heap.push o }

theorem alloc_run (o : Obj) (σ : St) : alloc o σ = .ok (σ.heap.size, pushSt σ o) := rfl

theorem pushSt_new (σ : St) (o : Obj) : (pushSt σ o).heap[σ.heap.size]? = some o := by
  simp [pushSt]

theorem pushSt_size (σ : St) (o : Obj) : (pushSt σ o).heap.size = σ.heap.size + 1 := by simp [pushSt]

theorem ext_push (σ : St) (o : Obj) : Ext σ (pushSt σ o) := by
  refine ⟨fun r o' h => ?_, fun _ _ => rfl, rfl, fun hw r hr => hw r (by rw [pushSt_size] at hr; omega)⟩
  have hr : r < σ.heap.size := lt_size_of_get h
  simp only [pushSt]
  rw [Array.getElem?_push_lt hr]
  simpa [Array.getElem?_eq_getElem hr] using h

theorem getObj_run {r : Nat} {σ : St} {o : Obj} (h : σ.heap[r]? = some o) : getObj r σ = .ok (o, σ) := by
  show (do let s ← get; match s.heap[r]? with | some o => pure o | none => throw (Err.unsupported "dangling reference") : M Obj) σ = _
  show (StateT.bind get _) σ = _
  unfold StateT.bind
  show (match σ.heap[r]? with | some o => (pure o : M Obj) | none => throw (Err.unsupported "dangling reference")) σ = _
  rw [h]; rfl

/-- Name `n` resolves in `env` to a cell of `σ` holding `val`. -/
def Var (σ : St) (env : Env) (n : String) (val : Value) : Prop :=
  ∃ c b, lookupVar env n = some c ∧ σ.heap[c]? = some (.cell val b)

theorem Var.ext {σ σ' : St} {env : Env} {n : String} {val : Value} (h : Var σ env n val) (he : Ext σ σ') :
    Var σ' env n val := by
  obtain ⟨c, b, h1, h2⟩ := h
  exact ⟨c, b, h1, he.keep _ _ h2⟩

theorem lookupVar_cons (f : Frame) (E : Env) (n : String) :
    lookupVar (f :: E) n = match f.vars.lookup n with | some r => some r | none => lookupVar E n := by
  unfold lookupVar
  rw [List.findSome?_cons]
  cases f.vars.lookup n <;> rfl

theorem readVar_run {σ : St} {env : Env} {n : String} {val : Value} (h : Var σ env n val) (gs : GSt) :
    readVar env n gs σ = .ok ((val, gs), σ) := by
  obtain ⟨c, b, h1, h2⟩ := h
  unfold readVar
  simp only [h1]
  rw [em_bind_ok (liftM_ok (getObj_run h2))]
  rfl

/-- The array header `r` of `σ` reads as `es`. -/
structure ArrAt (σ : St) (r st : Nat) (es : List Value) : Prop where
  hdr : ∃ off len, σ.heap[r]? = some (.arr st off len) ∧
    ∃ vs h, σ.heap[st]? = some (.store vs h) ∧ (vs.toList.drop off).take len = es
  clean : σ.appendedFrom.lookup r = none

theorem ArrAt.ext {σ σ' : St} {r st : Nat} {es : List Value} (h : ArrAt σ r st es) (he : Ext σ σ') :
    ArrAt σ' r st es := by
  obtain ⟨⟨off, len, h1, vs, hh, h2, h3⟩, hc⟩ := h
  exact ⟨⟨off, len, he.keep _ _ h1, vs, hh, he.keep _ _ h2, h3⟩, by rw [he.app r (lt_size_of_get h1)]; exact hc⟩

theorem m_bind_ok {α β : Type} {x : M α} {f : α → M β} {σ σ' : St} {a : α}
    (h : x σ = .ok (a, σ')) : (x >>= f) σ = f a σ' := by
  show (StateT.bind x f) σ = _
  unfold StateT.bind
  simp only [h, bind, Except.bind]

theorem arrElems_run {σ : St} {r st : Nat} {es : List Value} (h : ArrAt σ r st es) :
    arrElems r σ = .ok (es, σ) := by
  obtain ⟨⟨off, len, h1, vs, hh, h2, h3⟩, hc⟩ := h
  unfold arrElems
  rw [m_bind_ok (show (get : M St) σ = .ok (σ, σ) from rfl)]
  simp only [hc]
  rw [m_bind_ok (getObj_run h1)]
  simp only []
  rw [m_bind_ok (getObj_run h2)]
  simp only [h3]
  rfl

/-- Values whose truthiness does not read the heap. -/
def Scalar : Value → Bool
  | .arr _ | .imarr _ | .map _ | .immap _ | .cfn _ | .ptr _ | .iter _ => false
  | _ => true

/-- Falsiness of a scalar value (docs/runtime-types.md). -/
def falsy : Value → Bool
  | .undef => true
  | .bool b => !b
  | .int v => v == 0
  | .float f => f.isNaN
  | .char v => v == 0
  | .str b => b.isEmpty
  | .bytes b => b.isEmpty
  | .err _ => true
  | _ => false

def truthy (v : Value) : Bool := !falsy v

theorem isFalsy_run {v : Value} (h : Scalar v = true) (σ : St) : isFalsy v σ = .ok (falsy v, σ) := by
  cases v <;> first | rfl | (simp [Scalar] at h)

end Tengo.Proofs.C19Enum
